// C03/C06/C10: error analysis.
#include "svh.h"

using namespace stim;

// #analyze decompose fold allow_gauge approx_threshold ignore_fail block_remnant flatten ; circuit -> DEM text lines, or ERR
SVH_CMD(analyze) {
    bool decompose = req.iarg(0) != 0, fold = req.iarg(1) != 0, gauge = req.iarg(2) != 0;
    double approx = std::stod(req.arg(3, "0"));
    bool ignore_fail = req.iarg(4) != 0, block = req.iarg(5) != 0, flatten = req.iarg(6, 1) != 0;
    Circuit c(req.payload());
    DetectorErrorModel dem =
        ErrorAnalyzer::circuit_to_detector_error_model(c, decompose, fold, gauge, approx, ignore_fail, block);
    if (flatten) {
        dem = dem.flattened();
    }
    out << "NDET " << dem.count_detectors() << " NOBS " << dem.count_observables() << "\n";
    out << dem.str() << "\n";
}
