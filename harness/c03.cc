// C03/C06/C10: error analysis.
#include "svh.h"

using namespace stim;

// #analyze decompose fold allow_gauge approx_threshold ignore_fail block_remnant flatten ; circuit -> DEM text lines, or ERR
SVH_CMD(analyze) {
    bool decompose = req.iarg(0) != 0, fold = req.iarg(1) != 0, gauge = req.iarg(2) != 0;
    double approx = std::stod(req.arg(3, "0"));
    bool ignore_fail = req.iarg(4) != 0, block = req.iarg(5) != 0, flatten = req.iarg(6, 1) != 0;
    Circuit c(req.payload());
    DetectorErrorModel dem =
        ErrorAnalyzer::circuit_to_detector_error_model(c, decompose, fold, gauge, approx, ignore_fail, block);
    if (flatten) {
        dem = dem.flattened();
    }
    out << "NDET " << dem.count_detectors() << " NOBS " << dem.count_observables() << "\n";
    out << dem.str() << "\n";
}

// #revloop ; circuit whose FIRST top-level REPEAT block is the loop under test. The instructions after it are undone first,
// then the block is undone once with undo_loop (folding) and once with undo_loop_by_unrolling; both states are printed.
static std::string tracker_state(const SparseUnsignedRevFrameTracker &t) {
    std::ostringstream ss;
    ss << "m=" << t.num_measurements_in_past << " d=" << t.num_detectors_in_past;
    for (size_t q = 0; q < t.xs.size(); q++) {
        ss << " x" << q << "=";
        for (auto e : t.xs[q]) ss << e.str() << ",";
        ss << " z" << q << "=";
        for (auto e : t.zs[q]) ss << e.str() << ",";
    }
    for (const auto &kv : t.rec_bits) {
        if (kv.second.empty()) continue;
        ss << " r" << kv.first << "=";
        for (auto e : kv.second) ss << e.str() << ",";
    }
    return ss.str();
}
SVH_CMD(revloop) {
    Circuit c(req.payload());
    size_t loop_index = SIZE_MAX;
    for (size_t k = 0; k < c.operations.size(); k++) {
        if (c.operations[k].gate_type == GateType::REPEAT) {
            loop_index = k;
            break;
        }
    }
    if (loop_index == SIZE_MAX) {
        out << "NOLOOP\n";
        return;
    }
    SparseUnsignedRevFrameTracker t(c.count_qubits(), c.count_measurements(), c.count_detectors(), false);
    for (size_t k = c.operations.size(); k-- > loop_index + 1;) {
        t.undo_gate(c.operations[k], c);
    }
    const auto &op = c.operations[loop_index];
    const Circuit &body = op.repeat_block_body(c);
    uint64_t reps = op.repeat_block_rep_count();
    SparseUnsignedRevFrameTracker t1 = t, t2 = t;
    t1.undo_loop(body, reps);
    out << "FOLD " << tracker_state(t1) << "\n";
    // the unrolled reference is only computed when it is cheap enough (its running time is not part of any property)
    uint64_t budget = (uint64_t)req.iarg(0, 150000);
    uint64_t body_ops = body.flattened().operations.size() + 1;
    if (reps > budget / body_ops) {
        out << "UNROLL-SKIPPED " << reps << " x " << body_ops << "\n";
        return;
    }
    t2.undo_loop_by_unrolling(body, reps);
    out << "UNROLL " << tracker_state(t2) << "\n";
}
