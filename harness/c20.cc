// C20: bit-vector / bit-matrix kernels against their bit-by-bit definitions, per word width.
#include "svh.h"

using namespace stim;

typedef std::vector<std::vector<bool>> Mat;

static uint64_t splitmix(uint64_t &s) {
    s += 0x9e3779b97f4a7c15ULL;
    uint64_t z = s;
    z = (z ^ (z >> 30)) * 0xbf58476d1ce4e5b9ULL;
    z = (z ^ (z >> 27)) * 0x94d049bb133111ebULL;
    return z ^ (z >> 31);
}

static Mat make(size_t r, size_t c, int pattern, uint64_t &seed) {
    Mat m(r, std::vector<bool>(c, false));
    for (size_t i = 0; i < r; i++)
        for (size_t j = 0; j < c; j++) {
            switch (pattern) {
                case 0: m[i][j] = splitmix(seed) & 1; break;                       // dense random
                case 1: m[i][j] = true; break;                                     // all ones
                case 2: m[i][j] = (i * 7 + j * 13) % 11 == 0; break;               // structured sparse
                case 3: m[i][j] = (i == j); break;                                 // identity-like
                default: m[i][j] = (splitmix(seed) % 37) == 0; break;              // sparse random
            }
        }
    return m;
}

template <size_t W>
static simd_bit_table<W> to_table(const Mat &m, size_t r, size_t c) {
    simd_bit_table<W> t(r, c);
    for (size_t i = 0; i < r; i++)
        for (size_t j = 0; j < c; j++) t[i][j] = m[i][j];
    return t;
}

template <size_t W>
static void c20_table(const Req &req, std::ostream &out) {
    // #c20_table W rows cols pattern seed
    size_t r = (size_t)req.iarg(1), c = (size_t)req.iarg(2);
    int pattern = (int)req.iarg(3);
    uint64_t seed = (uint64_t)req.iarg(4);
    Mat m = make(r, c, pattern, seed);
    auto t = to_table<W>(m, r, c);
    size_t bad = 0;
    auto fail = [&](const char *what, size_t i, size_t j) {
        if (bad++ < 3) out << "MISMATCH " << what << " at " << i << "," << j << "\n";
    };
    // transposed()
    {
        auto tt = t.transposed();
        for (size_t i = 0; i < r; i++)
            for (size_t j = 0; j < c; j++)
                if (tt[j][i] != m[i][j]) fail("transposed", i, j);
        // padding of the source must not leak: entries beyond the logical size in the padded region of the transposed table
        // correspond to padding of the source, which was zero
        for (size_t j = 0; j < tt.num_major_bits_padded() && j < c + 8; j++)
            for (size_t i = r; i < tt.num_minor_bits_padded() && i < r + 8; i++)
                if (tt[j][i]) fail("transposed-padding", i, j);
    }
    // transpose_into
    {
        simd_bit_table<W> o(c, r);
        for (size_t j = 0; j < c; j++)
            for (size_t i = 0; i < r; i++) o[j][i] = ((i + j) & 1);  // dirty destination
        t.transpose_into(o);
        for (size_t i = 0; i < r; i++)
            for (size_t j = 0; j < c; j++)
                if (o[j][i] != m[i][j]) fail("transpose_into", i, j);
    }
    // slice_maj
    if (r >= 2) {
        size_t a = r / 3, b = r - r / 4;
        auto s = t.slice_maj(a, b);
        for (size_t i = a; i < b; i++)
            for (size_t j = 0; j < c; j++)
                if (s[i - a][j] != m[i][j]) fail("slice_maj", i, j);
    }
    // read_across_majors_at_minor_index
    if (c > 0 && r > 0) {
        size_t col = c / 2;
        auto v = t.read_across_majors_at_minor_index(0, r, col);
        for (size_t i = 0; i < r; i++)
            if (v[i] != m[i][col]) fail("read_across_majors", i, col);
    }
    // concat_major
    if (r >= 2) {
        size_t a = r / 2;
        auto first = t.slice_maj(0, a);
        auto second = t.slice_maj(a, r);
        auto cc = first.concat_major(second, a, r - a);
        for (size_t i = 0; i < r; i++)
            for (size_t j = 0; j < c; j++)
                if (cc[i][j] != m[i][j]) fail("concat_major", i, j);
    }
    // resize / copy_into_different_size_table preserve the overlap
    {
        auto t2 = t;
        t2.resize(r + 70, c + 70);
        for (size_t i = 0; i < r; i++)
            for (size_t j = 0; j < c; j++)
                if (t2[i][j] != m[i][j]) fail("resize-grow", i, j);
        for (size_t i = 0; i < r + 70; i++)
            for (size_t j = 0; j < c + 70; j++)
                if ((i >= r || j >= c) && t2[i][j]) fail("resize-grow-new-bits", i, j);
    }
    // square operations
    if (r == c && r > 0) {
        size_t n = r;
        auto sq = t;
        sq.do_square_transpose();
        for (size_t i = 0; i < n; i++)
            for (size_t j = 0; j < n; j++)
                if (sq[j][i] != m[i][j]) fail("do_square_transpose", i, j);
        uint64_t s2 = seed ^ 0x1234567;
        Mat m2 = make(n, n, 0, s2);
        auto t2 = to_table<W>(m2, n, n);
        auto prod = t.square_mat_mul(t2, n);
        if (n <= 200) {
            for (size_t i = 0; i < n; i++)
                for (size_t j = 0; j < n; j++) {
                    bool acc = false;
                    for (size_t k = 0; k < n; k++) acc ^= (m[i][k] && m2[k][j]);
                    if (prod[i][j] != acc) fail("square_mat_mul", i, j);
                }
        }
        // lower triangular with unit diagonal: a dense one, and sparse ones whose few off-diagonal bits sit at and next to
        // 64-bit word boundaries (word-skipping shortcuts in the elimination must not lose them)
        for (int variant = 0; variant < 8; variant++) {
            Mat lt(n, std::vector<bool>(n, false));
            for (size_t i = 0; i < n; i++) lt[i][i] = true;
            if (variant == 0) {
                for (size_t i = 0; i < n; i++)
                    for (size_t j = 0; j < i; j++) lt[i][j] = m2[i][j];
            } else if (n >= 2) {
                uint64_t st = seed * 6364136223846793005ULL + 1442695040888963407ULL * (uint64_t)(variant + 1);
                auto nxt = [&]() {
                    st = st * 6364136223846793005ULL + 1442695040888963407ULL;
                    return st >> 33;
                };
                size_t nbits = variant <= 3 ? 1 : (variant <= 5 ? 3 : n / 3 + 1);
                for (size_t b = 0; b < nbits; b++) {
                    size_t i = 1 + nxt() % (n - 1);
                    size_t j = nxt() % i;
                    if (nxt() % 2 == 0 && i > 64) {
                        // snap the column to a word boundary or its neighbours
                        size_t base = 64 * (1 + nxt() % (i / 64));
                        size_t off[3] = {0, 1, 63};
                        size_t cand = base - 64 + off[nxt() % 3] + (nxt() % 2 ? 64 : 0);
                        if (cand < i) j = cand;
                    }
                    lt[i][j] = true;
                }
            }
            auto tl = to_table<W>(lt, n, n);
            auto inv = tl.inverse_assuming_lower_triangular(n);
            if (n <= 200) {
                for (size_t i = 0; i < n; i++)
                    for (size_t j = 0; j < n; j++) {
                        bool acc = false;
                        for (size_t k = 0; k < n; k++) acc ^= (lt[i][k] && (bool)inv[k][j]);
                        if (acc != (i == j)) fail("inverse_assuming_lower_triangular", i, j);
                    }
            }
        }
    }
    out << "DONE " << bad << "\n";
}
SVH_CMD(c20_table) {
    long long w = req.iarg(0, 64);
    if (w == 64) c20_table<64>(req, out);
    else if (w == 128) c20_table<128>(req, out);
    else c20_table<256>(req, out);
}

template <size_t W>
static void c20_bits(const Req &req, std::ostream &out) {
    // #c20_bits W n pattern seed
    size_t n = (size_t)req.iarg(1);
    int pattern = (int)req.iarg(2);
    uint64_t seed = (uint64_t)req.iarg(3);
    Mat m = make(3, n, pattern, seed);
    simd_bits<W> a(n), b(n), c(n);
    for (size_t k = 0; k < n; k++) {
        a[k] = m[0][k];
        b[k] = m[1][k];
        c[k] = m[2][k];
    }
    size_t bad = 0;
    auto fail = [&](const char *what, size_t i) {
        if (bad++ < 3) out << "MISMATCH " << what << " at " << i << "\n";
    };
    {
        auto x = a;
        x ^= b;
        for (size_t k = 0; k < n; k++)
            if (x[k] != (m[0][k] != m[1][k])) fail("xor", k);
        auto y = a;
        y &= b;
        for (size_t k = 0; k < n; k++)
            if (y[k] != (m[0][k] && m[1][k])) fail("and", k);
        auto z = a;
        z |= b;
        for (size_t k = 0; k < n; k++)
            if (z[k] != (m[0][k] || m[1][k])) fail("or", k);
    }
    {
        size_t pc = 0;
        for (size_t k = 0; k < n; k++) pc += m[0][k];
        if (a.popcnt() != pc) fail("popcnt", pc);
        if (a.not_zero() != (pc != 0)) fail("not_zero", pc);
        size_t tz = 0;
        while (tz < n && !m[0][tz]) tz++;
        if (pc && a.countr_zero() != tz) fail("countr_zero", tz);
        bool inter = false, sub = true;
        for (size_t k = 0; k < n; k++) {
            inter |= m[0][k] && m[1][k];
            sub &= !m[0][k] || m[1][k];
        }
        if (a.intersects(b) != inter) fail("intersects", 0);
        if (a.is_subset_of_or_equal_to(b) != sub) fail("is_subset_of_or_equal_to", 0);
        bool eq = true;
        for (size_t k = 0; k < n; k++) eq &= m[0][k] == m[1][k];
        if ((a == b) != eq) fail("operator==", 0);
        auto a2 = a;
        if (!(a2 == a)) fail("operator==-self", 0);
    }
    {
        // truncated_overwrite_from / clear_bits_past / prefix
        size_t keep = n / 3 + (n > 3 ? 1 : 0);
        auto x = b;
        x.truncated_overwrite_from(a, keep);
        for (size_t k = 0; k < n; k++) {
            bool want = k < keep ? m[0][k] : false;
            // documented: bits past num_bits within the touched words are cleared; beyond that unchanged or cleared
            if (k < keep && x[k] != want) fail("truncated_overwrite_from", k);
        }
        auto y = a;
        y.clear_bits_past(keep);
        for (size_t k = 0; k < n; k++)
            if (y[k] != (k < keep ? m[0][k] : false)) fail("clear_bits_past", k);
        auto z = a;
        z.invert_bits();
        for (size_t k = 0; k < n; k++)
            if (z[k] == m[0][k]) fail("invert_bits", k);
    }
    {
        // preserving / destructive resize
        auto x = a;
        x.preserving_resize(n + 100);
        for (size_t k = 0; k < n; k++)
            if (x[k] != m[0][k]) fail("preserving_resize", k);
        for (size_t k = n; k < n + 100; k++)
            if (x[k] && k >= a.num_bits_padded()) fail("preserving_resize-new-bits", k);
        auto y = a;
        y.preserving_resize(n / 2);
        for (size_t k = 0; k < n / 2; k++)
            if (y[k] != m[0][k]) fail("preserving_resize-shrink", k);
    }
    {
        // masked randomisation: only the first num_bits may change
        std::mt19937_64 rng(seed);
        auto x = a;
        size_t nb = n / 2;
        x.randomize(nb, rng);
        for (size_t k = nb; k < n; k++)
            if (x[k] != m[0][k]) fail("randomize-touches-bits-past-num_bits", k);
    }
    out << "DONE " << bad << "\n";
}
SVH_CMD(c20_bits) {
    long long w = req.iarg(0, 64);
    if (w == 64) c20_bits<64>(req, out);
    else if (w == 128) c20_bits<128>(req, out);
    else c20_bits<256>(req, out);
}

// #transpose64 ; payload: 64 hex words -> 64 hex words after inplace_transpose_64x64
SVH_CMD(transpose64) {
    uint64_t data[64];
    for (size_t k = 0; k < 64; k++) data[k] = std::stoull(req.lines.at(k), nullptr, 16);
    inplace_transpose_64x64(data, 1);
    for (size_t k = 0; k < 64; k++) {
        char buf[32];
        snprintf(buf, sizeof(buf), "%016llx", (unsigned long long)data[k]);
        out << buf << "\n";
    }
}

// #widthdiff kind seed ; the same deterministic computation under W = 64, 128, 256 -> one line per width, which must be identical
SVH_CMD(widthdiff) {
    std::string kind = req.arg(0, "tableau");
    uint64_t seed = (uint64_t)req.iarg(1);
    size_t n = (size_t)req.iarg(2, 5);
    auto run = [&](auto tag) -> std::string {
        constexpr size_t W = decltype(tag)::value;
        std::ostringstream ss;
        std::mt19937_64 rng(seed);
        if (kind == "tableau") {
            auto t = Tableau<W>::random(n, rng);
            auto u = Tableau<W>::random(n, rng);
            ss << t.then(u).str() << "|" << t.inverse().str() << "|" << t.raised_to(5).str();
        } else if (kind == "tsim") {
            Circuit c(req.payload());
            auto r = TableauSimulator<W>::sample_circuit(c, rng, 0);
            for (size_t k = 0; k < c.count_measurements(); k++) ss << (r[k] ? '1' : '0');
            ss << "|";
            auto ref = TableauSimulator<W>::reference_sample_circuit(c);
            for (size_t k = 0; k < c.count_measurements(); k++) ss << (ref[k] ? '1' : '0');
        } else if (kind == "convert") {
            Circuit c(req.payload());
            auto t = circuit_to_tableau<W>(c, true, true, true);
            ss << t.str() << "|" << tableau_to_circuit<W>(t, "elimination").str();
        }
        return ss.str();
    };
    std::string a = run(std::integral_constant<size_t, 64>{});
    std::string b = run(std::integral_constant<size_t, 128>{});
    std::string c = run(std::integral_constant<size_t, 256>{});
    out << (a == b && b == c ? "SAME" : "DIFFERENT") << "\n";
    if (!(a == b && b == c)) {
        out << "W64 " << a.substr(0, 300) << "\nW128 " << b.substr(0, 300) << "\nW256 " << c.substr(0, 300) << "\n";
    }
}
