// C09: result data formats — every writer and reader entry point.
#include <cstdio>

#include "svh.h"

using namespace stim;

#define BY_W(fn, ...)                                  \
    do {                                               \
        long long w = req.iarg(0, 64);                 \
        if (w == 64) fn<64>(__VA_ARGS__);              \
        else if (w == 128) fn<128>(__VA_ARGS__);       \
        else fn<256>(__VA_ARGS__);                     \
    } while (0)

static std::string slurp(FILE *f) {
    std::string s;
    rewind(f);
    char buf[65536];
    size_t n;
    while ((n = fread(buf, 1, sizeof(buf), f)) > 0) s.append(buf, n);
    return s;
}
static SampleFormat fmt_of(const std::string &name) {
    return format_name_to_enum_map().at(name).id;
}
static FILE *file_with(const std::string &bytes) {
    FILE *f = tmpfile();
    fwrite(bytes.data(), 1, bytes.size(), f);
    rewind(f);
    return f;
}

// #fmtw W format mode nm nd no ; payload: one line of 0/1 per shot (length nm+nd+no) -> HEX
// mode: bit | bytes | table | batch
template <size_t W>
static void fmtw(const Req &req, std::ostream &out) {
    SampleFormat format = fmt_of(req.arg(1));
    std::string mode = req.arg(2, "bit");
    size_t nm = (size_t)req.iarg(3), nd = (size_t)req.iarg(4), no = (size_t)req.iarg(5);
    size_t n = nm + nd + no;
    std::vector<std::string> rows = req.lines;
    for (auto &r : rows) {
        if (r == "-") r = "";
    }
    size_t shots = rows.size();
    FILE *f = tmpfile();
    auto type_at = [&](size_t k) -> char { return k < nm ? 'M' : k < nm + nd ? 'D' : 'L'; };
    if (mode == "bit" || mode == "bytes") {
        auto w = MeasureRecordWriter::make(f, format);
        for (const auto &row : rows) {
            size_t k = 0;
            char cur = 0;
            while (k < n) {
                char t = type_at(k);
                if (t != cur) {
                    w->begin_result_type(t);
                    cur = t;
                }
                size_t seg_end = t == 'M' ? nm : t == 'D' ? nm + nd : n;
                if (mode == "bytes") {
                    // whole bytes through write_bytes, remainder through write_bit
                    std::vector<uint8_t> bytes;
                    size_t kk = k;
                    while (kk + 8 <= seg_end) {
                        uint8_t b = 0;
                        for (size_t j = 0; j < 8; j++) b |= (uint8_t)(row[kk + j] == '1') << j;
                        bytes.push_back(b);
                        kk += 8;
                    }
                    if (!bytes.empty()) w->write_bytes({bytes.data(), bytes.data() + bytes.size()});
                    k = kk;
                }
                while (k < seg_end) {
                    w->write_bit(row[k] == '1');
                    k++;
                }
            }
            w->write_end();
        }
    } else if (mode == "table") {
        simd_bit_table<W> table(n, shots);
        for (size_t s = 0; s < shots; s++)
            for (size_t k = 0; k < n; k++) table[k][s] = rows[s][k] == '1';
        simd_bits<W> ref(0);
        char p1 = nm ? 'M' : 'D';
        char p2 = nm ? 'M' : 'L';
        size_t transition = nm ? n : nd;
        write_table_data<W>(f, shots, n, ref, table, format, p1, p2, transition);
    } else if (mode == "batch") {
        MeasureRecordBatchWriter bw(f, shots, format);
        size_t k = 0;
        char cur = 0;
        simd_bit_table<W> table(n < 256 ? 256 : n, shots);
        for (size_t s = 0; s < shots; s++)
            for (size_t j = 0; j < n; j++) table[j][s] = rows[s][j] == '1';
        while (k < n) {
            char t = type_at(k);
            if (t != cur) {
                bw.begin_result_type(t);
                cur = t;
            }
            size_t seg_end = t == 'M' ? nm : t == 'D' ? nm + nd : n;
            while (k + 256 <= seg_end) {
                auto slice = table.slice_maj(k, k + 256);
                bw.template batch_write_bytes<W>(slice, 4);
                k += 256;
            }
            while (k < seg_end) {
                bw.template batch_write_bit<W>(table[k]);
                k++;
            }
        }
        bw.write_end();
    }
    out << "HEX " << hex_of(slurp(f)) << "\n";
    fclose(f);
}
SVH_CMD(fmtw) {
    BY_W(fmtw, req, out);
}

// #fmtr W format entry nm nd no maxshots ; payload: hex bytes (one line) -> one "S bits" line per shot, or ERR
// entry: dense | sparse | major | minor | records_major | records_minor
template <size_t W>
static void fmtr(const Req &req, std::ostream &out) {
    SampleFormat format = fmt_of(req.arg(1));
    std::string entry = req.arg(2, "dense");
    size_t nm = (size_t)req.iarg(3), nd = (size_t)req.iarg(4), no = (size_t)req.iarg(5);
    size_t max_shots = (size_t)req.iarg(6, 100000);
    size_t n = nm + nd + no;
    std::string bytes = unhex(req.lines.empty() ? "" : req.lines[0]);
    FILE *f = file_with(bytes);
    auto reader = MeasureRecordReader<W>::make(f, format, nm, nd, no);
    if (entry == "dense") {
        simd_bits<W> buf(n);
        size_t count = 0;
        while (count < max_shots) {
            // dirty buffer on purpose: the reader must overwrite every bit
            for (size_t k = 0; k < n; k++) buf[k] = (k + count) & 1;
            if (!reader->start_and_read_entire_record(buf)) break;
            std::string s;
            for (size_t k = 0; k < n; k++) s += buf[k] ? '1' : '0';
            out << "S " << s << "\n";
            count++;
        }
    } else if (entry == "sparse") {
        size_t count = 0;
        while (count < max_shots) {
            SparseShot shot;
            if (!reader->start_and_read_entire_record(shot)) break;
            std::string s(n, '0');
            bool bad = false;
            for (auto h : shot.hits) {
                if (h >= nm + nd) {
                    bad = true;
                } else {
                    s[h] = s[h] == '1' ? '0' : '1';
                }
            }
            for (size_t k = 0; k < no; k++) {
                if (shot.obs_mask[k]) s[nm + nd + k] = '1';
            }
            out << (bad ? "B " : "S ") << s << "\n";
            count++;
        }
    } else {
        bool major = entry == "major" || entry == "records_major";
        size_t cap = std::min<size_t>(max_shots, 4096);
        if (format == SampleFormat::SAMPLE_FORMAT_PTB64) {
            cap = (cap + 63) / 64 * 64;  // documented precondition of the ptb64 bulk readers
        }
        simd_bit_table<W> table = major ? simd_bit_table<W>(cap, n) : simd_bit_table<W>(n, cap);
        // dirty table on purpose (a reused buffer): the reader must overwrite every bit of the shots it reads
        if (req.iarg(7, 1) != 0) {
            size_t rows = major ? cap : n, cols = major ? n : cap;
            for (size_t a = 0; a < rows; a++)
                for (size_t b = 0; b < cols; b++) table[a][b] = ((a * 7 + b * 3) % 5) < 3;
        }
        size_t got;
        if (entry == "major") {
            got = reader->read_into_table_with_major_shot_index(table, cap);
        } else if (entry == "minor") {
            got = reader->read_into_table_with_minor_shot_index(table, cap);
        } else {
            got = reader->read_records_into(table, major, cap);
        }
        for (size_t s = 0; s < got; s++) {
            std::string r;
            for (size_t k = 0; k < n; k++) r += (major ? table[s][k] : table[k][s]) ? '1' : '0';
            out << "S " << r << "\n";
        }
    }
    out << "END\n";
    fclose(f);
}
SVH_CMD(fmtr) {
    BY_W(fmtr, req, out);
}
