// C17: undetectable-logical-error searches and MaxSAT export.
#include "svh.h"

using namespace stim;

// #search kind a b c ; dem. kind: graphlike (a = ignore_ungraphlike) | hyper (a = max det set size, b = max degree, c = no-increase flag)
//                         | wcnf (a = weighted, b = quantization)
SVH_CMD(search) {
    std::string kind = req.arg(0, "graphlike");
    DetectorErrorModel d(req.payload());
    if (kind == "graphlike") {
        auto r = shortest_graphlike_undetectable_logical_error(d, req.iarg(1) != 0);
        out << "RESULT\n" << r.str() << "\n";
    } else if (kind == "hyper") {
        auto r = find_undetectable_logical_error(d, (size_t)req.iarg(1), (size_t)req.iarg(2), req.iarg(3) != 0);
        out << "RESULT\n" << r.str() << "\n";
    } else {
        std::string s = req.iarg(1) ? likeliest_error_sat_problem(d, (int)req.iarg(2)) : shortest_error_sat_problem(d);
        out << "WCNF\n" << s << "\n";
    }
}
