// C05: noise statistics. Exact word-level trace of biased_randomize_bits and histograms from the three samplers.
#include <map>

#include "svh.h"

using namespace stim;

#define BY_W5(fn, ...)                                 \
    do {                                               \
        long long w = req.iarg(0, 64);                 \
        if (w == 64) fn<64>(__VA_ARGS__);              \
        else if (w == 128) fn<128>(__VA_ARGS__);       \
        else fn<256>(__VA_ARGS__);                     \
    } while (0)

static std::string hex64(uint64_t v) {
    char buf[20];
    snprintf(buf, sizeof(buf), "%016llx", (unsigned long long)v);
    return buf;
}

// #brb p nwords seed -> "RAW w..." the next 8*nwords words of an identically seeded generator, "OUT w..." the words written
SVH_CMD(brb) {
    float p = std::stof(req.arg(0, "0.25"));
    size_t n = (size_t)req.iarg(1, 4);
    uint64_t seed = (uint64_t)req.iarg(2, 0);
    std::mt19937_64 rng(seed), copy(seed);
    std::vector<uint64_t> buf(n, 0xDEADBEEFDEADBEEFULL);
    biased_randomize_bits(p, buf.data(), buf.data() + n, rng);
    out << "RAW";
    for (size_t k = 0; k < 8 * n; k++) out << " " << hex64(copy());
    out << "\nOUT";
    for (auto w : buf) out << " " << hex64(w);
    // how many words the call consumed: advance the copy until it matches
    out << "\n";
}

// #brbstat p nwords seed reps -> ONES total ; LANES 64 counts ; PAIRS count of positions i with bit i and bit i+1 both set ; BITS total
SVH_CMD(brbstat) {
    float p = std::stof(req.arg(0, "0.25"));
    size_t n = (size_t)req.iarg(1, 1024);
    uint64_t seed = (uint64_t)req.iarg(2, 0);
    size_t reps = (size_t)req.iarg(3, 1);
    std::mt19937_64 rng(seed);
    std::vector<uint64_t> buf(n);
    uint64_t ones = 0, pairs = 0, bits = 0;
    std::vector<uint64_t> lanes(64, 0);
    std::vector<uint64_t> firstwords(4, 0);
    for (size_t r = 0; r < reps; r++) {
        biased_randomize_bits(p, buf.data(), buf.data() + n, rng);
        for (size_t k = 0; k < n; k++) {
            uint64_t w = buf[k];
            ones += std::popcount(w);
            pairs += std::popcount(w & (w >> 1));
            for (size_t b = 0; b < 64; b++) lanes[b] += (w >> b) & 1;
        }
        // position dependence: ones in the first, second, ... last word separately (catches start/end effects of the gap sampler)
        firstwords[0] += std::popcount(buf[0]);
        firstwords[1] += std::popcount(buf[n - 1]);
        firstwords[2] += std::popcount(buf[n / 2]);
        firstwords[3] += (buf[0] & 1) + ((buf[n - 1] >> 63) & 1);
        bits += n * 64;
    }
    out << "ONES " << ones << " BITS " << bits << " PAIRS " << pairs << "\nLANES";
    for (auto v : lanes) out << " " << v;
    out << "\nWORDS " << firstwords[0] << " " << firstwords[1] << " " << firstwords[2] << " " << firstwords[3] << "\n";
}

// #hitstat p attempts seed reps -> histogram of sample_hit_indices: HITS total ; FIRST count(hit at 0) ; LAST count(hit at attempts-1)
SVH_CMD(hitstat) {
    float p = std::stof(req.arg(0, "0.01"));
    size_t attempts = (size_t)req.iarg(1, 100);
    uint64_t seed = (uint64_t)req.iarg(2, 0);
    size_t reps = (size_t)req.iarg(3, 1);
    std::mt19937_64 rng(seed);
    uint64_t hits = 0, first = 0, last = 0, adjacent = 0;
    for (size_t r = 0; r < reps; r++) {
        auto v = sample_hit_indices(p, attempts, rng);
        hits += v.size();
        for (size_t k = 0; k < v.size(); k++) {
            if (v[k] == 0) first++;
            if (v[k] == attempts - 1) last++;
            if (k && v[k] == v[k - 1] + 1) adjacent++;
            if (v[k] >= attempts || (k && v[k] <= v[k - 1])) {
                out << "BAD index " << v[k] << "\n";
                return;
            }
        }
    }
    out << "HITS " << hits << " FIRST " << first << " LAST " << last << " ADJ " << adjacent << "\n";
}

static void print_hist(std::ostream &out, const std::map<std::string, uint64_t> &h) {
    for (const auto &kv : h) out << "H " << (kv.first.empty() ? "-" : kv.first) << " " << kv.second << "\n";
}

// #noisehist W sim seed shots ; circuit -> histogram lines "H bits count".
//   sim = frame   : sample_batch_measurements (measurement record)
//   sim = tableau : TableauSimulator::sample_circuit shot by shot (measurement record)
//   sim = detect  : sample_batch_detection_events (detectors then observables)
//   sim = dem     : DemSampler on the circuit's detector error model (detectors then observables)
template <size_t W>
static void noisehist(const Req &req, std::ostream &out) {
    std::string sim = req.arg(1, "frame");
    uint64_t seed = (uint64_t)req.iarg(2, 0);
    size_t shots = (size_t)req.iarg(3, 1000);
    Circuit c(req.payload());
    std::map<std::string, uint64_t> h;
    std::vector<std::string> seq;
    bool want_pairs = req.iarg(5, 0) != 0;
    std::mt19937_64 rng(seed);
    if (sim == "frame") {
        auto ref = TableauSimulator<W>::reference_sample_circuit(c);
        size_t m = c.count_measurements();
        simd_bit_table<W> t = sample_batch_measurements<W>(c, ref, shots, rng, true);
        for (size_t s = 0; s < shots; s++) {
            std::string line(m, '0');
            for (size_t k = 0; k < m; k++)
                if (t[s][k]) line[k] = '1';
            h[line]++;
            if (want_pairs) seq.push_back(line);
        }
    } else if (sim == "tableau") {
        size_t m = c.count_measurements();
        TableauSimulator<W> ts(std::move(rng), c.count_qubits());
        for (size_t s = 0; s < shots; s++) {
            ts.inv_state = Tableau<W>::identity(c.count_qubits());
            ts.measurement_record.storage.clear();
            ts.last_correlated_error_occurred = false;
            ts.safe_do_circuit(c);
            std::string line(m, '0');
            for (size_t k = 0; k < m; k++)
                if (ts.measurement_record.storage[k]) line[k] = '1';
            h[line]++;
            if (want_pairs) seq.push_back(line);
        }
    } else if (sim == "detect") {
        auto stats = c.compute_stats();
        auto r = sample_batch_detection_events<W>(c, shots, rng);
        for (size_t s = 0; s < shots; s++) {
            std::string line;
            for (size_t k = 0; k < stats.num_detectors; k++) line += r.first[k][s] ? '1' : '0';
            for (size_t k = 0; k < stats.num_observables; k++) line += r.second[k][s] ? '1' : '0';
            h[line]++;
            if (want_pairs) seq.push_back(line);
        }
    } else if (sim == "dem") {
        double approx = std::stod(req.arg(4, "0"));
        DetectorErrorModel d = ErrorAnalyzer::circuit_to_detector_error_model(c, false, true, false, approx, false, false);
        DemSampler<W> sampler(d, std::move(rng), shots);
        sampler.resample(false);
        for (size_t s = 0; s < shots; s++) {
            std::string line;
            for (size_t k = 0; k < sampler.num_detectors; k++) line += sampler.det_buffer[k][s] ? '1' : '0';
            for (size_t k = 0; k < sampler.num_observables; k++) line += sampler.obs_buffer[k][s] ? '1' : '0';
            h[line]++;
            if (want_pairs) seq.push_back(line);
        }
    } else {
        out << "ERR unknown sim\n";
        return;
    }
    print_hist(out, h);
    if (want_pairs) {
        // consecutive shots, non-overlapping pairs (2i, 2i+1): independence of different shots
        std::map<std::pair<std::string, std::string>, uint64_t> hp;
        for (size_t k = 0; k + 1 < seq.size(); k += 2) hp[{seq[k], seq[k + 1]}]++;
        for (const auto &kv : hp)
            out << "P " << (kv.first.first.empty() ? "-" : kv.first.first) << " " << (kv.first.second.empty() ? "-" : kv.first.second) << " "
                << kv.second << "\n";
    }
}
SVH_CMD(noisehist) {
    BY_W5(noisehist, req, out);
}
