#include "svh.h"

#include <cmath>
#include <cstdio>
#include <cstring>

using namespace stim;

std::map<std::string, Handler> &registry() {
    static std::map<std::string, Handler> r;
    return r;
}

std::string hex_of(const std::string &bytes) {
    static const char *d = "0123456789abcdef";
    std::string s;
    for (unsigned char c : bytes) {
        s += d[c >> 4];
        s += d[c & 15];
    }
    return s;
}
std::string unhex(const std::string &hex) {
    std::string s;
    auto v = [](char c) { return c <= '9' ? c - '0' : (c | 0x20) - 'a' + 10; };
    for (size_t k = 0; k + 1 < hex.size(); k += 2) {
        s += (char)(v(hex[k]) * 16 + v(hex[k + 1]));
    }
    return s;
}

static std::string one_line(const std::string &s) {
    std::string r;
    for (char c : s) {
        r += (c == '\n' || c == '\r') ? ' ' : c;
    }
    return r;
}

int main(int argc, char **argv) {
    std::ios::sync_with_stdio(false);
    std::string line;
    while (std::getline(std::cin, line)) {
        if (line.empty() || line[0] != '#') {
            continue;
        }
        Req req;
        std::istringstream hs(line.substr(1));
        std::string cmd;
        hs >> cmd;
        std::string tok;
        while (hs >> tok) {
            req.args.push_back(tok);
        }
        while (std::getline(std::cin, line)) {
            if (line == "#.") {
                break;
            }
            req.lines.push_back(line);
        }
        std::ostringstream out;
        auto it = registry().find(cmd);
        if (it == registry().end()) {
            std::cout << "ERR unknown-command " << cmd << "\n#.\n";
            std::cout.flush();
            continue;
        }
        try {
            it->second(req, out);
            std::cout << out.str();
        } catch (const std::invalid_argument &e) {
            std::cout << out.str() << "ERR invalid_argument " << one_line(e.what()) << "\n";
        } catch (const std::out_of_range &e) {
            std::cout << out.str() << "ERR out_of_range " << one_line(e.what()) << "\n";
        } catch (const std::exception &e) {
            std::cout << out.str() << "ERR exception " << one_line(e.what()) << "\n";
        }
        std::cout << "#.\n";
        std::cout.flush();
    }
    return 0;
}

// ---------------------------------------------------------------------------------------------
// gatetable: dump GATE_DATA as it was built from the working tree (tie G input).
// One line per field so the Python side needs no escaping logic beyond hex for free text.
SVH_CMD(gatetable) {
    for (size_t k = 0; k < NUM_DEFINED_GATES; k++) {
        const Gate &g = GATE_DATA.items[k];
        out << "GATE " << k << " " << g.name << " inv=" << (int)g.best_candidate_inverse_id
            << " args=" << (int)g.arg_count << " flags=" << (unsigned)g.flags << "\n";
        out << "UNITARY " << g.unitary_data.size();
        for (const auto &row : g.unitary_data) {
            for (const auto &c : row) {
                char buf[64];
                snprintf(buf, sizeof(buf), " %.9g,%.9g", (double)c.real(), (double)c.imag());
                out << buf;
            }
        }
        out << "\n";
        out << "FLOWS " << g.flow_data.size();
        for (const auto &f : g.flow_data) {
            out << " " << hex_of(f);
        }
        out << "\n";
        out << "DECOMP " << (g.h_s_cx_m_r_decomposition == nullptr ? "-" : hex_of(g.h_s_cx_m_r_decomposition)) << "\n";
    }
    for (size_t h = 0; h < GATE_DATA.hashed_name_to_gate_type_table.size(); h++) {
        const auto &e = GATE_DATA.hashed_name_to_gate_type_table[h];
        if (e.id != GateType::NOT_A_GATE || !e.expected_name.empty()) {
            out << "HASH " << h << " " << (int)e.id << " " << e.expected_name << "\n";
        }
    }
}

// rss: peak and current resident set size of the harness process in kB (for "memory proportional to input" checks)
SVH_CMD(rss) {
    FILE *f = fopen("/proc/self/status", "r");
    char line[256];
    while (f && fgets(line, sizeof(line), f)) {
        if (strncmp(line, "VmHWM:", 6) == 0 || strncmp(line, "VmRSS:", 6) == 0) {
            out << line;
        }
    }
    if (f) fclose(f);
}
