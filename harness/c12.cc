// C12: Pauli string arithmetic and propagation.
#include "svh.h"

using namespace stim;

template <size_t W>
static void pauli_prop(const Req &req, std::ostream &out, bool forward) {
    // payload lines: "<pauli> | <circuit text with ';' as line separator>"
    for (const auto &line : req.lines) {
        auto bar = line.find('|');
        std::string ps = line.substr(0, bar);
        while (!ps.empty() && ps.back() == ' ') ps.pop_back();
        std::string ct = line.substr(bar + 1);
        for (auto &c : ct) {
            if (c == ';') c = '\n';
        }
        try {
            PauliString<W> p = PauliString<W>::from_str(ps);
            Circuit c(ct);
            PauliString<W> r = forward ? p.ref().after(c) : p.ref().before(c);
            out << r.str() << "\n";
        } catch (const std::invalid_argument &e) {
            out << "ERR invalid_argument\n";
        } catch (const std::out_of_range &e) {
            out << "ERR out_of_range\n";
        }
    }
}

#define BY_W(fn, ...)                                  \
    do {                                               \
        long long w = req.iarg(0, 64);                 \
        if (w == 64) fn<64>(__VA_ARGS__);              \
        else if (w == 128) fn<128>(__VA_ARGS__);       \
        else fn<256>(__VA_ARGS__);                     \
    } while (0)

SVH_CMD(pauli_after) {
    BY_W(pauli_prop, req, out, true);
}
SVH_CMD(pauli_before) {
    BY_W(pauli_prop, req, out, false);
}

template <size_t W>
static void pauli_mul(const Req &req, std::ostream &out) {
    // payload lines: "<A> <B>"  -> "<log_i> <A after *= without sign fix> <commutes> <weightA> <A<B> <A==B>"
    for (const auto &line : req.lines) {
        std::istringstream ss(line);
        std::string a, b;
        ss >> a >> b;
        PauliString<W> pa = PauliString<W>::from_str(a);
        PauliString<W> pb = PauliString<W>::from_str(b);
        bool com = pa.ref().commutes(pb.ref());
        size_t wt = pa.ref().weight();
        bool lt = pa.ref() < pb.ref();
        bool eq = pa.ref() == pb.ref();
        std::string rt = PauliString<W>::from_str(pa.str()).str();
        PauliString<W> prod = pa;
        uint8_t k = prod.ref().inplace_right_mul_returning_log_i_scalar(pb.ref());
        out << (int)k << " " << prod.str() << " " << com << " " << wt << " " << lt << " " << eq << " " << rt << "\n";
    }
}
SVH_CMD(pauli_mul) {
    BY_W(pauli_mul, req, out);
}

// FlexPauliString arithmetic: payload lines "<op> <A> <B>" with op in {mul, add}; texts in stim's flexible syntax
SVH_CMD(flex_pauli) {
    for (const auto &line : req.lines) {
        std::istringstream ss(line);
        std::string op, a, b;
        ss >> op >> a >> b;
        try {
            FlexPauliString fa = FlexPauliString::from_text(a);
            FlexPauliString fb = FlexPauliString::from_text(b);
            if (op == "mul") {
                out << (fa * fb).str() << "\n";
            } else if (op == "add") {
                out << (fa + fb).str() << "\n";
            } else {
                out << fa.str() << "\n";
            }
        } catch (const std::invalid_argument &e) {
            out << "ERR invalid_argument\n";
        }
    }
}
