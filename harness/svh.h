// svh: line-oriented command harness over the stim library built from /repo's working tree.
// Protocol (stdin): a request is a header line "#<cmd> <args...>", payload lines, and a terminator line "#.".
// Reply (stdout): result lines, then "#." . Exceptions are mapped to "ERR <kind> <message>".
#pragma once
#include <functional>
#include <iostream>
#include <map>
#include <sstream>
#include <string>
#include <vector>

#include "stim.h"

struct Req {
    std::vector<std::string> args;    // tokens after the command name
    std::vector<std::string> lines;   // payload lines
    std::string payload() const {
        std::string s;
        for (auto &l : lines) {
            s += l;
            s += '\n';
        }
        return s;
    }
    std::string arg(size_t k, const std::string &dflt = "") const {
        return k < args.size() ? args[k] : dflt;
    }
    long long iarg(size_t k, long long dflt = 0) const {
        return k < args.size() ? std::stoll(args[k]) : dflt;
    }
};

typedef std::function<void(const Req &, std::ostream &)> Handler;
std::map<std::string, Handler> &registry();
struct Reg {
    Reg(const char *name, Handler h) {
        registry()[name] = h;
    }
};
#define SVH_CMD(name) \
    static void svh_cmd_##name(const Req &req, std::ostream &out); \
    static Reg svh_reg_##name(#name, svh_cmd_##name); \
    static void svh_cmd_##name(const Req &req, std::ostream &out)

std::string hex_of(const std::string &bytes);
std::string unhex(const std::string &hex);
