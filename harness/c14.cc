// C13/C14: flows and circuit rewrites.
#include "stim/util_top/circuit_flow_generators.h"
#include "stim/util_top/circuit_inverse_qec.h"
#include "stim/util_top/has_flow.h"
#include "stim/util_top/simplified_circuit.h"
#include "stim/util_top/transform_without_feedback.h"
#include "svh.h"

using namespace stim;

static void split_payload(const Req &req, std::string &circuit, std::vector<std::string> &flows) {
    for (const auto &l : req.lines) {
        if (l.rfind("@F ", 0) == 0) flows.push_back(l.substr(3));
        else circuit += l + "\n";
    }
}

// #hasflow seed samples ; circuit + "@F flow" lines -> per flow "signed unsigned"
SVH_CMD(hasflow) {
    uint64_t seed = (uint64_t)req.iarg(0);
    size_t samples = (size_t)req.iarg(1, 256);
    std::string ct;
    std::vector<std::string> fl;
    split_payload(req, ct, fl);
    Circuit c(ct);
    std::vector<Flow<64>> flows;
    for (const auto &f : fl) flows.push_back(Flow<64>::from_str(f));
    std::mt19937_64 rng(seed);
    auto s = sample_if_circuit_has_stabilizer_flows<64>(samples, rng, c, flows);
    auto u = check_if_circuit_has_unsigned_stabilizer_flows<64>(c, flows);
    for (size_t k = 0; k < flows.size(); k++) out << "F " << (s[k] ? 1 : 0) << " " << (u[k] ? 1 : 0) << "\n";
}

// #flowgens ; circuit -> one "G <flow>" line per generator
SVH_CMD(flowgens) {
    Circuit c(req.payload());
    auto g = circuit_flow_generators<64>(c);
    for (const auto &f : g) out << "G " << f.str() << "\n";
}

// #solveflows ; circuit + "@F flow" (measurements ignored) -> "S k k k" or "S none"
SVH_CMD(solveflows) {
    std::string ct;
    std::vector<std::string> fl;
    split_payload(req, ct, fl);
    Circuit c(ct);
    std::vector<Flow<64>> flows;
    for (const auto &f : fl) flows.push_back(Flow<64>::from_str(f));
    auto r = solve_for_flow_measurements<64>(c, flows);
    for (const auto &x : r) {
        if (!x.has_value()) {
            out << "S none\n";
        } else {
            out << "S";
            for (auto m : *x) out << " " << m;
            out << "\n";
        }
    }
}

static std::string one_line(std::string s) {
    for (auto &c : s)
        if (c == '\n') c = ';';
    return s;
}

// #rewrite kind [flag] ; circuit (+ "@F flow" lines for time reversal) -> rewritten circuit (';' separated)
SVH_CMD(rewrite) {
    std::string kind = req.arg(0);
    std::string ct;
    std::vector<std::string> fl;
    split_payload(req, ct, fl);
    Circuit c(ct);
    if (kind == "decomposed") out << "C " << one_line(simplified_circuit(c).str()) << "\n";
    else if (kind == "flattened") out << "C " << one_line(c.flattened().str()) << "\n";
    else if (kind == "inverse") out << "C " << one_line(c.inverse().str()) << "\n";
    else if (kind == "without_noise") out << "C " << one_line(c.without_noise().str()) << "\n";
    else if (kind == "without_tags") out << "C " << one_line(c.without_tags().str()) << "\n";
    else if (kind == "inline_feedback") out << "C " << one_line(circuit_with_inlined_feedback(c).str()) << "\n";
    else if (kind == "time_reversed") {
        std::vector<Flow<64>> flows;
        for (const auto &f : fl) flows.push_back(Flow<64>::from_str(f));
        auto r = circuit_inverse_qec<64>(c, flows, req.iarg(1) != 0);
        out << "C " << one_line(r.first.str()) << "\n";
        for (const auto &f : r.second) out << "F " << f.str() << "\n";
    }
}
