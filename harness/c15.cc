// C15: loop-aware queries and circuit / model algebra.
#include <map>
#include <memory>

#include "svh.h"

using namespace stim;

static void print_coords(std::ostream &out, const std::vector<double> &v) {
    out << "(";
    for (size_t k = 0; k < v.size(); k++) {
        if (k) out << ",";
        out << v[k];
    }
    out << ")";
}

// #cstats [ndet_limit] ; circuit -> every loop-aware query
SVH_CMD(cstats) {
    Circuit c(req.payload());
    out.precision(17);
    out << "count_qubits " << c.count_qubits() << "\n";
    out << "count_measurements " << c.count_measurements() << "\n";
    out << "count_detectors " << c.count_detectors() << "\n";
    out << "count_observables " << c.count_observables() << "\n";
    out << "count_ticks " << c.count_ticks() << "\n";
    out << "count_sweep_bits " << c.count_sweep_bits() << "\n";
    out << "max_lookback " << c.max_lookback() << "\n";
    auto st = c.compute_stats();
    out << "stats " << st.num_detectors << " " << st.num_observables << " " << st.num_measurements << " " << st.num_qubits
        << " " << st.num_ticks << " " << st.max_lookback << " " << st.num_sweep_bits << "\n";
    out << "final_coord_shift ";
    print_coords(out, c.final_coord_shift());
    out << "\n";
    for (const auto &kv : c.get_final_qubit_coords()) {
        out << "qcoord " << kv.first << " ";
        print_coords(out, kv.second);
        out << "\n";
    }
    uint64_t nd = c.count_detectors();
    uint64_t limit = (uint64_t)req.iarg(0, 200);
    if (nd <= limit) {
        std::set<uint64_t> all;
        for (uint64_t k = 0; k < nd; k++) all.insert(k);
        for (const auto &kv : c.get_detector_coordinates(all)) {
            out << "dcoord " << kv.first << " ";
            print_coords(out, kv.second);
            out << "\n";
        }
        if (nd > 0) {
            out << "dcoord_single_last ";
            print_coords(out, c.coords_of_detector(nd - 1));
            out << "\n";
        }
        // sparse multi-index queries (the helper skips whole iterations of REPEAT blocks between wanted indices)
        uint64_t state = (uint64_t)req.iarg(1, 12345) * 6364136223846793005ULL + 1442695040888963407ULL;
        for (int round = 0; round < 6 && nd > 1; round++) {
            std::set<uint64_t> want;
            uint64_t density = 2 + (uint64_t)round * 2;
            for (uint64_t k = 0; k < nd; k++) {
                state = state * 6364136223846793005ULL + 1442695040888963407ULL;
                if ((state >> 33) % density == 0) want.insert(k);
            }
            if (want.empty()) want.insert(nd - 1);
            for (const auto &kv : c.get_detector_coordinates(want)) {
                out << "dsub " << round << " " << kv.first << " ";
                print_coords(out, kv.second);
                out << "\n";
            }
            out << "dsubq " << round;
            for (auto k : want) out << " " << k;
            out << "\n";
        }
    }
}

// #dstats ; dem -> loop-aware DEM queries
SVH_CMD(dstats) {
    DetectorErrorModel d(req.payload());
    out.precision(17);
    out << "count_detectors " << d.count_detectors() << "\n";
    out << "count_observables " << d.count_observables() << "\n";
    out << "count_errors " << d.count_errors() << "\n";
    out << "total_detector_shift " << d.total_detector_shift() << "\n";
    auto f = d.final_detector_and_coord_shift();
    out << "final_shift " << f.first << " ";
    print_coords(out, f.second);
    out << "\n";
    uint64_t nd = d.count_detectors();
    if (nd <= (uint64_t)req.iarg(0, 200)) {
        std::set<uint64_t> all;
        for (uint64_t k = 0; k < nd; k++) all.insert(k);
        for (const auto &kv : d.get_detector_coordinates(all)) {
            out << "dcoord " << kv.first << " ";
            print_coords(out, kv.second);
            out << "\n";
        }
    }
}

// #canon kind ; text -> parse and print (kind: circuit | dem | circuit_flat | dem_flat)
SVH_CMD(canon) {
    std::string kind = req.arg(0, "circuit");
    if (kind == "circuit") out << Circuit(req.payload()).str() << "\n";
    else if (kind == "circuit_flat") out << Circuit(req.payload()).flattened().str() << "\n";
    else if (kind == "dem") out << DetectorErrorModel(req.payload()).str() << "\n";
    else out << DetectorErrorModel(req.payload()).flattened().str() << "\n";
}

static std::string unescape(std::string s) {
    for (auto &c : s)
        if (c == ';') c = '\n';
    return s;
}

// #calg ; payload: one operation per line (see checks/c15.py). Objects live on the heap so that DEL really frees them.
// After every operation the named result object is printed as "OBJ name <str with ; for newlines>".
SVH_CMD(calg) {
    std::map<std::string, std::unique_ptr<Circuit>> objs;
    auto show = [&](const std::string &n) {
        std::string s = objs.at(n)->str();
        for (auto &c : s)
            if (c == '\n') c = ';';
        out << "OBJ " << n << " " << s << "\n";
    };
    for (const auto &line : req.lines) {
        std::istringstream ss(line);
        std::string op, a, b, c;
        ss >> op;
        try {
            if (op == "NEW") {
                ss >> a;
                std::string rest;
                std::getline(ss, rest);
                objs[a] = std::make_unique<Circuit>(unescape(rest));
                show(a);
            } else if (op == "ADD") {
                ss >> a >> b >> c;
                objs[c] = std::make_unique<Circuit>(*objs.at(a) + *objs.at(b));
                show(c);
            } else if (op == "IADD") {
                ss >> a >> b;
                *objs.at(a) += *objs.at(b);
                show(a);
            } else if (op == "MUL") {
                uint64_t k;
                ss >> a >> k >> c;
                objs[c] = std::make_unique<Circuit>(*objs.at(a) * k);
                show(c);
            } else if (op == "IMUL") {
                uint64_t k;
                ss >> a >> k;
                *objs.at(a) *= k;
                show(a);
            } else if (op == "INSERT") {
                size_t idx;
                ss >> a >> idx >> b;
                objs.at(a)->safe_insert(idx, *objs.at(b));
                show(a);
            } else if (op == "INSERTREP") {
                size_t idx;
                uint64_t reps;
                ss >> a >> idx >> reps >> b >> c;  // c = tag or '-'
                { std::string tagtmp = c == "-" ? "" : c; objs.at(a)->safe_insert_repeat_block(idx, reps, *objs.at(b), tagtmp); }
                show(a);
            } else if (op == "INSERTOP") {
                size_t idx;
                ss >> a >> idx >> b;   // b = object holding exactly one instruction
                objs.at(a)->safe_insert(idx, objs.at(b)->operations.at(0));
                show(a);
            } else if (op == "APPENDREP") {
                uint64_t reps;
                ss >> a >> reps >> b >> c;
                { std::string tagtmp = c == "-" ? "" : c; objs.at(a)->append_repeat_block(reps, *objs.at(b), tagtmp); }
                show(a);
            } else if (op == "APPENDTEXT") {
                ss >> a;
                std::string rest;
                std::getline(ss, rest);
                objs.at(a)->append_from_text(unescape(rest));
                show(a);
            } else if (op == "SLICE") {
                int64_t start, step, len;
                ss >> a >> start >> step >> len >> c;
                if ((int64_t)objs.at(a)->operations.size() < start + (len - 1) * step + 1) {
                    throw std::invalid_argument("slice outside the circuit (harness precondition)");
                }
                objs[c] = std::make_unique<Circuit>(objs.at(a)->py_get_slice(start, step, len));
                show(c);
            } else if (op == "COPY") {
                ss >> a >> c;
                objs[c] = std::make_unique<Circuit>(*objs.at(a));
                show(c);
            } else if (op == "MOVE") {
                ss >> a >> c;
                objs[c] = std::make_unique<Circuit>(std::move(*objs.at(a)));
                show(c);
            } else if (op == "ASSIGN") {
                ss >> a >> b;
                *objs.at(a) = *objs.at(b);
                show(a);
            } else if (op == "CLEAR") {
                ss >> a;
                objs.at(a)->clear();
                show(a);
            } else if (op == "DEL") {
                ss >> a;
                objs.erase(a);
                out << "DELETED " << a << "\n";
            } else if (op == "PRINT") {
                ss >> a;
                show(a);
            } else if (op == "FLAT") {
                ss >> a;
                std::string s = objs.at(a)->flattened().str();
                for (auto &ch : s)
                    if (ch == '\n') ch = ';';
                out << "FLAT " << a << " " << s << "\n";
            }
        } catch (const std::exception &e) {
            out << "OPERR " << op << " " << e.what() << "\n";
        }
    }
}

// #dalg : the same for DetectorErrorModel
SVH_CMD(dalg) {
    std::map<std::string, std::unique_ptr<DetectorErrorModel>> objs;
    auto show = [&](const std::string &n) {
        std::string s = objs.at(n)->str();
        for (auto &c : s)
            if (c == '\n') c = ';';
        out << "OBJ " << n << " " << s << "\n";
    };
    for (const auto &line : req.lines) {
        std::istringstream ss(line);
        std::string op, a, b, c;
        ss >> op;
        try {
            if (op == "NEW") {
                ss >> a;
                std::string rest;
                std::getline(ss, rest);
                objs[a] = std::make_unique<DetectorErrorModel>(unescape(rest));
                show(a);
            } else if (op == "ADD") {
                ss >> a >> b >> c;
                objs[c] = std::make_unique<DetectorErrorModel>(*objs.at(a) + *objs.at(b));
                show(c);
            } else if (op == "IADD") {
                ss >> a >> b;
                *objs.at(a) += *objs.at(b);
                show(a);
            } else if (op == "MUL") {
                uint64_t k;
                ss >> a >> k >> c;
                objs[c] = std::make_unique<DetectorErrorModel>(*objs.at(a) * k);
                show(c);
            } else if (op == "IMUL") {
                uint64_t k;
                ss >> a >> k;
                *objs.at(a) *= k;
                show(a);
            } else if (op == "APPENDREP") {
                uint64_t reps;
                ss >> a >> reps >> b >> c;
                { std::string tagtmp = c == "-" ? "" : c; objs.at(a)->append_repeat_block(reps, *objs.at(b), tagtmp); }
                show(a);
            } else if (op == "APPENDTEXT") {
                ss >> a;
                std::string rest;
                std::getline(ss, rest);
                objs.at(a)->append_from_text(unescape(rest));
                show(a);
            } else if (op == "SLICE") {
                int64_t start, step, len;
                ss >> a >> start >> step >> len >> c;
                if ((int64_t)objs.at(a)->instructions.size() < start + (len - 1) * step + 1) {
                    throw std::invalid_argument("slice outside the model (harness precondition)");
                }
                objs[c] = std::make_unique<DetectorErrorModel>(objs.at(a)->py_get_slice(start, step, len));
                show(c);
            } else if (op == "COPY") {
                ss >> a >> c;
                objs[c] = std::make_unique<DetectorErrorModel>(*objs.at(a));
                show(c);
            } else if (op == "ASSIGN") {
                ss >> a >> b;
                *objs.at(a) = *objs.at(b);
                show(a);
            } else if (op == "CLEAR") {
                ss >> a;
                objs.at(a)->clear();
                show(a);
            } else if (op == "DEL") {
                ss >> a;
                objs.erase(a);
                out << "DELETED " << a << "\n";
            } else if (op == "PRINT") {
                ss >> a;
                show(a);
            } else if (op == "FLAT") {
                ss >> a;
                std::string fs = objs.at(a)->flattened().str();
                for (auto &ch : fs)
                    if (ch == '\n') ch = ';';
                out << "FLAT " << a << " " << fs << "\n";
            }
        } catch (const std::exception &e) {
            out << "OPERR " << op << " " << e.what() << "\n";
        }
    }
}

// #demsampler W seed shots ; dem -> per shot "D bits" "O bits" "E bits" straight from DemSampler<W>'s buffers after resample()
template <size_t W>
static void demsampler(const Req &req, std::ostream &out) {
    uint64_t seed = (uint64_t)req.iarg(1, 0);
    size_t shots = (size_t)req.iarg(2, 1);
    DetectorErrorModel d(req.payload());
    DemSampler<W> sampler(d, std::mt19937_64(seed), shots);
    sampler.resample(false);
    for (size_t s = 0; s < shots; s++) {
        std::string a, b, c;
        for (size_t k = 0; k < sampler.num_detectors; k++) a += sampler.det_buffer[k][s] ? '1' : '0';
        for (size_t k = 0; k < sampler.num_observables; k++) b += sampler.obs_buffer[k][s] ? '1' : '0';
        for (size_t k = 0; k < sampler.num_errors; k++) c += sampler.err_buffer[k][s] ? '1' : '0';
        out << "D " << a << "\nO " << b << "\nE " << c << "\n";
    }
}
SVH_CMD(demsampler) {
    long long w = req.iarg(0, 64);
    if (w == 64) demsampler<64>(req, out);
    else if (w == 128) demsampler<128>(req, out);
    else demsampler<256>(req, out);
}
