// C18: explain_errors.
#include "svh.h"

using namespace stim;

// #explain reduce use_filter ; circuit -> per explained error its targets and every reported location
SVH_CMD(explain) {
    bool reduce = req.iarg(0) != 0;
    bool use_filter = req.iarg(1) != 0;
    Circuit c(req.payload());
    DetectorErrorModel filter;
    if (use_filter) {
        filter = ErrorAnalyzer::circuit_to_detector_error_model(c, false, true, false, 1.0, false, false);
    }
    auto res = ErrorMatcher::explain_errors_from_circuit(c, use_filter ? &filter : nullptr, reduce);
    for (const auto &e : res) {
        out << "ERROR";
        for (const auto &t : e.dem_error_terms) out << " " << t.dem_target.str();
        out << "\n";
        for (const auto &loc : e.circuit_error_locations) {
            out << "LOC tick=" << loc.tick_offset << " frames=";
            for (size_t k = 0; k < loc.stack_frames.size(); k++) {
                const auto &f = loc.stack_frames[k];
                out << (k ? "," : "") << f.instruction_offset << ":" << f.iteration_index << ":" << f.instruction_repetitions_arg;
            }
            out << " pauli=";
            for (size_t k = 0; k < loc.flipped_pauli_product.size(); k++) {
                const auto &t = loc.flipped_pauli_product[k].gate_target;
                out << (k ? "," : "") << t.qubit_value() << ":" << t.pauli_type();
            }
            out << " meas=";
            if (loc.flipped_measurement.measurement_record_index == UINT64_MAX) out << "-";
            else out << loc.flipped_measurement.measurement_record_index;
            out << " gate=" << GATE_DATA[loc.instruction_targets.gate_type].name << " range=" << loc.instruction_targets.target_range_start
                << ":" << loc.instruction_targets.target_range_end << "\n";
        }
    }
    if (use_filter) {
        out << "FILTER_ERRORS " << filter.flattened().count_errors() << "\n";
    }
}
