// C18: explain_errors.
#include "svh.h"

using namespace stim;

// #explain reduce use_filter ; circuit -> per explained error its targets and every reported location
SVH_CMD(explain) {
    bool reduce = req.iarg(0) != 0;
    bool use_filter = req.iarg(1) != 0;
    // payload lines starting with "@D " are the text of a caller-supplied filter model (use_filter = 2)
    std::string ctext, ftext;
    for (const auto &l : req.lines) {
        if (l.rfind("@D ", 0) == 0) ftext += l.substr(3) + "\n";
        else ctext += l + "\n";
    }
    Circuit c(ctext);
    DetectorErrorModel filter;
    if (req.iarg(1) == 2) {
        filter = DetectorErrorModel(ftext);
    } else if (use_filter) {
        filter = ErrorAnalyzer::circuit_to_detector_error_model(c, false, true, false, 1.0, false, false);
    }
    auto res = ErrorMatcher::explain_errors_from_circuit(c, use_filter ? &filter : nullptr, reduce);
    for (const auto &e : res) {
        out << "ERROR";
        for (const auto &t : e.dem_error_terms) out << " " << t.dem_target.str();
        out << "\n";
        // coordinates attached to the error's detectors
        out << "ECOORDS";
        for (const auto &t : e.dem_error_terms) {
            out << " " << t.dem_target.str() << "@";
            for (size_t k = 0; k < t.coords.size(); k++) out << (k ? "," : "") << t.coords[k];
        }
        out << "\n";
        for (const auto &loc : e.circuit_error_locations) {
            out << "LOC tick=" << loc.tick_offset << " frames=";
            for (size_t k = 0; k < loc.stack_frames.size(); k++) {
                const auto &f = loc.stack_frames[k];
                out << (k ? "," : "") << f.instruction_offset << ":" << f.iteration_index << ":" << f.instruction_repetitions_arg;
            }
            out << " pauli=";
            for (size_t k = 0; k < loc.flipped_pauli_product.size(); k++) {
                const auto &t = loc.flipped_pauli_product[k].gate_target;
                out << (k ? "," : "") << t.qubit_value() << ":" << t.pauli_type();
            }
            out << " pcoords=";
            for (size_t k = 0; k < loc.flipped_pauli_product.size(); k++) {
                const auto &t = loc.flipped_pauli_product[k];
                out << (k ? ";" : "") << t.gate_target.qubit_value() << "@";
                for (size_t j = 0; j < t.coords.size(); j++) out << (j ? "," : "") << t.coords[j];
            }
            out << " tcoords=";
            for (size_t k = 0; k < loc.instruction_targets.targets_in_range.size(); k++) {
                const auto &t = loc.instruction_targets.targets_in_range[k];
                out << (k ? ";" : "");
                if (t.gate_target.has_qubit_value()) out << t.gate_target.qubit_value();
                out << "@";
                for (size_t j = 0; j < t.coords.size(); j++) out << (j ? "," : "") << t.coords[j];
            }
            out << " meas=";
            if (loc.flipped_measurement.measurement_record_index == UINT64_MAX) out << "-";
            else out << loc.flipped_measurement.measurement_record_index;
            out << " gate=" << GATE_DATA[loc.instruction_targets.gate_type].name << " range=" << loc.instruction_targets.target_range_start
                << ":" << loc.instruction_targets.target_range_end << "\n";
        }
    }
    // the reference values: final qubit coordinates and detector coordinates of the circuit (tied to the unrolled program by C15)
    out.precision(17);
    for (const auto &kv : c.get_final_qubit_coords()) {
        out << "QC " << kv.first << " ";
        for (size_t j = 0; j < kv.second.size(); j++) out << (j ? "," : "") << kv.second[j];
        out << "\n";
    }
    {
        std::set<uint64_t> all;
        uint64_t nd = c.count_detectors();
        for (uint64_t k = 0; k < nd && k < 2000; k++) all.insert(k);
        for (const auto &kv : c.get_detector_coordinates(all)) {
            out << "DC " << kv.first << " ";
            for (size_t j = 0; j < kv.second.size(); j++) out << (j ? "," : "") << kv.second[j];
            out << "\n";
        }
    }
    if (use_filter) {
        out << "FILTER_ERRORS " << filter.flattened().count_errors() << "\n";
    }
}
