// C11: tableau algebra and Clifford conversions.
#include "svh.h"

using namespace stim;

template <size_t W>
static void dump_tab(std::ostream &out, const char *label, const Tableau<W> &t) {
    out << label << " " << t.num_qubits << " " << (t.satisfies_invariants() ? 1 : 0);
    for (size_t k = 0; k < t.num_qubits; k++) out << " " << t.xs[k].str() << " " << t.zs[k].str();
    out << "\n";
}

// #tabalg W seed n m ; no payload. Random tableaus A, B (n qubits), C (m qubits) and random Paulis P, Q.
// Prints every operand and every derived object so that the driver can re-derive them independently.
template <size_t W>
static void tabalg(const Req &req, std::ostream &out) {
    uint64_t seed = (uint64_t)req.iarg(1);
    size_t n = (size_t)req.iarg(2), m = (size_t)req.iarg(3);
    int64_t e = (int64_t)req.iarg(4, 3);
    std::mt19937_64 rng(seed);
    auto A = Tableau<W>::random(n, rng);
    auto B = Tableau<W>::random(n, rng);
    auto C = Tableau<W>::random(m, rng);
    auto P = PauliString<W>::random(n, rng);
    auto Q = PauliString<W>::random(n, rng);
    dump_tab<W>(out, "A", A);
    dump_tab<W>(out, "B", B);
    dump_tab<W>(out, "C", C);
    out << "P " << P.str() << "\nQ " << Q.str() << "\n";
    dump_tab<W>(out, "A.then(B)", A.then(B));
    dump_tab<W>(out, "A.inverse", A.inverse());
    dump_tab<W>(out, "A.raised_to", A.raised_to(e));
    dump_tab<W>(out, "A+C", A + C);
    out << "A(P) " << A(P).str() << "\n";
    out << "A(Q) " << A(Q).str() << "\n";
    // product P*Q when Hermitian
    {
        PauliString<W> pq = P;
        uint8_t k = pq.ref().inplace_right_mul_returning_log_i_scalar(Q);
        if ((k & 1) == 0) {
            if (k & 2) pq.sign ^= true;
            out << "PQ " << pq.str() << "\nA(PQ) " << A(pq).str() << "\n";
        }
    }
    // scatter: apply C (m qubits) onto chosen qubits of A
    if (m <= n && m > 0) {
        std::vector<size_t> targets;
        std::vector<size_t> pool;
        for (size_t k = 0; k < n; k++) pool.push_back(k);
        for (size_t k = 0; k < m; k++) {
            size_t i = rng() % pool.size();
            targets.push_back(pool[i]);
            pool.erase(pool.begin() + i);
        }
        out << "TARGETS";
        for (auto t : targets) out << " " << t;
        out << "\n";
        auto S1 = A;
        S1.inplace_scatter_append(C, targets);
        dump_tab<W>(out, "scatter_append", S1);
        auto S2 = A;
        S2.inplace_scatter_prepend(C, targets);
        dump_tab<W>(out, "scatter_prepend", S2);
    }
}
SVH_CMD(tabalg) {
    long long w = req.iarg(0, 64);
    if (w == 64) tabalg<64>(req, out);
    else if (w == 128) tabalg<128>(req, out);
    else tabalg<256>(req, out);
}

// #tabconv W method ; payload: unitary circuit. circuit -> tableau -> circuit(method) -> tableau
template <size_t W>
static void tabconv(const Req &req, std::ostream &out) {
    std::string method = req.arg(1, "elimination");
    Circuit c(req.payload());
    auto t = circuit_to_tableau<W>(c, false, false, false);
    dump_tab<W>(out, "T", t);
    auto tinv = circuit_to_tableau<W>(c, false, false, false, true);
    dump_tab<W>(out, "TINV", tinv);
    Circuit c2 = tableau_to_circuit<W>(t, method);
    std::string s = c2.str();
    for (auto &ch : s)
        if (ch == '\n') ch = ';';
    out << "CIRCUIT " << s << "\n";
    if (method == "elimination") {
        dump_tab<W>(out, "T2", circuit_to_tableau<W>(c2, false, false, false));
    }
    Circuit ci = c.inverse();
    dump_tab<W>(out, "TCINV", circuit_to_tableau<W>(ci, false, false, false));
    if (t.num_qubits <= 4 && t.num_qubits > 0) {
        for (bool le : {false, true}) {
            auto u = tableau_to_unitary<W>(t, le);
            auto t3 = unitary_to_tableau<W>(u, le);
            dump_tab<W>(out, le ? "TU_LE" : "TU_BE", t3);
        }
        // state vector round trip: circuit -> amplitudes -> circuit -> amplitudes
        auto v = circuit_to_output_state_vector(c, true);
        Circuit c3 = stabilizer_state_vector_to_circuit(v, true);
        auto v2 = circuit_to_output_state_vector(c3, true);
        // compare up to global phase
        std::complex<float> ratio = 0;
        bool ok = v.size() == v2.size();
        for (size_t k = 0; ok && k < v.size(); k++) {
            if (std::abs(v[k]) > 1e-4 || std::abs(v2[k]) > 1e-4) {
                if (std::abs(v[k]) < 1e-4 || std::abs(v2[k]) < 1e-4) {
                    ok = false;
                } else if (ratio == std::complex<float>(0)) {
                    ratio = v2[k] / v[k];
                } else if (std::abs(v2[k] / v[k] - ratio) > 1e-3) {
                    ok = false;
                }
            }
        }
        out << "STATEVEC " << (ok ? 1 : 0) << "\n";
    }
}
SVH_CMD(tabconv) {
    long long w = req.iarg(0, 64);
    if (w == 64) tabconv<64>(req, out);
    else if (w == 128) tabconv<128>(req, out);
    else tabconv<256>(req, out);
}

// #stab2tab W allow_redundant allow_underconstrained invert ; payload: one stabilizer (Pauli string text) per line
template <size_t W>
static void stab2tab(const Req &req, std::ostream &out) {
    std::vector<PauliString<W>> stabs;
    for (const auto &l : req.lines) stabs.push_back(PauliString<W>::from_str(l));
    auto t = stabilizers_to_tableau<W>(stabs, req.iarg(1) != 0, req.iarg(2) != 0, req.iarg(3) != 0);
    dump_tab<W>(out, "T", t);
}
SVH_CMD(stab2tab) {
    long long w = req.iarg(0, 64);
    if (w == 64) stab2tab<64>(req, out);
    else if (w == 128) stab2tab<128>(req, out);
    else stab2tab<256>(req, out);
}
