// C02/C04: bulk (frame) sampling paths.
#include <cstdio>

#include "stim/simulators/force_streaming.h"
#include "stim/util_top/reference_sample_tree.h"
#include "svh.h"

using namespace stim;

#define BY_W(fn, ...)                                  \
    do {                                               \
        long long w = req.iarg(0, 64);                 \
        if (w == 64) fn<64>(__VA_ARGS__);              \
        else if (w == 128) fn<128>(__VA_ARGS__);       \
        else fn<256>(__VA_ARGS__);                     \
    } while (0)

static std::string read_all(FILE *f) {
    std::string s;
    rewind(f);
    char buf[65536];
    size_t n;
    while ((n = fread(buf, 1, sizeof(buf), f)) > 0) {
        s.append(buf, n);
    }
    return s;
}

static SampleFormat fmt_of(const std::string &name) {
    return format_name_to_enum_map().at(name).id;
}

// #fsample W seed shots ; payload circuit -> one line of bits per shot (in-memory table API)
template <size_t W>
static void fsample(const Req &req, std::ostream &out) {
    uint64_t seed = (uint64_t)req.iarg(1, 0);
    size_t shots = (size_t)req.iarg(2, 1);
    Circuit c(req.payload());
    std::mt19937_64 rng(seed);
    auto ref = TableauSimulator<W>::reference_sample_circuit(c);
    simd_bit_table<W> t = sample_batch_measurements<W>(c, ref, shots, rng, true);
    size_t m = c.count_measurements();
    for (size_t s = 0; s < shots; s++) {
        std::string line;
        for (size_t k = 0; k < m; k++) line += t[s][k] ? '1' : '0';
        out << "S " << line << "\n";
    }
}
SVH_CMD(fsample) {
    BY_W(fsample, req, out);
}

// #fsample_bytes W seed shots format streaming(0/1) refmode(tableau|tree|zero) ; payload circuit -> HEX of the bytes written
template <size_t W>
static void fsample_bytes(const Req &req, std::ostream &out) {
    uint64_t seed = (uint64_t)req.iarg(1, 0);
    uint64_t shots = (uint64_t)req.iarg(2, 1);
    SampleFormat format = fmt_of(req.arg(3, "01"));
    bool streaming = req.iarg(4, 0) != 0;
    std::string refmode = req.arg(5, "tableau");
    Circuit c(req.payload());
    std::mt19937_64 rng(seed);
    size_t m = c.count_measurements();
    simd_bits<W> ref(m);
    if (refmode == "tableau") {
        ref = TableauSimulator<W>::reference_sample_circuit(c);
    } else if (refmode == "tree") {
        auto tree = ReferenceSampleTree::from_circuit_reference_sample(c.aliased_noiseless_circuit());
        std::vector<bool> bits;
        tree.decompress_into(bits);
        for (size_t k = 0; k < bits.size() && k < m; k++) ref[k] = bits[k];
    }
    FILE *f = tmpfile();
    if (streaming) {
        DebugForceResultStreamingRaii force;
        sample_batch_measurements_writing_results_to_disk<W>(c, ref, shots, f, format, rng);
    } else {
        sample_batch_measurements_writing_results_to_disk<W>(c, ref, shots, f, format, rng);
    }
    std::string bytes = read_all(f);
    fclose(f);
    out << "HEX " << hex_of(bytes) << "\n";
}
SVH_CMD(fsample_bytes) {
    BY_W(fsample_bytes, req, out);
}

// #refsample W ; payload circuit -> REC (tableau reference) and TREE (decompressed compressed reference sample)
template <size_t W>
static void refsample(const Req &req, std::ostream &out) {
    Circuit c(req.payload());
    size_t m = c.count_measurements();
    auto ref = TableauSimulator<W>::reference_sample_circuit(c);
    std::string s;
    for (size_t k = 0; k < m; k++) s += ref[k] ? '1' : '0';
    out << "REC " << s << "\n";
    auto tree = ReferenceSampleTree::from_circuit_reference_sample(c.aliased_noiseless_circuit());
    std::vector<bool> bits;
    tree.decompress_into(bits);
    std::string t;
    for (bool b : bits) t += b ? '1' : '0';
    out << "TREE " << t << "\n";
    out << "TREESIZE " << tree.size() << "\n";
}
SVH_CMD(refsample) {
    BY_W(refsample, req, out);
}
