// C04: detection events / observables vs measurement parities; m2d.
#include <cstdio>

#include "stim/simulators/force_streaming.h"
#include "svh.h"

using namespace stim;

#define BY_W(fn, ...)                                  \
    do {                                               \
        long long w = req.iarg(0, 64);                 \
        if (w == 64) fn<64>(__VA_ARGS__);              \
        else if (w == 128) fn<128>(__VA_ARGS__);       \
        else fn<256>(__VA_ARGS__);                     \
    } while (0)

static SampleFormat fmt_of4(const std::string &name) {
    return format_name_to_enum_map().at(name).id;
}
static std::string slurp4(FILE *f) {
    std::string s;
    rewind(f);
    char buf[65536];
    size_t n;
    while ((n = fread(buf, 1, sizeof(buf), f)) > 0) s.append(buf, n);
    return s;
}

// #fdet W seed shots ; circuit -> per shot "M flips", "D bits", "O bits" from ONE run in STORE_EVERYTHING_TO_MEMORY mode
template <size_t W>
static void fdet(const Req &req, std::ostream &out) {
    uint64_t seed = (uint64_t)req.iarg(1, 0);
    size_t shots = (size_t)req.iarg(2, 1);
    Circuit c(req.payload());
    auto stats = c.compute_stats();
    FrameSimulator<W> sim(stats, FrameSimulatorMode::STORE_EVERYTHING_TO_MEMORY, shots, std::mt19937_64(seed));
    sim.reset_all();
    sim.do_circuit(c);
    for (size_t s = 0; s < shots; s++) {
        std::string m, d, o;
        for (size_t k = 0; k < stats.num_measurements; k++) m += sim.m_record.storage[k][s] ? '1' : '0';
        for (size_t k = 0; k < stats.num_detectors; k++) d += sim.det_record.storage[k][s] ? '1' : '0';
        for (size_t k = 0; k < stats.num_observables; k++) o += sim.obs_record[k][s] ? '1' : '0';
        out << "M " << m << "\nD " << d << "\nO " << o << "\n";
    }
}
SVH_CMD(fdet) {
    BY_W(fdet, req, out);
}

// #detsample W seed shots ; circuit -> per shot "D bits" "O bits" via sample_batch_detection_events
template <size_t W>
static void detsample(const Req &req, std::ostream &out) {
    uint64_t seed = (uint64_t)req.iarg(1, 0);
    size_t shots = (size_t)req.iarg(2, 1);
    Circuit c(req.payload());
    auto stats = c.compute_stats();
    std::mt19937_64 rng(seed);
    auto r = sample_batch_detection_events<W>(c, shots, rng);
    for (size_t s = 0; s < shots; s++) {
        std::string d, o;
        for (size_t k = 0; k < stats.num_detectors; k++) d += r.first[k][s] ? '1' : '0';
        for (size_t k = 0; k < stats.num_observables; k++) o += r.second[k][s] ? '1' : '0';
        out << "D " << d << "\nO " << o << "\n";
    }
}
SVH_CMD(detsample) {
    BY_W(detsample, req, out);
}

// #detbytes W seed shots format prepend append obsfmt(or -) streaming ; circuit -> "OUT hex" and "OBS hex"
template <size_t W>
static void detbytes(const Req &req, std::ostream &out) {
    uint64_t seed = (uint64_t)req.iarg(1, 0);
    size_t shots = (size_t)req.iarg(2, 1);
    SampleFormat format = fmt_of4(req.arg(3, "01"));
    bool prepend = req.iarg(4) != 0, append = req.iarg(5) != 0;
    std::string obsfmt = req.arg(6, "-");
    bool streaming = req.iarg(7) != 0;
    Circuit c(req.payload());
    std::mt19937_64 rng(seed);
    FILE *f = tmpfile();
    FILE *g = obsfmt == "-" ? nullptr : tmpfile();
    SampleFormat of = obsfmt == "-" ? SampleFormat::SAMPLE_FORMAT_01 : fmt_of4(obsfmt);
    if (streaming) {
        DebugForceResultStreamingRaii force;
        sample_batch_detection_events_writing_results_to_disk<W>(c, shots, prepend, append, f, format, rng, g, of);
    } else {
        sample_batch_detection_events_writing_results_to_disk<W>(c, shots, prepend, append, f, format, rng, g, of);
    }
    out << "OUT " << hex_of(slurp4(f)) << "\n";
    if (g) {
        out << "OBS " << hex_of(slurp4(g)) << "\n";
        fclose(g);
    }
    fclose(f);
}
SVH_CMD(detbytes) {
    BY_W(detbytes, req, out);
}

// #m2d W append skipref ; payload: circuit lines, then "@M bits" per shot (measurements), optional "@S bits" per shot (sweep)
template <size_t W>
static void m2d(const Req &req, std::ostream &out) {
    bool append = req.iarg(1) != 0, skipref = req.iarg(2) != 0;
    std::string ctext;
    std::vector<std::string> ms, ss;
    for (const auto &l : req.lines) {
        if (l.rfind("@M", 0) == 0) ms.push_back(l.size() > 3 ? l.substr(3) : "");
        else if (l.rfind("@S", 0) == 0) ss.push_back(l.size() > 3 ? l.substr(3) : "");
        else ctext += l + "\n";
    }
    Circuit c(ctext);
    auto stats = c.compute_stats();
    size_t shots = ms.size();
    simd_bit_table<W> mt(stats.num_measurements, shots);
    simd_bit_table<W> st(stats.num_sweep_bits, shots);
    for (size_t s = 0; s < shots; s++) {
        for (size_t k = 0; k < stats.num_measurements && k < ms[s].size(); k++) mt[k][s] = ms[s][k] == '1';
        if (s < ss.size())
            for (size_t k = 0; k < stats.num_sweep_bits && k < ss[s].size(); k++) st[k][s] = ss[s][k] == '1';
    }
    auto r = measurements_to_detection_events<W>(mt, st, c, append, skipref);
    size_t n = stats.num_detectors + (append ? stats.num_observables : 0);
    for (size_t s = 0; s < shots; s++) {
        std::string d;
        for (size_t k = 0; k < n; k++) d += r[k][s] ? '1' : '0';
        out << "R " << d << "\n";
    }
}
SVH_CMD(m2d) {
    BY_W(m2d, req, out);
}
