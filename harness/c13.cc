// C13 / C01: the instruction decompositions of src/stim/circuit/gate_decomposition.cc, observed through their callbacks.
#include "stim/circuit/gate_decomposition.h"

#include "svh.h"

using namespace stim;

// #gdecomp kind num_qubits ; one-instruction circuit -> one line per instruction handed to the callback (its str()).
//   kind = mpp | spp | pairs | revseg
SVH_CMD(gdecomp) {
    std::string kind = req.arg(0, "mpp");
    size_t n = (size_t)req.iarg(1, 8);
    Circuit c(req.payload());
    if (c.operations.size() != 1) {
        out << "ERR expected exactly one instruction\n";
        return;
    }
    const CircuitInstruction &inst = c.operations[0];
    if (kind == "mpp") {
        decompose_mpp_operation(inst, n, [&](const CircuitInstruction &sub) {
            out << "I " << sub.str() << "\n";
        });
    } else if (kind == "spp") {
        decompose_spp_or_spp_dag_operation(inst, n, false, [&](const CircuitInstruction &sub) {
            out << "I " << sub.str() << "\n";
        });
    } else if (kind == "pairs") {
        decompose_pair_instruction_into_disjoint_segments(inst, n, [&](CircuitInstruction sub) {
            out << "I " << sub.str() << "\n";
        });
    } else if (kind == "revseg") {
        simd_bits<64> ws(n);
        for_each_disjoint_target_segment_in_instruction_reversed(inst, ws, [&](CircuitInstruction sub) {
            out << "I " << sub.str() << "\n";
        });
    } else {
        out << "ERR unknown kind\n";
    }
}
