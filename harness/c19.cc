// C19: generated circuits built in memory (not through the command line's text).
#include <set>

#include "svh.h"

using namespace stim;

// #gencirc code task distance rounds p_clifford p_data p_measure p_reset
//   -> "EQ <0|1>"  (does the circuit parse back from its own text to an equal circuit?)
//      "ARG <gate> <value with 17 digits>" for every distinct (noise gate, argument) pair
//      the circuit's text
SVH_CMD(gencirc) {
    std::string code = req.arg(0);
    CircuitGenParameters params((uint64_t)req.iarg(3), (uint32_t)req.iarg(2), req.arg(1));
    params.after_clifford_depolarization = std::stod(req.arg(4, "0"));
    params.before_round_data_depolarization = std::stod(req.arg(5, "0"));
    params.before_measure_flip_probability = std::stod(req.arg(6, "0"));
    params.after_reset_flip_probability = std::stod(req.arg(7, "0"));
    Circuit c;
    if (code == "repetition_code") {
        c = generate_rep_code_circuit(params).circuit;
    } else if (code == "surface_code") {
        c = generate_surface_code_circuit(params).circuit;
    } else if (code == "color_code") {
        c = generate_color_code_circuit(params).circuit;
    } else {
        throw std::invalid_argument("unknown code " + code);
    }
    std::string text = c.str();
    Circuit back(text.c_str());
    out << "EQ " << (back == c ? 1 : 0) << "\n";
    std::set<std::pair<std::string, double>> seen;
    std::function<void(const Circuit &)> walk = [&](const Circuit &cc) {
        for (const auto &op : cc.operations) {
            if (op.gate_type == GateType::REPEAT) {
                walk(op.repeat_block_body(cc));
            } else if (GATE_DATA[op.gate_type].flags & GATE_IS_NOISY) {
                if (!(GATE_DATA[op.gate_type].flags & GATE_PRODUCES_RESULTS)) {
                    for (double a : op.args) {
                        seen.insert({std::string(GATE_DATA[op.gate_type].name), a});
                    }
                }
            }
        }
    };
    walk(c);
    out.precision(17);
    for (const auto &kv : seen) {
        out << "ARG " << kv.first << " " << kv.second << "\n";
    }
    out << text << "\n";
}
