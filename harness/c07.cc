// C07/C08: circuit and detector-error-model text formats.
#include <cstdio>

#include "svh.h"

using namespace stim;

static FILE *file_of(const std::string &bytes) {
    FILE *f = tmpfile();
    fwrite(bytes.data(), 1, bytes.size(), f);
    rewind(f);
    return f;
}

static void describe(std::ostream &out, const Circuit &c, int depth = 0) {
    // structural dump independent of the printer: one line per instruction
    for (const auto &op : c.operations) {
        out << "I " << depth << " " << GATE_DATA[op.gate_type].name << " tag=" << hex_of(std::string(op.tag)) << " args=";
        for (size_t k = 0; k < op.args.size(); k++) {
            char buf[64];
            snprintf(buf, sizeof(buf), "%s%.17g", k ? "," : "", op.args[k]);
            out << buf;
        }
        if (op.gate_type == GateType::REPEAT) {
            out << " reps=" << op.repeat_block_rep_count() << "\n";
            describe(out, op.repeat_block_body(c), depth + 1);
        } else {
            out << " targets=";
            for (size_t k = 0; k < op.targets.size(); k++) out << (k ? "," : "") << op.targets[k].data;
            out << "\n";
        }
    }
}

// #cparse entry ; payload line: hex of the text. entry: string | file | stop_asap | append_twice
// -> "OK <hex of str()>" then structural dump, or ERR
SVH_CMD(cparse) {
    std::string entry = req.arg(0, "string");
    std::string text = unhex(req.lines.empty() ? "" : req.lines[0]);
    Circuit c;
    if (entry == "string") {
        c = Circuit(text);
    } else if (entry == "file") {
        FILE *f = file_of(text);
        try {
            c = Circuit::from_file(f);
        } catch (...) {
            fclose(f);
            throw;
        }
        fclose(f);
    } else if (entry == "stop_asap") {
        FILE *f = file_of(text);
        try {
            // read instruction by instruction until nothing more is produced
            size_t guard = 0;
            while (guard++ < 1000000) {
                long before = ftell(f);
                c.append_from_file(f, true);
                if (ftell(f) == before) break;   // nothing consumed: end of input
            }
        } catch (...) {
            fclose(f);
            throw;
        }
        fclose(f);
    }
    out << "OK " << hex_of(c.str()) << "\n";
    describe(out, c);
}

// #creuse ; payload: hex texts, one per line, appended in order to ONE circuit object with append_from_text; a failing
// append is reported and the object keeps being used (tests that a failed parse leaves no residue)
SVH_CMD(creuse) {
    Circuit c;
    for (const auto &l : req.lines) {
        try {
            c.append_from_text(unhex(l));
            out << "APPENDED\n";
        } catch (const std::invalid_argument &e) {
            out << "REJECTED invalid_argument\n";
        } catch (const std::out_of_range &e) {
            out << "REJECTED out_of_range\n";
        }
    }
    out << "OK " << hex_of(c.str()) << "\n";
    describe(out, c);
}

// #cbuild ; API construction. payload lines:
//   OP <gate> <taghex|-> <args comma separated|-> <targets comma separated raw uint32|->
//   REP <count> <taghex|-> {      ...      }
// -> printed text, re-parse of the printed text, equality verdicts
static void build_into(Circuit &c, const std::vector<std::string> &lines, size_t &pos) {
    while (pos < lines.size()) {
        std::istringstream ss(lines[pos++]);
        std::string kind;
        ss >> kind;
        if (kind == "}") return;
        if (kind == "REP") {
            uint64_t count;
            std::string tag, brace;
            ss >> count >> tag >> brace;
            Circuit body;
            build_into(body, lines, pos);
            std::string t = tag == "-" ? "" : unhex(tag);
            c.append_repeat_block(count, body, t);
        } else if (kind == "OP") {
            std::string gate, tag, args, targets;
            ss >> gate >> tag >> args >> targets;
            std::vector<double> a;
            std::vector<GateTarget> ts;
            if (args != "-") {
                std::istringstream as(args);
                std::string tok;
                while (std::getline(as, tok, ',')) a.push_back(std::stod(tok));
            }
            if (targets != "-") {
                std::istringstream tss(targets);
                std::string tok;
                while (std::getline(tss, tok, ',')) ts.push_back(GateTarget{(uint32_t)std::stoul(tok)});
            }
            std::string t = tag == "-" ? "" : unhex(tag);
            c.safe_append(CircuitInstruction(GATE_DATA.at(gate).id, a, ts, t));
        }
    }
}
SVH_CMD(cbuild) {
    Circuit c;
    size_t pos = 0;
    build_into(c, req.lines, pos);
    std::string text = c.str();
    out << "TEXT " << hex_of(text) << "\n";
    describe(out, c);
    out << "REPARSE\n";
    Circuit d(text);
    std::string text2 = d.str();
    out << "TEXT2 " << hex_of(text2) << "\n";
    describe(out, d);
}

// ---- DEM ----
static void describe_dem(std::ostream &out, const DetectorErrorModel &m, int depth = 0) {
    for (const auto &op : m.instructions) {
        out << "I " << depth << " " << (int)op.type << " tag=" << hex_of(std::string(op.tag)) << " args=";
        for (size_t k = 0; k < op.arg_data.size(); k++) {
            char buf[64];
            snprintf(buf, sizeof(buf), "%s%.17g", k ? "," : "", op.arg_data[k]);
            out << buf;
        }
        if (op.type == DemInstructionType::DEM_REPEAT_BLOCK) {
            out << " reps=" << op.repeat_block_rep_count() << "\n";
            describe_dem(out, op.repeat_block_body(m), depth + 1);
        } else {
            out << " targets=";
            for (size_t k = 0; k < op.target_data.size(); k++) out << (k ? "," : "") << op.target_data[k].data;
            out << "\n";
        }
    }
}
// #dparse entry ; hex text -> OK hex of str(), structure ; entry: string | file
SVH_CMD(dparse) {
    std::string entry = req.arg(0, "string");
    std::string text = unhex(req.lines.empty() ? "" : req.lines[0]);
    DetectorErrorModel m;
    if (entry == "string") {
        m = DetectorErrorModel(text);
    } else {
        FILE *f = file_of(text);
        try {
            m = DetectorErrorModel::from_file(f);
        } catch (...) {
            fclose(f);
            throw;
        }
        fclose(f);
    }
    out << "OK " << hex_of(m.str()) << "\n";
    describe_dem(out, m);
}
// #dflat ; dem text -> flattened().str() and the stream produced by iter_flatten_error_instructions
SVH_CMD(dflat) {
    DetectorErrorModel m(req.payload());
    out.precision(17);
    out << "FLAT " << hex_of(m.flattened().str()) << "\n";
    m.iter_flatten_error_instructions([&](const DemInstruction &e) {
        out << "E " << e.arg_data[0];
        for (const auto &t : e.target_data) out << " " << t.str();
        out << "\n";
    });
}
// #dreuse ; like creuse for DetectorErrorModel::append_from_text
SVH_CMD(dreuse) {
    DetectorErrorModel m;
    for (const auto &l : req.lines) {
        try {
            m.append_from_text(unhex(l));
            out << "APPENDED\n";
        } catch (const std::invalid_argument &e) {
            out << "REJECTED invalid_argument\n";
        } catch (const std::out_of_range &e) {
            out << "REJECTED out_of_range\n";
        }
    }
    out << "OK " << hex_of(m.str()) << "\n";
    describe_dem(out, m);
}
