// C01: single-shot (tableau) simulation against the specification.
#include "svh.h"

using namespace stim;

#define BY_W(fn, ...)                                  \
    do {                                               \
        long long w = req.iarg(0, 64);                 \
        if (w == 64) fn<64>(__VA_ARGS__);              \
        else if (w == 128) fn<128>(__VA_ARGS__);       \
        else fn<256>(__VA_ARGS__);                     \
    } while (0)

static std::string bits_of(const std::vector<bool> &v) {
    std::string s;
    for (bool b : v) s += b ? '1' : '0';
    return s;
}

template <size_t W>
static PauliString<W> parse_sparse_pauli(const std::string &text, size_t n) {
    // "q:P q:P ..." ; optional leading '-' token
    PauliString<W> p(n);
    std::istringstream ss(text);
    std::string tok;
    while (ss >> tok) {
        if (tok == "-") {
            p.sign ^= true;
            continue;
        }
        auto c = tok.find(':');
        size_t q = std::stoul(tok.substr(0, c));
        char ch = tok[c + 1];
        // products multiply: accumulate with a right multiplication to keep the sign exact
        PauliString<W> one(n);
        one.xs[q] = (ch == 'X' || ch == 'Y');
        one.zs[q] = (ch == 'Z' || ch == 'Y');
        uint8_t k = p.ref().inplace_right_mul_returning_log_i_scalar(one.ref());
        if (k & 1) {
            throw std::invalid_argument("non-hermitian probe");
        }
        if (k & 2) {
            p.sign ^= true;
        }
    }
    return p;
}

// #tsim W seed bias nqubits ; payload: circuit text with optional lines "@PROBE q:P q:P ..."
// Runs TableauSimulator<W> segment by segment. Prints one "P ..." line per probe and a final "REC bits".
template <size_t W>
static void tsim(const Req &req, std::ostream &out) {
    uint64_t seed = (uint64_t)req.iarg(1, 0);
    int bias = (int)req.iarg(2, 0);
    size_t n = (size_t)req.iarg(3, 1);
    TableauSimulator<W> sim(std::mt19937_64(seed), n, (int8_t)bias);
    std::string seg;
    auto flush = [&]() {
        if (!seg.empty()) {
            Circuit c(seg);
            sim.safe_do_circuit(c);
            seg.clear();
        }
    };
    for (const auto &line : req.lines) {
        if (line.rfind("@PROBE", 0) == 0) {
            flush();
            sim.ensure_large_enough_for_qubits(n);
            std::string spec = line.substr(6);
            PauliString<W> p = parse_sparse_pauli<W>(spec, sim.inv_state.num_qubits);
            int e = sim.peek_observable_expectation(p);
            // single-qubit queries must agree with the product query
            std::string single = "-";
            size_t weight = p.ref().weight();
            if (weight == 1) {
                size_t q = 0;
                p.ref().for_each_active_pauli([&](size_t k) { q = k; });
                bool x = p.xs[q], z = p.zs[q];
                int pe = x && z ? sim.peek_y(q) : x ? sim.peek_x(q) : sim.peek_z(q);
                bool det = x && z ? sim.is_deterministic_y(q) : x ? sim.is_deterministic_x(q) : sim.is_deterministic_z(q);
                if (p.sign) pe = -pe;
                PauliString<W> bl = sim.peek_bloch(q);
                // peek_bloch: the single-qubit stabilizer if any, identity otherwise
                int be = 0;
                if (bl.xs[0] == x && bl.zs[0] == z && (x || z)) be = (bl.sign ^ p.sign) ? -1 : 1;
                single = std::to_string(pe) + "," + std::to_string(det ? 1 : 0) + "," + std::to_string(be);
            }
            // "an outcome reported as fixed is the one subsequently measured": measure on a copy
            TableauSimulator<W> copy(sim, std::mt19937_64(seed ^ 0x9e3779b97f4a7c15ULL));
            copy.sign_bias = (int8_t)bias;
            bool m = copy.measure_pauli_string(p.ref(), 0.0);
            // kickback flavour for single qubit Z-basis probes exercised as well
            out << "P " << e << " " << (m ? 1 : 0) << " " << single << "\n";
        } else {
            seg += line;
            seg += '\n';
        }
    }
    flush();
    out << "REC " << bits_of(sim.measurement_record.storage) << "\n";
    auto stabs = sim.canonical_stabilizers();
    out << "STAB";
    for (const auto &s : stabs) {
        out << " " << s.str();
    }
    out << "\n";
}
SVH_CMD(tsim) {
    BY_W(tsim, req, out);
}

// #tsample W seed bias mode ; payload circuit. mode: sample | reference
template <size_t W>
static void tsample(const Req &req, std::ostream &out) {
    uint64_t seed = (uint64_t)req.iarg(1, 0);
    int bias = (int)req.iarg(2, 0);
    std::string mode = req.arg(3, "sample");
    Circuit c(req.payload());
    size_t m = c.count_measurements();
    simd_bits<W> r(0);
    if (mode == "reference") {
        r = TableauSimulator<W>::reference_sample_circuit(c);
    } else {
        std::mt19937_64 rng(seed);
        r = TableauSimulator<W>::sample_circuit(c, rng, (int8_t)bias);
    }
    std::string s;
    for (size_t k = 0; k < m; k++) s += r[k] ? '1' : '0';
    out << "REC " << s << "\n";
}
SVH_CMD(tsample) {
    BY_W(tsample, req, out);
}
