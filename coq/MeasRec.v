(* The bulk measurement record (MeasureRecordBatch): reserving `count` noisy rows and then recording `count` results by XOR.
   Model: storage is a list of rows, `stored` the number of rows in use. reserve_noisy overwrites rows stored .. stored+count-1 with
   fresh noise rows (one biased_randomize_bits call over that contiguous range); xor_record XORs a result into row `stored`, masks it
   and advances `stored`. Theorem: after the `count` results of the instruction have been recorded, row stored+k holds
   mask (noise_k xor result_k) for every k, earlier rows are untouched and stored has advanced by count: every result of the
   instruction is flipped by exactly its own noise row. *)
From Coq Require Import List Arith Bool Lia.
Import ListNotations.

Section Rec.
Variable row : Type.
Variable rxor : row -> row -> row.
Variable mask : row -> row.

Definition reserve_noisy (s : list row) (stored : nat) (noise : list row) : list row :=
  firstn stored s ++ noise ++ skipn (stored + length noise) s.

Fixpoint upd (s : list row) (k : nat) (f : row -> row) : list row :=
  match s, k with
  | [], _ => []
  | x :: t, 0 => f x :: t
  | x :: t, S k' => x :: upd t k' f
  end.

Definition xor_record (st : list row * nat) (r : row) : list row * nat :=
  (upd (fst st) (snd st) (fun x => mask (rxor x r)), S (snd st)).

Fixpoint zipx (a b : list row) : list row :=
  match a, b with x :: a', y :: b' => mask (rxor x y) :: zipx a' b' | _, _ => [] end.

Lemma upd_app_len pre x post f : upd (pre ++ x :: post) (length pre) f = pre ++ f x :: post.
Proof. induction pre as [|p pre IH]; cbn; [reflexivity | now rewrite IH]. Qed.

Lemma fold_xor_records pre noise post results :
  length results = length noise ->
  fold_left xor_record results (pre ++ noise ++ post, length pre) = (pre ++ zipx noise results ++ post, length pre + length noise).
Proof.
  revert pre noise. induction results as [|r rs IH]; intros pre noise Hl.
  - destruct noise; [|discriminate]. cbn. now rewrite Nat.add_0_r.
  - destruct noise as [|x noise]; [discriminate|]. cbn [fold_left]. unfold xor_record at 2. cbn [fst snd].
    cbn [app]. rewrite upd_app_len.
    replace (pre ++ mask (rxor x r) :: noise ++ post) with ((pre ++ [mask (rxor x r)]) ++ noise ++ post) by now rewrite <- app_assoc.
    replace (S (length pre)) with (length (pre ++ [mask (rxor x r)])) by (rewrite app_length; cbn; lia).
    rewrite IH by (cbn in Hl; lia). rewrite app_length. cbn [length zipx]. rewrite <- app_assoc. cbn [app]. f_equal. lia.
Qed.

Theorem noisy_results s stored noise results :
  stored + length noise <= length s -> length results = length noise ->
  fold_left xor_record results (reserve_noisy s stored noise, stored) =
  (firstn stored s ++ zipx noise results ++ skipn (stored + length noise) s, stored + length noise).
Proof.
  intros Hs Hl. unfold reserve_noisy.
  assert (Hf : length (firstn stored s) = stored) by (rewrite firstn_length; lia).
  remember (firstn stored s) as pre eqn:Hpre. remember (skipn (stored + length noise) s) as post eqn:Hpost.
  replace (pre ++ noise ++ post, stored) with (pre ++ noise ++ post, length pre) by now rewrite Hf.
  rewrite fold_xor_records by exact Hl. now rewrite Hf.
Qed.

(* row k of the instruction: its own noise xor its own result *)
Lemma zipx_nth noise results k d : length results = length noise -> k < length noise ->
  nth k (zipx noise results) d = mask (rxor (nth k noise d) (nth k results d)).
Proof.
  revert results k. induction noise as [|x noise IH]; intros results k Hl Hk; [cbn in Hk; lia|].
  destruct results as [|r rs]; [discriminate|]. destruct k; cbn; [reflexivity|]. apply IH; cbn in *; lia.
Qed.
End Rec.

(* TableauSimulator::noisify_new_measurements: the hit indices k < num_targets of the rare-error iterator flip entry last - k. *)
Section Noisify.
Fixpoint updb (s : list bool) (k : nat) : list bool :=
  match s, k with
  | [], _ => []
  | x :: t, 0 => negb x :: t
  | x :: t, S k' => x :: updb t k'
  end.
Lemma updb_length s k : length (updb s k) = length s.
Proof. revert k; induction s as [|x s IH]; intros [|k]; cbn; auto. Qed.
Lemma nth_updb s k i : nth i (updb s k) false = if Nat.eqb i k then (if Nat.ltb k (length s) then negb (nth i s false) else nth i s false) else nth i s false.
Proof.
  revert k i; induction s as [|x s IH]; intros k i.
  - cbn. destruct i, k; cbn; try reflexivity; destruct (Nat.eqb i k); reflexivity.
  - destruct k, i; cbn; try reflexivity. rewrite IH. destruct (Nat.eqb i k); [|reflexivity].
    change (S k <? S (length s)) with (k <? length s). reflexivity.
Qed.
Definition noisify (last_off : nat) (s : list bool) (hits : list nat) : list bool :=
  fold_left (fun acc k => updb acc (length s - last_off - k)) hits s.
Definition parity_hits (n j : nat) (hits : list nat) : bool :=
  fold_left (fun b k => xorb b (Nat.eqb (n - 1 - k) j && Nat.ltb (n - 1 - k) n)) hits false.

Lemma noisify_gen n acc hits j : length acc = n ->
  nth j (fold_left (fun a k => updb a (n - 1 - k)) hits acc) false =
  xorb (nth j acc false) (fold_left (fun b k => xorb b (Nat.eqb (n - 1 - k) j && Nat.ltb (n - 1 - k) n)) hits false).
Proof.
  revert acc. induction hits as [|k hits IH]; intros acc Hn; cbn [fold_left]; [now rewrite xorb_false_r|].
  rewrite IH by now rewrite updb_length. rewrite nth_updb, Hn.
  assert (Hgen : forall b0 l, fold_left (fun b k0 => xorb b (Nat.eqb (n - 1 - k0) j && Nat.ltb (n - 1 - k0) n)) l b0 =
                 xorb b0 (fold_left (fun b k0 => xorb b (Nat.eqb (n - 1 - k0) j && Nat.ltb (n - 1 - k0) n)) l false)).
  { intros b0 l; revert b0; induction l as [|a l IHl]; intros b0; cbn [fold_left]; [now rewrite xorb_false_r|].
    rewrite IHl. rewrite (IHl (xorb false _)). rewrite xorb_false_l. now rewrite xorb_assoc. }
  rewrite (Hgen (xorb false _)). rewrite xorb_false_l.
  rewrite (Nat.eqb_sym j). destruct (Nat.eqb (n - 1 - k) j) eqn:E; cbn [andb].
  - destruct (Nat.ltb (n - 1 - k) n); [|now rewrite xorb_false_l].
    destruct (nth j acc false), (fold_left _ hits false); reflexivity.
  - now rewrite xorb_false_l.
Qed.

(* entry j of the record is flipped once per hit k with last - k = j; entries further back than num_targets are untouched *)
Theorem noisify_flips s hits j :
  nth j (noisify 1 s hits) false = xorb (nth j s false) (parity_hits (length s) j hits).
Proof. unfold noisify, parity_hits. now apply noisify_gen. Qed.

Theorem noisify_only_new_results s hits num_targets j :
  Forall (fun k => k < num_targets) hits -> num_targets <= length s -> j < length s - num_targets ->
  nth j (noisify 1 s hits) false = nth j s false.
Proof.
  intros Hh Hn Hj. rewrite noisify_flips. unfold parity_hits.
  assert (H0 : forall b0, fold_left (fun b k => xorb b (Nat.eqb (length s - 1 - k) j && Nat.ltb (length s - 1 - k) (length s))) hits b0 = b0).
  { induction Hh as [|k hits Hk Hh IH]; intros b0; cbn [fold_left]; [reflexivity|].
    rewrite IH. destruct (Nat.eqb_spec (length s - 1 - k) j); [lia|]. cbn. now rewrite xorb_false_r. }
  rewrite H0. now rewrite xorb_false_r.
Qed.
End Noisify.
