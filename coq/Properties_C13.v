(* C13 — Circuit rewrites keep the documented relation to their input. *)
From Coq Require Import List Bool String ZArith.
Import ListNotations.
Require Equiv.
Require Import Stab Spec SpecProofs GF2 Act Gen_GateTable Gen_Simplify GenProofs_Simplify TableAut.
Require Segs Gen_SimpSegs GenProofs_SimpSegs.
Require Pauli Sem Refine FrameProg RevProg RevFlow.

(* decomposed(): every per-gate table of the simplifier, regenerated from the source, is the gate: unitary entries compose to
   the documented action with exact signs; measurement entries conjugate the measured observable onto +Z of the measured
   qubit and back, keep the noise argument and the result inversion; reset entries prepare the documented state *)
Theorem C13_simplifier_tables_match_gate_table : simp_all_ok = true.
Proof. exact simplifier_tables_match_gate_table. Qed.
Theorem C13_simplifier_unitary1_is_the_gate :
  forall g l, In (g, l) simp1 -> in_list g ["M"; "MX"; "MY"; "MR"; "MRX"; "MRY"]%string = false -> in_list g ["R"; "RX"; "RY"]%string = false ->
  forall ts P, run1 (f_of_seq1 l) ts P = run1 (local1 (flows_of (gate_named g))) ts P.
Proof. exact simplifier_unitary1_correct. Qed.
Theorem C13_simplifier_unitary2_is_the_gate :
  forall g l, In (g, l) simp2 -> in_list g ["MXX"; "MYY"; "MZZ"]%string = false ->
  forall ts P, run2 (f_of_seq2 l) ts P = run2 (local2 (flows_of (gate_named g))) ts P.
Proof. exact simplifier_unitary2_correct. Qed.
(* inverse(): the inverse ids of the gate table invert the action *)
Theorem C13_table_inverse_is_inverse : table_inv_ok = true.
Proof. exact table_inverse_is_inverse. Qed.
(* the comparison oracle: span memberships give inclusion of outcome sets (used in both directions); the memberships are
   decided by the verified solver *)
Theorem C13_affine_image_included :
  forall (cA cB : Equiv.vec) (colsA colsB : list Equiv.vec),
  Equiv.in_span colsB (fun j => xorb (cA j) (cB j)) -> Forall (Equiv.in_span colsB) colsA ->
  forall v, List.length v = List.length colsA ->
  exists v', List.length v' = List.length colsB /\
             forall j, xorb (cA j) (Equiv.comb colsA v j) = xorb (cB j) (Equiv.comb colsB v' j).
Proof. exact Equiv.affine_image_included. Qed.
Theorem C13_solver_sound : forall m eqs, consistent m eqs = true -> exists k, List.length k = m /\ Forall (satisfies m k) eqs.
Proof. exact consistent_sound. Qed.
Theorem C13_solver_complete : forall m eqs k, Forall (satisfies m k) eqs -> consistent m eqs = true.
Proof. exact consistent_complete. Qed.
Print Assumptions C13_simplifier_tables_match_gate_table. Print Assumptions C13_simplifier_unitary2_is_the_gate.
Print Assumptions C13_affine_image_included. Print Assumptions C13_solver_complete.

(* The simplifier's cutting of an instruction into pieces, regenerated from source, is the greedy cutting of Segs.v: the pieces
   concatenate to the instruction's targets and no piece uses a qubit twice (classically controlled pairs included), so the
   simultaneous basis changes emitted around a piece act on distinct qubits. *)
Theorem C13_simplifier_cutting_is_the_model : GenProofs_SimpSegs.simpsegs_ok = true.
Proof. exact GenProofs_SimpSegs.simplifier_cutting_is_the_model. Qed.
Theorem C13_simplifier_pieces_1q :
  forall ts, List.concat (Segs.segs1 ts [] []) = ts /\ Forall (fun seg => NoDup (Segs.qvals seg)) (Segs.segs1 ts [] []).
Proof. exact Segs.simplifier_pieces_1q. Qed.
Theorem C13_simplifier_pieces_2q :
  forall ps, Forall Segs.pair_ok ps ->
  List.concat (Segs.segs2 ps [] []) = ps /\ Forall (fun seg => NoDup (Segs.pvals seg)) (Segs.segs2 ps [] []).
Proof. exact Segs.simplifier_pieces_2q. Qed.
Print Assumptions C13_simplifier_cutting_is_the_model. Print Assumptions C13_simplifier_pieces_1q. Print Assumptions C13_simplifier_pieces_2q.

(* Unsigned flows on whole adaptive programs: walking an end observable Send backwards (multiplied by M at flagged measurements,
   flags toggled by later anticommuting feedback, pulled back through Cliffords) gives S0 with, for every frame F put in front of
   the program, every earlier flips and every randomisation:
     [F_end, Send] xor (parity of the flagged flips) = [F, S0] xor (pending toggles . earlier flips) xor (anticommuting external Paulis).
   A Pauli error before the program changes "Send times the flagged results" exactly when it anticommutes with S0: the circuit has
   the unsigned flow S0 -> Send xor rec[flags], which is what the reverse tracker behind time reversal and the flow-generator
   solver computes. *)
Theorem C13_unsigned_flow_closed_form :
  forall (n : nat) (extr exta : nat -> bool) (Send : Pauli.pauli), Refine.wf n Send ->
  forall (prog : list FrameProg.pop) (F : Pauli.pauli) (fl zs d : list bool),
  Forall (FrameProg.okp n) prog -> Refine.wf n F -> RevFlow.gauge_okf Send prog d ->
  RevFlow.fparf extr exta Send F fl zs prog d =
  xorb (xorb (Sem.acom F (fst (RevFlow.btf Send prog d))) (RevProg.dotp (snd (RevFlow.btf Send prog d)) fl))
       (RevFlow.ext_parf extr exta Send prog d).
Proof. exact RevFlow.flow_closed_form. Qed.
Print Assumptions C13_unsigned_flow_closed_form.
