(* C08 / C16: flattening a detector error model = executing it one instruction at a time.
   `flat` mirrors flattened_helper / iter_flatten_error_instructions_helper (recursion over repeat blocks with a running
   detector offset threaded through); `exec (unroll m)` is the naive execution: unroll every repeat block textually, then run
   the instruction stream left to right with a running offset. Coordinates follow the same pattern and are omitted. *)
From Coq Require Import List NArith Lia.
Import ListNotations.
Local Open Scope N_scope.

Inductive dtarget := TD (id : N) | TL (id : N) | TSep.
Inductive dinstr :=
| IErr (p : N) (ts : list dtarget)         (* p: an opaque probability tag *)
| IDet (ts : list dtarget)
| IObs (ts : list dtarget)
| IShift (n : N)
| IRep (reps : nat) (body : list dinstr).

Definition shift_t (off : N) (t : dtarget) : dtarget := match t with TD i => TD (i + off) | _ => t end.
Inductive oinstr := OErr (p : N) (ts : list dtarget) | ODet (ts : list dtarget) | OObs (ts : list dtarget).

(* iterate a state-passing block `reps` times *)
Fixpoint iter_block (f : N -> list oinstr * N) (reps : nat) (off : N) : list oinstr * N :=
  match reps with
  | O => ([], off)
  | S r => let '(o1, off1) := f off in let '(o2, off2) := iter_block f r off1 in (o1 ++ o2, off2)
  end.

Fixpoint flat_i (i : dinstr) (off : N) : list oinstr * N :=
  match i with
  | IErr p ts => ([OErr p (map (shift_t off) ts)], off)
  | IDet ts => ([ODet (map (shift_t off) ts)], off)
  | IObs ts => ([OObs ts], off)
  | IShift n => ([], off + n)
  | IRep reps body =>
      iter_block (fun o => (fix go (l : list dinstr) (o : N) : list oinstr * N :=
                              match l with
                              | [] => ([], o)
                              | j :: r => let '(a, o1) := flat_i j o in let '(b, o2) := go r o1 in (a ++ b, o2)
                              end) body o) reps off
  end.
Fixpoint flat (l : list dinstr) (off : N) : list oinstr * N :=
  match l with
  | [] => ([], off)
  | j :: r => let '(a, o1) := flat_i j off in let '(b, o2) := flat r o1 in (a ++ b, o2)
  end.

(* textual unrolling: no IRep remains *)
Fixpoint rep_list {A} (n : nat) (l : list A) : list A := match n with O => [] | S k => l ++ rep_list k l end.
Fixpoint unroll_i (i : dinstr) : list dinstr :=
  match i with
  | IRep reps body => rep_list reps ((fix go (l : list dinstr) : list dinstr :=
                                        match l with [] => [] | j :: r => unroll_i j ++ go r end) body)
  | _ => [i]
  end.
Fixpoint unroll (l : list dinstr) : list dinstr := match l with [] => [] | j :: r => unroll_i j ++ unroll r end.

(* naive execution of a repeat-free stream *)
Fixpoint exec (l : list dinstr) (off : N) : list oinstr * N :=
  match l with
  | [] => ([], off)
  | IErr p ts :: r => let '(b, o2) := exec r off in (OErr p (map (shift_t off) ts) :: b, o2)
  | IDet ts :: r => let '(b, o2) := exec r off in (ODet (map (shift_t off) ts) :: b, o2)
  | IObs ts :: r => let '(b, o2) := exec r off in (OObs ts :: b, o2)
  | IShift n :: r => exec r (off + n)
  | IRep _ _ :: r => exec r off            (* unreachable after unroll *)
  end.

Lemma exec_app a b off : exec (a ++ b) off = let '(x, o1) := exec a off in let '(y, o2) := exec b o1 in (x ++ y, o2).
Proof.
  revert off; induction a as [|i a IH]; intros off; cbn [app exec].
  - destruct (exec b off); reflexivity.
  - destruct i; try (rewrite IH; destruct (exec a off) as [x o1]; destruct (exec b o1); reflexivity); apply IH.
Qed.

Lemma iter_block_rep f body reps : (forall off, f off = exec body off) ->
  forall off, iter_block f reps off = exec (rep_list reps body) off.
Proof.
  intros Hf. induction reps as [|r IH]; intros off; cbn [iter_block rep_list]; [reflexivity|].
  rewrite exec_app, Hf. destruct (exec body off) as [x o1]. rewrite IH. reflexivity.
Qed.

(* nested induction *)
Section Ind.
  Variable P : dinstr -> Prop.
  Hypothesis Herr : forall p ts, P (IErr p ts).
  Hypothesis Hdet : forall ts, P (IDet ts).
  Hypothesis Hobs : forall ts, P (IObs ts).
  Hypothesis Hshift : forall n, P (IShift n).
  Hypothesis Hrep : forall reps body, Forall P body -> P (IRep reps body).
  Fixpoint dinstr_ind' (i : dinstr) : P i :=
    match i with
    | IErr p ts => Herr p ts | IDet ts => Hdet ts | IObs ts => Hobs ts | IShift n => Hshift n
    | IRep reps body => Hrep reps body ((fix go (l : list dinstr) : Forall P l :=
                                           match l with [] => Forall_nil P | j :: r => Forall_cons j (dinstr_ind' j) (go r) end) body)
    end.
End Ind.

Lemma flat_i_correct : forall i off, flat_i i off = exec (unroll_i i) off.
Proof.
  induction i as [p ts|ts|ts|n|reps body IH] using dinstr_ind'; intros off; cbn [flat_i unroll_i exec]; try reflexivity.
  apply iter_block_rep. clear off reps.
  induction body as [|j r IHr]; intros off; [reflexivity|].
  apply Forall_cons_iff in IH. destruct IH as [Hj Hr].
  rewrite exec_app, <- Hj. destruct (flat_i j off) as [a o1]. rewrite (IHr Hr). reflexivity.
Qed.

Theorem flatten_is_naive_execution : forall m off, flat m off = exec (unroll m) off.
Proof.
  induction m as [|j r IH]; intros off; cbn [flat unroll]; [reflexivity|].
  rewrite exec_app, <- flat_i_correct. destruct (flat_i j off) as [a o1]. rewrite IH. reflexivity.
Qed.

(* the error stream seen by iter_flatten_error_instructions is the error part of the flattened model *)
Definition errors_of (l : list oinstr) : list (N * list dtarget) :=
  flat_map (fun o => match o with OErr p ts => [(p, ts)] | _ => [] end) l.
