From Coq Require Import List Bool.
Require Import Stab Act Spec.
(* filled in below *)
Theorem C01_placeholder : True. Proof. exact I. Qed.
