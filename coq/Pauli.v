From Coq Require Import List Bool Arith Lia Ring.
Import ListNotations.

(* ---------- Z4 as two booleans: i^(b0 + 2 b1) ---------- *)
Definition z4 := (bool * bool)%type.
Definition z4_0 : z4 := (false, false).
Definition z4_add (a b : z4) : z4 := (xorb (fst a) (fst b), xorb (xorb (snd a) (snd b)) (andb (fst a) (fst b))).
Definition z4_two (p : bool) : z4 := (false, p).          (* 2*p *)
Lemma z4_add_assoc a b c : z4_add a (z4_add b c) = z4_add (z4_add a b) c.
Proof. destruct a as [[] []], b as [[] []], c as [[] []]; reflexivity. Qed.
Lemma z4_add_comm a b : z4_add a b = z4_add b a.
Proof. destruct a as [[] []], b as [[] []]; reflexivity. Qed.
Lemma z4_add_0_l a : z4_add z4_0 a = a. Proof. destruct a as [[] []]; reflexivity. Qed.
Lemma z4_two_xor p q : z4_add (z4_two p) (z4_two q) = z4_two (xorb p q).
Proof. destruct p, q; reflexivity. Qed.

Definition z4_1 : z4 := (true, false).
Definition z4_mul (a b : z4) : z4 := (andb (fst a) (fst b), xorb (andb (fst a) (snd b)) (andb (snd a) (fst b))).
Definition z4_opp (a : z4) : z4 := (fst a, xorb (snd a) (fst a)).
Definition z4_sub (a b : z4) := z4_add a (z4_opp b).
Lemma z4_ring : ring_theory z4_0 z4_1 z4_add z4_mul z4_sub z4_opp eq.
Proof. constructor; intros; repeat match goal with x : z4 |- _ => destruct x as [[] []] end; reflexivity. Qed.
Add Ring z4ring : z4_ring.

(* ---------- XZ-form Pauli strings: i^k * X^x Z^z, positions as list (x,z) ---------- *)
Definition bits := list (bool * bool).
Fixpoint bxor (a b : bits) : bits :=
  match a, b with p :: a', q :: b' => (xorb (fst p) (fst q), xorb (snd p) (snd q)) :: bxor a' b' | _, _ => [] end.
(* parity of #positions with z(a) & x(b): the sign picked up moving Z^za past X^xb *)
Fixpoint zx_par (a b : bits) : bool :=
  match a, b with p :: a', q :: b' => xorb (andb (snd p) (fst q)) (zx_par a' b') | _, _ => false end.
Definition pauli := (z4 * bits)%type.
Definition pmul (p q : pauli) : pauli :=
  (z4_add (z4_add (fst p) (fst q)) (z4_two (zx_par (snd p) (snd q))), bxor (snd p) (snd q)).

Lemma bxor_length a b : length a = length b -> length (bxor a b) = length a.
Proof. revert b; induction a as [|p a IH]; intros [|q b] H; cbn in *; try lia. f_equal. apply IH. lia. Qed.
Lemma bxor_assoc a b c : length a = length b -> length b = length c -> bxor a (bxor b c) = bxor (bxor a b) c.
Proof. revert b c; induction a as [|p a IH]; intros [|q b] [|r c] H1 H2; cbn in *; try lia; try reflexivity.
  f_equal; [destruct p as [[] []], q as [[] []], r as [[] []]; reflexivity| apply IH; lia]. Qed.
Lemma zx_par_xor_l a b c : length a = length b -> length b = length c ->
  zx_par (bxor a b) c = xorb (zx_par a c) (zx_par b c).
Proof. revert b c; induction a as [|p a IH]; intros [|q b] [|r c] H1 H2; cbn in *; try lia; try reflexivity.
  rewrite IH by lia. destruct p as [[] []], q as [[] []], r as [[] []], (zx_par a c), (zx_par b c); reflexivity. Qed.
Lemma zx_par_xor_r a b c : length a = length b -> length b = length c ->
  zx_par a (bxor b c) = xorb (zx_par a b) (zx_par a c).
Proof. revert b c; induction a as [|p a IH]; intros [|q b] [|r c] H1 H2; cbn in *; try lia; try reflexivity.
  rewrite IH by lia. destruct p as [[] []], q as [[] []], r as [[] []], (zx_par a b), (zx_par a c); reflexivity. Qed.

Theorem pmul_assoc p q r : length (snd p) = length (snd q) -> length (snd q) = length (snd r) ->
  pmul p (pmul q r) = pmul (pmul p q) r.
Proof.
  destruct p as [kp a], q as [kq b], r as [kr c]; cbn [fst snd]; intros H1 H2. unfold pmul; cbn [fst snd].
  rewrite bxor_assoc by assumption. f_equal.
  rewrite zx_par_xor_r, zx_par_xor_l by assumption.
  destruct kp as [[] []], kq as [[] []], kr as [[] []], (zx_par a b), (zx_par a c), (zx_par b c); reflexivity.
Qed.

(* commutation: p q = (-1)^{symp} q p *)
Definition symp (a b : bits) : bool := xorb (zx_par a b) (zx_par b a).
Lemma bxor_comm a b : bxor a b = bxor b a.
Proof. revert b; induction a as [|p a IH]; intros [|q b]; cbn; try reflexivity. rewrite IH. f_equal. f_equal; apply xorb_comm. Qed.
Theorem pmul_comm_sign p q :
  pmul p q = (z4_add (fst (pmul q p)) (z4_two (symp (snd p) (snd q))), snd (pmul q p)).
Proof.
  destruct p as [kp a], q as [kq b]; unfold pmul, symp; cbn [fst snd]. rewrite (bxor_comm a b). f_equal.
  destruct kp as [[] []], kq as [[] []], (zx_par a b), (zx_par b a); reflexivity.
Qed.

(* ---------- Stim's Hermitian form: (sign, bits) with Y = iXZ ---------- *)
Definition y1 (p : bool * bool) : z4 := if andb (fst p) (snd p) then z4_1 else z4_0.
Fixpoint ycount (a : bits) : z4 :=   (* i^{#Y} *)
  match a with [] => z4_0 | p :: a' => z4_add (y1 p) (ycount a') end.
Definition denote (h : bool * bits) : pauli := (z4_add (z4_two (fst h)) (ycount (snd h)), snd h).
(* hermitian product: returns log_i (as z4) and resulting hermitian string with sign 0,
   specified by: denote a * denote b = i^log_i * denote (false, bxor) *)
Definition z4_neg (a : z4) : z4 := (fst a, xorb (snd a) (fst a)).
Lemma z4_neg_spec a : z4_add a (z4_neg a) = z4_0. Proof. destruct a as [[] []]; reflexivity. Qed.
Definition hmul_log_i (a b : bool * bits) : z4 :=
  z4_add (fst (pmul (denote a) (denote b))) (z4_neg (ycount (bxor (snd a) (snd b)))).
Theorem hmul_spec a b :
  pmul (denote a) (denote b) = (z4_add (hmul_log_i a b) (fst (denote (false, bxor (snd a) (snd b)))), bxor (snd a) (snd b)).
Proof.
  unfold hmul_log_i, denote, pmul; cbn [fst snd]. f_equal.
  generalize (z4_add (z4_add (z4_add (z4_two (fst a)) (ycount (snd a))) (z4_add (z4_two (fst b)) (ycount (snd b))))
                (z4_two (zx_par (snd a) (snd b)))) as u.
  generalize (ycount (bxor (snd a) (snd b))) as y.
  intros [[] []] [[] []]; reflexivity.
Qed.
(* single-position phase table used by the implementation's 2-bit counters *)
Definition ph1 (p q : bool * bool) : z4 :=
  match p, q with
  | (true,false),(true,true) | (true,true),(false,true) | (false,true),(true,false) => (true,false)
  | (true,true),(true,false) | (false,true),(true,true) | (true,false),(false,true) => (true,true)
  | _, _ => z4_0 end.
Fixpoint ph (a b : bits) : z4 := match a, b with p :: a', q :: b' => z4_add (ph1 p q) (ph a' b') | _, _ => z4_0 end.
Lemma z4_two_xorb p q : z4_two (xorb p q) = z4_add (z4_two p) (z4_two q).
Proof. destruct p, q; reflexivity. Qed.
Lemma ph1_local p q :
  ph1 p q = z4_sub (z4_add (z4_add (y1 p) (y1 q)) (z4_two (andb (snd p) (fst q)))) (y1 (xorb (fst p) (fst q), xorb (snd p) (snd q))).
Proof. destruct p as [[] []], q as [[] []]; reflexivity. Qed.
Theorem hmul_log_i_is_ph a b : length (snd a) = length (snd b) ->
  hmul_log_i a b = z4_add (z4_two (xorb (fst a) (fst b))) (ph (snd a) (snd b)).
Proof.
  destruct a as [sa a], b as [sb b]; cbn [fst snd]. unfold hmul_log_i, denote, pmul; cbn [fst snd].
  change z4_neg with z4_opp.
  revert b; induction a as [|p a IH]; intros [|q b] H; cbn [length] in *; try lia.
  - destruct sa, sb; reflexivity.
  - specialize (IH b ltac:(lia)).
    cbn [ycount zx_par bxor ph].
    rewrite ph1_local, !z4_two_xorb. rewrite z4_two_xorb in IH.
    (* abelian-group rearrangement *)
    transitivity (z4_add (z4_sub (z4_add (z4_add (y1 p) (y1 q)) (z4_two (andb (snd p) (fst q)))) (y1 (xorb (fst p) (fst q), xorb (snd p) (snd q))))
                         (z4_add (z4_add (z4_add (z4_add (z4_two sa) (ycount a)) (z4_add (z4_two sb) (ycount b))) (z4_two (zx_par a b))) (z4_opp (ycount (bxor a b))))).
    + unfold z4_sub. ring.
    + rewrite IH. unfold z4_sub. ring.
Qed.
Print Assumptions pmul_assoc. Print Assumptions hmul_log_i_is_ph.
