(* C11 — Tableau algebra and Clifford conversions are exact, signs included. *)
From Coq Require Import List Bool String ZArith.
Import ListNotations.
Require Pauli Collapse Span Tab TabThen.
Require Import Stab Act RowProg Gen_GateTable Gen_Prepend GenProofs_Prepend TableAut.

(* a tableau with Hermitian row images satisfying the canonical commutation relations, read as the map
   eval T (i^k X^x Z^z) = i^k prod T(X_i)^x_i prod T(Z_i)^z_i, is a homomorphism with exact phases: T(PQ) = T(P)T(Q); any n *)
Theorem C11_apply_mul_hom :
  forall (n : nat) (xs zs : list Pauli.pauli),
  List.length xs = n -> List.length zs = n -> Tab.herm n xs -> Tab.herm n zs ->
  Tab.pairwise_comm xs -> Tab.pairwise_comm zs -> Tab.dual zs xs ->
  forall P Q, Span.wfn n P -> Span.wfn n Q ->
  Tab.eval n xs zs (Pauli.pmul P Q) = Pauli.pmul (Tab.eval n xs zs P) (Tab.eval n xs zs Q).
Proof. exact Tab.eval_hom. Qed.
(* every hand-specialised Tableau::prepend_* routine (regenerated from source) realises the documented gate action *)
Theorem C11_prepend_routines_match_table : prepend_all_ok = true.
Proof. exact prepend_generated_programs_match_table. Qed.
Theorem C11_prepend_routine_is_table_action :
  forall n ar p, In (n, ar, p) prepend_programs -> prog_matches (gate_aliased n) p = true.
Proof. exact prepend_routine_is_table_action. Qed.
(* the gate table's inverse ids really invert the action, and every table action is a *-automorphism *)
Theorem C11_table_inverse_is_inverse : table_inv_ok = true.
Proof. exact table_inverse_is_inverse. Qed.
Theorem C11_table_actions_are_automorphisms : table_aut_ok = true.
Proof. exact table_actions_are_automorphisms. Qed.
(* the Clifford appended by a collapse has an explicit two-sided inverse *)
Theorem C11_collapse_clifford_invertible :
  forall (ms : list bool) (h e : bool) (P : Pauli.z4 * list (bool * bool)), List.length (snd P) = S (List.length ms) ->
  Collapse.A0inv ms h e (Collapse.A0 ms h e P) = P /\ Collapse.A0 ms h e (Collapse.A0inv ms h e P) = P.
Proof. intros ms h e P H. split; [apply Collapse.A0inv_A0 | apply Collapse.A0_A0inv]; exact H. Qed.
(* Tableau::then: the tableau whose rows are B applied to A's rows acts as "A, then B", phases included; any n *)
Theorem C11_then_is_composition :
  forall (n : nat) (xsB zsB : list Pauli.pauli),
  List.length xsB = n -> List.length zsB = n -> Tab.herm n xsB -> Tab.herm n zsB ->
  Tab.pairwise_comm xsB -> Tab.pairwise_comm zsB -> Tab.dual zsB xsB ->
  forall (xsA zsA : list Pauli.pauli) P, Forall (Span.wfn n) xsA -> Forall (Span.wfn n) zsA ->
  Tab.eval n (map (Tab.eval n xsB zsB) xsA) (map (Tab.eval n xsB zsB) zsA) P = Tab.eval n xsB zsB (Tab.eval n xsA zsA P).
Proof. exact TabThen.then_is_composition. Qed.
Print Assumptions C11_then_is_composition. Print Assumptions C11_apply_mul_hom. Print Assumptions C11_prepend_routines_match_table.
Print Assumptions C11_collapse_clifford_invertible.
