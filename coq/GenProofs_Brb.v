(* Obligations over the GENERATED arithmetic of stim::biased_randomize_bits. For every probability p and every value f taken by
   floorf(p * 256) with f / 256 <> 1: the truncated probability pt = f / 256 realised exactly by the coin stage
   (Coin.coin_stage_prob', CoinWord) OR-ed with an independent rare-error pass of probability brb_correction has probability
   exactly p:   pt + (1 - pt) * correction = p.   Proved by `field` over Q, so any algebraically equal way of writing the
   assignments passes and `p_leftover` in place of `p_leftover / (1 - p_truncated)` does not. *)
From Coq Require Import List String QArith Field.
Import ListNotations.
Require Import Gen_Brb.
Local Open Scope Q_scope.

Lemma brb_no_refusal : brb_refused = []%list. Proof. reflexivity. Qed.
Lemma brb_facts_ok : forallb (fun x => snd x) brb_facts = true. Proof. vm_compute. reflexivity. Qed.

Definition B : Q := 256 # 1.
Theorem truncation_plus_correction_is_exact (p f : Q) : ~ f / B == 1 ->
  let raised := brb_raised p B in
  let pt := brb_p_truncated f B in
  let pl := brb_p_leftover (brb_raised_leftover raised f) B in
  pt + (1 - pt) * brb_correction pl pt == p.
Proof.
  intros H. unfold brb_raised, brb_p_truncated, brb_p_leftover, brb_raised_leftover, brb_correction, B in *. field.
  intro E. apply H. setoid_replace f with (256 - (256 - f)) by ring. rewrite E. reflexivity.
Qed.
