(* The backward simulators (reverse tracker, error analyzer) decompose an MPP / SPP instruction with its target list REVERSED.
   Theorem: the reversed list is the list of the same products in reverse order, each with its terms reversed, and a product with
   reversed terms has the same Pauli content (only the order of the XORs changes). So what MppProofs proves about the decomposition
   of any target list applies to the backward classes with the products taken last to first. *)
From Coq Require Import List Bool Arith Lia.
Import ListNotations.
Require Import Mpp.

Definition is_comb (t : mtgt) : bool := match t with MComb => true | _ => false end.
(* one product written out: its terms separated by combiners *)
Fixpoint inter (g : list mtgt) : list mtgt :=
  match g with [] => [] | [t] => [t] | t :: r => t :: MComb :: inter r end.
Definition render (gs : list (list mtgt)) : list mtgt := flat_map inter gs.
Definition good_group (g : list mtgt) : Prop := g <> [] /\ Forall (fun t => is_comb t = false) g.

Lemma inter_cons t r : r <> [] -> inter (t :: r) = t :: MComb :: inter r.
Proof. destruct r; [contradiction|reflexivity]. Qed.
Lemma inter_app a b : a <> [] -> b <> [] -> inter (a ++ b) = inter a ++ MComb :: inter b.
Proof.
  induction a as [|t a IH]; intros Ha Hb; [contradiction|]. destruct a as [|u a].
  - cbn [app]. rewrite inter_cons by exact Hb. reflexivity.
  - change ((t :: u :: a) ++ b) with (t :: ((u :: a) ++ b)).
    rewrite (inter_cons t ((u :: a) ++ b)) by (cbn; discriminate). rewrite (inter_cons t (u :: a)) by discriminate.
    cbn [app]. f_equal. f_equal. apply IH; [discriminate|exact Hb].
Qed.
Lemma rev_nonempty {A} (l : list A) : l <> [] -> rev l <> [].
Proof. destruct l as [|x l]; [contradiction|]. intros _ E. cbn in E. apply app_eq_nil in E. destruct E; discriminate. Qed.
Lemma inter_rev g : rev (inter g) = inter (rev g).
Proof.
  induction g as [|t r IH]; [reflexivity|]. destruct r as [|u g']; [reflexivity|].
  assert (Hr : u :: g' <> []) by discriminate. revert IH Hr. generalize (u :: g') as r. intros r IH Hr.
  rewrite inter_cons by exact Hr. change (rev (t :: MComb :: inter r)) with ((rev (inter r) ++ [MComb]) ++ [t]).
  change (rev (t :: r)) with (rev r ++ [t]). rewrite IH. rewrite inter_app; [|now apply rev_nonempty|discriminate].
  cbn [inter]. now rewrite <- app_assoc.
Qed.
Theorem render_rev gs : rev (render gs) = render (rev (map (@rev mtgt) gs)).
Proof.
  induction gs as [|g gs IH]; [reflexivity|]. unfold render in *. cbn [flat_map map rev]. rewrite rev_app_distr, IH, inter_rev.
  rewrite flat_map_app. cbn [flat_map]. now rewrite app_nil_r.
Qed.

(* split_group takes exactly the first product off a rendered list *)
Lemma split_inter g rest : good_group g -> (match rest with MComb :: _ => False | _ => True end) ->
  split_group (inter g ++ rest) = (g, rest).
Proof.
  intros [Hne Hnc]. revert Hne. induction g as [|t g IH]; intros Hne Hr; [contradiction|].
  inversion Hnc as [|? ? Ht Hg]; subst. destruct g as [|u g].
  - cbn [inter app split_group]. destruct rest as [|[| |] rest]; try reflexivity. contradiction.
  - rewrite inter_cons by discriminate. cbn [app split_group]. rewrite (IH Hg ltac:(discriminate) Hr). reflexivity.
Qed.
Lemma render_head_ok gs : Forall good_group gs -> match render gs with MComb :: _ => False | _ => True end.
Proof.
  intros H. destruct gs as [|g gs]; [exact I|]. inversion H as [|? ? [Hne Hnc] _]; subst. destruct g as [|t g]; [contradiction|].
  inversion Hnc; subst. unfold render. cbn [flat_map]. destruct g; cbn; destruct t; try exact I; discriminate.
Qed.

(* the content of an accumulated product does not depend on the order of its terms *)
Definition xbit (t : mtgt) (q : nat) : bool := match t with MP x _ _ q' => x && Nat.eqb q q' | _ => false end.
Definition zbit (t : mtgt) (q : nat) : bool := match t with MP _ z _ q' => z && Nat.eqb q q' | _ => false end.
Definition xsum (g : list mtgt) (q : nat) : bool := fold_right (fun t b => xorb (xbit t q) b) false g.
Definition zsum (g : list mtgt) (q : nat) : bool := fold_right (fun t b => xorb (zbit t q) b) false g.

Lemma accumulate_content g : forall a bits a' bits', accumulate g a bits false = Some (a', bits') ->
  forall q, ax a' q = xorb (ax a q) (xsum g q) /\ az a' q = xorb (az a q) (zsum g q).
Proof.
  induction g as [|t g IH]; intros a bits a' bits' H q; cbn [accumulate] in H.
  - injection H as <- <-. cbn. now rewrite !xorb_false_r.
  - destruct t as [x z inv q'| |b]; try discriminate. destruct (x || z); [|discriminate].
    destruct (IH _ _ _ _ H q) as [Hx Hz]. rewrite Hx, Hz.
    change (xsum (MP x z inv q' :: g) q) with (xorb (xbit (MP x z inv q') q) (xsum g q)).
    change (zsum (MP x z inv q' :: g) q) with (xorb (zbit (MP x z inv q') q) (zsum g q)).
    cbn [xbit zbit mul_term ax az]. unfold updf.
    destruct (Nat.eqb q q') eqn:E.
    + apply Nat.eqb_eq in E. subst q'. rewrite !andb_true_r.
      generalize (xsum g q) as sx, (zsum g q) as sz, (ax a q) as a0, (az a q) as a1. intros sx sz a0 a1.
      split; [destruct a0, x, sx; reflexivity| destruct a1, z, sz; reflexivity].
    + rewrite !andb_false_r. split; [destruct (ax a q), (xsum g q); reflexivity| destruct (az a q), (zsum g q); reflexivity].
Qed.
Lemma xsum_app a b q : xsum (a ++ b) q = xorb (xsum a q) (xsum b q).
Proof. induction a as [|t a IH]; [cbn [app]; change (xsum [] q) with false; now destruct (xsum b q)|]. cbn [app]. change (xsum (t :: a ++ b) q) with (xorb (xbit t q) (xsum (a ++ b) q)).
  change (xsum (t :: a) q) with (xorb (xbit t q) (xsum a q)). rewrite IH. now rewrite xorb_assoc. Qed.
Lemma zsum_app a b q : zsum (a ++ b) q = xorb (zsum a q) (zsum b q).
Proof. induction a as [|t a IH]; [cbn [app]; change (zsum [] q) with false; now destruct (zsum b q)|]. cbn [app]. change (zsum (t :: a ++ b) q) with (xorb (zbit t q) (zsum (a ++ b) q)).
  change (zsum (t :: a) q) with (xorb (zbit t q) (zsum a q)). rewrite IH. now rewrite xorb_assoc. Qed.
Lemma xsum_rev g q : xsum (rev g) q = xsum g q.
Proof. induction g as [|t g IH]; [reflexivity|]. cbn [rev]. rewrite xsum_app, IH. change (xsum [t] q) with (xorb (xbit t q) false).
  change (xsum (t :: g) q) with (xorb (xbit t q) (xsum g q)). rewrite xorb_false_r. apply xorb_comm. Qed.
Lemma zsum_rev g q : zsum (rev g) q = zsum g q.
Proof. induction g as [|t g IH]; [reflexivity|]. cbn [rev]. rewrite zsum_app, IH. change (zsum [t] q) with (xorb (zbit t q) false).
  change (zsum (t :: g) q) with (xorb (zbit t q) (zsum g q)). rewrite xorb_false_r. apply xorb_comm. Qed.

Theorem reversed_product_same_content g a bits ar bitsr :
  accumulate g acc0 [] false = Some (a, bits) -> accumulate (rev g) acc0 [] false = Some (ar, bitsr) ->
  forall q, ax ar q = ax a q /\ az ar q = az a q.
Proof.
  intros H Hr q.
  destruct (accumulate_content _ _ _ _ _ H q) as [Hx Hz]. destruct (accumulate_content _ _ _ _ _ Hr q) as [Hxr Hzr].
  rewrite Hx, Hz, Hxr, Hzr, xsum_rev, zsum_rev. split; reflexivity.
Qed.
Print Assumptions render_rev. Print Assumptions split_inter. Print Assumptions reversed_product_same_content.
