From Coq Require Import List ZArith String Ascii Bool Lia.
Import ListNotations. Local Open Scope Z_scope.
Require Import Gen_GateTable.

(* numbers (a + b√2 + c i + d i√2) / 2^e ; we keep a fixed denominator per matrix entry product by scaling *)
Record r8 := R8 { ra : Z; rb : Z; rc : Z; rd : Z }.
Definition r8_add x y := R8 (ra x + ra y) (rb x + rb y) (rc x + rc y) (rd x + rd y).
(* (a + b s + c i + d i s)(a' + b' s + c' i + d' i s), s^2 = 2, i^2 = -1 *)
Definition r8_mul x y :=
  let '(R8 a b c d) := x in let '(R8 a' b' c' d') := y in
  R8 (a*a' + 2*b*b' - c*c' - 2*d*d')
     (a*b' + b*a' - c*d' - d*c')
     (a*c' + c*a' + 2*b*d' + 2*d*b')
     (a*d' + d*a' + b*c' + c*b').
Definition r8_conj x := R8 (ra x) (rb x) (- rc x) (- rd x).
Definition r8_zero := R8 0 0 0 0.
Definition r8_eqb x y := (ra x =? ra y) && (rb x =? rb y) && (rc x =? rc y) && (rd x =? rd y).
Definition r8_scale k x := R8 (k * ra x) (k * rb x) (k * rc x) (k * rd x).

Definition mat := list (list r8).
Fixpoint dot (u v : list r8) : r8 :=
  match u, v with a::u', b::v' => r8_add (r8_mul a b) (dot u' v') | _, _ => r8_zero end.
Definition col (m : mat) (j : nat) : list r8 := map (fun r => nth j r r8_zero) m.
Definition mmul (a b : mat) : mat :=
  let n := List.length (hd [] b) in
  map (fun r => map (fun j => dot r (col b j)) (seq 0 n)) a.
Definition madj (a : mat) : mat :=
  let n := List.length (hd [] a) in
  map (fun j => map r8_conj (col a j)) (seq 0 n).
Definition mat_eqb (a b : mat) : bool :=
  (Nat.eqb (List.length a) (List.length b)) && forallb (fun p => forallb (fun q => r8_eqb (fst q) (snd q)) (combine (fst p) (snd p))) (combine a b).
Definition mscale k (a : mat) : mat := map (map (r8_scale k)) a.

(* table entries are numerators over 2 *)
Definition of4 (q : Z*Z*Z*Z) : r8 := let '(a,b,c,d) := q in R8 a b c d.
Definition tab_mat (m : list (list (Z*Z*Z*Z))) : mat := map (map of4) m.

(* Paulis as matrices over denominator 1 *)
Definition one := R8 1 0 0 0. Definition mone := R8 (-1) 0 0 0.
Definition ii := R8 0 0 1 0. Definition mii := R8 0 0 (-1) 0. Definition z0 := r8_zero.
Definition PI : mat := [[one; z0]; [z0; one]].
Definition PX : mat := [[z0; one]; [one; z0]].
Definition PY : mat := [[z0; mii]; [ii; z0]].
Definition PZ : mat := [[one; z0]; [z0; mone]].
Definition pauli_of (c : ascii) : mat :=
  if Ascii.eqb c "X" then PX else if Ascii.eqb c "Y" then PY else if Ascii.eqb c "Z" then PZ else PI.
(* kron with stim's convention: first listed qubit is the high index?  we test both below *)
Definition kron (a b : mat) : mat :=
  flat_map (fun ra_ => map (fun rb_ => flat_map (fun x => map (fun y => r8_mul x y) rb_) ra_) b) a.

(* parse "+XZ" / "-Y" *)
Fixpoint str_list (s : string) : list ascii := match s with EmptyString => [] | String c r => c :: str_list r end.
Definition parse_flow (s : string) : bool * list ascii :=
  match str_list s with
  | c :: r => if Ascii.eqb c "-" then (true, r) else if Ascii.eqb c "+" then (false, r) else (false, c :: r)
  | [] => (false, [])
  end.
Definition pauli_mat_1 (l : list ascii) : mat := match l with [c] => pauli_of c | _ => PI end.
(* little endian: qubit 0 is the LEAST significant index => matrix = P(q1) ⊗ P(q0) *)
Definition pauli_mat_2 (l : list ascii) : mat := match l with [c0; c1] => kron (pauli_of c1) (pauli_of c0) | _ => PI end.

Definition check_gate (g : string * Z * Z * Z * Z * list (list (Z*Z*Z*Z)) * list string) : bool :=
  let '(name, id, inv, flags, nargs, u, flows) := g in
  match u with
  | [] => true
  | _ =>
    let U := tab_mat u in let Ud := madj U in
    let n := List.length u in
    let unitary_ok := mat_eqb (mmul U Ud) (mscale 4 (if Nat.eqb n 2 then PI else kron PI PI)) in
    let ins := if Nat.eqb n 2 then [["X"%char]; ["Z"%char]] else [["X"%char;"I"%char]; ["Z"%char;"I"%char]; ["I"%char;"X"%char]; ["I"%char;"Z"%char]] in
    let pm := if Nat.eqb n 2 then pauli_mat_1 else pauli_mat_2 in
    unitary_ok &&
    forallb (fun p => let '(i, f) := p in
                      let '(neg, out) := parse_flow f in
                      mat_eqb (mmul (mmul U (pm i)) Ud) (mscale (if neg then -4 else 4) (pm out)))
            (combine ins flows)
  end.
Definition bad := filter (fun g => negb (check_gate g)) gate_table.
(* diagnostic: names of gates whose matrix and flows disagree *)
Definition bad_gates := map (fun g => let '(n,_,_,_,_,_,_) := g in n) bad.
Theorem table_flows_are_conjugation : forallb check_gate gate_table = true.
Proof. vm_compute. reflexivity. Qed.
Print Assumptions table_flows_are_conjugation.
