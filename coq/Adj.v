From Coq Require Import List Arith Bool Lia.
Import ListNotations.

(* mini circuit language *)
Inductive op := H (q : nat) | CX (c t : nat) | M (q : nat) | R (q : nat).

Definition fr := nat -> bool.            (* one bit per qubit *)
Definition upd (f : fr) (q : nat) (b : bool) : fr := fun k => if Nat.eqb k q then b else f k.
Record frame := { fx : fr; fz : fr }.

(* forward frame step; returns new frame and optional record flip *)
Definition fstep (o : op) (F : frame) : frame * option bool :=
  match o with
  | H q => ({| fx := upd (fx F) q (fz F q); fz := upd (fz F) q (fx F q) |}, None)
  | CX c t => ({| fx := upd (fx F) t (xorb (fx F t) (fx F c)); fz := upd (fz F) c (xorb (fz F c) (fz F t)) |}, None)
  | M q => (F, Some (fx F q))
  | R q => ({| fx := upd (fx F) q false; fz := upd (fz F) q false |}, None)
  end.
(* record flips produced by running c from frame F *)
Fixpoint frun (c : list op) (F : frame) : list bool :=
  match c with
  | [] => []
  | o :: c' => let '(F', r) := fstep o F in
               match r with Some b => b :: frun c' F' | None => frun c' F' end
  end.

(* detector = predicate on measurement index (relative to the start of c) *)
Definition det := nat -> bool.
Fixpoint parity_at (D : det) (k : nat) (l : list bool) : bool :=
  match l with [] => false | b :: l' => xorb (andb (D k) b) (parity_at D (S k) l') end.

(* backward sensitivity: sx q = "an X on q here flips the detector" *)
Record sens := { sx : fr; sz : fr }.
Definition zero : sens := {| sx := fun _ => false; sz := fun _ => false |}.
Definition shiftD (D : det) : det := fun k => D (S k).
(* back c D : sensitivity at the START of c, for detector D over c's measurements *)
Fixpoint back (c : list op) (D : det) : sens :=
  match c with
  | [] => zero
  | H q :: c' => let S := back c' D in {| sx := upd (sx S) q (sz S q); sz := upd (sz S) q (sx S q) |}
  | CX a t :: c' => let S := back c' D in
      {| sx := upd (sx S) a (xorb (sx S a) (sx S t)); sz := upd (sz S) t (xorb (sz S t) (sz S a)) |}
  | M q :: c' => let S := back c' (shiftD D) in {| sx := upd (sx S) q (xorb (sx S q) (D 0)); sz := sz S |}
  | R q :: c' => let S := back c' D in {| sx := upd (sx S) q false; sz := upd (sz S) q false |}
  end.

(* pairing over qubits < n *)
Fixpoint pair_upto (n : nat) (S : sens) (F : frame) : bool :=
  match n with 0 => false | Datatypes.S k => xorb (xorb (andb (sx S k) (fx F k)) (andb (sz S k) (fz F k))) (pair_upto k S F) end.

Definition in_range (n : nat) (o : op) : Prop :=
  match o with H q | M q | R q => q < n | CX a t => a < n /\ t < n /\ a <> t end.

Definition local (S : sens) (F : frame) (q : nat) : bool := xorb (andb (sx S q) (fx F q)) (andb (sz S q) (fz F q)).
Lemma pair_unfold n S F : pair_upto (Datatypes.S n) S F = xorb (local S F n) (pair_upto n S F).
Proof. reflexivity. Qed.
Lemma pair_ext n S S' F F' : (forall k, k < n -> local S F k = local S' F' k) -> pair_upto n S F = pair_upto n S' F'.
Proof. induction n as [|n IH]; intros Hk; [reflexivity|]. rewrite !pair_unfold. rewrite (Hk n) by lia. f_equal. apply IH. intros k Hlt; apply Hk; lia. Qed.
Lemma pair_change_one n q S F S' F' : q < n -> (forall k, k < n -> k <> q -> local S F k = local S' F' k) ->
  pair_upto n S F = xorb (xorb (local S F q) (local S' F' q)) (pair_upto n S' F').
Proof.
  induction n as [|n IH]; intros Hq Hk; [lia|]. rewrite !pair_unfold.
  destruct (Nat.eq_dec n q) as [->|Hne].
  - rewrite (pair_ext q S S' F F') by (intros k Hlt; apply Hk; lia).
    destruct (local S F q), (local S' F' q), (pair_upto q S' F'); reflexivity.
  - rewrite (IH ltac:(lia)) by (intros k Hlt Hkq; apply Hk; lia).
    rewrite (Hk n) by lia.
    destruct (local S' F' n), (local S F q), (local S' F' q), (pair_upto n S' F'); reflexivity.
Qed.
Lemma pair_change_two n a t S F S' F' : a < n -> t < n -> a <> t ->
  (forall k, k < n -> k <> a -> k <> t -> local S F k = local S' F' k) ->
  xorb (local S F a) (local S F t) = xorb (local S' F' a) (local S' F' t) ->
  pair_upto n S F = pair_upto n S' F'.
Proof.
  intros Ha Ht Hne Hk Hloc.
  (* go through an intermediate that agrees with S',F' except at a *)
  set (S1 := {| sx := upd (sx S') a (sx S a); sz := upd (sz S') a (sz S a) |}).
  set (F1 := {| fx := upd (fx F') a (fx F a); fz := upd (fz F') a (fz F a) |}).
  assert (L1a : local S1 F1 a = local S F a) by (unfold local, S1, F1; cbn; unfold upd; now rewrite Nat.eqb_refl).
  assert (L1o : forall k, k <> a -> local S1 F1 k = local S' F' k).
  { intros k Hka. unfold local, S1, F1; cbn; unfold upd. destruct (Nat.eqb_spec k a); [contradiction|reflexivity]. }
  rewrite (pair_change_one n t S F S1 F1 Ht).
  2:{ intros k Hlt Hkt. destruct (Nat.eq_dec k a) as [->|Hka]; [now rewrite L1a| rewrite L1o by exact Hka; now apply Hk]. }
  rewrite (pair_change_one n a S1 F1 S' F' Ha) by (intros k Hlt Hka; now apply L1o).
  rewrite L1a, (L1o t) by congruence.
  destruct (local S F a), (local S F t), (local S' F' a), (local S' F' t), (pair_upto n S' F'); cbn in *; congruence.
Qed.

Lemma pair_zero n F : pair_upto n zero F = false.
Proof. induction n as [|n IHn]; [reflexivity|]. rewrite pair_unfold, IHn. reflexivity. Qed.

Theorem adjoint n (c : list op) : Forall (in_range n) c -> forall (D : det) (F : frame),
  parity_at D 0 (frun c F) = pair_upto n (back c D) F.
Proof.
  induction c as [|o c IH]; intros Hr D F.
  - cbn. now rewrite pair_zero.
  - inversion Hr as [|? ? Ho Hc]; subst. specialize (IH Hc).
    destruct o as [q|a t|q|q]; cbn [frun fstep back in_range] in *.
    + (* H *) rewrite IH. symmetry.
      rewrite (pair_change_one n q _ F (back c D) {| fx := upd (fx F) q (fz F q); fz := upd (fz F) q (fx F q) |} Ho).
      * unfold local; cbn [sx sz fx fz]; unfold upd; rewrite Nat.eqb_refl.
        destruct (sx (back c D) q), (sz (back c D) q), (fx F q), (fz F q); cbn; destruct (pair_upto n _ _); reflexivity.
      * intros k Hlt Hkq. unfold local; cbn [sx sz fx fz]; unfold upd. destruct (Nat.eqb_spec k q); [contradiction|reflexivity].
    + (* CX *) destruct Ho as (Ha & Ht & Hne). rewrite IH. symmetry.
      apply (pair_change_two n a t); auto.
      * intros k Hlt Hka Hkt. unfold local; cbn [sx sz fx fz]; unfold upd.
        destruct (Nat.eqb_spec k a), (Nat.eqb_spec k t); try contradiction; reflexivity.
      * unfold local; cbn [sx sz fx fz]; unfold upd. rewrite !Nat.eqb_refl.
        destruct (Nat.eqb_spec a t); [contradiction|]. destruct (Nat.eqb_spec t a); [congruence|].
        destruct (sx (back c D) a), (sz (back c D) a), (sx (back c D) t), (sz (back c D) t), (fx F a), (fz F a), (fx F t), (fz F t); reflexivity.
    + (* M *) cbn [parity_at].
      assert (Hshift : forall l k, parity_at D (S k) l = parity_at (shiftD D) k l).
      { induction l as [|b l IHl]; intros k; cbn; [reflexivity|]. now rewrite IHl. }
      rewrite Hshift, IH.
      rewrite (pair_change_one n q {| sx := upd (sx (back c (shiftD D))) q (xorb (sx (back c (shiftD D)) q) (D 0)); sz := sz (back c (shiftD D)) |} F (back c (shiftD D)) F Ho).
      * unfold local; cbn [sx sz]; unfold upd; rewrite Nat.eqb_refl.
        destruct (D 0), (sx (back c (shiftD D)) q), (fx F q), (sz (back c (shiftD D)) q), (fz F q), (pair_upto n (back c (shiftD D)) F); reflexivity.
      * intros k Hlt Hkq. unfold local; cbn [sx sz]; unfold upd. destruct (Nat.eqb_spec k q); [contradiction|reflexivity].
    + (* R *) rewrite IH. symmetry.
      rewrite (pair_change_one n q _ F (back c D) {| fx := upd (fx F) q false; fz := upd (fz F) q false |} Ho).
      * unfold local; cbn [sx sz fx fz]; unfold upd; rewrite Nat.eqb_refl.
        destruct (sx (back c D) q), (sz (back c D) q), (pair_upto n _ _); reflexivity.
      * intros k Hlt Hkq. unfold local; cbn [sx sz fx fz]; unfold upd. destruct (Nat.eqb_spec k q); [contradiction|reflexivity].
Qed.
Print Assumptions adjoint.
