(* Obligations over the GENERATED description of the parsers' decimal readers (Gen_IntRead.v): each reader's machine loop
   (accumulator of w bits, arithmetic modulo 2^w) is the unbounded loop of the parser models, i.e. no value wraps around before
   the limit test sees it; and the three readers have the documented limits 2^24, 2^60, 2^63. *)
From Coq Require Import List Bool String NArith Lia.
Import ListNotations.
Require Import Dec Target DemTargets IntRead Gen_IntRead.
Local Open Scope string_scope.

Definition is_nil {A} (l : list A) : bool := match l with [] => true | _ => false end.
Definition limit_of (name : string) : option N :=
  match find (fun '(n, _, _, _) => String.eqb n name) int_readers with Some (_, _, k, _) => Some k | None => None end.
Definition intread_all_ok : bool :=
  is_nil int_readers_refused &&
  forallb (fun '(_, w, k, pre) => shape_ok pre w k) int_readers &&
  match limit_of "read_uint24_t", limit_of "read_uint60_t", limit_of "read_uint63_t" with
  | Some a, Some b, Some c => N.eqb a 24 && N.eqb b 60 && N.eqb c 63
  | _, _, _ => false
  end.
Theorem decimal_readers_do_not_wrap : intread_all_ok = true.
Proof. vm_compute. reflexivity. Qed.

Theorem generated_reader_is_unbounded_loop :
  intread_all_ok = true ->
  forall n w k pre, In (n, w, k, pre) int_readers ->
  forall s, (if pre then pre_loop w (2 ^ k) s 0 else post_loop w (2 ^ k) s 0)%N = read_lim_loop (2 ^ k)%N s 0%N.
Proof.
  unfold intread_all_ok. intros H n w k pre Hin s.
  apply andb_true_iff in H. destruct H as [H _]. apply andb_true_iff in H. destruct H as [_ H].
  rewrite forallb_forall in H. specialize (H _ Hin). cbn beta iota in H. now apply shape_ok_sound.
Qed.
