From Coq Require Import List Bool Arith Lia Ring.
Import ListNotations.
Require Import Pauli.

(* The Clifford appended by collapse_qubit_z, written in XZ-form (i^k X^x Z^z), for the suffix of the
   qubit list that starts at the pivot p (= first X position of m).  ms = X-bits of m after the pivot. *)
Definition bb := (bool * bool)%type.

Fixpoint cn_bits (xp : bool) (ms : list bool) (tl : bits) : bits :=
  match ms, tl with
  | mk :: ms', p :: tl' => (xorb (fst p) (andb mk xp), snd p) :: cn_bits xp ms' tl'
  | _, _ => [] end.
Fixpoint cn_sum (ms : list bool) (tl : bits) : bool :=
  match ms, tl with
  | mk :: ms', p :: tl' => xorb (andb mk (snd p)) (cn_sum ms' tl')
  | _, _ => false end.

(* H_YZ (h = true) or H_XZ at the pivot, then X at the pivot if e *)
Definition hx (h e : bool) (p : bb) : z4 * bb :=
  let x := fst p in let z := snd p in
  let dq := if h then ((z, x), (xorb x z, z)) else ((false, andb x z), (z, x)) in
  (z4_add (fst dq) (z4_two (andb e (snd (snd dq)))), snd dq).

Definition A0 (ms : list bool) (h e : bool) (P : pauli) : pauli :=
  match snd P with
  | [] => P
  | p :: tl =>
     let r := hx h e (fst p, xorb (snd p) (cn_sum ms tl)) in
     (z4_add (fst P) (fst r), snd r :: cn_bits (fst p) ms tl)
  end.

(* ---- linearity / symplectic facts of the fan-out ---- *)
Lemma cn_bits_length xp ms tl : length ms = length tl -> length (cn_bits xp ms tl) = length tl.
Proof. revert tl; induction ms as [|mk ms IH]; intros [|p tl] H; cbn in *; try lia. f_equal. apply IH. lia. Qed.

Lemma cn_bits_bxor xa xb ms ta tb : length ms = length ta -> length ta = length tb ->
  cn_bits (xorb xa xb) ms (bxor ta tb) = bxor (cn_bits xa ms ta) (cn_bits xb ms tb).
Proof.
  revert ta tb; induction ms as [|mk ms IH]; intros [|p ta] [|q tb] H1 H2; cbn in *; try lia; try reflexivity.
  rewrite IH by lia. f_equal. f_equal.
  destruct p as [[] ?], q as [[] ?], mk, xa, xb; reflexivity.
Qed.

Lemma cn_sum_bxor ms ta tb : length ms = length ta -> length ta = length tb ->
  cn_sum ms (bxor ta tb) = xorb (cn_sum ms ta) (cn_sum ms tb).
Proof.
  revert ta tb; induction ms as [|mk ms IH]; intros [|p ta] [|q tb] H1 H2; cbn in *; try lia; try reflexivity.
  rewrite IH by lia.
  destruct p as [? []], q as [? []], mk, (cn_sum ms ta), (cn_sum ms tb); reflexivity.
Qed.

Lemma cn_zx xa xb ms ta tb : length ms = length ta -> length ta = length tb ->
  zx_par (cn_bits xa ms ta) (cn_bits xb ms tb) = xorb (zx_par ta tb) (andb (cn_sum ms ta) xb).
Proof.
  revert ta tb; induction ms as [|mk ms IH]; intros [|p ta] [|q tb] H1 H2; cbn in *; try lia; try reflexivity.
  rewrite IH by lia.
  destruct p as [? []], q as [[] ?], mk, xb, (zx_par ta tb), (cn_sum ms ta); reflexivity.
Qed.

Lemma hx_hom h e p q :
  snd (hx h e (xorb (fst p) (fst q), xorb (snd p) (snd q))) =
    (xorb (fst (snd (hx h e p))) (fst (snd (hx h e q))), xorb (snd (snd (hx h e p))) (snd (snd (hx h e q)))) /\
  z4_add (z4_add (fst (hx h e p)) (fst (hx h e q))) (z4_two (andb (snd (snd (hx h e p))) (fst (snd (hx h e q))))) =
  z4_add (fst (hx h e (xorb (fst p) (fst q), xorb (snd p) (snd q)))) (z4_two (andb (snd p) (fst q))).
Proof. destruct h, e, p as [[] []], q as [[] []]; split; reflexivity. Qed.

Theorem A0_hom ms h e P Q :
  length (snd P) = S (length ms) -> length (snd Q) = S (length ms) ->
  pmul (A0 ms h e P) (A0 ms h e Q) = A0 ms h e (pmul P Q).
Proof.
  destruct P as [kP [|p ta]], Q as [kQ [|q tb]]; cbn [fst snd length]; intros HP HQ; try lia.
  assert (L1 : length ms = length ta) by lia. assert (L2 : length ta = length tb) by lia.
  unfold A0, pmul; cbn [fst snd bxor zx_par].
  rewrite cn_bits_bxor, cn_sum_bxor, cn_zx by assumption.
  set (sa := cn_sum ms ta). set (sb := cn_sum ms tb). set (zt := zx_par ta tb).
  pose proof (hx_hom h e (fst p, xorb (snd p) sa) (fst q, xorb (snd q) sb)) as [Hb Hk]. cbn [fst snd] in Hb, Hk.
  replace (xorb (xorb (snd p) (snd q)) (xorb sa sb)) with (xorb (xorb (snd p) sa) (xorb (snd q) sb))
    by (destruct (snd p), (snd q), sa, sb; reflexivity).
  rewrite Hb. f_equal.
  set (rp := hx h e (fst p, xorb (snd p) sa)) in *. set (rq := hx h e (fst q, xorb (snd q) sb)) in *.
  set (rpq := hx h e (xorb (fst p) (fst q), xorb (xorb (snd p) sa) (xorb (snd q) sb))) in *.
  (* phases *)
  replace (z4_two (xorb (andb (snd (snd rp)) (fst (snd rq))) (xorb zt (andb sa (fst q)))))
    with (z4_add (z4_two (andb (snd (snd rp)) (fst (snd rq)))) (z4_add (z4_two zt) (z4_two (andb sa (fst q)))))
    by (destruct (andb (snd (snd rp)) (fst (snd rq))), zt, (andb sa (fst q)); reflexivity).
  replace (z4_two (xorb (andb (snd p) (fst q)) zt)) with (z4_add (z4_two (andb (snd p) (fst q))) (z4_two zt))
    by (destruct (andb (snd p) (fst q)), zt; reflexivity).
  replace (z4_two (andb (xorb (snd p) sa) (fst q))) with (z4_add (z4_two (andb (snd p) (fst q))) (z4_two (andb sa (fst q)))) in Hk
    by (destruct (snd p), sa, (fst q); reflexivity).
  transitivity (z4_add (z4_add (z4_add kP kQ) (z4_add (z4_two zt) (z4_two (andb sa (fst q)))))
                       (z4_add (z4_add (fst rp) (fst rq)) (z4_two (andb (snd (snd rp)) (fst (snd rq)))))); [ring|].
  rewrite Hk.
  assert (D : z4_add (z4_two (andb sa (fst q))) (z4_two (andb sa (fst q))) = z4_0) by (destruct (andb sa (fst q)); reflexivity).
  transitivity (z4_add (z4_add (z4_add (z4_add kP kQ) (z4_add (z4_two (andb (snd p) (fst q))) (z4_two zt))) (fst rpq))
                       (z4_add (z4_two (andb sa (fst q))) (z4_two (andb sa (fst q))))); [ring|].
  rewrite D. ring.
Qed.

(* ================= the local collapse lemma ================= *)
Definition xfreeb (l : bits) : bool := forallb (fun p => negb (fst p)) l.
Definition zbits (b : list bool) : bits := map (fun z => (false, z)) b.
Definition zeros (n : nat) : bits := repeat (false, false) n.
Definition Zplus (Q : pauli) : Prop := fst Q = z4_0 /\ xfreeb (snd Q) = true.

Lemma zeros_length n : length (zeros n) = n. Proof. apply repeat_length. Qed.
Lemma zbits_length b : length (zbits b) = length b. Proof. apply map_length. Qed.
Lemma xfreeb_zbits b : xfreeb (zbits b) = true.
Proof. induction b as [|z b IH]; cbn; auto. Qed.
Lemma xfreeb_zeros n : xfreeb (zeros n) = true.
Proof. induction n as [|n IH]; cbn; auto. Qed.
Lemma xfree_is_zbits l : xfreeb l = true -> l = zbits (map snd l).
Proof. induction l as [|[x z] l IH]; cbn; intros H; [reflexivity|]. apply andb_prop in H as [Hx Hl].
  destruct x; [discriminate|]. f_equal. apply IH, Hl. Qed.
Lemma zx_par_xfree_r a b : xfreeb b = true -> zx_par a b = false.
Proof. revert b; induction a as [|p a IH]; intros [|[x z] b] H; cbn in *; try reflexivity.
  apply andb_prop in H as [Hx Hl]. destruct x; [discriminate|]. rewrite IH by exact Hl. destruct (snd p); reflexivity. Qed.
Lemma xfreeb_bxor a b : xfreeb a = true -> xfreeb b = true -> xfreeb (bxor a b) = true.
Proof. revert b; induction a as [|[x z] a IH]; intros [|[x' z'] b] Ha Hb; cbn in *; try reflexivity.
  apply andb_prop in Ha as [Hx Ha]. apply andb_prop in Hb as [Hx' Hb]. destruct x, x'; try discriminate. cbn. apply IH; assumption. Qed.
Lemma Zplus_pmul P Q : Zplus P -> Zplus Q -> Zplus (pmul P Q).
Proof. intros [HkP HP] [HkQ HQ]. split; unfold pmul; cbn [fst snd].
  - rewrite HkP, HkQ, zx_par_xfree_r by exact HQ. reflexivity.
  - apply xfreeb_bxor; assumption. Qed.

Lemma bxor_zeros_r l : bxor l (zeros (length l)) = l.
Proof. unfold zeros. induction l as [|[x z] l IH]; cbn; [reflexivity|]. rewrite IH. rewrite !xorb_false_r. reflexivity. Qed.
Lemma zx_par_zeros_r l n : zx_par l (zeros n) = false.
Proof. apply zx_par_xfree_r, xfreeb_zeros. Qed.
Lemma zx_par_zeros_l l n : zx_par (zeros n) l = false.
Proof. unfold zeros. revert l; induction n as [|n IH]; intros [|p l]; cbn; try reflexivity. rewrite IH. reflexivity. Qed.
Lemma pmul_id_r P : pmul P (z4_0, zeros (length (snd P))) = P.
Proof. destruct P as [k l]; unfold pmul; cbn [fst snd]. rewrite bxor_zeros_r, zx_par_zeros_r. destruct k as [[] []]; reflexivity. Qed.

Lemma cn_bits_false ms tl : length ms = length tl -> cn_bits false ms tl = tl.
Proof. revert tl; induction ms as [|mk ms IH]; intros [|[x z] tl] H; cbn in *; try lia; try reflexivity.
  rewrite IH by lia. rewrite andb_false_r, xorb_false_r. reflexivity. Qed.
Lemma cn_sum_zeros ms n : cn_sum ms (zeros n) = false.
Proof. revert n; induction ms as [|mk ms IH]; intros [|n]; cbn; try reflexivity. rewrite IH, andb_false_r. reflexivity. Qed.
Lemma cn_bits_M mt : cn_bits true (map fst mt) mt = zbits (map snd mt).
Proof. induction mt as [|[x z] mt IH]; cbn; [reflexivity|]. rewrite IH. destruct x; reflexivity. Qed.
Lemma cn_sum_zx mt bt : length bt = length mt -> cn_sum (map fst mt) (zbits bt) = zx_par (zbits bt) mt.
Proof. revert bt; induction mt as [|[x z] mt IH]; intros [|b bt] H; cbn in *; try lia; try reflexivity.
  rewrite IH by lia. rewrite andb_comm. reflexivity. Qed.

Lemma A0_id ms h e : A0 ms h e (z4_0, zeros (S (length ms))) = (z4_0, zeros (S (length ms))).
Proof. unfold A0; cbn [fst snd zeros repeat]. fold (zeros (length ms)).
  rewrite cn_sum_zeros, cn_bits_false by (rewrite zeros_length; reflexivity). destruct h, e; reflexivity. Qed.

(* A0 on a Z-product: the parity b.x(m) decides whether the image is again a Z-product *)
Lemma A0_Z mt zm0 e k b0 bt : length bt = length mt ->
  let ms := map fst mt in let h := xorb zm0 (cn_sum ms mt) in
  let pi := zx_par (zbits (b0 :: bt)) ((true, zm0) :: mt) in
  A0 ms h e (k, zbits (b0 :: bt)) =
    if pi then (fst (A0 ms h e (k, zbits (b0 :: bt))), (true, if h then true else false) :: zbits bt)
    else (k, (false, false) :: zbits bt).
Proof.
  intros L ms h pi. unfold A0. cbn [fst snd zbits map]. fold (zbits bt).
  rewrite cn_bits_false by (unfold ms; rewrite map_length, zbits_length; lia).
  unfold ms. rewrite cn_sum_zx by exact L.
  assert (Epi : pi = xorb b0 (zx_par (zbits bt) mt)).
  { unfold pi. cbn [zbits map zx_par snd fst]. fold (zbits bt). rewrite andb_true_r. reflexivity. }
  rewrite <- Epi. destruct pi, h, e, k as [[] []]; reflexivity.
Qed.

Definition Mpow (M : pauli) (eps : bool) : pauli := if eps then M else (z4_0, zeros (length (snd M))).
Definition InG (M P : pauli) : Prop :=
  exists eps b, length b = length (snd M) /\ zx_par (zbits b) (snd M) = false /\ P = pmul (Mpow M eps) (z4_0, zbits b).

Lemma cn_bits_xfree_inv eps mt tl : length tl = length mt ->
  xfreeb (cn_bits eps (map fst mt) tl) = true ->
  xfreeb (bxor tl (if eps then mt else zeros (length mt))) = true.
Proof.
  unfold xfreeb, zeros. destruct eps; revert tl; induction mt as [|[x z] mt IH]; intros [|[x' z'] tl] L H; cbn in *; try lia; try reflexivity.
  - apply andb_prop in H as [Hx H]. rewrite (IH tl ltac:(lia) H). destruct x, x'; try discriminate; reflexivity.
  - apply andb_prop in H as [Hx H]. rewrite (IH tl ltac:(lia) H). destruct x, x'; try discriminate; reflexivity.
Qed.

Section Local.
  Variables (km : z4) (zm0 : bool) (mt : bits) (e : bool).
  Let M : pauli := (km, (true, zm0) :: mt).
  Let ms := map fst mt.
  Let h := xorb zm0 (cn_sum ms mt).
  Let A := A0 ms h e.
  Hypothesis Herm : pmul M M = (z4_0, zeros (S (length mt))).
  Hypothesis Hsign : fst (A M) = z4_0.

  Lemma len_ms : length ms = length mt. Proof. apply map_length. Qed.

  Lemma A_M_Zplus : Zplus (A M).
  Proof. split; [exact Hsign|]. unfold A, A0, M; cbn [fst snd]. unfold ms. rewrite cn_bits_M.
    cbn [xfreeb forallb]. fold (xfreeb (zbits (map snd mt))). rewrite xfreeb_zbits.
    fold ms. fold h. destruct h, e; reflexivity. Qed.

  Lemma A_Mpow_Zplus eps : Zplus (A (Mpow M eps)).
  Proof. destruct eps; [exact A_M_Zplus|]. unfold Mpow, M; cbn [snd length]. unfold A. rewrite <- len_ms, A0_id.
    split; [reflexivity| apply xfreeb_zeros]. Qed.

  Lemma Mpow_length eps : length (snd (Mpow M eps)) = S (length mt).
  Proof. destruct eps; unfold Mpow, M; cbn [snd length]; [reflexivity| apply zeros_length]. Qed.

  Lemma Mpow_sq eps : pmul (Mpow M eps) (Mpow M eps) = (z4_0, zeros (S (length mt))).
  Proof. destruct eps; [exact Herm|]. unfold Mpow, M; cbn [snd length].
    rewrite <- (zeros_length (S (length mt))) at 2. apply (pmul_id_r (z4_0, zeros (S (length mt)))). Qed.

  Theorem collapse_local P : length (snd P) = S (length mt) -> (Zplus (A P) <-> InG M P).
  Proof.
    intros LP. split.
    - (* => *)
      intros [Hk Hx]. destruct P as [kP [|[xp zp] tl]]; cbn [snd length] in LP; [lia|].
      assert (Ltl : length tl = length mt) by lia.
      set (eps := xp).
      set (Q := pmul (kP, (xp, zp) :: tl) (Mpow M eps)).
      (* Q has no X part *)
      assert (HQx : xfreeb (snd Q) = true).
      { unfold Q, pmul; cbn [fst snd]. unfold A, A0 in Hx; cbn [fst snd xfreeb forallb] in Hx.
        apply andb_prop in Hx as [_ Hx]. fold (xfreeb (cn_bits xp ms tl)) in Hx.
        pose proof (cn_bits_xfree_inv xp mt tl Ltl Hx) as Ht.
        unfold eps, Mpow, M. destruct xp; cbn [snd length zeros repeat bxor fst xfreeb forallb xorb negb andb]; exact Ht. }
      assert (LQ : length (snd Q) = S (length mt)).
      { unfold Q, pmul; cbn [fst snd]. rewrite bxor_length; cbn [length]; [lia|]. rewrite Mpow_length. lia. }
      (* A Q is in Zplus *)
      assert (HAQ : Zplus (A Q)).
      { unfold Q, A. rewrite <- A0_hom; [|cbn [snd length]; rewrite len_ms; lia| rewrite Mpow_length, len_ms; reflexivity].
        apply Zplus_pmul; [split; assumption| apply A_Mpow_Zplus]. }
      (* so Q = Z^b with even parity and phase 0 *)
      destruct Q as [kQ lQ] eqn:EQ. cbn [snd] in HQx, LQ.
      rewrite (xfree_is_zbits lQ HQx) in HAQ, EQ.
      destruct (map snd lQ) as [|b0 bt] eqn:Eb; [apply (f_equal (@length _)) in Eb; rewrite map_length in Eb; cbn in Eb; lia|].
      assert (Lbt : length bt = length mt).
      { apply (f_equal (@length _)) in Eb; rewrite map_length in Eb; cbn in Eb; lia. }
      unfold A in HAQ. fold ms in HAQ. pose proof (A0_Z mt zm0 e kQ b0 bt Lbt) as HZ. cbn zeta in HZ. fold ms in HZ. fold h in HZ.
      rewrite HZ in HAQ. clear HZ.
      destruct (zx_par (zbits (b0 :: bt)) ((true, zm0) :: mt)) eqn:Epi.
      { destruct HAQ as [_ HAQ]. cbn in HAQ. discriminate. }
      destruct HAQ as [HkQ _]. cbn [fst] in HkQ. subst kQ.
      exists eps, (b0 :: bt). split; [cbn [length snd M]; lia|]. split; [exact Epi|].
      (* P = (P * M^eps) * M^eps = Q * M^eps = M^eps * Q *)
      assert (EP : (kP, (xp, zp) :: tl) = pmul (z4_0, zbits (b0 :: bt)) (Mpow M eps)).
      { rewrite <- EQ. unfold Q. rewrite <- pmul_assoc; [|cbn [snd length]; rewrite Mpow_length; lia| reflexivity].
        rewrite Mpow_sq. rewrite <- (pmul_id_r (kP, (xp, zp) :: tl)) at 1. cbn [snd length]. rewrite Ltl. reflexivity. }
      change (eps, zp) with (xp, zp). rewrite EP. rewrite pmul_comm_sign.
      assert (Hs : symp (snd (z4_0, zbits (b0 :: bt))) (snd (Mpow M eps)) = false).
      { unfold symp; cbn [snd]. destruct eps; unfold Mpow, M; cbn [snd].
        - rewrite Epi. rewrite zx_par_xfree_r by apply xfreeb_zbits. reflexivity.
        - rewrite zx_par_zeros_r, zx_par_zeros_l. reflexivity. }
      rewrite Hs. destruct (pmul (Mpow M eps) (z4_0, zbits (b0 :: bt))) as [k l]. cbn [fst snd]. destruct k as [[] []]; reflexivity.
    - (* <= *)
      intros (eps & b & Lb & Hpi & EP). subst P. unfold A.
      rewrite <- A0_hom; [| rewrite Mpow_length, len_ms; reflexivity | cbn [snd]; rewrite zbits_length, Lb, len_ms; reflexivity].
      apply Zplus_pmul; [apply A_Mpow_Zplus|].
      destruct b as [|b0 bt]; [cbn in Lb; lia|].
      assert (Lbt : length bt = length mt) by (cbn [length snd M] in Lb; lia).
      pose proof (A0_Z mt zm0 e z4_0 b0 bt Lbt) as HZ. cbn zeta in HZ. fold ms in HZ. fold h in HZ.
      rewrite HZ. cbn [M snd] in Hpi. rewrite Hpi. split; [reflexivity|]. cbn. apply xfreeb_zbits.
  Qed.
End Local.

(* the sign fix-up e always exists when M is Hermitian (the code picks it by comparing the row's sign with the coin) *)
Lemma cn_sum_self mt : cn_sum (map fst mt) mt = zx_par mt mt.
Proof. induction mt as [|[x z] mt IH]; cbn; [reflexivity|]. rewrite IH, andb_comm. reflexivity. Qed.

Lemma e_exists km zm0 mt :
  pmul (km, (true, zm0) :: mt) (km, (true, zm0) :: mt) = (z4_0, zeros (S (length mt))) ->
  exists e, fst (A0 (map fst mt) (xorb zm0 (cn_sum (map fst mt) mt)) e (km, (true, zm0) :: mt)) = z4_0.
Proof.
  intros Herm. apply (f_equal fst) in Herm. unfold pmul in Herm; cbn [fst snd zx_par] in Herm.
  rewrite cn_sum_self. unfold A0; cbn [fst snd]. rewrite cn_sum_self.
  destruct (zx_par mt mt), zm0, km as [[] []]; cbn in Herm; try discriminate;
    first [exists false; reflexivity | exists true; reflexivity].
Qed.

(* non-vacuity: m = +Y0 X1 Z2 on three qubits, P = m * Z0 Z1 is in G, P' = Z0 is not *)
Example collapse_local_nonvacuous :
  let km := z4_1 in let zm0 := true in let mt := [(true,false); (false,true)] in
  let M := (km, (true, zm0) :: mt) in
  pmul M M = (z4_0, zeros 3) /\
  exists e, fst (A0 (map fst mt) (xorb zm0 (cn_sum (map fst mt) mt)) e M) = z4_0 /\
    Zplus (A0 (map fst mt) (xorb zm0 (cn_sum (map fst mt) mt)) e (pmul M (z4_0, zbits [true; true; false]))) /\
    ~ Zplus (A0 (map fst mt) (xorb zm0 (cn_sum (map fst mt) mt)) e (z4_0, zbits [true; false; false])).
Proof.
  cbn zeta. split; [reflexivity|]. exists false. split; [reflexivity|]. split; [split; reflexivity|].
  intros [_ H]. vm_compute in H. discriminate.
Qed.

(* ================= pivot at an arbitrary position p: prefix untouched ================= *)
Lemma zx_par_app a1 a2 b1 b2 : length a1 = length b1 ->
  zx_par (a1 ++ a2) (b1 ++ b2) = xorb (zx_par a1 b1) (zx_par a2 b2).
Proof. revert b1; induction a1 as [|p a1 IH]; intros [|q b1] L; cbn in *; try lia.
  - destruct (zx_par a2 b2); reflexivity.
  - rewrite IH by lia. destruct (snd p && fst q), (zx_par a1 b1), (zx_par a2 b2); reflexivity. Qed.
Lemma bxor_app a1 a2 b1 b2 : length a1 = length b1 -> bxor (a1 ++ a2) (b1 ++ b2) = bxor a1 b1 ++ bxor a2 b2.
Proof. revert b1; induction a1 as [|p a1 IH]; intros [|q b1] L; cbn in *; try lia; [reflexivity|]. rewrite IH by lia. reflexivity. Qed.
Lemma xfreeb_app a b : xfreeb (a ++ b) = xfreeb a && xfreeb b.
Proof. apply forallb_app. Qed.
Lemma zbits_app a b : zbits (a ++ b) = zbits a ++ zbits b. Proof. apply map_app. Qed.
Lemma bxor_invol a b : length a = length b -> bxor a (bxor a b) = b.
Proof. revert b; induction a as [|[x z] a IH]; intros [|[x' z'] b] L; cbn in *; try lia; [reflexivity|].
  rewrite IH by lia. destruct x, z, x', z'; reflexivity. Qed.
Lemma zx_par_zbits_l_xfree b l : xfreeb l = true -> zx_par (zbits b) l = false.
Proof. apply zx_par_xfree_r. Qed.

Lemma skipn_app_len {T} (a b : list T) : skipn (length a) (a ++ b) = b.
Proof. induction a; cbn; auto. Qed.
Lemma firstn_app_len {T} (a b : list T) : firstn (length a) (a ++ b) = a.
Proof. induction a; cbn; [reflexivity|]. f_equal; assumption. Qed.

Lemma app_inv_len {T} (a c b d : list T) : length a = length c -> a ++ b = c ++ d -> a = c /\ b = d.
Proof. revert c; induction a as [|x a IH]; intros [|y c] L E; cbn in *; try lia; [auto|].
  injection E as -> E. destruct (IH c ltac:(lia) E) as [-> ->]. auto. Qed.

Definition Ap (p : nat) (ms : list bool) (h e : bool) (P : pauli) : pauli :=
  let r := A0 ms h e (fst P, skipn p (snd P)) in (fst r, firstn p (snd P) ++ snd r).

Section At.
  Variables (pre : bits) (km : z4) (zm0 : bool) (mt : bits) (e : bool).
  Hypothesis pre_xfree : xfreeb pre = true.
  Let p := length pre.
  Let M0 : pauli := (km, (true, zm0) :: mt).
  Let M : pauli := (km, pre ++ (true, zm0) :: mt).
  Let ms := map fst mt.
  Let h := xorb zm0 (cn_sum ms mt).
  Hypothesis Herm0 : pmul M0 M0 = (z4_0, zeros (S (length mt))).
  Hypothesis Hsign0 : fst (A0 ms h e M0) = z4_0.

  Let preM (eps : bool) : bits := if eps then pre else zeros p.
  Lemma preM_length eps : length (preM eps) = p.
  Proof. destruct eps; [reflexivity| apply zeros_length]. Qed.
  Lemma preM_xfree eps : xfreeb (preM eps) = true.
  Proof. destruct eps; [exact pre_xfree| apply xfreeb_zeros]. Qed.
  Lemma Mpow_split eps : Mpow M eps = (fst (Mpow M0 eps), preM eps ++ snd (Mpow M0 eps)).
  Proof. destruct eps; unfold Mpow, M, M0, preM; cbn [fst snd]; [reflexivity|].
    rewrite app_length. cbn [length]. unfold zeros. rewrite repeat_app. reflexivity. Qed.

  (* a product of M^eps with a Z-product splits along the prefix *)
  Lemma pmul_split eps bp b0 : length bp = p ->
    pmul (Mpow M eps) (z4_0, zbits (bp ++ b0)) =
    (fst (pmul (Mpow M0 eps) (z4_0, zbits b0)), bxor (preM eps) (zbits bp) ++ snd (pmul (Mpow M0 eps) (z4_0, zbits b0))).
  Proof. intros L. rewrite Mpow_split. unfold pmul; cbn [fst snd]. rewrite zbits_app.
    rewrite zx_par_app, bxor_app by (rewrite preM_length, zbits_length; lia).
    rewrite (zx_par_xfree_r (preM eps) (zbits bp)) by apply xfreeb_zbits. rewrite xorb_false_l. reflexivity. Qed.

  Theorem collapse_local_at P : length (snd P) = p + S (length mt) -> (Zplus (Ap p ms h e P) <-> InG M P).
  Proof.
    intros LP. destruct P as [kP lP]. cbn [snd] in LP.
    rewrite <- (firstn_skipn p lP). set (pp := firstn p lP). set (sp := skipn p lP).
    assert (Lpp : length pp = p) by (unfold pp; rewrite firstn_length; lia).
    assert (Lsp : length sp = S (length mt)) by (unfold sp; rewrite skipn_length; lia).
    assert (EA : Ap p ms h e (kP, pp ++ sp) = (fst (A0 ms h e (kP, sp)), pp ++ snd (A0 ms h e (kP, sp)))).
    { unfold Ap; cbn [fst snd]. rewrite <- Lpp. rewrite skipn_app_len, firstn_app_len. reflexivity. }
    rewrite EA. pose proof (collapse_local km zm0 mt e Herm0 Hsign0 (kP, sp) Lsp) as CL.
    fold ms in CL. fold h in CL. fold M0 in CL.
    split.
    - intros [Hk Hx]. cbn [fst snd] in Hk, Hx. rewrite xfreeb_app in Hx. apply andb_prop in Hx as [Hxp Hxs].
      destruct (proj1 CL (conj Hk Hxs)) as (eps & b0 & Lb0 & Hpi & E0).
      set (bp := map snd (bxor (preM eps) pp)).
      assert (Ebp : zbits bp = bxor (preM eps) pp).
      { unfold bp. symmetry. apply xfree_is_zbits. apply xfreeb_bxor; [apply preM_xfree| exact Hxp]. }
      assert (Lbp : length bp = p).
      { unfold bp. rewrite map_length, bxor_length; rewrite preM_length; [reflexivity| lia]. }
      exists eps, (bp ++ b0). split; [|split].
      + unfold M; cbn [snd]. rewrite !app_length. cbn [snd M0] in Lb0. fold p. lia.
      + unfold M; cbn [snd]. rewrite zbits_app, zx_par_app by (rewrite zbits_length; exact Lbp).
        rewrite (zx_par_xfree_r (zbits bp) pre pre_xfree), xorb_false_l. exact Hpi.
      + rewrite pmul_split by exact Lbp. rewrite Ebp, bxor_invol by (rewrite preM_length; lia).
        rewrite <- E0. reflexivity.
    - intros (eps & b & Lb & Hpi & EP).
      unfold M in Lb; cbn [snd] in Lb. rewrite app_length in Lb. fold p in Lb.
      rewrite <- (firstn_skipn p b) in EP, Hpi. set (bp := firstn p b) in *. set (b0 := skipn p b) in *.
      assert (Lbp : length bp = p) by (unfold bp; rewrite firstn_length; lia).
      assert (Lb0 : length b0 = length (snd M0)) by (unfold b0; rewrite skipn_length; cbn [snd M0 length] in *; lia).
      rewrite pmul_split in EP by exact Lbp. injection EP as Ek El.
      apply app_inv_len in El as [Elp Els]; [|rewrite bxor_length; rewrite preM_length, ?zbits_length; lia].
      unfold M in Hpi; cbn [snd] in Hpi. rewrite zbits_app, zx_par_app in Hpi by (rewrite zbits_length; exact Lbp).
      rewrite (zx_par_xfree_r (zbits bp) pre pre_xfree), xorb_false_l in Hpi.
      assert (G0 : InG M0 (kP, sp)).
      { exists eps, b0. split; [exact Lb0|]. split; [exact Hpi|]. rewrite Ek, Els. apply surjective_pairing. }
      destruct (proj2 CL G0) as [Hk Hx]. split; cbn [fst snd]; [exact Hk|].
      rewrite xfreeb_app, Hx, Elp, andb_true_r. apply xfreeb_bxor; [apply preM_xfree| apply xfreeb_zbits].
  Qed.
End At.
Print Assumptions collapse_local_at.
(* ================= A0 is a bijection: explicit inverse (X, then H, then the same fan-out) ================= *)
Definition hxinv (h e : bool) (p : bb) : z4 * bb :=
  let x := fst p in let z := snd p in
  let dq := if h then ((z, x), (xorb x z, z)) else ((false, andb x z), (z, x)) in
  (z4_add (z4_two (andb e z)) (fst dq), snd dq).

Definition A0inv (ms : list bool) (h e : bool) (P : pauli) : pauli :=
  match snd P with
  | [] => P
  | p :: tl =>
     let r := hxinv h e p in
     let tl' := cn_bits (fst (snd r)) ms tl in
     (z4_add (fst P) (fst r), (fst (snd r), xorb (snd (snd r)) (cn_sum ms tl)) :: tl')
  end.

Lemma cn_bits_invol x ms tl : length ms = length tl -> cn_bits x ms (cn_bits x ms tl) = tl.
Proof. revert tl; induction ms as [|mk ms IH]; intros [|[a b] tl] L; cbn in *; try lia; try reflexivity.
  rewrite IH by lia. destruct a, mk, x; reflexivity. Qed.
Lemma cn_sum_cn_bits x ms tl : length ms = length tl -> cn_sum ms (cn_bits x ms tl) = cn_sum ms tl.
Proof. revert tl; induction ms as [|mk ms IH]; intros [|[a b] tl] L; cbn in *; try lia; try reflexivity.
  rewrite IH by lia. reflexivity. Qed.
Lemma hxinv_hx h e p : let r := hx h e p in let r' := hxinv h e (snd r) in
  snd r' = p /\ z4_add (fst r) (fst r') = z4_0.
Proof. destruct h, e, p as [[] []]; split; reflexivity. Qed.
Lemma hx_hxinv h e p : let r := hxinv h e p in let r' := hx h e (snd r) in
  snd r' = p /\ z4_add (fst r) (fst r') = z4_0.
Proof. destruct h, e, p as [[] []]; split; reflexivity. Qed.

Theorem A0inv_A0 ms h e P : length (snd P) = S (length ms) -> A0inv ms h e (A0 ms h e P) = P.
Proof.
  destruct P as [k [|[x z] tl]]; cbn [snd length]; intros L; [lia|]. assert (L' : length ms = length tl) by lia.
  unfold A0; cbn [fst snd]. unfold A0inv; cbn [fst snd].
  pose proof (hxinv_hx h e (x, xorb z (cn_sum ms tl))) as [Hb Hk]. cbn zeta in Hb, Hk.
  rewrite cn_sum_cn_bits by exact L'. rewrite Hb. cbn [fst snd]. rewrite cn_bits_invol by exact L'.
  f_equal; [|f_equal; f_equal; destruct z, (cn_sum ms tl); reflexivity].
  transitivity (z4_add k (z4_add (fst (hx h e (x, xorb z (cn_sum ms tl)))) (fst (hxinv h e (snd (hx h e (x, xorb z (cn_sum ms tl)))))))); [ring|].
  rewrite Hk. ring.
Qed.

Theorem A0_A0inv ms h e P : length (snd P) = S (length ms) -> A0 ms h e (A0inv ms h e P) = P.
Proof.
  destruct P as [k [|[x z] tl]]; cbn [snd length]; intros L; [lia|]. assert (L' : length ms = length tl) by lia.
  unfold A0inv; cbn [fst snd]. unfold A0; cbn [fst snd].
  rewrite cn_sum_cn_bits by exact L'. rewrite cn_bits_invol by exact L'.
  replace (xorb (xorb (snd (snd (hxinv h e (x, z)))) (cn_sum ms tl)) (cn_sum ms tl)) with (snd (snd (hxinv h e (x, z))))
    by (destruct (snd (snd (hxinv h e (x, z)))), (cn_sum ms tl); reflexivity).
  rewrite <- surjective_pairing.
  pose proof (hx_hxinv h e (x, z)) as [Hb Hk]. cbn zeta in Hb, Hk. rewrite Hb. f_equal.
  transitivity (z4_add k (z4_add (fst (hxinv h e (x, z))) (fst (hx h e (snd (hxinv h e (x, z))))))); [ring|].
  rewrite Hk. ring.
Qed.
Print Assumptions A0inv_A0. Print Assumptions A0_A0inv.
