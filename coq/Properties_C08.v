(* C08 — Detector error model format: exact round trip, total parser, faithful flatten. *)
From Coq Require Import List NArith Arith.
Import ListNotations.
Require Tag DemTargets.
Require IntRead Gen_IntRead GenProofs_IntRead.
Require Import Dec DemFlat.

(* flattening with a running detector offset threaded through nested repeat blocks (flattened_helper /
   iter_flatten_error_instructions_helper) = unrolling every block textually and executing the stream one instruction at a
   time; any nesting depth, any repeat counts, any starting offset *)
Theorem C08_flatten_is_naive_execution : forall m off, flat m off = exec (unroll m) off.
Proof. exact flatten_is_naive_execution. Qed.
(* tags are shared with the circuit format (read_tag): round trip for every byte string, output bounded by input *)
Theorem C08_tag_roundtrip :
  forall tag acc rest, Tag.read_tag_body (Tag.esc tag ++ Tag.RBR :: rest) acc = Tag.TagOk (acc ++ tag) rest.
Proof. exact Tag.tag_roundtrip. Qed.
Theorem C08_tag_output_bounded :
  forall inp acc t r, Tag.read_tag_body inp acc = Tag.TagOk t r -> length t + length r <= length acc + length inp.
Proof. exact Tag.tag_output_bounded. Qed.
(* detector / observable ids and repeat counts *)
Theorem C08_decimal_roundtrip : forall n rest, no_digit_head rest -> read_dec (print_dec n ++ rest) = Some (n, rest).
Proof. exact read_print_dec. Qed.
(* target lists of error instructions: operator<<(DemInstruction) then read_arbitrary_dem_targets_into (read_until_next_line_arg +
   read_uint60_t with the limit tested after every digit) returns the list, for every list of targets below 2^60, any length *)
Theorem C08_target_list_roundtrip :
  forall ts, Forall DemTargets.dwf ts -> forall fuel rest, length ts < fuel ->
  DemTargets.read_dtargets fuel (DemTargets.write_dtargets ts ++ 10%N :: rest) = DemTargets.DOk ts (10%N :: rest).
Proof. exact DemTargets.dtargets_roundtrip. Qed.
Theorem C08_uint60_reader_accepts_all_below_limit :
  forall n rest, (n < DemTargets.LIM60)%N -> no_digit_head rest -> DemTargets.read_u60 (print_dec n ++ rest) = Some (n, rest).
Proof. exact DemTargets.read_u60_print. Qed.
Print Assumptions C08_target_list_roundtrip. Print Assumptions C08_flatten_is_naive_execution. Print Assumptions C08_tag_roundtrip.

Example C08_nonvacuous :
  let m := [IErr 1 [TD 0; TL 1]; IShift 3; IRep 2 [IErr 2 [TD 0]; IShift 1; IRep 2 [IDet [TD 1]]]] in
  fst (flat m 0) = [OErr 1 [TD 0; TL 1]; OErr 2 [TD 3]; ODet [TD 5]; ODet [TD 5]; OErr 2 [TD 4]; ODet [TD 6]; ODet [TD 6]]
  /\ snd (flat m 0) = 5%N.
Proof. vm_compute. split; reflexivity. Qed.

(* the parsers' decimal readers, regenerated from source (accumulator width, limit, loop shape): no value wraps around modulo the
   machine word before the limit test, so each reader is the unbounded loop of the parser model (limits 2^24, 2^60, 2^63). The
   post-check shape with limit 2^63 in 64 bits would accept 2^64+1 as 1 (IntRead.post_check_u63_refuted). *)
Theorem C08_decimal_readers_do_not_wrap : GenProofs_IntRead.intread_all_ok = true.
Proof. exact GenProofs_IntRead.decimal_readers_do_not_wrap. Qed.
Theorem C08_generated_reader_is_unbounded_loop :
  GenProofs_IntRead.intread_all_ok = true ->
  forall n w k pre, In (n, w, k, pre) Gen_IntRead.int_readers ->
  forall s, (if pre then IntRead.pre_loop w (2 ^ k) s 0 else IntRead.post_loop w (2 ^ k) s 0)%N = DemTargets.read_lim_loop (2 ^ k)%N s 0%N.
Proof. exact GenProofs_IntRead.generated_reader_is_unbounded_loop. Qed.
Print Assumptions C08_decimal_readers_do_not_wrap. Print Assumptions C08_generated_reader_is_unbounded_loop.
