(* Obligations over the GENERATED refusal conditions of PauliStringRef at collapsing instructions: a measurement in the gate's
   documented basis B refuses the string exactly when its Pauli at a target (indexed by the target's qubit value, inverted flag
   masked off) anticommutes with B; a reset refuses any non-identity Pauli at a target; MPP sums the anticommutation of its terms
   per product. *)
From Coq Require Import List Bool String.
Import ListNotations.
Require Import AdjGen GenProofs_RevMeas Gen_Avoid.
Local Open Scope string_scope.

Definition fact (n : string) : bool :=
  match find (fun '(k, _) => String.eqb k n) avoid_facts with Some (_, b) => b | None => false end.
Definition meas_row_ok (g : string) : bool :=
  match find (fun '(n, _, _) => String.eqb n g) avoid_meas with
  | Some (_, xd, zd) =>
    forallb (fun x => forallb (fun z => Bool.eqb (xorb (x && xd) (z && zd)) (omega (basis g) (x, z))) [false; true]) [false; true]
  | None => false
  end.
Definition avoid_ok : bool :=
  match avoid_refused with [] => true | _ => false end &&
  forallb meas_row_ok ["M"; "MX"; "MY"] &&
  forallb fact ["meas_index_is_qubit_value"; "meas_bound"; "meas_cond"; "reset_index_is_qubit_value"; "reset_cond";
                "mpp_index_is_qubit_value"; "mpp_terms"; "mpp_groups"].
Theorem refusal_conditions_are_anticommutation : avoid_ok = true.
Proof. vm_compute. reflexivity. Qed.
