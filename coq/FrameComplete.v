(* The frame sampler produces EXACTLY the legal runs (C02: "every shot is an outcome the circuit can produce" and "measurements
   that quantum mechanics leaves undetermined ... correlated only as the circuit dictates").

   Reference: a run of the inverse-tableau simulator (Run.sim_run) with results r_k.  Frame sampler: carries a Pauli frame through
   the Cliffords, reports r_k xor [F_k, M_k] at the measurement of M_k and afterwards multiplies the frame by M_k when the
   randomisation bit z_k is set (for Stim's single-qubit Z measurement: "randomise the Z component of the frame on that qubit";
   the routines are regenerated from source in GenProofs_FrameMeas).  The initial frame is an element of the stabilizer group of
   the initial state (for the all-zero state: any product of Z's - Stim's initial Z randomisation).
     frame_sound_z    : for EVERY initial group element and EVERY choice of the z_k the reported results are a run the semantics
                        allows (circuits of any length);
     frame_complete   : EVERY run the semantics allows on the same operations is reported for SOME initial group element and
                        SOME choice of the z_k.
   With Frame.fibers_equal (uniform choice gives every reachable record the same number of preimages) this is the distribution
   claim of C02 for Clifford + Hermitian-measurement circuits.  Resets are not operations of this model (Run.v treats them as
   measurement + controlled Clifford; the frame simulator's own reset rule is tied per routine in GenProofs_FrameMeas). *)
From Coq Require Import List Bool Arith Lia Ring.
Import ListNotations.
Require Import Pauli Collapse Sem Refine ApProps Run FrameRun ResetRun.

Section FrameComplete.
  Variable n : nat.
  Notation wf := (Refine.wf n).
  Notation good := (Run.good n).
  Notation Inv := (Run.Inv n).
  Notation herm := (Run.herm n).
  Notation eqs := (FrameRun.eqs n).
  Notation Idn := (Run.Idn n).

  (* ---------- what a state tracked by a good inverse tableau is: a maximal abelian group without -1 ---------- *)
  Section Stab.
    Variables (T Ti : pauli -> pauli) (Sg : state).
    Hypothesis G : good T Ti.
    Hypothesis I : Inv T Sg.

    Lemma wf_pmul P Q : wf P -> wf Q -> wf (pmul P Q).
    Proof. unfold Refine.wf, pmul; cbn [snd]. intros HP HQ. rewrite bxor_length; [exact HP| rewrite HP, HQ; reflexivity]. Qed.
    Lemma wf_Idn : wf Idn. Proof. apply zeros_length. Qed.

    Lemma st_id : Sg Idn.
    Proof. apply I; [apply wf_Idn|]. rewrite (g_id _ _ _ G). split; [reflexivity| apply xfreeb_zeros]. Qed.
    Lemma st_mul P Q : wf P -> wf Q -> Sg P -> Sg Q -> Sg (pmul P Q).
    Proof.
      intros HP HQ SP SQ. apply I; [now apply wf_pmul|]. rewrite (g_mul _ _ _ G) by assumption.
      apply Zplus_pmul; apply I; assumption.
    Qed.
    Lemma acom_xfree A B : xfreeb (snd A) = true -> xfreeb (snd B) = true -> acom A B = false.
    Proof. intros HA HB. unfold acom, symp. now rewrite (zx_par_xfree_r _ _ HA), (zx_par_xfree_r _ _ HB). Qed.
    Lemma st_abelian P Q : wf P -> wf Q -> Sg P -> Sg Q -> acom P Q = false.
    Proof.
      intros HP HQ SP SQ. rewrite <- (good_acom n T Ti P Q G HP HQ).
      apply acom_xfree; [apply (I P HP), SP| apply (I Q HQ), SQ].
    Qed.
    Lemma st_consistent P : wf P -> Sg P -> ~ Sg (neg true P).
    Proof.
      intros HP SP SN. apply (I P HP) in SP. apply I in SN; [|exact HP]. unfold neg in SN.
      rewrite (g_phase _ _ _ G) in SN by exact HP. destruct SP as [E1 _], SN as [E2 _]. cbn [fst] in E2. rewrite E1 in E2. compute in E2. discriminate.
    Qed.
    Lemma st_one_sign M a b : wf M -> Sg (neg a M) -> Sg (neg b M) -> a = b.
    Proof.
      intros HM Ha Hb. destruct (Bool.bool_dec a b) as [E|E]; [exact E|]. exfalso.
      apply (st_consistent (neg a M) HM Ha). rewrite neg_neg. destruct a, b; try (exfalso; apply E; reflexivity); exact Hb.
    Qed.

    (* maximality, in the form needed: a measurement the simulator treats as free anticommutes with a group element *)
    Lemma st_witness M pre km zm0 mt : wf M -> n = length pre + (1 + length mt) -> T M = (km, pre ++ (true, zm0) :: mt) ->
      exists g, wf g /\ Sg g /\ acom g M = true.
    Proof.
      intros HM Hn TM. set (zk := (z4_0, zeros (length pre) ++ (false, true) :: zeros (length mt)) : pauli).
      assert (Wz : wf zk). { unfold Refine.wf, zk; cbn [snd]. rewrite app_length; cbn [length]. rewrite !zeros_length. lia. }
      assert (Xz : xfreeb (snd zk) = true). { unfold zk; cbn [snd]. rewrite xfreeb_app. cbn. now rewrite !xfreeb_zeros. }
      exists (Ti zk). assert (Wg : wf (Ti zk)) by (apply (g_ilen _ _ _ G), Wz). split; [exact Wg|]. split.
      - apply I; [exact Wg|]. rewrite (g_FG _ _ _ G) by exact Wz. split; [reflexivity| exact Xz].
      - rewrite <- (good_acom n T Ti (Ti zk) M G Wg HM). rewrite (g_FG _ _ _ G) by exact Wz. rewrite TM.
        unfold acom, symp. rewrite (zx_par_xfree_r _ _ Xz). unfold zk; cbn [snd].
        rewrite zx_par_app by apply zeros_length. rewrite zx_par_zeros_l. cbn. now rewrite zx_par_zeros_l.
    Qed.
  End Stab.

  (* ---------- multiplying the frame by a group element (up to sign) is invisible ---------- *)
  Lemma acom_sym A B : acom A B = acom B A.
  Proof. unfold acom, symp. apply xorb_comm. Qed.
  Lemma acom_pmul_l A B P : wf A -> wf B -> wf P -> acom (pmul A B) P = xorb (acom A P) (acom B P).
  Proof.
    intros HA HB HP. rewrite acom_sym, acom_pmul_r, (acom_sym P A), (acom_sym P B); try reflexivity; unfold Refine.wf, pauli, bits in *; lia.
  Qed.
  Lemma shift_mul_pm T Ti Sg F g s : good T Ti -> Inv T Sg -> wf F -> wf g -> Sg (neg s g) -> eqs (shift (pmul F g) Sg) (shift F Sg).
  Proof.
    intros G I HF Hg Sg_g P HP. unfold shift. rewrite (acom_pmul_l F g P HF Hg HP).
    destruct (acom g P) eqn:E; [|now rewrite xorb_false_r].
    split; intros H; exfalso;
      match type of H with Sg (neg ?x P) =>
        pose proof (st_abelian T Ti Sg G I (neg s g) (neg x P) Hg HP Sg_g H) as A; rewrite acom_neg_l, acom_neg_r in A; congruence end.
  Qed.

  (* ---------- the frame sampler with its randomisation bits ---------- *)
  Definition fstepz (F : pauli) (z : bool) (o : op) (r : option bool) : pauli * option bool :=
    match o with
    | OpU C _ => (C F, r)
    | OpM M => (if z then pmul F M else F, option_map (fun b => xorb b (acom F M)) r)
    end.
  Fixpoint frunz (F : pauli) (zs : list bool) (l : list (op * option bool)) : pauli * list (op * option bool) :=
    match l with
    | [] => (F, [])
    | (o, r) :: l' => let (F1, r1) := fstepz F (hd false zs) o r in let (F2, l2) := frunz F1 (tl zs) l' in (F2, (o, r1) :: l2)
    end.
  Notation ok := (fun x : op * option bool => ok_op n (fst x)).

  Lemma fstepz_snd F z o r : snd (fstepz F z o r) = snd (fstep F o r).
  Proof. destruct o; reflexivity. Qed.
  Lemma fstepz_wf F z o r : ok_op n o -> wf F -> wf (fst (fstepz F z o r)).
  Proof.
    destruct o as [C Ci|M]; cbn [ok_op fstepz fst]; intros Ho HF.
    - apply (g_len _ _ _ (proj1 Ho)), HF.
    - destruct z; [apply wf_pmul; [exact HF| apply Ho]| exact HF].
  Qed.

  (* after a measurement step the measured operator is in the group, with the reported sign *)
  Lemma measured_in_group T Ti Sg M r Sg1 : good T Ti -> Inv T Sg -> herm M -> sem_step Sg (OpM M) r Sg1 -> exists s, Sg1 (neg s M).
  Proof.
    intros G I HM H. inversion H; subst.
    - exists o. assumption.
    - exists c. exact (ResetRun.after_free n T Ti Sg M G I HM c).
  Qed.

  (* ---------- soundness with randomisation: every choice of the bits gives a legal run ---------- *)
  Lemma frame_step_z s o r s1 Sg F z S : ok_op n o -> good (fst s) (snd s) -> Inv (fst s) Sg -> wf F -> eqs S (shift F Sg) ->
    sim_step n s o r s1 ->
    exists Sg1 S1, sem_step Sg o r Sg1 /\ good (fst s1) (snd s1) /\ Inv (fst s1) Sg1 /\
      sem_step S o (snd (fstepz F z o r)) S1 /\ eqs S1 (shift (fst (fstepz F z o r)) Sg1) /\ wf (fst (fstepz F z o r)).
  Proof.
    intros Ho G I HF Heq Hs.
    destruct (step_refines n s o r s1 Sg G I Hs) as (Sg1 & Hsem & G1 & I1).
    destruct (frame_step n F o r Sg Sg1 S Ho HF Heq Hsem) as (S1 & Hs1 & Heq1 & HF1).
    exists Sg1, S1. rewrite fstepz_snd. split; [exact Hsem|]. split; [exact G1|]. split; [exact I1|]. split; [exact Hs1|]. split; [|now apply fstepz_wf].
    destruct o as [C Ci|M]; cbn [fstepz fstep fst] in *; [exact Heq1|].
    destruct z; [|exact Heq1].
    destruct (measured_in_group (fst s) (snd s) Sg M r Sg1 G I Ho Hsem) as [sg Hin].
    intros P HP. rewrite (Heq1 P HP). symmetry.
    exact (shift_mul_pm (fst s1) (snd s1) Sg1 F M sg G1 I1 HF (proj1 Ho) Hin P HP).
  Qed.

  Theorem frame_sound_z l : forall s s' Sg F zs S, Forall ok l -> good (fst s) (snd s) -> Inv (fst s) Sg -> wf F ->
    eqs S (shift F Sg) -> sim_run n s l s' ->
    exists Sg' S', sem_run Sg l Sg' /\ Inv (fst s') Sg' /\ sem_run S (snd (frunz F zs l)) S' /\ eqs S' (shift (fst (frunz F zs l)) Sg').
  Proof.
    induction l as [|[o r] l IH]; intros s s' Sg F zs S Hok G I HF Heq Hrun; inversion Hrun; subst; cbn [frunz].
    - exists Sg, S. split; [constructor|]. split; [exact I|]. split; [constructor| exact Heq].
    - inversion Hok as [|? ? Ho Hok']; subst. cbn [fst] in Ho.
      match goal with Hs : sim_step n s o r ?s1, Hr : sim_run n ?s1 l s' |- _ =>
        destruct (frame_step_z s o r s1 Sg F (hd false zs) S Ho G I HF Heq Hs) as (Sg1 & S1 & Hsem & G1 & I1 & Hs1 & Heq1 & HF1);
        destruct (fstepz F (hd false zs) o r) as [F1 r1] eqn:Ef; cbn [fst snd] in *;
        destruct (IH s1 s' Sg1 F1 (tl zs) S1 Hok' G1 I1 HF1 Heq1 Hr) as (Sg2 & S2 & Hsem2 & I2 & Hs2 & Heq2) end.
      destruct (frunz F1 (tl zs) l) as [F2 l2]. cbn [fst snd] in *.
      exists Sg2, S2. split; [econstructor; eassumption|]. split; [exact I2|]. split; [econstructor; eassumption| exact Heq2].
  Qed.

  (* ---------- the reported results depend on the frame only through its bits ---------- *)
  Lemma fstepz_phase k F z o r : ok_op n o -> wf F ->
    fstepz (z4_add k (fst F), snd F) z o r =
    ((z4_add k (fst (fst (fstepz F z o r))), snd (fst (fstepz F z o r))), snd (fstepz F z o r)).
  Proof.
    destruct o as [C Ci|M]; cbn [ok_op fstepz fst snd]; intros Ho HF.
    - rewrite (g_phase _ _ _ (proj1 Ho)) by exact HF. reflexivity.
    - f_equal. destruct z; [|reflexivity]. unfold pmul; cbn [fst snd]. f_equal. ring.
  Qed.
  Lemma frunz_phase l : forall k F zs, Forall ok l -> wf F -> snd (frunz (z4_add k (fst F), snd F) zs l) = snd (frunz F zs l).
  Proof.
    induction l as [|[o r] l IH]; intros k F zs Hok HF; cbn [frunz]; [reflexivity|].
    inversion Hok as [|? ? Ho Hok']; subst. cbn [fst] in Ho.
    rewrite (fstepz_phase k F (hd false zs) o r Ho HF).
    pose proof (fstepz_wf F (hd false zs) o r Ho HF) as HF1.
    destruct (fstepz F (hd false zs) o r) as [F1 r1]. cbn [fst snd] in *.
    specialize (IH k F1 (tl zs) Hok' HF1).
    destruct (frunz (z4_add k (fst F1), snd F1) (tl zs) l) as [Fa la], (frunz F1 (tl zs) l) as [Fb lb]. cbn [snd] in *. now rewrite IH.
  Qed.
  Lemma frunz_bits F F' zs l : Forall ok l -> wf F -> snd F' = snd F -> snd (frunz F' zs l) = snd (frunz F zs l).
  Proof.
    intros Hok HF E. rewrite <- (frunz_phase l (z4_sub (fst F') (fst F)) F zs Hok HF). f_equal. f_equal.
    destruct F as [k b], F' as [k' b']. cbn [fst snd] in *. subst b'. f_equal. unfold z4_sub. ring.
  Qed.

  Lemma bxor_shuffle (a b c d : bits) : length a = n -> length b = n -> length c = n -> length d = n ->
    bxor (bxor a (bxor b c)) d = bxor (bxor a b) (bxor d c).
  Proof.
    intros La Lb Lc Ld. assert (Lab : length (bxor a b) = n) by (rewrite bxor_length; congruence).
    rewrite (bxor_assoc a b c) by congruence. rewrite (bxor_assoc (bxor a b) d c) by congruence.
    rewrite <- (bxor_assoc (bxor a b) c d) by congruence. rewrite (bxor_comm c d). apply bxor_assoc; congruence.
  Qed.

  (* ---------- completeness ---------- *)
  Lemma snd_let (p : pauli * list (op * option bool)) x : snd (let (F2, l2) := p in (F2, x :: l2)) = x :: snd p.
  Proof. destruct p; reflexivity. Qed.
  Lemma acom_Idn M : acom Idn M = false.
  Proof. rewrite acom_sym. apply acom_zeros_r. Qed.

  Theorem frame_complete_gen l : forall la s s' Sg S S' F, Forall ok l -> good (fst s) (snd s) -> Inv (fst s) Sg -> wf F ->
    eqs S (shift F Sg) -> sim_run n s l s' -> sem_run S la S' -> map fst la = map fst l ->
    exists g zs, wf g /\ Sg g /\ snd (frunz (pmul F g) zs l) = la.
  Proof.
    induction l as [|[o r] l IH]; intros la s s' Sg S S' F Hok G I HF Heq Hrun Halt Hops.
    - destruct la; [|discriminate]. exists Idn, []. split; [apply wf_Idn|]. split; [exact (st_id (fst s) (snd s) Sg G I)| reflexivity].
    - destruct la as [|[o' r'] la]; [discriminate|]. cbn [map fst] in Hops. injection Hops as Eo Hops. subst o'.
      inversion Hok as [|? ? Ho Hok']; subst. cbn [fst] in Ho.
      inversion Hrun as [|? ? ? s1 ? ? Hstep Hrest]; subst.
      inversion Halt as [|? ? ? Sa1 ? ? Hastep Harest]; subst.
      destruct Hstep as [T Ti C Ci HC | T Ti M HM Hx | T Ti M pre km zm0 mt c1 e HM Hp Hn HT He]; cbn [fst snd] in *.
      + (* Clifford *)
        inversion Hastep; subst.
        destruct (frame_step n F (OpU C Ci) None Sg (fun P => Sg (Ci P)) S Ho HF Heq (MU Sg C Ci)) as (S1' & Hs1 & Heq1 & HF1).
        inversion Hs1; subst. cbn [fstep fst snd] in *.
        destruct (IH la (fun P => T (Ci P), fun P => C (Ti P)) s' (fun P => Sg (Ci P)) (fun P => S (Ci P)) S' (C F) Hok'
                    (good_compose n T Ti C Ci G HC) (inv_compose n T Sg C Ci HC I) HF1 Heq1 Hrest Harest Hops) as (g' & zs & Wg & Sg' & E).
        exists (Ci g'), (false :: zs). assert (Wc : wf (Ci g')) by (apply (g_len _ _ _ HC), Wg).
        split; [exact Wc|]. split; [exact Sg'|].
        cbn [frunz fstepz hd tl]. rewrite (g_mul _ _ _ (proj1 Ho)) by assumption. rewrite (g_FG _ _ _ (proj1 Ho)) by exact Wg.
        destruct (frunz (pmul (C F) g') zs l) as [F2 l2]. cbn [snd] in *. now rewrite E.
      + (* measurement the reference simulator treats as fixed *)
        pose proof (measure_fixed n T Ti Sg M G I HM Hx) as Hdet. unfold meas_det in Hdet. set (o1 := snd (fst (T M))) in *.
        inversion Hastep as [| ? ? o2 Hd2 | ? ? c2 Hr2]; subst.
        * unfold meas_det in Hd2. apply (Heq (neg o2 M) (proj1 HM)) in Hd2. unfold shift in Hd2. rewrite acom_neg_r, neg_neg in Hd2.
          pose proof (st_one_sign T Ti Sg G I M _ _ (proj1 HM) Hdet Hd2) as Eo.
          destruct (IH la (T, Ti) s' Sg _ S' F Hok' G I HF Heq Hrest Harest Hops) as (g & zs & Wg & Sg_g & E).
          exists g, (false :: zs). split; [exact Wg|]. split; [exact Sg_g|].
          cbn [frunz fstepz hd tl option_map]. rewrite (acom_pmul_l F g M HF Wg (proj1 HM)).
          pose proof (st_abelian T Ti Sg G I g (neg o1 M) Wg (proj1 HM) Sg_g Hdet) as Ea. rewrite acom_neg_r in Ea. rewrite Ea, xorb_false_r.
          destruct (frunz (pmul F g) zs l) as [F2 l2]. cbn [snd] in *. rewrite E. do 3 f_equal.
          rewrite Eo. destruct (acom F M), o2; reflexivity.
        * exfalso. pose proof (frame_meas_det F Sg M o1 Hdet) as Hd. unfold meas_det in Hd. apply (Heq (neg (xorb o1 (acom F M)) M) (proj1 HM)) in Hd.
          destruct Hr2 as [H0 H1]. destruct (xorb o1 (acom F M)); [exact (H1 Hd)| rewrite neg_false in Hd; exact (H0 Hd)].
      + (* measurement the reference simulator treats as free *)
        revert Hn. inversion Hastep as [| ? ? o2 Hd2 | ? ? c2 Hr2]; subst; intros Hn.
        * exfalso. unfold meas_det in Hd2. apply (Heq (neg o2 M) (proj1 HM)) in Hd2. unfold shift in Hd2. rewrite acom_neg_r, neg_neg in Hd2.
          exact (free_not_in_group n T Ti Sg M pre km zm0 mt G I HM HT _ Hd2).
        * set (d := xorb (xorb c1 c2) (acom F M)).
          assert (Hg0 : exists g0, wf g0 /\ Sg g0 /\ acom g0 M = d).
          { destruct d.
            - exact (st_witness T Ti Sg G I M pre km zm0 mt (proj1 HM) Hn HT).
            - exists Idn. split; [apply wf_Idn|]. split; [exact (st_id T Ti Sg G I)| apply acom_Idn]. }
          destruct Hg0 as (g0 & W0 & S0 & A0').
          set (F1 := pmul F g0). assert (WF1 : wf F1) by (apply wf_pmul; assumption).
          assert (Heq' : eqs S (shift F1 Sg)).
          { intros P HP. rewrite (Heq P HP). symmetry. apply (shift_mul_pm T Ti Sg F g0 false G I HF W0); [now rewrite neg_false| exact HP]. }
          assert (EA : xorb c1 (acom F1 M) = c2).
          { unfold F1. rewrite (acom_pmul_l F g0 M HF W0 (proj1 HM)), A0'. unfold d. destruct c1, c2, (acom F M); reflexivity. }
          assert (Heq1 : eqs (post_rnd S M c2) (shift F1 (post_rnd Sg M c1))).
          { intros P HP. rewrite (frame_post_rnd F1 Sg M c1 P) by (pose proof (proj1 HM) as WM; unfold Refine.wf, pauli, bits in *; lia).
            rewrite EA. apply (post_rnd_ext_wf n S (shift F1 Sg) M c2 P (proj1 HM) Heq'). }
          destruct (IH la (T1 T pre zm0 mt e, Ti1 Ti pre zm0 mt e) s' (post_rnd Sg M c1) (post_rnd S M c2) S' F1 Hok'
                      (good_after n T Ti pre zm0 mt G Hn e) (inv_after n T Ti Sg M pre km zm0 mt c1 G I HM Hp Hn HT e He)
                      WF1 Heq1 Hrest Harest Hops) as (g' & zs & Wg' & Sg' & E).
          destruct Sg' as (eps & h & Sh & Ch & Lh & Eg').
          assert (Wh : wf h) by (unfold Refine.wf; rewrite Lh; apply HM).
          exists (pmul g0 h), (eps :: zs). split; [now apply wf_pmul|]. split; [exact (st_mul T Ti Sg G I g0 h W0 Wh S0 Sh)|].
          cbn [frunz fstepz hd tl option_map].
          assert (Wgh : wf (pmul g0 h)) by now apply wf_pmul.
          rewrite (acom_pmul_l F (pmul g0 h) M HF Wgh (proj1 HM)), (acom_pmul_l g0 h M W0 Wh (proj1 HM)), A0', Ch, xorb_false_r.
          assert (EB : snd (if eps then pmul (pmul F (pmul g0 h)) M else pmul F (pmul g0 h)) = snd (pmul F1 g')).
          { rewrite Eg'. unfold F1. destruct HM as [WM _]. unfold Refine.wf in *. destruct eps; unfold Mpow, pmul; cbn [fst snd neg].
            - apply bxor_shuffle; assumption.
            - rewrite (bxor_comm (zeros _) (snd h)). rewrite <- Lh. rewrite bxor_zeros_r. apply bxor_assoc; congruence. }
          rewrite snd_let. f_equal.
          -- do 2 f_equal. unfold d. destruct c1, c2, (acom F M); reflexivity.
          -- transitivity (snd (frunz (pmul F1 g') zs l)); [|exact E].
             exact (frunz_bits (pmul F1 g') _ zs l Hok' (wf_pmul F1 g' WF1 Wg') EB).
  Qed.

  Lemma shift_group T Ti Sg g : good T Ti -> Inv T Sg -> wf g -> Sg g -> eqs Sg (shift g Sg).
  Proof.
    intros G I Wg Hg P HP. unfold shift. destruct (acom g P) eqn:E; [|now rewrite neg_false].
    split; intros H; exfalso;
      [pose proof (st_abelian T Ti Sg G I g P Wg HP Hg H) as A | pose proof (st_abelian T Ti Sg G I g (neg true P) Wg HP Hg H) as A];
      rewrite ?acom_neg_r in A; congruence.
  Qed.

  (* every legal run on the same operations is reported for some initial group element and some randomisation bits *)
  Theorem frame_complete l la s s' Sg S' : Forall ok l -> good (fst s) (snd s) -> Inv (fst s) Sg ->
    sim_run n s l s' -> sem_run Sg la S' -> map fst la = map fst l ->
    exists g zs, wf g /\ Sg g /\ snd (frunz g zs l) = la.
  Proof.
    intros Hok G I Hrun Halt Hops.
    assert (Heq : eqs Sg (shift Idn Sg)).
    { intros P HP. unfold shift. rewrite acom_Idn, neg_false. reflexivity. }
    destruct (frame_complete_gen l la s s' Sg Sg S' Idn Hok G I wf_Idn Heq Hrun Halt Hops) as (g & zs & Wg & Hg & E).
    exists g, zs. split; [exact Wg|]. split; [exact Hg|]. rewrite <- E. symmetry. apply frunz_bits; [exact Hok| exact Wg|].
    unfold pmul, Idn; cbn [snd]. unfold Refine.wf in Wg. rewrite <- Wg, bxor_comm. apply bxor_zeros_r.
  Qed.

  (* ... and nothing else is: soundness from an initial group element *)
  Theorem frame_sound l s s' Sg g zs : Forall ok l -> good (fst s) (snd s) -> Inv (fst s) Sg -> wf g -> Sg g ->
    sim_run n s l s' -> exists S', sem_run Sg (snd (frunz g zs l)) S'.
  Proof.
    intros Hok G I Wg Hg Hrun.
    destruct (frame_sound_z l s s' Sg g zs Sg Hok G I Wg (shift_group (fst s) (snd s) Sg g G I Wg Hg) Hrun) as (Sg' & S' & _ & _ & H & _).
    exists S'. exact H.
  Qed.

  Lemma frunz_ops l : forall F zs, map fst (snd (frunz F zs l)) = map fst l.
  Proof.
    induction l as [|[o r] l IH]; intros F zs; cbn [frunz]; [reflexivity|].
    destruct (fstepz F (hd false zs) o r) as [F1 r1]. rewrite snd_let. cbn [map fst]. now rewrite IH.
  Qed.

  (* the frame sampler reports exactly the legal records of the circuit *)
  Corollary frame_exact l la s s' Sg : Forall ok l -> good (fst s) (snd s) -> Inv (fst s) Sg -> sim_run n s l s' ->
    ((exists g zs, wf g /\ Sg g /\ snd (frunz g zs l) = la) <-> (map fst la = map fst l /\ exists S', sem_run Sg la S')).
  Proof.
    intros Hok G I Hrun. split.
    - intros (g & zs & Wg & Hg & E). subst la. split; [apply frunz_ops|]. exact (frame_sound l s s' Sg g zs Hok G I Wg Hg Hrun).
    - intros (Hops & S' & Halt). exact (frame_complete l la s s' Sg S' Hok G I Hrun Halt Hops).
  Qed.

  (* non-vacuity: the reference simulator runs on every list of well-formed operations (with any coins) *)
  Lemma sim_run_exists (c : bool) ops : forall s, Forall (ok_op n) ops -> good (fst s) (snd s) ->
    exists l s', map fst l = ops /\ Forall ok l /\ sim_run n s l s'.
  Proof.
    induction ops as [|o ops IH]; intros s Hok G.
    - exists [], s. split; [reflexivity|]. split; constructor.
    - inversion Hok as [|? ? Ho Hok']; subst.
      assert (Hstep : exists r s1, sim_step n s o r s1).
      { destruct s as [T Ti]. destruct o as [C Ci|M]; cbn [ok_op fst snd] in *.
        - eexists; eexists. apply SU. apply Ho.
        - exact (measurement_always_steps n T Ti M c G Ho). }
      destruct Hstep as (r & s1 & Hs).
      destruct (step_refines n s o r s1 (fun P => Zplus (fst s P)) G (fun P _ => iff_refl _) Hs) as (_ & _ & G1 & _).
      destruct (IH s1 Hok' G1) as (l & s' & El & Hl & Hr).
      exists ((o, r) :: l), s'. split; [cbn; now rewrite El|]. split; [constructor; assumption| econstructor; eassumption].
  Qed.
End FrameComplete.
Print Assumptions frame_exact.

(* from the all-zero state: the initial frame is a product of Z's *)
Corollary frame_exact_zero_state n l la s' : Forall (fun x => ok_op n (fst x)) l -> sim_run n (fun P => P, fun P => P) l s' ->
  ((exists g zs, Refine.wf n g /\ Zplus g /\ snd (frunz g zs l) = la) <-> (map fst la = map fst l /\ exists S', sem_run (fun P => Zplus P) la S')).
Proof. intros Hok Hrun. exact (frame_exact n l la (fun P => P, fun P => P) s' (fun P => Zplus P) Hok (init_good n) (init_inv n) Hrun). Qed.
Print Assumptions frame_exact_zero_state.
