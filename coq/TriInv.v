(* simd_bit_table::inverse_assuming_lower_triangular (C20): for each target row t, copy_row = L[t]; for pivot = 0 .. t-1: if
   copy_row[pivot] then copy_row ^= L[pivot], result[t] ^= result[pivot]; result starts as the identity.
   Theorem: for every unit lower-triangular L (any size) the computed X satisfies L * X = I over GF(2).
   Key step: when pivot p is tested, copy_row[p] still equals L[t][p], because the rows XORed in so far are L[p'] with p' < p and
   those are zero at column p. *)
From Coq Require Import List Bool Arith Lia.
Import ListNotations.

Definition row := nat -> bool.
Definition zero_row : row := fun _ => false.
Definition unit_row (t : nat) : row := fun k => Nat.eqb k t.
Definition xrow (a b : row) : row := fun k => xorb (a k) (b k).

Section Tri.
  Variable L : nat -> row.
  Hypothesis L_diag : forall i, L i i = true.
  Hypothesis L_upper : forall i j, i < j -> L i j = false.

  Definition step (prev : list row) (st : row * row) (p : nat) : row * row :=
    if fst st p then (xrow (fst st) (L p), xrow (snd st) (nth p prev zero_row)) else st.
  Definition row_of (prev : list row) (t : nat) : row := snd (fold_left (step prev) (seq 0 t) (L t, unit_row t)).
  Fixpoint rows (t : nat) : list row := match t with 0 => [] | S t' => rows t' ++ [row_of (rows t') t'] end.
  Definition X (n j : nat) : row := nth j (rows n) zero_row.

  Lemma rows_length t : length (rows t) = t.
  Proof. induction t as [|t IH]; cbn; [reflexivity|]. rewrite app_length, IH. cbn. lia. Qed.
  Lemma rows_prefix t n j : j < t -> t <= n -> nth j (rows n) zero_row = nth j (rows t) zero_row.
  Proof.
    intros Hj Hn. induction Hn as [|n Hn IH]; [reflexivity|]. cbn [rows]. rewrite app_nth1 by (rewrite rows_length; lia). exact IH.
  Qed.
  Lemma X_row n t : t < n -> X n t = row_of (rows t) t.
  Proof.
    intros Ht. unfold X. rewrite (rows_prefix (S t) n t) by lia. cbn [rows]. rewrite app_nth2 by (rewrite rows_length; lia).
    rewrite rows_length, Nat.sub_diag. reflexivity.
  Qed.

  (* XOR over an index range *)
  Fixpoint xsum (f : nat -> bool) (m : nat) : bool := match m with 0 => false | S m' => xorb (xsum f m') (f m') end.

  (* the fold over pivots 0 .. m-1 (m <= t): the copy row agrees with L t at columns >= m, and the result row is
     unit_row t xor the rows X_p for the p < m with L t p *)
  Lemma fold_inv prev t m : m <= t ->
    let st := fold_left (step prev) (seq 0 m) (L t, unit_row t) in
    (forall c, m <= c -> fst st c = L t c) /\
    (forall k, snd st k = xorb (unit_row t k) (xsum (fun p => L t p && nth p prev zero_row k) m)).
  Proof.
    induction m as [|m IH]; intros Hm; cbn zeta.
    - cbn. split; [reflexivity| intros k; now rewrite xorb_false_r].
    - rewrite seq_S, fold_left_app. cbn [fold_left plus]. specialize (IH ltac:(lia)). cbn zeta in IH. destruct IH as [Hc Hr].
      set (st := fold_left (step prev) (seq 0 m) (L t, unit_row t)) in *. clearbody st.
      unfold step. rewrite (Hc m (le_n m)). destruct (L t m) eqn:E; cbn [fst snd].
      + split.
        * intros c Hcm. unfold xrow. rewrite Hc by lia. rewrite (L_upper m c) by lia. now rewrite xorb_false_r.
        * intros k. unfold xrow. rewrite Hr. cbn [xsum]. rewrite E. cbn [andb]. now rewrite xorb_assoc.
      + split; [intros c Hcm; apply Hc; lia|]. intros k. rewrite Hr. cbn [xsum]. rewrite E. cbn [andb]. now rewrite xorb_false_r.
  Qed.

  Lemma row_of_spec t k : row_of (rows t) t k = xorb (unit_row t k) (xsum (fun p => L t p && nth p (rows t) zero_row k) t).
  Proof. unfold row_of. exact (proj2 (fold_inv (rows t) t t (le_n t)) k). Qed.

  Lemma xsum_ext f g m : (forall p, p < m -> f p = g p) -> xsum f m = xsum g m.
  Proof. induction m as [|m IH]; intros H; cbn; [reflexivity|]. rewrite IH by (intros; apply H; lia). now rewrite H by lia. Qed.
  Lemma xsum_false m : xsum (fun _ => false) m = false.
  Proof. induction m as [|m IH]; cbn; [reflexivity|]. now rewrite IH. Qed.
  Lemma xsum_split f t n : t <= n -> xsum f n = xorb (xsum f t) (xsum (fun p => f (t + p)) (n - t)).
  Proof.
    intros H. replace n with (t + (n - t)) at 1 by lia. generalize (n - t) as d. intros d.
    induction d as [|d IH]; [now rewrite Nat.add_0_r, xorb_false_r|]. rewrite Nat.add_succ_r. cbn [xsum]. rewrite IH. now rewrite xorb_assoc.
  Qed.

  (* L * X = I *)
  Theorem lower_triangular_inverse n t k : t < n -> xsum (fun j => L t j && X n j k) n = Nat.eqb k t.
  Proof.
    intros Ht.
    (* columns beyond t contribute nothing; column t contributes X_t; columns below t contribute L_tj X_j *)
    rewrite (xsum_split _ (S t) n) by lia.
    assert (Hhi : xsum (fun p => L t (S t + p) && X n (S t + p) k) (n - S t) = false).
    { rewrite (xsum_ext _ (fun _ => false)); [apply xsum_false|]. intros p _. rewrite (L_upper t (S t + p)) by lia. reflexivity. }
    rewrite Hhi, xorb_false_r. cbn [xsum]. rewrite L_diag. cbn [andb].
    rewrite (X_row n t Ht), row_of_spec.
    rewrite (xsum_ext (fun j => L t j && X n j k) (fun p => L t p && nth p (rows t) zero_row k) t).
    - unfold unit_row. destruct (xsum _ t), (Nat.eqb k t); reflexivity.
    - intros p Hp. unfold X. rewrite (rows_prefix t n p) by lia. reflexivity.
  Qed.
End Tri.
Print Assumptions lower_triangular_inverse.
