(* What the gates emitted by decompose_mpp_operation (model: Mpp.v) do, for products of any size.

   A flushed block is  H(h_xz) ; H_YZ(h_yz) ; CX(cnot) ; M(meas) ; CX(cnot) ; H_YZ(h_yz) ; H(h_xz).  With U = CX.H_YZ.H (H first in
   time), measuring Z on qubit f after U is measuring U^dagger Z_f U before it; all three gates are self-inverse, so U^dagger Z_f U
   is obtained by applying the gate table's conjugation action of the CX pairs (last pair first), then of the H_YZ targets, then of
   the H targets, to Z_f.  Theorem block_measures_products: for pairwise disjoint products, that pull-back of Z on a product's first
   qubit is exactly that product's Pauli content with sign +, and the measured target carries the product's sign as its inverted
   flag: the block measures each product, and undoes its basis change afterwards.  The table actions used are the ones of the
   generated gate table (facts proved by vm_compute on Gen_GateTable). *)
From Coq Require Import List Bool Arith Lia String.
Import ListNotations.
Require Import Act Gen_GateTable Mpp.
Local Open Scope string_scope.
Local Open Scope list_scope.

Definition pz := (bool * bool)%type.
Definition pI : pz := (false, false).
Definition pX : pz := (true, false).
Definition pY : pz := (true, true).
Definition pZ : pz := (false, true).
(* a signed Pauli product: sign and content *)
Definition sp := (bool * (nat -> pz))%type.
Definition updc (c : nat -> pz) (q : nat) (v : pz) : nat -> pz := fun k => if Nat.eqb k q then v else c k.

Definition tH := local1 (flows_of (gate_named "H")).
Definition tHYZ := local1 (flows_of (gate_named "H_YZ")).
Definition tCX := local2 (flows_of (gate_named "CX")).

Definition app1 (f : bool -> bool -> bool -> t1) (q : nat) (P : sp) : sp :=
  let '(x, z, s) := f (fst (snd P q)) (snd (snd P q)) (fst P) in (s, updc (snd P) q (x, z)).
Definition app2 (f : bool -> bool -> bool -> bool -> bool -> t2) (ab : nat * nat) (P : sp) : sp :=
  let '(a, b) := ab in
  let '(x1, z1, x2, z2, s) := f (fst (snd P a)) (snd (snd P a)) (fst (snd P b)) (snd (snd P b)) (fst P) in
  (s, updc (updc (snd P) a (x1, z1)) b (x2, z2)).

(* facts about the generated table *)
Lemma tH_I s : tH false false s = (false, false, s). Proof. destruct s; vm_compute; reflexivity. Qed.
Lemma tH_Z s : tH false true s = (true, false, s). Proof. destruct s; vm_compute; reflexivity. Qed.
Lemma tHYZ_I s : tHYZ false false s = (false, false, s). Proof. destruct s; vm_compute; reflexivity. Qed.
Lemma tHYZ_Z s : tHYZ false true s = (true, true, s). Proof. destruct s; vm_compute; reflexivity. Qed.
Lemma tCX_II s : tCX false false false false s = (false, false, false, false, s). Proof. destruct s; vm_compute; reflexivity. Qed.
Lemma tCX_IZ s : tCX false false false true s = (false, true, false, true, s). Proof. destruct s; vm_compute; reflexivity. Qed.
Lemma self_inverse_gates :
  e_inv (gate_named "H") = e_id (gate_named "H") /\ e_inv (gate_named "H_YZ") = e_id (gate_named "H_YZ") /\
  e_inv (gate_named "CX") = e_id (gate_named "CX").
Proof. vm_compute. repeat split; reflexivity. Qed.

(* pairs of a flat control/target list *)
Fixpoint pairs_of (l : list nat) : list (nat * nat) :=
  match l with a :: b :: r => (a, b) :: pairs_of r | _ => [] end.
Lemma pairs_of_app_even a b l : pairs_of ((a :: b :: nil) ++ l) = (a, b) :: pairs_of l. Proof. reflexivity. Qed.
Lemma pairs_of_flat f l r : pairs_of (flat_map (fun q => [q; f]) l ++ r) = map (fun q => (q, f)) l ++ pairs_of r.
Proof. induction l as [|q l IH]; cbn; [reflexivity|]. now rewrite IH. Qed.

Definition pull (hx hy : list nat) (cx : list nat) (P : sp) : sp :=
  fold_right (app1 tH) (fold_right (app1 tHYZ) (fold_right (app2 tCX) P (pairs_of cx)) hy) hx.

(* ---------- single layers, pointwise ---------- *)
Lemma updc_same c q v : updc c q v q = v. Proof. unfold updc. now rewrite Nat.eqb_refl. Qed.
Lemma updc_other c q v k : k <> q -> updc c q v k = c k.
Proof. unfold updc. intros H. destruct (Nat.eqb_spec k q); [contradiction|reflexivity]. Qed.

(* a layer of single-qubit gates g with g(I) = I, g(Z) = T (sign +): positions in qs holding Z become T, positions holding I stay *)
Section Layer1.
  Variable g : bool -> bool -> bool -> t1.
  Variable T : pz.
  Hypothesis gI : forall s, g false false s = (false, false, s).
  Hypothesis gZ : forall s, g false true s = (fst T, snd T, s).

  Lemma layer1 qs (P : sp) : NoDup qs -> (forall q, In q qs -> snd P q = pI \/ snd P q = pZ) ->
    fst (fold_right (app1 g) P qs) = fst P /\
    forall k, snd (fold_right (app1 g) P qs) k = if existsb (Nat.eqb k) qs then (if snd (snd P k) then T else pI) else snd P k.
  Proof.
    induction qs as [|q qs IH]; intros Hnd Hc; cbn [fold_right existsb]; [split; reflexivity|].
    inversion Hnd as [|? ? Hq Hnd']; subst.
    destruct (IH Hnd' (fun q' Hin => Hc q' (or_intror Hin))) as [IHs IHc]. clear IH.
    set (R := fold_right (app1 g) P qs) in *.
    assert (Rq : snd R q = snd P q).
    { rewrite IHc. replace (existsb (Nat.eqb q) qs) with false; [reflexivity|].
      symmetry. apply not_true_is_false. intros E. apply existsb_exists in E. destruct E as [x [Hx Ex]]. apply Nat.eqb_eq in Ex. subst x. contradiction. }
    unfold app1. rewrite Rq.
    destruct (Hc q (or_introl eq_refl)) as [E|E]; rewrite E; cbn [fst snd pI pZ].
    - rewrite gI. cbn [fst snd]. split; [exact IHs|]. intros k. destruct (Nat.eqb_spec k q) as [->|Hk]; cbn [orb].
      + rewrite updc_same, E. reflexivity.
      + rewrite updc_other by exact Hk. apply IHc.
    - rewrite gZ. cbn [fst snd]. split; [exact IHs|]. intros k. destruct (Nat.eqb_spec k q) as [->|Hk]; cbn [orb].
      + rewrite updc_same, E. cbn. now destruct T.
      + rewrite updc_other by exact Hk. apply IHc.
  Qed.
End Layer1.

(* CX pairs whose both qubits hold I leave the product alone *)
Lemma cx_foreign prs (P : sp) : (forall a b, In (a, b) prs -> snd P a = pI /\ snd P b = pI) ->
  fst (fold_right (app2 tCX) P prs) = fst P /\ forall k, snd (fold_right (app2 tCX) P prs) k = snd P k.
Proof.
  induction prs as [|[a b] prs IH]; intros Hc; cbn [fold_right]; [split; reflexivity|].
  destruct (IH (fun a' b' Hin => Hc a' b' (or_intror Hin))) as [IHs IHc]. clear IH.
  set (R := fold_right (app2 tCX) P prs) in *.
  destruct (Hc a b (or_introl eq_refl)) as [Ea Eb].
  unfold app2. rewrite !IHc, Ea, Eb. cbn [fst snd pI]. rewrite tCX_II. cbn [fst snd]. split; [exact IHs|].
  intros k. destruct (Nat.eqb_spec k b) as [->|Hb]; [now rewrite updc_same, Eb|]. rewrite updc_other by exact Hb.
  destruct (Nat.eqb_spec k a) as [->|Ha]; [now rewrite updc_same, Ea|]. rewrite updc_other by exact Ha. apply IHc.
Qed.

(* the CX pairs (q, f) of one product, q ranging over distinct qubits other than f, spread Z from f over all of them *)
Lemma cx_fan f qs (P : sp) : NoDup qs -> ~ In f qs -> snd P f = pZ -> (forall q, In q qs -> snd P q = pI) ->
  fst (fold_right (app2 tCX) P (map (fun q => (q, f)) qs)) = fst P /\
  forall k, snd (fold_right (app2 tCX) P (map (fun q => (q, f)) qs)) k = if existsb (Nat.eqb k) qs then pZ else snd P k.
Proof.
  induction qs as [|q qs IH]; intros Hnd Hf Hz Hi; cbn [map fold_right existsb]; [split; reflexivity|].
  inversion Hnd as [|? ? Hq Hnd']; subst.
  destruct (IH Hnd' (fun H => Hf (or_intror H)) Hz (fun q' Hin => Hi q' (or_intror Hin))) as [IHs IHc]. clear IH.
  set (R := fold_right (app2 tCX) P (map (fun q0 => (q0, f)) qs)) in *.
  assert (Hqf : q <> f) by (intros ->; apply Hf; left; reflexivity).
  assert (Rq : snd R q = pI).
  { rewrite IHc. replace (existsb (Nat.eqb q) qs) with false; [apply Hi; left; reflexivity|].
    symmetry. apply not_true_is_false. intros E. apply existsb_exists in E. destruct E as [x [Hx Ex]]. apply Nat.eqb_eq in Ex. subst x. contradiction. }
  assert (Rf : snd R f = pZ).
  { rewrite IHc. replace (existsb (Nat.eqb f) qs) with false; [exact Hz|].
    symmetry. apply not_true_is_false. intros E. apply existsb_exists in E. destruct E as [x [Hx Ex]]. apply Nat.eqb_eq in Ex. subst x.
    apply Hf. right. exact Hx. }
  unfold app2. rewrite Rq, Rf. cbn [fst snd pI pZ]. rewrite tCX_IZ. cbn [fst snd]. split; [exact IHs|].
  intros k. destruct (Nat.eqb_spec k q) as [->|Hk]; cbn [orb].
  - rewrite updc_other by exact Hqf. now rewrite updc_same.
  - destruct (Nat.eqb_spec k f) as [->|Hkf].
    + rewrite updc_same. rewrite <- IHc. symmetry. exact Rf.
    + rewrite !updc_other by assumption. apply IHc.
Qed.

(* ---------- the buffers of one flushed block ---------- *)
Definition cont (a : acc) (k : nat) : pz := (ax a k, az a k).
Definition xs_of (a : acc) (sup : list nat) : list nat := filter (fun q => ax a q && negb (az a q)) sup.
Definition ys_of (a : acc) (sup : list nat) : list nat := filter (fun q => ax a q && az a q) sup.

Lemma buffer_terms_some a sup f b :
  buffer_terms a sup (Some f) b =
  {| h_xz := h_xz b ++ xs_of a sup; h_yz := h_yz b ++ ys_of a sup; cnot := cnot b ++ flat_map (fun q => [q; f]) sup;
     meas := meas b; merged := merged b |}.
Proof.
  revert b. induction sup as [|q sup IH]; intros b; cbn [buffer_terms xs_of ys_of filter flat_map].
  - rewrite !app_nil_r. now destruct b.
  - rewrite IH. unfold xs_of, ys_of. destruct (ax a q), (az a q); cbn [andb negb h_xz h_yz cnot meas merged];
      rewrite <- ?app_assoc; reflexivity.
Qed.
Lemma buffer_terms_none a q sup b :
  buffer_terms a (q :: sup) None b =
  {| h_xz := h_xz b ++ xs_of a (q :: sup); h_yz := h_yz b ++ ys_of a (q :: sup); cnot := cnot b ++ flat_map (fun q' => [q'; q]) sup;
     meas := meas b ++ [(q, asign a)]; merged := merged b |}.
Proof.
  cbn [buffer_terms]. rewrite buffer_terms_some. unfold xs_of, ys_of. cbn [filter].
  destruct (ax a q), (az a q); cbn [andb negb h_xz h_yz cnot meas merged]; rewrite <- ?app_assoc; reflexivity.
Qed.

(* a block: the products buffered since the last flush, each with its support (ascending, non-empty) *)
Definition with_merged (b : mbuf) (sup : list nat) : mbuf :=
  {| h_xz := h_xz b; h_yz := h_yz b; cnot := cnot b; meas := meas b; merged := merged b ++ sup |}.
Fixpoint buffer_all (gs : list (acc * list nat)) (b : mbuf) : mbuf :=
  match gs with
  | [] => b
  | (a, sup) :: r => buffer_all r (buffer_terms a sup None (with_merged b sup))
  end.
Definition fan (g : acc * list nat) : list nat := match snd g with [] => [] | f :: r => flat_map (fun q => [q; f]) r end.
Definition mtarget (g : acc * list nat) : list (nat * bool) := match snd g with [] => [] | f :: _ => [(f, asign (fst g))] end.

Lemma buffer_all_spec gs b : Forall (fun g => snd g <> []) gs ->
  let b' := buffer_all gs b in
  h_xz b' = h_xz b ++ flat_map (fun g => xs_of (fst g) (snd g)) gs /\
  h_yz b' = h_yz b ++ flat_map (fun g => ys_of (fst g) (snd g)) gs /\
  cnot b' = cnot b ++ flat_map fan gs /\
  meas b' = meas b ++ flat_map mtarget gs /\
  merged b' = merged b ++ flat_map snd gs.
Proof.
  revert b. induction gs as [|[a sup] gs IH]; intros b Hne; cbn [buffer_all flat_map].
  - rewrite !app_nil_r. repeat split; reflexivity.
  - inversion Hne as [|? ? Hs Hne']; subst. cbn [snd] in Hs. destruct sup as [|q sup]; [contradiction|].
    rewrite buffer_terms_none. cbn [h_xz h_yz cnot meas merged with_merged].
    match goal with |- context [buffer_all gs ?B] => destruct (IH B Hne') as (E1 & E2 & E3 & E4 & E5) end.
    cbn [h_xz h_yz cnot meas merged] in E1, E2, E3, E4, E5. cbn zeta.
    rewrite E1, E2, E3, E4, E5. unfold fan, mtarget. cbn [fst snd]. rewrite <- !app_assoc. repeat split; reflexivity.
Qed.

(* ---------- list facts ---------- *)
Lemma memb_In k l : existsb (Nat.eqb k) l = true <-> In k l.
Proof. rewrite existsb_exists. split; [intros [x [Hx E]]; apply Nat.eqb_eq in E; now subst | intros H; exists k; split; [exact H| apply Nat.eqb_refl]]. Qed.
Lemma memb_false k l : ~ In k l -> existsb (Nat.eqb k) l = false.
Proof. intros H. apply not_true_is_false. intros E. apply H, memb_In, E. Qed.
Lemma memb_true k l : In k l -> existsb (Nat.eqb k) l = true. Proof. apply memb_In. Qed.

Lemma NoDup_app_l {A} (l r : list A) : NoDup (l ++ r) -> NoDup l.
Proof. induction l as [|x l IH]; cbn; intros H; [constructor|]. inversion H; subst. constructor; [intros Hx; apply H2, in_or_app; now left| now apply IH]. Qed.
Lemma NoDup_app_r {A} (l r : list A) : NoDup (l ++ r) -> NoDup r.
Proof. induction l as [|x l IH]; cbn; intros H; [exact H|]. inversion H; subst. now apply IH. Qed.
Lemma NoDup_app_disj {A} (l r : list A) x : NoDup (l ++ r) -> In x l -> In x r -> False.
Proof. induction l as [|y l IH]; cbn; intros H Hl Hr; [contradiction|]. inversion H; subst. destruct Hl as [->|Hl]; [apply H2, in_or_app; now right| now apply IH]. Qed.

Definition fanp (g : acc * list nat) : list (nat * nat) := match snd g with [] => [] | f :: r => map (fun q => (q, f)) r end.
Lemma pairs_of_fans gs r : pairs_of (flat_map fan gs ++ r) = flat_map fanp gs ++ pairs_of r.
Proof.
  induction gs as [|g gs IH]; cbn [flat_map app]; [reflexivity|]. unfold fan at 1, fanp at 1.
  destruct (snd g) as [|f rest]; cbn [app]; [exact IH|]. rewrite <- app_assoc, pairs_of_flat, IH, app_assoc. reflexivity.
Qed.
Lemma fanp_in g a b : In (a, b) (fanp g) -> In a (snd g) /\ In b (snd g).
Proof. unfold fanp. destruct (snd g) as [|f r]; cbn; [contradiction|]. rewrite in_map_iff. intros [q [E Hq]]. injection E as <- <-. auto. Qed.
Lemma fanps_in gs a b : In (a, b) (flat_map fanp gs) -> In a (flat_map snd gs) /\ In b (flat_map snd gs).
Proof. rewrite in_flat_map. intros [g [Hg Hab]]. apply fanp_in in Hab. destruct Hab. split; apply in_flat_map; exists g; auto. Qed.

Lemma NoDup_app_intro {A} (l r : list A) : NoDup l -> NoDup r -> (forall x, In x l -> In x r -> False) -> NoDup (l ++ r).
Proof.
  induction l as [|x l IH]; cbn; intros Hl Hr Hd; [exact Hr|]. inversion Hl; subst. constructor.
  - intros Hx. apply in_app_or in Hx. destruct Hx as [Hx|Hx]; [contradiction| exact (Hd x (or_introl eq_refl) Hx)].
  - apply IH; [assumption|assumption|]. intros y Hy. apply Hd. now right.
Qed.

(* sub-selections of disjoint supports *)
Lemma sel_in (p : acc -> nat -> bool) gs k : In k (flat_map (fun g => filter (p (fst g)) (snd g)) gs) -> In k (flat_map snd gs).
Proof. rewrite !in_flat_map. intros [g [Hg Hk]]. exists g. split; [exact Hg|]. now apply filter_In in Hk. Qed.
Lemma sel_NoDup (p : acc -> nat -> bool) gs : NoDup (flat_map snd gs) -> NoDup (flat_map (fun g => filter (p (fst g)) (snd g)) gs).
Proof.
  induction gs as [|g gs IH]; cbn [flat_map]; intros H; [constructor|].
  pose proof (NoDup_app_l _ _ H) as Hl. pose proof (NoDup_app_r _ _ H) as Hr.
  apply NoDup_app_intro; [now apply NoDup_filter| now apply IH|].
  intros x Hx Hx'. apply filter_In in Hx. destruct Hx as [Hx _]. apply sel_in in Hx'. exact (NoDup_app_disj _ _ x H Hx Hx').
Qed.
(* with disjoint supports, a qubit of g's support is selected in the block iff it is selected in g *)
Lemma sel_mem (p : acc -> nat -> bool) before g after k :
  NoDup (flat_map snd (before ++ g :: after)) -> In k (snd g) ->
  (In k (flat_map (fun g' => filter (p (fst g')) (snd g')) (before ++ g :: after)) <-> p (fst g) k = true).
Proof.
  intros Hnd Hk. rewrite flat_map_app in Hnd. cbn [flat_map] in Hnd.
  rewrite flat_map_app. cbn [flat_map]. rewrite !in_app_iff, filter_In. split.
  - intros [H|[[_ H]|H]]; [exfalso| exact H| exfalso].
    + apply sel_in in H. apply (NoDup_app_disj _ _ k Hnd H). apply in_or_app. now left.
    + apply sel_in in H. apply NoDup_app_r in Hnd. exact (NoDup_app_disj _ _ k Hnd Hk H).
  - intros H. right. left. split; assumption.
Qed.

(* ---------- the block theorem ---------- *)
Definition wfg (g : acc * list nat) : Prop := snd g <> [] /\ forall q, In q (snd g) -> cont (fst g) q <> pI.
Definition Zat (f : nat) : sp := (false, fun k => if Nat.eqb k f then pZ else pI).
Definition in_sup (k : nat) (g : acc * list nat) : bool := existsb (Nat.eqb k) (snd g).

Theorem block_measures_products before g after f rest :
  let gs := before ++ g :: after in
  Forall wfg gs -> NoDup (flat_map snd gs) -> snd g = f :: rest ->
  let b := buffer_all gs mbuf0 in
  let R := pull (h_xz b) (h_yz b) (cnot b) (Zat f) in
  fst R = false /\ (forall k, snd R k = if in_sup k g then cont (fst g) k else pI) /\ In (f, asign (fst g)) (meas b).
Proof.
  intros gs Hwf Hnd Hg b R.
  assert (Hne : Forall (fun g0 => snd g0 <> []) gs) by (eapply Forall_impl; [|exact Hwf]; intros g0 [H _]; exact H).
  destruct (buffer_all_spec gs mbuf0 Hne) as (E1 & E2 & E3 & E4 & _). fold b in E1, E2, E3, E4. cbn [h_xz h_yz cnot meas mbuf0 app] in E1, E2, E3, E4.
  (* supports *)
  assert (Hndg : NoDup (snd g)).
  { unfold gs in Hnd. rewrite flat_map_app in Hnd. cbn [flat_map] in Hnd. apply NoDup_app_r in Hnd. now apply NoDup_app_l in Hnd. }
  assert (Hfg : In f (snd g)) by (rewrite Hg; now left).
  assert (Hbefore : forall q, In q (flat_map snd before) -> ~ In q (snd g)).
  { intros q Hq Hq'. unfold gs in Hnd. rewrite flat_map_app in Hnd. cbn [flat_map] in Hnd.
    apply (NoDup_app_disj _ _ q Hnd Hq). apply in_or_app. now left. }
  assert (Hafter : forall q, In q (flat_map snd after) -> ~ In q (snd g)).
  { intros q Hq Hq'. unfold gs in Hnd. rewrite flat_map_app in Hnd. cbn [flat_map] in Hnd. apply NoDup_app_r in Hnd.
    exact (NoDup_app_disj _ _ q Hnd Hq' Hq). }
  (* --- CX stage --- *)
  set (R3 := fold_right (app2 tCX) (Zat f) (pairs_of (cnot b))).
  assert (H3 : fst R3 = false /\ forall k, snd R3 k = if in_sup k g then pZ else pI).
  { unfold R3. rewrite E3. rewrite <- (app_nil_r (flat_map fan gs)), pairs_of_fans. cbn [pairs_of]. rewrite app_nil_r.
    unfold gs. rewrite flat_map_app. cbn [flat_map]. rewrite !fold_right_app.
    set (Ra := fold_right (app2 tCX) (Zat f) (flat_map fanp after)).
    assert (Ha : fst Ra = false /\ forall k, snd Ra k = snd (Zat f) k).
    { apply (cx_foreign (flat_map fanp after) (Zat f)). intros a0 b0 Hab. apply fanps_in in Hab. destruct Hab as [Ha0 Hb0].
      cbn [Zat snd]. split.
      - destruct (Nat.eqb_spec a0 f) as [->|]; [exfalso; exact (Hafter f Ha0 Hfg)|reflexivity].
      - destruct (Nat.eqb_spec b0 f) as [->|]; [exfalso; exact (Hafter f Hb0 Hfg)|reflexivity]. }
    destruct Ha as [Has Hac].
    set (Rg := fold_right (app2 tCX) Ra (fanp g)).
    assert (Hgg : fst Rg = fst Ra /\ forall k, snd Rg k = if existsb (Nat.eqb k) rest then pZ else snd Ra k).
    { unfold Rg, fanp. rewrite Hg. rewrite Hg in Hndg. inversion Hndg; subst. apply cx_fan; [assumption|assumption| |].
      - rewrite Hac. cbn. now rewrite Nat.eqb_refl.
      - intros q Hq. rewrite Hac. cbn. destruct (Nat.eqb_spec q f) as [->|]; [contradiction|reflexivity]. }
    destruct Hgg as [Hgs Hgc].
    assert (Hgc' : forall k, snd Rg k = if in_sup k g then pZ else pI).
    { intros k. rewrite Hgc, Hac. unfold in_sup. rewrite Hg. cbn [existsb Zat snd].
      destruct (Nat.eqb k f); cbn [orb]; [now destruct (existsb (Nat.eqb k) rest)|reflexivity]. }
    destruct (cx_foreign (flat_map fanp before) Rg) as [Hbs Hbc].
    { intros a0 b0 Hab. apply fanps_in in Hab. destruct Hab as [Ha0 Hb0]. rewrite !Hgc'. unfold in_sup.
      rewrite (memb_false a0 (snd g) (Hbefore a0 Ha0)), (memb_false b0 (snd g) (Hbefore b0 Hb0)). split; reflexivity. }
    split; [now rewrite Hbs, Hgs, Has|]. intros k. now rewrite Hbc, Hgc'. }
  destruct H3 as [H3s H3c].
  (* --- H_YZ stage --- *)
  set (R2 := fold_right (app1 tHYZ) R3 (h_yz b)).
  assert (H2 : fst R2 = false /\ forall k, snd R2 k = if in_sup k g then (if ax (fst g) k && az (fst g) k then pY else pZ) else pI).
  { destruct (layer1 tHYZ pY tHYZ_I tHYZ_Z (h_yz b) R3) as [Hs Hc].
    - rewrite E2. unfold ys_of. exact (sel_NoDup (fun a q => ax a q && az a q) gs Hnd).
    - intros q _. rewrite H3c. destruct (in_sup q g); [now right| now left].
    - fold R2 in Hs, Hc. split; [now rewrite Hs|]. intros k. rewrite Hc, H3c. destruct (in_sup k g) eqn:Hk.
      + cbn [snd pZ]. apply memb_In in Hk. rewrite E2.
        pose proof (sel_mem (fun a q => ax a q && az a q) before g after k Hnd Hk) as Hm. unfold ys_of. fold gs in Hm.
        destruct (ax (fst g) k && az (fst g) k) eqn:Ey.
        * rewrite (memb_true _ _ (proj2 Hm eq_refl)). reflexivity.
        * rewrite memb_false; [reflexivity|]. intros Hin. apply Hm in Hin. discriminate.
      + cbn [snd pI]. now destruct (existsb (Nat.eqb k) (h_yz b)). }
  destruct H2 as [H2s H2c].
  (* --- H stage --- *)
  assert (H1 : fst R = false /\ forall k, snd R k = if in_sup k g then cont (fst g) k else pI).
  { unfold R, pull. fold R3. fold R2.
    destruct (layer1 tH pX tH_I tH_Z (h_xz b) R2) as [Hs Hc].
    - rewrite E1. unfold xs_of. exact (sel_NoDup (fun a q => ax a q && negb (az a q)) gs Hnd).
    - intros q Hq. rewrite H2c. destruct (in_sup q g) eqn:Hk; [|now left].
      apply memb_In in Hk. rewrite E1 in Hq. unfold xs_of in Hq.
      apply (sel_mem (fun a q0 => ax a q0 && negb (az a q0)) before g after q Hnd Hk) in Hq.
      apply andb_true_iff in Hq. destruct Hq as [Hx Hz]. rewrite Hx. destruct (az (fst g) q); [discriminate| now right].
    - split; [now rewrite Hs|]. intros k. rewrite Hc, H2c. destruct (in_sup k g) eqn:Hk.
      + apply memb_In in Hk. rewrite E1.
        pose proof (sel_mem (fun a q => ax a q && negb (az a q)) before g after k Hnd Hk) as Hm. unfold xs_of. fold gs in Hm.
        assert (Hni : cont (fst g) k <> pI).
        { rewrite Forall_forall in Hwf. destruct (Hwf g) as [_ Hc']; [unfold gs; apply in_or_app; right; now left|]. now apply Hc'. }
        unfold cont in *. destruct (ax (fst g) k) eqn:Ex, (az (fst g) k) eqn:Ez; cbn [andb negb] in *.
        * rewrite memb_false; [reflexivity|]. intros Hin. apply Hm in Hin. discriminate.
        * rewrite (memb_true _ _ (proj2 Hm eq_refl)). reflexivity.
        * rewrite memb_false; [reflexivity|]. intros Hin. apply Hm in Hin. discriminate.
        * exfalso. apply Hni. reflexivity.
      + cbn [snd pI]. now destruct (existsb (Nat.eqb k) (h_xz b)). }
  destruct H1 as [H1s H1c]. split; [exact H1s|]. split; [exact H1c|].
  rewrite E4. unfold gs. rewrite flat_map_app. cbn [flat_map]. apply in_or_app. right. apply in_or_app. left.
  unfold mtarget. rewrite Hg. now left.
Qed.
Print Assumptions block_measures_products.

(* ---------- the whole instruction: blocks of pairwise disjoint products ---------- *)
Inductive item := Block (gs : list (acc * list nat)) | Pad (sign : bool).
Definition render_item (i : item) : list oinstr :=
  match i with
  | Block gs => flush (buffer_all gs mbuf0)
  | Pad s => [(GMPAD, [OQ (if s then 1 else 0) false])]
  end.
Definition render (l : list item) : list oinstr := flat_map render_item l.
Definition close (cur : list (acc * list nat)) : list item := match cur with [] => [] | _ => [Block cur] end.

(* the same walk as Mpp.mpp_go, keeping the buffered products instead of the buffers *)
Fixpoint mpp_spec (fuel n : nat) (ts : list mtgt) (cur : list (acc * list nat)) (out : list item) : option (list item) :=
  match ts with
  | [] => Some (out ++ close cur)
  | _ =>
    match fuel with
    | 0 => None
    | S fuel' =>
      let (g, rest) := split_group ts in
      match accumulate g acc0 [] false with
      | None => None
      | Some (a, _) =>
        if aimag a then None
        else
          let sup := active n a in
          match sup with
          | [] => mpp_spec fuel' n rest [] (out ++ close cur ++ [Pad (asign a)])
          | _ =>
            if overlaps sup (flat_map snd cur) then mpp_spec fuel' n rest [(a, sup)] (out ++ close cur)
            else mpp_spec fuel' n rest (cur ++ [(a, sup)]) out
          end
      end
    end
  end.

Lemma buffer_all_app gs1 gs2 b : buffer_all (gs1 ++ gs2) b = buffer_all gs2 (buffer_all gs1 b).
Proof. revert b; induction gs1 as [|[a s] gs1 IH]; intros b; cbn; [reflexivity| apply IH]. Qed.
Lemma flush_empty : flush mbuf0 = []. Proof. reflexivity. Qed.
Lemma render_close cur : Forall (fun g => snd g <> []) cur -> render (close cur) = flush (buffer_all cur mbuf0).
Proof. destruct cur as [|g cur]; intros H; [reflexivity|]. cbn [close render flat_map render_item]. now rewrite app_nil_r. Qed.
Lemma render_app a b : render (a ++ b) = render a ++ render b. Proof. apply flat_map_app. Qed.
Lemma merged_buffer_all cur : Forall (fun g => snd g <> []) cur -> merged (buffer_all cur mbuf0) = flat_map snd cur.
Proof. intros H. destruct (buffer_all_spec cur mbuf0 H) as (_ & _ & _ & _ & E). exact E. Qed.
Lemma with_merged_eta b sup :
  {| h_xz := h_xz b; h_yz := h_yz b; cnot := cnot b; meas := meas b; merged := merged b ++ sup |} = with_merged b sup.
Proof. reflexivity. Qed.

Theorem mpp_go_is_render_of_spec fuel n : forall ts cur out,
  Forall (fun g => snd g <> []) cur ->
  mpp_go fuel n ts (buffer_all cur mbuf0) (render out) = option_map render (mpp_spec fuel n ts cur out).
Proof.
  induction fuel as [|fuel IH]; intros ts cur out Hne.
  - destruct ts; cbn [mpp_go mpp_spec option_map]; [|reflexivity]. now rewrite render_app, render_close.
  - destruct ts as [|t ts']; [cbn [mpp_go mpp_spec option_map]; now rewrite render_app, render_close|].
    cbn [mpp_go mpp_spec]. destruct (split_group (t :: ts')) as [g rest].
    destruct (accumulate g acc0 [] false) as [[a bits]|]; [|reflexivity].
    destruct (aimag a); [reflexivity|].
    destruct (active n a) as [|q sup'] eqn:Es.
    + rewrite <- (IH rest [] (out ++ close cur ++ [Pad (asign a)]) (Forall_nil _)).
      cbn [buffer_all]. f_equal. rewrite !render_app, render_close by exact Hne. cbn [render flat_map render_item]. now rewrite app_nil_r.
    + rewrite merged_buffer_all by exact Hne.
      destruct (overlaps (q :: sup') (flat_map snd cur)).
      * rewrite <- (IH rest [(a, q :: sup')] (out ++ close cur)); [|constructor; [discriminate|constructor]].
        cbn [buffer_all]. rewrite render_app, render_close by exact Hne. rewrite with_merged_eta. reflexivity.
      * rewrite <- (IH rest (cur ++ [(a, q :: sup')]) out); [|apply Forall_app; split; [exact Hne| constructor; [discriminate|constructor]]].
        rewrite buffer_all_app. cbn [buffer_all]. rewrite with_merged_eta. reflexivity.
Qed.

Corollary decompose_mpp_is_render n ts :
  decompose_mpp n ts = option_map render (mpp_spec (S (List.length ts)) n ts [] []).
Proof. unfold decompose_mpp. exact (mpp_go_is_render_of_spec (S (List.length ts)) n ts [] [] (Forall_nil _)). Qed.

(* invariants of the walk: every block holds well-formed products with pairwise disjoint supports ... *)
Definition good_block (gs : list (acc * list nat)) : Prop := Forall wfg gs /\ NoDup (flat_map snd gs).
Definition good_item (i : item) : Prop := match i with Block gs => good_block gs | Pad _ => True end.

Lemma active_NoDup n a : NoDup (active n a).
Proof. unfold active. apply NoDup_filter, seq_NoDup. Qed.
Lemma active_wfg n a : active n a <> [] -> wfg (a, active n a).
Proof.
  intros H. split; [exact H|]. cbn [fst snd]. intros q Hq. unfold active in Hq. apply filter_In in Hq. destruct Hq as [_ Hq].
  unfold cont, pI. intros E. injection E as Ex Ez. rewrite Ex, Ez in Hq. discriminate.
Qed.
Lemma overlaps_false sup m : overlaps sup m = false -> forall q, In q sup -> In q m -> False.
Proof.
  unfold overlaps, memq. intros H q Hs Hm. assert (E : existsb (fun q0 => existsb (Nat.eqb q0) m) sup = true).
  { apply existsb_exists. exists q. split; [exact Hs| now apply memb_true]. }
  rewrite E in H. discriminate.
Qed.
Lemma close_good cur : good_block cur -> Forall good_item (close cur).
Proof. destruct cur; intros H; cbn [close]; constructor; [exact H|constructor]. Qed.

Theorem mpp_spec_blocks_good fuel n : forall ts cur out items,
  good_block cur -> Forall good_item out -> mpp_spec fuel n ts cur out = Some items -> Forall good_item items.
Proof.
  induction fuel as [|fuel IH]; intros ts cur out items Hc Ho H.
  - destruct ts; cbn [mpp_spec] in H; [|discriminate]. injection H as <-. apply Forall_app. split; [exact Ho| now apply close_good].
  - destruct ts as [|t ts']; [cbn [mpp_spec] in H; injection H as <-; apply Forall_app; split; [exact Ho| now apply close_good]|].
    cbn [mpp_spec] in H. destruct (split_group (t :: ts')) as [g rest].
    destruct (accumulate g acc0 [] false) as [[a bits]|]; [|discriminate].
    destruct (aimag a); [discriminate|].
    destruct (active n a) as [|q sup'] eqn:Es.
    + apply (IH _ _ _ _ (conj (Forall_nil _) (NoDup_nil _))) in H; [exact H|].
      apply Forall_app. split; [exact Ho|]. apply Forall_app. split; [now apply close_good| constructor; [exact I|constructor]].
    + assert (Hw : wfg (a, q :: sup')) by (rewrite <- Es; apply active_wfg; rewrite Es; discriminate).
      assert (Hn : NoDup (q :: sup')) by (rewrite <- Es; apply active_NoDup).
      destruct (overlaps (q :: sup') (flat_map snd cur)) eqn:Eo.
      * apply IH in H; [exact H| |apply Forall_app; split; [exact Ho| now apply close_good]].
        split; [constructor; [exact Hw|constructor]|]. cbn [flat_map snd]. now rewrite app_nil_r.
      * apply IH in H; [exact H| |exact Ho]. destruct Hc as [Hcw Hcn]. split.
        -- apply Forall_app. split; [exact Hcw| constructor; [exact Hw|constructor]].
        -- rewrite flat_map_app. cbn [flat_map snd]. rewrite app_nil_r. apply NoDup_app_intro; [exact Hcn|exact Hn|].
           intros x Hx Hx'. exact (overlaps_false _ _ Eo x Hx' Hx).
Qed.

(* ... and the products appear exactly once, in the order of the instruction: identity products as MPAD with their sign, the others
   inside blocks *)
Fixpoint products (fuel : nat) (ts : list mtgt) : option (list acc) :=
  match ts with
  | [] => Some []
  | _ =>
    match fuel with
    | 0 => None
    | S fuel' =>
      let (g, rest) := split_group ts in
      match accumulate g acc0 [] false with
      | None => None
      | Some (a, _) => if aimag a then None else option_map (cons a) (products fuel' rest)
      end
    end
  end.
Definition entry := (acc * list nat + bool)%type.
Definition entries (i : item) : list entry := match i with Block gs => map inl gs | Pad s => [inr s] end.
Definition entry_of (n : nat) (a : acc) : entry := match active n a with [] => inr (asign a) | sup => inl (a, sup) end.
Lemma entries_close cur : flat_map entries (close cur) = map inl cur.
Proof. destruct cur; cbn; [reflexivity| now rewrite app_nil_r]. Qed.

Theorem mpp_spec_products_in_order fuel n : forall ts cur out items,
  mpp_spec fuel n ts cur out = Some items ->
  exists accs, products fuel ts = Some accs /\
    flat_map entries items = flat_map entries out ++ map inl cur ++ map (entry_of n) accs.
Proof.
  induction fuel as [|fuel IH]; intros ts cur out items H.
  - destruct ts; cbn [mpp_spec] in H; [|discriminate]. injection H as <-. exists []. split; [reflexivity|].
    rewrite flat_map_app, entries_close. cbn [map]. now rewrite app_nil_r.
  - destruct ts as [|t ts'].
    { cbn [mpp_spec] in H. injection H as <-. exists []. split; [reflexivity|]. rewrite flat_map_app, entries_close. cbn [map]. now rewrite app_nil_r. }
    cbn [mpp_spec products] in *. destruct (split_group (t :: ts')) as [g rest].
    destruct (accumulate g acc0 [] false) as [[a bits]|]; [|discriminate].
    destruct (aimag a); [discriminate|].
    destruct (active n a) as [|q sup'] eqn:Es.
    + apply IH in H. destruct H as (accs & Hp & He). exists (a :: accs). rewrite Hp. split; [reflexivity|].
      rewrite He. rewrite !flat_map_app, entries_close. cbn [flat_map entries map app]. unfold entry_of at 2. rewrite Es.
      rewrite <- !app_assoc. reflexivity.
    + destruct (overlaps (q :: sup') (flat_map snd cur)).
      * apply IH in H. destruct H as (accs & Hp & He). exists (a :: accs). rewrite Hp. split; [reflexivity|].
        rewrite He. rewrite flat_map_app, entries_close. cbn [map app]. unfold entry_of at 2. rewrite Es. rewrite <- !app_assoc. reflexivity.
      * apply IH in H. destruct H as (accs & Hp & He). exists (a :: accs). rewrite Hp. split; [reflexivity|].
        rewrite He. rewrite map_app. cbn [map app]. unfold entry_of at 2. rewrite Es. rewrite <- !app_assoc. reflexivity.
Qed.
Print Assumptions mpp_go_is_render_of_spec. Print Assumptions mpp_spec_blocks_good. Print Assumptions mpp_spec_products_in_order.

(* ---------- decompose_pair_instruction_into_disjoint_segments ---------- *)
Definition qubits (seg : list (nat * nat)) : list nat := flat_map (fun p => [fst p; snd p]) seg.
Lemma qubits_app a b : qubits (a ++ b) = qubits a ++ qubits b. Proof. apply flat_map_app. Qed.

Theorem pair_segs_concat ps : forall used cur, List.concat (pair_segs ps used cur) = rev cur ++ ps.
Proof.
  induction ps as [|[a b] ps IH]; intros used cur; cbn [pair_segs].
  - destruct cur; cbn [List.concat]; [reflexivity|]. now rewrite !app_nil_r.
  - destruct (memq a used || memq b used); [cbn [List.concat]; rewrite IH; reflexivity|].
    rewrite IH. cbn [rev]. now rewrite <- app_assoc.
Qed.
Corollary pair_segments_concat ps : List.concat (pair_segments ps) = ps.
Proof. unfold pair_segments. now rewrite pair_segs_concat. Qed.

Theorem pair_segs_disjoint ps : Forall (fun p => fst p <> snd p) ps -> forall used cur,
  (forall q, In q used <-> In q (qubits (rev cur))) -> NoDup (qubits (rev cur)) ->
  Forall (fun seg => NoDup (qubits seg)) (pair_segs ps used cur).
Proof.
  induction 1 as [|[a b] ps Hab Hps IH]; intros used cur Hu Hn; cbn [pair_segs].
  - destruct cur; constructor; [exact Hn|constructor].
  - cbn [fst snd] in Hab.
    assert (Hpair : NoDup [a; b]) by (constructor; [intros [E|[]]; now apply Hab|constructor; [intros []|constructor]]).
    destruct (memq a used || memq b used) eqn:E.
    + constructor; [exact Hn|]. apply IH; cbn [rev app qubits flat_map fst snd]; [|exact Hpair].
      intros q. cbn. tauto.
    + apply orb_false_iff in E. destruct E as [Ea Eb]. unfold memq in Ea, Eb.
      apply IH; cbn [rev]; rewrite qubits_app; cbn [qubits flat_map fst snd app].
      * intros q. rewrite in_app_iff. cbn [In]. rewrite <- Hu. tauto.
      * apply NoDup_app_intro; [exact Hn|exact Hpair|]. intros x Hx [<-|[<-|[]]]; apply Hu in Hx.
        -- apply memb_true in Hx. rewrite Hx in Ea. discriminate.
        -- apply memb_true in Hx. rewrite Hx in Eb. discriminate.
Qed.
Corollary pair_segments_disjoint ps : Forall (fun p => fst p <> snd p) ps -> Forall (fun seg => NoDup (qubits seg)) (pair_segments ps).
Proof. intros H. apply pair_segs_disjoint; [exact H| intros q; cbn; tauto| constructor]. Qed.

(* ---------- for_each_disjoint_target_segment_in_instruction_reversed ---------- *)
Definition qvals (seg : list (option nat)) : list nat := flat_map (fun t => match t with Some q => [q] | None => [] end) seg.
Theorem rev_segs_concat rts : forall used cur, List.concat (rev (rev_segs rts used cur)) = rev rts ++ cur.
Proof.
  induction rts as [|t rts IH]; intros used cur; cbn [rev_segs].
  - destruct cur; cbn; [reflexivity| now rewrite app_nil_r].
  - destruct t as [q|].
    + destruct (memq q used).
      * cbn [rev]. rewrite concat_app, IH. cbn [List.concat rev]. rewrite app_nil_r, <- app_assoc. reflexivity.
      * rewrite IH. cbn [rev]. now rewrite <- app_assoc.
    + rewrite IH. cbn [rev]. now rewrite <- app_assoc.
Qed.
(* the callback sees the segments last-to-first; read in instruction order they concatenate to the target list *)
Corollary rev_segments_concat ts : List.concat (rev (rev_segments ts)) = ts.
Proof. unfold rev_segments. rewrite rev_segs_concat, rev_involutive. apply app_nil_r. Qed.

Theorem rev_segs_disjoint rts : forall used cur,
  (forall q, In q used <-> In q (qvals cur)) -> NoDup (qvals cur) -> Forall (fun seg => NoDup (qvals seg)) (rev_segs rts used cur).
Proof.
  induction rts as [|t rts IH]; intros used cur Hu Hn; cbn [rev_segs].
  - destruct cur; constructor; [exact Hn|constructor].
  - destruct t as [q|].
    + destruct (memq q used) eqn:E.
      * constructor; [exact Hn|]. apply IH; cbn [qvals flat_map app]; [intros x; cbn; tauto| constructor; [intros []|constructor]].
      * apply IH; cbn [qvals flat_map app].
        -- intros x. cbn [In]. rewrite Hu. reflexivity.
        -- constructor; [|exact Hn]. intros Hq. apply Hu in Hq. unfold memq in E. apply memb_true in Hq. rewrite Hq in E. discriminate.
    + apply IH; cbn [qvals flat_map app]; assumption.
Qed.
Corollary rev_segments_disjoint ts : Forall (fun seg => NoDup (qvals seg)) (rev_segments ts).
Proof. apply rev_segs_disjoint; [intros q; cbn; tauto| constructor]. Qed.
Print Assumptions pair_segments_concat. Print Assumptions pair_segments_disjoint.
Print Assumptions rev_segments_concat. Print Assumptions rev_segments_disjoint.

(* ---------- SPP / SPP_DAG: one product at a time, the same basis change around S or S_DAG on the first qubit ---------- *)
Lemma spp_terms_some a sup f hx hy cn :
  spp_terms a sup (Some f) hx hy cn = (Some f, hx ++ xs_of a sup, hy ++ ys_of a sup, cn ++ flat_map (fun q => [q; f]) sup).
Proof.
  revert hx hy cn. induction sup as [|q sup IH]; intros hx hy cn; cbn [spp_terms xs_of ys_of filter flat_map].
  - now rewrite !app_nil_r.
  - rewrite IH. unfold xs_of, ys_of. destruct (ax a q), (az a q); cbn [andb negb]; rewrite <- ?app_assoc; reflexivity.
Qed.
Lemma spp_terms_none a q sup :
  spp_terms a (q :: sup) None [] [] [] = (Some q, xs_of a (q :: sup), ys_of a (q :: sup), flat_map (fun q' => [q'; q]) sup).
Proof.
  cbn [spp_terms]. rewrite spp_terms_some. unfold xs_of, ys_of. cbn [filter].
  destruct (ax a q), (az a q); cbn [andb negb app]; reflexivity.
Qed.

(* the gates around S / S_DAG in spp_one are those of a one-product block, so block_measures_products (with no neighbours) says that
   the Z of S's target pulls back to the product: the emitted sequence is sqrt(+-P), the sign choosing S or S_DAG *)
Theorem spp_one_pulls_back_to_product n a q sup' :
  active n a = q :: sup' ->
  exists hx hy cn, spp_terms a (active n a) None [] [] [] = (Some q, hx, hy, cn) /\
  let R := pull hx hy cn (Zat q) in
  fst R = false /\ forall k, snd R k = if existsb (Nat.eqb k) (active n a) then cont a k else pI.
Proof.
  intros Es. rewrite Es, spp_terms_none. eexists; eexists; eexists. split; [reflexivity|].
  assert (Hw : wfg (a, q :: sup')) by (rewrite <- Es; apply active_wfg; rewrite Es; discriminate).
  assert (Hn : NoDup (q :: sup')) by (rewrite <- Es; apply active_NoDup).
  pose proof (block_measures_products [] (a, q :: sup') [] q sup') as B. cbn zeta in B.
  specialize (B (Forall_cons _ Hw (Forall_nil _))). cbn [app flat_map snd] in B. rewrite app_nil_r in B.
  specialize (B Hn eq_refl). cbn [buffer_all] in B. rewrite buffer_terms_none in B.
  cbn [h_xz h_yz cnot meas merged with_merged mbuf0 app fst snd] in B. destruct B as (Bs & Bc & _).
  split; [exact Bs|]. intros k. rewrite Bc. unfold in_sup. cbn [snd fst]. reflexivity.
Qed.
Print Assumptions spp_one_pulls_back_to_product.
