(* Every unitary gate of the generated gate table, paired with the table action of its inverse gate, satisfies the local adjoint
   law of AdjGen; hence backward tracking with inverse-gate actions is adjoint to forward error propagation for circuits over
   the whole gate set (unitaries, single-qubit Pauli measurements, resets). *)
From Coq Require Import List Bool Arith String ZArith.
Import ListNotations.
Require Import Stab Act Gen_GateTable AdjGen.

Definition uf1 (e : entry) : pz -> pz :=
  fun p => let '(x, z, _) := local1 (flows_of e) (fst p) (snd p) false in (x, z).
Definition uf2 (e : entry) : pz -> pz -> pz * pz :=
  fun p q => let '(a, b, c, d, _) := local2 (flows_of e) (fst p) (snd p) (fst q) (snd q) false in ((a, b), (c, d)).
Definition all_pz : list pz := [(false,false); (false,true); (true,false); (true,true)].
Lemma in_all_pz p : In p all_pz. Proof. destruct p as [[] []]; cbn; tauto. Qed.
Definition adj1_b (f g : pz -> pz) : bool :=
  forallb (fun s => forallb (fun e => Bool.eqb (omega (g s) e) (omega s (f e))) all_pz) all_pz.
Definition adj2_b (f g : pz -> pz -> pz * pz) : bool :=
  forallb (fun s1 => forallb (fun s2 => forallb (fun e1 => forallb (fun e2 =>
    Bool.eqb (xorb (omega (fst (g s1 s2)) e1) (omega (snd (g s1 s2)) e2))
             (xorb (omega s1 (fst (f e1 e2))) (omega s2 (snd (f e1 e2))))) all_pz) all_pz) all_pz) all_pz.
Lemma adj1_b_sound f g : adj1_b f g = true -> adj1 f g.
Proof. unfold adj1_b, adj1. intros H s e. rewrite forallb_forall in H. specialize (H s (in_all_pz s)).
  rewrite forallb_forall in H. apply eqb_prop, H, in_all_pz. Qed.
Lemma adj2_b_sound f g : adj2_b f g = true -> adj2 f g.
Proof. unfold adj2_b, adj2. intros H s1 s2 e1 e2.
  rewrite forallb_forall in H. specialize (H s1 (in_all_pz s1)).
  rewrite forallb_forall in H. specialize (H s2 (in_all_pz s2)).
  rewrite forallb_forall in H. specialize (H e1 (in_all_pz e1)).
  rewrite forallb_forall in H. apply eqb_prop, H, in_all_pz. Qed.

Definition gate_adj_ok (e : entry) : bool :=
  (negb (unitary1 e) || adj1_b (uf1 e) (uf1 (inverse_of e))) && (negb (unitary2 e) || adj2_b (uf2 e) (uf2 (inverse_of e))).
Definition table_adj_ok : bool := forallb gate_adj_ok gate_table.
Theorem table_adjoint : table_adj_ok = true.
Proof. vm_compute. reflexivity. Qed.
Theorem table_gate_adj1 e : In e gate_table -> unitary1 e = true -> adj1 (uf1 e) (uf1 (inverse_of e)).
Proof. intros Hin Hu. pose proof table_adjoint as A. unfold table_adj_ok in A. rewrite forallb_forall in A.
  specialize (A e Hin). unfold gate_adj_ok in A. rewrite Hu in A. cbn [negb orb] in A.
  apply andb_true_iff in A as [A _]. apply adj1_b_sound, A. Qed.
Theorem table_gate_adj2 e : In e gate_table -> unitary2 e = true -> adj2 (uf2 e) (uf2 (inverse_of e)).
Proof. intros Hin Hu. pose proof table_adjoint as A. unfold table_adj_ok in A. rewrite forallb_forall in A.
  specialize (A e Hin). unfold gate_adj_ok in A. rewrite Hu in A. cbn [negb orb] in A.
  apply andb_true_iff in A as [_ A]. apply adj2_b_sound, A. Qed.

(* circuits over table gates *)
Inductive tgop := TU1 (e : entry) (q : nat) | TU2 (e : entry) (a t : nat) | TM (b : pz) (q : nat) | TR (q : nat).
Definition compile (o : tgop) : gop :=
  match o with
  | TU1 e q => G1 (uf1 e) (uf1 (inverse_of e)) q
  | TU2 e a t => G2 (uf2 e) (uf2 (inverse_of e)) a t
  | TM b q => GM b q
  | TR q => GR q
  end.
Definition tok (n : nat) (o : tgop) : Prop :=
  match o with
  | TU1 e q => In e gate_table /\ unitary1 e = true /\ q < n
  | TU2 e a t => In e gate_table /\ unitary2 e = true /\ a < n /\ t < n /\ a <> t
  | TM _ q | TR q => q < n
  end.
Theorem adjoint_table_circuits n (c : list tgop) : Forall (tok n) c -> forall (D : det) (F : st),
  parity_at D 0 (frun (map compile c) F) = pair_upto n (back (map compile c) D) F.
Proof.
  intros H. apply adjoint_all_gates. induction H as [|o c Ho _ IH]; cbn [map]; constructor; [|exact IH].
  destruct o as [e q|e a t|b q|q]; cbn [compile ok tok] in *.
  - destruct Ho as (Hin & Hu & Hq). split; [exact Hq|]. apply table_gate_adj1; assumption.
  - destruct Ho as (Hin & Hu & Ha & Ht & Hne). repeat split; try assumption. apply table_gate_adj2; assumption.
  - exact Ho.
  - exact Ho.
Qed.
