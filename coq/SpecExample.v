(* The whole chain on one circuit: the legal records of the Bell-pair circuit H 0; CX 0 1; M 0; M 1, as decided by Spec.srun, are
   exactly 00 and 11 (SpecLink.srun_sound / srun_complete instantiated; every hypothesis discharged). *)
From Coq Require Import List Bool NArith String ZArith Lia.
Import ListNotations.
Require Import Stab Act Spec SpecSem SpecLink.
Definition bell : list Spec.sinstr :=
  [Spec.SU1 (Act.e_id (Act.gate_named "H"%string)) 0; Spec.SU2 (Act.e_id (Act.gate_named "CX"%string)) 0 1;
   Spec.SMeas [(0, (false, true))] false; Spec.SMeas [(1, (false, true))] false].
Example bell_forms : Spec.recs (Spec.srun 2 0 bell) = [(false, 1%N); (false, 1%N)] /\
  exists ops v', SpecLink.compile 2 [] bell = Some (ops, v') /\ v' = [Some (false, []); Some (false, [])] /\ List.length ops = 4.
Proof. split; [vm_compute; reflexivity|]. vm_compute. eexists; eexists. repeat split. Qed.
Lemma gate_id_in i e : find (fun e => Z.eqb (Act.e_id e) i) Gen_GateTable.gate_table = Some e -> In (Act.gate_id i) Gen_GateTable.gate_table.
Proof. intros H. unfold Act.gate_id. rewrite H. apply (find_some _ _ H). Qed.
Example bell_ops_ok : forall ops v', SpecLink.compile 2 [] bell = Some (ops, v') -> Forall (SpecSem.sop_ok 2) ops.
Proof.
  intros ops v' H. cbn [SpecLink.compile SpecLink.compile1 bell] in H.
  assert (E1 : Stab.is_identity (snd (Spec.herm_of 2 [(0, (false, true))])) = false) by (vm_compute; reflexivity).
  assert (E2 : Stab.is_identity (snd (Spec.herm_of 2 [(1, (false, true))])) = false) by (vm_compute; reflexivity).
  rewrite E1, E2 in H. cbn [app] in H. injection H as <- _.
  constructor; [cbn [SpecSem.sop_ok]; split; [lia|]; split; [eapply gate_id_in; vm_compute; reflexivity| vm_compute; reflexivity]|].
  constructor; [cbn [SpecSem.sop_ok]; split; [lia|]; split; [lia|]; split; [lia|]; split; [eapply gate_id_in; vm_compute; reflexivity| vm_compute; reflexivity]|].
  constructor; [cbn [SpecSem.sop_ok]; vm_compute; reflexivity|].
  constructor; [cbn [SpecSem.sop_ok]; vm_compute; reflexivity| constructor].
Qed.

Require Import Pauli Collapse Sem Run FrameProg SpecProofs SpecComplete GF2.
(* the legal records of the Bell-pair circuit are exactly 00 and 11 *)
Theorem bell_legal_records ops v' : SpecLink.compile 2 [] bell = Some (ops, v') ->
  (forall la S', FrameProg.realize (fun _ => false) [] (map SpecSem.tr ops) la -> Run.sem_run (fun P => Zplus P) la S' ->
     exists b : bool, rev (SpecLink.projb (fun _ => false) v' (fold_left SpecSem.push la [])) = [b; b]) /\
  (forall b : bool, exists ext l S', FrameProg.realize ext [] (map SpecSem.tr ops) l /\ Run.sem_run (fun P => Zplus P) l S' /\
     rev (SpecLink.projb (fun _ => false) v' (fold_left SpecSem.push l [])) = [b; b]).
Proof.
  intros Hc. pose proof (bell_ops_ok ops v' Hc) as Hok. destruct bell_forms as [Ef (ops0 & v0 & Hc0 & Ev & _)].
  assert (Hnv : SpecLink.novars v') by (rewrite Hc0 in Hc; injection Hc as _ <-; rewrite Ev; cbn; tauto). split.
  - intros la S' Hre Hrun.
    assert (Hv : SpecComplete.vars_below 0 ops).
    { revert Hc. cbn [SpecLink.compile SpecLink.compile1 bell].
      assert (E1 : Stab.is_identity (snd (Spec.herm_of 2 [(0, (false, true))])) = false) by (vm_compute; reflexivity).
      assert (E2 : Stab.is_identity (snd (Spec.herm_of 2 [(1, (false, true))])) = false) by (vm_compute; reflexivity).
      rewrite E1, E2. cbn [app]. intros H. injection H as <- _. cbn. exact Logic.I. }
    destruct (SpecLink.srun_complete 2 0 (fun _ => false) bell ops v' la S' Hc Hok Hv Hre Hrun) as (m & k & _ & _ & E).
    rewrite Ef in E. exists (SpecProofs.eval_form m k (false, 1%N)). rewrite (SpecLink.projb_novars _ (fun x => SpecProofs.eval_form m k (SpecSem.varf x)) v' Hnv). exact E.
  - intros b. destruct (SpecLink.srun_sound 2 0 bell ops v' 1 [b] Hc Hok) as (l & S' & Hre & Hrun & E).
    eexists; exists l, S'. split; [exact Hre|]. split; [exact Hrun|]. rewrite (SpecLink.projb_novars _ (fun x => SpecProofs.eval_form 1 [b] (SpecSem.varf x)) v' Hnv), E, Ef. destruct b; vm_compute; reflexivity.
Qed.
Print Assumptions bell_legal_records.
