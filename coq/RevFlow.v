(* Unsigned stabilizer flows on adaptive programs (C13 / C14: what time reversal and the flow-generator solver track).
   Start the backward pass from an observable Send at the END of the program (RevProg starts from the identity): then, for every
   frame, earlier flips and randomisation,
       [F_end, Send]  xor  parity of the flagged measurement flips  =  [F, S0]  xor  pending toggles . earlier flips  xor  external Paulis,
   where S0 is the pulled-back observable at the start: a Pauli error before the program changes "Send times the flagged results"
   exactly when it anticommutes with S0 - the unsigned flow  S0 -> Send xor rec[flags]. *)
From Coq Require Import List Bool Arith Lia.
Import ListNotations.
Require Import Pauli Collapse Sem Refine ApProps Run FrameRun FrameComplete FrameProg RevTrack RevProg.

Section RevFlow.
  Variable n : nat.
  Notation wf := (Refine.wf n).
  Notation good := (Run.good n).
  Notation Idn := (Run.Idn n).
  Variables extr exta : nat -> bool.
  Variable Send : pauli.            (* the observable asked about at the end of the program *)
  Hypothesis Send_wf : wf Send.

  Notation toggle := RevProg.toggle.
  Notation ptl := RevProg.ptl.
  Notation dotp := RevProg.dotp.
  Notation dotp_toggle := RevProg.dotp_toggle.
  Notation dotp_false := RevProg.dotp_false.
  Notation dx := (RevProg.dx extr exta).

  (* backward pass: sensitivity and pending flag toggles at the start of prog *)
  Fixpoint btf (prog : list pop) (d : list bool) : pauli * (nat -> bool) :=
    match prog with
    | [] => (Send, fun _ => false)
    | PU C Ci :: p => let (S, pend) := btf p (tl d) in (Ci S, pend)
    | PM M :: p => let (S, pend) := btf p (tl d) in
                   ((if xorb (hd false d) (pend 0) then pmul M S else S), ptl pend)
    | PF P (CRec k) :: p => let (S, pend) := btf p (tl d) in (S, if acom P S then toggle k pend else pend)
    | PF P (CExt j) :: p => btf p (tl d)
    end.
  (* contribution of the externally controlled Paulis *)
  Fixpoint ext_parf (prog : list pop) (d : list bool) : bool :=
    match prog with
    | [] => false
    | PF P (CExt j) :: p => xorb (andb (dx j) (acom P (fst (btf p (tl d))))) (ext_parf p (tl d))
    | _ :: p => ext_parf p (tl d)
    end.
  (* the tracker's check at measurements *)
  Fixpoint gauge_okf (prog : list pop) (d : list bool) : Prop :=
    match prog with
    | [] => True
    | PM M :: p => acom M (fst (btf p (tl d))) = false /\ gauge_okf p (tl d)
    | _ :: p => gauge_okf p (tl d)
    end.
  (* forward: parity of the detector's flips in the frame sampler; fl = flips of the measurements so far, most recent first *)
  Fixpoint fparf (F : pauli) (fl : list bool) (zs : list bool) (prog : list pop) (d : list bool) : bool :=
    match prog with
    | [] => acom F Send
    | PU C _ :: p => fparf (C F) fl (tl zs) p (tl d)
    | PM M :: p => let f := acom F M in
                   xorb (andb (hd false d) f) (fparf (if hd false zs then pmul F M else F) (f :: fl) (tl zs) p (tl d))
    | PF P (CRec k) :: p => fparf (if nth k fl false then pmul F P else F) fl (tl zs) p (tl d)
    | PF P (CExt j) :: p => fparf (if dx j then pmul F P else F) fl (tl zs) p (tl d)
    end.

  Lemma btf_wf prog : forall d, Forall (okp n) prog -> wf (fst (btf prog d)).
  Proof.
    induction prog as [|o p IH]; intros d Hok; cbn [btf]; [exact Send_wf|].
    inversion Hok as [|? ? Ho Hok']; subst. specialize (IH (tl d) Hok').
    destruct o as [C Ci|M|P [k|j]]; cbn [okp] in Ho; destruct (btf p (tl d)) as [S pend]; cbn [fst] in *.
    - apply (g_len _ _ _ (proj2 Ho)), IH.
    - destruct (xorb _ _); [apply wf_pmul; [apply Ho| exact IH]| exact IH].
    - exact IH.
    - exact IH.
  Qed.

  Theorem flow_closed_form prog : forall F fl zs d, Forall (okp n) prog -> wf F -> gauge_okf prog d ->
    fparf F fl zs prog d = xorb (xorb (acom F (fst (btf prog d))) (dotp (snd (btf prog d)) fl)) (ext_parf prog d).
  Proof.
    induction prog as [|o p IH]; intros F fl zs d Hok HF Hg; cbn [fparf btf ext_parf].
    - cbn [fst snd]. rewrite dotp_false. now rewrite !xorb_false_r.
    - inversion Hok as [|? ? Ho Hok']; subst. pose proof (btf_wf p (tl d) Hok') as WS.
      destruct o as [C Ci|M|P [k|j]]; cbn [okp gauge_okf] in *.
      + rewrite (IH (C F) fl (tl zs) (tl d) Hok' (g_len _ _ _ (proj1 Ho) F HF) Hg).
        destruct (btf p (tl d)) as [S pend]. cbn [fst snd] in *.
        rewrite <- (good_acom n Ci C (C F) S (proj2 Ho) (g_len _ _ _ (proj1 Ho) F HF) WS).
        now rewrite (g_GF _ _ _ (proj1 Ho)) by exact HF.
      + destruct Hg as [Hc Hg]. destruct Ho as [WM HH].
        assert (W1 : wf (if hd false zs then pmul F M else F)) by (destruct (hd false zs); [apply wf_pmul; assumption| exact HF]).
        rewrite (IH _ (acom F M :: fl) (tl zs) (tl d) Hok' W1 Hg).
        destruct (btf p (tl d)) as [S pend]. cbn [fst snd dotp] in *.
        assert (E1 : acom (if hd false zs then pmul F M else F) S = acom F S).
        { destruct (hd false zs); [|reflexivity]. rewrite (acom_pmul_l n F M S HF WM WS), Hc. apply xorb_false_r. }
        rewrite E1.
        assert (E2 : acom F (if xorb (hd false d) (pend 0) then pmul M S else S) = xorb (andb (xorb (hd false d) (pend 0)) (acom F M)) (acom F S)).
        { destruct (xorb (hd false d) (pend 0)); cbn [andb]; [|now rewrite xorb_false_l].
          apply acom_pmul_r; unfold Refine.wf, pauli, bits in *; lia. }
        rewrite E2.
        destruct (hd false d), (pend 0), (acom F M), (acom F S), (dotp (ptl pend) fl), (ext_parf p (tl d)); reflexivity.
      + assert (W1 : wf (if nth k fl false then pmul F P else F)) by (destruct (nth k fl false); [apply wf_pmul; assumption| exact HF]).
        rewrite (IH _ fl (tl zs) (tl d) Hok' W1 Hg).
        destruct (btf p (tl d)) as [S pend]. cbn [fst snd] in *.
        assert (E1 : acom (if nth k fl false then pmul F P else F) S = xorb (acom F S) (andb (nth k fl false) (acom P S))).
        { destruct (nth k fl false); cbn [andb]; [apply (acom_pmul_l n F P S HF Ho WS)| now rewrite xorb_false_r]. }
        rewrite E1. destruct (acom P S).
        * rewrite dotp_toggle. destruct (acom F S), (nth k fl false), (dotp pend fl), (ext_parf p (tl d)); reflexivity.
        * rewrite andb_false_r, xorb_false_r. reflexivity.
      + assert (W1 : wf (if dx j then pmul F P else F)) by (destruct (dx j); [apply wf_pmul; assumption| exact HF]).
        rewrite (IH _ fl (tl zs) (tl d) Hok' W1 Hg).
        destruct (btf p (tl d)) as [S pend] eqn:Eb. cbn [fst snd] in *.
        assert (E1 : acom (if dx j then pmul F P else F) S = xorb (acom F S) (andb (dx j) (acom P S))).
        { destruct (dx j); cbn [andb]; [apply (acom_pmul_l n F P S HF Ho WS)| now rewrite xorb_false_r]. }
        rewrite E1. destruct (acom F S), (dx j), (acom P S), (dotp pend fl), (ext_parf p (tl d)); reflexivity.
  Qed.

End RevFlow.
Print Assumptions flow_closed_form.
