From Coq Require Import List Bool Arith Lia Ring Btauto.
Import ListNotations.
Require Import Pauli Collapse Sem.

(* spec_measure_group_char: the executable spec's generator replacement at a random measurement
   (drop an anticommuting generator g0, multiply g0 into the other anticommuting ones, add (-1)^c M)
   generates exactly Sem.post_rnd of the old group. *)
Section Span.
  Variable n : nat.
  Definition wfn (P : pauli) : Prop := length (snd P) = n.
  Definition Id : pauli := (z4_0, zeros n).

  Lemma wfn_Id : wfn Id. Proof. apply zeros_length. Qed.
  Lemma wfn_pmul P Q : wfn P -> wfn Q -> wfn (pmul P Q).
  Proof. unfold wfn, pmul; cbn [snd]; intros HP HQ. rewrite bxor_length; [exact HP| unfold pauli, bits in *; lia]. Qed.
  Lemma wfn_neg s P : wfn P -> wfn (neg s P). Proof. exact (fun H => H). Qed.
  Hint Resolve wfn_Id wfn_pmul wfn_neg : wf.

  Lemma assoc P Q R : wfn P -> wfn Q -> wfn R -> pmul P (pmul Q R) = pmul (pmul P Q) R.
  Proof. unfold wfn; intros. apply pmul_assoc; unfold pauli, bits in *; lia. Qed.
  Lemma pmul_Id_r P : wfn P -> pmul P Id = P.
  Proof. unfold wfn, Id; intros H. rewrite <- H. apply pmul_id_r. Qed.
  Lemma pmul_Id_l P : wfn P -> pmul Id P = P.
  Proof. unfold wfn, Id; intros H. destruct P as [k l]; unfold pmul; cbn [fst snd] in *.
    rewrite zx_par_zeros_l, bxor_comm. rewrite <- H, bxor_zeros_r. destruct k as [[] []]; reflexivity. Qed.
  Lemma commute P Q : acom P Q = false -> pmul P Q = pmul Q P.
  Proof. intros H. rewrite pmul_comm_sign. unfold acom in H. rewrite H.
    destruct (pmul Q P) as [[[] []] l]; reflexivity. Qed.
  Lemma acom_sym P Q : acom P Q = acom Q P. Proof. unfold acom, symp. apply xorb_comm. Qed.
  Lemma acom_mul_l P Q X : wfn P -> wfn Q -> wfn X -> acom (pmul P Q) X = xorb (acom P X) (acom Q X).
  Proof. intros. rewrite acom_sym, acom_pmul_r, (acom_sym X P), (acom_sym X Q); unfold wfn, pauli, bits in *; try lia. reflexivity. Qed.
  Lemma acom_Id_l X : acom Id X = false.
  Proof. rewrite acom_sym. apply acom_zeros_r. Qed.

  Definition pw (g : pauli) (b : bool) : pauli := if b then g else Id.
  Lemma wfn_pw g b : wfn g -> wfn (pw g b). Proof. destruct b; cbn; auto with wf. Qed.
  Hint Resolve wfn_pw : wf.

  Fixpoint prod (sel : list bool) (gs : list pauli) : pauli :=
    match sel, gs with b :: sel', g :: gs' => pmul (pw g b) (prod sel' gs') | _, _ => Id end.
  Fixpoint apar (sel : list bool) (gs : list pauli) (X : pauli) : bool :=
    match sel, gs with b :: sel', g :: gs' => xorb (andb b (acom g X)) (apar sel' gs' X) | _, _ => false end.
  Definition span (gs : list pauli) : state := fun P => exists sel, length sel = length gs /\ P = prod sel gs.

  Lemma wfn_prod sel gs : Forall wfn gs -> wfn (prod sel gs).
  Proof. revert sel; induction gs as [|g gs IH]; intros [|b sel] H; cbn; auto with wf.
    apply Forall_cons_iff in H as [Hg H]. auto with wf. Qed.
  Lemma acom_prod sel gs X : Forall wfn gs -> wfn X -> acom (prod sel gs) X = apar sel gs X.
  Proof. revert sel; induction gs as [|g gs IH]; intros [|b sel] H HX; cbn; try apply acom_Id_l.
    apply Forall_cons_iff in H as [Hg H].
    rewrite acom_mul_l by auto using wfn_prod with wf. rewrite IH by assumption.
    destruct b; cbn; [reflexivity| rewrite acom_Id_l; reflexivity]. Qed.

  Variables (M g0 : pauli) (rest : list pauli) (c : bool).
  Hypothesis M_wf : wfn M.
  Hypothesis M_sq : pmul M M = Id.
  Hypothesis g0_wf : wfn g0.
  Hypothesis g0_sq : pmul g0 g0 = Id.
  Hypothesis g0_anti : acom g0 M = true.
  Hypothesis rest_wf : Forall wfn rest.
  Hypothesis rest_comm_g0 : Forall (fun g => acom g0 g = false) rest.

  Definition f (g : pauli) : pauli := if acom g M then pmul g g0 else g.
  Definition newgens : list pauli := neg c M :: map f rest.

  Lemma g0_comm_prod sel gs : Forall wfn gs -> Forall (fun g => acom g0 g = false) gs -> acom g0 (prod sel gs) = false.
  Proof. intros Hw Hc. rewrite acom_sym, acom_prod by assumption.
    revert sel; induction gs as [|g gs IH]; intros [|b sel]; cbn; try reflexivity.
    apply Forall_cons_iff in Hw as [_ Hw]. apply Forall_cons_iff in Hc as [Hg Hc].
    rewrite IH by assumption. rewrite acom_sym, Hg. destruct b; reflexivity. Qed.

  Lemma pw_g0_step b : pmul g0 (pw g0 b) = pw g0 (negb b).
  Proof. destruct b; cbn; [exact g0_sq| apply pmul_Id_r, g0_wf]. Qed.

  (* key formula: products over the rewritten generators differ from products over the old ones by g0^parity *)
  Lemma prod_f sel gs : Forall wfn gs -> Forall (fun g => acom g0 g = false) gs ->
    prod sel (map f gs) = pmul (prod sel gs) (pw g0 (apar sel gs M)).
  Proof.
    intros Hw Hc. revert sel; induction gs as [|g gs IH]; intros [|b sel]; cbn [map prod apar];
      try (rewrite pmul_Id_l by auto with wf; reflexivity).
    pose proof Hw as Hw0. pose proof Hc as Hc0.
    apply Forall_cons_iff in Hw as [Hg Hw]. apply Forall_cons_iff in Hc as [Hgc Hc].
    rewrite IH by assumption. set (X := prod sel gs). set (pi := apar sel gs M).
    assert (HX : wfn X) by (apply wfn_prod, Hw).
    assert (HcX : acom g0 X = false) by (apply g0_comm_prod; assumption).
    destruct b; cbn [pw andb].
    - unfold f. destruct (acom g M) eqn:Ea.
      + (* (g g0)(X g0^pi) = (g X) g0^(~pi) *)
        rewrite <- (assoc g g0) by auto with wf. rewrite (assoc g0 X) by auto with wf.
        rewrite (commute g0 X HcX). rewrite <- (assoc X g0) by auto with wf. rewrite pw_g0_step.
        apply assoc; auto with wf.
      + rewrite xorb_false_l. apply assoc; auto with wf.
    - rewrite xorb_false_l. rewrite !pmul_Id_l by auto with wf. reflexivity.
  Qed.

  Lemma Mpow_is_pw eps : Mpow (neg c M) eps = pw (neg c M) eps.
  Proof. destruct eps; unfold Mpow, pw, Id; cbn [snd neg]; [reflexivity|]. rewrite M_wf. reflexivity. Qed.

  Theorem spec_measure_group_char P : span newgens P <-> post_rnd (span (g0 :: rest)) M c P.
  Proof.
    unfold newgens. split.
    - intros (sel & Lsel & EP). destruct sel as [|eps sel]; [cbn in Lsel; lia|]. cbn [length] in Lsel. rewrite map_length in Lsel.
      cbn [prod] in EP. rewrite prod_f in EP by assumption.
      set (pi := apar sel rest M) in *. set (X := prod sel rest) in *.
      assert (HX : wfn X) by (apply wfn_prod, rest_wf).
      exists eps, (pmul X (pw g0 pi)). split; [|split; [|split]].
      + exists (pi :: sel). split; [cbn; lia|]. cbn [prod]. fold X.
        apply commute. rewrite acom_sym. destruct pi; cbn [pw]; [apply g0_comm_prod; assumption| apply acom_Id_l].
      + rewrite acom_mul_l by auto with wf. unfold X. rewrite acom_prod by assumption. fold pi.
        destruct pi; cbn [pw]; [rewrite g0_anti; reflexivity| rewrite acom_Id_l; reflexivity].
      + assert (W : wfn (pmul X (pw g0 pi))) by auto with wf. rewrite W, M_wf. reflexivity.
      + rewrite Mpow_is_pw. exact EP.
    - intros (eps & g & (sel & Lsel & Eg) & Hc & Lg & EP).
      destruct sel as [|b sel]; [cbn in Lsel; lia|]. cbn [length] in Lsel. cbn [prod] in Eg.
      set (X := prod sel rest) in *.
      assert (HX : wfn X) by (apply wfn_prod, rest_wf).
      assert (Eb : b = apar sel rest M).
      { rewrite Eg in Hc. rewrite acom_mul_l in Hc by auto with wf. unfold X in Hc. rewrite acom_prod in Hc by assumption.
        destruct b; cbn [pw] in Hc; [rewrite g0_anti in Hc| rewrite acom_Id_l in Hc]; destruct (apar sel rest M); cbn in Hc; congruence. }
      exists (eps :: sel). split; [cbn; rewrite map_length; lia|]. cbn [prod]. rewrite prod_f by assumption. fold X. rewrite <- Eb.
      rewrite EP, Mpow_is_pw, Eg. f_equal.
      apply commute. destruct b; cbn [pw]; [apply g0_comm_prod; assumption| apply acom_Id_l].
  Qed.
End Span.
Print Assumptions spec_measure_group_char.
