(* Obligations over the GENERATED row programs of Tableau::prepend_* and TableauSimulator::do_gate. *)
From Coq Require Import List Bool String ZArith.
Import ListNotations.
Require Import Stab Act RowProg Gen_GateTable Gen_Prepend.
Local Open Scope string_scope.

Definition is_nil {A} (l : list A) : bool := match l with [] => true | _ => false end.
(* prepend_G run on the identity tableau yields exactly G's documented flows: T' = T o G *)
Definition bad_prepend := filter (fun '(n, ar, p) => negb (prog_matches (gate_aliased n) p)) prepend_programs.
(* the simulator tracks the inverse tableau: do_G must prepend the table's inverse of G *)
Definition bad_dispatch :=
  filter (fun '(g, fn, p) => (unitary1 (gate_named g) || unitary2 (gate_named g)) &&
                             negb (prog_matches (inverse_of (gate_named g)) p)) tabsim_dispatch.
(* a routine the translator refused only matters when its gate is a fixed unitary *)
Definition bad_refusals :=
  filter (fun '(g, why) => unitary1 (gate_named g) || unitary2 (gate_named g)) tabsim_dispatch_refusals.
(* every fixed unitary of the table is dispatched to a translated routine *)
Definition undispatched :=
  filter (fun e => (unitary1 e || unitary2 e) && negb (existsb (fun '(g, _, _) => String.eqb g (e_name e)) tabsim_dispatch)) gate_table.
Definition names3 {A B} (l : list (string * A * B)) := map (fun p => fst (fst p)) l.

Definition prepend_all_ok : bool :=
  is_nil prepend_refused && is_nil (map fst bad_refusals) &&
  is_nil (names3 bad_prepend) && is_nil (names3 bad_dispatch) && is_nil (map e_name undispatched).
Theorem prepend_generated_programs_match_table : prepend_all_ok = true.
Proof. vm_compute. reflexivity. Qed.

Lemma bad_prepend_nil : bad_prepend = []. Proof. vm_compute. reflexivity. Qed.
Lemma bad_dispatch_nil : bad_dispatch = []. Proof. vm_compute. reflexivity. Qed.

Lemma filter_nil_forall {A} (p : A -> bool) l : filter p l = [] -> forall a, In a l -> p a = false.
Proof. induction l as [|b l IH]; cbn; [tauto|]. destruct (p b) eqn:E; [discriminate|].
  intros H a [->|Hin]; auto. Qed.

Theorem prepend_routine_is_table_action n ar p :
  In (n, ar, p) prepend_programs -> prog_matches (gate_aliased n) p = true.
Proof. intros Hin. pose proof (filter_nil_forall _ _ bad_prepend_nil _ Hin) as H. cbv beta iota in H.
  apply negb_false_iff in H. exact H. Qed.
Theorem tabsim_dispatch_prepends_inverse g fn p :
  In (g, fn, p) tabsim_dispatch -> unitary1 (gate_named g) || unitary2 (gate_named g) = true ->
  prog_matches (inverse_of (gate_named g)) p = true.
Proof. intros Hin Hu. pose proof (filter_nil_forall _ _ bad_dispatch_nil _ Hin) as H. cbv beta iota in H.
  rewrite Hu in H. cbn [andb] in H. apply negb_false_iff in H. exact H. Qed.
