From Coq Require Import List Bool Arith Lia Ring.
Import ListNotations.
Require Import Pauli Collapse.

(* The measurement step of the inverse-tableau simulator refines the specification's group update.
   T  : current-time Pauli -> beginning-of-time Pauli (the inverse tableau as a map), any bijective
        phase-linear homomorphism;
   S  : membership in the current stabilizer group;  Inv : S P <-> T P is a +Z-product.
   The specification's new group after measuring the (signed) observable Mc whose image m = T Mc has an
   X part is  S' = { Mc^eps * g : g in S, g commutes with Mc }.
   The implementation replaces T by  Ap o T.  Claim: Inv holds again for (Ap o T, S'). *)
Section Refine.
  Variable n : nat.
  Definition wf (P : pauli) : Prop := length (snd P) = n.
  Variables (T Tinv : pauli -> pauli).
  Hypothesis T_len : forall P, wf P -> wf (T P).
  Hypothesis Tinv_len : forall P, wf P -> wf (Tinv P).
  Hypothesis T_hom : forall P Q, wf P -> wf Q -> T (pmul P Q) = pmul (T P) (T Q).
  Hypothesis T_phase : forall k P, wf P -> T (z4_add k (fst P), snd P) = (z4_add k (fst (T P)), snd (T P)).
  Hypothesis T_id : T (z4_0, zeros n) = (z4_0, zeros n).
  Hypothesis T_Tinv : forall P, wf P -> T (Tinv P) = P.
  Hypothesis Tinv_T : forall P, wf P -> Tinv (T P) = P.

  Variable Sg : pauli -> Prop.
  Hypothesis Inv : forall P, wf P -> (Sg P <-> Zplus (T P)).

  Variables (Mc : pauli) (pre : bits) (km : z4) (zm0 : bool) (mt : bits) (e : bool).
  Hypothesis Mc_wf : wf Mc.
  Hypothesis n_eq : n = length pre + (1 + length mt).
  Hypothesis pre_xfree : xfreeb pre = true.
  Hypothesis m_eq : T Mc = (km, pre ++ (true, zm0) :: mt).
  Let m : pauli := (km, pre ++ (true, zm0) :: mt).
  Let ms := map fst mt.
  Let h := xorb zm0 (cn_sum ms mt).
  Hypothesis Herm0 : pmul (km, (true, zm0) :: mt) (km, (true, zm0) :: mt) = (z4_0, zeros ((1 + length mt))).
  Hypothesis Hsign0 : fst (A0 ms h e (km, (true, zm0) :: mt)) = z4_0.

  Definition S' (P : pauli) : Prop :=
    exists eps g, wf g /\ Sg g /\ symp (snd g) (snd Mc) = false /\ P = pmul (Mpow Mc eps) g.
  Definition T' (P : pauli) : pauli := Ap (length pre) ms h e (T P).

  Lemma m_wf : wf m. Proof. unfold wf, m; cbn [snd]. rewrite app_length; cbn [length]. lia. Qed.

  Lemma T_symp g : wf g -> symp (snd (T g)) (snd m) = symp (snd g) (snd Mc).
  Proof.
    intros Hg. pose proof (pmul_comm_sign g Mc) as E. apply (f_equal T) in E.
    assert (Wq : wf (pmul Mc g)).
    { unfold wf, pmul; cbn [snd]. rewrite bxor_length; [exact Mc_wf| rewrite Mc_wf, Hg; reflexivity]. }
    rewrite z4_add_comm in E. rewrite (T_phase _ (pmul Mc g) Wq) in E.
    rewrite !T_hom in E by assumption. rewrite m_eq in E. fold m in E.
    rewrite (pmul_comm_sign (T g) m) in E. apply (f_equal fst) in E. cbn [fst] in E.
    revert E. generalize (fst (pmul m (T g))) as k. generalize (symp (snd (T g)) (snd m)) as a. generalize (symp (snd g) (snd Mc)) as b.
    intros [] [] [[] []] E; compute in E; congruence.
  Qed.

  Lemma T_Mpow eps : T (Mpow Mc eps) = Mpow m eps.
  Proof. destruct eps; unfold Mpow; [exact m_eq|]. rewrite Mc_wf, m_wf. exact T_id. Qed.
  Lemma Mpow_wf eps : wf (Mpow Mc eps).
  Proof. destruct eps; unfold Mpow, wf; cbn [snd]; [exact Mc_wf| rewrite Mc_wf; apply zeros_length]. Qed.

  Theorem collapse_refines_measure P : wf P -> (S' P <-> Zplus (T' P)).
  Proof.
    intros HP. unfold T'.
    pose proof (collapse_local_at pre km zm0 mt e pre_xfree Herm0 Hsign0 (T P)) as CL.
    fold ms in CL. fold h in CL. fold m in CL.
    assert (LT : length (snd (T P)) = length pre + (1 + length mt)) by (rewrite <- n_eq; apply T_len, HP).
    specialize (CL LT). rewrite CL. clear CL. split.
    - intros (eps & g & Hg & HS & Hc & EP). subst P.
      rewrite T_hom by (try apply Mpow_wf; assumption). rewrite T_Mpow.
      apply Inv in HS; [|exact Hg]. destruct HS as [Hk Hx].
      exists eps, (map snd (snd (T g))). split; [|split].
      + rewrite map_length. rewrite (T_len g Hg). symmetry; apply m_wf.
      + rewrite <- (xfree_is_zbits _ Hx). rewrite <- (T_symp g Hg) in Hc. unfold symp in Hc.
        rewrite (zx_par_xfree_r (snd m) (snd (T g)) Hx), xorb_false_r in Hc. exact Hc.
      + f_equal. rewrite <- (xfree_is_zbits _ Hx), <- Hk. apply surjective_pairing.
    - intros (eps & b & Lb & Hpi & EP).
      set (z := (z4_0, zbits b) : pauli) in *.
      assert (Wz : wf z) by (unfold wf, z; cbn [snd]; rewrite zbits_length, Lb; apply m_wf).
      exists eps, (Tinv z). split; [apply Tinv_len, Wz|]. split; [|split].
      + apply Inv; [apply Tinv_len, Wz|]. rewrite T_Tinv by exact Wz. split; [reflexivity| apply xfreeb_zbits].
      + rewrite <- T_symp by (apply Tinv_len, Wz). rewrite T_Tinv by exact Wz. unfold symp, z; cbn [snd].
        rewrite Hpi. rewrite (zx_par_xfree_r (snd m) (zbits b)) by apply xfreeb_zbits. reflexivity.
      + rewrite <- (Tinv_T P HP), EP. rewrite <- T_Mpow. rewrite <- (T_Tinv z Wz) at 1.
        rewrite <- T_hom by (try apply Mpow_wf; try apply Tinv_len; assumption).
        apply Tinv_T. unfold wf, pmul; cbn [snd]. rewrite bxor_length; [apply Mpow_wf|].
        rewrite (Mpow_wf eps), (Tinv_len z Wz). reflexivity.
  Qed.
End Refine.
Print Assumptions collapse_refines_measure.
