(* Unbiasedness of the frame sampler (C02: "measurements that quantum mechanics leaves undetermined are unbiased and correlated
   only as the circuit dictates").

   The flips the frame sampler reports are a GF(2)-LINEAR function of (initial frame bits, randomisation bits) - also through
   feedback and resets, where the frame is multiplied by a Pauli under a flip bit, itself linear in the frame.  By
   Uniform.fibers_equal every reachable flip pattern then has the same number of preimages: with uniformly random initial Z frame
   and randomisation bits the record is uniform on reference + reachable flips, and by FrameProg.fp_exact that set is the set of
   records the semantics allows. *)
From Coq Require Import List Bool Arith Lia.
Import ListNotations.
Require Import Pauli Collapse Sem Refine ApProps Run FrameRun FrameComplete FrameProg.
Require GF2 Uniform.

Section FrameUniform.
  Variable n : nat.
  Notation wf := (Refine.wf n).
  Notation good := (Run.good n).

  (* flips of the measurements of prog, oldest first (no external differences: exta = extr) *)
  Fixpoint flipsp (F : pauli) (fl : list bool) (zs : list bool) (prog : list pop) : list bool :=
    match prog with
    | [] => []
    | PU C _ :: p => flipsp (C F) fl (tl zs) p
    | PM M :: p => let f := acom F M in f :: flipsp (if hd false zs then pmul F M else F) (f :: fl) (tl zs) p
    | PF P (CRec k) :: p => flipsp (if nth k fl false then pmul F P else F) fl (tl zs) p
    | PF P (CExt _) :: p => flipsp F fl (tl zs) p
    end.

  Lemma flipsp_bits prog : forall F F' fl zs, Forall (okp n) prog -> wf F -> snd F' = snd F -> flipsp F' fl zs prog = flipsp F fl zs prog.
  Proof.
    induction prog as [|o p IH]; intros F F' fl zs Hok HF E; [reflexivity|].
    inversion Hok as [|? ? Ho Hok']; subst. destruct o as [C Ci|M|P [k|j]]; cbn [flipsp okp] in *.
    - apply IH; [exact Hok'| apply (g_len _ _ _ (proj1 Ho)), HF| exact (good_bits n C Ci F F' (proj1 Ho) HF E)].
    - assert (Ea : acom F' M = acom F M) by (unfold acom; now rewrite E). rewrite Ea. f_equal. apply IH; [exact Hok'| |].
      + destruct (hd false zs); [apply wf_pmul; [exact HF| apply Ho]| exact HF].
      + destruct (hd false zs); [unfold pmul; cbn [snd]; now rewrite E| exact E].
    - apply IH; [exact Hok'| |].
      + destruct (nth k fl false); [apply wf_pmul; assumption| exact HF].
      + destruct (nth k fl false); [unfold pmul; cbn [snd]; now rewrite E| exact E].
    - apply IH; assumption.
  Qed.

  (* (A B) X^(a xor b)  and  (A X^a)(B X^b)  have the same bits *)
  Lemma mix_bits A B X (a b : bool) : wf A -> wf B -> wf X ->
    snd (if xorb a b then pmul (pmul A B) X else pmul A B) = snd (pmul (if a then pmul A X else A) (if b then pmul B X else B)).
  Proof.
    intros HA HB HX. unfold Refine.wf in *. destruct a, b; cbn [xorb]; unfold pmul; cbn [fst snd]; try reflexivity.
    - (* A B = (A X)(B X) *)
      rewrite <- (bxor_shuffle n (snd A) (snd X) (snd X) (snd B)) by assumption.
      rewrite Run.bxor_self. replace (length (snd X)) with (length (snd A)) by congruence. now rewrite bxor_zeros_r.
    - (* (A B) X = (A X) B *) apply (bxor_swap n); assumption.
    - (* (A B) X = A (B X) *) symmetry. apply bxor_assoc; congruence.
  Qed.

  Lemma hd_vxor (a b : list bool) : length a = length b -> hd false (GF2.vxor a b) = xorb (hd false a) (hd false b).
  Proof. destruct a, b; cbn; intros H; try lia; reflexivity. Qed.
  Lemma tl_vxor (a b : list bool) : tl (GF2.vxor a b) = GF2.vxor (tl a) (tl b).
  Proof. destruct a, b; cbn; try reflexivity. destruct a; reflexivity. Qed.
  Lemma tl_length (a b : list bool) : length a = length b -> length (tl a) = length (tl b).
  Proof. destruct a, b; cbn; intros H; lia. Qed.

  Theorem flipsp_linear prog : forall F1 F2 fl1 fl2 zs1 zs2, Forall (okp n) prog -> wf F1 -> wf F2 ->
    length fl1 = length fl2 -> length zs1 = length zs2 ->
    flipsp (pmul F1 F2) (GF2.vxor fl1 fl2) (GF2.vxor zs1 zs2) prog = GF2.vxor (flipsp F1 fl1 zs1 prog) (flipsp F2 fl2 zs2 prog).
  Proof.
    induction prog as [|o p IH]; intros F1 F2 fl1 fl2 zs1 zs2 Hok H1 H2 Lf Lz; [reflexivity|].
    inversion Hok as [|? ? Ho Hok']; subst. destruct o as [C Ci|M|P [k|j]]; cbn [flipsp okp] in *.
    - rewrite tl_vxor, (g_mul _ _ _ (proj1 Ho)) by assumption.
      apply IH; [exact Hok'| apply (g_len _ _ _ (proj1 Ho)), H1| apply (g_len _ _ _ (proj1 Ho)), H2| exact Lf| now apply tl_length].
    - destruct Ho as [WM _]. rewrite (acom_pmul_l n F1 F2 M H1 H2 WM), hd_vxor, tl_vxor by exact Lz. cbn [GF2.vxor]. f_equal.
      set (a := hd false zs1). set (b := hd false zs2).
      rewrite (flipsp_bits p (pmul (if a then pmul F1 M else F1) (if b then pmul F2 M else F2)) _ _ _ Hok');
        [| apply wf_pmul; [destruct a| destruct b]; try apply wf_pmul; assumption| apply mix_bits; assumption].
      change (xorb (acom F1 M) (acom F2 M) :: GF2.vxor fl1 fl2) with (GF2.vxor (acom F1 M :: fl1) (acom F2 M :: fl2)).
      apply IH; [exact Hok'| destruct a; [apply wf_pmul|]; assumption| destruct b; [apply wf_pmul|]; assumption| cbn; lia| now apply tl_length].
    - rewrite GF2.nth_vxor, tl_vxor by exact Lf.
      set (a := nth k fl1 false). set (b := nth k fl2 false).
      rewrite (flipsp_bits p (pmul (if a then pmul F1 P else F1) (if b then pmul F2 P else F2)) _ _ _ Hok');
        [| apply wf_pmul; [destruct a| destruct b]; try apply wf_pmul; assumption| apply mix_bits; assumption].
      apply IH; [exact Hok'| destruct a; [apply wf_pmul|]; assumption| destruct b; [apply wf_pmul|]; assumption| exact Lf| now apply tl_length].
    - rewrite tl_vxor. apply IH; [exact Hok'| exact H1| exact H2| exact Lf| now apply tl_length].
  Qed.
End FrameUniform.
Print Assumptions flipsp_linear.

(* ---------- from the all-zero state: x = n initial Z-frame bits ++ randomisation bits ---------- *)
Section Shots.
  Variable n : nat.
  Variable prog : list pop.
  Hypothesis Hok : Forall (okp n) prog.
  Let m := length prog.
  Definition shotflips (x : list bool) : list bool := flipsp (z4_0, zbits (firstn n x)) [] (skipn n x) prog.
  Fixpoint nmeas (p : list pop) : nat := match p with [] => 0 | PM _ :: p' => S (nmeas p') | _ :: p' => nmeas p' end.

  Lemma flipsp_length p : forall F fl zs, length (flipsp F fl zs p) = nmeas p.
  Proof. induction p as [|o p IH]; intros F fl zs; [reflexivity|]. destruct o as [C Ci|M|P [k|j]]; cbn [flipsp nmeas length]; now rewrite ?IH. Qed.
  Lemma firstn_vxor k : forall a b, firstn k (Uniform.vxor a b) = Uniform.vxor (firstn k a) (firstn k b).
  Proof. induction k as [|k IH]; intros [|x a] [|y b]; cbn; try reflexivity. now rewrite IH. Qed.
  Lemma skipn_vxor k : forall a b, length a = length b -> skipn k (Uniform.vxor a b) = Uniform.vxor (skipn k a) (skipn k b).
  Proof. induction k as [|k IH]; intros [|x a] [|y b] H; cbn in *; try reflexivity; try lia. apply IH. lia. Qed.
  Lemma zbits_vxor : forall a b, zbits (Uniform.vxor a b) = bxor (zbits a) (zbits b).
  Proof. induction a as [|x a IH]; intros [|y b]; cbn; try reflexivity. now rewrite IH. Qed.

  Lemma shotflips_linear x y : length x = n + m -> length y = n + m -> shotflips (Uniform.vxor x y) = Uniform.vxor (shotflips x) (shotflips y).
  Proof.
    intros Lx Ly. unfold shotflips. rewrite firstn_vxor, skipn_vxor, zbits_vxor by congruence.
    assert (W1 : Refine.wf n (z4_0, zbits (firstn n x))) by (unfold Refine.wf; cbn [snd]; rewrite zbits_length, firstn_length; lia).
    assert (W2 : Refine.wf n (z4_0, zbits (firstn n y))) by (unfold Refine.wf; cbn [snd]; rewrite zbits_length, firstn_length; lia).
    rewrite (flipsp_bits n prog (pmul (z4_0, zbits (firstn n x)) (z4_0, zbits (firstn n y))) (z4_0, bxor (zbits (firstn n x)) (zbits (firstn n y))) [] _ Hok (wf_pmul n _ _ W1 W2) eq_refl).
    change (@nil bool) with (GF2.vxor [] []) at 1.
    apply (flipsp_linear n prog _ _ [] [] _ _ Hok W1 W2 eq_refl). rewrite !skipn_length. lia.
  Qed.

  Definition veqb (a b : list bool) : bool := if list_eq_dec Bool.bool_dec a b then true else false.
  Lemma veqb_spec a b : veqb a b = true <-> a = b.
  Proof. unfold veqb. destruct (list_eq_dec Bool.bool_dec a b); split; congruence. Qed.

  (* every reachable flip pattern has the same number of preimages among the 2^(n+m) choices of (initial Z frame, randomisation) *)
  Theorem shots_uniform x0 x1 : length x0 = n + m -> length x1 = n + m ->
    Uniform.fiber (n + m) shotflips veqb (shotflips x0) = Uniform.fiber (n + m) shotflips veqb (shotflips x1).
  Proof.
    apply (Uniform.fibers_equal (n + m) (nmeas prog) shotflips).
    - intros x _. apply flipsp_length.
    - exact shotflips_linear.
    - exact veqb_spec.
  Qed.
End Shots.
Print Assumptions shots_uniform.

(* the sampler's record is the reference record xor these flips *)
Fixpoint results (l : list (op * option bool)) : list bool :=
  match l with [] => [] | (OpM _, Some b) :: l' => b :: results l' | _ :: l' => results l' end.
Lemma fprun_results ext prog : forall l F rr ra fl zs, realize ext rr prog l ->
  (forall k, xorb (nth k rr false) (nth k ra false) = nth k fl false) ->
  results (fprun ext ext F rr ra zs prog l) = GF2.vxor (results l) (flipsp F fl zs prog).
Proof.
  induction prog as [|o p IH]; intros l F rr ra fl zs Hre Hfl.
  - inversion Hre; subst. reflexivity.
  - inversion Hre as [| ? C Ci ? l' Hre' | ? M b ? l' Hre' | ? P c ? l' Hre']; subst; cbn [fprun flipsp results].
    + apply IH; assumption.
    + cbn [GF2.vxor]. f_equal. apply (IH l' _ (b :: rr) (xorb b (acom F M) :: ra) (acom F M :: fl) (tl zs) Hre').
      intros [|k]; cbn [nth]; [destruct b, (acom F M); reflexivity| apply Hfl].
    + destruct c as [k|j]; cbn [cval].
      * rewrite (Hfl k). apply IH; assumption.
      * rewrite xorb_nilpotent. apply IH; assumption.
Qed.
Print Assumptions fprun_results.
