(* gate_name_to_hash of gates.h (structure transcribed by hand; multipliers and mask GENERATED from the source), and the
   property the parser relies on: every name and alias in the table hashes to its own slot, slots are distinct, and each
   slot's expected name resolves to a real gate. Lookup is case-insensitive because every character is OR-ed with 0x20
   before hashing and names are compared case-insensitively. *)
From Coq Require Import List ZArith String Ascii Bool.
Import ListNotations.
Require Import Act Gen_GateTable.
Local Open Scope Z_scope.

Definition lc (c : ascii) : Z := Z.lor (Z.of_nat (nat_of_ascii c)) 32.
Definition cst (k : nat) : Z := nth k hash_consts 0.
Definition chr (v : list ascii) (k : nat) : Z := lc (nth k v zero).
Definition gate_hash (s : string) : Z :=
  let v := str_list s in
  let n := List.length v in
  let r0 := Z.of_nat n in
  let r1 := if Nat.ltb 0 n then Z.lxor r0 (chr v 0 * cst 0) + chr v (n - 1) * cst 1 else r0 in
  let r2 := if Nat.ltb 2 n then Z.lxor r1 (chr v 1 * cst 2) + chr v 2 * cst 3 else r1 in
  let r3 := if Nat.ltb 4 n then Z.lxor r2 (chr v 3 * cst 4) + chr v 4 * cst 5 else r2 in
  let r4 := if Nat.ltb 5 n then Z.lxor r3 (chr v 5 * cst 6) else r3 in
  Z.land r4 hash_mask.

Fixpoint nodupb (l : list Z) : bool := match l with [] => true | x :: r => negb (existsb (Z.eqb x) r) && nodupb r end.
Definition hash_table_ok : bool :=
  forallb (fun '(slot, id, name) => Z.eqb (gate_hash name) slot && Z.eqb (e_id (gate_id id)) id && negb (Z.eqb id 0)) hash_table
  && nodupb (map (fun h => fst (fst h)) hash_table)
  && forallb (fun e => Z.eqb (e_id e) 0 || existsb (fun '(slot, id, name) => String.eqb name (e_name e) && Z.eqb id (e_id e)) hash_table) gate_table.
Theorem table_hash_perfect : hash_table_ok = true.
Proof. vm_compute. reflexivity. Qed.
