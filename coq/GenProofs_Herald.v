(* Obligations over the GENERATED bit-usage trace of HERALDED_ERASE (both simulators, 70 consecutive events): every event sets the
   herald, its X and Z decisions are two different bits below 64 of one generator word, no bit is used by two events (so the
   Pauli of an erasure is uniform over I, X, Y, Z and different erasures are independent), and a fresh word is drawn exactly
   every 32 events. HERALDED_PAULI_CHANNEL_1 (bulk sampler): the interval tests cut [0, hi+hx+hy+hz) into X, Z, Y with lengths
   hx, hz, hy and the rest (length hi) does nothing: the documented conditional probabilities. *)
From Coq Require Import List Bool String Arith.
Import ListNotations.
Require Import Gen_Herald.

Definition ev := ((nat * nat) * (nat * nat) * bool)%type.
Definition pos_eqb (a b : nat * nat) : bool := Nat.eqb (fst a) (fst b) && Nat.eqb (snd a) (snd b).
Definition positions (t : list ev) : list (nat * nat) := flat_map (fun '(x, z, _) => [x; z]) t.
Fixpoint distinct (l : list (nat * nat)) : bool :=
  match l with [] => true | a :: r => negb (existsb (pos_eqb a) r) && distinct r end.
Definition event_ok (k : nat) (e : ev) : bool :=
  let '(x, z, h) := e in
  h && Nat.eqb (fst x) (k / 32) && Nat.eqb (fst z) (k / 32) && Nat.ltb (snd x) 64 && Nat.ltb (snd z) 64 && negb (pos_eqb x z).
Definition trace_ok (t : list ev) : bool :=
  Nat.eqb (List.length t) 70 && distinct (positions t) &&
  forallb (fun '(k, e) => event_ok k e) (combine (seq 0 (List.length t)) t).
Local Open Scope string_scope.
Definition hpc1_ok : bool :=
  match hpc1_intervals with
  | [(b1, x1, z1); (b2, x2, z2); (b3, x3, z3)] =>
      String.eqb b1 "hx" && x1 && negb z1 && String.eqb b2 "hx+hz" && negb x2 && z2 && String.eqb b3 "hx+hz+hy" && x3 && z3
  | _ => false end.
Definition is_nil {A} (l : list A) : bool := match l with [] => true | _ => false end.
Definition herald_all_ok : bool := is_nil herald_refused && trace_ok herald_trace_frame && trace_ok herald_trace_tableau && hpc1_ok.
Theorem heralded_erase_uses_fresh_bits : herald_all_ok = true.
Proof. vm_compute. reflexivity. Qed.
