From Coq Require Import List Bool Arith Lia NArith ZArith.
Import ListNotations.
Local Open Scope N_scope.
Ltac Zify.zify_post_hook ::= Z.to_euclidean_division_equations.
Arguments N.add : simpl never. Arguments N.mul : simpl never. Arguments N.div : simpl never.
Arguments N.modulo : simpl never. Arguments N.sub : simpl never. Arguments N.ltb : simpl never. Arguments N.leb : simpl never.

(* Decimal integers as the text formats print and read them (C07 targets/REPEAT counts, C08 ids, C09 hits/dets):
   printer = most-significant-first digit list (what operator<< / std::to_string produce), reader = the
   accumulate loop `n = n*10 + digit` that stops at the first non-digit.  Round trip for every N and any
   continuation that does not start with a digit. *)
Notation byte := N (only parsing).
Definition is_digit (c : byte) : bool := (48 <=? c) && (c <=? 57).

(* printer: digits of n, most significant first; fuel = bit size of n (n/10 has fewer bits) *)
Fixpoint digits_fuel (fuel : nat) (n : N) (acc : list byte) : list byte :=
  match fuel with
  | O => (48 + n) :: acc          (* unreachable for fuel >= size n; keeps the function total *)
  | S f => if n <? 10 then (48 + n) :: acc else digits_fuel f (n / 10) ((48 + n mod 10) :: acc)
  end.
Definition print_dec (n : N) : list byte := digits_fuel (N.to_nat (N.size n)) n [].

(* reader: accumulate while digits; returns the value and the rest *)
Fixpoint read_acc (s : list byte) (acc : N) : N * list byte :=
  match s with
  | c :: s' => if is_digit c then read_acc s' (acc * 10 + (c - 48)) else (acc, s)
  | [] => (acc, [])
  end.
Definition read_dec (s : list byte) : option (N * list byte) :=
  match s with
  | c :: _ => if is_digit c then Some (read_acc s 0) else None
  | [] => None
  end.

Definition value_of (ds : list byte) (acc : N) : N := fold_left (fun a c => a * 10 + (c - 48)) ds acc.
Definition all_digits (ds : list byte) : Prop := Forall (fun c => is_digit c = true) ds.
Definition no_digit_head (rest : list byte) : Prop := match rest with c :: _ => is_digit c = false | [] => True end.

Lemma read_acc_digits ds rest acc : all_digits ds -> no_digit_head rest ->
  read_acc (ds ++ rest) acc = (value_of ds acc, rest).
Proof.
  revert acc; induction ds as [|c ds IH]; intros acc Hd Hr; cbn [app read_acc].
  - destruct rest as [|c rest]; [reflexivity|]. cbn [no_digit_head] in Hr. cbn [read_acc]. rewrite Hr. reflexivity.
  - apply Forall_cons_iff in Hd as [Hc Hd]. rewrite Hc. unfold value_of; cbn [fold_left]. apply IH; assumption.
Qed.

Lemma size_div10 n : 10 <= n -> (N.to_nat (N.size (n / 10)) < N.to_nat (N.size n))%nat.
Proof.
  intros H. assert (Hlt : N.size (n / 10) < N.size n); [|lia].
  assert (H0 : n / 10 < n) by (apply N.div_lt; lia).
  assert (Hpos : 0 < n / 10) by (apply N.div_str_pos; lia).
  rewrite !N.size_log2 by lia. apply -> N.succ_lt_mono.
  (* log2 (n/10) <= log2 (n/2) = log2 n - 1 *)
  assert (Hle : n / 10 <= n / 2) by (apply N.div_le_compat_l; lia).
  apply N.le_lt_trans with (N.log2 (n / 2)); [apply N.log2_le_mono, Hle|].
  rewrite <- N.div2_div, N.div2_spec, N.log2_shiftr. cbn.
  assert (0 < N.log2 n) by (apply N.log2_pos; lia). lia.
Qed.

Lemma digits_fuel_spec : forall fuel n acc, (N.to_nat (N.size n) <= fuel)%nat ->
  all_digits acc ->
  all_digits (digits_fuel fuel n acc).
Proof.
  induction fuel as [|f IH]; intros n acc Hf Ha; cbn [digits_fuel].
  - assert (n = 0) by (destruct n as [|p]; [reflexivity| exfalso; cbn in Hf; pose proof (Pos2Nat.is_pos (Pos.size p)); lia]). subst n. constructor; [reflexivity| exact Ha].
  - destruct (N.ltb_spec n 10) as [Hlt|Hge].
    + constructor; [|exact Ha]. unfold is_digit. apply andb_true_intro. split; [apply N.leb_le| apply N.leb_le]; lia.
    + apply IH.
      * pose proof (size_div10 n Hge). lia.
      * constructor; [|exact Ha]. unfold is_digit. assert (n mod 10 < 10) by (apply N.mod_lt; lia).
        apply andb_true_intro. split; apply N.leb_le; lia.
Qed.

Lemma value_app ds es a0 : value_of (ds ++ es) a0 = value_of es (value_of ds a0).
Proof. unfold value_of. apply fold_left_app. Qed.

(* digits_fuel with an accumulator list = digits_fuel with [] followed by the accumulator *)
Lemma digits_fuel_acc : forall fuel n acc, digits_fuel fuel n acc = digits_fuel fuel n [] ++ acc.
Proof.
  induction fuel as [|f IH]; intros n acc; cbn [digits_fuel]; [reflexivity|].
  destruct (n <? 10); [reflexivity|].
  rewrite (IH (n / 10) ((48 + n mod 10) :: acc)), (IH (n / 10) [48 + n mod 10]). rewrite <- app_assoc. reflexivity.
Qed.

Lemma value_print0 : forall fuel n, (N.to_nat (N.size n) <= fuel)%nat ->
  value_of (digits_fuel fuel n []) 0 = n.
Proof.
  induction fuel as [|f IH]; intros n Hf; cbn [digits_fuel].
  - assert (n = 0) by (destruct n as [|p]; [reflexivity| exfalso; cbn in Hf; pose proof (Pos2Nat.is_pos (Pos.size p)); lia]). subst n. reflexivity.
  - destruct (N.ltb_spec n 10) as [Hlt|Hge]; [unfold value_of; cbn [fold_left]; lia|].
    assert (Hf' : (N.to_nat (N.size (n / 10)) <= f)%nat) by (pose proof (size_div10 n Hge); lia).
    rewrite digits_fuel_acc, value_app, (IH (n / 10) Hf'). unfold value_of; cbn [fold_left].
    assert (n mod 10 < 10) by (apply N.mod_lt; lia). lia.
Qed.

Theorem read_print_dec n rest : no_digit_head rest -> read_dec (print_dec n ++ rest) = Some (n, rest).
Proof.
  intros Hr. unfold print_dec.
  pose proof (digits_fuel_spec (N.to_nat (N.size n)) n [] (le_n _) (Forall_nil _)) as Hd.
  pose proof (value_print0 (N.to_nat (N.size n)) n (le_n _)) as Hv.
  set (ds := digits_fuel (N.to_nat (N.size n)) n []) in *.
  destruct ds as [|c ds'] eqn:E.
  - (* printed text is never empty *)
    exfalso. subst ds. destruct (N.to_nat (N.size n)); cbn in E; [discriminate|]. destruct (n <? 10); [discriminate|].
    clear - E. revert E. generalize (n / 10) as m, [48 + n mod 10] as acc. induction n0 as [|k IHk]; intros m acc; cbn; [discriminate|].
    destruct (m <? 10); [discriminate| apply IHk].
  - unfold read_dec. cbn [app]. pose proof Hd as Hd'. apply Forall_cons_iff in Hd' as [Hc _]. rewrite Hc.
    change (c :: ds' ++ rest) with ((c :: ds') ++ rest). rewrite read_acc_digits by assumption. rewrite Hv. reflexivity.
Qed.
Print Assumptions read_print_dec.
