(* Circuit sampling = DEM sampling, at the model level (C03 meets C16).
   For an adaptive program whose externally controlled Paulis are the faults j in js, and detectors ds (flag lists): let the error
   of fault j have as symptoms the detectors i whose back-propagated sensitivity anticommutes with the fault's Pauli
   (symptom = RevProg.ext_par under the indicator of j).  Then for EVERY run the semantics allows under fault bits exta, the vector
   of detection events (shot value xor reference value) is DemSample.shot_of the errors with `fired j = exta j`: the sampled
   detector error model and the sampled circuit agree shot by shot. *)
From Coq Require Import List Bool Arith NArith Lia.
Import ListNotations.
Require Import Pauli Collapse Sem Refine Run FrameRun FrameProg RevTrack RevProg DemFlat DemSample.

Definition indic (j : nat) : nat -> bool := fun j' => Nat.eqb j' j.
Fixpoint xsum (f : nat -> bool) (js : list nat) : bool := match js with [] => false | j :: r => xorb (f j) (xsum f r) end.

Lemma xsum_ext f g js : (forall j, In j js -> f j = g j) -> xsum f js = xsum g js.
Proof. induction js as [|j r IH]; intros H; cbn; [reflexivity|]. rewrite (H j (or_introl eq_refl)), IH; [reflexivity|]. intros k Hk. apply H. now right. Qed.
Lemma xsum_xor f g js : xsum (fun j => xorb (f j) (g j)) js = xorb (xsum f js) (xsum g js).
Proof. induction js as [|j r IH]; cbn; [reflexivity|]. rewrite IH. destruct (f j), (g j), (xsum f r), (xsum g r); reflexivity. Qed.
Lemma xsum_false js : xsum (fun _ => false) js = false.
Proof. induction js as [|j r IH]; cbn [xsum]; [reflexivity| now rewrite IH]. Qed.
Lemma xsum_pick (c : nat -> bool) j0 js : NoDup js -> In j0 js -> xsum (fun j => andb (c j) (Nat.eqb j0 j)) js = c j0.
Proof.
  induction js as [|j r IH]; intros Hn Hin; [contradiction|]. inversion Hn as [|? ? Hni Hn']; subst. cbn [xsum].
  destruct Hin as [->|Hin].
  - rewrite Nat.eqb_refl, andb_true_r. rewrite (xsum_ext _ (fun _ => false)), xsum_false; [apply xorb_false_r|].
    intros k Hk. assert (j0 <> k) by (intros ->; contradiction). apply Nat.eqb_neq in H. now rewrite H, andb_false_r.
  - assert (j0 <> j) by (intros ->; contradiction). apply Nat.eqb_neq in H. rewrite H, andb_false_r, xorb_false_l. now apply IH.
Qed.

Section Bridge.
  Variable n : nat.
  Variables extr exta : nat -> bool.
  Notation dxv := (RevProg.dx extr exta).
  Definition symptom (prog : list pop) (d : list bool) (j : nat) : bool := RevProg.ext_par n (fun _ => false) (indic j) prog d.

  Fixpoint faults_in (prog : list pop) (js : list nat) : Prop :=
    match prog with [] => True | PF _ (CExt j) :: p => In j js /\ faults_in p js | _ :: p => faults_in p js end.

  (* the fault contributions add up: ext_par under any fault bits is the XOR of the symptoms of the faults whose bit differs *)
  Lemma ext_par_is_xsum prog : forall d js, NoDup js -> faults_in prog js ->
    RevProg.ext_par n extr exta prog d = xsum (fun j => andb (dxv j) (symptom prog d j)) js.
  Proof.
    induction prog as [|o p IH]; intros d js Hn Hf; cbn [RevProg.ext_par].
    - unfold symptom; cbn [RevProg.ext_par]. rewrite (xsum_ext _ (fun _ => false)), xsum_false; [reflexivity|]. intros j _. apply andb_false_r.
    - destruct o as [C Ci|M|P [k|j0]]; cbn [faults_in] in Hf; unfold symptom in *; cbn [RevProg.ext_par]; try (now apply IH).
      destruct Hf as [Hin Hf]. rewrite (IH (tl d) js Hn Hf).
      set (a := acom P (fst (RevProg.bt n p (tl d)))).
      transitivity (xsum (fun j => xorb (andb (andb (dxv j) a) (Nat.eqb j0 j)) (andb (dxv j) (RevProg.ext_par n (fun _ => false) (indic j) p (tl d)))) js).
      + rewrite xsum_xor, (xsum_pick (fun j => andb (dxv j) a) j0 js Hn Hin). reflexivity.
      + apply xsum_ext. intros j _.
        assert (Ed : RevProg.dx (fun _ => false) (indic j) j0 = Nat.eqb j0 j) by (unfold RevProg.dx, indic; apply xorb_false_l).
        rewrite Ed. destruct (dxv j), a, (Nat.eqb j0 j), (RevProg.ext_par n (fun _ => false) (indic j) p (tl d)); reflexivity.
  Qed.

  (* ---------- the detector error model of the program ---------- *)
  Definition tgt (i : nat) : dtarget := TD (N.of_nat i).
  Definition dem_of (prog : list pop) (ds : list (list bool)) (js : list nat) : list (list dtarget * bool) :=
    map (fun j => (map tgt (filter (fun i => symptom prog (nth i ds []) j) (seq 0 (length ds))), dxv j)) js.

  Ltac bdestr := repeat match goal with
                         | |- context [?a <=? ?b] => destruct (Nat.leb_spec a b)
                         | |- context [?a <? ?b] => destruct (Nat.ltb_spec a b)
                         end; cbn [andb]; try lia; try reflexivity.
  Lemma count_tgts (p : nat -> bool) i : forall K s,
    count (tgt i) (map tgt (filter p (seq s K))) = if andb (andb (s <=? i) (i <? s + K)) (p i) then 1 else 0.
  Proof.
    induction K as [|K IH]; intros s; cbn [seq filter map count].
    - bdestr.
    - assert (Et : dt_eqb (tgt i) (tgt s) = Nat.eqb i s).
      { unfold tgt; cbn [dt_eqb]. destruct (Nat.eqb_spec i s) as [->|Hne]; [apply N.eqb_refl|]. apply N.eqb_neq. intros E. apply Nat2N.inj in E. contradiction. }
      destruct (p s) eqn:Ps; cbn [map count]; rewrite IH; rewrite ?Et.
      + destruct (Nat.eqb_spec i s) as [->|Hne]; [rewrite Ps|]; bdestr; destruct (p i); reflexivity.
      + destruct (Nat.eqb_spec i s) as [->|Hne]; [rewrite Ps|]; bdestr; destruct (p i); reflexivity.
  Qed.

  Lemma dem_shot prog ds js i : i < length ds ->
    shot_of (dem_of prog ds js) (tgt i) = xsum (fun j => andb (dxv j) (symptom prog (nth i ds []) j)) js.
  Proof.
    intros Hi. rewrite dem_shot_is_xor_of_fired by discriminate. unfold dem_of, fired_targets.
    induction js as [|j r IH]; cbn [map flat_map xsum]; [reflexivity|].
    rewrite count_app, Nat.odd_add, IH. f_equal. cbn [fst snd]. destruct (dxv j); cbn [andb count]; [|reflexivity].
    rewrite count_tgts. cbn [Nat.leb Nat.add]. replace (i <? length ds) with true by (symmetry; apply Nat.ltb_lt; exact Hi).
    cbn [andb]. destruct (symptom prog (nth i ds []) j); reflexivity.
  Qed.

  (* ---------- circuit shots and model shots agree ---------- *)
  Theorem circuit_shot_is_dem_shot prog ds js l la s s' Sg S' i :
    Forall (okp n) prog -> Run.good n (fst s) (snd s) -> Run.Inv n (fst s) Sg ->
    realize extr [] prog l -> Run.sim_run n s l s' -> realize exta [] prog la -> Run.sem_run Sg la S' ->
    NoDup js -> faults_in prog js -> i < length ds ->
    RevProg.gauge_okp n prog (nth i ds []) ->
    (forall g, Refine.wf n g -> Sg g -> acom g (fst (RevProg.bt n prog (nth i ds []))) = false) ->
    xorb (RevTrack.par_rec la (nth i ds [])) (RevTrack.par_rec l (nth i ds [])) = shot_of (dem_of prog ds js) (tgt i).
  Proof.
    intros Hok G I Hre Hrun Hra Halt Hn Hf Hi Hg Hinit.
    rewrite (RevProg.detector_in_every_shot n extr exta prog l la s s' Sg S' (nth i ds []) Hok G I Hre Hrun Hra Halt Hg Hinit).
    rewrite (dem_shot prog ds js i Hi), <- (ext_par_is_xsum prog (nth i ds []) js Hn Hf).
    destruct (RevTrack.par_rec l (nth i ds [])), (RevProg.ext_par n extr exta prog (nth i ds [])); reflexivity.
  Qed.
End Bridge.
Print Assumptions circuit_shot_is_dem_shot.
