From Coq Require Import List Bool Arith Lia NArith ZArith.
Import ListNotations.
Require Import Dec.
Local Open Scope N_scope.
Ltac Zify.zify_post_hook ::= Z.to_euclidean_division_equations.

(* C07 slice: one gate target, written by GateTarget::write_succinct and read back by
   read_single_gate_target (+ read_inverted_target, read_pauli_target, read_uint24_t with its overflow
   check after every digit), structured as the C++ is. *)
Inductive pauli1 := PX | PY | PZ.
Inductive target :=
| TQubit (inv : bool) (q : N)
| TPauli (inv : bool) (p : pauli1) (q : N)
| TRec (k : N)
| TSweep (k : N)
| TCombiner.

Definition LIM : N := 16777216.  (* 2^24 *)
Definition tvalue (t : target) : N := match t with TQubit _ q | TPauli _ _ q => q | TRec k | TSweep k => k | TCombiner => 0 end.
Definition twf (t : target) : Prop := tvalue t < LIM.

(* bytes *)
Notation "'c_bang'" := 33 (only parsing). Notation "'c_star'" := 42 (only parsing).
Notation "'c_X'" := 88 (only parsing). Notation "'c_Y'" := 89 (only parsing). Notation "'c_Z'" := 90 (only parsing).
Notation "'c_x'" := 120 (only parsing). Notation "'c_y'" := 121 (only parsing). Notation "'c_z'" := 122 (only parsing).
Notation "'c_lb'" := 91 (only parsing). Notation "'c_rb'" := 93 (only parsing). Notation "'c_minus'" := 45 (only parsing).
Notation "'c_sp'" := 32 (only parsing).
Definition s_rec : list N := [114; 101; 99; 91; 45].        (* "rec[-" *)
Definition s_sweep : list N := [115; 119; 101; 101; 112; 91]. (* "sweep[" *)

Definition pauli_char (p : pauli1) : N := match p with PX => c_X | PY => c_Y | PZ => c_Z end.
Definition write_succinct (t : target) : list N :=
  match t with
  | TCombiner => [c_star]
  | TQubit inv q => (if inv then [c_bang] else []) ++ print_dec q
  | TPauli inv p q => (if inv then [c_bang] else []) ++ pauli_char p :: print_dec q
  | TRec k => s_rec ++ print_dec k ++ [c_rb]
  | TSweep k => s_sweep ++ print_dec k ++ [c_rb]
  end.

(* read_uint24_t: do { result = result*10 + digit; if (result >= 2^24) throw; next } while digit *)
Fixpoint read_u24_loop (s : list N) (acc : N) : option (N * list N) :=
  match s with
  | c :: s' =>
      if is_digit c then
        let acc' := acc * 10 + (c - 48) in
        if LIM <=? acc' then None else
        match s' with
        | c2 :: _ => if is_digit c2 then read_u24_loop s' acc' else Some (acc', s')
        | [] => Some (acc', [])
        end
      else None
  | [] => None
  end.
Definition read_u24 (s : list N) : option (N * list N) := read_u24_loop s 0.

Definition starts_with (pre s : list N) : option (list N) :=
  (fix go pre s := match pre, s with
     | [], _ => Some s
     | a :: pre', b :: s' => if a =? b then go pre' s' else None
     | _ :: _, [] => None end) pre s.

Definition pauli_of_char (c : N) : option pauli1 :=
  if (c =? c_X) || (c =? c_x) then Some PX else if (c =? c_Y) || (c =? c_y) then Some PY
  else if (c =? c_Z) || (c =? c_z) then Some PZ else None.

Definition read_pauli (inv : bool) (s : list N) : option (target * list N) :=
  match s with
  | c :: s' => match pauli_of_char c with
      | Some p => match s' with
          | c2 :: _ => if c2 =? c_sp then None else
                       match read_u24 s' with Some (q, r) => Some (TPauli inv p q, r) | None => None end
          | [] => None end
      | None => None end
  | [] => None
  end.

Definition read_target (s : list N) : option (target * list N) :=
  match s with
  | [] => None
  | c :: s' =>
      if is_digit c then match read_u24 s with Some (q, r) => Some (TQubit false q, r) | None => None end
      else if c =? 114 then (* 'r' *)
        match starts_with s_rec s with
        | Some s1 => match read_u24 s1 with
            | Some (k, c2 :: r) => if c2 =? c_rb then Some (TRec k, r) else None
            | _ => None end
        | None => None end
      else if c =? c_bang then
        match s' with
        | c2 :: _ => match pauli_of_char c2 with
            | Some _ => read_pauli true s'
            | None => match read_u24 s' with Some (q, r) => Some (TQubit true q, r) | None => None end
            end
        | [] => None end
      else if match pauli_of_char c with Some _ => true | None => false end then read_pauli false s
      else if c =? c_star then Some (TCombiner, s')
      else if c =? 115 then (* 's' *)
        match starts_with s_sweep s with
        | Some s1 => match read_u24 s1 with
            | Some (k, c2 :: r) => if c2 =? c_rb then Some (TSweep k, r) else None
            | _ => None end
        | None => None end
      else None
  end.

(* ---------- the bounded reader agrees with the unbounded one below the limit ---------- *)
Lemma value_of_ge ds acc : all_digits ds -> acc <= value_of ds acc.
Proof.
  revert acc; induction ds as [|c ds IH]; intros acc H; unfold value_of; cbn [fold_left]; [lia|].
  apply Forall_cons_iff in H as [Hc H]. fold (value_of ds (acc * 10 + (c - 48))).
  specialize (IH (acc * 10 + (c - 48)) H). lia.
Qed.

Lemma read_u24_loop_digits ds rest acc : ds <> [] -> all_digits ds -> no_digit_head rest ->
  value_of ds acc < LIM -> read_u24_loop (ds ++ rest) acc = Some (value_of ds acc, rest).
Proof.
  revert acc; induction ds as [|c ds IH]; intros acc Hne Hd Hr Hv; [congruence|].
  apply Forall_cons_iff in Hd as [Hc Hd]. cbn [app read_u24_loop]. rewrite Hc.
  unfold value_of in Hv |- *; cbn [fold_left] in Hv |- *. fold (value_of ds (acc * 10 + (c - 48))) in Hv |- *.
  pose proof (value_of_ge ds (acc * 10 + (c - 48)) Hd) as Hge.
  destruct (N.leb_spec LIM (acc * 10 + (c - 48))) as [Hbig|Hok]; [lia|].
  destruct ds as [|c2 ds'].
  - cbn [app]. unfold value_of; cbn [fold_left]. destruct rest as [|c3 rest]; [reflexivity|].
    cbn [no_digit_head] in Hr. rewrite Hr. reflexivity.
  - cbn [app]. pose proof Hd as Hd'. apply Forall_cons_iff in Hd' as [Hc2 _]. rewrite Hc2.
    apply IH; [discriminate| exact Hd| exact Hr| exact Hv].
Qed.

Lemma print_dec_props n : all_digits (print_dec n) /\ print_dec n <> [] /\ value_of (print_dec n) 0 = n.
Proof.
  unfold print_dec. split; [apply digits_fuel_spec; [apply le_n| constructor]|]. split.
  - intros E. pose proof (value_print0 (N.to_nat (N.size n)) n (le_n _)) as Hv.
    pose proof (read_print_dec n [] I) as R. unfold print_dec in R. rewrite E in R. discriminate.
  - apply value_print0, le_n.
Qed.

Theorem read_u24_print n rest : n < LIM -> no_digit_head rest -> read_u24 (print_dec n ++ rest) = Some (n, rest).
Proof.
  intros Hn Hr. destruct (print_dec_props n) as (Hd & Hne & Hv). unfold read_u24.
  rewrite read_u24_loop_digits; try assumption; rewrite Hv; [reflexivity| exact Hn].
Qed.

Lemma print_dec_head n : exists c ds, print_dec n = c :: ds /\ is_digit c = true.
Proof. destruct (print_dec_props n) as (Hd & Hne & _). destruct (print_dec n) as [|c ds]; [congruence|].
  exists c, ds. split; [reflexivity|]. apply Forall_cons_iff in Hd as [Hc _]. exact Hc. Qed.

(* a digit is none of the dispatch characters *)
Lemma digit_facts c : is_digit c = true ->
  (c =? 114) = false /\ (c =? c_bang) = false /\ pauli_of_char c = None /\ (c =? c_star) = false /\ (c =? 115) = false /\ (c =? c_sp) = false.
Proof. unfold is_digit, pauli_of_char. intros H. apply andb_prop in H as [H1 H2]. apply N.leb_le in H1, H2.
  repeat split; repeat match goal with |- context [?a =? ?b] => destruct (N.eqb_spec a b); try lia end; reflexivity. Qed.

Theorem read_write_target t rest : twf t -> no_digit_head rest ->
  read_target (write_succinct t ++ rest) = Some (t, rest).
Proof.
  intros Hw Hr. destruct t as [inv q | inv p q | k | k | ]; unfold twf, tvalue in Hw; cbn [write_succinct].
  - (* qubit *)
    destruct (print_dec_head q) as (c & ds & E & Hc). destruct (digit_facts c Hc) as (_ & _ & Hp & _).
    destruct inv; cbn [app].
    + unfold read_target. cbn [is_digit]. change (is_digit c_bang) with false. cbn iota.
      change (c_bang =? 114) with false. change (c_bang =? c_bang) with true. cbn iota.
      rewrite E. cbn [app]. rewrite Hp. change (c :: ds ++ rest) with ((c :: ds) ++ rest). rewrite <- E.
      rewrite read_u24_print by assumption. reflexivity.
    + unfold read_target. rewrite E. cbn [app]. rewrite Hc. change (c :: ds ++ rest) with ((c :: ds) ++ rest). rewrite <- E.
      rewrite read_u24_print by assumption. reflexivity.
  - (* pauli *)
    destruct (print_dec_head q) as (c & ds & E & Hc). destruct (digit_facts c Hc) as (_ & _ & _ & _ & _ & Hsp).
    assert (RP : forall i, read_pauli i (pauli_char p :: print_dec q ++ rest) = Some (TPauli i p q, rest)).
    { intros i. unfold read_pauli. assert (Hp : pauli_of_char (pauli_char p) = Some p) by (destruct p; reflexivity).
      rewrite Hp. rewrite E. cbn [app]. rewrite Hsp. change (c :: ds ++ rest) with ((c :: ds) ++ rest). rewrite <- E.
      rewrite read_u24_print by assumption. reflexivity. }
    destruct inv; cbn [app].
    + unfold read_target. change (is_digit c_bang) with false. cbn iota.
      change (c_bang =? 114) with false. change (c_bang =? c_bang) with true. cbn iota.
      assert (Hp : pauli_of_char (pauli_char p) = Some p) by (destruct p; reflexivity). rewrite Hp. apply RP.
    + unfold read_target. assert (Hp : pauli_of_char (pauli_char p) = Some p) by (destruct p; reflexivity).
      assert (Hd : is_digit (pauli_char p) = false) by (destruct p; reflexivity). rewrite Hd.
      assert (H1 : (pauli_char p =? 114) = false) by (destruct p; reflexivity). rewrite H1.
      assert (H2 : (pauli_char p =? c_bang) = false) by (destruct p; reflexivity). rewrite H2. rewrite Hp. apply RP.
  - (* rec *)
    unfold read_target, s_rec. cbn [app]. change (is_digit 114) with false. cbn iota. change (114 =? 114) with true. cbn iota.
    change (starts_with [114; 101; 99; 91; 45] (114 :: 101 :: 99 :: 91 :: 45 :: (print_dec k ++ [c_rb]) ++ rest)) with (Some ((print_dec k ++ [c_rb]) ++ rest)).
    rewrite <- app_assoc. rewrite read_u24_print; [|exact Hw| reflexivity]. cbn [app]. reflexivity.
  - (* sweep *)
    unfold read_target, s_sweep. cbn [app]. change (is_digit 115) with false. cbn iota. change (115 =? 114) with false. change (115 =? c_bang) with false. cbn iota.
    change (pauli_of_char 115) with (@None pauli1). cbn iota. change (115 =? c_star) with false. change (115 =? 115) with true. cbn iota.
    change (starts_with [115; 119; 101; 101; 112; 91] (115 :: 119 :: 101 :: 101 :: 112 :: 91 :: (print_dec k ++ [c_rb]) ++ rest)) with (Some ((print_dec k ++ [c_rb]) ++ rest)).
    rewrite <- app_assoc. rewrite read_u24_print; [|exact Hw| reflexivity]. cbn [app]. reflexivity.
  - (* combiner *)
    reflexivity.
Qed.

(* the error branch is explicit, not an artefact: a value of 2^24 or more is rejected *)
Example read_u24_rejects_limit : read_u24 (print_dec LIM ++ [c_sp]) = None.
Proof. vm_compute. reflexivity. Qed.
Example read_target_examples :
  read_target (write_succinct (TPauli true PY 16777215) ++ [c_star]) = Some (TPauli true PY 16777215, [c_star]) /\
  read_target (write_succinct (TRec 3) ++ [10]) = Some (TRec 3, [10]).
Proof. split; vm_compute; reflexivity. Qed.
Print Assumptions read_write_target.
