(* C15 — Loop-aware queries and circuit algebra agree with the unrolled program. *)
From Coq Require Import List NArith.
Require QCoords.
Import ListNotations.
Require Import Counts.
Local Open Scope N_scope.

(* the C++ add_saturate / mul_saturate exactly as written (wrap modulo 2^64 and test) saturate instead of wrapping *)
Theorem C15_add_saturate_spec : forall a b, a < W -> b < W -> add_saturate a b = N.min (a + b) MAX.
Proof. exact add_saturate_spec. Qed.
Theorem C15_mul_saturate_spec : forall a b, a < W -> b < W -> mul_saturate a b = N.min (a * b) MAX.
Proof. exact mul_saturate_spec. Qed.
(* flat_count_operations as written (n = add_saturate(n, mul_saturate(sub, reps)), left to right, any nesting depth) returns
   min(exact count of the unrolled instruction stream, 2^64 - 1) *)
Theorem C15_counts_eq_unrolled_saturating : forall i, wf i -> sat i = N.min (exact i) MAX.
Proof. exact counts_eq_unrolled_saturating. Qed.
(* get_final_qubit_coords / final_coord_shift: running a REPEAT body once and fast-forwarding coordinates and shift by
   (repetitions - 1) gains gives the unrolled program's final shift and final qubit coordinates, for every program, nesting and
   repetition count (QCoords.ffl is extracted and run against the implementation) *)
Theorem C15_fast_forward_coords_is_unrolled :
  forall (l : list QCoords.cmd) (st : QCoords.state), QCoords.steq (QCoords.ffl l st) (QCoords.execl l st).
Proof. exact QCoords.ffl_is_unrolled. Qed.
Print Assumptions C15_counts_eq_unrolled_saturating. Print Assumptions C15_fast_forward_coords_is_unrolled.

Example C15_nonvacuous :
  let p := Repeat 9223372036854775808 [Repeat 9223372036854775808 [Op 1]] in
  wf p /\ sat p = MAX /\ exact p = 85070591730234615865843651857942052864.
Proof. vm_compute. repeat split; try reflexivity. Qed.
