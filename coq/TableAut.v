(* Every fixed 1- and 2-qubit unitary of the generated gate table acts on Paulis as a *-automorphism
   (finite check over 16 resp. 256 pairs), hence by Conj.conj1_hom / Conj2.conj2_hom as a homomorphism of the whole
   n-qubit Hermitian Pauli algebra, phases included, at any position(s) of a string of any length. Together with
   Ring8.table_flows_are_conjugation (the action on generators is conjugation by the documented unitary matrix)
   this is what "conjugation by the documented unitary" means for every later theorem. *)
From Coq Require Import List Bool String ZArith.
Import ListNotations.
Require Pauli Conj Conj2.
Require Import Stab Act Gen_GateTable.

Definition act1_of (fl : list limg) : Conj.act1 :=
  fun p => let '(x, z, s) := local1 fl (fst p) (snd p) false in (s, (x, z)).
Definition act2_of (fl : list limg) : Conj2.act2 :=
  fun pq => let '(x1, z1, x2, z2, s) := local2 fl (fst (fst pq)) (snd (fst pq)) (fst (snd pq)) (snd (snd pq)) false in
            (s, ((x1, z1), (x2, z2))).

Definition all_pz : list (bool * bool) := [(false,false); (true,false); (false,true); (true,true)].
Definition all_pz2 : list Conj2.bb2 := flat_map (fun p => map (fun q => (p, q)) all_pz) all_pz.
Definition z4_eqb (a b : Pauli.z4) := Bool.eqb (fst a) (fst b) && Bool.eqb (snd a) (snd b).
Definition pz_eqb (a b : bool * bool) := Bool.eqb (fst a) (fst b) && Bool.eqb (snd a) (snd b).

Definition act1_hom_b (f : Conj.act1) : bool :=
  forallb (fun p => forallb (fun q =>
    let '(sp, p') := f p in let '(sq, q') := f q in
    let '(spq, pq') := f (xorb (fst p) (fst q), xorb (snd p) (snd q)) in
    pz_eqb pq' (xorb (fst p') (fst q'), xorb (snd p') (snd q')) &&
    z4_eqb (Pauli.z4_add (Pauli.z4_two spq) (Pauli.ph1 p q))
           (Pauli.z4_add (Pauli.z4_two (xorb sp sq)) (Pauli.ph1 p' q'))) all_pz) all_pz.

Lemma z4_eqb_eq a b : z4_eqb a b = true -> a = b.
Proof. destruct a, b; unfold z4_eqb; cbn. rewrite andb_true_iff, !eqb_true_iff. intuition congruence. Qed.
Lemma pz_eqb_eq a b : pz_eqb a b = true -> a = b.
Proof. destruct a, b; unfold pz_eqb; cbn. rewrite andb_true_iff, !eqb_true_iff. intuition congruence. Qed.
Lemma in_all_pz p : In p all_pz.
Proof. destruct p as [[] []]; cbn; tauto. Qed.
Lemma in_all_pz2 p : In p all_pz2.
Proof. destruct p as [[[] []] [[] []]]; cbn; intuition. Qed.

Lemma act1_hom_b_sound f : act1_hom_b f = true -> Conj.act1_hom f.
Proof.
  unfold act1_hom_b, Conj.act1_hom. intros H p q. rewrite forallb_forall in H.
  specialize (H p (in_all_pz p)). rewrite forallb_forall in H. specialize (H q (in_all_pz q)).
  destruct (f p) as [sp p'], (f q) as [sq q'].
  destruct (f (xorb (fst p) (fst q), xorb (snd p) (snd q))) as [spq pq'].
  apply andb_true_iff in H. destruct H as [H1 H2]. split; [apply pz_eqb_eq, H1 | apply z4_eqb_eq, H2].
Qed.

Definition bb2_eqb (a b : Conj2.bb2) := pz_eqb (fst a) (fst b) && pz_eqb (snd a) (snd b).
Lemma bb2_eqb_eq a b : bb2_eqb a b = true -> a = b.
Proof. destruct a, b; unfold bb2_eqb; cbn. rewrite andb_true_iff. intros [H1 H2].
  apply pz_eqb_eq in H1, H2. congruence. Qed.
Definition act2_hom_b (f : Conj2.act2) : bool :=
  forallb (fun p => forallb (fun q =>
    let rp := f p in let rq := f q in let rpq := f (Conj2.bx (fst p) (fst q), Conj2.bx (snd p) (snd q)) in
    bb2_eqb (snd rpq) (Conj2.bx (fst (snd rp)) (fst (snd rq)), Conj2.bx (snd (snd rp)) (snd (snd rq))) &&
    z4_eqb (Pauli.z4_add (Pauli.z4_two (fst rpq)) (Pauli.z4_add (Pauli.ph1 (fst p) (fst q)) (Pauli.ph1 (snd p) (snd q))))
           (Pauli.z4_add (Pauli.z4_two (xorb (fst rp) (fst rq)))
              (Pauli.z4_add (Pauli.ph1 (fst (snd rp)) (fst (snd rq))) (Pauli.ph1 (snd (snd rp)) (snd (snd rq))))))
    all_pz2) all_pz2.
Lemma act2_hom_b_sound f : act2_hom_b f = true -> Conj2.act2_hom f.
Proof.
  unfold act2_hom_b, Conj2.act2_hom. intros H p q. rewrite forallb_forall in H.
  specialize (H p (in_all_pz2 p)). rewrite forallb_forall in H. specialize (H q (in_all_pz2 q)).
  cbv zeta in H. apply andb_true_iff in H. destruct H as [H1 H2].
  split; [apply bb2_eqb_eq, H1 | apply z4_eqb_eq, H2].
Qed.

Definition table_aut_ok : bool :=
  forallb (fun e => implb (unitary1 e) (act1_hom_b (act1_of (flows_of e))) &&
                    implb (unitary2 e) (act2_hom_b (act2_of (flows_of e)))) gate_table.
Theorem table_actions_are_automorphisms : table_aut_ok = true.
Proof. vm_compute. reflexivity. Qed.

Theorem table_action1_hom e : In e gate_table -> unitary1 e = true -> Conj.act1_hom (act1_of (flows_of e)).
Proof.
  intros Hin Hu. pose proof table_actions_are_automorphisms as H. unfold table_aut_ok in H.
  rewrite forallb_forall in H. specialize (H e Hin). apply andb_true_iff in H. destruct H as [H _].
  rewrite Hu in H. apply act1_hom_b_sound, H.
Qed.
Theorem table_action2_hom e : In e gate_table -> unitary2 e = true -> Conj2.act2_hom (act2_of (flows_of e)).
Proof.
  intros Hin Hu. pose proof table_actions_are_automorphisms as H. unfold table_aut_ok in H.
  rewrite forallb_forall in H. specialize (H e Hin). apply andb_true_iff in H. destruct H as [_ H].
  rewrite Hu in H. apply act2_hom_b_sound, H.
Qed.

(* inverse ids: the table's best_candidate_inverse really inverts the action, for every fixed unitary *)
Definition inv_ok1 (e : entry) : bool :=
  let f := local1 (flows_of e) in let g := local1 (flows_of (inverse_of e)) in
  agree1 (fun x z s => let '(x', z', s') := f x z s in g x' z' s') (fun x z s => (x, z, s)).
Definition inv_ok2 (e : entry) : bool :=
  let f := local2 (flows_of e) in let g := local2 (flows_of (inverse_of e)) in
  agree2 (fun x1 z1 x2 z2 s => let '(a, b, c, d, s') := f x1 z1 x2 z2 s in g a b c d s')
         (fun x1 z1 x2 z2 s => (x1, z1, x2, z2, s)).
Definition table_inv_ok : bool :=
  forallb (fun e => implb (unitary1 e) (unitary1 (inverse_of e) && inv_ok1 e) &&
                    implb (unitary2 e) (unitary2 (inverse_of e) && inv_ok2 e)) gate_table.
Theorem table_inverse_is_inverse : table_inv_ok = true.
Proof. vm_compute. reflexivity. Qed.
