(* Measuring through a basis change. If U is a Clifford step (C : P -> U P U^dagger, inverse Ci), then "apply U, measure the
   Hermitian Pauli Z, apply U^dagger" is the same semantic step as measuring M = Ci Z = U^dagger Z U directly: the same results
   are allowed (fixed or free) and the final state is the same.  With MppProofs.block_measures_products (the pull-back of Z on a
   product's first qubit through the emitted gates IS the product) this is why the decomposition of MPP / MXX / MYY / MZZ measures
   the products it was given. *)
From Coq Require Import List Bool Arith Lia.
Import ListNotations.
Require Import Pauli Collapse Sem Refine Run FrameRun.

Section ConjMeas.
  Variable n : nat.
  Notation wf := (Refine.wf n).
  Variables (C Ci : pauli -> pauli).
  Hypothesis GC : Run.good n C Ci.
  Hypothesis GCi : Run.good n Ci C.
  Variables (Sg : state) (Z : pauli).
  Hypothesis HZ : wf Z.
  Let M := Ci Z.
  Let Sg1 : state := fun P => Sg (Ci P).          (* after U *)

  Lemma M_wf : wf M. Proof. apply (g_len _ _ _ GCi), HZ. Qed.
  Lemma Ci_neg s P : wf P -> Ci (neg s P) = neg s (Ci P).
  Proof. intros HP. unfold neg. rewrite (g_phase _ _ _ GCi) by exact HP. reflexivity. Qed.
  Lemma C_neg s P : wf P -> C (neg s P) = neg s (C P).
  Proof. intros HP. unfold neg. rewrite (g_phase _ _ _ GC) by exact HP. reflexivity. Qed.

  (* fixed results *)
  Theorem conj_meas_det o : meas_det Sg1 Z o <-> meas_det Sg M o.
  Proof. unfold meas_det, Sg1, M. rewrite Ci_neg by exact HZ. reflexivity. Qed.
  (* free results *)
  Theorem conj_meas_rnd : meas_rnd_ok Sg1 Z <-> meas_rnd_ok Sg M.
  Proof.
    unfold meas_rnd_ok, Sg1, M. rewrite Ci_neg by exact HZ. reflexivity.
  Qed.

  Lemma Ci_Mpow c eps : Ci (Mpow (neg c Z) eps) = Mpow (neg c M) eps.
  Proof.
    destruct eps; unfold Mpow.
    - unfold M. apply Ci_neg, HZ.
    - cbn [snd neg]. rewrite HZ. rewrite (M_wf). exact (g_id _ _ _ GCi).
  Qed.
  Lemma Mpow_wf' c eps X : wf X -> wf (Mpow (neg c X) eps).
  Proof. intros HX. destruct eps; unfold Mpow, Refine.wf; cbn [snd neg]; [exact HX| rewrite HX; apply zeros_length]. Qed.

  (* the state after U ; measure Z (free, coin c) ; U^dagger  is the state after measuring M with coin c *)
  Theorem conj_post_rnd c P : wf P -> (post_rnd Sg1 Z c (C P) <-> post_rnd Sg M c P).
  Proof.
    intros HP. unfold post_rnd. split.
    - intros (eps & g & Hg & Hc & Hl & E). assert (Wg : wf g) by (unfold Refine.wf; rewrite Hl; exact HZ).
      exists eps, (Ci g). split; [exact Hg|]. split; [|split].
      + unfold M. rewrite (good_acom n Ci C g Z GCi Wg HZ). exact Hc.
      + rewrite (g_len _ _ _ GCi g Wg). symmetry. apply M_wf.
      + rewrite <- (g_GF _ _ _ GC P HP), E. rewrite (g_mul _ _ _ GCi) by (try apply Mpow_wf'; assumption).
        rewrite Ci_Mpow. reflexivity.
    - intros (eps & g & Hg & Hc & Hl & E). assert (Wg : wf g) by (unfold Refine.wf; rewrite Hl; apply M_wf).
      exists eps, (C g). split; [|split; [|split]].
      + unfold Sg1. rewrite (g_GF _ _ _ GC g Wg). exact Hg.
      + rewrite <- (g_FG _ _ _ GC Z HZ). fold M. rewrite (good_acom n C Ci g M GC Wg M_wf). exact Hc.
      + rewrite (g_len _ _ _ GC g Wg). symmetry. exact HZ.
      + rewrite E. rewrite (g_mul _ _ _ GC) by (try apply Mpow_wf'; try apply M_wf; assumption).
        f_equal. rewrite <- Ci_Mpow. apply (g_FG _ _ _ GC). apply Mpow_wf', HZ.
  Qed.
End ConjMeas.
Print Assumptions conj_meas_det. Print Assumptions conj_post_rnd.
