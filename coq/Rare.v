From Coq Require Import List Bool QArith.
Import ListNotations.
Local Open Scope Q_scope.

(* C05: the rare-error sampler (RareErrorIterator: skip a geometric number of positions, hit, repeat until past
   the end) produces each hit pattern with exactly the probability of independent Bernoulli(p) bits, provided
   the gap distribution is geometric: P(gap = c) = (1-p)^c p and P(gap >= c) = (1-p)^c.  (That the runtime's
   std::geometric_distribution has this law is a stated hypothesis, tested statistically.) *)
Section Rare.
  Variable p : Q.
  Fixpoint qpow (a : Q) (c : nat) : Q := match c with O => 1 | S c' => a * qpow a c' end.
  Definition geom (c : nat) : Q := qpow (1 - p) c * p.      (* P(gap = c) *)
  Definition tail (c : nat) : Q := qpow (1 - p) c.          (* P(gap >= c) *)

  (* probability that the gap process writes exactly the pattern l, given c misses since the last hit *)
  Fixpoint prob (l : list bool) (c : nat) : Q :=
    match l with
    | [] => tail c
    | true :: l' => geom c * prob l' 0
    | false :: l' => prob l' (S c)
    end.
  Fixpoint bern (l : list bool) : Q :=
    match l with [] => 1 | b :: l' => (if b then p else 1 - p) * bern l' end.

  Lemma prob_gen l : forall c, prob l c == qpow (1 - p) c * bern l.
  Proof.
    induction l as [|b l IH]; intros c; cbn [prob bern].
    - unfold tail. ring.
    - destruct b.
      + rewrite IH. unfold geom. cbn [qpow]. ring.
      + rewrite IH. cbn [qpow]. ring.
  Qed.

  Theorem rare_is_bernoulli l : prob l 0 == bern l.
  Proof. rewrite prob_gen. cbn [qpow]. ring. Qed.
End Rare.
Print Assumptions rare_is_bernoulli.
