(* C18 — Explained errors point at circuit faults that really cause them.
   The oracle injects the reported fault as a Pauli controlled on a fresh variable (or as a flip of the recorded form) into the
   specification; these lemmas are what makes "the set of detectors whose form contains that variable" the set it flips. *)
From Coq Require Import List Bool NArith.
Import ListNotations.
Require Adj AdjGen TableAdj GenProofs_RevMeas.
Require Pauli Sem Refine Run FrameRun RevTrack FrameProg RevProg.
Require Import Stab Spec SpecProofs GF2.

(* for EVERY assignment, a detector's value is the XOR of the values of the measurement results it names *)
Theorem C18_detector_form_is_xor_of_values :
  forall m k rs ks, eval_form m k (parity_form rs ks) = fold_left (fun acc j => xorb acc (eval_form m k (rec_at rs j))) ks false.
Proof. exact parity_form_is_xor_of_values. Qed.
(* forms are affine: XOR of forms evaluates to XOR of values, so the effect of one fault variable is independent of all others *)
Theorem C18_forms_are_affine : forall m k a b, eval_form m k (fxor a b) = xorb (eval_form m k a) (eval_form m k b).
Proof. exact eval_form_fxor. Qed.
(* backward sensitivity tracking (what the matcher shares with the analyzer) is adjoint to forward fault propagation *)
Theorem C18_adjoint_partial :
  forall n (c : list Adj.op), Forall (Adj.in_range n) c -> forall (D : Adj.det) (F : Adj.frame),
  Adj.parity_at D 0 (Adj.frun c F) = Adj.pair_upto n (Adj.back c D) F.
Proof. exact Adj.adjoint. Qed.
(* ... and for the WHOLE gate set: every unitary of the generated gate table (backward action = table action of the inverse gate,
   which is what the translated undo routines are proved to be), single-qubit Pauli measurements and resets, any circuit, any n *)
Theorem C18_adjoint_all_gates :
  forall n (c : list TableAdj.tgop), Forall (TableAdj.tok n) c -> forall (D : AdjGen.det) (F : AdjGen.st),
  AdjGen.parity_at D 0 (AdjGen.frun (map TableAdj.compile c) F) = AdjGen.pair_upto n (AdjGen.back (map TableAdj.compile c) D) F.
Proof. exact TableAdj.adjoint_table_circuits. Qed.
(* the reverse tracker's measurement / reset undo routines (undo_MX .. undo_MRZ, undo_RX .. undo_RZ, regenerated from source) are
   the backward steps of that theorem for the gate's documented basis, and test the anticommuting component for gauges *)
Theorem C18_revtrack_measure_reset_routines_match : GenProofs_RevMeas.revmeas_all_ok = true.
Proof. exact GenProofs_RevMeas.revmeas_routines_match_adjgen. Qed.
Theorem C18_analyzer_measure_reset_routines_match : GenProofs_RevMeas.ea_revmeas_all_ok = true.
Proof. exact GenProofs_RevMeas.analyzer_measure_reset_routines_match_adjgen. Qed.
Print Assumptions C18_adjoint_all_gates. Print Assumptions C18_forms_are_affine. Print Assumptions C18_adjoint_partial.

(* The matcher shares the analyzer's reverse tracker.  Whole circuits: injecting the Pauli E in front of the rest l of a run flips
   a detector (flags d, tracker check passed) iff E anticommutes with the tracker's sensitivity there - for every randomisation. *)
Theorem C18_injected_pauli_flips_exactly_the_anticommuting_detectors :
  forall (n : nat) (l : list (Run.op * option bool)) (E : Pauli.pauli) (zs d : list bool),
  Forall (fun x => FrameRun.ok_op n (fst x)) l -> Refine.wf n E -> RevTrack.gauge_ok n l d ->
  RevTrack.fparz E zs l d = Sem.acom E (RevTrack.revtrack n l d).
Proof. exact RevTrack.error_flips_iff_anticommutes. Qed.
Print Assumptions C18_injected_pauli_flips_exactly_the_anticommuting_detectors.

(* ... and with feedback, resets and several faults: the value of a checked detector in every legal shot is the reference value
   xor the parity of the injected (externally controlled) Paulis that anticommute with its sensitivity at their position. *)
Theorem C18_injected_faults_flip_exactly_the_anticommuting_detectors :
  forall (n : nat) (extr exta : nat -> bool) (prog : list FrameProg.pop) (l la : list (Run.op * option bool))
         (s s' : (Pauli.pauli -> Pauli.pauli) * (Pauli.pauli -> Pauli.pauli)) (Sg S' : Sem.state) (d : list bool),
  Forall (FrameProg.okp n) prog -> Run.good n (fst s) (snd s) -> Run.Inv n (fst s) Sg ->
  FrameProg.realize extr [] prog l -> Run.sim_run n s l s' -> FrameProg.realize exta [] prog la -> Run.sem_run Sg la S' ->
  RevProg.gauge_okp n prog d -> (forall g, Refine.wf n g -> Sg g -> Sem.acom g (fst (RevProg.bt n prog d)) = false) ->
  RevTrack.par_rec la d = xorb (RevTrack.par_rec l d) (RevProg.ext_par n extr exta prog d).
Proof. exact RevProg.detector_in_every_shot. Qed.
Print Assumptions C18_injected_faults_flip_exactly_the_anticommuting_detectors.
