From Coq Require Import List Bool Arith NArith Lia.
Import ListNotations.
Local Open Scope N_scope.

Definition W64 := 2^64.
Definition ones := W64 - 1.
Definition notm (m : N) : N := N.lxor m ones.                 (* ~mask on uint64 *)
Definition shl (a s : N) : N := (N.shiftl a s) mod W64.        (* << on uint64 *)
(* one (x,y) pair update of inplace_transpose_64x64_pass, as written *)
Definition upd_x (mask s x y : N) : N := N.lor (N.land x mask) (shl (N.land y mask) s).
Definition upd_y (mask s x y : N) : N := N.lor (N.shiftr (N.land x (notm mask)) s) (N.land y (notm mask)).

Lemma ones_bit j : j < 64 -> N.testbit ones j = true.
Proof. intros H. unfold ones, W64. change (2 ^ 64 - 1) with (N.ones 64). apply N.ones_spec_low. exact H. Qed.
Lemma notm_bit mask j : j < 64 -> N.testbit (notm mask) j = negb (N.testbit mask j).
Proof. intros H. unfold notm. rewrite N.lxor_spec, ones_bit by exact H. apply xorb_true_r. Qed.
Lemma shl_bit a s j : j < 64 -> N.testbit (shl a s) j = if j <? s then false else N.testbit a (j - s).
Proof.
  intros H. unfold shl, W64. rewrite N.mod_pow2_bits_low by exact H.
  destruct (N.ltb_spec j s); [apply N.shiftl_spec_low; assumption| apply N.shiftl_spec_high'; assumption].
Qed.
(* generic bit formulas, valid for every mask and shift *)
Lemma upd_x_bit mask s x y j : j < 64 ->
  N.testbit (upd_x mask s x y) j =
  orb (andb (N.testbit x j) (N.testbit mask j))
      (if j <? s then false else andb (N.testbit y (j - s)) (N.testbit mask (j - s))).
Proof. intros H. unfold upd_x. rewrite N.lor_spec, N.land_spec, shl_bit by exact H. destruct (j <? s); [reflexivity|]. now rewrite N.land_spec. Qed.
Lemma upd_y_bit mask s x y j : j < 64 -> x < W64 ->
  N.testbit (upd_y mask s x y) j =
  orb (if j + s <? 64 then andb (N.testbit x (j + s)) (negb (N.testbit mask (j + s))) else false)
      (andb (N.testbit y j) (negb (N.testbit mask j))).
Proof.
  intros H Hx. unfold upd_y. rewrite N.lor_spec, N.shiftr_spec', !N.land_spec, (notm_bit mask j H).
  f_equal. destruct (N.ltb_spec (j + s) 64) as [L|L]; [now rewrite notm_bit by exact L|].
  (* x < 2^64 has no bits at positions >= 64 *)
  assert (N.testbit x (j + s) = false) as ->; [| reflexivity].
  destruct (N.eq_dec x 0) as [->|Hx0]; [apply N.bits_0|]. apply N.bits_above_log2.
  apply N.log2_lt_pow2; [lia|]. unfold W64 in Hx. eapply N.lt_le_trans; [exact Hx|]. apply N.pow_le_mono_r; lia.
Qed.

(* ---- the pass on 64 words ---- *)
Definition getw (m : list N) (k : N) : N := nth (N.to_nat k) m 0.
Definition row (mask s : N) (m : list N) (kn : nat) : N :=
  let k := N.of_nat kn in
  (if N.land k s =? 0 then upd_x mask s (getw m k) (getw m (k + s)) else upd_y mask s (getw m (k - s)) (getw m k)) mod W64.
Definition pass (mask s : N) (m : list N) : list N := map (row mask s m) (seq 0 64).
Lemma nth_map_seq {A} (f : nat -> A) n k d : (k < n)%nat -> nth k (map f (seq 0 n)) d = f k.
Proof. intros H. rewrite nth_indep with (d' := f 0%nat) by (rewrite map_length, seq_length; exact H).
  rewrite map_nth, seq_nth by exact H. reflexivity. Qed.
Lemma getw_pass mask s m k : k < 64 ->
  getw (pass mask s m) k = (if N.land k s =? 0 then upd_x mask s (getw m k) (getw m (k + s)) else upd_y mask s (getw m (k - s)) (getw m k)) mod W64.
Proof. intros H. unfold getw at 1, pass. rewrite nth_map_seq by lia. unfold row. rewrite N2Nat.id. reflexivity. Qed.

(* where does bit (k,j) of the output come from?  computed selector: Some (row, col) or None (the bit is 0) *)
Definition src (mask s k j : N) : option (N * N) :=
  if N.land k s =? 0 then
    if N.testbit mask j then Some (k, j)
    else if j <? s then None else if N.testbit mask (j - s) then Some (k + s, j - s) else None
  else
    if N.testbit mask j then (if j + s <? 64 then (if N.testbit mask (j + s) then None else Some (k - s, j + s)) else None)
    else Some (k, j).
(* exclusivity of the two OR-ed terms, checked by computation per pass *)
Definition excl (mask s : N) : bool :=
  forallb (fun j => negb (andb (N.testbit mask j) (if j <? s then false else N.testbit mask (j - s)))
                    && negb (andb (negb (N.testbit mask j)) (if j + s <? 64 then negb (N.testbit mask (j + s)) else false)))
          (map N.of_nat (seq 0 64)).
Definition bit_of (m : list N) (o : option (N * N)) : bool := match o with Some (r, c) => N.testbit (getw m r) c | None => false end.

Lemma in_range64 j : j < 64 -> In j (map N.of_nat (seq 0 64)).
Proof. intros H. apply in_map_iff. exists (N.to_nat j). split; [lia|]. apply in_seq. lia. Qed.

Lemma pass_bit mask s m k j : excl mask s = true -> Forall (fun w => w < W64) m -> k < 64 -> j < 64 ->
  N.testbit (getw (pass mask s m) k) j = bit_of m (src mask s k j).
Proof.
  intros He Hm Hk Hj. rewrite getw_pass by exact Hk. unfold W64 at 1. rewrite N.mod_pow2_bits_low by exact Hj. unfold excl in He. rewrite forallb_forall in He.
  specialize (He j (in_range64 j Hj)). rewrite andb_true_iff, !negb_true_iff in He. destruct He as [E1 E2].
  unfold src. destruct (N.land k s =? 0).
  - rewrite upd_x_bit by exact Hj.
    destruct (N.testbit mask j) eqn:Mj; cbn [bit_of andb orb] in *.
    + rewrite andb_true_r. destruct (j <? s); [now rewrite orb_false_r|]. rewrite E1. now rewrite andb_false_r, orb_false_r.
    + rewrite andb_false_r. cbn [orb]. destruct (j <? s); [reflexivity|]. destruct (N.testbit mask (j - s)); cbn [bit_of]; [now rewrite andb_true_r| now rewrite andb_false_r].
  - assert (Hx : getw m (k - s) < W64).
    { unfold getw. destruct (nth_in_or_default (N.to_nat (k - s)) m 0) as [Hin| ->]; [rewrite Forall_forall in Hm; exact (Hm _ Hin)| reflexivity]. }
    rewrite upd_y_bit by assumption.
    destruct (N.testbit mask j) eqn:Mj; cbn [bit_of andb orb negb] in *.
    + rewrite andb_false_r, orb_false_r. destruct (j + s <? 64); [|reflexivity].
      destruct (N.testbit mask (j + s)); cbn [negb bit_of]; [now rewrite andb_false_r| now rewrite andb_true_r].
    + rewrite andb_true_r. destruct (j + s <? 64); [| reflexivity]. cbn in E2. rewrite E2. now rewrite andb_false_r.
Qed.

Lemma pass_bounded mask s m : Forall (fun w => w < W64) (pass mask s m).
Proof. unfold pass. apply Forall_forall. intros w Hw. apply in_map_iff in Hw. destruct Hw as (k & <- & _). unfold row. apply N.mod_lt. unfold W64. lia. Qed.

(* ---- composition of passes ---- *)
Definition passes : list (N * N) :=
  [(0x5555555555555555, 1); (0x3333333333333333, 2); (0x0F0F0F0F0F0F0F0F, 4);
   (0x00FF00FF00FF00FF, 8); (0x0000FFFF0000FFFF, 16); (0x00000000FFFFFFFF, 32)].
Definition transpose64 (m : list N) : list N := fold_left (fun acc p => pass (fst p) (snd p) acc) passes m.

Fixpoint chain (rps : list (N * N)) (k j : N) : option (N * N) :=     (* rps: last pass first *)
  match rps with [] => Some (k, j)
  | p :: r => match src (fst p) (snd p) k j with None => None | Some (k', j') => chain r k' j' end end.
Definition idx := map N.of_nat (seq 0 64).
Definition range_ok (p : N * N) : bool :=
  forallb (fun k => forallb (fun j => match src (fst p) (snd p) k j with Some (k', j') => (k' <? 64) && (j' <? 64) | None => true end) idx) idx.
Lemma passes_excl : forallb (fun p => excl (fst p) (snd p)) passes = true. Proof. vm_compute. reflexivity. Qed.
Lemma passes_range : forallb range_ok passes = true. Proof. vm_compute. reflexivity. Qed.

Lemma fold_right_bit (rps : list (N * N)) : forall m k j,
  forallb (fun p => excl (fst p) (snd p)) rps = true -> forallb range_ok rps = true ->
  Forall (fun w => w < W64) m -> k < 64 -> j < 64 ->
  N.testbit (getw (fold_right (fun p acc => pass (fst p) (snd p) acc) m rps) k) j = bit_of m (chain rps k j).
Proof.
  induction rps as [|p r IH]; intros m k j He Hr Hm Hk Hj; cbn [fold_right chain]; [reflexivity|].
  cbn [forallb] in He, Hr. apply andb_true_iff in He; destruct He as [He1 He2]. apply andb_true_iff in Hr; destruct Hr as [Hr1 Hr2].
  set (prev := fold_right (fun p acc => pass (fst p) (snd p) acc) m r).
  assert (Hprev : Forall (fun w => w < W64) prev) by (unfold prev; destruct r; [exact Hm| apply pass_bounded]).
  rewrite pass_bit by assumption.
  unfold range_ok in Hr1. rewrite forallb_forall in Hr1. specialize (Hr1 k (in_range64 k Hk)). rewrite forallb_forall in Hr1. specialize (Hr1 j (in_range64 j Hj)).
  destruct (src (fst p) (snd p) k j) as [[k' j']|]; cbn [bit_of]; [|reflexivity].
  apply andb_true_iff in Hr1. destruct Hr1 as [A B]. apply N.ltb_lt in A, B. apply IH; assumption.
Qed.

(* the composed source map of the six passes is the transposition: checked for all 4096 positions *)
Lemma chain_is_transpose : forallb (fun k => forallb (fun j =>
    match chain (rev passes) k j with Some (k', j') => (k' =? j) && (j' =? k) | None => false end) idx) idx = true.
Proof. vm_compute. reflexivity. Qed.

Theorem transpose64_correct m k j : Forall (fun w => w < W64) m -> k < 64 -> j < 64 ->
  N.testbit (getw (transpose64 m) k) j = N.testbit (getw m j) k.
Proof.
  intros Hm Hk Hj. unfold transpose64. rewrite <- fold_left_rev_right.
  rewrite fold_right_bit; try assumption.
  - pose proof chain_is_transpose as C. rewrite forallb_forall in C. specialize (C k (in_range64 k Hk)).
    rewrite forallb_forall in C. specialize (C j (in_range64 j Hj)).
    destruct (chain (rev passes) k j) as [[k' j']|]; [|discriminate].
    apply andb_true_iff in C. destruct C as [A B]. apply N.eqb_eq in A, B. subst. reflexivity.
  - vm_compute. reflexivity.
  - vm_compute. reflexivity.
Qed.
Print Assumptions transpose64_correct.
