(* The oracle that decides "this record is an outcome the circuit can produce" is sound and complete with respect to
   the existence of a variable assignment: it is the verified GF(2) solver of GF2.v / GF2b.v applied to the forms. *)
From Coq Require Import List Bool Arith NArith Lia.
Import ListNotations.
Require Import Stab Spec GF2 GF2b.

Definition eval_form (m : nat) (k : vec) (f : form) : bool := xorb (fst f) (dot (vec_of m (snd f)) k).
Definition satisfies (m : nat) (k : vec) (fb : form * bool) : Prop := eval_form m k (fst fb) = snd fb.

Lemma vec_of_length m mask : length (vec_of m mask) = m.
Proof. unfold vec_of. rewrite map_length, seq_length. reflexivity. Qed.

Lemma sat_iff m k fb : sat k (eqn_of m fb) <-> satisfies m k fb.
Proof.
  destruct fb as [[c mask] b]. unfold sat, eqn_of, satisfies, eval_form; cbn [fst snd].
  destruct c, b, (dot (vec_of m mask) k); cbn; intuition congruence.
Qed.

Theorem consistent_sound m eqs : consistent m eqs = true ->
  exists k, length k = m /\ Forall (satisfies m k) eqs.
Proof.
  unfold consistent. intros H.
  destruct (solvable_sound m (map (eqn_of m) eqs)) as [k [Hk Hs]].
  - apply Forall_forall. intros e He. apply in_map_iff in He. destruct He as [fb [<- _]].
    destruct fb as [[c mask] b]. cbn. apply vec_of_length.
  - exact H.
  - exists k. split; [exact Hk|]. apply Forall_forall. intros fb Hin.
    rewrite Forall_forall in Hs. apply sat_iff. apply Hs. apply in_map. exact Hin.
Qed.

Theorem consistent_complete m eqs k : Forall (satisfies m k) eqs -> consistent m eqs = true.
Proof.
  intros Hs. unfold consistent, solvable.
  destruct (solve_complete m (map (eqn_of m) eqs) [] k) as [piv' [E _]].
  - apply Forall_forall. intros e He. apply in_map_iff in He. destruct He as [fb [<- _]].
    destruct fb as [[c mask] b]. cbn. apply vec_of_length.
  - constructor.
  - apply Forall_forall. intros e He. apply in_map_iff in He. destruct He as [fb [<- Hin]].
    apply sat_iff. rewrite Forall_forall in Hs. apply Hs, Hin.
  - constructor.
  - rewrite E. reflexivity.
Qed.

(* ---------- detectors / observables are parities (C04) ---------- *)
Lemma vec_of_lxor m a b : vec_of m (N.lxor a b) = vxor (vec_of m a) (vec_of m b).
Proof.
  unfold vec_of. induction (seq 0 m) as [|i l IH]; [reflexivity|]. cbn [map vxor]. rewrite N.lxor_spec, IH. reflexivity.
Qed.
Lemma eval_form_fxor m k a b : eval_form m k (fxor a b) = xorb (eval_form m k a) (eval_form m k b).
Proof.
  unfold eval_form, fxor; cbn [fst snd]. rewrite vec_of_lxor, dot_vxor by (rewrite !vec_of_length; reflexivity).
  destruct (fst a), (fst b), (dot (vec_of m (snd a)) k), (dot (vec_of m (snd b)) k); reflexivity.
Qed.
Lemma dot_zero_vec l : forall k, dot (map (fun j : nat => N.testbit 0 (N.of_nat j)) l) k = false.
Proof. induction l as [|i l IH]; intros [|b k]; cbn [map dot]; try reflexivity.
  rewrite N.bits_0, IH. reflexivity. Qed.
Lemma eval_form_fzero m k : eval_form m k fzero = false.
Proof. unfold eval_form, fzero, vec_of; cbn [fst snd]. rewrite dot_zero_vec. reflexivity. Qed.

(* for EVERY assignment of the variables, the value of a detector form is the XOR of the values of the measurement
   results it names *)
Theorem parity_form_is_xor_of_values m k rs ks :
  eval_form m k (parity_form rs ks) = fold_left (fun acc j => xorb acc (eval_form m k (rec_at rs j))) ks false.
Proof.
  unfold parity_form. rewrite <- (eval_form_fzero m k). generalize fzero as acc.
  induction ks as [|j ks IH]; intros acc; cbn [fold_left]; [reflexivity|].
  rewrite IH, eval_form_fxor. reflexivity.
Qed.
Theorem detector_step_appends_parity n ks r :
  dets (sstep n (SDetector ks) r) = dets r ++ [parity_form (recs r) ks] /\
  recs (sstep n (SDetector ks) r) = recs r /\ st (sstep n (SDetector ks) r) = st r /\ obs (sstep n (SDetector ks) r) = obs r.
Proof. cbn. repeat split. Qed.
Theorem observable_step_accumulates_parity n idx ks r :
  obs (sstep n (SObservable idx ks []) r) = upd_obs idx (parity_form (recs r) ks) (obs r) /\
  recs (sstep n (SObservable idx ks []) r) = recs r /\ st (sstep n (SObservable idx ks []) r) = st r.
Proof. cbn. repeat split. Qed.
