(* The oracle that decides "this record is an outcome the circuit can produce" is sound and complete with respect to
   the existence of a variable assignment: it is the verified GF(2) solver of GF2.v / GF2b.v applied to the forms. *)
From Coq Require Import List Bool Arith NArith Lia.
Import ListNotations.
Require Import Stab Spec GF2 GF2b.

Definition eval_form (m : nat) (k : vec) (f : form) : bool := xorb (fst f) (dot (vec_of m (snd f)) k).
Definition satisfies (m : nat) (k : vec) (fb : form * bool) : Prop := eval_form m k (fst fb) = snd fb.

Lemma vec_of_length m mask : length (vec_of m mask) = m.
Proof. unfold vec_of. rewrite map_length, seq_length. reflexivity. Qed.

Lemma sat_iff m k fb : sat k (eqn_of m fb) <-> satisfies m k fb.
Proof.
  destruct fb as [[c mask] b]. unfold sat, eqn_of, satisfies, eval_form; cbn [fst snd].
  destruct c, b, (dot (vec_of m mask) k); cbn; intuition congruence.
Qed.

Theorem consistent_sound m eqs : consistent m eqs = true ->
  exists k, length k = m /\ Forall (satisfies m k) eqs.
Proof.
  unfold consistent. intros H.
  destruct (solvable_sound m (map (eqn_of m) eqs)) as [k [Hk Hs]].
  - apply Forall_forall. intros e He. apply in_map_iff in He. destruct He as [fb [<- _]].
    destruct fb as [[c mask] b]. cbn. apply vec_of_length.
  - exact H.
  - exists k. split; [exact Hk|]. apply Forall_forall. intros fb Hin.
    rewrite Forall_forall in Hs. apply sat_iff. apply Hs. apply in_map. exact Hin.
Qed.

Theorem consistent_complete m eqs k : Forall (satisfies m k) eqs -> consistent m eqs = true.
Proof.
  intros Hs. unfold consistent, solvable.
  destruct (solve_complete m (map (eqn_of m) eqs) [] k) as [piv' [E _]].
  - apply Forall_forall. intros e He. apply in_map_iff in He. destruct He as [fb [<- _]].
    destruct fb as [[c mask] b]. cbn. apply vec_of_length.
  - constructor.
  - apply Forall_forall. intros e He. apply in_map_iff in He. destruct He as [fb [<- Hin]].
    apply sat_iff. rewrite Forall_forall in Hs. apply Hs, Hin.
  - constructor.
  - rewrite E. reflexivity.
Qed.
