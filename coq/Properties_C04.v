(* C04 — Detection events and observables are the declared parities of measurements. *)
From Coq Require Import List Bool String ZArith.
Import ListNotations.
Require GenProofs_FrameMeas.
Require Import Stab Act Spec SpecProofs GF2 Gen_GateTable Gen_Frame GenProofs_Frame.

(* In the specification a DETECTOR appends, and an OBSERVABLE_INCLUDE accumulates, the XOR form of the named record entries
   and changes nothing else ... *)
Theorem C04_detector_step_appends_parity :
  forall n ks r,
  dets (sstep n (SDetector ks) r) = dets r ++ [parity_form (recs r) ks] /\
  recs (sstep n (SDetector ks) r) = recs r /\ st (sstep n (SDetector ks) r) = st r /\ obs (sstep n (SDetector ks) r) = obs r.
Proof. exact detector_step_appends_parity. Qed.
Theorem C04_observable_step_accumulates_parity :
  forall n idx ks r,
  obs (sstep n (SObservable idx ks []) r) = upd_obs idx (parity_form (recs r) ks) (obs r) /\
  recs (sstep n (SObservable idx ks []) r) = recs r /\ st (sstep n (SObservable idx ks []) r) = st r.
Proof. exact observable_step_accumulates_parity. Qed.
(* ... and under EVERY assignment of coins, faults and sweep bits the value of that form is the XOR of the values of the
   measurement results it names (so detection event = parity in the shot xor parity in the reference). *)
Theorem C04_parity_form_is_xor_of_values :
  forall m k rs ks,
  eval_form m k (parity_form rs ks) = fold_left (fun acc j => xorb acc (eval_form m k (rec_at rs j))) ks false.
Proof. exact parity_form_is_xor_of_values. Qed.
(* the frame routines that carry measurement flips forward are the table's unsigned action (tie G, shared with C02) *)
Theorem C04_frame_routines_match_table : frame_all_ok = true.
Proof. exact frame_generated_routines_match_table. Qed.
(* FrameSimulator's measurement / reset routines (do_MX .. do_MRZ, do_RX .. do_RZ), executed symbolically from the source on
   every run: the recorded flip is omega(basis, frame); the frame keeps (measurement) or loses (reset) exactly the component that
   anticommutes with the basis; frame randomisation goes along the basis and nowhere else *)
Theorem C04_frame_measure_reset_routines_match : GenProofs_FrameMeas.framemeas_all_ok = true.
Proof. exact GenProofs_FrameMeas.frame_measure_reset_routines_match_adjgen. Qed.
Print Assumptions C04_parity_form_is_xor_of_values.
Print Assumptions C04_frame_routines_match_table.

Example C04_nonvacuous :
  let r := srun 2 0 [SMeas [(0, (true, false))] false; SMeas [(0, (true, false))] false; SDetector [1; 2]] in
  dets r = [fzero] /\ List.length (recs r) = 2.
Proof. vm_compute. split; reflexivity. Qed.
