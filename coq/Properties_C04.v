(* C04 — Detection events and observables are the declared parities of measurements. *)
From Coq Require Import List Bool String ZArith.
Import ListNotations.
Require GenProofs_FrameMeas.
Require Pauli Sem Refine Run FrameRun RevTrack FrameProg RevProg.
Require Import Stab Act Spec SpecProofs GF2 Gen_GateTable Gen_Frame GenProofs_Frame.

(* In the specification a DETECTOR appends, and an OBSERVABLE_INCLUDE accumulates, the XOR form of the named record entries
   and changes nothing else ... *)
Theorem C04_detector_step_appends_parity :
  forall n ks r,
  dets (sstep n (SDetector ks) r) = dets r ++ [parity_form (recs r) ks] /\
  recs (sstep n (SDetector ks) r) = recs r /\ st (sstep n (SDetector ks) r) = st r /\ obs (sstep n (SDetector ks) r) = obs r.
Proof. exact detector_step_appends_parity. Qed.
Theorem C04_observable_step_accumulates_parity :
  forall n idx ks r,
  obs (sstep n (SObservable idx ks []) r) = upd_obs idx (parity_form (recs r) ks) (obs r) /\
  recs (sstep n (SObservable idx ks []) r) = recs r /\ st (sstep n (SObservable idx ks []) r) = st r.
Proof. exact observable_step_accumulates_parity. Qed.
(* ... and under EVERY assignment of coins, faults and sweep bits the value of that form is the XOR of the values of the
   measurement results it names (so detection event = parity in the shot xor parity in the reference). *)
Theorem C04_parity_form_is_xor_of_values :
  forall m k rs ks,
  eval_form m k (parity_form rs ks) = fold_left (fun acc j => xorb acc (eval_form m k (rec_at rs j))) ks false.
Proof. exact parity_form_is_xor_of_values. Qed.
(* the frame routines that carry measurement flips forward are the table's unsigned action (tie G, shared with C02) *)
Theorem C04_frame_routines_match_table : frame_all_ok = true.
Proof. exact frame_generated_routines_match_table. Qed.
(* FrameSimulator's measurement / reset routines (do_MX .. do_MRZ, do_RX .. do_RZ), executed symbolically from the source on
   every run: the recorded flip is omega(basis, frame); the frame keeps (measurement) or loses (reset) exactly the component that
   anticommutes with the basis; frame randomisation goes along the basis and nowhere else *)
Theorem C04_frame_measure_reset_routines_match : GenProofs_FrameMeas.framemeas_all_ok = true.
Proof. exact GenProofs_FrameMeas.frame_measure_reset_routines_match_adjgen. Qed.
Print Assumptions C04_parity_form_is_xor_of_values.
Print Assumptions C04_frame_routines_match_table.

Example C04_nonvacuous :
  let r := srun 2 0 [SMeas [(0, (true, false))] false; SMeas [(0, (true, false))] false; SDetector [1; 2]] in
  dets r = [fzero] /\ List.length (recs r) = 2.
Proof. vm_compute. split; reflexivity. Qed.

(* Detection events on whole adaptive programs: a shot's detector value is the reference value xor the anticommuting faults
   (RevProg.detector_in_every_shot) - the identity behind converting measurements to detection events with a reference sample. *)
Theorem C04_detection_event_is_reference_xor_anticommuting_faults :
  forall (n : nat) (extr exta : nat -> bool) (prog : list FrameProg.pop) (l la : list (Run.op * option bool))
         (s s' : (Pauli.pauli -> Pauli.pauli) * (Pauli.pauli -> Pauli.pauli)) (Sg S' : Sem.state) (d : list bool),
  Forall (FrameProg.okp n) prog -> Run.good n (fst s) (snd s) -> Run.Inv n (fst s) Sg ->
  FrameProg.realize extr [] prog l -> Run.sim_run n s l s' -> FrameProg.realize exta [] prog la -> Run.sem_run Sg la S' ->
  RevProg.gauge_okp n prog d -> (forall g, Refine.wf n g -> Sg g -> Sem.acom g (fst (RevProg.bt n prog d)) = false) ->
  RevTrack.par_rec la d = xorb (RevTrack.par_rec l d) (RevProg.ext_par n extr exta prog d).
Proof. exact RevProg.detector_in_every_shot. Qed.
Print Assumptions C04_detection_event_is_reference_xor_anticommuting_faults.
