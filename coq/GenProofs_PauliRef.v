(* Obligations over the GENERATED model of PauliStringRef (Gen_PauliRef.v) against the GENERATED gate table.
   Each is a finite computation accepted by the kernel (vm_compute); the lifting to strings of any length and
   target lists of any length is Act.run1_ext / Act.run2_ext. *)
From Coq Require Import List Bool String ZArith.
Import ListNotations.
Require Import Stab Act Gen_GateTable Gen_PauliRef.
Local Open Scope string_scope.

Definition tab1 (g : string) := local1 (flows_of (gate_named g)).
Definition tab2 (g : string) := local2 (flows_of (gate_named g)).
Definition itab1 (g : string) := local1 (flows_of (inverse_of (gate_named g))).
Definition itab2 (g : string) := local2 (flows_of (inverse_of (gate_named g))).

(* forward dispatch: routine = documented action, sign included *)
Definition bad_do1 := filter (fun '(g, f) => negb (unitary1 (gate_named g) && agree1 f (tab1 g))) pauliref_do1.
Definition bad_do2 := filter (fun '(g, f, _) => negb (unitary2 (gate_named g) && agree2 f (tab2 g))) pauliref_do2.
(* backward dispatch: routine = action of the table's inverse gate *)
Definition bad_undo1 := filter (fun '(g, f) => negb (unitary1 (gate_named g) && agree1 f (itab1 g))) pauliref_undo1.
Definition bad_undo2 := filter (fun '(g, f, _) => negb (unitary2 (gate_named g) && agree2 f (itab2 g))) pauliref_undo2.
(* forward dispatch never reverses pair order *)
Definition bad_do_rev := filter (fun '(g, f, r) => r) pauliref_do2.

(* coverage: every table gate with a fixed 1q/2q unitary action is dispatched, or is a documented no-op whose
   table action is the identity *)
Definition in1 (tbl : list (string * (bool -> bool -> bool -> t1))) (n : string) := existsb (fun '(g, _) => String.eqb g n) tbl.
Definition in2 (tbl : list (string * (bool -> bool -> bool -> bool -> bool -> t2) * bool)) (n : string) :=
  existsb (fun '(g, _, _) => String.eqb g n) tbl.
Definition noop_in (tbl : list (string * string)) (n : string) :=
  existsb (fun '(g, r) => String.eqb g n && String.eqb r "noop") tbl.
Definition uncovered tbl1 tbl2 other :=
  filter (fun e => (unitary1 e && negb (in1 tbl1 (e_name e) || (noop_in other (e_name e) && agree1 id1 (tab1 (e_name e)))))
                || (unitary2 e && negb (in2 tbl2 (e_name e) || (noop_in other (e_name e) && agree2 id2 (tab2 (e_name e))))))
         gate_table.

Definition names1 (l : list (string * (bool -> bool -> bool -> t1))) := map fst l.
Definition names2 (l : list (string * (bool -> bool -> bool -> bool -> bool -> t2) * bool)) := map (fun p => fst (fst p)) l.

(* diagnostics used by the failing-input search: which gates break, and on which local input *)
Definition witness1 (f g : bool -> bool -> bool -> t1) := filter (fun '(x,z,s) => negb (t1_eqb (f x z s) (g x z s))) all3.
Definition witness2 (f g : bool -> bool -> bool -> bool -> bool -> t2) :=
  filter (fun '(x1,z1,x2,z2,s) => negb (t2_eqb (f x1 z1 x2 z2 s) (g x1 z1 x2 z2 s))) all5.
Definition diag_do1 := map (fun '(g, f) => (g, witness1 f (tab1 g))) bad_do1.
Definition diag_do2 := map (fun '(g, f, _) => (g, witness2 f (tab2 g))) bad_do2.
Definition diag_undo1 := map (fun '(g, f) => (g, witness1 f (itab1 g))) bad_undo1.
Definition diag_undo2 := map (fun '(g, f, _) => (g, witness2 f (itab2 g))) bad_undo2.

Definition is_nil {A} (l : list A) : bool := match l with [] => true | _ => false end.
Definition pauliref_all_ok : bool :=
  is_nil pauliref_refused
  && is_nil (names1 bad_do1) && is_nil (names2 bad_do2) && is_nil (names1 bad_undo1) && is_nil (names2 bad_undo2)
  && is_nil (names2 bad_do_rev)
  && is_nil (uncovered pauliref_do1 pauliref_do2 pauliref_do_other)
  && is_nil (uncovered pauliref_undo1 pauliref_undo2 pauliref_undo_other).

Theorem pauliref_generated_routines_match_table : pauliref_all_ok = true.
Proof. vm_compute. reflexivity. Qed.

Lemma bad_do1_nil : bad_do1 = []. Proof. vm_compute. reflexivity. Qed.
Lemma bad_do2_nil : bad_do2 = []. Proof. vm_compute. reflexivity. Qed.
Lemma bad_undo1_nil : bad_undo1 = []. Proof. vm_compute. reflexivity. Qed.
Lemma bad_undo2_nil : bad_undo2 = []. Proof. vm_compute. reflexivity. Qed.

(* ---- consequences in usable form ---- *)
Lemma filter_nil_forall {A} (p : A -> bool) l : filter p l = [] -> forall a, In a l -> p a = false.
Proof. induction l as [|b l IH]; cbn; [tauto|]. destruct (p b) eqn:E; [discriminate|].
  intros H a [->|Hin]; auto. Qed.

(* every dispatched forward routine, on any string, any target list: equals the table action (sign included) *)
Theorem pauliref_do1_correct g f : In (g, f) pauliref_do1 -> forall ts P, run1 f ts P = run1 (tab1 g) ts P.
Proof.
  intros Hin. pose proof (filter_nil_forall _ _ bad_do1_nil _ Hin) as Hb. cbv beta iota in Hb.
  apply negb_false_iff, andb_true_iff in Hb. destruct Hb as [_ Hb]. apply run1_ext, agree1_eq, Hb.
Qed.
Theorem pauliref_do2_correct g f r : In (g, f, r) pauliref_do2 -> forall ts P, run2 f ts P = run2 (tab2 g) ts P.
Proof.
  intros Hin. pose proof (filter_nil_forall _ _ bad_do2_nil _ Hin) as Hb. cbv beta iota in Hb.
  apply negb_false_iff, andb_true_iff in Hb. destruct Hb as [_ Hb]. apply run2_ext, agree2_eq, Hb.
Qed.
Theorem pauliref_undo1_correct g f : In (g, f) pauliref_undo1 -> forall ts P, run1 f ts P = run1 (itab1 g) ts P.
Proof.
  intros Hin. pose proof (filter_nil_forall _ _ bad_undo1_nil _ Hin) as Hb. cbv beta iota in Hb.
  apply negb_false_iff, andb_true_iff in Hb. destruct Hb as [_ Hb]. apply run1_ext, agree1_eq, Hb.
Qed.
Theorem pauliref_undo2_correct g f r : In (g, f, r) pauliref_undo2 -> forall ts P, run2 f ts P = run2 (itab2 g) ts P.
Proof.
  intros Hin. pose proof (filter_nil_forall _ _ bad_undo2_nil _ Hin) as Hb. cbv beta iota in Hb.
  apply negb_false_iff, andb_true_iff in Hb. destruct Hb as [_ Hb]. apply run2_ext, agree2_eq, Hb.
Qed.

(* ---- pair order in the backward dispatch ----
   undo of `G a b c d ...` must undo the LAST pair first. A routine that walks the pairs in forward order (reverse flag
   false) is only right when applications of the routine on overlapping pairs commute; that is a finite check on three
   qubits (all 128 local inputs x the 6 ways two ordered pairs can overlap). *)
Definition t3 := (bool * bool * bool * bool * bool * bool * bool)%type.
Definition ap01 (f : bool -> bool -> bool -> bool -> bool -> t2) (v : t3) : t3 :=
  let '(x0,z0,x1,z1,x2,z2,s) := v in let '(a,b,c,d,s') := f x0 z0 x1 z1 s in (a,b,c,d,x2,z2,s').
Definition ap10 f (v : t3) : t3 :=
  let '(x0,z0,x1,z1,x2,z2,s) := v in let '(c,d,a,b,s') := f x1 z1 x0 z0 s in (a,b,c,d,x2,z2,s').
Definition ap12 f (v : t3) : t3 :=
  let '(x0,z0,x1,z1,x2,z2,s) := v in let '(a,b,c,d,s') := f x1 z1 x2 z2 s in (x0,z0,a,b,c,d,s').
Definition ap21 f (v : t3) : t3 :=
  let '(x0,z0,x1,z1,x2,z2,s) := v in let '(c,d,a,b,s') := f x2 z2 x1 z1 s in (x0,z0,a,b,c,d,s').
Definition ap02 f (v : t3) : t3 :=
  let '(x0,z0,x1,z1,x2,z2,s) := v in let '(a,b,c,d,s') := f x0 z0 x2 z2 s in (a,b,x1,z1,c,d,s').
Definition ap20 f (v : t3) : t3 :=
  let '(x0,z0,x1,z1,x2,z2,s) := v in let '(c,d,a,b,s') := f x2 z2 x0 z0 s in (a,b,x1,z1,c,d,s').
Definition all7 : list t3 :=
  flat_map (fun '(x0,z0,x1,z1,s) => flat_map (fun x2 => map (fun z2 => (x0,z0,x1,z1,x2,z2,s)) bools) bools) all5.
Definition t3_eqb (a b : t3) : bool :=
  let '(a0,a1,a2,a3,a4,a5,a6) := a in let '(b0,b1,b2,b3,b4,b5,b6) := b in
  Bool.eqb a0 b0 && Bool.eqb a1 b1 && Bool.eqb a2 b2 && Bool.eqb a3 b3 && Bool.eqb a4 b4 && Bool.eqb a5 b5 && Bool.eqb a6 b6.
Definition commute_on (g h : t3 -> t3) : bool := forallb (fun v => t3_eqb (g (h v)) (h (g v))) all7.
Definition self_commutes_on_overlaps (f : bool -> bool -> bool -> bool -> bool -> t2) : bool :=
  let a := ap01 f in
  commute_on a (ap10 f) && commute_on a (ap12 f) && commute_on a (ap21 f) && commute_on a (ap02 f) && commute_on a (ap20 f).
Definition bad_undo_order :=
  filter (fun '(g, f, rev) => negb (rev || self_commutes_on_overlaps f)) pauliref_undo2.
Theorem pauliref_undo_pair_order_ok : names2 bad_undo_order = [].
Proof. vm_compute. reflexivity. Qed.
