(* Whole runs of the inverse-tableau simulator refine the predicate-level stabilizer semantics (Sem.v).

   Simulator state: a map T from current-time Paulis to beginning-of-time Paulis with an inverse (the inverse tableau read as a map),
   "good" when it is a bijective, phase-linear, length-preserving homomorphism.  Semantic state: the membership predicate Sg of the
   stabilizer group.  Invariant: Sg P <-> T P is a +Z product.
   Operations: a Clifford (any good map C with inverse Ci; the simulator composes T with Ci), and the measurement of a Hermitian
   Pauli M.  If T M has no X part the simulator reports the sign of T M and changes nothing; otherwise it takes the coin c as the
   result and composes T with the collapse Clifford Ap of Collapse.v (pivot = first X position of T M).
   Theorem run_refines: along ANY sequence of operations and coins, every reported result is one the semantics allows
   (meas_det for fixed results, meas_rnd_ok for free ones), the semantic state evolves by the textbook rules (conjugation;
   post_rnd), and the invariant and goodness are preserved.  Resets and classically controlled Paulis are Clifford steps chosen
   from the record, so they are covered by the quantification over operation sequences. *)
From Coq Require Import List Bool Arith Lia.
Import ListNotations.
Require Import Pauli Collapse Sem Refine ApProps.

Section Run.
  Variable n : nat.
  Notation wf := (Refine.wf n).
  Definition Idn : pauli := (z4_0, zeros n).

  Record good (F G : pauli -> pauli) : Prop := {
    g_len : forall P, wf P -> wf (F P);
    g_ilen : forall P, wf P -> wf (G P);
    g_mul : forall P Q, wf P -> wf Q -> F (pmul P Q) = pmul (F P) (F Q);
    g_phase : forall k P, wf P -> F (z4_add k (fst P), snd P) = (z4_add k (fst (F P)), snd (F P));
    g_id : F Idn = Idn;
    g_FG : forall P, wf P -> F (G P) = P;
    g_GF : forall P, wf P -> G (F P) = P }.

  Definition Inv (T : pauli -> pauli) (Sg : state) : Prop := forall P, wf P -> (Sg P <-> Zplus (T P)).
  Definition herm (M : pauli) : Prop := wf M /\ pmul M M = Idn.

  (* ---------- Clifford step ---------- *)
  Lemma good_compose T Ti C Ci : good T Ti -> good Ci C -> good (fun P => T (Ci P)) (fun P => C (Ti P)).
  Proof.
    intros [a1 a2 a3 a4 a5 a6 a7] [b1 b2 b3 b4 b5 b6 b7]. constructor; intros.
    - apply a1, b1; assumption.
    - apply b2, a2; assumption.
    - rewrite b3 by assumption. apply a3; apply b1; assumption.
    - rewrite b4 by assumption. apply a4, b1; assumption.
    - rewrite b5. exact a5.
    - rewrite b6 by (apply a2; assumption). apply a6; assumption.
    - rewrite a7 by (apply b1; assumption). apply b7; assumption.
  Qed.
  Lemma inv_compose T Sg C Ci : good Ci C -> Inv T Sg -> Inv (fun P => T (Ci P)) (fun P => Sg (Ci P)).
  Proof. intros G I P HP. apply I. apply (g_len _ _ G). exact HP. Qed.

  (* ---------- measurement with a fixed result ---------- *)
  Lemma wf_neg s P : wf P -> wf (neg s P). Proof. exact (fun H => H). Qed.
  Lemma bxor_self l : bxor l l = zeros (length l).
  Proof. induction l as [|[x z] l IH]; cbn; [reflexivity|]. rewrite IH, !xorb_nilpotent. reflexivity. Qed.

  Lemma herm_image T Ti M : good T Ti -> herm M -> pmul (T M) (T M) = Idn.
  Proof. intros G [HM HH]. rewrite <- (g_mul _ _ G) by assumption. rewrite HH. apply (g_id _ _ G). Qed.

  Lemma det_sign T Ti M : good T Ti -> herm M -> xfreeb (snd (T M)) = true -> fst (fst (T M)) = false.
  Proof.
    intros G HM Hx. pose proof (herm_image T Ti M G HM) as E. apply (f_equal fst) in E. unfold pmul, Idn in E. cbn [fst snd] in E.
    rewrite (zx_par_xfree_r _ _ Hx) in E. destruct (fst (T M)) as [[] []]; cbn in E; try discriminate; reflexivity.
  Qed.

  Theorem measure_fixed T Ti Sg M : good T Ti -> Inv T Sg -> herm M -> xfreeb (snd (T M)) = true ->
    meas_det Sg M (snd (fst (T M))).
  Proof.
    intros G I HM Hx. unfold meas_det. apply I; [apply wf_neg, HM|].
    unfold neg. rewrite (g_phase _ _ G) by apply HM. split; cbn [fst snd]; [|exact Hx].
    pose proof (det_sign T Ti M G HM Hx) as E. destruct (fst (T M)) as [b0 b1]. cbn [fst snd] in *. subst b0. destruct b1; reflexivity.
  Qed.

  (* ---------- measurement with a free result ---------- *)
  Section Free.
    Variables (T Ti : pauli -> pauli) (Sg : state) (M : pauli).
    Variables (pre : bits) (km : z4) (zm0 : bool) (mt : bits) (c : bool).
    Hypothesis G : good T Ti.
    Hypothesis I : Inv T Sg.
    Hypothesis HM : herm M.
    Hypothesis pre_x : xfreeb pre = true.
    Hypothesis n_eq : n = length pre + (1 + length mt).
    Hypothesis TM : T M = (km, pre ++ (true, zm0) :: mt).
    Let ms := map fst mt.
    Let h := xorb zm0 (cn_sum ms mt).
    Let Mc := neg c M.
    Let kc := z4_add (z4_two c) km.

    Lemma TMc : T Mc = (kc, pre ++ (true, zm0) :: mt).
    Proof. unfold Mc, neg. rewrite (g_phase _ _ G) by apply HM. rewrite TM. reflexivity. Qed.

    Lemma free_not_in_group s : ~ Sg (neg s M).
    Proof.
      intros H. apply I in H; [|apply wf_neg, HM]. destruct H as [_ Hx]. unfold neg in Hx.
      rewrite (g_phase _ _ G) in Hx by apply HM. rewrite TM in Hx. cbn [fst snd] in Hx.
      rewrite xfreeb_app in Hx. cbn in Hx. rewrite andb_false_r in Hx. discriminate.
    Qed.
    Lemma free_ok : meas_rnd_ok Sg M.
    Proof. split; [|exact (free_not_in_group true)]. intros H. apply (free_not_in_group false). now rewrite neg_false. Qed.

    Lemma herm_suffix : pmul (kc, (true, zm0) :: mt) (kc, (true, zm0) :: mt) = (z4_0, zeros (1 + length mt)).
    Proof.
      assert (Hc : herm Mc).
      { split; [apply wf_neg, HM|]. unfold Mc. rewrite pmul_neg_l, pmul_neg_r, neg_neg, xorb_nilpotent. destruct HM as [_ E]. rewrite E. reflexivity. }
      pose proof (herm_image T Ti Mc G Hc) as E. rewrite TMc in E. unfold pmul, Idn in E. cbn [fst snd] in E.
      rewrite zx_par_app in E by reflexivity. rewrite (zx_par_xfree_r pre pre pre_x), xorb_false_l in E.
      apply (f_equal fst) in E. cbn [fst] in E. unfold pmul. cbn [fst snd]. f_equal; [exact E|]. apply bxor_self.
    Qed.

    Lemma sign_fix_exists : exists e, fst (A0 ms h e (kc, (true, zm0) :: mt)) = z4_0.
    Proof. apply e_exists. exact herm_suffix. Qed.

    Variable e : bool.
    Hypothesis He : fst (A0 ms h e (kc, (true, zm0) :: mt)) = z4_0.
    Let p := length pre.
    Definition T1 (P : pauli) : pauli := Ap p ms h e (T P).
    Definition Ti1 (P : pauli) : pauli := Ti (Apinv p ms h e P).

    Lemma n_ap : n = p + S (length ms).
    Proof. unfold p, ms. rewrite map_length. lia. Qed.

    Lemma good_after : good T1 Ti1.
    Proof.
      destruct G as [a1 a2 a3 a4 a5 a6 a7]. pose proof n_ap as Hn.
      assert (W : forall P, wf P <-> wfp p ms P) by (intros P; unfold Refine.wf, wfp; rewrite Hn; reflexivity).
      constructor; unfold T1, Ti1; intros.
      - apply W, Ap_length, W, a1. assumption.
      - apply a2, W, Apinv_length, W. assumption.
      - rewrite a3 by assumption. symmetry. apply Ap_hom; apply W, a1; assumption.
      - rewrite a4 by assumption. apply Ap_phase.
      - rewrite a5. unfold Idn. rewrite Hn. apply Ap_id.
      - rewrite a6 by (apply W, Apinv_length, W; assumption). apply Ap_Apinv, W. assumption.
      - rewrite Apinv_Ap by (apply W, a1; assumption). apply a7. assumption.
    Qed.

    Lemma post_is_S' P : wf P -> (post_rnd Sg M c P <-> Refine.S' n Sg Mc P).
    Proof.
      intros HP. unfold post_rnd, Refine.S'. fold Mc. split.
      - intros (eps & g & Hg & Hc & Hl & E). exists eps, g. repeat split; try assumption.
        unfold Refine.wf. rewrite Hl. apply HM.
      - intros (eps & g & Hw & Hg & Hc & E). exists eps, g. repeat split; try assumption.
        unfold Refine.wf in Hw. rewrite Hw. symmetry. apply HM.
    Qed.

    Theorem inv_after : Inv T1 (post_rnd Sg M c).
    Proof.
      intros P HP. rewrite (post_is_S' P HP).
      destruct G as [a1 a2 a3 a4 a5 a6 a7].
      exact (collapse_refines_measure n T Ti a1 a2 a3 a4 a5 a6 a7 Sg I Mc pre kc zm0 mt e (wf_neg c M (proj1 HM)) n_eq pre_x TMc herm_suffix He P HP).
    Qed.
  End Free.

  (* ---------- whole runs ---------- *)
  Inductive op :=
  | OpU (C Ci : pauli -> pauli)          (* a Clifford given as a map on Paulis and its inverse *)
  | OpM (M : pauli).                     (* measure a Hermitian Pauli *)

  (* one simulator step with its reported result (None for a Clifford) *)
  Inductive sim_step : (pauli -> pauli) * (pauli -> pauli) -> op -> option bool -> (pauli -> pauli) * (pauli -> pauli) -> Prop :=
  | SU T Ti C Ci : good Ci C -> sim_step (T, Ti) (OpU C Ci) None (fun P => T (Ci P), fun P => C (Ti P))
  | SFixed T Ti M : herm M -> xfreeb (snd (T M)) = true -> sim_step (T, Ti) (OpM M) (Some (snd (fst (T M)))) (T, Ti)
  | SFree T Ti M pre km zm0 mt c e : herm M -> xfreeb pre = true -> n = length pre + (1 + length mt) ->
      T M = (km, pre ++ (true, zm0) :: mt) ->
      fst (A0 (map fst mt) (xorb zm0 (cn_sum (map fst mt) mt)) e (z4_add (z4_two c) km, (true, zm0) :: mt)) = z4_0 ->
      sim_step (T, Ti) (OpM M) (Some c)
               (T1 T pre zm0 mt e, Ti1 Ti pre zm0 mt e).

  (* the semantics: what a state allows and becomes *)
  Inductive sem_step : state -> op -> option bool -> state -> Prop :=
  | MU Sg C Ci : sem_step Sg (OpU C Ci) None (fun P => Sg (Ci P))
  | MFixed Sg M o : meas_det Sg M o -> sem_step Sg (OpM M) (Some o) Sg
  | MFree Sg M c : meas_rnd_ok Sg M -> sem_step Sg (OpM M) (Some c) (post_rnd Sg M c).

  Theorem step_refines s op r s' Sg : good (fst s) (snd s) -> Inv (fst s) Sg -> sim_step s op r s' ->
    exists Sg', sem_step Sg op r Sg' /\ good (fst s') (snd s') /\ Inv (fst s') Sg'.
  Proof.
    intros G I H. destruct H as [T Ti C Ci HC | T Ti M HM Hx | T Ti M pre km zm0 mt c e HM Hp Hn HT He]; cbn [fst snd] in *.
    - exists (fun P => Sg (Ci P)). split; [constructor|]. split; [now apply good_compose| now apply (inv_compose T Sg C Ci)].
    - exists Sg. split; [constructor; now apply (measure_fixed T Ti)|]. split; assumption.
    - exists (post_rnd Sg M c). split; [constructor; eapply free_ok; eassumption|]. split.
      + eapply good_after; eassumption.
      + eapply inv_after; eassumption.
  Qed.

  Inductive sim_run : (pauli -> pauli) * (pauli -> pauli) -> list (op * option bool) -> (pauli -> pauli) * (pauli -> pauli) -> Prop :=
  | RNil s : sim_run s [] s
  | RCons s o r s1 l s2 : sim_step s o r s1 -> sim_run s1 l s2 -> sim_run s ((o, r) :: l) s2.
  Inductive sem_run : state -> list (op * option bool) -> state -> Prop :=
  | ENil Sg : sem_run Sg [] Sg
  | ECons Sg o r Sg1 l Sg2 : sem_step Sg o r Sg1 -> sem_run Sg1 l Sg2 -> sem_run Sg ((o, r) :: l) Sg2.

  Theorem run_refines l : forall s s' Sg, good (fst s) (snd s) -> Inv (fst s) Sg -> sim_run s l s' ->
    exists Sg', sem_run Sg l Sg' /\ good (fst s') (snd s') /\ Inv (fst s') Sg'.
  Proof.
    induction l as [|[o r] l IH]; intros s s' Sg G I H; inversion H; subst.
    - exists Sg. split; [constructor|]. split; assumption.
    - match goal with Hs : sim_step s o r ?s1, Hr : sim_run ?s1 l s' |- _ =>
        destruct (step_refines s o r s1 Sg G I Hs) as (Sg1 & Hsem & G1 & I1);
        destruct (IH s1 s' Sg1 G1 I1 Hr) as (Sg2 & Hsem2 & G2 & I2) end.
      exists Sg2. split; [econstructor; eassumption|]. split; assumption.
  Qed.

  (* the simulator never gets stuck on a Hermitian measurement: one of the two cases applies, and in the free case a sign fix exists *)
  Theorem measurement_always_steps T Ti M (c : bool) : good T Ti -> herm M -> exists r s', sim_step (T, Ti) (OpM M) r s'.
  Proof.
    intros G HM. destruct (xfreeb (snd (T M))) eqn:Hx.
    - eexists; eexists. now apply SFixed.
    - (* split the image at its first X position *)
      assert (Hsplit : forall l : bits, xfreeb l = false -> exists pre zm0 mt, xfreeb pre = true /\ l = pre ++ (true, zm0) :: mt).
      { induction l as [|[x z] l IHl]; cbn; intros Hl; [discriminate|]. destruct x; cbn in Hl.
        - exists [], z, l. split; reflexivity.
        - destruct (IHl Hl) as (pre & zm0 & mt & Hp & E). exists ((false, z) :: pre), zm0, mt. split; [cbn; exact Hp| now rewrite E]. }
      destruct (Hsplit _ Hx) as (pre & zm0 & mt & Hp & E).
      assert (HT : T M = (fst (T M), pre ++ (true, zm0) :: mt)) by (rewrite <- E; apply surjective_pairing).
      assert (Hn : n = length pre + (1 + length mt)).
      { pose proof (g_len _ _ G M (proj1 HM)) as L. unfold Refine.wf in L. rewrite E, app_length in L. cbn [length] in L. lia. }
      destruct (sign_fix_exists T Ti M pre (fst (T M)) zm0 mt c G HM Hp HT) as [e He].
      eexists; eexists. exact (SFree T Ti M pre (fst (T M)) zm0 mt c e HM Hp Hn HT He).
  Qed.
End Run.
Print Assumptions run_refines.
Print Assumptions measurement_always_steps.

(* the all-zero state: the identity map and the +Z products *)
Lemma init_good n : good n (fun P => P) (fun P => P).
Proof. constructor; intros; try reflexivity; try assumption. Qed.
Lemma init_inv n : Inv n (fun P => P) (fun P => Zplus P).
Proof. intros P _. reflexivity. Qed.
Corollary run_from_zero_state n l s' : sim_run n (fun P => P, fun P => P) l s' ->
  exists Sg', sem_run (fun P => Zplus P) l Sg' /\ good n (fst s') (snd s') /\ Inv n (fst s') Sg'.
Proof. intros H. exact (run_refines n l (fun P => P, fun P => P) s' (fun P => Zplus P) (init_good n) (init_inv n) H). Qed.
Check run_refines. Check measurement_always_steps. Check run_from_zero_state.
