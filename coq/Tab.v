From Coq Require Import List Bool Arith Lia Ring Btauto.
Import ListNotations.
Require Import Pauli Collapse Sem Span.

(* A tableau as a map on XZ-form Paulis: images xs_q of X_q and zs_q of Z_q (Hermitian, with the
   canonical commutation relations).  eval T (i^k X^x Z^z) = i^k (prod_q xs_q^{x_q}) (prod_q zs_q^{z_q}).
   eval_hom: it is a homomorphism, phases included — this is what discharges the hypotheses of
   Refine.collapse_refines_measure and underlies C11 (then / inverse / operator()). *)
Section Tab.
  Variable n : nat.
  Notation wf := (wfn n).
  Notation Id := (Id n).
  Notation prod := (prod n).
  Notation pw := (pw n).

  Local Hint Resolve wfn_Id wfn_pmul wfn_neg wfn_pw wfn_prod : wf.

  Definition herm (gs : list pauli) : Prop := Forall (fun g => wf g /\ pmul g g = Id) gs.
  Definition comm_all (g : pauli) (gs : list pauli) : Prop := Forall (fun g' => acom g g' = false) gs.
  Fixpoint pairwise_comm (gs : list pauli) : Prop :=
    match gs with [] => True | g :: gs' => comm_all g gs' /\ pairwise_comm gs' end.
  (* zs_i anticommutes with xs_i and commutes with every other xs_j *)
  Fixpoint dual (zs xs : list pauli) : Prop :=
    match zs, xs with
    | z :: zs', x :: xs' => acom z x = true /\ comm_all z xs' /\ Forall (fun z' => acom z' x = false) zs' /\ dual zs' xs'
    | [], [] => True
    | _, _ => False end.
  Fixpoint dot (a b : list bool) : bool :=
    match a, b with x :: a', y :: b' => xorb (andb x y) (dot a' b') | _, _ => false end.
  Fixpoint bxor1 (a b : list bool) : list bool :=
    match a, b with x :: a', y :: b' => xorb x y :: bxor1 a' b' | _, _ => [] end.

  Lemma herm_wf gs : herm gs -> Forall wf gs.
  Proof. apply Forall_impl. intros g [H _]; exact H. Qed.

  Lemma pw_add g a b : wf g -> pmul g g = Id -> pmul (pw g a) (pw g b) = pw g (xorb a b).
  Proof. intros Hw Hs. destruct a, b; cbn; [exact Hs| apply (pmul_Id_r n), Hw| apply (pmul_Id_l n), Hw| apply (pmul_Id_l n), wfn_Id]. Qed.

  Lemma comm_prod g sel gs : wf g -> Forall wf gs -> comm_all g gs -> acom g (prod sel gs) = false.
  Proof. intros Hg Hw Hc. rewrite acom_sym, (acom_prod n) by assumption.
    revert sel; induction gs as [|g' gs IH]; intros [|b sel]; cbn; try reflexivity.
    apply Forall_cons_iff in Hw as [_ Hw]. apply Forall_cons_iff in Hc as [Hg' Hc].
    rewrite IH by assumption. rewrite acom_sym, Hg'. destruct b; reflexivity. Qed.
  Lemma acom_pw_l g b X : acom g X = false -> acom (pw g b) X = false.
  Proof. destruct b; cbn; [auto| intros _; apply (acom_Id_l n)]. Qed.

  (* products over commuting Hermitian generators add exponents *)
  Lemma prod_add a b gs : herm gs -> pairwise_comm gs -> length a = length gs -> length b = length gs ->
    pmul (prod a gs) (prod b gs) = prod (bxor1 a b) gs.
  Proof.
    revert a b; induction gs as [|g gs IH]; intros [|a0 a] [|b0 b] Hh Hp La Lb; cbn in La, Lb; try lia.
    - cbn. apply (pmul_Id_l n), wfn_Id.
    - pose proof (herm_wf _ Hh) as Hw. apply Forall_cons_iff in Hh as [[Hg Hs] Hh]. destruct Hp as [Hc Hp].
      apply Forall_cons_iff in Hw as [_ Hw].
      cbn [Span.prod bxor1].
      set (A := prod a gs). set (B := prod b gs).
      assert (HA : wf A) by (apply wfn_prod, Hw). assert (HB : wf B) by (apply wfn_prod, Hw).
      assert (HcA : acom (pw g b0) A = false) by (apply acom_pw_l, comm_prod; assumption).
      (* (g^a0 A)(g^b0 B) = g^a0 (A g^b0) B = g^a0 (g^b0 A) B = (g^a0 g^b0)(A B) *)
      rewrite <- (assoc n (pw g a0) A) by auto with wf.
      rewrite (assoc n A (pw g b0) B) by auto with wf.
      rewrite <- (commute (pw g b0) A HcA).
      rewrite <- (assoc n (pw g b0) A B) by auto with wf.
      rewrite (assoc n (pw g a0) (pw g b0)) by auto with wf.
      rewrite pw_add by assumption. unfold A, B. rewrite IH by (assumption || lia). reflexivity.
  Qed.

  (* commutation sign between a Z-image product and an X-image product *)
  Lemma acom_dual a b zs xs : Forall wf zs -> Forall wf xs -> dual zs xs -> length a = length zs -> length b = length xs ->
    acom (prod a zs) (prod b xs) = dot a b.
  Proof.
    revert a b xs; induction zs as [|z zs IH]; intros [|a0 a] [|b0 b] [|x xs] Hwz Hwx Hd La Lb; cbn in La, Lb, Hd; try lia; try contradiction.
    - cbn. apply (acom_Id_l n).
    - destruct Hd as (Hzx & Hzxs & Hzsx & Hd).
      apply Forall_cons_iff in Hwz as [Hz Hwz]. apply Forall_cons_iff in Hwx as [Hx Hwx].
      cbn [Span.prod dot].
      set (A := prod a zs). set (B := prod b xs).
      assert (HA : wf A) by (apply wfn_prod, Hwz). assert (HB : wf B) by (apply wfn_prod, Hwx).
      rewrite (acom_mul_l n) by auto with wf.
      rewrite (acom_sym (pw z a0)), (acom_sym A). rewrite !(acom_mul_l n) by auto with wf.
      assert (E1 : acom (pw x b0) (pw z a0) = andb a0 b0).
      { destruct a0, b0; cbn; rewrite ?(acom_Id_l n); try reflexivity; [rewrite acom_sym; exact Hzx| apply acom_zeros_r]. }
      assert (E2 : acom B (pw z a0) = false).
      { rewrite acom_sym. apply acom_pw_l, comm_prod; assumption. }
      assert (E3 : acom (pw x b0) A = false).
      { apply acom_pw_l. rewrite acom_sym. unfold A. rewrite (acom_prod n) by assumption.
        clear - Hzsx. revert a; induction zs as [|z' zs IH']; intros [|a1 a]; cbn; try reflexivity.
        apply Forall_cons_iff in Hzsx as [H1 H2]. rewrite IH' by exact H2. rewrite H1. destruct a1; reflexivity. }
      assert (E4 : acom B A = dot a b).
      { rewrite acom_sym. unfold A, B. apply IH; assumption || lia. }
      rewrite E1, E2, E3, E4. btauto.
  Qed.

  (* ---------- the tableau map ---------- *)
  Variables (xs zs : list pauli).
  Hypothesis xs_len : length xs = n.
  Hypothesis zs_len : length zs = n.
  Hypothesis xs_herm : herm xs.
  Hypothesis zs_herm : herm zs.
  Hypothesis xs_comm : pairwise_comm xs.
  Hypothesis zs_comm : pairwise_comm zs.
  Hypothesis zx_dual : dual zs xs.

  Definition ph (k : z4) (P : pauli) : pauli := (z4_add k (fst P), snd P).
  Definition eval (P : pauli) : pauli :=
    ph (fst P) (pmul (prod (map fst (snd P)) xs) (prod (map snd (snd P)) zs)).

  Lemma ph_pmul_l k P Q : pmul (ph k P) Q = ph k (pmul P Q).
  Proof. unfold ph, pmul; cbn [fst snd]. f_equal. ring. Qed.
  Lemma ph_pmul_r k P Q : pmul P (ph k Q) = ph k (pmul P Q).
  Proof. unfold ph, pmul; cbn [fst snd]. f_equal. ring. Qed.
  Lemma ph_ph k k' P : ph k (ph k' P) = ph (z4_add k k') P.
  Proof. unfold ph; cbn [fst snd]. f_equal. ring. Qed.
  Lemma neg_is_ph s P : neg s P = ph (z4_two s) P. Proof. reflexivity. Qed.
  Lemma wf_ph k P : wf P -> wf (ph k P). Proof. exact (fun H => H). Qed.

  Lemma map_fst_bxor a b : length a = length b -> map fst (bxor a b) = bxor1 (map fst a) (map fst b).
  Proof. revert b; induction a as [|p a IH]; intros [|q b] L; cbn in *; try lia; [reflexivity|]. rewrite IH by lia. reflexivity. Qed.
  Lemma map_snd_bxor a b : length a = length b -> map snd (bxor a b) = bxor1 (map snd a) (map snd b).
  Proof. revert b; induction a as [|p a IH]; intros [|q b] L; cbn in *; try lia; [reflexivity|]. rewrite IH by lia. reflexivity. Qed.
  Lemma dot_zx a b : dot (map snd a) (map fst b) = zx_par a b.
  Proof. revert b; induction a as [|p a IH]; intros [|q b]; cbn; try reflexivity. rewrite IH. reflexivity. Qed.

  Theorem eval_phase k P : eval (ph k P) = ph k (eval P).
  Proof. unfold eval; cbn [fst snd ph]. rewrite ph_ph. reflexivity. Qed.

  Theorem eval_wf P : wf (eval P).
  Proof. unfold eval. apply wf_ph. auto using herm_wf with wf. Qed.

  Theorem eval_hom P Q : wf P -> wf Q -> eval (pmul P Q) = pmul (eval P) (eval Q).
  Proof.
    intros HP HQ. destruct P as [kP lP], Q as [kQ lQ]. unfold wfn in HP, HQ; cbn [snd] in HP, HQ.
    unfold eval. cbn [fst snd pmul]. unfold pmul at 1; cbn [fst snd].
    rewrite map_fst_bxor, map_snd_bxor by lia.
    pose proof (herm_wf _ xs_herm) as Wx. pose proof (herm_wf _ zs_herm) as Wz.
    rewrite <- (prod_add (map fst lP) (map fst lQ) xs) by (rewrite ?map_length; assumption || lia).
    rewrite <- (prod_add (map snd lP) (map snd lQ) zs) by (rewrite ?map_length; assumption || lia).
    set (XP := prod (map fst lP) xs). set (ZP := prod (map snd lP) zs).
    set (XQ := prod (map fst lQ) xs). set (ZQ := prod (map snd lQ) zs).
    assert (HXP : wf XP) by (apply wfn_prod, Wx). assert (HZP : wf ZP) by (apply wfn_prod, Wz).
    assert (HXQ : wf XQ) by (apply wfn_prod, Wx). assert (HZQ : wf ZQ) by (apply wfn_prod, Wz).
    rewrite ph_pmul_l, ph_pmul_r, ph_ph.
    (* (XP ZP)(XQ ZQ) = XP (ZP XQ) ZQ, and ZP XQ = (-1)^d XQ ZP *)
    assert (Ed : pmul ZP XQ = neg (zx_par lP lQ) (pmul XQ ZP)).
    { assert (Ea : acom ZP XQ = zx_par lP lQ).
      { unfold ZP, XQ. rewrite (acom_dual (map snd lP) (map fst lQ) zs xs) by (rewrite ?map_length; assumption || lia). apply dot_zx. }
      rewrite pmul_comm_sign. fold (acom ZP XQ). rewrite Ea.
      unfold neg. destruct (pmul XQ ZP) as [k l]. cbn [fst snd]. f_equal. apply z4_add_comm. }
    assert (E : pmul (pmul XP ZP) (pmul XQ ZQ) = neg (zx_par lP lQ) (pmul (pmul XP XQ) (pmul ZP ZQ))).
    { rewrite <- (assoc n XP ZP) by auto with wf. rewrite (assoc n ZP XQ ZQ) by auto with wf.
      rewrite Ed. rewrite pmul_neg_l, pmul_neg_r.
      rewrite <- (assoc n XQ ZP ZQ) by auto with wf. rewrite (assoc n XP XQ) by auto with wf. reflexivity. }
    rewrite E. rewrite neg_is_ph, ph_ph. f_equal.
  Qed.
End Tab.
Print Assumptions eval_hom.
