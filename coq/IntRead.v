(* The decimal readers of the parsers (read_uint24_t, read_uint60_t, read_uint63_t) on a machine word: arithmetic modulo 2^w.
   Two loop shapes occur in the source:
     post-check:  result = result*10 + digit (mod 2^w); if (result >= lim) throw
     pre-check:   if (result > (lim - 1 - digit) / 10) throw; result = result*10 + digit
   The parser models (Target.read_u24, DemTargets.read_u60) use unbounded N. Theorems: the post-check machine loop IS the unbounded
   loop whenever lim*10 + 9 < 2^w (true for 2^24 in 32 bits and 2^60 in 64 bits, false for 2^63 in 64 bits, where the machine loop
   accepts 2^64+1 as 1: `post_check_u63_refuted`); the pre-check loop is the unbounded loop for every lim <= 2^w. *)
From Coq Require Import List Bool NArith Lia.
Import ListNotations.
Require Import Dec Target DemTargets.
Local Open Scope N_scope.

Fixpoint post_loop (w lim : N) (s : list N) (acc : N) : option (N * list N) :=
  match s with
  | c :: s' =>
      if is_digit c then
        let acc' := (acc * 10 + (c - 48)) mod 2 ^ w in
        if lim <=? acc' then None else
        match s' with
        | c2 :: _ => if is_digit c2 then post_loop w lim s' acc' else Some (acc', s')
        | [] => Some (acc', [])
        end
      else None
  | [] => None
  end.

Fixpoint pre_loop (w lim : N) (s : list N) (acc : N) : option (N * list N) :=
  match s with
  | c :: s' =>
      if is_digit c then
        let d := c - 48 in
        if (lim - 1 - d) / 10 <? acc then None else
        let acc' := (acc * 10 + d) mod 2 ^ w in
        match s' with
        | c2 :: _ => if is_digit c2 then pre_loop w lim s' acc' else Some (acc', s')
        | [] => Some (acc', [])
        end
      else None
  | [] => None
  end.

Lemma is_digit_range c : is_digit c = true -> 48 <= c /\ c - 48 <= 9.
Proof. unfold is_digit. rewrite andb_true_iff, !N.leb_le. lia. Qed.

Theorem post_loop_is_unbounded w lim : lim * 10 + 9 < 2 ^ w ->
  forall s acc, acc < lim -> post_loop w lim s acc = read_lim_loop lim s acc.
Proof.
  intros Hw. induction s as [|c s IH]; intros acc Hacc; cbn [post_loop read_lim_loop]; [reflexivity|].
  destruct (is_digit c) eqn:Hd; [|reflexivity]. apply is_digit_range in Hd. destruct Hd as [_ Hd].
  rewrite N.mod_small by nia.
  destruct (lim <=? acc * 10 + (c - 48)) eqn:Hl; [reflexivity|]. apply N.leb_gt in Hl.
  destruct s as [|c2 s2]; [reflexivity|]. destruct (is_digit c2); [|reflexivity]. apply IH. exact Hl.
Qed.

Theorem pre_loop_is_unbounded w lim : 10 <= lim -> lim <= 2 ^ w ->
  forall s acc, acc < lim -> pre_loop w lim s acc = read_lim_loop lim s acc.
Proof.
  intros H0 Hw. induction s as [|c s IH]; intros acc Hacc; cbn [pre_loop read_lim_loop]; [reflexivity|].
  destruct (is_digit c) eqn:Hd; [|reflexivity]. apply is_digit_range in Hd. destruct Hd as [_ Hd].
  set (d := c - 48) in *.
  destruct ((lim - 1 - d) / 10 <? acc) eqn:Hp.
  - apply N.ltb_lt in Hp. assert (Hge : lim <= acc * 10 + d).
    { destruct (N.le_gt_cases lim (acc * 10 + d)) as [Hle|Hgt]; [exact Hle|exfalso].
      assert (acc <= (lim - 1 - d) / 10) by (apply N.div_le_lower_bound; lia). lia. }
    apply N.leb_le in Hge. rewrite Hge. reflexivity.
  - apply N.ltb_ge in Hp.
    assert (Hlt : acc * 10 + d < lim).
    { pose proof (N.mul_div_le (lim - 1 - d) 10 ltac:(lia)). nia. }
    rewrite N.mod_small by lia. apply N.leb_gt in Hlt. rewrite Hlt. apply N.leb_gt in Hlt.
    destruct s as [|c2 s2]; [reflexivity|]. destruct (is_digit c2); [|reflexivity]. apply IH. exact Hlt.
Qed.

(* the shapes that occur, instantiated *)
Corollary u24_machine_is_model s : post_loop 32 LIM s 0 = read_u24 s.
Proof. unfold read_u24. rewrite (post_loop_is_unbounded 32 LIM); [|vm_compute; reflexivity|vm_compute; reflexivity].
  generalize 0 at 1 2. induction s as [|c s IH]; intros n; [reflexivity|]. cbn [read_lim_loop read_u24_loop].
  destruct (is_digit c); [|reflexivity]. destruct (LIM <=? n * 10 + (c - 48)); [reflexivity|].
  destruct s as [|c2 s2]; [reflexivity|]. destruct (is_digit c2); [|reflexivity]. apply IH. Qed.
Corollary u60_machine_is_model s : post_loop 64 LIM60 s 0 = read_u60 s.
Proof. unfold read_u60. apply post_loop_is_unbounded; vm_compute; reflexivity. Qed.
Definition LIM63 : N := 9223372036854775808.
Corollary u63_precheck_machine_is_unbounded s : pre_loop 64 LIM63 s 0 = read_lim_loop LIM63 s 0.
Proof. apply pre_loop_is_unbounded; vm_compute; try reflexivity; discriminate. Qed.

(* the post-check shape with limit 2^63 in a 64-bit word accepts 2^64 + 1 and returns 1 *)
Definition digits_of (l : list N) : list N := map (fun d => d + 48) l.
Example post_check_u63_refuted :
  post_loop 64 LIM63 (digits_of [1;8;4;4;6;7;4;4;0;7;3;7;0;9;5;5;1;6;1;7]) 0 = Some (1, []) /\
  read_lim_loop LIM63 (digits_of [1;8;4;4;6;7;4;4;0;7;3;7;0;9;5;5;1;6;1;7]) 0 = None.
Proof. vm_compute. split; reflexivity. Qed.

(* which obligation each shape needs, as a boolean the generated rows are checked with *)
Definition shape_ok (pre : bool) (w k : N) : bool :=
  if pre then (10 <=? 2 ^ k) && (2 ^ k <=? 2 ^ w) else 2 ^ k * 10 + 9 <? 2 ^ w.
Theorem shape_ok_sound pre w k : shape_ok pre w k = true ->
  forall s, (if pre then pre_loop w (2 ^ k) s 0 else post_loop w (2 ^ k) s 0) = read_lim_loop (2 ^ k) s 0.
Proof.
  unfold shape_ok. destruct pre; intros H s.
  - apply andb_true_iff in H. destruct H as [H1 H2]. apply N.leb_le in H1, H2. apply pre_loop_is_unbounded; lia.
  - apply N.ltb_lt in H. apply post_loop_is_unbounded; [exact H|]. assert (0 < 2 ^ k) by (apply N.neq_0_lt_0, N.pow_nonzero; discriminate). lia.
Qed.
