(* The linear algebra behind vlib/equiv.py: outputs of a symbolic run are an affine map x = c + sum_i v_i col_i of the fair coins v.
   If the constant difference and every column of A lie in the column span of B, then every outcome of A is an outcome of B.
   Applied in both directions the two supports (affine subspaces, on which the outcome is uniformly distributed) coincide. *)
From Coq Require Import List Bool Arith Lia.
Import ListNotations.

Definition vec := nat -> bool.
Fixpoint comb (cols : list vec) (w : list bool) : vec :=
  match cols, w with
  | c :: cs, b :: bs => fun j => xorb (b && c j) (comb cs bs j)
  | _, _ => fun _ => false
  end.
Fixpoint bxorl (a b : list bool) : list bool :=
  match a, b with x :: a', y :: b' => xorb x y :: bxorl a' b' | _, _ => [] end.

Lemma bxorl_length a b : length a = length b -> length (bxorl a b) = length a.
Proof. revert b; induction a as [|x a IH]; intros [|y b] H; cbn in *; try lia. rewrite IH; lia. Qed.

Lemma comb_linear cols : forall w1 w2, length w1 = length cols -> length w2 = length cols ->
  forall j, comb cols (bxorl w1 w2) j = xorb (comb cols w1 j) (comb cols w2 j).
Proof.
  induction cols as [|c cs IH]; intros [|a w1] [|b w2] H1 H2 j; cbn in *; try lia; try reflexivity.
  rewrite IH by lia. destruct a, b, (c j), (comb cs w1 j), (comb cs w2 j); reflexivity.
Qed.

Lemma comb_zero cols j : comb cols (repeat false (length cols)) j = false.
Proof. induction cols as [|c cs IH]; cbn; [reflexivity|]. rewrite IH. reflexivity. Qed.

Definition in_span (colsB : list vec) (x : vec) : Prop :=
  exists w, length w = length colsB /\ forall j, x j = comb colsB w j.

Lemma span_of_comb colsA colsB : Forall (in_span colsB) colsA ->
  forall v, length v = length colsA -> in_span colsB (comb colsA v).
Proof.
  intros HA. induction HA as [|col colsA [wc [Lc Ec]] _ IH]; intros v Hv.
  - exists (repeat false (length colsB)). split; [apply repeat_length|]. intros j.
    rewrite comb_zero. destruct v; reflexivity.
  - destruct v as [|b v]; cbn in Hv; [lia|]. destruct (IH v ltac:(lia)) as [w' [Lw Ew]].
    destruct b.
    + exists (bxorl wc w'). split; [rewrite bxorl_length; lia|]. intros j. cbn [comb].
      rewrite comb_linear by lia. rewrite <- Ec, <- Ew. cbn [andb]. reflexivity.
    + exists w'. split; [exact Lw|]. intros j. cbn [comb andb]. rewrite <- Ew. destruct (comb colsA v j); reflexivity.
Qed.

(* every outcome of A is an outcome of B *)
Theorem affine_image_included (cA cB : vec) (colsA colsB : list vec) :
  in_span colsB (fun j => xorb (cA j) (cB j)) -> Forall (in_span colsB) colsA ->
  forall v, length v = length colsA ->
  exists v', length v' = length colsB /\ forall j, xorb (cA j) (comb colsA v j) = xorb (cB j) (comb colsB v' j).
Proof.
  intros [w0 [L0 E0]] HA v Hv. destruct (span_of_comb colsA colsB HA v Hv) as [w [Lw Ew]].
  exists (bxorl w0 w). split; [rewrite bxorl_length; lia|]. intros j.
  rewrite comb_linear by lia. rewrite <- E0, <- Ew. destruct (cA j), (cB j), (comb colsA v j); reflexivity.
Qed.

(* non-vacuity: x = (v0, v0) and x = (w0 + 1, w0 + 1) + ... have the same support *)
Example same_support_example :
  let cA : vec := fun _ => false in let cB : vec := fun j => Nat.ltb j 2 in
  let col : vec := fun j => Nat.ltb j 2 in
  forall v, length v = 1 -> exists v', length v' = 1 /\ forall j, xorb (cA j) (comb [col] v j) = xorb (cB j) (comb [col] v' j).
Proof.
  intros cA cB col. apply (affine_image_included cA cB [col] [col]).
  - exists [true]. split; [reflexivity|]. intros j. unfold cA, cB, col. cbn. rewrite ?xorb_false_r, ?xorb_false_l. destruct (j <=? 1); reflexivity.
  - constructor; [|constructor]. exists [true]. split; [reflexivity|]. intros j. cbn. rewrite ?xorb_false_r. destruct (col j); reflexivity.
Qed.
