From Coq Require Import List Bool Arith Lia Ring Btauto.
Import ListNotations.
Require Import Pauli Collapse Sem Span Tab Refine.

(* The tableau map of Tab.v meets every hypothesis Refine.collapse_refines_measure makes about T. *)
Section Inst.
  Variable n : nat.
  Variables (xs zs : list pauli).
  Hypothesis xs_len : length xs = n.
  Hypothesis zs_len : length zs = n.
  Hypothesis xs_herm : herm n xs.
  Hypothesis zs_herm : herm n zs.
  Hypothesis xs_comm : pairwise_comm xs.
  Hypothesis zs_comm : pairwise_comm zs.
  Hypothesis zx_dual : dual zs xs.
  Let T := eval n xs zs.

  Lemma prod_none gs m : prod n (repeat false m) gs = Id n.
  Proof. revert m; induction gs as [|g gs IH]; intros [|m]; cbn; try reflexivity.
    rewrite IH. apply pmul_Id_l, wfn_Id. Qed.
  Lemma map_fst_zeros m : map fst (zeros m) = repeat false m.
  Proof. induction m; cbn; [reflexivity|]. f_equal. assumption. Qed.
  Lemma map_snd_zeros m : map snd (zeros m) = repeat false m.
  Proof. induction m; cbn; [reflexivity|]. f_equal. assumption. Qed.

  Lemma T_id : T (z4_0, zeros n) = (z4_0, zeros n).
  Proof. unfold T, eval; cbn [fst snd]. rewrite map_fst_zeros, map_snd_zeros, !prod_none.
    rewrite pmul_Id_l by apply wfn_Id. reflexivity. Qed.
  Lemma T_len P : Refine.wf n P -> Refine.wf n (T P).
  Proof. intros _. apply (eval_wf n xs zs xs_herm zs_herm). Qed.
  Lemma T_hom P Q : Refine.wf n P -> Refine.wf n Q -> T (pmul P Q) = pmul (T P) (T Q).
  Proof. apply eval_hom; assumption. Qed.
  Lemma T_phase k P : Refine.wf n P -> T (z4_add k (fst P), snd P) = (z4_add k (fst (T P)), snd (T P)).
  Proof. intros _. apply (eval_phase n xs zs k P). Qed.

  (* with an inverse map (the stored inverse tableau's own eval, C11 `then_inverse_id`) the refinement theorem applies *)
  Variable Tinv : pauli -> pauli.
  Hypothesis Tinv_len : forall P, Refine.wf n P -> Refine.wf n (Tinv P).
  Hypothesis T_Tinv : forall P, Refine.wf n P -> T (Tinv P) = P.
  Hypothesis Tinv_T : forall P, Refine.wf n P -> Tinv (T P) = P.
  Definition refine_for_tableau :=
    collapse_refines_measure n T Tinv T_len Tinv_len T_hom T_phase T_id T_Tinv Tinv_T.
  Check refine_for_tableau.
End Inst.
Print Assumptions refine_for_tableau.
