From Coq Require Import List Bool Arith Lia NArith Permutation.
Import ListNotations.
Require Import Cycle Simple.

(* C17, last step: a simple closed walk with non-zero mask (closed at the boundary B or avoiding it) yields a
   path of the graphlike search's state graph — states (active, held, mask), only `active` moves, an edge to
   the held detector ends the search, an edge to the boundary hands over to the held detector — from the
   start state of one of its non-zero-mask edges, in either orientation, to an undetected state carrying
   the walk's mask, using length-1 moves. *)
Section StatePath.
  Variable B : nat.
  Variable G : list edge.
  Hypothesis G_noloop : forall e, In e G -> eu e <> ev e.

  Definition state := (nat * nat * N)%type.
  Definition nxt (h : nat) (m : N) (y : nat) (e : edge) : state :=
    let m' := N.lxor m (em e) in
    if Nat.eqb y h then (y, h, m') else if Nat.eqb y B then (h, B, m') else (y, h, m').
  Inductive sstep : state -> state -> Prop :=
  | sstep_intro a h m e : In e G -> inc a e = true -> sstep (a, h, m) (nxt h m (other a e) e).
  Inductive spath : nat -> state -> state -> Prop :=
  | sp0 st : spath 0 st st
  | spS k st1 st2 st3 : sstep st1 st2 -> spath k st2 st3 -> spath (S k) st1 st3.

  Lemma spath_app j k a b c : spath j a b -> spath k b c -> spath (j + k) a c.
  Proof. induction 1; cbn; intros H2; [exact H2| econstructor; eauto]. Qed.

  Lemma inc_of_touch a e : In e G -> (eu e = a \/ ev e = a) -> inc a e = true.
  Proof. intros Hin Ht. pose proof (G_noloop e Hin) as Hn. unfold inc.
    destruct (Nat.eqb_spec a (eu e)), (Nat.eqb_spec a (ev e)); try reflexivity; destruct Ht; congruence. Qed.
  Lemma other_other a e : (eu e = a \/ ev e = a) -> other (other a e) e = a.
  Proof. intros H. unfold other at 2. destruct (Nat.eqb_spec a (eu e)) as [E|E]; unfold other.
    - destruct (Nat.eqb_spec (ev e) (eu e)); congruence.
    - rewrite Nat.eqb_refl. destruct H; congruence. Qed.
  Lemma touch_other a e : (eu e = a \/ ev e = a) -> (eu e = other a e \/ ev e = other a e).
  Proof. unfold other. destruct (Nat.eqb_spec a (eu e)); intros _; [right| left]; reflexivity. Qed.

  (* ---- list helpers ---- *)
  Lemma removelast_incl {T} (l : list T) v : In v (removelast l) -> In v l.
  Proof. induction l as [|a l IH]; cbn; [auto|]. destruct l; [intros []|]. intros [H|H]; [left; exact H| right; apply IH, H]. Qed.
  Lemma NoDup_last_notin {T} (l : list T) d : NoDup l -> l <> [] -> ~ In (last l d) (removelast l).
  Proof. intros Hn Hne Hin. rewrite (app_removelast_last d Hne) in Hn. apply NoDup_remove_2 in Hn.
    rewrite app_nil_r in Hn. exact (Hn Hin). Qed.
  Lemma vseq_last a es d : es <> [] -> last (vseq a es) d = endv a es.
  Proof. unfold endv. destruct es as [|e es]; [congruence|]. intros _. cbn [vseq]. rewrite !last_cons_def. reflexivity. Qed.

  (* ---- moving `active` along a chain ---- *)
  Lemma walk_path h : forall es a m, chain a es -> es <> [] -> incl es G ->
    (forall v, In v (removelast (vseq a es)) -> v <> B /\ v <> h) ->
    (endv a es = h \/ endv a es = B) ->
    spath (length es) (a, h, m)
          (if Nat.eqb (endv a es) h then (h, h, N.lxor m (mask_of es)) else (h, B, N.lxor m (mask_of es))).
  Proof.
    induction es as [|e es IH]; intros a m Hc Hne Hin Hint Hend; [congruence|].
    destruct Hc as [Ht Hc]. assert (HeG : In e G) by (apply Hin; left; reflexivity).
    pose proof (sstep_intro a h m e HeG (inc_of_touch a e HeG Ht)) as Hs.
    destruct es as [|e2 es'].
    - (* last move *)
      cbn [length]. apply (spS 0 _ _ _ Hs). rewrite endv_cons, endv_nil in *. unfold nxt. cbn [mask_of]. rewrite N.lxor_0_r.
      destruct (Nat.eqb_spec (other a e) h) as [E|E]; [rewrite E; apply sp0|].
      destruct Hend as [Hend|Hend]; [congruence|]. rewrite Hend, Nat.eqb_refl. apply sp0.
    - (* interior move *)
      set (y := other a e) in *. set (es2 := e2 :: es') in *.
      assert (Hy : y <> B /\ y <> h).
      { apply Hint. cbn [vseq]. fold y. unfold es2. cbn [vseq removelast]. left. reflexivity. }
      destruct Hy as [HyB Hyh].
      assert (Hn : nxt h m y e = (y, h, N.lxor m (em e))).
      { unfold nxt. destruct (Nat.eqb_spec y h); [congruence|]. destruct (Nat.eqb_spec y B); [congruence|]. reflexivity. }
      rewrite Hn in Hs. cbn [length]. apply (spS _ _ _ _ Hs).
      rewrite endv_cons. fold y. cbn [mask_of]. rewrite <- N.lxor_assoc.
      apply IH; [exact Hc| discriminate| intros x Hx; apply Hin; right; exact Hx| | rewrite endv_cons in Hend; exact Hend].
      intros v Hv. apply Hint. cbn [vseq]. fold y. unfold es2 in *. cbn [vseq removelast] in *. right. exact Hv.
  Qed.

  (* ---- reversing a chain ---- *)
  Definition vfull (a : nat) (es : list edge) : list nat := a :: vseq a es.
  Lemma chain_rev : forall es a, chain a es ->
    chain (endv a es) (rev es) /\ endv (endv a es) (rev es) = a /\ vfull (endv a es) (rev es) = rev (vfull a es).
  Proof.
    induction es as [|e es IH]; intros a Hc; [cbn; auto|].
    destruct Hc as [Ht Hc]. set (y := other a e). destruct (IH y Hc) as (H1 & H2 & H3).
    rewrite endv_cons. fold y. set (t := endv y es) in *. cbn [rev].
    split; [|split].
    - apply chain_app. split; [exact H1|]. rewrite H2. cbn [chain]. split; [apply touch_other, Ht| exact I].
    - rewrite endv_app, H2. rewrite endv_cons, endv_nil. apply other_other, Ht.
    - unfold vfull in *. rewrite vseq_app, H2. cbn [vseq]. unfold y at 1. rewrite (other_other a e Ht).
      change (t :: vseq t (rev es) ++ [a]) with ((t :: vseq t (rev es)) ++ [a]). rewrite H3. fold y. cbn [rev]. reflexivity.
  Qed.

  Lemma mask_of_rev es : mask_of (rev es) = mask_of es.
  Proof. apply mask_of_perm. symmetry. apply Permutation_rev. Qed.

  (* a vertex of a chain is touched by one of its edges *)
  Lemma vseq_touch : forall es a v, chain a es -> In v (vseq a es) -> exists e, In e es /\ touches v e.
  Proof.
    induction es as [|e es IH]; intros a v Hc Hv; [destruct Hv|]. destruct Hc as [Ht Hc]. cbn [vseq] in Hv. destruct Hv as [<-|Hv].
    - exists e. split; [left; reflexivity|]. apply touch_other, Ht.
    - destruct (IH _ _ Hc Hv) as (e' & He' & Ht'). exists e'. split; [right; exact He'| exact Ht'].
  Qed.

  Lemma in_last {T} (l : list T) d : l <> [] -> In (last l d) l.
  Proof. intros H. rewrite (app_removelast_last d H) at 2. apply in_or_app. right. left. reflexivity. Qed.
  Lemma NoDup_app_disj {T} (l1 l2 : list T) v : NoDup (l1 ++ l2) -> In v l1 -> In v l2 -> False.
  Proof. induction l1 as [|a l1 IH]; cbn; intros Hn H1 H2; [destruct H1|]. apply NoDup_cons_iff in Hn as [Ha Hn].
    destruct H1 as [<-|H1]; [apply Ha, in_or_app; right; exact H2| exact (IH Hn H1 H2)]. Qed.
  Lemma NoDup_app_l {T} (l1 l2 : list T) : NoDup (l1 ++ l2) -> NoDup l1.
  Proof. induction l1 as [|a l1 IH]; cbn; intros H; [constructor|]. apply NoDup_cons_iff in H as [Ha H].
    constructor; [intros Hi; apply Ha, in_or_app; left; exact Hi| apply IH, H]. Qed.
  Lemma NoDup_app_r {T} (l1 l2 : list T) : NoDup (l1 ++ l2) -> NoDup l2.
  Proof. induction l1 as [|a l1 IH]; cbn; intros H; [exact H|]. apply NoDup_cons_iff in H as [_ H]. apply IH, H. Qed.
  Lemma endv_in a es : es <> [] -> In (endv a es) (vseq a es).
  Proof. intros H. rewrite <- (vseq_last a es a H). apply in_last. destruct es; [congruence| discriminate]. Qed.
  Lemma vseq_nonnil a es : es <> [] -> vseq a es <> [].
  Proof. destruct es; [congruence| discriminate]. Qed.

  Lemma nonzero_edge : forall C, mask_of C <> 0%N -> exists C1 e C3, C = C1 ++ e :: C3 /\ em e <> 0%N.
  Proof. induction C as [|a C IH]; cbn; intros H; [congruence|]. destruct (N.eq_dec (em a) 0%N) as [Hz|Hnz].
    - rewrite Hz, N.lxor_0_l in H. destruct (IH H) as (C1 & e & C3 & -> & He). exists (a :: C1), e, C3. auto.
    - exists [], a, C. auto. Qed.

  (* the search path that starts with `active` = the far endpoint of e (as seen from the walk's start) *)
  Lemma orientA s C1 e C3 :
    chain s C1 -> (eu e = endv s C1 \/ ev e = endv s C1) ->
    chain (other (endv s C1) e) C3 -> endv (other (endv s C1) e) C3 = s ->
    NoDup (vseq s C1 ++ other (endv s C1) e :: vseq (other (endv s C1) e) C3) ->
    good B s (C1 ++ e :: C3) -> incl (C1 ++ e :: C3) G -> other (endv s C1) e <> B ->
    exists z, spath (length C3 + length C1) (other (endv s C1) e, endv s C1, em e) (z, z, mask_of (C1 ++ e :: C3)).
  Proof.
    intros Hc1 Ht Hc3 He3 HND Hg Hin HyB.
    destruct (Nat.eq_dec s B) as [HsB|HsB].
    - (* closed at the boundary *)
      subst s. set (x := endv B C1) in *. set (y := other x e) in *.
      assert (Hin1 : incl C1 G) by (intros a Ha; apply Hin, in_or_app; left; exact Ha).
      assert (Hin3 : incl C3 G) by (intros a Ha; apply Hin, in_or_app; right; right; exact Ha).
      assert (HeG : In e G) by (apply Hin, in_or_app; right; left; reflexivity).
      assert (Hmask : mask_of (C1 ++ e :: C3) = N.lxor (mask_of C1) (N.lxor (em e) (mask_of C3))) by (rewrite mask_of_app; reflexivity).
      pose proof (NoDup_app_l _ _ HND) as ND1. pose proof (NoDup_app_r _ _ HND) as ND3'. apply NoDup_cons_iff in ND3' as [Hy3 ND3].
      assert (HC3 : C3 <> []) by (intros ->; rewrite endv_nil in He3; congruence).
      assert (HB3 : In B (vseq y C3)) by (rewrite <- He3; apply endv_in, HC3).
      assert (Hint3 : forall v, In v (removelast (vseq y C3)) -> v <> B /\ v <> x).
      { intros v Hv. assert (HvB : v <> B).
        { intros ->. apply (NoDup_last_notin (vseq y C3) y ND3 (vseq_nonnil y C3 HC3)). rewrite (vseq_last y C3 y HC3), He3. exact Hv. }
        split; [exact HvB|]. intros ->. destruct C1 as [|e1 C1']; [unfold x in HvB; rewrite endv_nil in HvB; congruence|].
        apply (NoDup_app_disj _ _ x HND); [apply endv_in; discriminate| right; apply removelast_incl, Hv]. }
      pose proof (walk_path x C3 y (em e) Hc3 HC3 Hin3 Hint3 (or_intror He3)) as P1. rewrite He3 in P1.
      destruct (Nat.eqb_spec B x) as [HxB|HxB].
      + (* e is incident to the boundary on the near side: C1 is empty *)
        assert (HC1 : C1 = []).
        { destruct C1 as [|e1 C1']; [reflexivity|]. exfalso.
          apply (NoDup_app_disj _ _ x HND); [apply endv_in; discriminate| right; rewrite <- HxB; exact HB3]. }
        subst C1. exists x. cbn [length app]. rewrite Nat.add_0_r. cbn [app] in Hmask. rewrite Hmask. cbn [mask_of]. rewrite N.lxor_0_l. exact P1.
      + assert (HC1 : C1 <> []) by (intros ->; unfold x in HxB; rewrite endv_nil in HxB; congruence).
        destruct (chain_rev C1 B Hc1) as (Hr1 & Hr2 & Hr3). fold x in Hr1, Hr2, Hr3.
        assert (HrC1 : rev C1 <> []) by (intros E; apply (f_equal (@rev _)) in E; rewrite rev_involutive in E; cbn in E; congruence).
        assert (HBn1 : ~ In B (vseq B C1)) by (intros HI; apply (NoDup_app_disj _ _ B HND HI); right; exact HB3).
        assert (NDr : NoDup (vseq x (rev C1))).
        { assert (NDf : NoDup (vfull x (rev C1))) by (rewrite Hr3; apply NoDup_rev; unfold vfull; constructor; assumption).
          unfold vfull in NDf. apply NoDup_cons_iff in NDf as [_ NDf]. exact NDf. }
        assert (Hintr : forall v, In v (removelast (vseq x (rev C1))) -> v <> B /\ v <> B).
        { intros v Hv. assert (v <> B); [|tauto]. intros ->.
          apply (NoDup_last_notin (vseq x (rev C1)) x NDr (vseq_nonnil x _ HrC1)). rewrite (vseq_last x _ x HrC1), Hr2. exact Hv. }
        pose proof (walk_path B (rev C1) x (N.lxor (em e) (mask_of C3)) Hr1 HrC1
                      (fun a Ha => Hin1 a (proj2 (in_rev C1 a) Ha)) Hintr (or_introl Hr2)) as P2.
        rewrite Hr2, Nat.eqb_refl, rev_length, mask_of_rev in P2.
        exists B. rewrite Hmask. rewrite (N.lxor_comm (mask_of C1)). apply (spath_app _ _ _ _ _ P1 P2).
    - (* the walk avoids the boundary *)
      set (x := endv s C1) in *. set (y := other x e) in *.
      assert (Hin1 : incl C1 G) by (intros a Ha; apply Hin, in_or_app; left; exact Ha).
      assert (Hin3 : incl C3 G) by (intros a Ha; apply Hin, in_or_app; right; right; exact Ha).
      assert (HeG : In e G) by (apply Hin, in_or_app; right; left; reflexivity).
      assert (Hmask : mask_of (C1 ++ e :: C3) = N.lxor (mask_of C1) (N.lxor (em e) (mask_of C3))) by (rewrite mask_of_app; reflexivity).
      pose proof (NoDup_app_l _ _ HND) as ND1. pose proof (NoDup_app_r _ _ HND) as ND3'. apply NoDup_cons_iff in ND3' as [Hy3 ND3].
      assert (Hav : Forall (fun e => ~ touches B e) (C1 ++ e :: C3)) by (destruct Hg as [Hg|Hg]; [congruence| exact Hg]).
      rewrite Forall_forall in Hav.
      set (P := C3 ++ C1).
      assert (HcP : chain y P) by (apply chain_app; rewrite He3; auto).
      assert (HeP : endv y P = x) by (unfold P; rewrite endv_app, He3; reflexivity).
      assert (HvP : vseq y P = vseq y C3 ++ vseq s C1) by (unfold P; rewrite vseq_app, He3; reflexivity).
      assert (HinP : incl P G) by (intros a Ha; apply in_app_or in Ha as [Ha|Ha]; auto).
      assert (HP : P <> []).
      { unfold P. destruct C3 as [|e3 C3']; [|discriminate]. destruct C1 as [|e1 C1']; [|discriminate]. exfalso.
        pose proof (G_noloop e HeG) as Hn. change (other s e = s) in He3. change (eu e = s \/ ev e = s) in Ht.
        unfold other in He3. destruct (Nat.eqb_spec s (eu e)); destruct Ht; congruence. }
      assert (NDP : NoDup (vseq y P)).
      { rewrite HvP. apply (Permutation_NoDup (Permutation_app_comm _ _)). apply (NoDup_remove_1 _ _ _ HND). }
      assert (HintP : forall v, In v (removelast (vseq y P)) -> v <> B /\ v <> x).
      { intros v Hv. split.
        - intros ->. destruct (vseq_touch P y B HcP (removelast_incl _ _ Hv)) as (e' & He' & Ht').
          apply (Hav e'); [|exact Ht']. apply in_app_or in He' as [He'|He']; apply in_or_app; [right; right; exact He'| left; exact He'].
        - intros ->. apply (NoDup_last_notin (vseq y P) y NDP (vseq_nonnil y P HP)). rewrite (vseq_last y P y HP), HeP. exact Hv. }
      pose proof (walk_path x P y (em e) HcP HP HinP HintP (or_introl HeP)) as P1.
      rewrite HeP, Nat.eqb_refl in P1. exists x. unfold P in P1. rewrite app_length, mask_of_app in P1.
      rewrite Hmask. rewrite (N.lxor_comm (mask_of C1)), N.lxor_assoc. exact P1.
  Qed.

  (* reversing a closed chain permutes its vertex sequence *)
  Lemma closed_rev s C : chain s C -> endv s C = s -> C <> [] -> Permutation (vseq s (rev C)) (vseq s C).
  Proof.
    intros Hc He Hne. destruct (chain_rev C s Hc) as (_ & _ & H3). rewrite He in H3. unfold vfull in H3.
    pose proof (app_removelast_last s (vseq_nonnil s C Hne)) as Ev. rewrite (vseq_last s C s Hne), He in Ev.
    set (R := removelast (vseq s C)) in *. rewrite Ev in H3. cbn [rev] in H3. rewrite rev_app_distr in H3. cbn [rev app] in H3.
    injection H3 as H3. rewrite H3, Ev. apply Permutation_app_tail. symmetry. apply Permutation_rev.
  Qed.

  Theorem search_path_exists s C : chain s C -> endv s C = s -> NoDup (vseq s C) -> good B s C ->
    mask_of C <> 0%N -> incl C G ->
    exists e u v, In e C /\ em e <> 0%N /\ (eu e = u \/ ev e = u) /\ v = other u e /\
      (v <> B -> exists z, spath (length C - 1) (v, u, em e) (z, z, mask_of C)) /\
      (u <> B -> exists z, spath (length C - 1) (u, v, em e) (z, z, mask_of C)).
  Proof.
    intros Hc He Hnd Hg Hm Hin.
    destruct (nonzero_edge C Hm) as (C1 & e & C3 & EC & Hme).
    assert (HCne : C <> []) by (rewrite EC; destruct C1; discriminate).
    assert (HL : length C - 1 = length C3 + length C1) by (rewrite EC, app_length; cbn [length]; lia).
    set (x := endv s C1). set (y := other x e).
    pose proof Hc as Hc'. rewrite EC in Hc'. apply chain_app in Hc' as [Hc1 Hc23]. fold x in Hc23. destruct Hc23 as [Ht Hc3]. fold y in Hc3.
    assert (He3 : endv y C3 = s) by (rewrite <- He, EC, endv_app, endv_cons; reflexivity).
    assert (Hv : vseq s C = vseq s C1 ++ y :: vseq y C3) by (rewrite EC, vseq_app; reflexivity).
    exists e, x, y. split; [rewrite EC; apply in_or_app; right; left; reflexivity|]. split; [exact Hme|]. split; [exact Ht|]. split; [reflexivity|].
    split.
    - (* active = y *)
      intros HyB. rewrite HL. rewrite EC.
      apply (orientA s C1 e C3 Hc1 Ht Hc3 He3); [fold x; fold y; rewrite <- Hv; exact Hnd| rewrite <- EC; exact Hg| rewrite <- EC; exact Hin| exact HyB].
    - (* active = x: the same statement for the reversed walk *)
      intros HxB.
      destruct (chain_rev C3 y Hc3) as (Hr3 & Hr3e & _). rewrite He3 in Hr3, Hr3e.
      destruct (chain_rev C1 s Hc1) as (Hr1 & Hr1e & _). fold x in Hr1, Hr1e.
      assert (Hty : eu e = y \/ ev e = y) by (apply touch_other, Ht).
      assert (Hoy : other y e = x) by (apply other_other, Ht).
      assert (ErC : rev C = rev C3 ++ e :: rev C1) by (rewrite EC, rev_app_distr; cbn [rev]; rewrite <- app_assoc; reflexivity).
      assert (Hvr : vseq s (rev C) = vseq s (rev C3) ++ x :: vseq x (rev C1)).
      { rewrite ErC, vseq_app, Hr3e. cbn [vseq]. rewrite Hoy. reflexivity. }
      assert (Hndr : NoDup (vseq s (rev C3) ++ x :: vseq x (rev C1))).
      { rewrite <- Hvr. apply (Permutation_NoDup (Permutation_sym (closed_rev s C Hc He HCne))). exact Hnd. }
      assert (Hgr : good B s (rev C3 ++ e :: rev C1)).
      { rewrite <- ErC. destruct Hg as [Hg|Hg]; [left; exact Hg| right]. rewrite Forall_forall in *. intros a Ha. apply Hg, in_rev, Ha. }
      assert (Hinr : incl (rev C3 ++ e :: rev C1) G) by (rewrite <- ErC; intros a Ha; apply Hin, in_rev, Ha).
      pose proof (orientA s (rev C3) e (rev C1)) as OA. rewrite Hr3e, Hoy in OA.
      destruct (OA Hr3 Hty Hr1 Hr1e Hndr Hgr Hinr HxB) as (z & Hz).
      exists z. rewrite <- ErC, mask_of_rev, !rev_length in Hz. rewrite HL, Nat.add_comm. exact Hz.
  Qed.

  (* end to end: below the size of any undetectable logical error made of graph edges there is a search path *)
  Corollary graphlike_lower_bound E : undetectable B E -> mask_of E <> 0%N -> incl E G ->
    exists L e u v m, L <= length E /\ In e G /\ em e <> 0%N /\ (eu e = u \/ ev e = u) /\ v = other u e /\ m <> 0%N /\
      (v <> B -> exists z, spath (L - 1) (v, u, em e) (z, z, m)) /\
      (u <> B -> exists z, spath (L - 1) (u, v, em e) (z, z, m)).
  Proof.
    intros Hu Hm HinE.
    destruct (simple_cycle_le_min_error B E Hu Hm) as (s & C & Hc & He & HmC & Hg & Hnd & HL & HinC).
    assert (HinG : incl C G) by (intros a Ha; apply HinE, HinC, Ha).
    destruct (search_path_exists s C Hc He Hnd Hg HmC HinG) as (e & u & v & HeC & Hme & Ht & Hv & P1 & P2).
    exists (length C), e, u, v, (mask_of C). repeat split; auto.
  Qed.
End StatePath.
Print Assumptions graphlike_lower_bound.
