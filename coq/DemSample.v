(* C16: a sampled shot of a detector error model is the XOR of the targets of the errors that fired.
   `shot_of` is the model of DemSampler::resample's accumulation (each fired error toggles each of its detector / observable
   targets; separators are ignored); `parity_count` is the bit-by-bit definition: a symptom is set iff it occurs an odd
   number of times among the targets of the fired errors. Any number of errors, any targets, duplicates included. *)
From Coq Require Import List NArith Bool Arith Lia.
Import ListNotations.
Require Import DemFlat.

Definition dt_eqb (a b : dtarget) : bool :=
  match a, b with TD i, TD j => N.eqb i j | TL i, TL j => N.eqb i j | TSep, TSep => true | _, _ => false end.
Lemma dt_eqb_eq a b : dt_eqb a b = true <-> a = b.
Proof. destruct a, b; cbn; rewrite ?N.eqb_eq; split; intros H; try congruence; try discriminate; inversion H; reflexivity. Qed.
Lemma dt_eqb_refl a : dt_eqb a a = true. Proof. apply dt_eqb_eq; reflexivity. Qed.

(* a shot is a function from symptoms to bits *)
Definition shot := dtarget -> bool.
Definition empty_shot : shot := fun _ => false.
Definition toggle (t : dtarget) (s : shot) : shot :=
  fun x => match t with TSep => s x | _ => if dt_eqb x t then negb (s x) else s x end.
Definition apply_error (ts : list dtarget) (s : shot) : shot := fold_left (fun (s0 : shot) (t : dtarget) => toggle t s0) ts s.
(* errors paired with whether they fired *)
Definition shot_of (errs : list (list dtarget * bool)) : shot :=
  fold_left (fun (s : shot) (e : list dtarget * bool) => if snd e then apply_error (fst e) s else s) errs empty_shot.

Fixpoint count (x : dtarget) (l : list dtarget) : nat :=
  match l with [] => 0 | t :: r => (if dt_eqb x t then 1 else 0) + count x r end.
Definition fired_targets (errs : list (list dtarget * bool)) : list dtarget :=
  flat_map (fun e : list dtarget * bool => if snd e then fst e else []) errs.

Lemma apply_error_spec ts : forall s x, x <> TSep -> apply_error ts s x = xorb (s x) (Nat.odd (count x ts)).
Proof.
  induction ts as [|t ts IH]; intros s x Hx; cbn [apply_error fold_left count].
  - cbn. now rewrite xorb_false_r.
  - change (fold_left (fun s0 t0 => toggle t0 s0) ts (toggle t s) x) with (apply_error ts (toggle t s) x).
    rewrite IH by exact Hx.
    destruct t as [i|i|]; cbn [toggle].
    + destruct (dt_eqb x (TD i)) eqn:E; cbn [Nat.add].
      * rewrite Nat.odd_succ, <- Nat.negb_odd. destruct (s x), (Nat.odd (count x ts)); reflexivity.
      * reflexivity.
    + destruct (dt_eqb x (TL i)) eqn:E; cbn [Nat.add].
      * rewrite Nat.odd_succ, <- Nat.negb_odd. destruct (s x), (Nat.odd (count x ts)); reflexivity.
      * reflexivity.
    + destruct (dt_eqb x TSep) eqn:E; [apply dt_eqb_eq in E; contradiction|]. reflexivity.
Qed.

Lemma count_app x a b : count x (a ++ b) = count x a + count x b.
Proof. induction a as [|t a IH]; cbn [app count]; [reflexivity|]. rewrite IH. lia. Qed.

Lemma shot_fold_spec errs : forall s x, x <> TSep ->
  fold_left (fun (s : shot) (e : list dtarget * bool) => if snd e then apply_error (fst e) s else s) errs s x =
  xorb (s x) (Nat.odd (count x (fired_targets errs))).
Proof.
  induction errs as [|[ts b] errs IH]; intros s x Hx; cbn [fold_left fired_targets flat_map fst snd].
  - cbn. now rewrite xorb_false_r.
  - rewrite IH by exact Hx. destruct b.
    + rewrite apply_error_spec by exact Hx. unfold fired_targets. rewrite count_app, Nat.odd_add.
      generalize (Nat.odd (count x (flat_map (fun e : list dtarget * bool => if snd e then fst e else []) errs))) as c.
      intros c. destruct (s x), (Nat.odd (count x ts)), c; reflexivity.
    + reflexivity.
Qed.

(* the sampled shot is the XOR (parity) of the targets of exactly the errors that fired *)
Theorem dem_shot_is_xor_of_fired errs x : x <> TSep ->
  shot_of errs x = Nat.odd (count x (fired_targets errs)).
Proof. intros Hx. unfold shot_of. rewrite shot_fold_spec by exact Hx. unfold empty_shot. apply xorb_false_l. Qed.

(* replaying the recorded fired bits reproduces the shot: shot_of is a function of (errors, fired bits) only *)
Corollary replay_reproduces errs1 errs2 : errs1 = errs2 -> forall x, shot_of errs1 x = shot_of errs2 x.
Proof. intros ->; reflexivity. Qed.
