From Coq Require Import List Bool Arith Lia NArith Permutation.
Import ListNotations.

(* C17 cycle lemma: in a graph whose edges carry observable masks, with a distinguished boundary vertex B,
   every edge multiset E that is undetectable (even degree at every vertex other than B) and has a non-zero
   total mask contains a closed walk (at B, or anywhere if E avoids B) using each of its edges at most once,
   of length <= |E|, with non-zero mask.  Hence the shortest closed walk found by breadth-first search is no
   longer than the smallest undetectable logical error. *)
Section Cycle.
  Variable B : nat.
  Definition edge := (nat * nat * N)%type.
  Definition eu (e : edge) := fst (fst e).
  Definition ev (e : edge) := snd (fst e).
  Definition em (e : edge) := snd e.

  Definition inc (w : nat) (e : edge) : bool := xorb (Nat.eqb w (eu e)) (Nat.eqb w (ev e)).  (* self-loops count 0 *)
  Fixpoint deg_par (w : nat) (E : list edge) : bool :=
    match E with [] => false | e :: E' => xorb (inc w e) (deg_par w E') end.
  Fixpoint mask_of (E : list edge) : N :=
    match E with [] => 0%N | e :: E' => N.lxor (em e) (mask_of E') end.
  Definition undetectable (E : list edge) : Prop := forall w, w <> B -> deg_par w E = false.
  Definition touches (w : nat) (e : edge) : Prop := eu e = w \/ ev e = w.

  (* undirected walks *)
  Inductive walk : nat -> nat -> list edge -> Prop :=
  | walk_nil s : walk s s []
  | walk_fwd s t e es : eu e = s -> walk (ev e) t es -> walk s t (e :: es)
  | walk_bwd s t e es : ev e = s -> walk (eu e) t es -> walk s t (e :: es).

  Lemma deg_par_app w E F : deg_par w (E ++ F) = xorb (deg_par w E) (deg_par w F).
  Proof. induction E as [|e E IH]; cbn; [destruct (deg_par w F); reflexivity|]. rewrite IH.
    destruct (inc w e), (deg_par w E), (deg_par w F); reflexivity. Qed.
  Lemma mask_of_app E F : mask_of (E ++ F) = N.lxor (mask_of E) (mask_of F).
  Proof. induction E as [|e E IH]; cbn; [reflexivity|]. rewrite IH, N.lxor_assoc. reflexivity. Qed.
  Lemma deg_par_perm w E F : Permutation E F -> deg_par w E = deg_par w F.
  Proof. induction 1; cbn; try congruence.
    destruct (inc w x), (inc w y), (deg_par w l); reflexivity. Qed.
  Lemma mask_of_perm E F : Permutation E F -> mask_of E = mask_of F.
  Proof. induction 1; cbn; try congruence.
    rewrite <- !N.lxor_assoc, (N.lxor_comm (em y)). reflexivity. Qed.

  Lemma walk_deg s t es : walk s t es -> forall w, deg_par w es = xorb (Nat.eqb w s) (Nat.eqb w t).
  Proof.
    induction 1 as [s | s t e es Hu _ IH | s t e es Hv _ IH]; intros w; cbn.
    - destruct (Nat.eqb w s); reflexivity.
    - rewrite IH. unfold inc. rewrite Hu. destruct (Nat.eqb w s), (Nat.eqb w (ev e)), (Nat.eqb w t); reflexivity.
    - rewrite IH. unfold inc. rewrite Hv. destruct (Nat.eqb w s), (Nat.eqb w (eu e)), (Nat.eqb w t); reflexivity.
  Qed.

  (* odd degree at w means some edge of the list is incident to w and is not a self-loop *)
  Lemma odd_has_edge w E : deg_par w E = true ->
    exists E1 e E2, E = E1 ++ e :: E2 /\ inc w e = true.
  Proof.
    induction E as [|e E IH]; cbn [deg_par]; [discriminate|]. intros H.
    destruct (inc w e) eqn:Ei.
    - exists [], e, E. split; [reflexivity| exact Ei].
    - rewrite xorb_false_l in H. destruct (IH H) as (E1 & e' & E2 & -> & Hi). exists (e :: E1), e', E2. split; [reflexivity| exact Hi].
  Qed.

  Definition other (w : nat) (e : edge) : nat := if Nat.eqb w (eu e) then ev e else eu e.
  Lemma inc_step w e : inc w e = true -> walk w (other w e) [e] /\ other w e <> w /\
    forall x, inc x e = xorb (Nat.eqb x w) (Nat.eqb x (other w e)).
  Proof.
    unfold inc, other. destruct (Nat.eqb_spec w (eu e)) as [Hu|Hu], (Nat.eqb_spec w (ev e)) as [Hv|Hv]; cbn; try discriminate; intros _.
    - split; [apply walk_fwd; [congruence| apply walk_nil]|]. split; [congruence|]. intros x. rewrite <- Hu. reflexivity.
    - split; [apply walk_bwd; [congruence| apply walk_nil]|]. split; [congruence|]. intros x. rewrite <- Hv. apply xorb_comm.
  Qed.

  Lemma walk_app s t u es fs : walk s t es -> walk t u fs -> walk s u (es ++ fs).
  Proof. induction 1; cbn; intros Hf; [exact Hf| apply walk_fwd; auto| apply walk_bwd; auto]. Qed.

  Lemma touches_other w e : inc w e = true -> other w e = B -> touches B e.
  Proof. unfold other, touches. destruct (Nat.eqb w (eu e)); intros _ H; [right|left]; exact H. Qed.

  (* from the current vertex v, with the remaining edges R odd exactly at v (among vertices other than s, B),
     the walk can be extended back to s using edges of R, each at most once *)
  Lemma close_walk s : forall k R v, length R = k ->
    (forall w, w <> B -> w <> s -> deg_par w R = Nat.eqb w v) ->
    (s = B \/ Forall (fun e => ~ touches B e) R) ->
    (v <> s -> v <> B) ->
    exists C2 R2, walk v s C2 /\ Permutation (C2 ++ R2) R.
  Proof.
    induction k as [|k IH]; intros R v Lk Hpar HB Hv; (destruct (Nat.eq_dec v s) as [->|Hvs];
      [exists [], R; split; [apply walk_nil| reflexivity]|]).
    - destruct R; [|discriminate]. specialize (Hpar v (Hv Hvs) Hvs). cbn in Hpar. rewrite Nat.eqb_refl in Hpar. discriminate.
    - pose proof (Hpar v (Hv Hvs) Hvs) as Hodd. rewrite Nat.eqb_refl in Hodd.
      destruct (odd_has_edge v R Hodd) as (E1 & e & E2 & -> & Hi).
      destruct (inc_step v e Hi) as (Hw & Hne & Hinc).
      set (v' := other v e) in *.
      assert (HB' : s = B \/ Forall (fun e => ~ touches B e) (E1 ++ E2)).
      { destruct HB as [HB|HB]; [left; exact HB| right].
        apply Forall_app in HB as [H1 H2]. apply Forall_cons_iff in H2 as [_ H2]. apply Forall_app; split; assumption. }
      assert (Hv' : v' <> s -> v' <> B).
      { intros Hs Hb. destruct HB as [HB|HB]; [congruence|].
        apply Forall_app in HB as [_ H2]. apply Forall_cons_iff in H2 as [H2 _]. apply H2. apply (touches_other v e Hi Hb). }
      destruct (IH (E1 ++ E2) v') as (C2 & R2 & Hwalk & Hperm); try assumption.
      + rewrite app_length in *. cbn in Lk. lia.
      + intros w HwB Hws. specialize (Hpar w HwB Hws). rewrite deg_par_app in *. cbn in Hpar. rewrite Hinc in Hpar.
        destruct (deg_par w E1), (deg_par w E2), (Nat.eqb w v), (Nat.eqb w v'); cbn in *; congruence.
      + exists (e :: C2), R2. split.
        * apply (walk_app v v' s [e] C2 Hw Hwalk).
        * cbn. apply Permutation_cons_app. exact Hperm.
  Qed.

  Lemma first_touching E : (exists E1 e E2, E = E1 ++ e :: E2 /\ touches B e) \/ Forall (fun e => ~ touches B e) E.
  Proof.
    induction E as [|e E IH]; [right; constructor|].
    destruct (Nat.eq_dec (eu e) B) as [Hu|Hu]; [left; exists [], e, E; split; [reflexivity| left; exact Hu]|].
    destruct (Nat.eq_dec (ev e) B) as [Hv|Hv]; [left; exists [], e, E; split; [reflexivity| right; exact Hv]|].
    destruct IH as [(E1 & e' & E2 & -> & Ht)|IH].
    - left. exists (e :: E1), e', E2. split; [reflexivity| exact Ht].
    - right. constructor; [intros [H|H]; contradiction| exact IH].
  Qed.

  (* one closed walk through a chosen start edge *)
  Lemma extract_closed E1 e0 E2 s : undetectable (E1 ++ e0 :: E2) -> touches s e0 ->
    (s = B \/ Forall (fun e => ~ touches B e) (E1 ++ e0 :: E2)) ->
    exists C R, walk s s (e0 :: C) /\ Permutation ((e0 :: C) ++ R) (E1 ++ e0 :: E2).
  Proof.
    intros Hund Ht HB.
    set (v := if Nat.eqb (eu e0) s then ev e0 else eu e0).
    assert (Hw : forall t es, walk v t es -> walk s t (e0 :: es)).
    { intros t es H. unfold v in H. destruct (Nat.eqb_spec (eu e0) s) as [Hu|Hu].
      - apply walk_fwd; assumption.
      - destruct Ht as [Ht|Ht]; [contradiction|]. apply walk_bwd; assumption. }
    assert (Hinc : forall w, w <> s -> inc w e0 = Nat.eqb w v).
    { intros w Hws. unfold inc, v. destruct (Nat.eqb_spec (eu e0) s) as [Hu|Hu].
      - rewrite Hu. destruct (Nat.eqb_spec w s); [contradiction|]. apply xorb_false_l.
      - destruct Ht as [Ht|Ht]; [contradiction|]. rewrite Ht. destruct (Nat.eqb_spec w s); [contradiction|]. apply xorb_false_r. }
    destruct (close_walk s (length (E1 ++ E2)) (E1 ++ E2) v eq_refl) as (C & R & HC & HP).
    - intros w HwB Hws. specialize (Hund w HwB). rewrite deg_par_app in *. cbn in Hund. rewrite (Hinc w Hws) in Hund.
      destruct (deg_par w E1), (deg_par w E2), (Nat.eqb w v); cbn in *; congruence.
    - destruct HB as [HB|HB]; [left; exact HB| right].
      apply Forall_app in HB as [H1 H2]. apply Forall_cons_iff in H2 as [_ H2]. apply Forall_app; split; assumption.
    - intros Hvs Hvb. destruct HB as [HB|HB]; [congruence|].
      apply Forall_app in HB as [_ H2]. apply Forall_cons_iff in H2 as [H2 _]. apply H2.
      unfold v in Hvb. unfold touches. destruct (Nat.eqb (eu e0) s); [right| left]; exact Hvb.
    - exists C, R. split; [apply Hw, HC|]. cbn. apply Permutation_cons_app. exact HP.
  Qed.

  Theorem cycle_lemma : forall k E, length E = k -> undetectable E -> mask_of E <> 0%N ->
    exists s C R, walk s s C /\ Permutation (C ++ R) E /\ mask_of C <> 0%N /\
                  (s = B \/ Forall (fun e => ~ touches B e) C).
  Proof.
    induction k as [k IH] using lt_wf_ind. intros E Lk Hund Hmask.
    destruct E as [|e0' E'] eqn:EE; [cbn in Hmask; congruence|]. rewrite <- EE in *.
    (* choose the start vertex and the start edge *)
    assert (Hstart : exists s E1 e0 E2, E = E1 ++ e0 :: E2 /\ touches s e0 /\ (s = B \/ Forall (fun e => ~ touches B e) E)).
    { destruct (first_touching E) as [(E1 & e & E2 & HE & Ht)|Hno].
      - exists B, E1, e, E2. auto.
      - exists (eu e0'), [], e0', E'. split; [exact EE|]. split; [left; reflexivity| right; exact Hno]. }
    destruct Hstart as (s & E1 & e0 & E2 & HE & Ht & HB). rewrite HE in Hund, HB.
    destruct (extract_closed E1 e0 E2 s Hund Ht HB) as (C & R & Hwalk & Hperm). rewrite <- HE in *.
    destruct (N.eq_dec (mask_of (e0 :: C)) 0%N) as [Hz|Hnz].
    2:{ exists s, (e0 :: C), R. split; [exact Hwalk|]. split; [exact Hperm|]. split; [exact Hnz|].
        destruct HB as [HB|HB]; [left; exact HB| right].
        rewrite Forall_forall in *. intros e He. apply HB. apply (Permutation_in e Hperm). apply in_or_app. left. exact He. }
    (* the extracted walk has mask 0: recurse on the rest *)
    assert (HmR : mask_of R <> 0%N).
    { rewrite <- (mask_of_perm _ _ Hperm), mask_of_app, Hz, N.lxor_0_l in Hmask. exact Hmask. }
    assert (HuR : undetectable R).
    { intros w Hw. specialize (Hund w Hw). rewrite <- (deg_par_perm w _ _ Hperm), deg_par_app in Hund.
      rewrite (walk_deg s s _ Hwalk w) in Hund. destruct (Nat.eqb w s), (deg_par w R); cbn in *; congruence. }
    assert (LR : length R < k).
    { apply Permutation_length in Hperm. rewrite app_length in Hperm. cbn in Hperm. lia. }
    destruct (IH (length R) LR R eq_refl HuR HmR) as (s' & C' & R' & Hw' & Hp' & Hm' & Hg').
    exists s', C', (R' ++ e0 :: C). split; [exact Hw'|]. split; [|split; [exact Hm'| exact Hg']].
    rewrite app_assoc. rewrite <- Hperm. rewrite (Permutation_app_comm (e0 :: C) R). apply Permutation_app_tail. exact Hp'.
  Qed.

  Corollary min_walk_le_min_error E : undetectable E -> mask_of E <> 0%N ->
    exists s C, walk s s C /\ mask_of C <> 0%N /\ length C <= length E.
  Proof.
    intros Hu Hm. destruct (cycle_lemma (length E) E eq_refl Hu Hm) as (s & C & R & Hw & Hp & HmC & _).
    exists s, C. split; [exact Hw|]. split; [exact HmC|]. apply Permutation_length in Hp. rewrite app_length in Hp. lia.
  Qed.

  (* the converse direction used for validity: the edges a closed walk uses an odd number of times form an
     undetectable set with the same mask; here the easy half: the walk itself, as a multiset, is undetectable *)
  Lemma closed_walk_undetectable s C : walk s s C -> undetectable C.
  Proof. intros Hw w _. rewrite (walk_deg s s C Hw w). apply xorb_nilpotent. Qed.
End Cycle.
Print Assumptions cycle_lemma.
