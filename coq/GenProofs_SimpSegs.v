(* Obligation over the GENERATED facts about the simplifier's piece cutting: both functions are the greedy cutting modelled by
   Segs.segs1 / Segs.segs2 (start with nothing used; a target or pair that reuses a qubit of the open piece - classical targets
   never do - closes the piece, which is emitted, and opens a new one; qubits are marked after the test; the last piece is always
   emitted), so Segs.simplifier_pieces_1q / _2q apply: the pieces concatenate to the instruction and none repeats a qubit. *)
From Coq Require Import List Bool String.
Import ListNotations.
Require Import Segs Gen_SimpSegs.
Local Open Scope string_scope.

Definition expected : list string :=
  ["clear_first"; "start_zero"; "loop"; "cut_cond"; "cut_emits_open_piece"; "cut_resets"; "marks_after_cut"; "final_piece"].
Definition fact (tbl : list (string * bool)) (n : string) : bool :=
  match find (fun '(k, _) => String.eqb k n) tbl with Some (_, b) => b | None => false end.
Definition simpsegs_ok : bool :=
  match simpsegs_refused with [] => true | _ => false end && forallb (fact simpsegs1) expected && forallb (fact simpsegs2) expected.
Theorem simplifier_cutting_is_the_model : simpsegs_ok = true.
Proof. vm_compute. reflexivity. Qed.
