(* C08: the target list of a detector error model instruction (D<n>, L<n>, ^), written by operator<<(DemInstruction) and read
   back by read_arbitrary_dem_targets_into (read_until_next_line_arg + read_uint60_t with its limit test after every digit),
   structured as the C++ is. Round trip for every list of targets below 2^60, any length. *)
From Coq Require Import List Bool Arith Lia NArith.
Import ListNotations.
Require Import Dec Target TargetList.
Local Open Scope N_scope.

Inductive dtarget := DDet (n : N) | DObs (n : N) | DSep.
Definition LIM60 : N := 1152921504606846976.   (* 2^60 *)
Definition dwf (t : dtarget) : Prop := match t with DDet n | DObs n => n < LIM60 | DSep => True end.

Definition write_dtarget (t : dtarget) : list N :=
  match t with DDet n => 68 :: print_dec n | DObs n => 76 :: print_dec n | DSep => [94] end.
Definition write_dtargets (ts : list dtarget) : list N := flat_map (fun t => c_sp :: write_dtarget t) ts.

(* read_uint60_t *)
Fixpoint read_lim_loop (lim : N) (s : list N) (acc : N) : option (N * list N) :=
  match s with
  | c :: s' =>
      if is_digit c then
        let acc' := acc * 10 + (c - 48) in
        if lim <=? acc' then None else
        match s' with
        | c2 :: _ => if is_digit c2 then read_lim_loop lim s' acc' else Some (acc', s')
        | [] => Some (acc', [])
        end
      else None
  | [] => None
  end.
Definition read_u60 (s : list N) : option (N * list N) := read_lim_loop LIM60 s 0.

Definition read_dtarget (s : list N) : option (dtarget * list N) :=
  match s with
  | c :: s' =>
      if (c =? 100) || (c =? 68) then match read_u60 s' with Some (n, r) => Some (DDet n, r) | None => None end
      else if (c =? 108) || (c =? 76) then match read_u60 s' with Some (n, r) => Some (DObs n, r) | None => None end
      else if c =? 94 then Some (DSep, s')
      else None
  | [] => None
  end.

Inductive dres := DErr | DOk (ts : list dtarget) (rest : list N).
Fixpoint read_dtargets (fuel : nat) (s : list N) : dres :=
  match fuel with
  | O => DErr
  | S fuel' =>
    match next_arg true s with
    | NErr => DErr
    | NEnd r => DOk [] r
    | NArg s' =>
      match read_dtarget s' with
      | None => DErr
      | Some (t, r) => match read_dtargets fuel' r with DOk ts r' => DOk (t :: ts) r' | DErr => DErr end
      end
    end
  end.

Lemma read_lim_loop_digits lim ds rest acc : ds <> [] -> all_digits ds -> no_digit_head rest ->
  value_of ds acc < lim -> read_lim_loop lim (ds ++ rest) acc = Some (value_of ds acc, rest).
Proof.
  revert acc; induction ds as [|c ds IH]; intros acc Hne Hd Hr Hv; [congruence|].
  apply Forall_cons_iff in Hd as [Hc Hd]. cbn [app read_lim_loop]. rewrite Hc.
  unfold value_of in Hv |- *; cbn [fold_left] in Hv |- *. fold (value_of ds (acc * 10 + (c - 48))) in Hv |- *.
  pose proof (value_of_ge ds (acc * 10 + (c - 48)) Hd) as Hge.
  destruct (N.leb_spec lim (acc * 10 + (c - 48))) as [Hbig|Hok]; [lia|].
  destruct ds as [|c2 ds'].
  - cbn [app]. unfold value_of; cbn [fold_left]. destruct rest as [|c3 rest]; [reflexivity|].
    cbn [no_digit_head] in Hr. rewrite Hr. reflexivity.
  - cbn [app]. pose proof Hd as Hd'. apply Forall_cons_iff in Hd' as [Hc2 _]. rewrite Hc2.
    apply IH; [discriminate| exact Hd| exact Hr| exact Hv].
Qed.
Theorem read_u60_print n rest : n < LIM60 -> no_digit_head rest -> read_u60 (print_dec n ++ rest) = Some (n, rest).
Proof.
  intros Hn Hr. destruct (print_dec_props n) as (Hd & Hne & Hv). unfold read_u60.
  rewrite read_lim_loop_digits; try assumption; rewrite Hv; [reflexivity| exact Hn].
Qed.

Theorem read_write_dtarget t rest : dwf t -> no_digit_head rest -> read_dtarget (write_dtarget t ++ rest) = Some (t, rest).
Proof.
  intros Hw Hr. destruct t as [n|n|]; cbn [write_dtarget app read_dtarget dwf] in *.
  - change ((68 =? 100) || (68 =? 68)) with true. cbn iota. rewrite read_u60_print by assumption. reflexivity.
  - change ((76 =? 100) || (76 =? 68)) with false. change ((76 =? 108) || (76 =? 76)) with true. cbn iota.
    rewrite read_u60_print by assumption. reflexivity.
  - reflexivity.
Qed.

Lemma write_dtargets_no_digit ts rest : no_digit_head rest -> no_digit_head (write_dtargets ts ++ rest).
Proof. intros H. destruct ts as [|t r]; [exact H|]. reflexivity. Qed.

Theorem dtargets_roundtrip ts : Forall dwf ts -> forall fuel rest, (length ts < fuel)%nat ->
  read_dtargets fuel (write_dtargets ts ++ 10 :: rest) = DOk ts (10 :: rest).
Proof.
  induction 1 as [|t r Ht Hr IH]; intros fuel rest Hf.
  - destruct fuel as [|fuel]; [cbn in Hf; lia|]. cbn [write_dtargets flat_map app read_dtargets]. rewrite next_arg_eol. reflexivity.
  - destruct fuel as [|fuel]; [cbn in Hf; lia|]. cbn [length] in Hf.
    change (write_dtargets (t :: r)) with ((c_sp :: write_dtarget t) ++ write_dtargets r).
    cbn [read_dtargets]. rewrite <- app_assoc. cbn [app].
    assert (Hhead : exists c w, write_dtarget t = c :: w /\ arg_start c = true).
    { destruct t; cbn [write_dtarget]; eexists _, _; (split; [reflexivity|reflexivity]). }
    destruct Hhead as (c & w & E & Hs). rewrite E. cbn [app]. rewrite next_arg_after_space by exact Hs.
    change (c :: w ++ write_dtargets r ++ 10 :: rest) with ((c :: w) ++ write_dtargets r ++ 10 :: rest). rewrite <- E.
    rewrite read_write_dtarget; [|exact Ht| apply write_dtargets_no_digit; reflexivity].
    rewrite (IH fuel rest) by lia. reflexivity.
Qed.

Example dtargets_example :
  let ts := [DDet 0; DObs 5; DSep; DDet 1152921504606846975] in
  read_dtargets 10 (write_dtargets ts ++ [10]) = DOk ts [10].
Proof. vm_compute. reflexivity. Qed.
Example dtargets_limit : read_dtargets 10 ([c_sp; 68] ++ print_dec LIM60 ++ [10]) = DErr.
Proof. vm_compute. reflexivity. Qed.
