From Coq Require Import List Bool Arith Lia Ring.
Import ListNotations.
Require Import Pauli Conj.

(* two-qubit local action in Hermitian form; the automorphism condition is finite (256 pairs of inputs) and
   conj2_hom lifts it to whole strings of any length at any two distinct positions *)
Definition bb2 := ((bool * bool) * (bool * bool))%type.
Definition act2 := bb2 -> bool * bb2.
Definition bx (p q : bool * bool) : bool * bool := (xorb (fst p) (fst q), xorb (snd p) (snd q)).

Definition act2_hom (f : act2) : Prop :=
  forall p q : bb2,
    let rp := f p in let rq := f q in let rpq := f (bx (fst p) (fst q), bx (snd p) (snd q)) in
    snd rpq = (bx (fst (snd rp)) (fst (snd rq)), bx (snd (snd rp)) (snd (snd rq))) /\
    z4_add (z4_two (fst rpq)) (z4_add (ph1 (fst p) (fst q)) (ph1 (snd p) (snd q))) =
    z4_add (z4_two (xorb (fst rp) (fst rq))) (z4_add (ph1 (fst (snd rp)) (fst (snd rq))) (ph1 (snd (snd rp)) (snd (snd rq)))).

Definition conj2 (f : act2) (a b : nat) (h : bool * bits) : bool * bits :=
  let r := f (get a (snd h), get b (snd h)) in
  (xorb (fst h) (fst r), set b (snd (snd r)) (set a (fst (snd r)) (snd h))).

Lemma get_set_other a b v l : a <> b -> get b (set a v l) = get b l.
Proof. revert a b; induction l as [|p l IH]; intros [|a] [|b] H; cbn; try reflexivity; try lia. apply IH. lia. Qed.
Lemma get_set_same a v l : a < length l -> get a (set a v l) = v.
Proof. revert a; induction l as [|p l IH]; intros [|a] H; cbn in *; try lia; try reflexivity. apply IH. lia. Qed.

Theorem conj2_hom f a b x y : act2_hom f -> a <> b -> length (snd x) = length (snd y) ->
  a < length (snd x) -> b < length (snd x) ->
  hmul (conj2 f a b x) (conj2 f a b y) =
  let '(k, c) := hmul x y in let '(s', c') := conj2 f a b (false, c) in (z4_add k (z4_two s'), c').
Proof.
  intros Hf Hab Hlen Ha Hb. destruct x as [sx lx], y as [sy ly]; cbn [fst snd] in *.
  unfold hmul, conj2; cbn [fst snd].
  specialize (Hf (get a lx, get b lx) (get a ly, get b ly)). cbn zeta in Hf. cbn [fst snd] in Hf.
  rewrite !get_bxor by exact Hlen. fold (bx (get a lx) (get a ly)) (bx (get b lx) (get b ly)).
  set (rp := f (get a lx, get b lx)) in *. set (rq := f (get a ly, get b ly)) in *.
  set (rpq := f (bx (get a lx) (get a ly), bx (get b lx) (get b ly))) in *.
  destruct Hf as [Hbits Hph].
  (* bits *)
  assert (L1 : length (set a (fst (snd rp)) lx) = length (set a (fst (snd rq)) ly)) by (rewrite !set_length; exact Hlen).
  rewrite bxor_set by (rewrite ?set_length; assumption). rewrite bxor_set by assumption.
  rewrite Hbits. cbn [fst snd]. unfold bx. f_equal.
  (* phases: two applications of ph_set *)
  pose proof (ph_set a (fst (snd rp)) (fst (snd rq)) lx ly Hlen Ha) as P1.
  pose proof (ph_set b (snd (snd rp)) (snd (snd rq)) (set a (fst (snd rp)) lx) (set a (fst (snd rq)) ly) L1
                ltac:(rewrite set_length; exact Hb)) as P2.
  rewrite !get_set_other in P2 by exact Hab.
  set (PH2 := ph (set b (snd (snd rp)) (set a (fst (snd rp)) lx)) (set b (snd (snd rq)) (set a (fst (snd rq)) ly))) in *.
  set (PH1 := ph (set a (fst (snd rp)) lx) (set a (fst (snd rq)) ly)) in *.
  set (PH0 := ph lx ly) in *.
  set (ua := ph1 (get a lx) (get a ly)) in *. set (ub := ph1 (get b lx) (get b ly)) in *.
  set (va := ph1 (fst (snd rp)) (fst (snd rq))) in *. set (vb := ph1 (snd (snd rp)) (snd (snd rq))) in *.
  rewrite xorb_false_l.
  replace (z4_two (xorb (xorb sx (fst rp)) (xorb sy (fst rq)))) with (z4_add (z4_two (xorb sx sy)) (z4_two (xorb (fst rp) (fst rq))))
    by (destruct sx, sy, (fst rp), (fst rq); reflexivity).
  (* PH2 + ub = PH1 + vb ; PH1 + ua = PH0 + va ; 2 spq + ua + ub = 2 (sp+sq) + va + vb *)
  assert (E : z4_add PH2 (z4_two (xorb (fst rp) (fst rq))) = z4_add PH0 (z4_two (fst rpq))).
  { transitivity (z4_sub (z4_add (z4_add (z4_add PH2 ub) ua) (z4_add (z4_two (xorb (fst rp) (fst rq))) (z4_add va vb)))
                         (z4_add (z4_add ua ub) (z4_add va vb))); [unfold z4_sub; ring|].
    rewrite P2. rewrite <- Hph.
    transitivity (z4_sub (z4_add (z4_add (z4_add PH1 ua) vb) (z4_add (z4_two (fst rpq)) (z4_add ua ub)))
                         (z4_add (z4_add ua ub) (z4_add va vb))); [unfold z4_sub; ring|].
    rewrite P1. unfold z4_sub; ring. }
  transitivity (z4_add (z4_two (xorb sx sy)) (z4_add PH2 (z4_two (xorb (fst rp) (fst rq))))); [ring|].
  rewrite E. ring.
Qed.

(* instance: CX (control = first position) from its flows *)
Definition act_CX : act2 := fun p =>
  let '((xc, zc), (xt, zt)) := p in
  (andb (andb xc zt) (negb (xorb xt zc)), ((xc, xorb zc zt), (xorb xt xc, zt))).
Lemma act_CX_hom : act2_hom act_CX.
Proof. intros [[[] []] [[] []]] [[[] []] [[] []]]; cbn; split; reflexivity. Qed.
Print Assumptions conj2_hom.
