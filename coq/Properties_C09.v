(* C09 — Result data formats are lossless, mutually consistent, and safely decoded. *)
From Coq Require Import List Bool Arith NArith.
Import ListNotations.
Require Import R8 B8 Dec Transp Formats.

(* r8: the writer state machine as implemented spells exactly the record followed by a terminating 1 ... *)
Theorem C09_r8_writer_meaning : forall shot, expand (impl_enc shot) = shot ++ [true].
Proof. exact impl_enc_meaning. Qed.
(* ... the write_bytes fast path (zero bytes add 8 to the run) writes the same bytes as eight write_bit(0) ... *)
Theorem C09_r8_write_bytes_eq_write_bits :
  forall chunks tail, Forall (fun c => length c = 8) chunks -> impl_enc_bytes chunks tail = impl_enc (concat chunks ++ tail).
Proof. exact r8_write_bytes_eq_write_bits. Qed.
(* ... and the reader as implemented returns exactly the set positions, for every record and any trailing data. *)
Theorem C09_r8_roundtrip :
  forall shot tail, dec (length shot) (impl_enc shot ++ tail) 0 [] = Done (true_positions shot 0) tail.
Proof. exact r8_roundtrip. Qed.
(* b8: accumulate-and-flush writer, ceil(n/8)-byte reader *)
Theorem C09_b8_roundtrip : forall l rest, b8_read (length l) (b8_write l [] ++ rest) = (l, rest).
Proof. exact b8_roundtrip. Qed.
(* 01 *)
Theorem C09_01_roundtrip : forall shot rest, dec01 (length shot) (enc01 shot ++ rest) = Some (shot, rest).
Proof. exact f01_roundtrip. Qed.
(* hits: decimal indices, comma separated, newline terminated, reader loop as written *)
Theorem C09_hits_roundtrip :
  forall hs rest, dec_hits (S (length hs)) true (enc_hits hs ++ rest) [] = HDone hs rest.
Proof. exact hits_roundtrip. Qed.
(* decimal integers of hits/dets records: print then read is the identity for every N before any non-digit *)
Theorem C09_decimal_roundtrip : forall n rest, no_digit_head rest -> read_dec (print_dec n ++ rest) = Some (n, rest).
Proof. exact read_print_dec. Qed.
(* ptb64 = per 64-shot block transpose, then b8 per measurement: transposition of rectangular tables is an involution *)
Theorem C09_transpose_involutive :
  forall (A : Type) (r c : nat) (t : list (list A)), rect A r c t -> transpose A r (transpose A c t) = t.
Proof. exact transpose_involutive. Qed.
Print Assumptions C09_r8_roundtrip. Print Assumptions C09_r8_write_bytes_eq_write_bits.
Print Assumptions C09_b8_roundtrip. Print Assumptions C09_hits_roundtrip. Print Assumptions C09_transpose_involutive.

Example C09_nonvacuous_r8 :
  impl_enc (true :: repeat false 255 ++ [true]) = [0; 255; 0; 0] /\
  impl_enc_bytes [true :: repeat false 7; repeat false 8] [false; true] = impl_enc ((true :: repeat false 7) ++ repeat false 8 ++ [false; true]).
Proof. vm_compute. split; reflexivity. Qed.
