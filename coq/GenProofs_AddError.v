(* Obligations over the GENERATED probability folding of ErrorAnalyzer::add_error and add_error_in_sorted_jagged_tail: both are,
   for all rationals, the rule p(1-q) + q(1-p) - which XorConv.xor_convolution_merge shows to be exactly the merge of two
   independent mechanisms with equal symptoms. Proved by `ring`, so any algebraically equal way of writing it passes. *)
From Coq Require Import List QArith Ring.
Import ListNotations.
Require Import XorConv Gen_AddError.
Local Open Scope Q_scope.

Lemma no_refusal : adderror_refused = []%list. Proof. reflexivity. Qed.
Theorem add_error_rule_is_merge p q : rule_add_error p q == p * (1 - q) + q * (1 - p).
Proof. unfold rule_add_error. ring. Qed.
Theorem add_error_tail_rule_is_merge p q : rule_add_error_in_sorted_jagged_tail p q == p * (1 - q) + q * (1 - p).
Proof. unfold rule_add_error_in_sorted_jagged_tail. ring. Qed.
(* hence folding equal-symptom mechanisms one after the other keeps the distribution *)
Theorem folded_mechanisms_keep_the_distribution p q s d :
  deq (conv (p, s) (conv (q, s) d)) (conv (rule_add_error q p, s) d).
Proof.
  intros t. rewrite (xor_convolution_merge p q s d t). unfold conv. cbn [fst snd]. rewrite (add_error_rule_is_merge q p). ring.
Qed.
