(* Adjointness of backward observable tracking and forward error propagation for the WHOLE gate set.
   Errors (frames) and back-propagated detector observables are Paulis without sign, one (x,z) pair per qubit; an error flips
   a detector iff it anticommutes with the detector's observable at that point (omega). Any one- or two-qubit gate is given by
   its forward action f on errors and the backward action g used on observables; the only thing needed of (f, g) is the local
   adjoint law  omega (g s) e = omega s (f e).  TableAdj.v shows that (table action, table action of the inverse gate) satisfies
   it for every unitary gate of the generated gate table, so with GenProofs_Frame / GenProofs_RevTrack (translated routines =
   table action / inverse table action) the implementation's two trackers are adjoint on every circuit. *)
From Coq Require Import List Arith Bool Lia.
Import ListNotations.

Definition pz := (bool * bool)%type.
Definition pid : pz := (false, false).
Definition pxor (a b : pz) : pz := (xorb (fst a) (fst b), xorb (snd a) (snd b)).
Definition omega (a b : pz) : bool := xorb (fst a && snd b) (snd a && fst b).
Definition st := nat -> pz.
Definition upd (f : st) (q : nat) (v : pz) : st := fun k => if Nat.eqb k q then v else f k.

Inductive gop :=
| G1 (f g : pz -> pz) (q : nat)
| G2 (f g : pz -> pz -> pz * pz) (a t : nat)
| GM (b : pz) (q : nat)
| GR (q : nat).

Definition fstep (o : gop) (F : st) : st * option bool :=
  match o with
  | G1 f _ q => (upd F q (f (F q)), None)
  | G2 f _ a t => let r := f (F a) (F t) in (upd (upd F a (fst r)) t (snd r), None)
  | GM b q => (F, Some (omega b (F q)))
  | GR q => (upd F q pid, None)
  end.
Fixpoint frun (c : list gop) (F : st) : list bool :=
  match c with
  | [] => []
  | o :: c' => let '(F', r) := fstep o F in
               match r with Some b => b :: frun c' F' | None => frun c' F' end
  end.

Definition det := nat -> bool.
Fixpoint parity_at (D : det) (k : nat) (l : list bool) : bool :=
  match l with [] => false | b :: l' => xorb (andb (D k) b) (parity_at D (S k) l') end.
Definition shiftD (D : det) : det := fun k => D (S k).
Definition zero : st := fun _ => pid.

Fixpoint back (c : list gop) (D : det) : st :=
  match c with
  | [] => zero
  | G1 _ g q :: c' => let S := back c' D in upd S q (g (S q))
  | G2 _ g a t :: c' => let S := back c' D in let r := g (S a) (S t) in upd (upd S a (fst r)) t (snd r)
  | GM b q :: c' => let S := back c' (shiftD D) in upd S q (if D 0 then pxor (S q) b else S q)
  | GR q :: c' => let S := back c' D in upd S q pid
  end.

Definition local (S F : st) (q : nat) : bool := omega (S q) (F q).
Fixpoint pair_upto (n : nat) (S F : st) : bool :=
  match n with 0 => false | Datatypes.S k => xorb (local S F k) (pair_upto k S F) end.

Definition adj1 (f g : pz -> pz) : Prop := forall s e, omega (g s) e = omega s (f e).
Definition adj2 (f g : pz -> pz -> pz * pz) : Prop :=
  forall s1 s2 e1 e2, xorb (omega (fst (g s1 s2)) e1) (omega (snd (g s1 s2)) e2) =
                      xorb (omega s1 (fst (f e1 e2))) (omega s2 (snd (f e1 e2))).
Definition ok (n : nat) (o : gop) : Prop :=
  match o with
  | G1 f g q => q < n /\ adj1 f g
  | G2 f g a t => a < n /\ t < n /\ a <> t /\ adj2 f g
  | GM _ q | GR q => q < n
  end.

Lemma pair_ext n S S' F F' : (forall k, k < n -> local S F k = local S' F' k) -> pair_upto n S F = pair_upto n S' F'.
Proof. induction n as [|n IH]; intros Hk; [reflexivity|]. cbn [pair_upto]. rewrite (Hk n) by lia. f_equal. apply IH. intros k Hlt; apply Hk; lia. Qed.
Lemma pair_change_one n q S F S' F' : q < n -> (forall k, k < n -> k <> q -> local S F k = local S' F' k) ->
  pair_upto n S F = xorb (xorb (local S F q) (local S' F' q)) (pair_upto n S' F').
Proof.
  induction n as [|n IH]; intros Hq Hk; [lia|]. cbn [pair_upto].
  destruct (Nat.eq_dec n q) as [->|Hne].
  - rewrite (pair_ext q S S' F F') by (intros k Hlt; apply Hk; lia).
    destruct (local S F q), (local S' F' q), (pair_upto q S' F'); reflexivity.
  - rewrite (IH ltac:(lia)) by (intros k Hlt Hkq; apply Hk; lia).
    rewrite (Hk n) by lia.
    destruct (local S' F' n), (local S F q), (local S' F' q), (pair_upto n S' F'); reflexivity.
Qed.
Lemma pair_change_two n a t S F S' F' : a < n -> t < n -> a <> t ->
  (forall k, k < n -> k <> a -> k <> t -> local S F k = local S' F' k) ->
  xorb (local S F a) (local S F t) = xorb (local S' F' a) (local S' F' t) ->
  pair_upto n S F = pair_upto n S' F'.
Proof.
  intros Ha Ht Hne Hk Hloc.
  set (S1 := upd S' a (S a)). set (F1 := upd F' a (F a)).
  assert (L1a : local S1 F1 a = local S F a) by (unfold local, S1, F1, upd; now rewrite Nat.eqb_refl).
  assert (L1o : forall k, k <> a -> local S1 F1 k = local S' F' k).
  { intros k Hka. unfold local, S1, F1, upd. destruct (Nat.eqb_spec k a); [contradiction|reflexivity]. }
  rewrite (pair_change_one n t S F S1 F1 Ht).
  2:{ intros k Hlt Hkt. destruct (Nat.eq_dec k a) as [->|Hka]; [now rewrite L1a| rewrite L1o by exact Hka; now apply Hk]. }
  rewrite (pair_change_one n a S1 F1 S' F' Ha) by (intros k Hlt Hka; now apply L1o).
  rewrite L1a, (L1o t) by congruence.
  destruct (local S F a), (local S F t), (local S' F' a), (local S' F' t), (pair_upto n S' F'); cbn in *; congruence.
Qed.
Lemma pair_zero n F : pair_upto n zero F = false.
Proof. induction n as [|n IHn]; [reflexivity|]. cbn [pair_upto]. rewrite IHn. unfold local, zero, omega, pid. reflexivity. Qed.

Lemma omega_pxor_l a b e : omega (pxor a b) e = xorb (omega a e) (omega b e).
Proof. destruct a as [[] []], b as [[] []], e as [[] []]; reflexivity. Qed.
Lemma omega_pid_l e : omega pid e = false. Proof. destruct e as [[] []]; reflexivity. Qed.
Lemma omega_pid_r e : omega e pid = false. Proof. destruct e as [[] []]; reflexivity. Qed.

Theorem adjoint_all_gates n (c : list gop) : Forall (ok n) c -> forall (D : det) (F : st),
  parity_at D 0 (frun c F) = pair_upto n (back c D) F.
Proof.
  induction c as [|o c IH]; intros Hr D F.
  - cbn. now rewrite pair_zero.
  - inversion Hr as [|? ? Ho Hc]; subst. specialize (IH Hc).
    destruct o as [f g q|f g a t|b q|q]; cbn [frun fstep back ok] in *.
    + destruct Ho as [Hq Hadj]. rewrite IH. symmetry.
      rewrite (pair_change_one n q _ F (back c D) (upd F q (f (F q))) Hq).
      * unfold local, upd. rewrite !Nat.eqb_refl. rewrite Hadj.
        destruct (omega (back c D q) (f (F q))), (pair_upto n (back c D) _); reflexivity.
      * intros k Hlt Hkq. unfold local, upd. destruct (Nat.eqb_spec k q); [contradiction|reflexivity].
    + destruct Ho as (Ha & Ht & Hne & Hadj). rewrite IH. symmetry.
      apply (pair_change_two n a t); auto.
      * intros k Hlt Hka Hkt. unfold local, upd.
        destruct (Nat.eqb_spec k a), (Nat.eqb_spec k t); try contradiction; reflexivity.
      * unfold local, upd. rewrite !Nat.eqb_refl.
        destruct (Nat.eqb_spec a t); [contradiction|]. destruct (Nat.eqb_spec t a); [congruence|].
        apply Hadj.
    + (* measurement *) cbn [parity_at].
      assert (Hshift : forall l k, parity_at D (S k) l = parity_at (shiftD D) k l).
      { induction l as [|x l IHl]; intros k; [reflexivity|]. cbn [parity_at]. unfold shiftD at 1. now rewrite IHl. }
      rewrite Hshift, IH. symmetry.
      rewrite (pair_change_one n q _ F (back c (shiftD D)) F Ho).
      * unfold local, upd. rewrite Nat.eqb_refl. destruct (D 0).
        -- rewrite omega_pxor_l. cbn [andb].
           destruct (omega (back c (shiftD D) q) (F q)), (omega b (F q)), (pair_upto n _ F); reflexivity.
        -- cbn [andb]. destruct (omega (back c (shiftD D) q) (F q)), (pair_upto n _ F); reflexivity.
      * intros k Hlt Hkq. unfold local, upd. destruct (Nat.eqb_spec k q); [contradiction|reflexivity].
    + (* reset *) rewrite IH. symmetry.
      rewrite (pair_change_one n q _ F (back c D) (upd F q pid) Ho).
      * unfold local, upd. rewrite !Nat.eqb_refl. rewrite omega_pid_l, omega_pid_r.
        destruct (pair_upto n (back c D) _); reflexivity.
      * intros k Hlt Hkq. unfold local, upd. destruct (Nat.eqb_spec k q); [contradiction|reflexivity].
Qed.
