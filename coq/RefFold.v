From Coq Require Import List Arith Lia Bool.
Import ListNotations.
Require Import Loops.

Section RefFold.
Variables (St Out : Type) (step : St -> St * Out) (eqv : St -> St -> Prop) (eqb : St -> St -> bool).
Hypothesis eqv_bisim : forall a b, eqv a b -> snd (step a) = snd (step b) /\ eqv (fst (step a)) (fst (step b)).
Hypothesis eqv_sym : forall a b, eqv a b -> eqv b a.
Hypothesis eqb_sound : forall a b, eqb a b = true -> eqv a b.

Notation iter := (iter St Out step).
Notation outs := (outs St Out step).

(* tree produced by the folding: a flat prefix and optionally one repeated block *)
Inductive tree := Flat (l : list Out) | Folded (prefix : list Out) (count : nat) (block : list Out).
Definition decompress (t : tree) : list Out :=
  match t with Flat l => l | Folded pre c b => pre ++ rep c b end.

(* the search loop of do_loop_with_tortoise_hare_folding, with explicit fuel = reps;
   returns Some (t, h) when the hare (after h steps) was found equivalent to the tortoise (after t steps) *)
Fixpoint search (fuel : nat) (reps t h : nat) (tort hare : St) : option (nat * nat) :=
  match fuel with
  | 0 => None
  | S f =>
      if h <? reps then
        let h' := S h in
        let hare' := fst (step hare) in
        if eqb tort hare' then Some (t, h')
        else if Nat.odd h' then search f reps (S t) h' (fst (step tort)) hare'
        else search f reps t h' tort hare'
      else None
  end.

Definition fold_loop (reps : nat) (s0 : St) : tree :=
  match search reps reps 0 0 s0 s0 with
  | None => Flat (outs reps s0)
  | Some (t, h) =>
      if h =? reps then Flat (outs reps s0)
      else
        let p := h - t in
        let left := (reps - h) / p in
        let extra := (reps - h) mod p in
        let h' := h + extra in
        Folded (outs (h' - p) s0) (S left) (outs p (iter (h' - p) s0))
  end.

Lemma search_inv s0 fuel reps : forall t h t' h',
  t <= h ->
  search fuel reps t h (iter t s0) (iter h s0) = Some (t', h') ->
  t' < h' /\ h' <= reps /\ eqv (iter t' s0) (iter h' s0).
Proof.
  induction fuel as [|f IH]; intros t h t' h' Hth H; cbn [search] in H; [discriminate|].
  destruct (Nat.ltb_spec h reps) as [Hlt|]; [|discriminate].
  assert (Hstep : fst (step (iter h s0)) = iter (S h) s0).
  { replace (S h) with (h + 1) by lia. rewrite iter_add. reflexivity. }
  rewrite Hstep in H.
  destruct (eqb (iter t s0) (iter (S h) s0)) eqn:E.
  - inversion H; subst. split; [lia|]. split; [lia|]. apply eqb_sound; exact E.
  - destruct (Nat.odd (S h)).
    + assert (Hs2 : fst (step (iter t s0)) = iter (S t) s0) by (replace (S t) with (t + 1) by lia; rewrite iter_add; reflexivity).
      rewrite Hs2 in H. apply IH in H; [exact H| lia].
    + apply IH in H; [exact H| lia].
Qed.

Theorem fold_loop_correct reps s0 : decompress (fold_loop reps s0) = outs reps s0.
Proof.
  unfold fold_loop. destruct (search reps reps 0 0 s0 s0) as [[t h]|] eqn:S; [|reflexivity].
  destruct (Nat.eqb_spec h reps); [reflexivity|].
  apply (search_inv s0 reps reps 0 0 t h (le_n 0)) in S. destruct S as (Hth & Hle & Heq).
  cbn [decompress].
  set (p := h - t). assert (Hp : 0 < p) by (unfold p; lia).
  set (extra := (reps - h) mod p). set (left := (reps - h) / p). set (h' := h + extra).
  assert (Hdiv : reps - h = p * left + extra) by (unfold left, extra; apply Nat.div_mod; lia).
  assert (Hreps : reps = h' + left * p) by (unfold h'; nia).
  transitivity (outs (h' + left * p) s0); [| rewrite <- Hreps; reflexivity].
  symmetry. apply (fold_correct St Out step eqv eqv_bisim s0 t p h' left).
  - replace (t + p) with h by (unfold p; lia). apply eqv_sym. exact Heq.
  - unfold h', p. lia.
Qed.
End RefFold.
Print Assumptions fold_loop_correct.
