(* C06 — Loop folding never changes any result. *)
From Coq Require Import List Arith.
Import ListNotations.
Require Import Loops RefFold.

(* The generic folding theorem: if the tortoise at step t and the hare at step t+p are in bisimilar states, then for every
   later stopping point h' >= t+p and every number k of skipped periods, the unrolled output of h' + k*p iterations is the
   output up to h'-p followed by k+1 copies of the last period's output. *)
Theorem C06_fold_correct :
  forall (St Out : Type) (step : St -> St * Out) (eqv : St -> St -> Prop),
  (forall a b, eqv a b -> snd (step a) = snd (step b) /\ eqv (fst (step a)) (fst (step b))) ->
  forall (s0 : St) (t p h' k : nat),
  eqv (iter St Out step (t + p) s0) (iter St Out step t s0) -> t + p <= h' ->
  outs St Out step (h' + k * p) s0 =
  outs St Out step (h' - p) s0 ++ rep (S k) (outs St Out step p (iter St Out step (h' - p) s0)).
Proof. exact fold_correct. Qed.
(* The search-and-fold procedure as structured in do_loop_with_tortoise_hare_folding (hare every step, tortoise every second
   step, break on equivalence, skipped periods = (reps - h) / period, leftover iterations = (reps - h) mod period) decompresses
   to the plainly iterated output for EVERY repetition count and every deterministic step with a bisimulation test. *)
Theorem C06_fold_loop_correct :
  forall (St Out : Type) (step : St -> St * Out) (eqv : St -> St -> Prop) (eqb : St -> St -> bool),
  (forall a b, eqv a b -> snd (step a) = snd (step b) /\ eqv (fst (step a)) (fst (step b))) ->
  (forall a b, eqv a b -> eqv b a) -> (forall a b, eqb a b = true -> eqv a b) ->
  forall (reps : nat) (s0 : St),
  decompress Out (fold_loop St Out step eqb reps s0) = outs St Out step reps s0.
Proof. exact fold_loop_correct. Qed.
Print Assumptions C06_fold_correct. Print Assumptions C06_fold_loop_correct.

(* non-vacuity: a counter mod 3 emitting its value; 20 repetitions fold and decompress to the unrolled output *)
Example C06_nonvacuous :
  let step := fun s : nat => (Nat.modulo (S s) 3, s) in
  decompress nat (fold_loop nat nat step Nat.eqb 20 0) = outs nat nat step 20 0 /\
  (exists p c b, fold_loop nat nat step Nat.eqb 20 0 = Folded nat p c b).
Proof. vm_compute. split; [reflexivity | repeat eexists]. Qed.
