(* A local Clifford action in Hermitian form (sign flip + new Pauli at one or two positions; Conj.v / Conj2.v) lifts to a map on
   XZ-form Pauli strings (phase i^k, bits) that is "good" in the sense of Run.v: length preserving, multiplicative, phase linear,
   identity preserving, with the lift of the inverse action as its inverse.  This closes the chain
       generated gate table  ->  local automorphism (TableAut)  ->  good map  ->  Run.OpU step.
   The lift sends  i^m * denote h  to  i^m * denote (conj h). *)
From Coq Require Import List Bool Arith Lia Ring.
Import ListNotations.
Require Import Pauli Collapse Conj Conj2 Refine Run.

(* i^m * P *)
Definition shiftp (m : z4) (P : pauli) : pauli := (z4_add m (fst P), snd P).
Lemma shiftp_shiftp a b P : shiftp a (shiftp b P) = shiftp (z4_add a b) P.
Proof. unfold shiftp; cbn [fst snd]. f_equal. ring. Qed.
Lemma shiftp_0 P : shiftp z4_0 P = P.
Proof. unfold shiftp. destruct P as [k l]; cbn [fst snd]. f_equal. ring. Qed.
Lemma pmul_shift_l m P Q : pmul (shiftp m P) Q = shiftp m (pmul P Q).
Proof. unfold pmul, shiftp; cbn [fst snd]. f_equal. ring. Qed.
Lemma pmul_shift_r m P Q : pmul P (shiftp m Q) = shiftp m (pmul P Q).
Proof. unfold pmul, shiftp; cbn [fst snd]. f_equal. ring. Qed.
Lemma denote_sign s l : denote (s, l) = shiftp (z4_two s) (denote (false, l)).
Proof. unfold denote, shiftp; cbn [fst snd]. f_equal. change (z4_two false) with z4_0. ring. Qed.
(* every XZ-form string is a phase times the Hermitian string with the same bits *)
Lemma as_denote P : P = shiftp (z4_sub (fst P) (ycount (snd P))) (denote (false, snd P)).
Proof. destruct P as [k l]. unfold shiftp, denote, z4_sub; cbn [fst snd]. f_equal. change (z4_two false) with z4_0. ring. Qed.

(* product of Hermitian strings, in XZ form *)
Lemma pmul_denote a b : length (snd a) = length (snd b) ->
  pmul (denote a) (denote b) = shiftp (fst (hmul a b)) (denote (false, snd (hmul a b))).
Proof.
  intros H. rewrite hmul_spec, (hmul_log_i_is_ph a b H). unfold hmul, shiftp; cbn [fst snd]. reflexivity.
Qed.

Section Lift.
  Variable n : nat.
  (* any conjugation of Hermitian strings that is a homomorphism for hmul, with an inverse of the same kind *)
  Variables (c ci : bool * bits -> bool * bits).
  Hypothesis c_len : forall h, length (snd (c h)) = length (snd h).
  Hypothesis ci_len : forall h, length (snd (ci h)) = length (snd h).
  Hypothesis c_sign : forall s l, c (s, l) = (xorb s (fst (c (false, l))), snd (c (false, l))).
  Hypothesis ci_sign : forall s l, ci (s, l) = (xorb s (fst (ci (false, l))), snd (ci (false, l))).
  Hypothesis c_hom : forall a b, length (snd a) = n -> length (snd b) = n ->
    hmul (c a) (c b) = let '(k, x) := hmul a b in let '(s', x') := c (false, x) in (z4_add k (z4_two s'), x').
  Hypothesis ci_hom : forall a b, length (snd a) = n -> length (snd b) = n ->
    hmul (ci a) (ci b) = let '(k, x) := hmul a b in let '(s', x') := ci (false, x) in (z4_add k (z4_two s'), x').
  Hypothesis c_ci : forall h, length (snd h) = n -> c (ci h) = h.
  Hypothesis ci_c : forall h, length (snd h) = n -> ci (c h) = h.
  Hypothesis c_id : c (false, zeros n) = (false, zeros n).
  Hypothesis ci_id : ci (false, zeros n) = (false, zeros n).

  Definition lift (f : bool * bits -> bool * bits) (P : pauli) : pauli :=
    shiftp (z4_sub (fst P) (ycount (snd P))) (denote (f (false, snd P))).

  Lemma lift_shift f m P : lift f (shiftp m P) = shiftp m (lift f P).
  Proof. unfold lift, shiftp, z4_sub; cbn [fst snd]. f_equal. ring. Qed.
  Lemma lift_denote f (Hs : forall s l, f (s, l) = (xorb s (fst (f (false, l))), snd (f (false, l)))) h :
    lift f (denote h) = denote (f h).
  Proof.
    destruct h as [s l]. rewrite (Hs s l). set (r := f (false, l)).
    unfold lift. cbn [snd denote fst]. fold r.
    replace (z4_sub (z4_add (z4_two s) (ycount l)) (ycount l)) with (z4_two s) by (unfold z4_sub; ring).
    rewrite (surjective_pairing r) at 1. rewrite (denote_sign (fst r)), (denote_sign (xorb s (fst r))), shiftp_shiftp.
    f_equal. destruct s, (fst r); reflexivity.
  Qed.

  Lemma lift_mul f (Hs : forall s l, f (s, l) = (xorb s (fst (f (false, l))), snd (f (false, l))))
        (Hlen : forall h, length (snd (f h)) = length (snd h))
        (Hh : forall a b, length (snd a) = n -> length (snd b) = n ->
              hmul (f a) (f b) = let '(k, x) := hmul a b in let '(s', x') := f (false, x) in (z4_add k (z4_two s'), x')) P Q :
    Refine.wf n P -> Refine.wf n Q -> lift f (pmul P Q) = pmul (lift f P) (lift f Q).
  Proof.
    intros HP HQ. unfold Refine.wf in *.
    set (mP := z4_sub (fst P) (ycount (snd P))). set (mQ := z4_sub (fst Q) (ycount (snd Q))).
    set (a := (false, snd P) : bool * bits). set (b := (false, snd Q) : bool * bits).
    assert (EP : P = shiftp mP (denote a)) by apply as_denote. assert (EQ : Q = shiftp mQ (denote b)) by apply as_denote.
    assert (La : length (snd a) = n) by exact HP. assert (Lb : length (snd b) = n) by exact HQ.
    (* left-hand side *)
    assert (EL : lift f (pmul P Q) = shiftp (z4_add mP mQ) (shiftp (fst (hmul a b)) (denote (f (false, snd (hmul a b)))))).
    { rewrite EP, EQ at 1. rewrite pmul_shift_l, pmul_shift_r, shiftp_shiftp, lift_shift.
      rewrite pmul_denote by (transitivity n; [exact La| symmetry; exact Lb]). rewrite lift_shift, (lift_denote f Hs). reflexivity. }
    (* right-hand side *)
    assert (ER : pmul (lift f P) (lift f Q) = shiftp (z4_add mP mQ) (pmul (denote (f a)) (denote (f b)))).
    { unfold lift. fold mP mQ a b. rewrite pmul_shift_l, pmul_shift_r, shiftp_shiftp. reflexivity. }
    rewrite EL, ER. f_equal.
    rewrite pmul_denote by (rewrite !Hlen; transitivity n; [exact La| symmetry; exact Lb]).
    rewrite (Hh a b La Lb).
    destruct (hmul a b) as [k x]. cbn [fst snd].
    destruct (f (false, x)) as [s' x'] eqn:E2. cbn [fst snd].
    unfold shiftp, denote; cbn [fst snd]. f_equal. change (z4_two false) with z4_0. ring.
  Qed.

  Lemma lift_len f (Hlen : forall h, length (snd (f h)) = length (snd h)) P : Refine.wf n P -> Refine.wf n (lift f P).
  Proof. unfold Refine.wf, lift, shiftp, denote; cbn [snd]. intros H. now rewrite Hlen. Qed.

  Lemma lift_inverse f g (Hsf : forall s l, f (s, l) = (xorb s (fst (f (false, l))), snd (f (false, l))))
        (Hsg : forall s l, g (s, l) = (xorb s (fst (g (false, l))), snd (g (false, l))))
        (Hfg : forall h, length (snd h) = n -> f (g h) = h) P :
    Refine.wf n P -> lift f (lift g P) = P.
  Proof.
    intros HP. unfold Refine.wf in HP.
    transitivity (lift f (lift g (shiftp (z4_sub (fst P) (ycount (snd P))) (denote (false, snd P))))); [now rewrite <- as_denote|].
    rewrite lift_shift, (lift_denote g Hsg), lift_shift, (lift_denote f Hsf), Hfg by exact HP. symmetry. apply as_denote.
  Qed.

  Lemma lift_id f (Hid : f (false, zeros n) = (false, zeros n)) : lift f (z4_0, zeros n) = (z4_0, zeros n).
  Proof.
    unfold lift. cbn [fst snd]. rewrite Hid. unfold shiftp, denote, z4_sub; cbn [fst snd]. f_equal.
    generalize (ycount (zeros n)). intros [[] []]; reflexivity.
  Qed.

  Theorem lift_good : Run.good n (lift c) (lift ci).
  Proof.
    constructor.
    - intros P HP. now apply lift_len.
    - intros P HP. now apply lift_len.
    - intros P Q HP HQ. now apply lift_mul.
    - intros k P HP. exact (lift_shift c k P).
    - now apply lift_id.
    - intros P HP. now apply lift_inverse.
    - intros P HP. now apply lift_inverse.
  Qed.
End Lift.
Print Assumptions lift_good.
