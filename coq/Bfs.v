From Coq Require Import List Bool Arith Lia Sorting.Sorted.
Import ListNotations.

(* Queue-based breadth-first search exactly as the searches are written (seen-set test and goal test at push
   time, FIFO queue, goals and dead states never expanded): the first goal found is a nearest goal. *)
Section Bfs.
  Variable A : Type.
  Variable memb : A -> list A -> bool.
  Hypothesis memb_spec : forall x l, memb x l = true <-> In x l.
  Variable succ : A -> list A.
  Variable goal : A -> bool.
  Variable starts : list A.

  Fixpoint push_all (ys : list A) (d : nat) (q : list (A * nat)) (seen : list A) : option A * list (A * nat) * list A :=
    match ys with
    | [] => (None, q, seen)
    | y :: ys' =>
        if memb y seen then push_all ys' d q seen
        else if goal y then (Some y, q, y :: seen)
        else push_all ys' d (q ++ [(y, d)]) (y :: seen)
    end.

  Fixpoint bfs (fuel : nat) (q : list (A * nat)) (seen : list A) : option (A * nat) :=
    match fuel with
    | 0 => None
    | S f =>
        match q with
        | [] => None
        | (x, d) :: q' =>
            match push_all (succ x) (S d) q' seen with
            | (Some y, _, _) => Some (y, S d)
            | (None, q2, seen2) => bfs f q2 seen2
            end
        end
    end.

  (* reachable in exactly k steps through states that are not goals *)
  Inductive reachN : nat -> A -> Prop :=
  | r0 s : In s starts -> reachN 0 s
  | rS k x y : reachN k x -> goal x = false -> In y (succ x) -> reachN (S k) y.

  Definition depths (q : list (A * nat)) := map snd q.

  (* invariant while the successors [rem] of the popped state x (depth d0) are still being pushed *)
  Record inner (x : A) (d0 : nat) (rem : list A) (q : list (A * nat)) (seen : list A) : Prop := {
    iA : forall z d, In (z, d) q -> In z seen /\ reachN d z;
    iG : forall z d i, In (z, d) q -> reachN i z -> d <= i;
    iC : forall s, In s seen -> goal s = false;
    iD : forall z, In z seen -> In z (map fst q) \/ (forall s, In s (succ z) -> In s seen) \/
                              (z = x /\ forall s, In s (succ x) -> In s seen \/ In s rem);
    iE : incl starts seen;
    iX : reachN d0 x /\ goal x = false /\ forall i, reachN i x -> d0 <= i;
    iL : Forall (fun d => d0 <= d /\ d <= S d0) (depths q);
    iS : StronglySorted le (depths q)
  }.

  Lemma unseen_far x d0 rem q seen : inner x d0 rem q seen ->
    forall k s, reachN k s -> ~ In s seen -> S d0 <= k.
  Proof.
    intros I k s H. induction H as [s Hs | k p s Hp IH Hg Hs]; intros Hn.
    - exfalso. apply Hn, (iE _ _ _ _ _ I), Hs.
    - destruct (memb p seen) eqn:Em.
      + assert (Hin : In p seen) by (apply memb_spec, Em).
        destruct (iD _ _ _ _ _ I p Hin) as [Hq | [Hall | [-> _]]].
        * apply in_map_iff in Hq as ([z d] & Ez & Hq). cbn in Ez. subst z.
          pose proof (iG _ _ _ _ _ I p d k Hq Hp) as Hd.
          pose proof (iL _ _ _ _ _ I) as HL. rewrite Forall_forall in HL.
          assert (Hdl : d0 <= d) by (apply (HL d), in_map_iff; exists (p, d); auto). lia.
        * exfalso. apply Hn, Hall, Hs.
        * destruct (iX _ _ _ _ _ I) as (_ & _ & Hx). specialize (Hx k Hp). lia.
      + assert (Hnin : ~ In p seen) by (intros H'; apply memb_spec in H'; congruence).
        specialize (IH Hnin). lia.
  Qed.

  Lemma SS_app_end l e : StronglySorted le l -> Forall (fun d => d <= e) l -> StronglySorted le (l ++ [e]).
  Proof. induction 1 as [|a l Hs IH Ha]; cbn; intros Hf.
    - constructor; constructor.
    - apply Forall_cons_iff in Hf as [Hae Hf]. constructor; [apply IH, Hf|].
      apply Forall_app; split; [exact Ha| constructor; [exact Hae| constructor]]. Qed.

  (* the inner loop: pushing the successors keeps the invariant, and a goal it returns is a nearest one *)
  Lemma push_all_inv x d0 : forall rem q seen, inner x d0 rem q seen ->
    (forall s, In s rem -> In s (succ x)) ->
    match push_all rem (S d0) q seen with
    | (Some y, _, _) => goal y = true /\ reachN (S d0) y /\ forall k g, reachN k g -> goal g = true -> S d0 <= k
    | (None, q2, seen2) => inner x d0 [] q2 seen2
    end.
  Proof.
    induction rem as [|y rem IH]; intros q seen I Hsub; cbn [push_all]; [exact I|].
    assert (Hy : In y (succ x)) by (apply Hsub; left; reflexivity).
    assert (Hsub' : forall s, In s rem -> In s (succ x)) by (intros s Hs; apply Hsub; right; exact Hs).
    destruct (iX _ _ _ _ _ I) as (Hrx & Hgx & Hminx).
    destruct (memb y seen) eqn:Em.
    - (* already seen: skip *)
      apply memb_spec in Em. apply IH; [|exact Hsub'].
      destruct I. constructor; try assumption.
      intros z Hz. destruct (iD0 z Hz) as [H|[H|[-> H]]]; auto.
      right; right. split; [reflexivity|]. intros s Hs. destruct (H s Hs) as [H1|[->|H1]]; auto.
    - assert (Hny : ~ In y seen) by (intros H'; apply memb_spec in H'; congruence).
      assert (Hry : reachN (S d0) y) by (apply (rS d0 x y); assumption).
      destruct (goal y) eqn:Eg.
      + (* found *)
        split; [exact Eg|]. split; [exact Hry|].
        intros k g Hk Hg. apply (unseen_far x d0 (y :: rem) q seen I k g Hk).
        intros Hin. rewrite (iC _ _ _ _ _ I g Hin) in Hg. discriminate.
      + (* push *)
        apply IH; [|exact Hsub'].
        pose proof (unseen_far x d0 (y :: rem) q seen I) as Hfar.
        destruct I. constructor.
        * intros z d Hz. apply in_app_or in Hz as [Hz|[Hz|[]]].
          -- destruct (iA0 z d Hz) as [H1 H2]. split; [right; exact H1| exact H2].
          -- injection Hz as <- <-. split; [left; reflexivity| exact Hry].
        * intros z d i Hz Hi. apply in_app_or in Hz as [Hz|[Hz|[]]]; [apply (iG0 z d i Hz Hi)|].
          injection Hz as <- <-. apply (Hfar i y Hi Hny).
        * intros s [<-|Hs]; [exact Eg| apply iC0, Hs].
        * intros z [<-|Hz].
          -- left. rewrite map_app, in_app_iff. right. left. reflexivity.
          -- destruct (iD0 z Hz) as [H|[H|[-> H]]].
             ++ left. rewrite map_app, in_app_iff. left. exact H.
             ++ right; left. intros s Hs. right. apply H, Hs.
             ++ right; right. split; [reflexivity|]. intros s Hs. destruct (H s Hs) as [H1|[->|H1]]; [left; right; exact H1| left; left; reflexivity| right; exact H1].
        * intros s Hs. right. apply iE0, Hs.
        * exact iX0.
        * unfold depths in *. rewrite map_app. apply Forall_app. split; [exact iL0|]. constructor; [cbn; lia| constructor].
        * unfold depths in *. rewrite map_app. cbn [map snd]. apply SS_app_end; [exact iS0|].
          eapply Forall_impl; [|exact iL0]. cbn. intros d [_ H]; exact H.
  Qed.

  (* invariant between pops *)
  Record outer (q : list (A * nat)) (seen : list A) : Prop := {
    oA : forall z d, In (z, d) q -> In z seen /\ reachN d z;
    oG : forall z d i, In (z, d) q -> reachN i z -> d <= i;
    oC : forall s, In s seen -> goal s = false;
    oD : forall z, In z seen -> In z (map fst q) \/ (forall s, In s (succ z) -> In s seen);
    oE : incl starts seen;
    oL : match depths q with [] => True | d0 :: _ => Forall (fun d => d <= S d0) (depths q) end;
    oS : StronglySorted le (depths q)
  }.

  Lemma pop_inner x d0 q' seen : outer ((x, d0) :: q') seen -> inner x d0 (succ x) q' seen.
  Proof.
    intros O. destruct O. cbn in oL0, oS0. apply StronglySorted_inv in oS0 as [HS Hhd].
    apply Forall_cons_iff in oL0 as [_ HL].
    destruct (oA0 x d0 (or_introl eq_refl)) as [Hxs Hxr].
    constructor.
    - intros z d Hz. apply oA0. right. exact Hz.
    - intros z d i Hz. apply oG0. right. exact Hz.
    - exact oC0.
    - intros z Hz. destruct (oD0 z Hz) as [H|H]; [|right; left; exact H].
      cbn in H. destruct H as [<-|H]; [|left; exact H].
      right; right. split; [reflexivity|]. intros s Hs. right. exact Hs.
    - exact oE0.
    - split; [exact Hxr|]. split; [apply oC0, Hxs|]. intros i. apply oG0. left. reflexivity.
    - rewrite Forall_forall in *. intros d Hd. split; [apply Hhd, Hd| apply HL, Hd].
    - exact HS.
  Qed.

  Lemma inner_outer x d0 q seen : inner x d0 [] q seen -> outer q seen.
  Proof.
    intros I. destruct I. constructor; try assumption.
    - intros z Hz. destruct (iD0 z Hz) as [H|[H|[-> H]]]; auto.
      right. intros s Hs. destruct (H s Hs) as [H1|[]]. exact H1.
    - destruct (depths q) as [|d1 ds] eqn:Ed; [exact I|].
      apply Forall_cons_iff in iL0 as [[H1 _] HL]. constructor; [lia|].
      eapply Forall_impl; [|exact HL]. cbn. intros d [_ H]. lia.
  Qed.

  Theorem bfs_nearest : forall fuel q seen y d, outer q seen -> bfs fuel q seen = Some (y, d) ->
    goal y = true /\ reachN d y /\ forall k g, reachN k g -> goal g = true -> d <= k.
  Proof.
    induction fuel as [|f IH]; intros q seen y d O H; cbn in H; [discriminate|].
    destruct q as [|[x d0] q']; [discriminate|].
    pose proof (push_all_inv x d0 (succ x) q' seen (pop_inner x d0 q' seen O) (fun s Hs => Hs)) as P.
    destruct (push_all (succ x) (S d0) q' seen) as [[[y'|] q2] seen2].
    - injection H as <- <-. exact P.
    - apply (IH q2 seen2 y d); [apply (inner_outer x d0), P| exact H].
  Qed.

  (* the initial state: starts (none of them a goal) queued at depth 0 and marked seen, plus any dead states *)
  Lemma outer_init dead : Forall (fun s => goal s = false) (starts ++ dead) -> NoDup starts ->
    (forall z, In z dead -> forall s, In s (succ z) -> In s (starts ++ dead)) ->
    outer (map (fun s => (s, 0)) starts) (starts ++ dead).
  Proof.
    intros Hg _ Hdead. constructor.
    - intros z d Hz. apply in_map_iff in Hz as (s & E & Hs). injection E as <- <-. split; [apply in_or_app; left; exact Hs| constructor; exact Hs].
    - intros z d i Hz _. apply in_map_iff in Hz as (s & E & Hs). injection E as _ <-. lia.
    - rewrite Forall_forall in Hg. exact Hg.
    - intros z Hz. apply in_app_or in Hz as [Hz|Hz].
      + left. rewrite map_map. cbn. rewrite map_id. exact Hz.
      + right. apply Hdead, Hz.
    - intros s Hs. apply in_or_app. left. exact Hs.
    - unfold depths. rewrite map_map. cbn. destruct starts as [|s0 ss]; cbn; [exact I|].
      constructor; [lia|]. apply Forall_forall. intros d Hd. apply in_map_iff in Hd as (_ & <- & _). lia.
    - unfold depths. rewrite map_map. cbn. clear. induction starts as [|s ss IHs]; cbn; constructor; [exact IHs|].
      apply Forall_forall. intros d Hd. apply in_map_iff in Hd as (_ & <- & _). lia.
  Qed.
End Bfs.
Print Assumptions bfs_nearest.
