From Coq Require Import List Bool NArith Lia ZArith.
Local Open Scope bool_scope.
Import ListNotations. Local Open Scope N_scope.
Ltac Zify.zify_post_hook ::= Z.to_euclidean_division_equations.

Definition W := 2^64. Definition MAX := W - 1.
(* the C++ as written, on uint64 values *)
Definition add_saturate (a b : N) : N := let r := (a + b) mod W in if r <? a then MAX else r.
Definition mul_saturate (a b : N) : N := if negb (b =? 0) && (MAX / b <? a) then MAX else (a * b) mod W.

Lemma W_val : W = 18446744073709551616. Proof. reflexivity. Qed.
Lemma add_saturate_spec a b : a < W -> b < W -> add_saturate a b = N.min (a + b) MAX.
Proof.
  intros Ha Hb. unfold add_saturate, MAX. rewrite W_val in *.
  destruct (N.ltb_spec ((a + b) mod 18446744073709551616) a); lia.
Qed.
Lemma mul_saturate_spec a b : a < W -> b < W -> mul_saturate a b = N.min (a * b) MAX.
Proof.
  intros Ha Hb. unfold mul_saturate, MAX. rewrite W_val in *.
  destruct (N.eqb_spec b 0) as [->|Hb0]; cbn [negb andb].
  - rewrite N.mul_0_r. reflexivity.
  - destruct (N.ltb_spec ((18446744073709551616 - 1) / b) a) as [Hlt|Hge].
    + (* a > MAX / b  ->  a*b > MAX *)
      assert (18446744073709551616 - 1 < a * b).
      { assert (H := N.mul_succ_div_gt (18446744073709551616 - 1) b Hb0). nia. }
      lia.
    + assert (a * b <= 18446744073709551616 - 1).
      { assert (H := N.mul_div_le (18446744073709551616 - 1) b Hb0). nia. }
      rewrite N.mod_small by lia. lia.
Qed.

(* nested program: an instruction contributes c, or repeats a block *)
Inductive instr := Op (c : N) | Repeat (reps : N) (body : list instr).
Fixpoint exact (i : instr) : N :=
  match i with Op c => c | Repeat r body => r * fold_right (fun j acc => exact j + acc) 0 body end.
Definition exact_block (b : list instr) : N := fold_right (fun j acc => exact j + acc) 0 b.
(* Circuit::flat_count_operations as written: n = add_sat(n, mul_sat(sub, reps)) left to right *)
Fixpoint sat (i : instr) : N :=
  match i with
  | Op c => c
  | Repeat r body => mul_saturate (fold_left (fun n j => add_saturate n (sat j)) body 0) r
  end.
Definition sat_block (b : list instr) : N := fold_left (fun n j => add_saturate n (sat j)) b 0.

(* well-formedness: literal counts and repeat counts fit in 64 bits *)
Fixpoint wf (i : instr) : Prop :=
  match i with Op c => c < W | Repeat r body => r < W /\ (fix all l := match l with [] => True | j :: l' => wf j /\ all l' end) body end.
Fixpoint wf_block (b : list instr) : Prop := match b with [] => True | j :: b' => wf j /\ wf_block b' end.

Lemma min_add a b : N.min (N.min a MAX + N.min b MAX) MAX = N.min (a + b) MAX.
Proof. unfold MAX; rewrite W_val; lia. Qed.
Lemma min_mul a r : N.min (N.min a MAX * r) MAX = N.min (a * r) MAX.
Proof. unfold MAX; rewrite W_val. destruct (N.le_gt_cases a (18446744073709551616 - 1)) as [Hle|Hgt].
  - replace (N.min a (18446744073709551616 - 1)) with a by lia. reflexivity.
  - replace (N.min a (18446744073709551616 - 1)) with (18446744073709551616 - 1) by lia.
    destruct (N.eq_dec r 0) as [->|Hr]; [lia|].
    assert (18446744073709551616 - 1 <= (18446744073709551616 - 1) * r) by nia.
    assert (18446744073709551616 - 1 <= a * r) by nia. lia. Qed.

(* strong induction principle for the nested type *)
Section Ind.
  Variable P : instr -> Prop.
  Hypothesis HOp : forall c, P (Op c).
  Hypothesis HRep : forall r body, Forall P body -> P (Repeat r body).
  Fixpoint instr_ind' (i : instr) : P i :=
    match i with
    | Op c => HOp c
    | Repeat r body => HRep r body ((fix go l : Forall P l := match l with [] => Forall_nil _ | j :: l' => Forall_cons _ (instr_ind' j) (go l') end) body)
    end.
End Ind.

Lemma fold_sat_spec body : Forall (fun j => wf j -> sat j = N.min (exact j) MAX) body -> wf_block body ->
  forall n0, n0 <= MAX -> fold_left (fun n j => add_saturate n (sat j)) body n0 = N.min (n0 + exact_block body) MAX.
Proof.
  induction body as [|j body IH]; intros HF Hwf n0 Hn0; cbn [fold_left exact_block fold_right].
  - rewrite N.add_0_r. rewrite N.min_l by exact Hn0. reflexivity.
  - inversion HF as [|? ? Hj HF']; subst. destruct Hwf as [Hwj Hwb].
    rewrite (Hj Hwj). rewrite add_saturate_spec.
    2:{ unfold MAX in *; rewrite W_val in *; lia. } 2:{ unfold MAX; rewrite W_val; lia. }
    rewrite IH; auto. 2:{ unfold MAX; rewrite W_val; lia. }
    fold (exact_block body). 
    rewrite <- (N.min_id MAX) at 2.
    replace (N.min (n0 + N.min (exact j) MAX) MAX + exact_block body) with (N.min (n0 + N.min (exact j) MAX) MAX + exact_block body) by reflexivity.
    unfold MAX; rewrite W_val; lia.
Qed.

Theorem counts_eq_unrolled_saturating i : wf i -> sat i = N.min (exact i) MAX.
Proof.
  induction i as [c|r body IH] using instr_ind'; intros Hwf; cbn [sat exact wf] in *.
  - unfold MAX; rewrite W_val in *; lia.
  - destruct Hwf as [Hr Hb].
    assert (Hb' : wf_block body).
    { clear IH. induction body as [|j body IHb]; [exact I|]. destruct Hb as [H1 H2]. split; [exact H1| apply IHb; exact H2]. }
    rewrite (fold_sat_spec body IH Hb' 0) by (unfold MAX; rewrite W_val; lia).
    rewrite N.add_0_l. fold (exact_block body).
    rewrite mul_saturate_spec; [| unfold MAX; rewrite W_val; lia | exact Hr].
    rewrite min_mul. f_equal. apply N.mul_comm.
Qed.
Print Assumptions counts_eq_unrolled_saturating.
