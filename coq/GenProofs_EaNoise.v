(* Obligations over the GENERATED description of ErrorAnalyzer's noise routines: every term (probability label, sensitivity sets)
   flips exactly the detectors whose back-propagated observable anticommutes with the documented Pauli of that label
   (AdjGen.omega): X_ERROR/Y_ERROR/Z_ERROR, E products, the three terms of DEPOLARIZE1 and PAULI_CHANNEL_1, the fifteen of
   DEPOLARIZE2, and for PAULI_CHANNEL_2 the translated index arithmetic sends argument k (documented order IX IY IZ XI ... ZZ)
   to the term of exactly that Pauli pair. *)
From Coq Require Import List Bool String NArith Arith.
Import ListNotations.
Require Import Gen_EaNoise AdjGen.
Local Open Scope string_scope.

Definition mem (x : string) (l : list string) : bool := existsb (String.eqb x) l.
(* the Pauli (x, z) a set combination stands for on one qubit: a detector is in zs iff its observable has a Z there, and an X
   error anticommutes with it; so "zs" contributes the X component and "xs" the Z component *)
Definition pauli_of1 (xs_name zs_name : string) (sets : list string) : pz := (mem zs_name sets, mem xs_name sets).
Definition all_pz : list pz := [(false,false); (false,true); (true,false); (true,true)].
(* flipping rule as implemented: XOR of memberships *)
Definition flips1 (xs_name zs_name : string) (sets : list string) (s : pz) : bool :=
  xorb (mem xs_name sets && fst s) (mem zs_name sets && snd s).
Definition term_ok1 (sets : list string) : bool :=
  forallb (fun s => Bool.eqb (flips1 "xs" "zs" sets s) (omega s (pauli_of1 "xs" "zs" sets))) all_pz &&
  forallb (fun n => mem n ["xs"; "zs"]) sets.
Definition code (p : pz) : N := match p with (false,false) => 0 | (true,false) => 1 | (true,true) => 2 | (false,true) => 3 end%N.
Definition terms_of (g : string) : list (string * list string) :=
  match find (fun r => String.eqb (fst r) g) ea_noise with Some r => snd r | None => [] end.
Definition label_code (l : string) : N := if String.eqb l "X" then 1 else if String.eqb l "Y" then 2 else if String.eqb l "Z" then 3 else 0.
Definition sortedN (l : list N) : list N := (* insertion sort, small lists *)
  fold_right (fun x acc => (fix ins (a : N) (l : list N) := match l with [] => [a] | y :: r => if N.leb a y then a :: l else y :: ins a r end) x acc) [] l.

Definition single_ok (g : string) (p : pz) : bool :=
  match terms_of g with [(l, sets)] => String.eqb l "arg0" && term_ok1 sets && N.eqb (code (pauli_of1 "xs" "zs" sets)) (code p) | _ => false end.
Definition e_ok : bool :=
  match terms_of "E" with
  | [(l1, s1); (l2, s2)] => String.eqb l1 "Zbit" && N.eqb (code (pauli_of1 "xs" "zs" s1)) 3 && term_ok1 s1 &&
                            String.eqb l2 "Xbit" && N.eqb (code (pauli_of1 "xs" "zs" s2)) 1 && term_ok1 s2
  | _ => false end.
Definition dep1_ok : bool :=
  let t := terms_of "DEPOLARIZE1" in
  forallb (fun '(l, sets) => String.eqb l "p" && term_ok1 sets) t &&
  match sortedN (map (fun '(_, sets) => code (pauli_of1 "xs" "zs" sets)) t) with [1; 2; 3]%N => true | _ => false end.
Definition pc1_ok : bool :=
  let t := terms_of "PAULI_CHANNEL_1" in
  forallb (fun '(l, sets) => term_ok1 sets && N.eqb (label_code l) (code (pauli_of1 "xs" "zs" sets))) t &&
  match sortedN (map (fun '(l, _) => label_code l) t) with [1; 2; 3]%N => true | _ => false end.

(* two qubits: pair code 4 * code(a) + code(b); sets are xs_a zs_a xs_b zs_b *)
Definition pair_code (sets : list string) : N := (4 * code (pauli_of1 "xs_a" "zs_a" sets) + code (pauli_of1 "xs_b" "zs_b" sets))%N.
Definition term_ok2 (sets : list string) : bool :=
  forallb (fun sa => forallb (fun sb =>
    Bool.eqb (xorb (flips1 "xs_a" "zs_a" sets sa) (flips1 "xs_b" "zs_b" sets sb))
             (xorb (omega sa (pauli_of1 "xs_a" "zs_a" sets)) (omega sb (pauli_of1 "xs_b" "zs_b" sets)))) all_pz) all_pz &&
  forallb (fun n => mem n ["xs_a"; "zs_a"; "xs_b"; "zs_b"]) sets.
Definition one_to_15 : list N := [1;2;3;4;5;6;7;8;9;10;11;12;13;14;15]%N.
Definition list_eqb (a b : list N) : bool := (Nat.eqb (List.length a) (List.length b)) && forallb (fun '(x, y) => N.eqb x y) (combine a b).
Definition dep2_ok : bool :=
  let t := terms_of "DEPOLARIZE2" in
  forallb (fun '(l, sets) => String.eqb l "p" && term_ok2 sets) t &&
  list_eqb (sortedN (map (fun '(_, sets) => pair_code sets) t)) one_to_15.
(* PAULI_CHANNEL_2: the term stored at combination index c is labelled "idx<c>" in generation order, i.e. it is the c-th term *)
Definition pc2_ok : bool :=
  let t := terms_of "PAULI_CHANNEL_2" in
  Nat.eqb (List.length t) 15 && forallb (fun '(_, sets) => term_ok2 sets) t &&
  forallb (fun k => let c := pc2_index k in
                    (N.leb 1 c) && (N.leb c 15) &&
                    match nth_error t (N.to_nat c - 1) with
                    | Some (_, sets) => N.eqb (pair_code sets) (k + 1)      (* documented: argument k is Pauli pair number k + 1 *)
                    | None => false end) [0;1;2;3;4;5;6;7;8;9;10;11;12;13;14]%N.
(* heralded channels: a Pauli is applied only together with the herald; with the herald set the term's Pauli is the labelled one *)
Definition strip_herald (sets : list string) : list string := filter (fun n => negb (String.eqb n "herald")) sets.
Definition herald_term_ok (labelled : bool) (t : string * list string) : bool :=
  let '(l, sets) := t in
  let pz := strip_herald sets in
  term_ok1 pz &&
  (if mem "herald" sets
   then (if labelled then N.eqb (label_code l) (code (pauli_of1 "xs" "zs" pz)) && negb (String.eqb l "0") else String.eqb l "quarter")
   else String.eqb l "0").
Definition heralded_ok (g : string) (labelled : bool) : bool :=
  let t := terms_of g in
  Nat.eqb (List.length t) 7 && forallb (herald_term_ok labelled) t &&
  (* the four herald terms carry the four distinct Paulis I X Y Z *)
  match sortedN (map (fun '(_, sets) => code (pauli_of1 "xs" "zs" (strip_herald sets))) (filter (fun '(_, sets) => mem "herald" sets) t)) with
  | [0; 1; 2; 3]%N => true | _ => false end.
Definition is_nil {A} (l : list A) : bool := match l with [] => true | _ => false end.
Definition ea_noise_all_ok : bool :=
  heralded_ok "HERALDED_ERASE" false && heralded_ok "HERALDED_PAULI_CHANNEL_1" true &&
  is_nil ea_noise_refused && single_ok "X_ERROR" (true, false) && single_ok "Y_ERROR" (true, true) && single_ok "Z_ERROR" (false, true) &&
  e_ok && dep1_ok && pc1_ok && dep2_ok && pc2_ok.
Theorem analyzer_noise_routines_match_adjgen : ea_noise_all_ok = true.
Proof. vm_compute. reflexivity. Qed.
