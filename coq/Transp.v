From Coq Require Import List Bool Arith Lia.
Import ListNotations.

(* C09 (ptb64) / C20: transposition of a rectangular bit table given as a list of rows is an involution.
   ptb64 = for each block of 64 shots, transpose (shots x measurements -> measurements x shots) and emit each
   64-bit row with the b8 packing; the reader does the same transposition back. *)
Section T.
  Variable A : Type.
  Definition rect (r c : nat) (t : list (list A)) : Prop := length t = r /\ Forall (fun row => length row = c) t.

  (* transpose of an r x c table; c is passed explicitly so that r = 0 still yields c empty rows *)
  Fixpoint transpose (c : nat) (t : list (list A)) : list (list A) :=
    match t with
    | [] => repeat [] c
    | row :: t' => map (fun p => fst p :: snd p) (combine row (transpose c t'))
    end.

  Lemma transpose_rect r c t : rect r c t -> rect c r (transpose c t).
  Proof.
    revert r; induction t as [|row t IH]; intros r [Hr Hc]; cbn in *.
    - subst r. split; [apply repeat_length|]. apply Forall_forall. intros x Hx. apply repeat_spec in Hx. subst x. reflexivity.
    - apply Forall_cons_iff in Hc as [Hrow Hc]. destruct r as [|r]; [discriminate|]. injection Hr as Hr.
      destruct (IH r (conj Hr Hc)) as [H1 H2]. split.
      + rewrite map_length, combine_length, H1, Hrow. lia.
      + apply Forall_forall. intros x Hx. apply in_map_iff in Hx as ([a l] & <- & Hin). cbn.
        apply in_combine_r in Hin. rewrite Forall_forall in H2. rewrite (H2 l Hin). reflexivity.
  Qed.

  Lemma transpose_cons_col c (col : list A) (t : list (list A)) : length col = length t -> Forall (fun row => length row = c) t ->
    transpose (S c) (map (fun p => fst p :: snd p) (combine col t)) = col :: transpose c t.
  Proof.
    revert col; induction t as [|row t IH]; intros [|a col] Hl Hc; cbn in Hl; try discriminate.
    - reflexivity.
    - injection Hl as Hl. apply Forall_cons_iff in Hc as [Hrow Hc]. cbn [combine map transpose fst snd].
      rewrite (IH col Hl Hc). cbn [combine map fst snd]. reflexivity.
  Qed.

  Theorem transpose_involutive r c t : rect r c t -> transpose r (transpose c t) = t.
  Proof.
    revert r; induction t as [|row t IH]; intros r [Hr Hc]; cbn [transpose] in *.
    - subst r. cbn [length]. destruct c; reflexivity.
    - apply Forall_cons_iff in Hc as [Hrow Hc]. destruct r as [|r]; [discriminate|]. injection Hr as Hr.
      destruct (transpose_rect r c t (conj Hr Hc)) as [H1 H2].
      rewrite transpose_cons_col; [|rewrite H1; exact Hrow| exact H2].
      rewrite (IH r (conj Hr Hc)). reflexivity.
  Qed.
End T.
Print Assumptions transpose_involutive.
