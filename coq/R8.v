From Coq Require Import List Arith Lia Bool.
Import ListNotations.

(* ---- documented encoder (doc/result_formats.md save_r8), one shot ---- *)
Fixpoint flush255 (fuel gap : nat) : list nat * nat :=      (* while gap >= 255: emit 255 *)
  match fuel with 0 => ([], gap) | S f => if 255 <=? gap then let '(o, g) := flush255 f (gap - 255) in (255 :: o, g) else ([], gap) end.
Fixpoint spec_go (bits : list bool) (gap : nat) : list nat :=
  match bits with
  | [] => []
  | true :: r => let '(o, g) := flush255 gap gap in o ++ [g] ++ spec_go r 0
  | false :: r => spec_go r (S gap)
  end.
Definition spec_enc (shot : list bool) : list nat := spec_go (shot ++ [true]) 0.

(* ---- implementation writer (MeasureRecordWriterFormatR8::write_bit / write_end) ---- *)
Definition wbit (st : list nat * nat) (b : bool) : list nat * nat :=
  let '(out, run) := st in
  if b then (out ++ [run], 0) else if S run =? 255 then (out ++ [255], 0) else (out, S run).
Definition impl_enc (shot : list bool) : list nat :=
  let '(out, run) := fold_left wbit shot ([], 0) in out ++ [run].

(* ---- meaning of a byte string ---- *)
Fixpoint expand (bytes : list nat) : list bool :=
  match bytes with [] => [] | b :: r => repeat false b ++ (if b =? 255 then [] else [true]) ++ expand r end.
Lemma expand_app a b : expand (a ++ b) = expand a ++ expand b.
Proof. induction a as [|x a IH]; cbn; [reflexivity|]. rewrite IH, !app_assoc. reflexivity. Qed.

Arguments repeat : simpl never.
Lemma expand_cons b r : expand (b :: r) = repeat false b ++ (if b =? 255 then [] else [true]) ++ expand r.
Proof. reflexivity. Qed.
Lemma expand_255 : expand [255] = repeat false 255.
Proof. rewrite expand_cons. rewrite Nat.eqb_refl. cbn [expand app]. now rewrite app_nil_r. Qed.
Lemma expand_lt b : b <> 255 -> expand [b] = repeat false b ++ [true].
Proof. intros H. rewrite expand_cons. destruct (Nat.eqb_spec b 255); [contradiction|]. cbn [expand app]. reflexivity. Qed.
Lemma repeat_snoc (m : nat) : repeat false m ++ [false] = repeat false (S m).
Proof. change [false] with (repeat false 1). rewrite <- repeat_app. f_equal. lia. Qed.

(* writer invariant: what has been written, plus the pending run, spells the bits consumed so far *)
Lemma wbit_inv st b : snd st < 255 -> snd (wbit st b) < 255 /\
  expand (fst (wbit st b)) ++ repeat false (snd (wbit st b)) = (expand (fst st) ++ repeat false (snd st)) ++ [b].
Proof.
  destruct st as [out run]; cbn [fst snd]; intros Hr. unfold wbit. destruct b.
  - cbn [fst snd]. split; [lia|]. rewrite expand_app, expand_lt by lia.
    change (repeat false 0) with (@nil bool). rewrite app_nil_r, <- !app_assoc. reflexivity.
  - destruct (Nat.eqb_spec (S run) 255) as [E|E]; cbn [fst snd].
    + split; [lia|]. rewrite expand_app, expand_255. change (repeat false 0) with (@nil bool). rewrite app_nil_r.
      rewrite <- app_assoc, repeat_snoc, E. reflexivity.
    + split; [lia|]. rewrite <- app_assoc, repeat_snoc. reflexivity.
Qed.
Lemma fold_wbit_inv shot st : snd st < 255 ->
  snd (fold_left wbit shot st) < 255 /\
  expand (fst (fold_left wbit shot st)) ++ repeat false (snd (fold_left wbit shot st)) = (expand (fst st) ++ repeat false (snd st)) ++ shot.
Proof.
  revert st; induction shot as [|b shot IH]; intros st Hr; cbn [fold_left].
  - rewrite app_nil_r. auto.
  - destruct (wbit_inv st b Hr) as [H1 H2]. destruct (IH _ H1) as [H3 H4]. split; [exact H3|].
    rewrite H4, H2, <- app_assoc. reflexivity.
Qed.
Theorem impl_enc_meaning shot : expand (impl_enc shot) = shot ++ [true].
Proof.
  unfold impl_enc. destruct (fold_wbit_inv shot ([], 0) ltac:(cbn; lia)) as [Hr H].
  destruct (fold_left wbit shot ([], 0)) as [out run]; cbn [fst snd] in *.
  rewrite expand_app. cbn [expand]. destruct (Nat.eqb_spec run 255); [lia|]. rewrite app_nil_r, app_assoc, H. reflexivity.
Qed.

(* ---- implementation reader (start_and_read_entire_record_helper), n = bits per record ---- *)
Inductive res := Done (hits : list nat) (rest : list nat) | Bad.
Fixpoint dec (n : nat) (bytes : list nat) (pos : nat) (hits : list nat) : res :=
  match bytes with
  | [] => Bad                                   (* EOF before the terminator *)
  | b :: r => let pos' := pos + b in
      if b =? 255 then dec n r pos' hits
      else if pos' <? n then dec n r (S pos') (hits ++ [pos'])
      else if pos' =? n then Done hits r else Bad
  end.
Definition bits_of_hits (n : nat) (hits : list nat) : list bool := map (fun k => existsb (Nat.eqb k) hits) (seq 0 n).

(* decoder specification against `expand`: positions of the trues *)
Fixpoint true_positions (l : list bool) (k : nat) : list nat :=
  match l with [] => [] | true :: r => k :: true_positions r (S k) | false :: r => true_positions r (S k) end.
Lemma true_positions_app a b k : true_positions (a ++ b) k = true_positions a k ++ true_positions b (k + length a).
Proof. revert k; induction a as [|x a IH]; intros k; cbn [app true_positions length]; [now rewrite Nat.add_0_r|].
  replace (k + S (length a)) with (S k + length a) by lia. destruct x; rewrite IH; reflexivity. Qed.
Lemma true_positions_repeat_false m k : true_positions (repeat false m) k = [].
Proof. revert k; induction m as [|m IH]; intros k; [reflexivity|]. change (repeat false (S m)) with (false :: repeat false m). cbn [true_positions]. apply IH. Qed.

(* positions of the trues spelled by a byte string, and its total length in bits *)
Fixpoint hits_of (bytes : list nat) (pos : nat) : list nat :=
  match bytes with [] => [] | b :: r => if b =? 255 then hits_of r (pos + 255) else (pos + b) :: hits_of r (S (pos + b)) end.
Fixpoint nbits (bytes : list nat) : nat :=
  match bytes with [] => 0 | b :: r => (if b =? 255 then 255 else S b) + nbits r end.
Lemma hits_of_expand bytes : forall pos, hits_of bytes pos = true_positions (expand bytes) pos.
Proof.
  induction bytes as [|b r IH]; intros pos; [reflexivity|]. rewrite expand_cons. cbn [hits_of].
  rewrite true_positions_app, true_positions_repeat_false, repeat_length. cbn [app].
  destruct (Nat.eqb_spec b 255) as [->|Hne]; cbn [app true_positions]; rewrite IH; reflexivity.
Qed.
Lemma nbits_expand bytes : nbits bytes = length (expand bytes).
Proof. induction bytes as [|b r IH]; [reflexivity|]. rewrite expand_cons, !app_length, repeat_length. cbn [nbits].
  destruct (Nat.eqb_spec b 255); cbn [length]; lia. Qed.

Lemma hits_of_nonempty l : forall p, l <> [] -> last l 0 <> 255 -> hits_of l p <> [].
Proof.
  induction l as [|x l IH]; intros p Hne Hl; [contradiction|]. cbn [hits_of].
  destruct (Nat.eqb_spec x 255) as [->|Hx]; [|discriminate].
  destruct l as [|y l']; [cbn in Hl; contradiction|]. apply IH; [discriminate| exact Hl].
Qed.

(* the reader consumes exactly a byte string that spells n bits followed by the terminating true *)
Lemma dec_correct n : forall bytes pos hits tail,
  bytes <> [] -> last bytes 0 <> 255 -> pos + nbits bytes = S n ->
  dec n (bytes ++ tail) pos hits = Done (hits ++ removelast (hits_of bytes pos)) tail.
Proof.
  induction bytes as [|b r IH]; intros pos hits tail Hne Hlast Hlen; [contradiction|].
  cbn [app dec hits_of nbits] in *.
  destruct r as [|b' r'].
  - (* last byte: the terminator *)
    cbn [last] in Hlast. destruct (Nat.eqb_spec b 255) as [E|E]; [contradiction|].
    cbn [nbits] in Hlen. destruct (Nat.ltb_spec (pos + b) n); [lia|].
    destruct (Nat.eqb_spec (pos + b) n); [|lia]. cbn [hits_of removelast app]. now rewrite app_nil_r.
  - assert (Hl : last (b' :: r') 0 <> 255) by exact Hlast.
    assert (Hnb : 1 <= nbits (b' :: r')) by (cbn [nbits]; destruct (b' =? 255); lia).
    destruct (Nat.eqb_spec b 255) as [E|E].
    + subst b. rewrite IH; [reflexivity| discriminate | exact Hl | lia].
    + destruct (Nat.ltb_spec (pos + b) n) as [Hlt|Hge]; [|lia].
      rewrite IH; [| discriminate | exact Hl | lia].
      rewrite <- app_assoc. cbn [app]. f_equal. f_equal.
      change (removelast (pos + b :: hits_of (b' :: r') (S (pos + b)))) with
             (match hits_of (b' :: r') (S (pos + b)) with [] => [] | _ :: _ => pos + b :: removelast (hits_of (b' :: r') (S (pos + b))) end).
      (* the remaining bytes end with a non-255 byte, hence contain a hit *)
      assert (Hnonempty : hits_of (b' :: r') (S (pos + b)) <> []) by (apply hits_of_nonempty; [discriminate| exact Hl]).
      destruct (hits_of (b' :: r') (S (pos + b))); [contradiction|reflexivity].
Qed.

(* the implementation writer's output has the shape the reader needs *)
Lemma wbit_last st b : snd st < 255 -> Forall (fun x => x <= 255) (fst st) -> Forall (fun x => x <= 255) (fst (wbit st b)).
Proof. destruct st as [out run]; cbn [fst snd]; intros Hr Hf. unfold wbit. destruct b; [apply Forall_app; split; auto; constructor; [lia|constructor]|].
  destruct (S run =? 255); cbn [fst]; auto. apply Forall_app; split; auto. Qed.

Theorem r8_roundtrip shot tail :
  dec (length shot) (impl_enc shot ++ tail) 0 [] = Done (true_positions shot 0) tail.
Proof.
  pose proof (impl_enc_meaning shot) as Hm.
  assert (Hne : impl_enc shot <> []) by (unfold impl_enc; destruct (fold_left wbit shot ([], 0)); destruct l; discriminate).
  assert (Hlast : last (impl_enc shot) 0 <> 255).
  { unfold impl_enc. destruct (fold_wbit_inv shot ([], 0) ltac:(cbn; lia)) as [Hr _].
    destruct (fold_left wbit shot ([], 0)) as [out run]; cbn [snd] in Hr. rewrite last_last. lia. }
  rewrite dec_correct; auto.
  - rewrite hits_of_expand, Hm, true_positions_app. cbn [true_positions app].
    rewrite removelast_app by discriminate. cbn [removelast]. now rewrite app_nil_r.
  - rewrite nbits_expand, Hm, app_length. cbn. lia.
Qed.
Print Assumptions r8_roundtrip.
