(* Obligations over the GENERATED linear forms of FrameSimulator's measurement / reset routines: for every gate of the dispatch
   (M, MX, MY, MR, MRX, MRY, R, RX, RY), every frame (x, z) of the target and every value of the random bit:
   the recorded flip is omega(basis, frame) (AdjGen.fstep's GM); the new frame agrees with AdjGen's (unchanged after a
   measurement, identity after a reset) on the component that anticommutes with the basis, i.e. differs from it by a power of
   the basis Pauli, which stabilises the post-measurement / post-reset state; with frame randomisation on, that power is the
   fresh random bit (so an anticommuting later measurement is uniformly random); with it off no randomness is used. *)
From Coq Require Import List Bool String Arith.
Import ListNotations.
Require Import Gen_Frame Gen_FrameMeas AdjGen GenProofs_RevMeas.
Local Open Scope string_scope.

Definition ev (l : lin) (x z r : bool) : bool := let '(cx, cz, cr) := l in xorb (xorb (cx && x) (cz && z)) (cr && r).
Definition coef_r (l : option lin) : bool := match l with Some (_, _, cr) => cr | None => false end.
Definition f_routine_of (gate : string) : string :=
  match find (fun '(g, _, _) => String.eqb g gate) frame_other with Some (_, r, _) => r | None => "" end.
Definition f_row_of (gate : string) :=
  find (fun '(n, _, _) => String.eqb n (f_routine_of gate)) framemeas.

Definition bools3 : list (bool * bool * bool) :=
  flat_map (fun x => flat_map (fun z => map (fun r => (x, z, r)) [false; true]) [false; true]) [false; true].
Definition side_ok (gate : string) (side : option lin * option lin * option lin) (randomised : bool) : bool :=
  let '(rec, nx, nz) := side in
  let b := basis gate in
  match nx, nz with
  | Some lx, Some lz =>
    (* recorded flip *)
    (match rec with
     | Some lr => is_meas gate && forallb (fun '(x, z, r) => Bool.eqb (ev lr x z r) (omega b (x, z))) bools3
     | None => negb (is_meas gate) end) &&
    (* anticommuting component kept / cleared *)
    forallb (fun '(x, z, r) => Bool.eqb (omega b (ev lx x z r, ev lz x z r)) (omega b (if is_reset gate then pid else (x, z)))) bools3 &&
    (* randomisation exactly along the basis, or none *)
    (if randomised then Bool.eqb (coef_r nx) (fst b) && Bool.eqb (coef_r nz) (snd b) else negb (coef_r nx) && negb (coef_r nz)) &&
    negb (coef_r rec)
  | _, _ => false
  end.
Definition fgate_ok (gate : string) : bool :=
  match f_row_of gate with
  | Some (_, on, off) => side_ok gate on true && side_ok gate off false
  | None => false
  end.
Definition framemeas_all_ok : bool := is_nil framemeas_refused && forallb fgate_ok meas_gates.
Theorem frame_measure_reset_routines_match_adjgen : framemeas_all_ok = true.
Proof. vm_compute. reflexivity. Qed.

(* two single-qubit frames with the same anticommuting component w.r.t. a non-identity basis differ by a power of the basis *)
Lemma same_omega_differs_by_basis (b f g : pz) : b <> pid -> omega b f = omega b g -> f = g \/ f = pxor g b.
Proof. destruct b as [[] []], f as [[] []], g as [[] []]; cbn; intros Hb H; try discriminate; try (left; reflexivity); try (right; reflexivity); contradiction Hb; reflexivity. Qed.
