(* C02 — Bulk (reference-frame) sampling yields the circuit's measurement distribution. *)
From Coq Require Import List Bool String ZArith.
Import ListNotations.
Require GenProofs_FrameMeas.
Require Pauli Sem Uniform RefFold Loops.
Require Import Stab Act Spec SpecProofs GF2 Gen_GateTable Gen_Frame GenProofs_Frame.
Require GenProofs_TabMeas.
Require Run FrameRun FrameComplete RunComplete FrameProg FrameUniform ProgRuns Collapse Refine.

(* (1) Tie G: every unitary FrameSimulator routine (translated from frame_simulator.inl) equals the documented gate action
       with the sign dropped, on frames of any size and any target list; every fixed unitary of the table is dispatched
       (Paulis and identities to an empty routine, which is right because frames ignore signs). *)
Theorem C02_frame_routines_match_table : frame_all_ok = true.
Proof. exact frame_generated_routines_match_table. Qed.
Theorem C02_frame_routines_correct_1q :
  forall g f, In (g, f) frame_do1 -> forall ts P, run1 f ts P = run1 (ftab1 g) ts P.
Proof. exact frame_do1_correct. Qed.
Theorem C02_frame_routines_correct_2q :
  forall g f, In (g, f) frame_do2 -> forall ts P, run2 f ts P = run2 (ftab2 g) ts P.
Proof. exact frame_do2_correct. Qed.
(* FrameSimulator's measurement / reset routines (do_MX .. do_MRZ, do_RX .. do_RZ), executed symbolically from the source on
   every run: the recorded flip is omega(basis, frame); the frame keeps (measurement) or loses (reset) exactly the component that
   anticommutes with the basis; frame randomisation goes along the basis and nowhere else *)
Theorem C02_frame_measure_reset_routines_match : GenProofs_FrameMeas.framemeas_all_ok = true.
Proof. exact GenProofs_FrameMeas.frame_measure_reset_routines_match_adjgen. Qed.
Print Assumptions C02_frame_routines_match_table.
Print Assumptions C02_frame_routines_correct_2q.

(* (2) Frame laws at the predicate level (state = membership predicate of the stabilizer group, shift F S = the state seen
       through the Pauli frame F): they are the four induction steps of "reference record xor frame flips is a valid record". *)
Theorem C02_frame_flips_determined_outcome_by_anticommutation :
  forall (F : Pauli.pauli) (S : Sem.state) (M : Pauli.pauli) (o : bool),
  Sem.meas_det S M o -> Sem.meas_det (Sem.shift F S) M (xorb o (Sem.acom F M)).
Proof. exact Sem.frame_meas_det. Qed.
Theorem C02_frame_keeps_random_measurement_random :
  forall (F : Pauli.pauli) (S : Sem.state) (M : Pauli.pauli), Sem.meas_rnd_ok S M -> Sem.meas_rnd_ok (Sem.shift F S) M.
Proof. exact Sem.frame_meas_rnd_ok. Qed.
Theorem C02_frame_commutes_with_random_collapse :
  forall (F : Pauli.z4 * list (bool * bool)) (S : Sem.state) (M : Pauli.z4 * list (bool * bool)) (c : bool) P,
  List.length (snd F) = List.length (snd M) -> List.length (snd P) = List.length (snd M) ->
  Sem.shift F (Sem.post_rnd S M c) P <-> Sem.post_rnd (Sem.shift F S) M (xorb c (Sem.acom F M)) P.
Proof. exact Sem.frame_post_rnd. Qed.
Theorem C02_extra_randomisation_commuting_with_state_is_invisible :
  forall (F Zq : Pauli.pauli) (S : Sem.state) (P : Pauli.pauli),
  List.length (snd F) = List.length (snd Zq) -> List.length (snd Zq) = List.length (snd P) ->
  (forall g, S g -> Sem.acom Zq g = false) ->
  Sem.shift (Pauli.pmul F Zq) S P <-> Sem.shift F S P.
Proof. exact Sem.frame_extra_commuting. Qed.
(* (3) crux of "measurements that are not determined come out either way": the other outcome of a random measurement is the
       same branch seen through a frame g0 taken from the state itself, which frame randomisation supplies. *)
Theorem C02_other_outcome_is_a_frame :
  forall (S : Sem.state) (M g0 : Pauli.pauli) (c : bool) (P : Pauli.pauli),
  List.length (snd g0) = List.length (snd M) -> List.length (snd P) = List.length (snd M) ->
  (forall g, S g -> Sem.acom g0 g = false) -> Sem.acom g0 M = true ->
  Sem.post_rnd S M (negb c) P <-> Sem.shift g0 (Sem.post_rnd S M c) P.
Proof. exact Sem.post_rnd_other_outcome. Qed.
Theorem C02_frame_from_the_state_does_nothing_else :
  forall (g0 : Pauli.pauli) (S : Sem.state) (P : Pauli.pauli),
  (forall g, S g -> Sem.acom g0 g = false) -> Sem.shift g0 S P <-> S P.
Proof. exact Sem.shift_stab. Qed.
Print Assumptions C02_frame_commutes_with_random_collapse.
Print Assumptions C02_other_outcome_is_a_frame.

(* (4) Uniformity: an XOR-linear map from k randomisation bits to record flips has equally large fibres over every image
       point, so uniform bits give a record uniform on  reference + image. *)
Theorem C02_linear_image_of_uniform_bits_is_uniform :
  forall (k m : nat) (f : list bool -> list bool),
  (forall x, List.length x = k -> List.length (f x) = m) ->
  (forall x y, List.length x = k -> List.length y = k -> f (Uniform.vxor x y) = Uniform.vxor (f x) (f y)) ->
  forall veqb : list bool -> list bool -> bool, (forall a b, veqb a b = true <-> a = b) ->
  forall x0 x1, List.length x0 = k -> List.length x1 = k ->
  Uniform.fiber k f veqb (f x0) = Uniform.fiber k f veqb (f x1).
Proof. exact Uniform.fibers_equal. Qed.

(* (5) The compressed reference sample: the tortoise-hare search and fold as structured in
       do_loop_with_tortoise_hare_folding decompresses to the plainly iterated output, for every repetition count and every
       step function with a bisimulation. *)
Theorem C02_folded_reference_sample_decompresses_to_unrolled :
  forall (St Out : Type) (step : St -> St * Out) (eqv : St -> St -> Prop) (eqb : St -> St -> bool),
  (forall a b, eqv a b -> snd (step a) = snd (step b) /\ eqv (fst (step a)) (fst (step b))) ->
  (forall a b, eqv a b -> eqv b a) -> (forall a b, eqb a b = true -> eqv a b) ->
  forall (reps : nat) (s0 : St),
  RefFold.decompress Out (RefFold.fold_loop St Out step eqb reps s0) = Loops.outs St Out step reps s0.
Proof. exact RefFold.fold_loop_correct. Qed.
Print Assumptions C02_linear_image_of_uniform_bits_is_uniform.
Print Assumptions C02_folded_reference_sample_decompresses_to_unrolled.

(* (6) the oracle used on every sampled shot *)
Theorem C02_shot_oracle_sound :
  forall m eqs, consistent m eqs = true -> exists k, List.length k = m /\ Forall (satisfies m k) eqs.
Proof. exact consistent_sound. Qed.
Theorem C02_shot_oracle_complete : forall m eqs k, Forall (satisfies m k) eqs -> consistent m eqs = true.
Proof. exact consistent_complete. Qed.

Example C02_nonvacuous : (exists g f, In (g, f) frame_do1) /\ (exists g f, In (g, f) frame_do2).
Proof. split; [ destruct frame_do1 as [|[g f] l] eqn:E | destruct frame_do2 as [|[g f] l] eqn:E ];
  try (vm_compute in E; discriminate); repeat eexists; left; reflexivity. Qed.

(* FrameSimulator's MXX / MYY / MZZ segments, regenerated from source: the single-qubit basis-B measurement routine of the
   dispatch applied to every first target, conjugated by a self-inverse table gate taking B (x) B to B (x) I. *)
Theorem C02_pair_measurement_segments_measure_the_product : GenProofs_TabMeas.seg_class_ok "frame" = true.
Proof. exact GenProofs_TabMeas.frame_pair_segments_ok. Qed.
Print Assumptions C02_pair_measurement_segments_measure_the_product.

(* Whole runs under a Pauli frame: if the semantics allows a reference run with results r_k, then for ANY frame F it also allows,
   from the frame-shifted state, the run whose results are r_k xor [F_k, M_k] with F_k the frame carried through the Cliffords so
   far; the final state is the frame-shifted final state. Every shot the frame sampler derives from a legal reference sample is a
   legal record, for circuits of any length. *)
Theorem C02_framed_copy_of_a_legal_run_is_legal :
  forall (n : nat) (l : list (Run.op * option bool)) (F : Pauli.pauli) (Sg Sg' : Sem.state),
  Forall (fun x => FrameRun.ok_op n (fst x)) l -> Refine.wf n F -> Run.sem_run Sg l Sg' ->
  exists S', Run.sem_run (Sem.shift F Sg) (snd (FrameRun.frun F l)) S' /\
             FrameRun.eqs n S' (Sem.shift (fst (FrameRun.frun F l)) Sg').
Proof. exact FrameRun.framed_run_is_legal. Qed.
Theorem C02_frame_step :
  forall (n : nat) (F : Pauli.pauli) (o : Run.op) (r : option bool) (Sg Sg' S : Sem.state),
  FrameRun.ok_op n o -> Refine.wf n F -> FrameRun.eqs n S (Sem.shift F Sg) -> Run.sem_step Sg o r Sg' ->
  exists S', Run.sem_step S o (snd (FrameRun.fstep F o r)) S' /\
             FrameRun.eqs n S' (Sem.shift (fst (FrameRun.fstep F o r)) Sg') /\ Refine.wf n (fst (FrameRun.fstep F o r)).
Proof. exact FrameRun.frame_step. Qed.
Print Assumptions C02_framed_copy_of_a_legal_run_is_legal. Print Assumptions C02_frame_step.

(* The frame sampler reports EXACTLY the legal records.  Reference: any run of the inverse-tableau simulator from a state it tracks
   (good T, Inv T Sg); sampler: initial frame g in the stabilizer group of the initial state, result k = r_k xor [F_k, M_k], frame
   multiplied by M_k after the measurement when the randomisation bit z_k is set.  For every record la on the same operations:
   la is reported for some (g, zs)  <->  la is a run the semantics allows.  Circuits of any length, any number of qubits. *)
Theorem C02_frame_sampler_reports_exactly_the_legal_records :
  forall (n : nat) (l la : list (Run.op * option bool)) (s s' : (Pauli.pauli -> Pauli.pauli) * (Pauli.pauli -> Pauli.pauli)) (Sg : Sem.state),
  Forall (fun x => FrameRun.ok_op n (fst x)) l -> Run.good n (fst s) (snd s) -> Run.Inv n (fst s) Sg -> Run.sim_run n s l s' ->
  ((exists g zs, Refine.wf n g /\ Sg g /\ snd (FrameComplete.frunz g zs l) = la) <->
   (map fst la = map fst l /\ exists S', Run.sem_run Sg la S')).
Proof. exact FrameComplete.frame_exact. Qed.
Theorem C02_frame_sampler_from_the_zero_state :
  forall (n : nat) (l la : list (Run.op * option bool)) (s' : (Pauli.pauli -> Pauli.pauli) * (Pauli.pauli -> Pauli.pauli)),
  Forall (fun x => FrameRun.ok_op n (fst x)) l -> Run.sim_run n (fun P => P, fun P => P) l s' ->
  ((exists g zs, Refine.wf n g /\ Collapse.Zplus g /\ snd (FrameComplete.frunz g zs l) = la) <->
   (map fst la = map fst l /\ exists S', Run.sem_run (fun P => Collapse.Zplus P) la S')).
Proof. exact FrameComplete.frame_exact_zero_state. Qed.
(* non-vacuity: a reference run exists for every list of well-formed operations and every coin policy *)
Theorem C02_reference_run_exists :
  forall (n : nat) (c : bool) (ops : list Run.op) (s : (Pauli.pauli -> Pauli.pauli) * (Pauli.pauli -> Pauli.pauli)),
  Forall (FrameRun.ok_op n) ops -> Run.good n (fst s) (snd s) ->
  exists l s', map fst l = ops /\ Forall (fun x => FrameRun.ok_op n (fst x)) l /\ Run.sim_run n s l s'.
Proof. exact FrameComplete.sim_run_exists. Qed.
Print Assumptions C02_frame_sampler_reports_exactly_the_legal_records. Print Assumptions C02_frame_sampler_from_the_zero_state.
Print Assumptions C02_reference_run_exists.

(* ... hence the bulk (frame) sampler and the single-shot tableau simulator can report the same set of records. *)
Theorem C02_frame_sampler_and_tableau_simulator_report_the_same_records :
  forall (n : nat) (l la : list (Run.op * option bool)) (s s' : (Pauli.pauli -> Pauli.pauli) * (Pauli.pauli -> Pauli.pauli)) (Sg : Sem.state),
  Forall (fun x => FrameRun.ok_op n (fst x)) l -> Run.good n (fst s) (snd s) -> Run.Inv n (fst s) Sg -> Run.sim_run n s l s' ->
  ((exists g zs, Refine.wf n g /\ Sg g /\ snd (FrameComplete.frunz g zs l) = la) <->
   (map fst la = map fst l /\ exists s'', Run.sim_run n s la s'')).
Proof. exact RunComplete.frame_sampler_equals_simulator. Qed.
Print Assumptions C02_frame_sampler_and_tableau_simulator_report_the_same_records.

(* Adaptive circuits: programs of Clifford steps, Hermitian measurements and Paulis controlled by an earlier result (feedback,
   resets, MR) or by an external bit that differs between reference and shot (sweep bits; Pauli noise with its fault bits fixed).
   For every program, every reference run of the simulator under external bits extr, and every external bit vector exta of the
   shot: the outputs of the frame sampler (initial frame in the group of the initial state, any randomisation bits) are exactly
   the runs of the same program under exta that the semantics allows. *)
Theorem C02_frame_sampler_exact_on_adaptive_programs :
  forall (n : nat) (extr exta : nat -> bool) (prog : list FrameProg.pop) (l la : list (Run.op * option bool))
         (s s' : (Pauli.pauli -> Pauli.pauli) * (Pauli.pauli -> Pauli.pauli)) (Sg : Sem.state) (rr ra : list bool),
  Forall (FrameProg.okp n) prog -> Run.good n (fst s) (snd s) -> Run.Inv n (fst s) Sg ->
  FrameProg.realize extr rr prog l -> Run.sim_run n s l s' ->
  ((exists g zs, Refine.wf n g /\ Sg g /\ FrameProg.fprun extr exta g rr ra zs prog l = la) <->
   (FrameProg.realize exta ra prog la /\ exists S', Run.sem_run Sg la S')).
Proof. exact FrameProg.fp_exact. Qed.
(* M, R, record-controlled and externally controlled X on qubit q < n are such programs, and the sampler's rule for R leaves no
   X component of the frame on q (Stim's "clear x, randomise z"). *)
Theorem C02_stim_instructions_are_programs : forall n k q, q < n ->
  Forall (FrameProg.okp n) (FrameProg.prog_M n q) /\ Forall (FrameProg.okp n) (FrameProg.prog_R n q) /\
  Forall (FrameProg.okp n) (FrameProg.prog_CX_rec n k q) /\ Forall (FrameProg.okp n) (FrameProg.prog_CX_ext n k q).
Proof. exact FrameProg.stim_programs_ok. Qed.
Theorem C02_reset_rule_clears_the_x_component : forall n q F (z : bool), q < n -> Refine.wf n F ->
  let F1 := if z then Pauli.pmul F (FrameProg.Zq n q) else F in
  let F2 := if Sem.acom F (FrameProg.Zq n q) then Pauli.pmul F1 (FrameProg.Xq n q) else F1 in
  Sem.acom F2 (FrameProg.Zq n q) = false.
Proof. exact FrameProg.reset_clears_x. Qed.
Print Assumptions C02_frame_sampler_exact_on_adaptive_programs. Print Assumptions C02_stim_instructions_are_programs.
Print Assumptions C02_reset_rule_clears_the_x_component.

(* Unbiasedness.  The flips the sampler reports are a GF(2)-linear function of (frame, earlier flips, randomisation bits), also
   through feedback and resets; from the all-zero state every reachable flip pattern therefore has the same number of preimages
   among the 2^(n+m) choices of (initial Z frame, randomisation bits), so uniform bits give a record that is uniform on
   reference xor reachable flips - the set of legal records (C02_frame_sampler_exact_on_adaptive_programs). *)
Theorem C02_flips_are_linear_in_the_randomisation :
  forall (n : nat) (prog : list FrameProg.pop) (F1 F2 : Pauli.pauli) (fl1 fl2 zs1 zs2 : list bool),
  Forall (FrameProg.okp n) prog -> Refine.wf n F1 -> Refine.wf n F2 -> List.length fl1 = List.length fl2 -> List.length zs1 = List.length zs2 ->
  FrameUniform.flipsp (Pauli.pmul F1 F2) (GF2.vxor fl1 fl2) (GF2.vxor zs1 zs2) prog =
  GF2.vxor (FrameUniform.flipsp F1 fl1 zs1 prog) (FrameUniform.flipsp F2 fl2 zs2 prog).
Proof. exact FrameUniform.flipsp_linear. Qed.
Theorem C02_every_reachable_record_is_equally_likely :
  forall (n : nat) (prog : list FrameProg.pop), Forall (FrameProg.okp n) prog ->
  forall x0 x1 : list bool, List.length x0 = n + List.length prog -> List.length x1 = n + List.length prog ->
  Uniform.fiber (n + List.length prog) (FrameUniform.shotflips n prog) FrameUniform.veqb (FrameUniform.shotflips n prog x0) =
  Uniform.fiber (n + List.length prog) (FrameUniform.shotflips n prog) FrameUniform.veqb (FrameUniform.shotflips n prog x1).
Proof. exact FrameUniform.shots_uniform. Qed.
Theorem C02_sampler_record_is_reference_xor_flips :
  forall (ext : nat -> bool) (prog : list FrameProg.pop) (l : list (Run.op * option bool)) (F : Pauli.pauli) (rr ra fl zs : list bool),
  FrameProg.realize ext rr prog l -> (forall k, xorb (nth k rr false) (nth k ra false) = nth k fl false) ->
  FrameUniform.results (FrameProg.fprun ext ext F rr ra zs prog l) = GF2.vxor (FrameUniform.results l) (FrameUniform.flipsp F fl zs prog).
Proof. exact FrameUniform.fprun_results. Qed.
Print Assumptions C02_flips_are_linear_in_the_randomisation. Print Assumptions C02_every_reachable_record_is_equally_likely.
Print Assumptions C02_sampler_record_is_reference_xor_flips.

(* non-vacuity of the program-level theorems: every well-formed adaptive program has a reference run, under any external bits *)
Theorem C02_every_program_has_a_reference_run :
  forall (n : nat) (c : bool) (ext : nat -> bool) (prog : list FrameProg.pop) (rec : list bool)
         (s : (Pauli.pauli -> Pauli.pauli) * (Pauli.pauli -> Pauli.pauli)),
  Forall (FrameProg.okp n) prog -> Run.good n (fst s) (snd s) ->
  exists l s', FrameProg.realize ext rec prog l /\ Run.sim_run n s l s' /\ Run.good n (fst s') (snd s').
Proof. exact ProgRuns.prog_run_exists. Qed.
Print Assumptions C02_every_program_has_a_reference_run.
