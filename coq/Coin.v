From Coq Require Import List Bool Arith NArith Lia QArith.
Local Open Scope nat_scope.
Import ListNotations.

(* one bit lane of biased_randomize_bits' coin stage, as written:
     alive = rng(); result = 0;
     for (k_bit = COIN_FLIPS - 1; k_bit--;) { shoot = rng(); result ^= shoot & alive & -((p_top_bits >> k_bit) & 1); alive &= ~shoot; }
   coins = [alive0; shoot_6; shoot_5; ...; shoot_0] *)
Definition bit (p k : nat) : bool := Nat.odd (p / 2 ^ k).
Fixpoint rounds (p : nat) (k : nat) (coins : list bool) (alive result : bool) : bool :=
  match k, coins with
  | S k', shoot :: r => rounds p k' r (andb alive (negb shoot)) (xorb result (andb (andb shoot alive) (bit p k')))
  | _, _ => result
  end.
Definition coin_stage (p : nat) (coins : list bool) : bool :=
  match coins with alive :: r => rounds p 7 r alive false | [] => false end.

Fixpoint all_coins (n : nat) : list (list bool) :=
  match n with 0 => [[]] | S m => map (cons false) (all_coins m) ++ map (cons true) (all_coins m) end.
Definition count_true (p : nat) : nat := length (filter (coin_stage p) (all_coins 8)).

(* exactly p_top_bits of the 256 equally likely coin strings give a 1, for every p_top_bits < 128 (i.e. p < 1/2) *)
Theorem coin_stage_prob : forallb (fun p => Nat.eqb (count_true p) p) (seq 0 128) = true.
Proof. vm_compute. reflexivity. Qed.
Corollary coin_stage_prob' p : p < 128 -> count_true p = p.
Proof. intros H. pose proof coin_stage_prob as A. rewrite forallb_forall in A. apply Nat.eqb_eq, A, in_seq. lia. Qed.

(* truncation correction: OR-ing an independent Bernoulli(q), q = p_leftover / (1 - p_truncated), restores p exactly *)
Local Open Scope Q_scope.
Theorem correction_restores_p (pt pl : Q) : ~ pt == 1 ->
  pt + (1 - pt) * (pl / (1 - pt)) == pt + pl.
Proof. intros H. field. intro E. apply H. rewrite <- (Qplus_0_r pt). setoid_replace 0 with (1 - pt) by (symmetry; exact E). ring. Qed.
Print Assumptions coin_stage_prob'. Print Assumptions correction_restores_p.
