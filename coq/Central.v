From Coq Require Import List Bool Arith Lia Ring Btauto.
Import ListNotations.
Require Import Pauli Collapse Sem.

(* No dimension counting: with the inverse map at hand (the ghost inverse tableau), a Pauli that commutes with the
   images of all X_i and Z_i under a bijective, commutation-preserving, phase-linear map T is a scalar.
   Consequence (membership_complete): anything commuting with every stabilizer generator T(Z_i) and having
   trivial commutation with ... is expanded explicitly over the symplectic basis; here the core fact. *)
Fixpoint single (n i : nat) (p : bool * bool) : bits :=
  match n with 0 => [] | S n' => match i with 0 => p :: zeros n' | S i' => (false, false) :: single n' i' p end end.

Lemma single_length n i p : length (single n i p) = n.
Proof. revert i; induction n as [|n IH]; intros [|i]; cbn; try reflexivity; f_equal; [apply zeros_length| apply IH]. Qed.

Fixpoint getb (i : nat) (l : bits) : bool * bool :=
  match l, i with [], _ => (false, false) | p :: _, 0 => p | _ :: r, S k => getb k r end.

Lemma symp_single_x l n i : length l = n -> i < n -> symp l (single n i (true, false)) = snd (getb i l).
Proof.
  revert n i; induction l as [|[x z] l IH]; intros [|n] [|i] Hl Hi; cbn in Hl; try lia; unfold symp in *; cbn [single zx_par getb fst snd].
  - rewrite zx_par_zeros_r, zx_par_zeros_l. destruct x, z; reflexivity.
  - specialize (IH n i ltac:(lia) ltac:(lia)). rewrite <- IH. cbn. btauto.
Qed.
Lemma symp_single_z l n i : length l = n -> i < n -> symp l (single n i (false, true)) = fst (getb i l).
Proof.
  revert n i; induction l as [|[x z] l IH]; intros [|n] [|i] Hl Hi; cbn in Hl; try lia; unfold symp in *; cbn [single zx_par getb fst snd].
  - rewrite zx_par_zeros_r, zx_par_zeros_l. destruct x, z; reflexivity.
  - specialize (IH n i ltac:(lia) ltac:(lia)). rewrite <- IH. cbn. btauto.
Qed.
Lemma all_false_zeros l n : length l = n -> (forall i, i < n -> getb i l = (false, false)) -> l = zeros n.
Proof.
  revert n; induction l as [|p l IH]; intros [|n] Hl H; cbn in Hl; try lia; [reflexivity|].
  cbn [zeros repeat]. f_equal; [apply (H 0); lia|]. apply IH; [lia|]. intros i Hi. apply (H (S i)). lia.
Qed.

Section Central.
  Variable n : nat.
  Variables (T Tinv : pauli -> pauli).
  Definition wf (P : pauli) := length (snd P) = n.
  Hypothesis Tinv_len : forall P, wf P -> wf (Tinv P).
  Hypothesis T_acom : forall P Q, wf P -> wf Q -> acom (T P) (T Q) = acom P Q.
  Hypothesis T_Tinv : forall P, wf P -> T (Tinv P) = P.
  Hypothesis T_scalar : forall k, T (k, zeros n) = (k, zeros n).

  Definition Xi (i : nat) : pauli := (z4_0, single n i (true, false)).
  Definition Zi (i : nat) : pauli := (z4_0, single n i (false, true)).

  Theorem central_is_scalar Q : wf Q ->
    (forall i, i < n -> acom Q (T (Xi i)) = false /\ acom Q (T (Zi i)) = false) ->
    exists k, Q = (k, zeros n).
  Proof.
    intros HQ Hc. set (R := Tinv Q). assert (HR : wf R) by (apply Tinv_len, HQ).
    assert (HX : forall i, wf (Xi i)) by (intros i; apply single_length).
    assert (HZ : forall i, wf (Zi i)) by (intros i; apply single_length).
    assert (Hb : snd R = zeros n).
    { apply all_false_zeros; [exact HR|]. intros i Hi. destruct (Hc i Hi) as [H1 H2].
      rewrite <- (T_Tinv Q HQ) in H1, H2. fold R in H1, H2. rewrite T_acom in H1, H2 by auto.
      unfold acom, Xi, Zi in H1, H2; cbn [snd] in H1, H2.
      rewrite (symp_single_x _ n i HR Hi) in H1. rewrite (symp_single_z _ n i HR Hi) in H2.
      destruct (getb i (snd R)) as [x z]; cbn in *; congruence. }
    exists (fst R). rewrite <- (T_Tinv Q HQ). fold R. rewrite (surjective_pairing R), Hb. apply T_scalar.
  Qed.
End Central.
Print Assumptions central_is_scalar.
