(* C07: a whole target list, written by stim::write_targets and read back by read_arbitrary_targets_into
   (read_until_next_line_arg + read_single_gate_target), structured as the C++ is. Round trip for every list of well-formed
   targets, combiners in any position, any length. *)
From Coq Require Import List Bool Arith Lia NArith.
Import ListNotations.
Require Import Dec Target.
Local Open Scope N_scope.

Definition is_comb (t : target) : bool := match t with TCombiner => true | _ => false end.

(* write_targets: no space before a combiner, none after it *)
Fixpoint write_targets_go (skip : bool) (ts : list target) : list N :=
  match ts with
  | [] => []
  | t :: r => if is_comb t then write_succinct t ++ write_targets_go true r
              else (if skip then [] else [c_sp]) ++ write_succinct t ++ write_targets_go false r
  end.
Definition write_targets (ts : list target) : list N := write_targets_go false ts.

(* read_until_next_line_arg; the empty list is EOF *)
Inductive nres := NErr | NEnd (rest : list N) | NArg (rest : list N).
Definition is_ws (c : N) : bool := (c =? 32) || (c =? 9) || (c =? 13).
Definition is_sep (c : N) : bool := is_ws c || (c =? 35) || (c =? 10) || (c =? 123).
Fixpoint skip_ws (s : list N) : list N := match s with c :: r => if is_ws c then skip_ws r else s | [] => [] end.
Fixpoint skip_comment (s : list N) : list N := match s with c :: r => if c =? 10 then s else skip_comment r | [] => [] end.
Definition next_arg (need_space : bool) (s : list N) : nres :=
  match s with
  | [] => NEnd []
  | c :: _ =>
    if c =? c_star then NArg s
    else if need_space && negb (is_sep c) then NErr
    else let s1 := skip_ws s in
         let s2 := match s1 with c1 :: _ => if c1 =? 35 then skip_comment s1 else s1 | [] => [] end in
         match s2 with
         | [] => NEnd []
         | c2 :: _ => if (c2 =? 10) || (c2 =? 123) then NEnd s2 else NArg s2
         end
  end.

Inductive rres := RErr | ROk (ts : list target) (rest : list N).
Fixpoint read_targets (fuel : nat) (need_space : bool) (s : list N) : rres :=
  match fuel with
  | O => RErr
  | S fuel' =>
    match next_arg need_space s with
    | NErr => RErr
    | NEnd r => ROk [] r
    | NArg s' =>
      match read_target s' with
      | None => RErr
      | Some (t, r) => match read_targets fuel' (negb (is_comb t)) r with
                       | ROk ts r' => ROk (t :: ts) r'
                       | RErr => RErr
                       end
      end
    end
  end.

(* the first byte of a target's text starts an argument: it is no separator; and it is '*' only for the combiner *)
Definition arg_start (c : N) : bool := negb (is_sep c).
Lemma print_dec_head' n : exists c ds, print_dec n = c :: ds /\ is_digit c = true.
Proof. apply print_dec_head. Qed.
Lemma digit_arg_start c : is_digit c = true -> arg_start c = true /\ (c =? c_star) = false.
Proof. unfold is_digit, arg_start, is_sep, is_ws. intros H. apply andb_prop in H as [H1 H2]. apply N.leb_le in H1, H2.
  split; repeat match goal with |- context [?a =? ?b] => destruct (N.eqb_spec a b); try lia end; reflexivity. Qed.
Lemma write_succinct_head t : exists c r, write_succinct t = c :: r /\ arg_start c = true /\ ((c =? c_star) = is_comb t).
Proof.
  destruct t as [inv q | inv p q | k | k | ]; cbn [write_succinct is_comb].
  - destruct inv; cbn [app].
    + eexists _, _. split; [reflexivity|]. split; reflexivity.
    + destruct (print_dec_head' q) as (c & ds & E & Hc). rewrite E. exists c, ds. split; [reflexivity|]. apply digit_arg_start, Hc.
  - destruct inv; cbn [app].
    + eexists _, _. split; [reflexivity|]. split; reflexivity.
    + exists (pauli_char p), (print_dec q). split; [reflexivity|]. destruct p; split; reflexivity.
  - unfold s_rec. cbn [app]. eexists _, _. split; [reflexivity|]. split; reflexivity.
  - unfold s_sweep. cbn [app]. eexists _, _. split; [reflexivity|]. split; reflexivity.
  - eexists _, _. split; [reflexivity|]. split; reflexivity.
Qed.

Lemma sep_parts c : is_sep c = false -> is_ws c = false /\ (c =? 35) = false /\ (c =? 10) = false /\ (c =? 123) = false.
Proof. unfold is_sep. intros H. apply orb_false_iff in H as [H H123]. apply orb_false_iff in H as [H H10].
  apply orb_false_iff in H as [Hw H35]. repeat split; assumption. Qed.

Lemma next_arg_direct c w : arg_start c = true -> (c =? c_star) = false -> next_arg false (c :: w) = NArg (c :: w).
Proof.
  intros Hs Hc. unfold arg_start in Hs. apply negb_true_iff in Hs. destruct (sep_parts c Hs) as (Hw & H35 & H10 & H123).
  unfold next_arg. rewrite Hc. cbn [andb skip_ws]. rewrite Hw, H35, H10, H123. reflexivity.
Qed.
Lemma next_arg_after_space c w : arg_start c = true -> next_arg true (c_sp :: c :: w) = NArg (c :: w).
Proof.
  intros Hs. unfold arg_start in Hs. apply negb_true_iff in Hs. destruct (sep_parts c Hs) as (Hw & H35 & H10 & H123).
  unfold next_arg. change (c_sp =? c_star) with false. change (is_sep c_sp) with true. cbn [andb negb skip_ws].
  change (is_ws c_sp) with true. cbn iota. rewrite Hw, H35, H10, H123. reflexivity.
Qed.
Lemma next_arg_star need w : next_arg need (c_star :: w) = NArg (c_star :: w).
Proof. reflexivity. Qed.
Lemma next_arg_eol need rest : next_arg need (10 :: rest) = NEnd (10 :: rest).
Proof. destruct need; reflexivity. Qed.

(* after a non-combiner target the written text continues with a space, a '*' or the end of the line: never a digit *)
Lemma after_noncomb r rest : no_digit_head rest -> no_digit_head (write_targets_go false r ++ rest).
Proof.
  intros Hr. destruct r as [|t r]; [exact Hr|]. cbn [write_targets_go].
  destruct (is_comb t) eqn:Et.
  - destruct t; try discriminate Et. reflexivity.
  - reflexivity.
Qed.

Theorem read_write_targets ts : Forall twf ts -> forall skip fuel rest,
  (length ts < fuel)%nat ->
  read_targets fuel (negb skip) (write_targets_go skip ts ++ 10 :: rest) = ROk ts (10 :: rest).
Proof.
  induction 1 as [|t r Ht Hr IH]; intros skip fuel rest Hf.
  - destruct fuel as [|fuel]; [cbn in Hf; lia|]. cbn [write_targets_go app read_targets]. rewrite next_arg_eol. reflexivity.
  - destruct fuel as [|fuel]; [cbn in Hf; lia|]. cbn [length] in Hf. cbn [write_targets_go read_targets].
    destruct (is_comb t) eqn:Et.
    + destruct t; try discriminate Et. cbn [write_succinct app]. rewrite next_arg_star.
      change (read_target (c_star :: write_targets_go true r ++ 10 :: rest)) with (Some (TCombiner, write_targets_go true r ++ 10 :: rest)).
      cbn [is_comb]. rewrite (IH true fuel rest) by lia. reflexivity.
    + destruct (write_succinct_head t) as (c & w & E & Hs & Hc). rewrite Et in Hc.
      assert (RT : read_target (write_succinct t ++ write_targets_go false r ++ 10 :: rest) = Some (t, write_targets_go false r ++ 10 :: rest)).
      { apply read_write_target; [exact Ht|]. apply after_noncomb. reflexivity. }
      assert (NA : next_arg (negb skip) ((if skip then [] else [c_sp]) ++ write_succinct t ++ write_targets_go false r ++ 10 :: rest)
                   = NArg (write_succinct t ++ write_targets_go false r ++ 10 :: rest)).
      { destruct skip; cbn [negb app]; rewrite E; cbn [app].
        - apply next_arg_direct; assumption.
        - apply next_arg_after_space; assumption. }
      rewrite <- !app_assoc. rewrite NA, RT. rewrite Et. cbn [negb].
      pose proof (IH false fuel rest ltac:(lia)) as IHf. cbn [negb] in IHf. rewrite IHf. reflexivity.
Qed.

(* the interface statement: what write_targets prints, terminated by a newline, reads back as the same list *)
Theorem targets_roundtrip ts rest : Forall twf ts ->
  read_targets (S (length ts)) true (write_targets ts ++ 10 :: rest) = ROk ts (10 :: rest).
Proof. intros H. apply (read_write_targets ts H false). lia. Qed.

Example targets_example :
  let ts := [TPauli false PX 0; TCombiner; TPauli true PZ 16777215; TRec 2; TQubit true 7; TCombiner; TQubit false 5; TSweep 3] in
  read_targets 20 true (write_targets ts ++ [10]) = ROk ts [10].
Proof. vm_compute. reflexivity. Qed.
(* and the error branch is real: two targets glued together are rejected *)
Example targets_need_space : read_targets 20 true [c_sp; 49; 88; 50; 10] = RErr.
Proof. vm_compute. reflexivity. Qed.
