(* Extraction of the executable specification / model roots. ExtrOcamlBasic only: bool, option, unit, list,
   prod, sumbool, comparison map to OCaml's; nat, positive, N, Z, ascii, string stay the Coq inductives. *)
From Coq Require Import List Bool Arith NArith ZArith String Ascii.
Require Extraction.
Require Import ExtrOcamlBasic.
Require Import Stab Act Spec GF2 Gen_GateTable R8 B8 Dec Formats Counts DemFlat Tr CoinWord QCoords Target TargetList DemTargets Mpp.
Extraction Language OCaml.
Set Extraction Optimize.
Extraction "sv.ml"
  Stab.check_record Stab.forms_of Stab.gmul Stab.ph Stab.anti Stab.bxor
  Spec.srun Spec.consistent Spec.check_record_ext Spec.deterministic_form Spec.coin_part
  R8.impl_enc R8.spec_enc R8.dec R8.bits_of_hits Formats.impl_enc_bytes B8.b8_write B8.b8_read
  Formats.enc01 Formats.dec01 Formats.enc_hits Formats.dec_hits R8.true_positions
  Counts.sat_block Counts.exact_block Dec.print_dec Dec.read_dec
  DemFlat.flat DemFlat.exec DemFlat.unroll
  Tr.transpose64 CoinWord.brb_exact QCoords.ffl QCoords.execl QCoords.vzero QCoords.cempty
  TargetList.read_targets TargetList.write_targets DemTargets.read_dtargets DemTargets.write_dtargets
  Mpp.decompose_mpp Mpp.decompose_spp Mpp.pair_segments Mpp.rev_segments
  Act.gate_named Act.gate_aliased Act.gate_id Act.inverse_of Act.flows_of Act.local1 Act.local2 Act.run1 Act.run2
  Act.unitary1 Act.unitary2 Act.e_name Act.e_id Act.e_flags Act.e_flows Act.e_nargs
  Gen_GateTable.gate_table Gen_GateTable.hash_table.
