(* Every fixed unitary of the GENERATED gate table, placed on any qubit(s) of an n-qubit register, is a Clifford step in the sense
   of Run.v: the lift (GoodGate.lift) of its table action is a good map whose inverse is the lift of the table's inverse gate.
   Hence Run.run_refines / FrameRun.framed_run_is_legal apply to every circuit built from table gates and Hermitian measurements. *)
From Coq Require Import List Bool String ZArith Arith Lia.
Import ListNotations.
Require Import Pauli Collapse Conj Conj2 Refine Run GoodGate.
Require Import Stab Act Gen_GateTable TableAut.

(* ---- positional facts ---- *)
Lemma set_set q v w l : Conj.set q v (Conj.set q w l) = Conj.set q v l.
Proof. revert q; induction l as [|p l IH]; intros [|q]; cbn; try reflexivity. now rewrite IH. Qed.
Lemma set_get q l : Conj.set q (Conj.get q l) l = l.
Proof. revert q; induction l as [|p l IH]; intros [|q]; cbn; try reflexivity. now rewrite IH. Qed.
Lemma get_zeros q m : Conj.get q (zeros m) = (false, false).
Proof. revert q; induction m as [|m IH]; intros [|q]; cbn; try reflexivity. apply IH. Qed.
Lemma set_zeros q m : Conj.set q (false, false) (zeros m) = zeros m.
Proof. revert q; induction m as [|m IH]; intros [|q]; cbn; try reflexivity. unfold zeros in *. cbn. now rewrite IH. Qed.
Lemma set_comm a b v w l : a <> b -> Conj.set a v (Conj.set b w l) = Conj.set b w (Conj.set a v l).
Proof. revert a b; induction l as [|p l IH]; intros [|a] [|b] H; cbn; try reflexivity; try lia. f_equal. apply IH. lia. Qed.

(* ---- the local inverse relation, checked over the whole table in both directions ---- *)
Definition both_inv1 (e : entry) : bool :=
  let f := local1 (flows_of e) in let g := local1 (flows_of (inverse_of e)) in
  agree1 (fun x z s => let '(x', z', s') := f x z s in g x' z' s') (fun x z s => (x, z, s)) &&
  agree1 (fun x z s => let '(x', z', s') := g x z s in f x' z' s') (fun x z s => (x, z, s)).
Definition both_inv2 (e : entry) : bool :=
  let f := local2 (flows_of e) in let g := local2 (flows_of (inverse_of e)) in
  agree2 (fun x1 z1 x2 z2 s => let '(a, b, c, d, s') := f x1 z1 x2 z2 s in g a b c d s') (fun x1 z1 x2 z2 s => (x1, z1, x2, z2, s)) &&
  agree2 (fun x1 z1 x2 z2 s => let '(a, b, c, d, s') := g x1 z1 x2 z2 s in f a b c d s') (fun x1 z1 x2 z2 s => (x1, z1, x2, z2, s)).
Definition table_both_ok : bool :=
  forallb (fun e => implb (unitary1 e) (both_inv1 e && act1_hom_b (act1_of (flows_of (inverse_of e)))) &&
                    implb (unitary2 e) (both_inv2 e && act2_hom_b (act2_of (flows_of (inverse_of e)))))
          gate_table.
Theorem table_inverses_both_ways : table_both_ok = true.
Proof. vm_compute. reflexivity. Qed.

(* the sign component of the table action is additive: local1 fl x z s = (x', z', s xor sg) *)
Lemma local1_sign fl x z s : local1 fl x z s = (let '(x', z', sg) := local1 fl x z false in (x', z', xorb s sg)).
Proof. unfold local1. destruct (act1 fl (x, z)) as [sg [|p [|? ?]]]; try (destruct s; reflexivity). destruct s, sg; reflexivity. Qed.
Lemma local2_sign fl x1 z1 x2 z2 s :
  local2 fl x1 z1 x2 z2 s = (let '(a, b, c, d, sg) := local2 fl x1 z1 x2 z2 false in (a, b, c, d, xorb s sg)).
Proof. unfold local2. destruct (act2 fl (x1, z1) (x2, z2)) as [sg [|p [|q [|? ?]]]]; try (destruct s; reflexivity). destruct s, sg; reflexivity. Qed.

Section OneQubit.
  Variables (n q : nat) (e : entry).
  Hypothesis Hq : q < n.
  Hypothesis Hin : In e gate_table.
  Hypothesis Hu : unitary1 e = true.
  Let f := act1_of (flows_of e).
  Let g := act1_of (flows_of (inverse_of e)).

  Lemma entry_facts1 : act1_hom g /\ both_inv1 e = true.
  Proof.
    pose proof table_inverses_both_ways as H. unfold table_both_ok in H. rewrite forallb_forall in H. specialize (H e Hin).
    apply andb_true_iff in H. destruct H as [H _]. rewrite Hu in H. cbn [implb] in H.
    apply andb_true_iff in H. destruct H as [H1 H2]. split; [apply act1_hom_b_sound, H2| exact H1].
  Qed.

  (* g undoes f and f undoes g, pointwise with signs *)
  Lemma act1_of_eq fl p : act1_of fl p = (let '(x, z, sg) := local1 fl (fst p) (snd p) false in (sg, (x, z))).
  Proof. reflexivity. Qed.
  Lemma undo_gen (fl1 fl2 : list limg) :
    agree1 (fun x z s => let '(x', z', s') := local1 fl1 x z s in local1 fl2 x' z' s') (fun x z s => (x, z, s)) = true ->
    forall p, snd (act1_of fl2 (snd (act1_of fl1 p))) = p /\ xorb (fst (act1_of fl1 p)) (fst (act1_of fl2 (snd (act1_of fl1 p)))) = false.
  Proof.
    intros Hb [x z]. unfold agree1 in Hb. rewrite forallb_forall in Hb.
    assert (Hi : In (x, z, false) all3) by (destruct x, z; cbn; tauto). specialize (Hb _ Hi). cbn beta iota in Hb.
    apply t1_eqb_eq in Hb. rewrite !act1_of_eq. cbn [fst snd].
    destruct (local1 fl1 x z false) as [[x' z'] s'] eqn:E1. cbn [fst snd]. rewrite (local1_sign fl2 x' z' s') in Hb.
    destruct (local1 fl2 x' z' false) as [[x'' z''] s''] eqn:E2. cbn [fst snd]. injection Hb as -> -> Hs. split; [reflexivity| exact Hs].
  Qed.
  Lemma local_inv1 p : snd (g (snd (f p))) = p /\ xorb (fst (f p)) (fst (g (snd (f p)))) = false.
  Proof. destruct entry_facts1 as [_ Hb]. unfold both_inv1 in Hb. apply andb_true_iff in Hb. destruct Hb as [Hb _]. exact (undo_gen _ _ Hb p). Qed.
  Lemma local_inv1' p : snd (f (snd (g p))) = p /\ xorb (fst (g p)) (fst (f (snd (g p)))) = false.
  Proof. destruct entry_facts1 as [_ Hb]. unfold both_inv1 in Hb. apply andb_true_iff in Hb. destruct Hb as [_ Hb]. exact (undo_gen _ _ Hb p). Qed.

  Lemma conj1_len h (k : Conj.act1) : List.length (snd (Conj.conj1 k q h)) = List.length (snd h).
  Proof. unfold Conj.conj1. destruct (k (Conj.get q (snd h))). cbn [snd]. apply Conj.set_length. Qed.
  Lemma conj1_sign (k : Conj.act1) s (l : bits) : Conj.conj1 k q (s, l) = (xorb s (fst (Conj.conj1 k q (false, l))), snd (Conj.conj1 k q (false, l))).
  Proof. unfold Conj.conj1; cbn [fst snd]. destruct (k (Conj.get q l)) as [s' p']. cbn [fst snd]. now destruct s, s'. Qed.

  Lemma conj1_undo (k1 k2 : Conj.act1) (Hk : forall p, snd (k2 (snd (k1 p))) = p /\ xorb (fst (k1 p)) (fst (k2 (snd (k1 p)))) = false) h :
    List.length (snd h) = n -> Conj.conj1 k2 q (Conj.conj1 k1 q h) = h.
  Proof.
    intros Hl. destruct h as [s l]. cbn [snd] in Hl. unfold Conj.conj1 at 2. cbn [fst snd].
    specialize (Hk (Conj.get q l)). destruct (k1 (Conj.get q l)) as [s1 p'] eqn:E1. unfold Conj.conj1. cbn [fst snd] in *.
    rewrite get_set_same by lia. destruct (k2 p') as [s2 p''] eqn:E2. cbn [fst snd] in Hk. destruct Hk as [-> Hs].
    rewrite set_set, set_get. f_equal. destruct s, s1, s2; cbn in *; congruence.
  Qed.

  Lemma conj1_id (k : Conj.act1) : k (false, false) = (false, (false, false)) -> Conj.conj1 k q (false, zeros n) = (false, zeros n).
  Proof. intros Hk. unfold Conj.conj1. cbn [fst snd]. rewrite get_zeros, Hk. cbn [fst snd]. now rewrite set_zeros. Qed.

  Lemma hom_id (k : Conj.act1) : act1_hom k -> k (false, false) = (false, (false, false)).
  Proof.
    intros H. specialize (H (false, false) (false, false)). cbn [fst snd xorb] in H.
    destruct (k (false, false)) as [s p] eqn:E. destruct H as [Hp Hph]. destruct p as [[] []]; cbn in Hp; try discriminate.
    destruct s; cbn in Hph; [discriminate|reflexivity].
  Qed.

  Theorem table_gate_good1 : Run.good n (lift (Conj.conj1 f q)) (lift (Conj.conj1 g q)).
  Proof.
    destruct entry_facts1 as [Hg _].
    assert (Hf : act1_hom f) by (apply table_action1_hom; assumption).
    apply (lift_good n (Conj.conj1 f q) (Conj.conj1 g q)).
    - intros h. apply conj1_len.
    - intros h. apply conj1_len.
    - intros s l. apply conj1_sign.
    - intros s l. apply conj1_sign.
    - intros a b Ha Hb. apply Conj.conj1_hom; [exact Hf| congruence| rewrite Ha; exact Hq].
    - intros h Hl. apply (conj1_undo g f local_inv1' h Hl).
    - intros h Hl. apply (conj1_undo f g local_inv1 h Hl).
    - apply conj1_id, hom_id, Hf.
  Qed.
  (* and the other way round: the inverse gate's lift is good with the gate's lift as inverse (the form Run.OpU asks for) *)
  Theorem table_gate_good1_inv : Run.good n (lift (Conj.conj1 g q)) (lift (Conj.conj1 f q)).
  Proof.
    destruct entry_facts1 as [Hg _].
    assert (Hf : act1_hom f) by (apply table_action1_hom; assumption).
    apply (lift_good n (Conj.conj1 g q) (Conj.conj1 f q)).
    - intros h. apply conj1_len.
    - intros h. apply conj1_len.
    - intros s l. apply conj1_sign.
    - intros s l. apply conj1_sign.
    - intros a b Ha Hb. apply Conj.conj1_hom; [exact Hg| congruence| rewrite Ha; exact Hq].
    - intros h Hl. apply (conj1_undo f g local_inv1 h Hl).
    - intros h Hl. apply (conj1_undo g f local_inv1' h Hl).
    - apply conj1_id, hom_id, Hg.
  Qed.
End OneQubit.
Print Assumptions table_gate_good1. Print Assumptions table_gate_good1_inv.

Section TwoQubit.
  Variables (n a b : nat) (e : entry).
  Hypothesis Ha : a < n.
  Hypothesis Hb : b < n.
  Hypothesis Hab : a <> b.
  Hypothesis Hin : In e gate_table.
  Hypothesis Hu : unitary2 e = true.
  Let f := act2_of (flows_of e).
  Let g := act2_of (flows_of (inverse_of e)).

  Lemma entry_facts2 : act2_hom g /\ both_inv2 e = true.
  Proof.
    pose proof table_inverses_both_ways as H. unfold table_both_ok in H. rewrite forallb_forall in H. specialize (H e Hin).
    apply andb_true_iff in H. destruct H as [_ H]. rewrite Hu in H. cbn [implb] in H.
    apply andb_true_iff in H. destruct H as [H1 H2]. split; [apply act2_hom_b_sound, H2| exact H1].
  Qed.

  Lemma act2_of_eq fl pq : act2_of fl pq =
    (let '(x1, z1, x2, z2, s) := local2 fl (fst (fst pq)) (snd (fst pq)) (fst (snd pq)) (snd (snd pq)) false in (s, ((x1, z1), (x2, z2)))).
  Proof. reflexivity. Qed.
  Lemma undo_gen2 (fl1 fl2 : list limg) :
    agree2 (fun x1 z1 x2 z2 s => let '(p, q, r, t, s') := local2 fl1 x1 z1 x2 z2 s in local2 fl2 p q r t s') (fun x1 z1 x2 z2 s => (x1, z1, x2, z2, s)) = true ->
    forall pq, snd (act2_of fl2 (snd (act2_of fl1 pq))) = pq /\ xorb (fst (act2_of fl1 pq)) (fst (act2_of fl2 (snd (act2_of fl1 pq)))) = false.
  Proof.
    intros Hbb [[x1 z1] [x2 z2]]. unfold agree2 in Hbb. rewrite forallb_forall in Hbb.
    assert (Hi : In (x1, z1, x2, z2, false) all5) by (destruct x1, z1, x2, z2; cbn; tauto). specialize (Hbb _ Hi). cbn beta iota in Hbb.
    apply t2_eqb_eq in Hbb. rewrite !act2_of_eq. cbn [fst snd].
    destruct (local2 fl1 x1 z1 x2 z2 false) as [[[[p q] r] t] s'] eqn:E1. cbn [fst snd]. rewrite (local2_sign fl2 p q r t s') in Hbb.
    destruct (local2 fl2 p q r t false) as [[[[p' q'] r'] t'] s''] eqn:E2. cbn [fst snd]. injection Hbb as -> -> -> -> Hs. split; [reflexivity| exact Hs].
  Qed.
  Lemma local_inv2 pq : snd (g (snd (f pq))) = pq /\ xorb (fst (f pq)) (fst (g (snd (f pq)))) = false.
  Proof. destruct entry_facts2 as [_ Hbb]. unfold both_inv2 in Hbb. apply andb_true_iff in Hbb. destruct Hbb as [Hbb _]. exact (undo_gen2 _ _ Hbb pq). Qed.
  Lemma local_inv2' pq : snd (f (snd (g pq))) = pq /\ xorb (fst (g pq)) (fst (f (snd (g pq)))) = false.
  Proof. destruct entry_facts2 as [_ Hbb]. unfold both_inv2 in Hbb. apply andb_true_iff in Hbb. destruct Hbb as [_ Hbb]. exact (undo_gen2 _ _ Hbb pq). Qed.

  Lemma conj2_len h (k : Conj2.act2) : List.length (snd (Conj2.conj2 k a b h)) = List.length (snd h).
  Proof. unfold Conj2.conj2. cbn [snd]. now rewrite !Conj.set_length. Qed.
  Lemma conj2_sign (k : Conj2.act2) s (l : bits) :
    Conj2.conj2 k a b (s, l) = (xorb s (fst (Conj2.conj2 k a b (false, l))), snd (Conj2.conj2 k a b (false, l))).
  Proof. unfold Conj2.conj2; cbn [fst snd]. now destruct s, (fst (k (Conj.get a l, Conj.get b l))). Qed.

  Lemma conj2_undo (k1 k2 : Conj2.act2)
        (Hk : forall pq, snd (k2 (snd (k1 pq))) = pq /\ xorb (fst (k1 pq)) (fst (k2 (snd (k1 pq)))) = false) h :
    List.length (snd h) = n -> Conj2.conj2 k2 a b (Conj2.conj2 k1 a b h) = h.
  Proof.
    intros Hl. destruct h as [s l]. cbn [snd] in Hl. unfold Conj2.conj2 at 2. cbn [fst snd].
    specialize (Hk (Conj.get a l, Conj.get b l)). destruct (k1 (Conj.get a l, Conj.get b l)) as [s1 [p1 p2]] eqn:E1. cbn [fst snd] in *.
    unfold Conj2.conj2. cbn [fst snd].
    assert (La : a < List.length l) by lia. assert (Lb : b < List.length l) by lia.
    rewrite (Conj2.get_set_other b a) by (intros E; apply Hab; now symmetry).
    rewrite Conj2.get_set_same by exact La.
    rewrite Conj2.get_set_same by (rewrite Conj.set_length; exact Lb).
    destruct (k2 (p1, p2)) as [s2 [r1 r2]] eqn:E2. cbn [fst snd] in *. destruct Hk as [Hp Hs]. injection Hp as -> ->.
    rewrite (set_comm a b (Conj.get a l) p2) by exact Hab. rewrite (set_set a), (set_get a), (set_set b), (set_get b).
    f_equal. destruct s, s1, s2; cbn in *; congruence.
  Qed.

  Lemma conj2_id (k : Conj2.act2) : k ((false, false), (false, false)) = (false, ((false, false), (false, false))) ->
    Conj2.conj2 k a b (false, zeros n) = (false, zeros n).
  Proof. intros Hk. unfold Conj2.conj2. cbn [fst snd]. rewrite !get_zeros, Hk. cbn [fst snd]. now rewrite !set_zeros. Qed.
  Lemma hom_id2 (k : Conj2.act2) : act2_hom k -> k ((false, false), (false, false)) = (false, ((false, false), (false, false))).
  Proof.
    intros H. specialize (H ((false, false), (false, false)) ((false, false), (false, false))).
    unfold bx in H. cbn [fst snd xorb] in H.
    destruct (k ((false, false), (false, false))) as [s [[x1 z1] [x2 z2]]]. cbn [fst snd] in H. destruct H as [Hp Hph].
    rewrite !xorb_nilpotent in Hp. injection Hp as -> -> -> ->. destruct s; cbn in Hph; [discriminate|reflexivity].
  Qed.

  Theorem table_gate_good2 : Run.good n (lift (Conj2.conj2 f a b)) (lift (Conj2.conj2 g a b)).
  Proof.
    destruct entry_facts2 as [Hg _].
    assert (Hf : act2_hom f) by (apply table_action2_hom; assumption).
    apply (lift_good n (Conj2.conj2 f a b) (Conj2.conj2 g a b)).
    - intros h. apply conj2_len.
    - intros h. apply conj2_len.
    - intros s l. apply conj2_sign.
    - intros s l. apply conj2_sign.
    - intros x y Hx Hy. apply Conj2.conj2_hom; [exact Hf| exact Hab| congruence| rewrite Hx; exact Ha| rewrite Hx; exact Hb].
    - intros h Hl. apply (conj2_undo g f local_inv2' h Hl).
    - intros h Hl. apply (conj2_undo f g local_inv2 h Hl).
    - apply conj2_id, hom_id2, Hf.
  Qed.
  Theorem table_gate_good2_inv : Run.good n (lift (Conj2.conj2 g a b)) (lift (Conj2.conj2 f a b)).
  Proof.
    destruct entry_facts2 as [Hg _].
    assert (Hf : act2_hom f) by (apply table_action2_hom; assumption).
    apply (lift_good n (Conj2.conj2 g a b) (Conj2.conj2 f a b)).
    - intros h. apply conj2_len.
    - intros h. apply conj2_len.
    - intros s l. apply conj2_sign.
    - intros s l. apply conj2_sign.
    - intros x y Hx Hy. apply Conj2.conj2_hom; [exact Hg| exact Hab| congruence| rewrite Hx; exact Ha| rewrite Hx; exact Hb].
    - intros h Hl. apply (conj2_undo f g local_inv2 h Hl).
    - intros h Hl. apply (conj2_undo g f local_inv2' h Hl).
    - apply conj2_id, hom_id2, Hg.
  Qed.
End TwoQubit.
Print Assumptions table_gate_good2. Print Assumptions table_gate_good2_inv.

(* the operations of Run.v / FrameRun.v built from the table *)
Definition table_op1 (q : nat) (e : entry) : Run.op :=
  Run.OpU (lift (Conj.conj1 (act1_of (flows_of e)) q)) (lift (Conj.conj1 (act1_of (flows_of (inverse_of e))) q)).
Definition table_op2 (a b : nat) (e : entry) : Run.op :=
  Run.OpU (lift (Conj2.conj2 (act2_of (flows_of e)) a b)) (lift (Conj2.conj2 (act2_of (flows_of (inverse_of e))) a b)).

Theorem table_op1_steps n q e T Ti : q < n -> In e gate_table -> unitary1 e = true ->
  exists s', Run.sim_step n (T, Ti) (table_op1 q e) None s'.
Proof. intros Hq Hin Hu. eexists. unfold table_op1. apply Run.SU. now apply table_gate_good1_inv. Qed.
Theorem table_op2_steps n a b e T Ti : a < n -> b < n -> a <> b -> In e gate_table -> unitary2 e = true ->
  exists s', Run.sim_step n (T, Ti) (table_op2 a b e) None s'.
Proof. intros Ha Hb Hab Hin Hu. eexists. unfold table_op2. apply Run.SU. now apply table_gate_good2_inv. Qed.
Print Assumptions table_op1_steps. Print Assumptions table_op2_steps.
