From Coq Require Import List Bool Arith Lia.
Import ListNotations.

Definition vec := list bool.
Fixpoint vxor (a b : vec) : vec := match a, b with x :: a', y :: b' => xorb x y :: vxor a' b' | _, _ => [] end.
Fixpoint dot (a k : vec) : bool := match a, k with x :: a', y :: k' => xorb (andb x y) (dot a' k') | _, _ => false end.
Lemma vxor_length a b : length a = length b -> length (vxor a b) = length a.
Proof. revert b; induction a as [|x a IH]; intros [|y b] H; cbn in *; try lia. f_equal; apply IH; lia. Qed.
Lemma dot_vxor a b k : length a = length b -> dot (vxor a b) k = xorb (dot a k) (dot b k).
Proof. revert b k; induction a as [|x a IH]; intros [|y b] [|z k] H; cbn in *; try lia; try reflexivity.
  rewrite IH by lia. destruct x, y, z, (dot a k), (dot b k); reflexivity. Qed.
Lemma nth_vxor i a b : length a = length b -> nth i (vxor a b) false = xorb (nth i a false) (nth i b false).
Proof. revert i b; induction a as [|x a IH]; intros [|i] [|y b] H; cbn in *; try lia; try reflexivity. apply IH; lia. Qed.

(* an equation: dot v kappa = r *)
Definition eqn := (vec * bool)%type.
Definition sat (k : vec) (e : eqn) : Prop := dot (fst e) k = snd e.

Fixpoint first_true (v : vec) : option nat :=
  match v with [] => None | true :: _ => Some 0 | false :: r => option_map S (first_true r) end.
Lemma first_true_spec v i : first_true v = Some i -> nth i v false = true /\ forall j, j < i -> nth j v false = false.
Proof. revert i; induction v as [|x v IH]; intros i H; cbn in H; [discriminate|]. destruct x.
  - inversion H; subst. split; [reflexivity| intros j Hj; lia].
  - destruct (first_true v) as [i'|] eqn:E; cbn in H; [|discriminate]. inversion H; subst.
    destruct (IH i' eq_refl) as [A B]. split; [exact A|]. intros [|j] Hj; [reflexivity| apply B; lia]. Qed.
Lemma first_true_none v k : first_true v = None -> dot v k = false.
Proof. revert k; induction v as [|x v IH]; intros [|y k] H; cbn [first_true dot] in *; try reflexivity.
  destruct x; [discriminate|]. destruct (first_true v) eqn:E; [discriminate|]. cbn. rewrite IH by reflexivity. reflexivity. Qed.

(* pivots: (leading index, vector, rhs), kept sorted by ascending leading index *)
Definition pivot := (nat * vec * bool)%type.
Fixpoint reduce (piv : list pivot) (v : vec) (r : bool) : vec * bool :=
  match piv with [] => (v, r)
  | (i, pv, pr) :: rest => if nth i v false then reduce rest (vxor v pv) (xorb r pr) else reduce rest v r end.
Fixpoint insert (p : pivot) (piv : list pivot) : list pivot :=
  match piv with [] => [p] | q :: rest => if fst (fst p) <? fst (fst q) then p :: piv else q :: insert p rest end.
Fixpoint solve (eqs : list eqn) (piv : list pivot) : option (list pivot) :=
  match eqs with [] => Some piv
  | (v, r) :: rest => let '(v', r') := reduce piv v r in
      match first_true v' with
      | None => if r' then None else solve rest piv
      | Some i => solve rest (insert (i, v', r') piv)
      end end.
Definition solvable (eqs : list eqn) : bool := match solve eqs [] with Some _ => true | None => false end.

Definition psat (k : vec) (p : pivot) : Prop := dot (snd (fst p)) k = snd p.
Definition wfp (m : nat) (p : pivot) : Prop := length (snd (fst p)) = m.

(* reduction preserves the meaning of the equation under any assignment satisfying the pivots *)
Lemma reduce_sound m piv : Forall (wfp m) piv -> forall v r k, length v = m -> Forall (psat k) piv ->
  let '(v', r') := reduce piv v r in length v' = m /\ (dot v k = r <-> dot v' k = r').
Proof.
  induction piv as [|[[i pv] pr] piv IH]; intros Hw v r k Hv Hs; cbn [reduce].
  - split; [exact Hv| tauto].
  - apply Forall_cons_iff in Hw; destruct Hw as [Hw1 Hw2]. apply Forall_cons_iff in Hs; destruct Hs as [Hs1 Hs2]. unfold wfp, psat in Hw1, Hs1; cbn [fst snd] in Hw1, Hs1.
    destruct (nth i v false).
    + specialize (IH Hw2 (vxor v pv) (xorb r pr) k). rewrite vxor_length in IH by lia. specialize (IH Hv Hs2).
      destruct (reduce piv (vxor v pv) (xorb r pr)) as [v' r']. destruct IH as [L E]. split; [exact L|].
      rewrite <- E, dot_vxor, Hs1 by lia. destruct (dot v k), r, pr; cbn; intuition congruence.
    + exact (IH Hw2 v r k Hv Hs2).
Qed.
Lemma reduce_length m piv : Forall (wfp m) piv -> forall v r, length v = m -> length (fst (reduce piv v r)) = m.
Proof.
  induction piv as [|[[j pv] pr] piv IH]; intros Hw v r Hv; cbn [reduce]; [exact Hv|].
  apply Forall_cons_iff in Hw; destruct Hw as [Hw1 Hw2]. unfold wfp in Hw1; cbn in Hw1.
  destruct (nth j v false); apply IH; auto. rewrite vxor_length; lia.
Qed.
Lemma insert_Forall {P : pivot -> Prop} p piv : P p -> Forall P piv -> Forall P (insert p piv).
Proof. intros Hp; induction piv as [|q piv IH]; intros H; cbn [insert]; [constructor; auto|].
  apply Forall_cons_iff in H; destruct H as [H1 H2].
  destruct (fst (fst p) <? fst (fst q)); repeat (constructor; auto). Qed.
Lemma Forall_insert_inv {P : pivot -> Prop} p piv : Forall P (insert p piv) -> P p /\ Forall P piv.
Proof. induction piv as [|q piv IH]; cbn [insert]; intros H.
  - apply Forall_cons_iff in H; destruct H; auto.
  - destruct (fst (fst p) <? fst (fst q)).
    + apply Forall_cons_iff in H; destruct H; auto.
    + apply Forall_cons_iff in H; destruct H as [H1 H2]. destruct (IH H2) as [A B]. split; [exact A| constructor; auto]. Qed.

(* COMPLETENESS: if some assignment satisfies every equation (and the pivots), solve succeeds *)
Theorem solve_complete m : forall eqs piv k, Forall (fun e => length (fst e) = m) eqs -> Forall (wfp m) piv ->
  Forall (sat k) eqs -> Forall (psat k) piv -> exists piv', solve eqs piv = Some piv' /\ Forall (psat k) piv'.
Proof.
  induction eqs as [|[v r] eqs IH]; intros piv k Hl Hw Hs Hp; cbn [solve]; [eauto|].
  apply Forall_cons_iff in Hl; destruct Hl as [Hl1 Hl2]. apply Forall_cons_iff in Hs; destruct Hs as [Hs1 Hs2]. unfold sat in Hs1; cbn [fst snd] in Hl1, Hs1.
  pose proof (reduce_sound m piv Hw v r k Hl1 Hp) as R. destruct (reduce piv v r) as [v' r']. destruct R as [L E].
  destruct (first_true v') as [i|] eqn:F.
  - apply IH; auto.
    + apply insert_Forall; [exact L| exact Hw].
    + apply insert_Forall; [unfold psat; cbn; apply E; exact Hs1| exact Hp].
  - pose proof (first_true_none v' k F) as Z. apply E in Hs1. rewrite Z in Hs1. subst r'. apply IH; auto.
Qed.
Corollary solvable_complete m eqs k : Forall (fun e => length (fst e) = m) eqs -> Forall (sat k) eqs -> solvable eqs = true.
Proof. intros Hl Hs. unfold solvable. destruct (solve_complete m eqs [] k Hl (Forall_nil _) Hs (Forall_nil _)) as (p & -> & _). reflexivity. Qed.

(* every assignment satisfying the final pivots satisfies all the equations consumed *)
Theorem solve_pivots_imply m : forall eqs piv piv', Forall (fun e => length (fst e) = m) eqs -> Forall (wfp m) piv ->
  solve eqs piv = Some piv' -> Forall (wfp m) piv' /\ forall k, Forall (psat k) piv' -> Forall (sat k) eqs /\ Forall (psat k) piv.
Proof.
  induction eqs as [|[v r] eqs IH]; intros piv piv' Hl Hw H; cbn [solve] in H.
  - injection H as <-. split; [exact Hw| intros k Hk; split; [constructor| exact Hk]].
  - apply Forall_cons_iff in Hl; destruct Hl as [Hl1 Hl2]. cbn [fst] in Hl1.
    destruct (reduce piv v r) as [v' r'] eqn:R.
    destruct (first_true v') as [i|] eqn:F.
    + assert (L : length v' = m) by (pose proof (reduce_length m piv Hw v r Hl1) as Q; rewrite R in Q; exact Q).
      destruct (IH _ _ Hl2 (insert_Forall (P:=wfp m) (i, v', r') piv L Hw) H) as [W K]. split; [exact W|].
      intros k Hk. destruct (K k Hk) as [S1 S2]. apply Forall_insert_inv in S2. destruct S2 as [Sp Spiv].
      split; [| exact Spiv]. constructor; [| exact S1].
      pose proof (reduce_sound m piv Hw v r k Hl1 Spiv) as Q. rewrite R in Q. destruct Q as [_ E]. unfold sat; cbn. apply E. exact Sp.
    + destruct r'; [discriminate|]. destruct (IH _ _ Hl2 Hw H) as [W K]. split; [exact W|].
      intros k Hk. destruct (K k Hk) as [S1 S2]. split; [| exact S2]. constructor; [| exact S1].
      pose proof (reduce_sound m piv Hw v r k Hl1 S2) as Q. rewrite R in Q. destruct Q as [_ E]. unfold sat; cbn. apply E.
      apply first_true_none; exact F.
Qed.
Print Assumptions solvable_complete. Print Assumptions solve_pivots_imply.
