(* C07 — Circuit file format: faithful round trip, documented acceptance, total parser. *)
From Coq Require Import List NArith Arith.
Import ListNotations.
Require Tag Target TargetList.
Require IntRead Gen_IntRead GenProofs_IntRead.
Require Import Dec HashModel.

(* tags: escaping then reading returns the tag for EVERY byte string, with any text after the closing bracket ... *)
Theorem C07_tag_roundtrip :
  forall tag acc rest, Tag.read_tag_body (Tag.esc tag ++ Tag.RBR :: rest) acc = Tag.TagOk (acc ++ tag) rest.
Proof. exact Tag.tag_roundtrip. Qed.
(* ... and the reader (structurally recursive on its input, hence total; with the end-of-input test) never produces more
   than it consumed: committed tag data is bounded by the input. *)
Theorem C07_tag_output_bounded :
  forall inp acc t r, Tag.read_tag_body inp acc = Tag.TagOk t r -> length t + length r <= length acc + length inp.
Proof. exact Tag.tag_output_bounded. Qed.
(* decimal integers (targets, repeat counts): print then read is the identity before any non-digit *)
Theorem C07_decimal_roundtrip : forall n rest, no_digit_head rest -> read_dec (print_dec n ++ rest) = Some (n, rest).
Proof. exact read_print_dec. Qed.
(* gate targets: write_succinct then read_single_gate_target (with read_inverted_target, read_pauli_target, the 24-bit limit
   tested after every digit) returns the target, for every target kind and every value below 2^24 *)
Theorem C07_target_roundtrip :
  forall t rest, Target.twf t -> no_digit_head rest -> Target.read_target (Target.write_succinct t ++ rest) = Some (t, rest).
Proof. exact Target.read_write_target. Qed.
(* whole target lists: stim::write_targets (no space around combiners) then read_arbitrary_targets_into (read_until_next_line_arg +
   read_single_gate_target) returns the list, for every list of well-formed targets, combiners in any position, any length *)
Theorem C07_target_list_roundtrip :
  forall ts rest, Forall Target.twf ts ->
  TargetList.read_targets (S (length ts)) true (TargetList.write_targets ts ++ 10%N :: rest) = TargetList.ROk ts (10%N :: rest).
Proof. exact TargetList.targets_roundtrip. Qed.
Theorem C07_uint24_reader_accepts_all_below_limit :
  forall n rest, (n < Target.LIM)%N -> no_digit_head rest -> Target.read_u24 (print_dec n ++ rest) = Some (n, rest).
Proof. exact Target.read_u24_print. Qed.
(* gate names and aliases: the hash of gates.h (multipliers generated from the source) is perfect on the generated table *)
Theorem C07_gate_name_hash_is_perfect : hash_table_ok = true.
Proof. exact table_hash_perfect. Qed.
Print Assumptions C07_tag_roundtrip. Print Assumptions C07_tag_output_bounded. Print Assumptions C07_target_roundtrip.
Print Assumptions C07_gate_name_hash_is_perfect. Print Assumptions C07_target_list_roundtrip.

(* the parsers' decimal readers, regenerated from source (accumulator width, limit, loop shape): no value wraps around modulo the
   machine word before the limit test, so each reader is the unbounded loop of the parser model (limits 2^24, 2^60, 2^63). The
   post-check shape with limit 2^63 in 64 bits would accept 2^64+1 as 1 (IntRead.post_check_u63_refuted). *)
Theorem C07_decimal_readers_do_not_wrap : GenProofs_IntRead.intread_all_ok = true.
Proof. exact GenProofs_IntRead.decimal_readers_do_not_wrap. Qed.
Theorem C07_generated_reader_is_unbounded_loop :
  GenProofs_IntRead.intread_all_ok = true ->
  forall n w k pre, In (n, w, k, pre) Gen_IntRead.int_readers ->
  forall s, (if pre then IntRead.pre_loop w (2 ^ k) s 0 else IntRead.post_loop w (2 ^ k) s 0)%N = DemTargets.read_lim_loop (2 ^ k)%N s 0%N.
Proof. exact GenProofs_IntRead.generated_reader_is_unbounded_loop. Qed.
Print Assumptions C07_decimal_readers_do_not_wrap. Print Assumptions C07_generated_reader_is_unbounded_loop.
