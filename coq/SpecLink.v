(* Spec.srun itself, on the fragment whose record is the internal record (table gates, Hermitian product measurements and
   measure-resets without inversion, Paulis controlled by a recorded result): its state and record are those of the primitive
   circuit SpecSem / SpecComplete speak about.  Hence, for these circuits, the evaluations of `Spec.recs (Spec.srun n 0 c)` under all
   assignments are EXACTLY the records of the runs the semantics allows. *)
From Coq Require Import List Bool Arith NArith ZArith Lia String.
Import ListNotations.
Require Import Pauli Collapse Sem Span Refine Run FrameRun FrameProg SpecSem SpecSemFull SpecComplete.
Require Stab Act Gen_GateTable Spec SpecProofs.

Definition compile1 (n : nat) (i : Spec.sinstr) : option (list SpecSem.sop) :=
  match i with
  | Spec.SU1 g q => Some [SpecSem.SG1 (Act.gate_id g) q]
  | Spec.SU2 g a b => Some [SpecSem.SG2 (Act.gate_id g) a b]
  | Spec.SMeas P false =>
      if Stab.is_identity (snd (Spec.herm_of n P)) then None
      else Some [SpecSem.SMs (fst (Spec.herm_of n P)) (snd (Spec.herm_of n P))]
  | Spec.SMeasReset b q false =>
      Some [SpecSem.SMs false (Stab.single n q (Stab.bpz b)); SpecSem.SPif (Stab.single n q (Stab.flip_of b)) 0]
  | Spec.SPauliIf P (Spec.CRec (S k)) => Some [SpecSem.SPif (snd (Spec.herm_of n P)) k]
  | Spec.SPauliIf P (Spec.CVar v) => Some [SpecSem.SPifv (snd (Spec.herm_of n P)) (N.to_nat v)]
  | _ => None
  end.
Fixpoint compile (n : nat) (c : list Spec.sinstr) : option (list SpecSem.sop) :=
  match c with
  | [] => Some []
  | i :: c' => match compile1 n i, compile n c' with Some a, Some b => Some (a ++ b) | _, _ => None end
  end.

Definition srel (r : Spec.sres) (s : Stab.state * list Stab.form) : Prop := Spec.st r = fst s /\ Spec.recs r = rev (snd s).

Lemma rec_at_rev (l : list Stab.form) k : k < List.length l -> Spec.rec_at (rev l) (S k) = nth k l Stab.fzero.
Proof.
  intros H. unfold Spec.rec_at. rewrite rev_length. rewrite rev_nth by lia. f_equal. lia.
Qed.

Lemma step_link n i ops r s : compile1 n i = Some ops -> srel r s ->
  (forall k P, i = Spec.SPauliIf P (Spec.CRec (S k)) -> k < List.length (snd s)) ->
  srel (Spec.sstep n i r) (fold_left (fun s o => SpecSem.sexec o s) ops s).
Proof.
  intros Hc [Hst Hrec] Hk. destruct s as [st recs]. cbn [fst snd] in *. destruct i; cbn [compile1] in Hc; try discriminate.
  - injection Hc as <-. cbn [fold_left SpecSem.sexec]. split; cbn [fst snd]; [|exact Hrec]. cbn [Spec.sstep Spec.st]. now rewrite Hst.
  - injection Hc as <-. cbn [fold_left SpecSem.sexec]. split; cbn [fst snd]; [|exact Hrec]. cbn [Spec.sstep Spec.st]. now rewrite Hst.
  - destruct invert; [discriminate|]. destruct (Stab.is_identity (snd (Spec.herm_of n P))) eqn:Eid; [discriminate|]. injection Hc as <-.
    cbn [fold_left SpecSem.sexec]. destruct (SpecSem.sstep_SMeas n P false r Eid) as [E1 E2]. rewrite Hst in E1, E2.
    destruct (Stab.measure (fst (Spec.herm_of n P)) (snd (Spec.herm_of n P)) st) as [f st1]. cbn [fst snd] in *.
    split; cbn [fst snd]; [exact E1|]. rewrite E2, Hrec. cbn [rev]. now rewrite SpecSem.fflip_false.
  - destruct invert; [discriminate|]. injection Hc as <-. cbn [fold_left SpecSem.sexec].
    destruct (SpecSem.sstep_SMeasReset n b q false r) as [E1 E2]. rewrite Hst in E1, E2.
    destruct (Stab.measure false (Stab.single n q (Stab.bpz b)) st) as [f st1]. cbn [fst snd nth] in *.
    split; cbn [fst snd]; [exact E1|]. rewrite E2, Hrec. cbn [rev]. now rewrite SpecSem.fflip_false.
  - destruct c as [[|k]|v]; try discriminate.
    + injection Hc as <-. cbn [fold_left SpecSem.sexec].
      split; cbn [fst snd]; [|cbn [Spec.sstep]; destruct (Spec.herm_of n P); exact Hrec].
      rewrite SpecSem.sstep_SPauliIf, Hst. cbn [Spec.ctrl_form]. rewrite Hrec, rec_at_rev by (exact (Hk k P eq_refl)). reflexivity.
    + injection Hc as <-. cbn [fold_left SpecSem.sexec].
      split; cbn [fst snd]; [|cbn [Spec.sstep]; destruct (Spec.herm_of n P); exact Hrec].
      rewrite SpecSem.sstep_SPauliIf, Hst. cbn [Spec.ctrl_form]. unfold Spec.var_form, SpecSem.varf. now rewrite N2Nat.id.
Qed.

Fixpoint look_ok (n : nat) (c : list Spec.sinstr) (s : Stab.state * list Stab.form) : Prop :=
  match c with
  | [] => True
  | i :: c' => match compile1 n i with
               | Some ops => (forall k P, i = Spec.SPauliIf P (Spec.CRec (S k)) -> k < List.length (snd s)) /\
                             look_ok n c' (fold_left (fun s o => SpecSem.sexec o s) ops s)
               | None => False
               end
  end.

Lemma run_link n c : forall ops r s, compile n c = Some ops -> look_ok n c s -> srel r s ->
  srel (fold_left (fun r i => Spec.sstep n i r) c r) (fold_left (fun s o => SpecSem.sexec o s) ops s).
Proof.
  induction c as [|i c IH]; intros ops r s Hc Hl Hr; cbn [compile look_ok fold_left] in *.
  - injection Hc as <-. exact Hr.
  - destruct (compile1 n i) as [a|] eqn:E1; [|discriminate]. destruct (compile n c) as [b|] eqn:E2; [|discriminate]. injection Hc as <-.
    destruct Hl as [Hk Hl]. rewrite fold_left_app. apply IH; [reflexivity| exact Hl|]. now apply step_link.
Qed.

Lemma sinit_rel n base : srel (Spec.sinit n base) (SpecSem.st0 n base, []).
Proof. split; reflexivity. Qed.

(* Spec.srun: its recorded forms, evaluated under ANY assignment (coins from `base` upwards, sweep / fault variables below), are the
   record of a run the semantics allows, with the external bits that assignment gives to the variables ... *)
Theorem srun_sound n base c ops m k : compile n c = Some ops -> Forall (SpecSem.sop_ok n) ops -> look_ok n c (SpecSem.st0 n base, []) ->
  exists l S', FrameProg.realize (fun v => SpecProofs.eval_form m k (SpecSem.varf v)) [] (map SpecSem.tr ops) l /\
               Run.sem_run (fun P => Zplus P) l S' /\
               rev (fold_left SpecSem.push l []) = map (SpecProofs.eval_form m k) (Spec.recs (Spec.srun n base c)).
Proof.
  intros Hc Hok Hl. destruct (spec_circuits_sound_unconditional n base m k ops Hok) as (l & S' & Hre & Hrun & _ & Hrec).
  exists l, S'. split; [exact Hre|]. split; [exact Hrun|].
  destruct (run_link n c ops (Spec.sinit n base) (SpecSem.st0 n base, []) Hc Hl (sinit_rel n base)) as [_ E]. unfold Spec.srun. rewrite E, Hrec. symmetry. apply map_rev.
Qed.
(* ... and every run the semantics allows under external bits ext0 has such an evaluation as its record, with the variables below
   `base` pinned to ext0 *)
Theorem srun_complete n base ext0 c ops la S' : compile n c = Some ops -> Forall (SpecSem.sop_ok n) ops -> vars_below base ops ->
  look_ok n c (SpecSem.st0 n base, []) ->
  FrameProg.realize ext0 [] (map SpecSem.tr ops) la -> Run.sem_run (fun P => Zplus P) la S' ->
  exists m k, List.length k = m /\ (forall v, v < base -> v < m /\ nth v k false = ext0 v) /\
    rev (fold_left SpecSem.push la []) = map (SpecProofs.eval_form m k) (Spec.recs (Spec.srun n base c)).
Proof.
  intros Hc Hok Hv Hl Hre Hrun. destruct (spec_complete_oracle n base ext0 ops la S' Hok Hv Hre Hrun) as (m & k & Hm & Hpin & Hrec).
  exists m, k. split; [exact Hm|]. split; [exact Hpin|].
  destruct (run_link n c ops (Spec.sinit n base) (SpecSem.st0 n base, []) Hc Hl (sinit_rel n base)) as [_ E]. unfold Spec.srun. rewrite E, Hrec. symmetry. apply map_rev.
Qed.
Print Assumptions srun_sound. Print Assumptions srun_complete.

(* non-vacuity: a Bell-pair circuit with a measure-reset and feedback compiles, and its operations are well formed *)
Example srun_link_example :
  let c := [Spec.SU1 (Act.e_id (Act.gate_named "H"%string)) 0; Spec.SU2 (Act.e_id (Act.gate_named "CX"%string)) 0 1;
            Spec.SMeasReset Stab.BZ 0 false; Spec.SPauliIf [(1, (true, false))] (Spec.CRec 1); Spec.SPauliIf [(0, (false, true))] (Spec.CVar 0);
            Spec.SMeas [(1, (false, true))] false] in
  exists ops, compile 2 c = Some ops /\ List.length ops = 7.
Proof. vm_compute. eexists. split; reflexivity. Qed.
