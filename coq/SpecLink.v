(* Spec.srun itself, on the fragment whose record is the internal record (table gates, Hermitian product measurements and
   measure-resets without inversion, Paulis controlled by a recorded result): its state and record are those of the primitive
   circuit SpecSem / SpecComplete speak about.  Hence, for these circuits, the evaluations of `Spec.recs (Spec.srun n 0 c)` under all
   assignments are EXACTLY the records of the runs the semantics allows. *)
From Coq Require Import List Bool Arith NArith ZArith Lia String.
Import ListNotations.
Require Import Pauli Collapse Sem Span Refine Run FrameRun FrameProg SpecSem SpecSemFull SpecComplete.
Require Stab Act Gen_GateTable Spec SpecProofs.

(* which internal results are visible in Spec.recs (Some inversion) and which are hidden (None: the measurement inside a reset) *)
Definition vis := list (option bool).
Fixpoint proj (v : vis) (recs : list Stab.form) : list Stab.form :=
  match v, recs with
  | Some inv :: v', f :: r' => Stab.fflip f inv :: proj v' r'
  | None :: v', _ :: r' => proj v' r'
  | _, _ => []
  end.
Fixpoint vfind (k : nat) (v : vis) : option (nat * bool) :=
  match v with
  | [] => None
  | None :: v' => option_map (fun p => (S (fst p), snd p)) (vfind k v')
  | Some inv :: v' => match k with 0 => Some (0, inv) | S k' => option_map (fun p => (S (fst p), snd p)) (vfind k' v') end
  end.
Lemma vfind_proj : forall (v : vis) recs k idx inv, List.length v = List.length recs -> vfind k v = Some (idx, inv) ->
  k < List.length (proj v recs) /\ nth k (proj v recs) Stab.fzero = Stab.fflip (nth idx recs Stab.fzero) inv.
Proof.
  induction v as [|[i0|] v IH]; intros [|f recs] k idx inv HL Hf; cbn [vfind proj] in *; try discriminate; cbn [List.length] in HL; try lia.
  - destruct k as [|k].
    + injection Hf as <- <-. cbn. split; [lia| reflexivity].
    + destruct (vfind k v) as [[i1 b1]|] eqn:E; [|discriminate]. cbn in Hf. injection Hf as <- <-.
      destruct (IH recs k i1 b1 ltac:(lia) E) as [H1 H2]. cbn [List.length nth]. split; [lia| exact H2].
  - destruct (vfind k v) as [[i1 b1]|] eqn:E; [|discriminate]. cbn in Hf. injection Hf as <- <-.
    destruct (IH recs k i1 b1 ltac:(lia) E) as [H1 H2]. cbn [nth]. split; [exact H1| exact H2].
Qed.

Definition compile1 (n : nat) (v : vis) (i : Spec.sinstr) : option (list SpecSem.sop * vis) :=
  match i with
  | Spec.SU1 g q => Some ([SpecSem.SG1 (Act.gate_id g) q], v)
  | Spec.SU2 g a b => Some ([SpecSem.SG2 (Act.gate_id g) a b], v)
  | Spec.SMeas P inv =>
      if Stab.is_identity (snd (Spec.herm_of n P)) then None
      else Some ([SpecSem.SMs (fst (Spec.herm_of n P)) (snd (Spec.herm_of n P))], Some inv :: v)
  | Spec.SMeasReset b q inv =>
      Some ([SpecSem.SMs false (Stab.single n q (Stab.bpz b)); SpecSem.SPif (Stab.single n q (Stab.flip_of b)) 0], Some inv :: v)
  | Spec.SReset b q =>
      Some ([SpecSem.SMs false (Stab.single n q (Stab.bpz b)); SpecSem.SPif (Stab.single n q (Stab.flip_of b)) 0], None :: v)
  | Spec.SPauliIf P (Spec.CRec (S k)) =>
      match vfind k v with
      | Some (idx, inv) => Some ((if inv then [SpecSem.SPauli (snd (Spec.herm_of n P))] else []) ++ [SpecSem.SPif (snd (Spec.herm_of n P)) idx], v)
      | None => None
      end
  | Spec.SPauliIf P (Spec.CVar x) => Some ([SpecSem.SPifv (snd (Spec.herm_of n P)) (N.to_nat x)], v)
  | _ => None
  end.
Fixpoint compile (n : nat) (v : vis) (c : list Spec.sinstr) : option (list SpecSem.sop * vis) :=
  match c with
  | [] => Some ([], v)
  | i :: c' => match compile1 n v i with
               | Some (a, v1) => match compile n v1 c' with Some (b, v2) => Some (a ++ b, v2) | None => None end
               | None => None
               end
  end.

Definition srel (r : Spec.sres) (s : Stab.state * list Stab.form) (v : vis) : Prop :=
  Spec.st r = fst s /\ List.length v = List.length (snd s) /\ Spec.recs r = rev (proj v (snd s)).

Lemma rec_at_rev (l : list Stab.form) k : k < List.length l -> Spec.rec_at (rev l) (S k) = nth k l Stab.fzero.
Proof.
  intros H. unfold Spec.rec_at. rewrite rev_length. rewrite rev_nth by lia. f_equal. lia.
Qed.

Lemma form_flip a f : Stab.fxor (Stab.fxor a (Stab.fconst true)) f = Stab.fxor a (Stab.fflip f true).
Proof. destruct a as [a0 a1], f as [f0 f1]. unfold Stab.fxor, Stab.fconst, Stab.fflip; cbn [fst snd]. rewrite N.lxor_0_r. f_equal. destruct a0, f0; reflexivity. Qed.
Lemma pauli_if_flip F f st : Stab.pauli_if F (Stab.fflip f true) st = Stab.pauli_if F f (Stab.pauli_if F (Stab.fconst true) st).
Proof.
  unfold Stab.pauli_if; cbn [Stab.gens Stab.ncoins]. f_equal. rewrite map_map. apply map_ext. intros g.
  destruct (Stab.anti F (snd g)) eqn:E; cbn [snd fst]; rewrite E; [|reflexivity]. now rewrite form_flip.
Qed.

Lemma step_link n v i ops v' r s : compile1 n v i = Some (ops, v') -> srel r s v ->
  srel (Spec.sstep n i r) (fold_left (fun s o => SpecSem.sexec o s) ops s) v'.
Proof.
  intros Hc (Hst & Hlen & Hrec). destruct s as [st recs]. cbn [fst snd] in *. destruct i; cbn [compile1] in Hc; try discriminate.
  - injection Hc as <- <-. cbn [fold_left SpecSem.sexec]. split; cbn [fst snd]; [|split; [exact Hlen| exact Hrec]]. cbn [Spec.sstep Spec.st]. now rewrite Hst.
  - injection Hc as <- <-. cbn [fold_left SpecSem.sexec]. split; cbn [fst snd]; [|split; [exact Hlen| exact Hrec]]. cbn [Spec.sstep Spec.st]. now rewrite Hst.
  - destruct (Stab.is_identity (snd (Spec.herm_of n P))) eqn:Eid; [discriminate|]. injection Hc as <- <-.
    cbn [fold_left SpecSem.sexec]. destruct (SpecSem.sstep_SMeas n P invert r Eid) as [E1 E2]. rewrite Hst in E1, E2.
    destruct (Stab.measure (fst (Spec.herm_of n P)) (snd (Spec.herm_of n P)) st) as [f st1]. cbn [fst snd] in *.
    split; [exact E1|]. split; [cbn; lia|]. rewrite E2, Hrec. reflexivity.
  - injection Hc as <- <-. cbn [fold_left SpecSem.sexec].
    pose proof (SpecSem.sstep_SReset n b q r) as E1. rewrite Hst in E1.
    assert (E2 : Spec.recs (Spec.sstep n (Spec.SReset b q) r) = Spec.recs r).
    { cbn [Spec.sstep]. destruct (Stab.measure false (Stab.single n q (Stab.bpz b)) (Spec.st r)). reflexivity. }
    destruct (Stab.measure false (Stab.single n q (Stab.bpz b)) st) as [f st1]. cbn [fst snd nth] in *.
    split; [exact E1|]. split; [cbn; lia|]. rewrite E2, Hrec. reflexivity.
  - injection Hc as <- <-. cbn [fold_left SpecSem.sexec].
    destruct (SpecSem.sstep_SMeasReset n b q invert r) as [E1 E2]. rewrite Hst in E1, E2.
    destruct (Stab.measure false (Stab.single n q (Stab.bpz b)) st) as [f st1]. cbn [fst snd nth] in *.
    split; [exact E1|]. split; [cbn; lia|]. rewrite E2, Hrec. reflexivity.
  - destruct c as [[|k]|x]; try discriminate.
    + destruct (vfind k v) as [[idx inv]|] eqn:Ef; [|discriminate]. injection Hc as <- <-.
      destruct (vfind_proj v recs k idx inv Hlen Ef) as [Hk Hn].
      assert (Ectl : Spec.ctrl_form (Spec.recs r) (Spec.CRec (S k)) = Stab.fflip (nth idx recs Stab.fzero) inv).
      { cbn [Spec.ctrl_form]. rewrite Hrec, rec_at_rev by exact Hk. exact Hn. }
      split; [|split; [|cbn [Spec.sstep]; destruct (Spec.herm_of n P)]].
      * rewrite SpecSem.sstep_SPauliIf, Hst, Ectl. destruct inv; cbn [app fold_left SpecSem.sexec fst].
        -- apply pauli_if_flip.
        -- now rewrite SpecSem.fflip_false.
      * destruct inv; cbn [app fold_left SpecSem.sexec snd]; exact Hlen.
      * destruct inv; cbn [app fold_left SpecSem.sexec snd]; exact Hrec.
    + injection Hc as <- <-. cbn [fold_left SpecSem.sexec].
      split; cbn [fst snd]; [|split; [exact Hlen| cbn [Spec.sstep]; destruct (Spec.herm_of n P); exact Hrec]].
      rewrite SpecSem.sstep_SPauliIf, Hst. cbn [Spec.ctrl_form]. unfold Spec.var_form, SpecSem.varf. now rewrite N2Nat.id.
Qed.

Lemma run_link n c : forall v ops v' r s, compile n v c = Some (ops, v') -> srel r s v ->
  srel (fold_left (fun r i => Spec.sstep n i r) c r) (fold_left (fun s o => SpecSem.sexec o s) ops s) v'.
Proof.
  induction c as [|i c IH]; intros v ops v' r s Hc Hr; cbn [compile fold_left] in *.
  - injection Hc as <- <-. exact Hr.
  - destruct (compile1 n v i) as [[a v1]|] eqn:E1; [|discriminate]. destruct (compile n v1 c) as [[b v2]|] eqn:E2; [|discriminate]. injection Hc as <- <-.
    rewrite fold_left_app. apply (IH v1 b v2); [exact E2|]. now apply (step_link n v i a v1).
Qed.

Lemma sinit_rel n base : srel (Spec.sinit n base) (SpecSem.st0 n base, []) [].
Proof. split; [reflexivity|]. split; reflexivity. Qed.

(* Spec.recs is the visible, possibly inverted, part of the internal record *)
Fixpoint projb (v : vis) (bs : list bool) : list bool :=
  match v, bs with
  | Some inv :: v', b :: r' => xorb b inv :: projb v' r'
  | None :: v', _ :: r' => projb v' r'
  | _, _ => []
  end.
Lemma map_proj (ev : Stab.form -> bool) : (forall f b, ev (Stab.fflip f b) = xorb (ev f) b) ->
  forall (v : vis) recs, map ev (proj v recs) = projb v (map ev recs).
Proof.
  intros Hfl. induction v as [|[i0|] v IH]; intros [|f recs]; cbn [proj projb map]; try reflexivity.
  - now rewrite Hfl, IH.
  - apply IH.
Qed.

(* Spec.srun: its recorded forms, evaluated under ANY assignment (coins from `base` upwards, sweep / fault variables below), are the
   visible part (inversions applied, reset-internal results dropped) of the record of a run the semantics allows, with the external
   bits that assignment gives to the variables ... *)
Theorem srun_sound n base c ops v' m k : compile n [] c = Some (ops, v') -> Forall (SpecSem.sop_ok n) ops ->
  exists l S', FrameProg.realize (fun x => SpecProofs.eval_form m k (SpecSem.varf x)) [] (map SpecSem.tr ops) l /\
               Run.sem_run (fun P => Zplus P) l S' /\
               rev (projb v' (fold_left SpecSem.push l [])) = map (SpecProofs.eval_form m k) (Spec.recs (Spec.srun n base c)).
Proof.
  intros Hc Hok. destruct (spec_circuits_sound_unconditional n base m k ops Hok) as (l & S' & Hre & Hrun & _ & Hrec).
  exists l, S'. split; [exact Hre|]. split; [exact Hrun|].
  destruct (run_link n c [] ops v' (Spec.sinit n base) (SpecSem.st0 n base, []) Hc (sinit_rel n base)) as (_ & _ & E).
  unfold Spec.srun. rewrite E, Hrec, map_rev. f_equal. symmetry. apply map_proj. apply SpecSem.eval_form_fflip.
Qed.
(* ... and every run the semantics allows under external bits ext0 has such an evaluation as its visible record, with the variables
   below `base` pinned to ext0 *)
Theorem srun_complete n base ext0 c ops v' la S' : compile n [] c = Some (ops, v') -> Forall (SpecSem.sop_ok n) ops -> vars_below base ops ->
  FrameProg.realize ext0 [] (map SpecSem.tr ops) la -> Run.sem_run (fun P => Zplus P) la S' ->
  exists m k, List.length k = m /\ (forall x, x < base -> x < m /\ nth x k false = ext0 x) /\
    rev (projb v' (fold_left SpecSem.push la [])) = map (SpecProofs.eval_form m k) (Spec.recs (Spec.srun n base c)).
Proof.
  intros Hc Hok Hv Hre Hrun. destruct (spec_complete_oracle n base ext0 ops la S' Hok Hv Hre Hrun) as (m & k & Hm & Hpin & Hrec).
  exists m, k. split; [exact Hm|]. split; [exact Hpin|].
  destruct (run_link n c [] ops v' (Spec.sinit n base) (SpecSem.st0 n base, []) Hc (sinit_rel n base)) as (_ & _ & E).
  unfold Spec.srun. rewrite E, Hrec, map_rev. f_equal. symmetry. apply map_proj. apply SpecSem.eval_form_fflip.
Qed.
Print Assumptions srun_sound. Print Assumptions srun_complete.

(* non-vacuity: a circuit with a reset, an inverted measurement, feedback on it, a sweep-controlled Pauli and a measure-reset *)
Example srun_link_example :
  let c := [Spec.SU1 (Act.e_id (Act.gate_named "H"%string)) 0; Spec.SU2 (Act.e_id (Act.gate_named "CX"%string)) 0 1;
            Spec.SReset Stab.BZ 1; Spec.SMeas [(0, (false, true))] true; Spec.SPauliIf [(1, (true, false))] (Spec.CRec 1);
            Spec.SPauliIf [(0, (false, true))] (Spec.CVar 0); Spec.SMeasReset Stab.BZ 0 false; Spec.SMeas [(1, (false, true))] false] in
  exists ops v', compile 2 [] c = Some (ops, v') /\ List.length ops = 11 /\ v' = [Some false; Some false; Some true; None].
Proof. vm_compute. eexists; eexists. split; [reflexivity|]. split; reflexivity. Qed.
