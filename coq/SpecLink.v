(* Spec.srun itself, on the fragment whose record is the internal record (table gates, Hermitian product measurements and
   measure-resets without inversion, Paulis controlled by a recorded result): its state and record are those of the primitive
   circuit SpecSem / SpecComplete speak about.  Hence, for these circuits, the evaluations of `Spec.recs (Spec.srun n 0 c)` under all
   assignments are EXACTLY the records of the runs the semantics allows. *)
From Coq Require Import List Bool Arith NArith ZArith Lia String.
Import ListNotations.
Require Import Pauli Collapse Sem Span Refine Run FrameRun FrameProg SpecSem SpecSemFull SpecComplete.
Require Stab Act Gen_GateTable Spec SpecProofs.

(* which internal results are visible in Spec.recs (Some inversion) and which are hidden (None: the measurement inside a reset) *)
(* which internal results are visible in Spec.recs - Some (inversion, fault variables XORed onto the recorded value: noisy measurements) -
   and which are hidden (None: the measurement inside a reset) *)
Definition ventry := (bool * list nat)%type.
Definition vis := list (option ventry).
Definition vform (e : ventry) (f : Stab.form) : Stab.form :=
  fold_left (fun acc x => Stab.fxor acc (SpecSem.varf x)) (snd e) (Stab.fflip f (fst e)).
Fixpoint proj (v : vis) (recs : list Stab.form) : list Stab.form :=
  match v, recs with
  | Some e :: v', f :: r' => vform e f :: proj v' r'
  | None :: v', _ :: r' => proj v' r'
  | _, _ => []
  end.
Fixpoint vfind (k : nat) (v : vis) : option (nat * ventry) :=
  match v with
  | [] => None
  | None :: v' => option_map (fun p => (S (fst p), snd p)) (vfind k v')
  | Some e :: v' => match k with 0 => Some (0, e) | S k' => option_map (fun p => (S (fst p), snd p)) (vfind k' v') end
  end.
(* X_ERROR-like flip of the most recent visible record by variable x *)
Fixpoint addv (x : nat) (v : vis) : vis :=
  match v with
  | [] => []
  | None :: v' => None :: addv x v'
  | Some (inv, vs) :: v' => Some (inv, vs ++ [x]) :: v'
  end.
Lemma addv_length x v : List.length (addv x v) = List.length v.
Proof. induction v as [|[[inv vs]|] v IH]; cbn; congruence. Qed.
Lemma vform_snoc inv vs x f : vform (inv, vs ++ [x]) f = Stab.fxor (vform (inv, vs) f) (SpecSem.varf x).
Proof. unfold vform; cbn [fst snd]. now rewrite fold_left_app. Qed.
Lemma proj_addv x : forall (v : vis) recs, List.length v = List.length recs ->
  proj (addv x v) recs = match proj v recs with [] => [] | l :: b => Stab.fxor l (SpecSem.varf x) :: b end.
Proof.
  induction v as [|[[inv vs]|] v IH]; intros [|f recs] HL; cbn [addv proj] in *; try reflexivity; cbn [List.length] in HL; try lia.
  - now rewrite vform_snoc.
  - apply IH. lia.
Qed.
Lemma vfind_proj : forall (v : vis) recs k idx e, List.length v = List.length recs -> vfind k v = Some (idx, e) ->
  k < List.length (proj v recs) /\ nth k (proj v recs) Stab.fzero = vform e (nth idx recs Stab.fzero).
Proof.
  induction v as [|[i0|] v IH]; intros [|f recs] k idx e HL Hf; cbn [vfind proj] in *; try discriminate; cbn [List.length] in HL; try lia.
  - destruct k as [|k].
    + injection Hf as <- <-. cbn. split; [lia| reflexivity].
    + destruct (vfind k v) as [[i1 b1]|] eqn:E; [|discriminate]. cbn in Hf. injection Hf as <- <-.
      destruct (IH recs k i1 b1 ltac:(lia) E) as [H1 H2]. cbn [List.length nth]. split; [lia| exact H2].
  - destruct (vfind k v) as [[i1 b1]|] eqn:E; [|discriminate]. cbn in Hf. injection Hf as <- <-.
    destruct (IH recs k i1 b1 ltac:(lia) E) as [H1 H2]. cbn [nth]. split; [exact H1| exact H2].
Qed.

(* the primitives that apply "Pauli B controlled by the visible form of internal result idx" *)
Definition ctrl_ops (B : Stab.bits) (idx : nat) (e : ventry) : list SpecSem.sop :=
  [SpecSem.SPif B idx] ++ (if fst e then [SpecSem.SPauli B] else []) ++ map (SpecSem.SPifv B) (snd e).

Definition compile1 (n : nat) (v : vis) (i : Spec.sinstr) : option (list SpecSem.sop * vis) :=
  match i with
  | Spec.SU1 g q => Some ([SpecSem.SG1 (Act.gate_id g) q], v)
  | Spec.SU2 g a b => Some ([SpecSem.SG2 (Act.gate_id g) a b], v)
  | Spec.SMeas P inv =>
      if Stab.is_identity (snd (Spec.herm_of n P)) then None
      else Some ([SpecSem.SMs (fst (Spec.herm_of n P)) (snd (Spec.herm_of n P))], Some (inv, []) :: v)
  | Spec.SMeasReset b q inv =>
      Some ([SpecSem.SMs false (Stab.single n q (Stab.bpz b)); SpecSem.SPif (Stab.single n q (Stab.flip_of b)) 0], Some (inv, []) :: v)
  | Spec.SReset b q =>
      Some ([SpecSem.SMs false (Stab.single n q (Stab.bpz b)); SpecSem.SPif (Stab.single n q (Stab.flip_of b)) 0], None :: v)
  | Spec.SPauliIf P (Spec.CRec (S k)) =>
      match vfind k v with
      | Some (idx, e) => Some (ctrl_ops (snd (Spec.herm_of n P)) idx e, v)
      | None => None
      end
  | Spec.SPauliIf P (Spec.CVar x) => Some ([SpecSem.SPifv (snd (Spec.herm_of n P)) (N.to_nat x)], v)
  | Spec.SFlipLast x => Some ([], addv (N.to_nat x) v)
  | _ => None
  end.
Fixpoint compile (n : nat) (v : vis) (c : list Spec.sinstr) : option (list SpecSem.sop * vis) :=
  match c with
  | [] => Some ([], v)
  | i :: c' => match compile1 n v i with
               | Some (a, v1) => match compile n v1 c' with Some (b, v2) => Some (a ++ b, v2) | None => None end
               | None => None
               end
  end.

Definition srel (r : Spec.sres) (s : Stab.state * list Stab.form) (v : vis) : Prop :=
  Spec.st r = fst s /\ List.length v = List.length (snd s) /\ Spec.recs r = rev (proj v (snd s)).

Lemma rec_at_rev (l : list Stab.form) k : k < List.length l -> Spec.rec_at (rev l) (S k) = nth k l Stab.fzero.
Proof.
  intros H. unfold Spec.rec_at. rewrite rev_length. rewrite rev_nth by lia. f_equal. lia.
Qed.

Lemma fxor_assoc a f g : Stab.fxor (Stab.fxor a f) g = Stab.fxor a (Stab.fxor f g).
Proof. destruct a as [a0 a1], f as [f0 f1], g as [g0 g1]. unfold Stab.fxor; cbn [fst snd]. rewrite N.lxor_assoc. f_equal. destruct a0, f0, g0; reflexivity. Qed.
Lemma fflip_as_fxor f b : Stab.fflip f b = Stab.fxor f (Stab.fconst b).
Proof. destruct f as [f0 f1]. unfold Stab.fflip, Stab.fxor, Stab.fconst; cbn [fst snd]. now rewrite N.lxor_0_r. Qed.
Lemma pauli_if_fxor F f g st : Stab.pauli_if F (Stab.fxor f g) st = Stab.pauli_if F g (Stab.pauli_if F f st).
Proof.
  unfold Stab.pauli_if; cbn [Stab.gens Stab.ncoins]. f_equal. rewrite map_map. apply map_ext. intros h.
  destruct (Stab.anti F (snd h)) eqn:E; cbn [snd fst]; rewrite E; [|reflexivity]. now rewrite fxor_assoc.
Qed.
Lemma pauli_if_fzero_false F st : Stab.pauli_if F (Stab.fconst false) st = st.
Proof.
  unfold Stab.pauli_if. destruct st as [gs nc]. cbn [Stab.gens Stab.ncoins]. f_equal. rewrite <- (map_id gs) at 2. apply map_ext. intros h.
  destruct (Stab.anti F (snd h)); [|reflexivity]. destruct h as [[c m] b]. unfold Stab.fxor, Stab.fconst; cbn [fst snd]. now rewrite xorb_false_r, N.lxor_0_r.
Qed.

Lemma ctrl_ops_exec B idx e st recs :
  fold_left (fun s o => SpecSem.sexec o s) (ctrl_ops B idx e) (st, recs) = (Stab.pauli_if B (vform e (nth idx recs Stab.fzero)) st, recs).
Proof.
  destruct e as [inv vs]. unfold ctrl_ops, vform. cbn [fst snd]. rewrite !fold_left_app. cbn [fold_left SpecSem.sexec].
  set (f := nth idx recs Stab.fzero).
  assert (E1 : fold_left (fun s o => SpecSem.sexec o s) (if inv then [SpecSem.SPauli B] else []) (Stab.pauli_if B f st, recs)
               = (Stab.pauli_if B (Stab.fflip f inv) st, recs)).
  { rewrite fflip_as_fxor, pauli_if_fxor. destruct inv; cbn [fold_left SpecSem.sexec]; [reflexivity| now rewrite pauli_if_fzero_false]. }
  rewrite E1. generalize (Stab.fflip f inv) as g. induction vs as [|x vs IH]; intros g; cbn [map fold_left SpecSem.sexec]; [reflexivity|].
  rewrite <- pauli_if_fxor. apply IH.
Qed.

Lemma step_link n v i ops v' r s : compile1 n v i = Some (ops, v') -> srel r s v ->
  srel (Spec.sstep n i r) (fold_left (fun s o => SpecSem.sexec o s) ops s) v'.
Proof.
  intros Hc (Hst & Hlen & Hrec). destruct s as [st recs]. cbn [fst snd] in *. destruct i; cbn [compile1] in Hc; try discriminate.
  - injection Hc as <- <-. cbn [fold_left SpecSem.sexec]. split; cbn [fst snd]; [|split; [exact Hlen| exact Hrec]]. cbn [Spec.sstep Spec.st]. now rewrite Hst.
  - injection Hc as <- <-. cbn [fold_left SpecSem.sexec]. split; cbn [fst snd]; [|split; [exact Hlen| exact Hrec]]. cbn [Spec.sstep Spec.st]. now rewrite Hst.
  - destruct (Stab.is_identity (snd (Spec.herm_of n P))) eqn:Eid; [discriminate|]. injection Hc as <- <-.
    cbn [fold_left SpecSem.sexec]. destruct (SpecSem.sstep_SMeas n P invert r Eid) as [E1 E2]. rewrite Hst in E1, E2.
    destruct (Stab.measure (fst (Spec.herm_of n P)) (snd (Spec.herm_of n P)) st) as [f st1]. cbn [fst snd] in *.
    split; [exact E1|]. split; [cbn; lia|]. rewrite E2, Hrec. reflexivity.
  - injection Hc as <- <-. cbn [fold_left SpecSem.sexec].
    pose proof (SpecSem.sstep_SReset n b q r) as E1. rewrite Hst in E1.
    assert (E2 : Spec.recs (Spec.sstep n (Spec.SReset b q) r) = Spec.recs r).
    { cbn [Spec.sstep]. destruct (Stab.measure false (Stab.single n q (Stab.bpz b)) (Spec.st r)). reflexivity. }
    destruct (Stab.measure false (Stab.single n q (Stab.bpz b)) st) as [f st1]. cbn [fst snd nth] in *.
    split; [exact E1|]. split; [cbn; lia|]. rewrite E2, Hrec. reflexivity.
  - injection Hc as <- <-. cbn [fold_left SpecSem.sexec].
    destruct (SpecSem.sstep_SMeasReset n b q invert r) as [E1 E2]. rewrite Hst in E1, E2.
    destruct (Stab.measure false (Stab.single n q (Stab.bpz b)) st) as [f st1]. cbn [fst snd nth] in *.
    split; [exact E1|]. split; [cbn; lia|]. rewrite E2, Hrec. reflexivity.
  - destruct c as [[|k]|x]; try discriminate.
    + destruct (vfind k v) as [[idx e]|] eqn:Ef; [|discriminate]. injection Hc as <- <-.
      destruct (vfind_proj v recs k idx e Hlen Ef) as [Hk Hn].
      assert (Ectl : Spec.ctrl_form (Spec.recs r) (Spec.CRec (S k)) = vform e (nth idx recs Stab.fzero)).
      { cbn [Spec.ctrl_form]. rewrite Hrec, rec_at_rev by exact Hk. exact Hn. }
      rewrite ctrl_ops_exec. split; cbn [fst snd]; [|split; [exact Hlen| cbn [Spec.sstep]; destruct (Spec.herm_of n P); exact Hrec]].
      now rewrite SpecSem.sstep_SPauliIf, Hst, Ectl.
    + injection Hc as <- <-. cbn [fold_left SpecSem.sexec].
      split; cbn [fst snd]; [|split; [exact Hlen| cbn [Spec.sstep]; destruct (Spec.herm_of n P); exact Hrec]].
      rewrite SpecSem.sstep_SPauliIf, Hst. cbn [Spec.ctrl_form]. unfold Spec.var_form, SpecSem.varf. now rewrite N2Nat.id.
  - (* SFlipLast *)
    injection Hc as <- <-. cbn [fold_left]. split; [cbn [Spec.sstep]; destruct (rev (Spec.recs r)); [exact Hst| exact Hst]|].
    split; [cbn [snd]; now rewrite addv_length|]. cbn [snd Spec.sstep].
    rewrite (proj_addv (N.to_nat v0) v recs Hlen). rewrite Hrec, rev_involutive.
    destruct (proj v recs) as [|l b]; [cbn [Spec.recs]; now rewrite Hrec|].
    cbn [Spec.recs rev]. unfold Spec.var_form, SpecSem.varf. now rewrite N2Nat.id.
Qed.

Lemma run_link n c : forall v ops v' r s, compile n v c = Some (ops, v') -> srel r s v ->
  srel (fold_left (fun r i => Spec.sstep n i r) c r) (fold_left (fun s o => SpecSem.sexec o s) ops s) v'.
Proof.
  induction c as [|i c IH]; intros v ops v' r s Hc Hr; cbn [compile fold_left] in *.
  - injection Hc as <- <-. exact Hr.
  - destruct (compile1 n v i) as [[a v1]|] eqn:E1; [|discriminate]. destruct (compile n v1 c) as [[b v2]|] eqn:E2; [|discriminate]. injection Hc as <- <-.
    rewrite fold_left_app. apply (IH v1 b v2); [exact E2|]. now apply (step_link n v i a v1).
Qed.

Lemma sinit_rel n base : srel (Spec.sinit n base) (SpecSem.st0 n base, []) [].
Proof. split; [reflexivity|]. split; reflexivity. Qed.

(* Spec.recs is the visible, possibly inverted, part of the internal record *)
Definition vbit (ext : nat -> bool) (e : ventry) (b : bool) : bool :=
  fold_left (fun acc x => xorb acc (ext x)) (snd e) (xorb b (fst e)).
Fixpoint projb (ext : nat -> bool) (v : vis) (bs : list bool) : list bool :=
  match v, bs with
  | Some e :: v', b :: r' => vbit ext e b :: projb ext v' r'
  | None :: v', _ :: r' => projb ext v' r'
  | _, _ => []
  end.
Lemma map_proj (ev : Stab.form -> bool) : (forall a b, ev (Stab.fxor a b) = xorb (ev a) (ev b)) -> (forall f b, ev (Stab.fflip f b) = xorb (ev f) b) ->
  forall (v : vis) recs, map ev (proj v recs) = projb (fun x => ev (SpecSem.varf x)) v (map ev recs).
Proof.
  intros Hx Hfl. induction v as [|[[inv vs]|] v IH]; intros [|f recs]; cbn [proj projb map]; try reflexivity.
  - f_equal; [|apply IH]. unfold vform, vbit; cbn [fst snd]. rewrite <- Hfl. generalize (Stab.fflip f inv) as g.
    induction vs as [|x vs IHv]; intros g; cbn [fold_left]; [reflexivity|]. rewrite IHv, Hx. reflexivity.
  - apply IH.
Qed.

Fixpoint novars (v : vis) : Prop :=
  match v with [] => True | Some (_, vs) :: v' => vs = [] /\ novars v' | None :: v' => novars v' end.
Lemma projb_novars ext1 ext2 : forall (v : vis), novars v -> forall bs, projb ext1 v bs = projb ext2 v bs.
Proof.
  induction v as [|[[inv vs]|] v IH]; intros Hn [|b bs]; cbn [projb novars] in *; try reflexivity.
  - destruct Hn as [-> Hn]. f_equal. now apply IH.
  - now apply IH.
Qed.

(* Spec.srun: its recorded forms, evaluated under ANY assignment (coins from `base` upwards, sweep / fault variables below), are the
   visible part (inversions applied, reset-internal results dropped) of the record of a run the semantics allows, with the external
   bits that assignment gives to the variables ... *)
Theorem srun_sound n base c ops v' m k : compile n [] c = Some (ops, v') -> Forall (SpecSem.sop_ok n) ops ->
  exists l S', FrameProg.realize (fun x => SpecProofs.eval_form m k (SpecSem.varf x)) [] (map SpecSem.tr ops) l /\
               Run.sem_run (fun P => Zplus P) l S' /\
               rev (projb (fun x => SpecProofs.eval_form m k (SpecSem.varf x)) v' (fold_left SpecSem.push l [])) = map (SpecProofs.eval_form m k) (Spec.recs (Spec.srun n base c)).
Proof.
  intros Hc Hok. destruct (spec_circuits_sound_unconditional n base m k ops Hok) as (l & S' & Hre & Hrun & _ & Hrec).
  exists l, S'. split; [exact Hre|]. split; [exact Hrun|].
  destruct (run_link n c [] ops v' (Spec.sinit n base) (SpecSem.st0 n base, []) Hc (sinit_rel n base)) as (_ & _ & E).
  unfold Spec.srun. rewrite E, Hrec, map_rev. f_equal. symmetry. apply map_proj; [apply SpecProofs.eval_form_fxor| apply SpecSem.eval_form_fflip].
Qed.
(* ... and every run the semantics allows under external bits ext0 has such an evaluation as its visible record, with the variables
   below `base` pinned to ext0 *)
Theorem srun_complete n base ext0 c ops v' la S' : compile n [] c = Some (ops, v') -> Forall (SpecSem.sop_ok n) ops -> vars_below base ops ->
  FrameProg.realize ext0 [] (map SpecSem.tr ops) la -> Run.sem_run (fun P => Zplus P) la S' ->
  exists m k, List.length k = m /\ (forall x, x < base -> x < m /\ nth x k false = ext0 x) /\
    rev (projb (fun x => SpecProofs.eval_form m k (SpecSem.varf x)) v' (fold_left SpecSem.push la [])) = map (SpecProofs.eval_form m k) (Spec.recs (Spec.srun n base c)).
Proof.
  intros Hc Hok Hv Hre Hrun. destruct (spec_complete_oracle n base ext0 ops la S' Hok Hv Hre Hrun) as (m & k & Hm & Hpin & Hrec).
  exists m, k. split; [exact Hm|]. split; [exact Hpin|].
  destruct (run_link n c [] ops v' (Spec.sinit n base) (SpecSem.st0 n base, []) Hc (sinit_rel n base)) as (_ & _ & E).
  unfold Spec.srun. rewrite E, Hrec, map_rev. f_equal. symmetry. apply map_proj; [apply SpecProofs.eval_form_fxor| apply SpecSem.eval_form_fflip].
Qed.
Print Assumptions srun_sound. Print Assumptions srun_complete.

(* non-vacuity: a circuit with a reset, an inverted measurement, feedback on it, a sweep-controlled Pauli and a measure-reset *)
Example srun_link_example :
  let c := [Spec.SU1 (Act.e_id (Act.gate_named "H"%string)) 0; Spec.SU2 (Act.e_id (Act.gate_named "CX"%string)) 0 1;
            Spec.SReset Stab.BZ 1; Spec.SMeas [(0, (false, true))] true; Spec.SPauliIf [(1, (true, false))] (Spec.CRec 1);
            Spec.SPauliIf [(0, (false, true))] (Spec.CVar 0); Spec.SMeasReset Stab.BZ 0 false; Spec.SMeas [(1, (false, true))] false;
            Spec.SFlipLast 1%N; Spec.SPauliIf [(0, (true, false))] (Spec.CRec 1)] in
  exists ops v', compile 2 [] c = Some (ops, v') /\ List.length ops = 13 /\ v' = [Some (false, [1]); Some (false, []); Some (true, []); None].
Proof. vm_compute. eexists; eexists. split; [reflexivity|]. split; reflexivity. Qed.
