(* C09: result formats. Models of the implementation's writers/readers beyond B8.v / R8.v / Dec.v:
   - the r8 write_bytes fast path (zero bytes add 8 to the run length) and its equality with eight write_bit(0);
   - the 01 format; the hits format (decimal indices, ',' separated, '\n' terminated) with the reader loop as written. *)
From Coq Require Import List Bool Arith NArith Lia.
Import ListNotations.
Require Import R8 B8 Dec.

(* ---------------- r8: write_bytes ---------------- *)
(* MeasureRecordWriterFormatR8::write_bytes on a zero byte: run_length += 8; if (run_length >= 0xFF) { putc(0xFF); run_length -= 0xFF; } *)
Definition wbyte0 (st : list nat * nat) : list nat * nat :=
  let '(out, run) := st in if 255 <=? run + 8 then (out ++ [255], run + 8 - 255) else (out, run + 8).
(* a non-zero byte is written bit by bit *)
Definition wchunk (st : list nat * nat) (c : list bool) : list nat * nat :=
  if forallb negb c then wbyte0 st else fold_left wbit c st.
(* whole bytes through write_bytes, the remaining bits through write_bit, then write_end *)
Definition impl_enc_bytes (chunks : list (list bool)) (tail : list bool) : list nat :=
  let '(out, run) := fold_left wbit tail (fold_left wchunk chunks ([], 0)) in out ++ [run].

Lemma wbits_false k : forall out run, run < 255 -> k <= 255 ->
  fold_left wbit (repeat false k) (out, run) =
  if 255 <=? run + k then (out ++ [255], run + k - 255) else (out, run + k).
Proof.
  induction k as [|k IH]; intros out run Hr Hk.
  - cbn [repeat fold_left]. destruct (255 <=? run + 0) eqn:E; [apply Nat.leb_le in E; lia|]. now rewrite Nat.add_0_r.
  - change (repeat false (S k)) with (false :: repeat false k). cbn [fold_left]. unfold wbit at 2.
    destruct (S run =? 255) eqn:E.
    + apply Nat.eqb_eq in E. rewrite IH by lia.
      destruct (255 <=? 0 + k) eqn:E2; [apply Nat.leb_le in E2; lia|].
      destruct (255 <=? run + S k) eqn:E3; [|apply Nat.leb_gt in E3; lia].
      f_equal. lia.
    + apply Nat.eqb_neq in E. rewrite IH by lia.
      replace (S run + k) with (run + S k) by lia. reflexivity.
Qed.

Lemma all_false_repeat c : forallb negb c = true -> c = repeat false (length c).
Proof. induction c as [|b c IH]; cbn; [reflexivity|]. intros H. apply andb_true_iff in H. destruct H as [Hb Hc].
  destruct b; [discriminate|]. cbn [length]. change (repeat false (S (length c))) with (false :: repeat false (length c)).
  f_equal. apply IH, Hc. Qed.

Lemma wchunk_eq st c : snd st < 255 -> length c = 8 -> wchunk st c = fold_left wbit c st.
Proof.
  intros Hr Hl. unfold wchunk. destruct (forallb negb c) eqn:E; [|reflexivity].
  rewrite (all_false_repeat c E), Hl. destruct st as [out run]. cbn [snd] in Hr.
  rewrite wbits_false by lia. reflexivity.
Qed.

Lemma fold_wchunk_eq chunks : forall st, snd st < 255 -> Forall (fun c => length c = 8) chunks ->
  fold_left wchunk chunks st = fold_left wbit (concat chunks) st.
Proof.
  induction chunks as [|c chunks IH]; intros st Hr Hall; [reflexivity|].
  apply Forall_cons_iff in Hall. destruct Hall as [Hc Hall].
  cbn [fold_left concat]. rewrite fold_left_app. rewrite wchunk_eq by assumption.
  apply IH; [|exact Hall]. apply (fold_wbit_inv c st Hr).
Qed.

(* the bytes written through the write_bytes path are exactly those of the bit-by-bit writer *)
Theorem r8_write_bytes_eq_write_bits chunks tail : Forall (fun c => length c = 8) chunks ->
  impl_enc_bytes chunks tail = impl_enc (concat chunks ++ tail).
Proof.
  intros H. unfold impl_enc_bytes, impl_enc. rewrite fold_left_app.
  rewrite fold_wchunk_eq by (cbn; auto; lia). reflexivity.
Qed.

(* ---------------- 01 ---------------- *)
Local Open Scope N_scope.
Definition enc01 (shot : list bool) : list N := map (fun b : bool => if b then 49 else 48) shot ++ [10].
(* reader: n characters '0'/'1' then '\n' (an optional '\r' before it); anything else is an error *)
Fixpoint dec01_bits (n : nat) (s : list N) : option (list bool * list N) :=
  match n with
  | O => Some ([], s)
  | S n' => match s with
            | c :: r => if c =? 48 then match dec01_bits n' r with Some (l, t) => Some (false :: l, t) | None => None end
                        else if c =? 49 then match dec01_bits n' r with Some (l, t) => Some (true :: l, t) | None => None end
                        else None
            | [] => None
            end
  end.
Definition dec01 (n : nat) (s : list N) : option (list bool * list N) :=
  match dec01_bits n s with
  | Some (l, 13 :: 10 :: t) => Some (l, t)
  | Some (l, 10 :: t) => Some (l, t)
  | _ => None
  end.
Lemma dec01_bits_enc shot rest : dec01_bits (length shot) (map (fun b : bool => if b then 49 else 48) shot ++ rest) = Some (shot, rest).
Proof. induction shot as [|b shot IH]; [reflexivity|]. cbn [length map app dec01_bits]. destruct b; cbn; rewrite IH; reflexivity. Qed.
Theorem f01_roundtrip shot rest : dec01 (length shot) (enc01 shot ++ rest) = Some (shot, rest).
Proof. unfold dec01, enc01. rewrite <- app_assoc. rewrite dec01_bits_enc. reflexivity. Qed.

(* ---------------- hits ---------------- *)
Fixpoint join_hits (hs : list N) : list N :=
  match hs with
  | [] => []
  | [h] => print_dec h
  | h :: r => print_dec h ++ [44] ++ join_hits r
  end.
Definition enc_hits (hs : list N) : list N := join_hits hs ++ [10].
(* reader loop of MeasureRecordReaderFormatHits::start_and_read_entire_record_helper; fuel = input length *)
Inductive hres := HDone (hits : list N) (rest : list N) | HEof | HBad.
Fixpoint dec_hits (fuel : nat) (first : bool) (s : list N) (acc : list N) : hres :=
  match fuel with
  | O => HBad
  | S f =>
      match read_dec s with
      | None =>
          match s with
          | [] => if first then HEof else HBad
          | 13 :: 10 :: t => if first then HDone acc t else HBad
          | 10 :: t => if first then HDone acc t else HBad
          | _ => HBad
          end
      | Some (v, rest) =>
          match rest with
          | 13 :: 10 :: t => HDone (acc ++ [v]) t
          | 10 :: t => HDone (acc ++ [v]) t
          | 44 :: t => dec_hits f false t (acc ++ [v])
          | _ => HBad
          end
      end
  end.

Lemma print_dec_nonempty_digit n : exists c r, print_dec n = c :: r /\ is_digit c = true.
Proof.
  pose proof (read_print_dec n [] I) as H. unfold read_dec in H. rewrite app_nil_r in H.
  destruct (print_dec n) as [|c r]; [discriminate|]. exists c, r. split; [reflexivity|].
  destruct (is_digit c); [reflexivity|discriminate].
Qed.

Lemma dec_hits_join hs : forall fuel acc rest, (length hs < fuel)%nat -> hs <> [] ->
  dec_hits fuel false (join_hits hs ++ 10 :: rest) acc = HDone (acc ++ hs) rest.
Proof.
  induction hs as [|h hs IH]; intros fuel acc rest Hf Hne; [congruence|].
  destruct fuel as [|f]; [cbn in Hf; lia|]. cbn [dec_hits].
  destruct hs as [|h2 hs'].
  - cbn [join_hits]. rewrite (read_print_dec h (10 :: rest)) by (cbn; reflexivity). reflexivity.
  - change (join_hits (h :: h2 :: hs')) with (print_dec h ++ [44] ++ join_hits (h2 :: hs')).
    rewrite <- !app_assoc. rewrite (read_print_dec h) by (cbn; reflexivity).
    cbn [app]. rewrite IH; [|cbn in *; lia|discriminate]. rewrite <- app_assoc. reflexivity.
Qed.

Theorem hits_roundtrip hs rest :
  dec_hits (S (length hs)) true (enc_hits hs ++ rest) [] = HDone hs rest.
Proof.
  unfold enc_hits. rewrite <- app_assoc. cbn [app].
  destruct hs as [|h hs'].
  - cbn. reflexivity.
  - destruct (S (length (h :: hs'))) as [|f] eqn:Ef; [discriminate|]. cbn [dec_hits].
    destruct hs' as [|h2 hs''].
    + cbn [join_hits]. rewrite (read_print_dec h (10 :: rest)) by (cbn; reflexivity). reflexivity.
    + change (join_hits (h :: h2 :: hs'')) with (print_dec h ++ [44] ++ join_hits (h2 :: hs'')).
      rewrite <- !app_assoc. rewrite (read_print_dec h) by (cbn; reflexivity).
      cbn [app]. rewrite dec_hits_join; [reflexivity| cbn in *; lia | discriminate].
Qed.
