(* Obligations over the GENERATED rows of TableauSimulator's measurement / reset routines, its collapse_x/y/z wrappers, and the
   MXX / MYY / MZZ segments of the four simulators (Gen_TabMeas.v), against the generated gate table.

   Signs of an inverse tableau at target q: sx = sign of the image of X_q, sz = of Z_q, sign of the image of Y_q = sx + sz + c
   (c depends on the rows' Pauli content only, which none of these routines writes). After the routine's collapse in basis B the
   image of B_q is a Z product whose sign is the value of B_q on the state.
   - a measurement in basis B records sign_B + inverted flag and leaves all signs alone; its results are noisified;
   - a reset in basis B leaves sign_B = 0 whatever the signs were (the sign of the anticommuting images is a gauge);
   - collapse_B conjugates collapse_qubit_z by a self-inverse table gate taking B to +Z;
   - a pair segment conjugates the single-qubit basis-B measurement of every first target by a self-inverse table gate taking
     B (x) B to +B (x) I, so that the segment measures B (x) B and restores the state; every routine named is the one the class's
     own dispatch uses for that gate type. *)
From Coq Require Import List Bool String Arith ZArith.
Import ListNotations.
Require Import Act Gen_GateTable Gen_Prepend Gen_RevMeas Gen_TabMeas AdjGen GenProofs_RevMeas MeasRec.
Local Open Scope string_scope.

Definition is_nil {A} (l : list A) : bool := match l with [] => true | _ => false end.
Definition ev4 (l : lin4) (sx sz c f : bool) : bool :=
  let '(a, b, cc, d) := l in xorb (xorb (a && sx) (b && sz)) (xorb (cc && c) (d && f)).
Definition bools4 : list (bool * bool * bool * bool) :=
  flat_map (fun a => flat_map (fun b => flat_map (fun c => map (fun d => (a, b, c, d)) [false; true]) [false; true]) [false; true]) [false; true].
Definition axis_of (b : pz) : string := match b with (true, false) => "x" | (true, true) => "y" | (false, true) => "z" | _ => "" end.
Definition sign_of (b : pz) (sx sz c : bool) : bool :=
  match b with (true, false) => sx | (false, true) => sz | (true, true) => xorb (xorb sx sz) c | _ => false end.

Definition disp (cls gate : string) : string :=
  match find (fun '(c, g, _) => String.eqb c cls && String.eqb g gate) meas_dispatch with Some (_, _, r) => r | None => "" end.
Definition older_tab_disp (gate : string) : string :=
  match find (fun '(g, _) => String.eqb g gate) tabsim_dispatch_other with Some (_, r) => r | None => "" end.
Definition older_ea_disp (gate : string) : string :=
  match find (fun '(g, _) => String.eqb g gate) ea_dispatch with Some (_, r) => r | None => "" end.
Definition forwards (r : string) : string :=
  match find (fun '(a, _) => String.eqb a r) analyzer_forwards with Some (_, b) => b | None => "" end.

(* --- single-qubit routines --- *)
Definition single_ok (gate : string) : bool :=
  let b := basis gate in
  let r := disp "tableau" gate in
  negb (String.eqb r "") && String.eqb r (older_tab_disp gate) &&
  match find (fun '(n, _, _, _, _, _) => String.eqb n r) tabmeas with
  | Some (_, ax, rec, Some nx, Some nz, noisy) =>
    String.eqb ax (axis_of b) && Bool.eqb noisy (is_meas gate) &&
    (match rec with
     | Some lr => is_meas gate && forallb (fun '(sx, sz, c, f) => Bool.eqb (ev4 lr sx sz c f) (xorb (sign_of b sx sz c) f)) bools4
     | None => negb (is_meas gate) end) &&
    (if is_reset gate
     then forallb (fun '(sx, sz, c, f) => negb (sign_of b (ev4 nx sx sz c f) (ev4 nz sx sz c f) c)) bools4
     else forallb (fun '(sx, sz, c, f) => Bool.eqb (ev4 nx sx sz c f) sx && Bool.eqb (ev4 nz sx sz c f) sz) bools4) &&
    (* the inverted-result flag never reaches the state *)
    (let '(_, _, _, fx) := nx in let '(_, _, _, fz) := nz in negb fx && negb fz)
  | _ => false
  end.

(* --- collapse wrappers --- *)
Definition self_inverse (g : string) : bool := Z.eqb (e_inv (gate_named g)) (e_id (gate_named g)) && negb (Z.eqb (e_id (gate_named g)) 0).
Definition collapse_ok (b : pz) : bool :=
  match find (fun '(ax, _, _, _, _) => String.eqb ax (axis_of b)) tabcollapse with
  | Some (_, g1, r1, g2, r2) =>
    if String.eqb g1 "" then
      (* no basis change: only right when the basis is Z *)
      String.eqb g2 "" && String.eqb r1 "" && String.eqb r2 "" && Bool.eqb (fst b) false && Bool.eqb (snd b) true
    else
      String.eqb g1 g2 && String.eqb r1 r2 && String.eqb r1 (disp "tableau" g1) && self_inverse g1 && unitary1 (gate_named g1) &&
      t1_eqb (local1 (flows_of (gate_named g1)) (fst b) (snd b) false) (false, true, false)
  | None => false
  end.

(* --- pair segments --- *)
Definition pair_basis (pg : string) : pz := if String.eqb pg "MXX" then (true, false) else if String.eqb pg "MYY" then (true, true) else (false, true).
Definition single_gate (pg : string) : string := if String.eqb pg "MXX" then "MX" else if String.eqb pg "MYY" then "MY" else "M".
Definition seg_ok (cls pg : string) : bool :=
  let b := pair_basis pg in
  let top := disp cls pg in
  match find (fun '(c, r, _) => String.eqb c cls && String.eqb r top) pairseg_of with
  | Some (_, _, segname) =>
    match find (fun '(c, n, _, _, _, _, _, _) => String.eqb c cls && String.eqb n segname) pairsegs with
    | Some (_, _, (g1, r1), (g2, r2), (ig, ir), ax, rec, cnt) =>
      negb (String.eqb top "") &&
      String.eqb g1 g2 && String.eqb r1 r2 && String.eqb r1 (disp cls g1) && self_inverse g1 && unitary2 (gate_named g1) &&
      t2_eqb (local2 (flows_of (gate_named g1)) (fst b) (snd b) (fst b) (snd b) false) (fst b, snd b, false, false, false) &&
      (if String.eqb cls "analyzer" then String.eqb (forwards r1) (disp "tracker" g1) else true) &&
      (if String.eqb cls "tableau" then
         String.eqb ig "" && String.eqb ax (axis_of b) && String.eqb cnt "inst.targets.size() / 2" &&
         match rec with
         | Some lr => forallb (fun '(sx, sz, c, f) => Bool.eqb (ev4 lr sx sz c f) (xorb (sign_of b sx sz c) f)) bools4
         | None => false end
       else
         String.eqb ig (single_gate pg) && String.eqb ax "" && String.eqb cnt "" &&
         match rec with None => true | Some _ => false end &&
         (if String.eqb cls "analyzer" then String.eqb ir (forwards (disp cls ig)) && String.eqb (disp cls ig) (older_ea_disp ig)
          else String.eqb ir (disp cls ig)) && negb (String.eqb ir ""))
    | None => false
    end
  | None => false
  end.

Definition cls_tableau : string := "tableau".
Definition classes : list string := ["tableau"; "frame"; "tracker"; "analyzer"].
Definition pair_gates : list string := ["MXX"; "MYY"; "MZZ"].
Definition tab_single_all_ok : bool := is_nil tabmeas_refused && forallb single_ok meas_gates.
Definition tab_collapse_all_ok : bool := is_nil tabmeas_refused && forallb collapse_ok [(true, false); (true, true); (false, true)].
Definition seg_class_ok (cls : string) : bool := is_nil tabmeas_refused && forallb (seg_ok cls) pair_gates.
Definition tabmeas_all_ok : bool :=
  tab_single_all_ok && tab_collapse_all_ok && forallb seg_class_ok classes.

Theorem tableau_measure_reset_routines_ok : tab_single_all_ok = true.
Proof. vm_compute. reflexivity. Qed.
Theorem tableau_collapse_wrappers_ok : tab_collapse_all_ok = true.
Proof. vm_compute. reflexivity. Qed.
Theorem tableau_pair_segments_ok : seg_class_ok "tableau" = true.
Proof. vm_compute. reflexivity. Qed.
Theorem frame_pair_segments_ok : seg_class_ok "frame" = true.
Proof. vm_compute. reflexivity. Qed.
Theorem tracker_pair_segments_ok : seg_class_ok "tracker" = true.
Proof. vm_compute. reflexivity. Qed.
Theorem analyzer_pair_segments_ok : seg_class_ok "analyzer" = true.
Proof. vm_compute. reflexivity. Qed.
Theorem tableau_measure_reset_and_pair_segments_ok : tabmeas_all_ok = true.
Proof. vm_compute. reflexivity. Qed.

(* what the boolean says, for the single-qubit routines, as a statement about every sign assignment *)
Lemma bools4_all sx sz c f : In (sx, sz, c, f) bools4.
Proof. destruct sx, sz, c, f; cbn; tauto. Qed.

Lemma single_ok_meas gate : single_ok gate = true -> is_meas gate = true ->
  exists ax lr nx nz, In (disp "tableau" gate, ax, Some lr, Some nx, Some nz, true) tabmeas /\ ax = axis_of (basis gate) /\
  forall sx sz c f, ev4 lr sx sz c f = xorb (sign_of (basis gate) sx sz c) f.
Proof.
  unfold single_ok. intros H Hm.
  apply andb_true_iff in H. destruct H as [_ H].
  destruct (find _ tabmeas) as [[[[[[n ax] rec] onx] onz] noisy]|] eqn:Hf; [|discriminate].
  destruct onx as [nx|]; [|discriminate]. destruct onz as [nz|]; [|discriminate].
  apply find_some in Hf. destruct Hf as [Hin Hn]. apply String.eqb_eq in Hn. subst n.
  rewrite Hm in H.
  apply andb_true_iff in H. destruct H as [H _].
  apply andb_true_iff in H. destruct H as [H _].
  apply andb_true_iff in H. destruct H as [H Hrec].
  apply andb_true_iff in H. destruct H as [Hax Hnoisy].
  apply String.eqb_eq in Hax. apply Bool.eqb_prop in Hnoisy. subst ax noisy.
  destruct rec as [lr|]; [|discriminate]. cbn [andb] in Hrec.
  exists (axis_of (basis gate)), lr, nx, nz. split; [exact Hin|]. split; [reflexivity|].
  intros sx sz c f. rewrite forallb_forall in Hrec.
  specialize (Hrec (sx, sz, c, f) (bools4_all sx sz c f)). cbn beta iota in Hrec. apply Bool.eqb_prop. exact Hrec.
Qed.

(* --- the measurement record: bulk (MeasureRecordBatch) and single-shot (noisify_new_measurements) ---
   The generated numbers say which row each routine touches and how; interpreted generically they are the model of MeasRec.v. *)
Section RecTie.
Variable row : Type.
Variable rxor : row -> row -> row.
Variable mask : row -> row.
Definition gen_record (spec : bool * bool * bool * nat * nat * nat) (st : list row * nat) (r : row) : list row * nat :=
  let '(isx, asg, msk, inc, _, _) := spec in
  let f := fun x => let v := if isx then rxor x r else if asg then r else x in if msk then mask v else v in
  (upd row (fst st) (snd st) f, snd st + inc).
Definition gen_reserve (spec : nat * nat * nat * nat) (s : list row) (stored : nat) (noise : list row) : list row :=
  let '(_, _, lo, hi) := spec in
  firstn (stored + lo) s ++ noise ++ skipn (stored + List.length noise + hi) s.
End RecTie.

Definition measrec_ok : bool :=
  is_nil tabmeas_refused &&
  match measrec_reserve, measrec_xor, measrec_record, tab_noisify with
  | Some (pd, pi, lo, hi), Some (xx, xa, xm, xi, xu, xr), Some (rx, ra, rm, ri, ru, rr), Some (lastoff, ai) =>
    Nat.eqb pd 0 && Nat.eqb pi 0 && Nat.eqb lo 0 && Nat.eqb hi 0 &&
    xx && negb xa && xm && Nat.eqb xi 1 && Nat.eqb xu 1 && Nat.eqb xr 0 &&
    negb rx && ra && rm && Nat.eqb ri 1 && Nat.eqb ru 1 && Nat.eqb rr 1 &&
    Nat.eqb lastoff 1 && Nat.eqb ai 0
  | _, _, _, _ => false
  end.
Theorem measurement_record_routines_ok : measrec_ok = true.
Proof. vm_compute. reflexivity. Qed.

(* the generated routines, interpreted, are MeasRec's reserve_noisy / xor_record, so MeasRec.noisy_results applies to them *)
Theorem generated_record_is_model (row : Type) (rxor : row -> row -> row) (mask : row -> row) :
  measrec_ok = true ->
  exists rs xs, measrec_reserve = Some rs /\ measrec_xor = Some xs /\
  (forall s stored noise, gen_reserve row rs s stored noise = reserve_noisy row s stored noise) /\
  (forall st r, gen_record row rxor mask xs st r = xor_record row rxor mask st r).
Proof.
  unfold measrec_ok. intros H. apply andb_true_iff in H. destruct H as [_ H].
  destruct measrec_reserve as [[[[pd pi] lo] hi]|]; [|discriminate].
  destruct measrec_xor as [[[[[[xx xa] xm] xi] xu] xr]|]; [|discriminate].
  destruct measrec_record as [[[[[[rx ra] rm] ri] ru] rr]|]; [|discriminate].
  destruct tab_noisify as [[lastoff ai]|]; [|discriminate].
  repeat (apply andb_true_iff in H; destruct H as [H ?]).
  repeat match goal with Hx : Nat.eqb _ _ = true |- _ => apply Nat.eqb_eq in Hx end. subst.
  eexists; eexists. split; [reflexivity|]. split; [reflexivity|]. split.
  - intros s stored noise. unfold gen_reserve, reserve_noisy. now rewrite !Nat.add_0_r.
  - intros [s k] r. unfold gen_record, xor_record. cbn [fst snd]. f_equal. apply Nat.add_1_r.
Qed.

(* --- Pauli-product entry points (MPP / SPP / SPP_DAG) of the four classes ---
   forward classes hand the instruction to the decomposer and execute every emitted gate through their own dispatch; backward
   classes reverse the target list first, undo every emitted gate, and give the emitted M its targets reversed again. *)
Definition prod_entry_ok (cls routine : string) : bool :=
  match find (fun '(c, r, _, _, _, _) => String.eqb c cls && String.eqb r routine) product_entries with
  | Some (_, _, dec, rev_first, cb, mrt) =>
    let fwd := String.eqb cls "tableau" || String.eqb cls "frame" in
    let is_mpp := String.eqb routine "do_MPP" || String.eqb routine "undo_MPP" in
    String.eqb dec (if is_mpp then "decompose_mpp_operation" else "decompose_spp_or_spp_dag_operation") &&
    Bool.eqb rev_first (negb fwd) &&
    (if fwd then String.eqb cb (if String.eqb cls "tableau" then "do_gate" else "safe_do_instruction") && String.eqb mrt ""
     else String.eqb cb "undo_gate" &&
          String.eqb mrt (if is_mpp then (if String.eqb cls "tracker" then disp "tracker" "M" else forwards (disp "analyzer" "M")) else ""))
  | None => false
  end.
Definition product_entries_ok : bool :=
  is_nil tabmeas_refused &&
  forallb (fun cls => forallb (prod_entry_ok cls) ["do_MPP"; "do_SPP"; "do_SPP_DAG"]) ["tableau"; "frame"] &&
  forallb (fun cls => forallb (prod_entry_ok cls) ["undo_MPP"; "undo_SPP"]) ["tracker"; "analyzer"].
Theorem product_entry_points_ok : product_entries_ok = true.
Proof. vm_compute. reflexivity. Qed.
