(* The executable specification of "what a stabilizer circuit can output", extended from Stab.v with:
   fault / sweep variables (Paulis controlled on a variable), record flips, heralds, detectors, observables and
   non-destructive probes. Signs are affine forms over variables; variables [0, base) are reserved by the
   caller (sweep bits, fault variables), collapse coins are allocated from `base` upwards.
   Gate semantics comes from the GENERATED gate table (flow_data), never from a hand-written list. *)
From Coq Require Import List Bool Arith NArith ZArith String Lia.
Import ListNotations.
Require Import Stab Act GF2 Gen_GateTable.
Local Open Scope nat_scope.

Inductive ctrl := CRec (lookback : nat) | CVar (v : N).
Definition pprod := list (nat * pz).

Inductive sinstr :=
| SU1 (gate : Z) (q : nat)
| SU2 (gate : Z) (a b : nat)
| SMeas (P : pprod) (invert : bool)
| SReset (b : basis) (q : nat)
| SMeasReset (b : basis) (q : nat) (invert : bool)
| SPauliIf (P : pprod) (c : ctrl)
| SFlipLast (v : N)
| SRecVar (v : N)
| SMpad (b : bool)
| SDetector (lookbacks : list nat)
| SObservable (idx : nat) (lookbacks : list nat) (P : pprod)
| SProbe (P : pprod)
| SSpp (P : pprod) (dag : bool).

Record sres := {
  st : state;
  recs : list form;                 (* oldest first *)
  dets : list form;
  obs : list (nat * form);          (* accumulated observable parities *)
  probes : list (option form);      (* None = the probed observable is not determined (random) *)
}.

Definition var_form (v : N) : form := (false, N.shiftl 1 v).
Definition rec_at (rs : list form) (k : nat) : form := nth (List.length rs - k) rs fzero.
Definition ctrl_form (rs : list form) (c : ctrl) : form :=
  match c with CRec k => rec_at rs k | CVar v => var_form v end.
Definition parity_form (rs : list form) (ks : list nat) : form :=
  fold_left (fun acc k => fxor acc (rec_at rs k)) ks fzero.

(* Hermitian product of single-qubit Paulis: phase exponent mod 4 and bits (as Stab.prod_bits) *)
Definition herm_of (n : nat) (P : pprod) : bool * bits :=
  let '(k, B) := prod_bits n (rev P) in (Nat.eqb k 2, B).
(* imaginary products (k odd) are not Hermitian; callers never build them from valid instructions *)
Definition herm_ok (n : nat) (P : pprod) : bool := Nat.even (fst (prod_bits n (rev P))).

Fixpoint upd_obs (idx : nat) (f : form) (l : list (nat * form)) : list (nat * form) :=
  match l with
  | [] => [(idx, f)]
  | (i, g) :: r => if Nat.eqb i idx then (i, fxor g f) :: r else (i, g) :: upd_obs idx f r
  end.

(* sign form of a determined Hermitian observable, or None when some generator anticommutes with it *)
Definition probe_form (sgn : bool) (B : bits) (s : state) : option form :=
  if existsb (is_anti B) (gens s) then None
  else if is_identity B then Some (fconst sgn)
  else Some (fst (measure sgn B s)).

(* SPP: the unitary exp(-i pi/4 (1 - P)) up to global phase, i.e. Q -> Q if Q commutes with the Hermitian product P,
   Q -> i.Q.P otherwise (SPP_DAG: -i.Q.P). For a generator g (sign, bits) anticommuting with (-1)^sg B the product
   g.B carries i^k with k odd; i.g.B is Hermitian with sign bit [(k+1) mod 4 = 2]. *)
Definition spp_gen (sg : bool) (B : bits) (dag : bool) (g : gen) : gen :=
  if anti B (snd g) then
    let k := (ph (snd g) B + (if xorb sg dag then 3 else 1)) mod 4 in
    (fflip (fst g) (Nat.eqb k 2), bxor (snd g) B)
  else g.

Definition sstep (n : nat) (i : sinstr) (r : sres) : sres :=
  let s := st r in
  match i with
  | SU1 g q =>
      let fl := flows_of (gate_id g) in
      {| st := {| gens := map (conj1 fl q) (gens s); ncoins := ncoins s |};
         recs := recs r; dets := dets r; obs := obs r; probes := probes r |}
  | SU2 g a b =>
      let fl := flows_of (gate_id g) in
      {| st := {| gens := map (conj2 fl a b) (gens s); ncoins := ncoins s |};
         recs := recs r; dets := dets r; obs := obs r; probes := probes r |}
  | SMeas P inv =>
      let '(sg, B) := herm_of n P in
      if is_identity B then
        {| st := s; recs := recs r ++ [fconst (xorb sg inv)]; dets := dets r; obs := obs r; probes := probes r |}
      else
        let '(f, s') := measure sg B s in
        {| st := s'; recs := recs r ++ [fflip f inv]; dets := dets r; obs := obs r; probes := probes r |}
  | SReset b q =>
      let '(f, s') := measure false (single n q (bpz b)) s in
      {| st := pauli_if (single n q (flip_of b)) f s'; recs := recs r; dets := dets r; obs := obs r; probes := probes r |}
  | SMeasReset b q inv =>
      let '(f, s') := measure false (single n q (bpz b)) s in
      {| st := pauli_if (single n q (flip_of b)) f s'; recs := recs r ++ [fflip f inv];
         dets := dets r; obs := obs r; probes := probes r |}
  | SPauliIf P c =>
      let '(_, B) := herm_of n P in
      {| st := pauli_if B (ctrl_form (recs r) c) s; recs := recs r; dets := dets r; obs := obs r; probes := probes r |}
  | SFlipLast v =>
      match rev (recs r) with
      | [] => r
      | last :: before =>
          {| st := s; recs := rev before ++ [fxor last (var_form v)]; dets := dets r; obs := obs r; probes := probes r |}
      end
  | SRecVar v =>
      {| st := s; recs := recs r ++ [var_form v]; dets := dets r; obs := obs r; probes := probes r |}
  | SMpad b =>
      {| st := s; recs := recs r ++ [fconst b]; dets := dets r; obs := obs r; probes := probes r |}
  | SDetector ks =>
      {| st := s; recs := recs r; dets := dets r ++ [parity_form (recs r) ks]; obs := obs r; probes := probes r |}
  | SObservable idx ks P =>
      (* Pauli targets of OBSERVABLE_INCLUDE contribute the sign form of that observable when it is determined *)
      let f0 := parity_form (recs r) ks in
      match P with
      | [] => {| st := s; recs := recs r; dets := dets r; obs := upd_obs idx f0 (obs r); probes := probes r |}
      | _ =>
          let '(sg, B) := herm_of n P in
          match probe_form sg B s with
          | Some f => {| st := s; recs := recs r; dets := dets r; obs := upd_obs idx (fxor f0 f) (obs r); probes := probes r |}
          | None =>   (* undetermined: contributes an unknown (fresh coin), the state is left alone *)
              let v := var_form (N.of_nat (ncoins s)) in
              {| st := {| gens := gens s; ncoins := S (ncoins s) |}; recs := recs r; dets := dets r;
                 obs := upd_obs idx (fxor f0 v) (obs r); probes := probes r |}
          end
      end
  | SProbe P =>
      let '(sg, B) := herm_of n P in
      {| st := s; recs := recs r; dets := dets r; obs := obs r; probes := probes r ++ [probe_form sg B s] |}
  | SSpp P dag =>
      let '(sg, B) := herm_of n P in
      {| st := {| gens := map (spp_gen sg B dag) (gens s); ncoins := ncoins s |};
         recs := recs r; dets := dets r; obs := obs r; probes := probes r |}
  end.

Definition sinit (n : nat) (base : nat) : sres :=
  {| st := {| gens := gens (init n); ncoins := base |}; recs := []; dets := []; obs := []; probes := [] |}.
Definition srun (n base : nat) (c : list sinstr) : sres := fold_left (fun r i => sstep n i r) c (sinit n base).

(* ---------- deciding consistency with the verified GF(2) solver ---------- *)
Definition vec_of (m : nat) (mask : N) : vec := map (fun k => N.testbit mask (N.of_nat k)) (seq 0 m).
Definition eqn_of (m : nat) (fb : form * bool) : eqn := (vec_of m (snd (fst fb)), xorb (fst (fst fb)) (snd fb)).
(* is there an assignment of the m variables making every form take its bit? *)
Definition consistent (m : nat) (eqs : list (form * bool)) : bool := solvable (map (eqn_of m) eqs).

Definition check_record_ext (n base : nat) (c : list sinstr) (pins : list (N * bool)) (r : list bool) : bool :=
  let res := srun n base c in
  let m := ncoins (st res) in
  Nat.eqb (List.length (recs res)) (List.length r) &&
  consistent m (map (fun p => (var_form (fst p), snd p)) pins ++ combine (recs res) r).

(* affine dependence of a form on the coin variables [base, m): its restriction to the coins *)
Definition coin_part (base : nat) (f : form) : N := N.shiftr (snd f) (N.of_nat base).
Definition deterministic_form (base : nat) (f : form) : bool := N.eqb (coin_part base f) 0.
