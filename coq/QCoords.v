(* Final qubit coordinates with loops (Circuit::get_final_qubit_coords, circuit.cc get_final_qubit_coords_helper):
   the implementation runs a REPEAT body ONCE, measures the coordinate shift it gained, and fast-forwards the coordinates
   written inside the body and the shift by (repetitions - 1) gains.  [ffc] is that algorithm, [exec] executes the unrolled
   program; [ffc_is_unrolled]: they agree for every program, every nesting, every repetition count >= 1.
   Coordinates are integers here (the correspondence check uses integer-valued doubles); the shift vector is a total function
   (zero padded), which abstracts the implementation's explicit padding; the implementation's test "shift changed?" only skips
   an update that would add zero. *)
From Coq Require Import List ZArith NArith Arith Lia Bool.
Import ListNotations.
Local Open Scope Z_scope.

Definition vec := nat -> Z.
Definition vzero : vec := fun _ => 0.
Definition vadd (a b : vec) : vec := fun k => a k + b k.
Definition vsub (a b : vec) : vec := fun k => a k - b k.
Definition vscale (n : Z) (a : vec) : vec := fun k => n * a k.
Definition of_list (l : list Z) : vec := fun k => nth k l 0.
Definition cmap := nat -> option (list Z).
Definition cempty : cmap := fun _ => None.
Definition write (m : cmap) (q : nat) (v : list Z) : cmap := fun k => if Nat.eqb k q then Some v else m k.
Definition override (m new : cmap) : cmap := fun q => match new q with Some v => Some v | None => m q end.
Fixpoint lshift_from (i : nat) (v : list Z) (g : vec) : list Z :=
  match v with [] => [] | a :: r => (a + g i) :: lshift_from (S i) r g end.
Definition lshift (v : list Z) (g : vec) : list Z := lshift_from 0 v g.
Definition write_all (m : cmap) (qs : list nat) (v : list Z) : cmap := fold_left (fun m q => write m q v) qs m.

(* Rep n body repeats body n + 1 times: REPEAT 0 is not a valid instruction; n is binary so that 2^60 repetitions are a value *)
Inductive cmd := Shift (d : list Z) | QC (args : list Z) (qs : list nat) | Rep (n : N) (body : list cmd).
Definition state := (vec * cmap)%type.

Fixpoint exec (c : cmd) (st : state) {struct c} : state :=
  match c with
  | Shift d => (vadd (fst st) (of_list d), snd st)
  | QC args qs => (fst st, write_all (snd st) qs (lshift args (fst st)))
  | Rep n body =>
      N.iter (N.succ n) ((fix run (l : list cmd) (s : state) {struct l} : state :=
                         match l with [] => s | x :: r => run r (exec x s) end) body) st
  end.
Fixpoint execl (l : list cmd) (s : state) : state := match l with [] => s | x :: r => execl r (exec x s) end.
Lemma exec_Rep n body st : exec (Rep n body) st = N.iter (N.succ n) (execl body) st.
Proof. reflexivity. Qed.

(* the implementation: one pass over the body with a fresh map, then fast-forward *)
Fixpoint ffc (c : cmd) (st : state) {struct c} : state :=
  match c with
  | Shift d => (vadd (fst st) (of_list d), snd st)
  | QC args qs => (fst st, write_all (snd st) qs (lshift args (fst st)))
  | Rep n body =>
      let r := (fix run (l : list cmd) (s : state) {struct l} : state :=
                  match l with [] => s | x :: r => run r (ffc x s) end) body (fst st, cempty) in
      let gain := vsub (fst r) (fst st) in
      let reps1 := Z.of_N n in
      (vadd (fst r) (vscale reps1 gain),
       override (snd st) (fun q => option_map (fun v => lshift v (vscale reps1 gain)) (snd r q)))
  end.
Fixpoint ffl (l : list cmd) (s : state) : state := match l with [] => s | x :: r => ffl r (ffc x s) end.
Lemma ffc_Rep n body st : ffc (Rep n body) st =
  let r := ffl body (fst st, cempty) in
  let gain := vsub (fst r) (fst st) in
  (vadd (fst r) (vscale (Z.of_N n) gain),
   override (snd st) (fun q => option_map (fun v => lshift v (vscale (Z.of_N n) gain)) (snd r q))).
Proof. reflexivity. Qed.

(* ---------- closed form: gain and writes ---------- *)
Fixpoint delta (c : cmd) : vec :=
  match c with
  | Shift d => of_list d
  | QC _ _ => vzero
  | Rep n body => vscale (Z.of_N (N.succ n)) ((fix dl (l : list cmd) : vec := match l with [] => vzero | x :: r => vadd (delta x) (dl r) end) body)
  end.
Fixpoint deltal (l : list cmd) : vec := match l with [] => vzero | x :: r => vadd (delta x) (deltal r) end.
Lemma delta_Rep n body : delta (Rep n body) = vscale (Z.of_N (N.succ n)) (deltal body).
Proof. reflexivity. Qed.

Fixpoint writes (c : cmd) (s : vec) : cmap :=
  match c with
  | Shift _ => cempty
  | QC args qs => write_all cempty qs (lshift args s)
  | Rep n body =>
      (fix wl (l : list cmd) (s : vec) : cmap :=
         match l with [] => cempty | x :: r => override (writes x s) (wl r (vadd s (delta x))) end)
        body (vadd s (vscale (Z.of_N n) ((fix dl (l : list cmd) : vec := match l with [] => vzero | x :: r => vadd (delta x) (dl r) end) body)))
  end.
Fixpoint writesl (l : list cmd) (s : vec) : cmap :=
  match l with [] => cempty | x :: r => override (writes x s) (writesl r (vadd s (delta x))) end.
Lemma writes_Rep n body s : writes (Rep n body) s = writesl body (vadd s (vscale (Z.of_N n) (deltal body))).
Proof. reflexivity. Qed.

(* ---------- pointwise equality ---------- *)
Definition veq (a b : vec) : Prop := forall k, a k = b k.
Definition meq (a b : cmap) : Prop := forall q, a q = b q.
Definition steq (a b : state) : Prop := veq (fst a) (fst b) /\ meq (snd a) (snd b).
Lemma steq_refl a : steq a a. Proof. split; intro; reflexivity. Qed.
Lemma steq_trans a b c : steq a b -> steq b c -> steq a c.
Proof. intros [H1 H2] [H3 H4]. split; intro k; [rewrite H1; apply H3 | rewrite H2; apply H4]. Qed.
Lemma steq_sym a b : steq a b -> steq b a.
Proof. intros [H1 H2]. split; intro k; symmetry; [apply H1 | apply H2]. Qed.

Lemma lshift_from_ext i v g g' : veq g g' -> lshift_from i v g = lshift_from i v g'.
Proof. intros H. revert i; induction v as [|a r IH]; intros i; cbn; [reflexivity|]. rewrite H, IH. reflexivity. Qed.
Lemma lshift_ext v g g' : veq g g' -> lshift v g = lshift v g'.
Proof. apply lshift_from_ext. Qed.
Lemma write_all_ext m m' qs v : meq m m' -> meq (write_all m qs v) (write_all m' qs v).
Proof. revert m m'; induction qs as [|q qs IH]; intros m m' H; cbn; [exact H|]. apply IH. intros k. unfold write. destruct (Nat.eqb k q); [reflexivity|apply H]. Qed.

(* induction principle with access to the body *)
Section CmdInd.
  Variable P : cmd -> Prop.
  Hypothesis HS : forall d, P (Shift d).
  Hypothesis HQ : forall a qs, P (QC a qs).
  Hypothesis HR : forall n body, Forall P body -> P (Rep n body).
  Fixpoint cmd_ind' (c : cmd) : P c :=
    match c with
    | Shift d => HS d
    | QC a qs => HQ a qs
    | Rep n body => HR n body ((fix go (l : list cmd) : Forall P l :=
                                  match l with [] => Forall_nil P | x :: r => Forall_cons x (cmd_ind' x) (go r) end) body)
    end.
End CmdInd.

(* write_all as an override *)
Lemma write_all_spec qs v : forall m k, write_all m qs v k = if existsb (Nat.eqb k) qs then Some v else m k.
Proof.
  induction qs as [|q qs IH]; intros m k; [reflexivity|].
  change (write_all m (q :: qs) v) with (write_all (write m q v) qs v). rewrite IH. cbn [existsb]. unfold write.
  destruct (existsb (Nat.eqb k) qs); [rewrite orb_true_r; reflexivity|]. rewrite orb_false_r. destruct (Nat.eqb k q); reflexivity.
Qed.
Lemma write_all_override m qs v : meq (write_all m qs v) (override m (write_all cempty qs v)).
Proof. intros k. unfold override. rewrite !write_all_spec. unfold cempty. destruct (existsb (Nat.eqb k) qs); reflexivity. Qed.
Lemma override_assoc a b c : meq (override (override a b) c) (override a (override b c)).
Proof. intros q. unfold override. destruct (c q); reflexivity. Qed.
Lemma override_ext a a' b b' : meq a a' -> meq b b' -> meq (override a b) (override a' b').
Proof. intros H1 H2 q. unfold override. rewrite H2. destruct (b' q); [reflexivity|apply H1]. Qed.
Lemma override_empty_r a : meq (override a cempty) a. Proof. intros q. reflexivity. Qed.
Lemma override_empty_l a : meq (override cempty a) a. Proof. intros q. unfold override, cempty. destruct (a q); reflexivity. Qed.

Lemma vadd_assoc a b c : veq (vadd (vadd a b) c) (vadd a (vadd b c)). Proof. intros k. unfold vadd. lia. Qed.
Lemma vadd_zero_r a : veq (vadd a vzero) a. Proof. intros k. unfold vadd, vzero. lia. Qed.

(* writes respects pointwise equality of the shift *)
Lemma writes_ext c : forall s s', veq s s' -> meq (writes c s) (writes c s').
Proof.
  induction c as [d|a qs|n body IH] using cmd_ind'; intros s s' H.
  - intros q. reflexivity.
  - cbn [writes]. rewrite (lshift_ext a s s' H). intros q. reflexivity.
  - rewrite !writes_Rep.
    assert (G : forall l, Forall (fun c => forall s s', veq s s' -> meq (writes c s) (writes c s')) l ->
                forall s s', veq s s' -> meq (writesl l s) (writesl l s')).
    { induction l as [|x r IHl]; intros Hl t t' Ht; cbn [writesl]; [intros q; reflexivity|].
      inversion Hl as [|? ? Hx Hr]; subst. apply override_ext; [apply Hx, Ht|].
      apply IHl; [exact Hr|]. intros k. unfold vadd. rewrite Ht. reflexivity. }
    apply G; [exact IH|]. intros k. unfold vadd. rewrite H. reflexivity.
Qed.
Lemma writesl_ext l s s' : veq s s' -> meq (writesl l s) (writesl l s').
Proof.
  revert s s'. induction l as [|x r IH]; intros s s' H; cbn [writesl]; [intros q; reflexivity|].
  apply override_ext; [apply writes_ext, H|]. apply IH. intros k. unfold vadd. rewrite H. reflexivity.
Qed.

(* covariance: starting t later shifts every written coordinate by t *)
Definition mshift (m : cmap) (t : vec) : cmap := fun q => option_map (fun v => lshift v t) (m q).
Lemma lshift_from_add i v s t : lshift_from i v (vadd s t) = lshift_from i (lshift_from i v s) t.
Proof. revert i; induction v as [|a r IH]; intros i; cbn; [reflexivity|]. rewrite IH. unfold vadd. f_equal. lia. Qed.
Lemma mshift_write_all qs v t : meq (mshift (write_all cempty qs v) t) (write_all cempty qs (lshift v t)).
Proof.
  assert (G : forall m m', meq (mshift m t) m' -> meq (mshift (write_all m qs v) t) (write_all m' qs (lshift v t))).
  { induction qs as [|q qs IH]; intros m m' H; cbn [write_all fold_left]; [exact H|].
    apply IH. intros k. unfold mshift, write. destruct (Nat.eqb k q); [reflexivity|]. apply H. }
  apply G. intros k. reflexivity.
Qed.
Lemma mshift_override a b t : meq (mshift (override a b) t) (override (mshift a t) (mshift b t)).
Proof. intros q. unfold mshift, override. destruct (b q); reflexivity. Qed.
Lemma mshift_ext a a' t t' : meq a a' -> veq t t' -> meq (mshift a t) (mshift a' t').
Proof. intros H1 H2 q. unfold mshift. rewrite H1. destruct (a' q); [cbn; rewrite (lshift_ext l t t' H2); reflexivity|reflexivity]. Qed.

Lemma writes_cov c : forall s t, meq (writes c (vadd s t)) (mshift (writes c s) t).
Proof.
  induction c as [d|a qs|n body IH] using cmd_ind'; intros s t.
  - intros q. reflexivity.
  - cbn [writes]. intros q. rewrite mshift_write_all. unfold lshift. rewrite lshift_from_add. reflexivity.
  - rewrite !writes_Rep.
    assert (G : forall l, Forall (fun c => forall s t, meq (writes c (vadd s t)) (mshift (writes c s) t)) l ->
                forall s t, meq (writesl l (vadd s t)) (mshift (writesl l s) t)).
    { induction l as [|x r IHl]; intros Hl u w; cbn [writesl]; [intros q; reflexivity|].
      inversion Hl as [|? ? Hx Hr]; subst. intros q. rewrite mshift_override.
      apply override_ext; [apply Hx|].
      intros q'. rewrite <- (IHl Hr (vadd u (delta x)) w q').
      apply writesl_ext. intros k. unfold vadd. lia. }
    intros q. rewrite <- (G body IH _ t q). apply writesl_ext. intros k. unfold vadd. lia.
Qed.
Lemma writesl_cov l s t : meq (writesl l (vadd s t)) (mshift (writesl l s) t).
Proof.
  revert s t. induction l as [|x r IH]; intros s t; cbn [writesl]; [intros q; reflexivity|].
  intros q. rewrite mshift_override. apply override_ext; [apply writes_cov|].
  intros q'. rewrite <- (IH (vadd s (delta x)) t q'). apply writesl_ext. intros k. unfold vadd. lia.
Qed.

(* same domain every iteration: a later iteration overrides an earlier one completely *)
Lemma override_same_dom a t : meq (override a (mshift a t)) (mshift a t).
Proof. intros q. unfold override, mshift. destruct (a q); reflexivity. Qed.

(* ---------- exec = closed form ---------- *)
Definition closed (c : cmd) (st : state) : state := (vadd (fst st) (delta c), override (snd st) (writes c (fst st))).
Definition closedl (l : list cmd) (st : state) : state := (vadd (fst st) (deltal l), override (snd st) (writesl l (fst st))).

Lemma closed_ext c st st' : steq st st' -> steq (closed c st) (closed c st').
Proof. intros [H1 H2]. split; cbn.
  - intros k. unfold vadd. rewrite H1. reflexivity.
  - apply override_ext; [exact H2| apply writes_ext, H1].
Qed.
Lemma closedl_ext l st st' : steq st st' -> steq (closedl l st) (closedl l st').
Proof. intros [H1 H2]. split; cbn.
  - intros k. unfold vadd. rewrite H1. reflexivity.
  - apply override_ext; [exact H2| apply writesl_ext, H1].
Qed.
(* running a list through per-command closed forms gives the list closed form *)
Lemma closedl_cons x r st : steq (closedl r (closed x st)) (closedl (x :: r) st).
Proof. split; cbn.
  - intros k. unfold vadd. lia.
  - intros q. rewrite override_assoc. reflexivity.
Qed.

Section Generic.
  (* any interpreter that agrees with the closed form on every command of a list agrees on the list *)
  Variable step : cmd -> state -> state.
  Hypothesis step_ext : forall c st st', steq st st' -> steq (step c st) (step c st').
  Fixpoint stepl (l : list cmd) (s : state) : state := match l with [] => s | x :: r => stepl r (step x s) end.
  Lemma stepl_ext l : forall s s', steq s s' -> steq (stepl l s) (stepl l s').
  Proof. induction l as [|y r IHr]; intros s s' H; cbn [stepl]; [exact H|]. apply IHr, step_ext, H. Qed.
  Lemma stepl_closed l : Forall (fun c => forall st, steq (step c st) (closed c st)) l ->
    forall st, steq (stepl l st) (closedl l st).
  Proof.
    induction l as [|x r IH]; intros Hl st; cbn [stepl].
    - split; cbn; [intros k; unfold vadd, vzero; lia| intros q; reflexivity].
    - inversion Hl as [|? ? Hx Hr]; subst.
      eapply steq_trans; [|apply closedl_cons].
      eapply steq_trans; [apply stepl_ext, Hx|]. apply IH, Hr.
  Qed.
End Generic.

Lemma execl_is_stepl l s : execl l s = stepl exec l s.
Proof. revert s; induction l as [|x r IH]; intros s; cbn; [reflexivity|apply IH]. Qed.
Lemma ffl_is_stepl l s : ffl l s = stepl ffc l s.
Proof. revert s; induction l as [|x r IH]; intros s; cbn; [reflexivity|apply IH]. Qed.

Lemma exec_ext c : forall st st', steq st st' -> steq (exec c st) (exec c st').
Proof.
  induction c as [d|a qs|n body IH] using cmd_ind'; intros st st' [H1 H2].
  - split; cbn; [intros k; unfold vadd; rewrite H1; reflexivity| exact H2].
  - split; cbn; [exact H1|]. rewrite (lshift_ext a _ _ H1). apply write_all_ext, H2.
  - rewrite !exec_Rep.
    assert (E : forall s s', steq s s' -> steq (execl body s) (execl body s')).
    { clear - IH. induction body as [|y r IHr]; intros s s' H; cbn [execl]; [exact H|].
      inversion IH as [|? ? Hy Hr]; subst. apply IHr; [exact Hr| apply Hy, H]. }
    generalize (N.succ n) as m. induction m as [|m IHm] using N.peano_ind; [cbn; split; assumption|]. rewrite !N.iter_succ. apply E, IHm.
Qed.

Lemma iter_closed body (m : N) :
  (forall st, steq (execl body st) (closedl body st)) ->
  (forall s s', steq s s' -> steq (execl body s) (execl body s')) ->
  forall st, steq (N.iter (N.succ m) (execl body) st)
                  (vadd (fst st) (vscale (Z.of_N (N.succ m)) (deltal body)),
                   override (snd st) (writesl body (vadd (fst st) (vscale (Z.of_N m) (deltal body))))).
Proof.
  intros Hc He. induction m as [|m IHm] using N.peano_ind; intros st.
  - cbn [N.succ N.iter Pos.iter]. eapply steq_trans; [apply Hc|]. split; cbn.
    + intros k. unfold vadd, vscale. lia.
    + apply override_ext; [intros q; reflexivity|]. apply writesl_ext. intros k. unfold vadd, vscale. cbn. lia.
  - rewrite N.iter_succ.
    eapply steq_trans; [apply He, IHm|]. eapply steq_trans; [apply Hc|]. split; cbn [fst snd closedl].
    + intros k. unfold vadd, vscale. rewrite !N2Z.inj_succ. lia.
    + intros q. rewrite override_assoc. apply override_ext; [intros q'; reflexivity|].
      set (s0 := fst st). set (d := deltal body).
      assert (W2 : meq (writesl body (vadd (vadd s0 (vscale (Z.of_N (N.succ m)) d)) vzero))
                       (mshift (writesl body (vadd s0 (vscale (Z.of_N m) d))) d)).
      { intros q'. rewrite <- (writesl_cov body (vadd s0 (vscale (Z.of_N m) d)) d q'). apply writesl_ext.
        intros k. unfold vadd, vscale, vzero. rewrite N2Z.inj_succ. lia. }
      intros q'. unfold override.
      rewrite (writesl_ext body (vadd s0 (vscale (Z.of_N (N.succ m)) d)) (vadd (vadd s0 (vscale (Z.of_N (N.succ m)) d)) vzero)) by (intros k; unfold vadd, vzero; lia).
      rewrite (W2 q'). unfold mshift. destruct (writesl body (vadd s0 (vscale (Z.of_N m) d)) q'); reflexivity.
Qed.

Theorem exec_closed c : forall st, steq (exec c st) (closed c st).
Proof.
  induction c as [d|a qs|n body IH] using cmd_ind'; intros st.
  - split; cbn; [intros k; reflexivity| intros q; reflexivity].
  - split; cbn; [intros k; unfold vadd, vzero; lia|]. apply write_all_override.
  - rewrite exec_Rep.
    assert (Hc : forall s, steq (execl body s) (closedl body s)).
    { intros s. rewrite execl_is_stepl. apply (stepl_closed exec exec_ext); exact IH. }
    assert (He : forall s s', steq s s' -> steq (execl body s) (execl body s')).
    { intros s s' H. rewrite !execl_is_stepl.
      clear - H. revert s s' H. induction body as [|y r IHr]; intros s s' H; cbn [stepl]; [exact H|]. apply IHr, exec_ext, H. }
    eapply steq_trans; [apply (iter_closed body n Hc He)|].
    unfold closed. rewrite delta_Rep, writes_Rep. apply steq_refl.
Qed.

Lemma ffc_ext c : forall st st', steq st st' -> steq (ffc c st) (ffc c st').
Proof.
  induction c as [d|a qs|n body IH] using cmd_ind'; intros st st' [H1 H2].
  - split; cbn; [intros k; unfold vadd; rewrite H1; reflexivity| exact H2].
  - split; cbn; [exact H1|]. rewrite (lshift_ext a _ _ H1). apply write_all_ext, H2.
  - rewrite !ffc_Rep. cbv zeta.
    assert (E : forall s s', steq s s' -> steq (ffl body s) (ffl body s')).
    { clear - IH. induction body as [|y r IHr]; intros s s' H; cbn [ffl]; [exact H|].
      inversion IH as [|? ? Hy Hr]; subst. apply IHr; [exact Hr| apply Hy, H]. }
    destruct (E (fst st, cempty) (fst st', cempty)) as [R1 R2]; [split; [exact H1| intros q; reflexivity]|].
    split; cbn [fst snd].
    + intros k. unfold vadd, vscale, vsub. rewrite R1, H1. reflexivity.
    + apply override_ext; [exact H2|]. intros q. rewrite R2.
      destruct (snd (ffl body (fst st', cempty)) q); [cbn|reflexivity].
      f_equal. apply lshift_ext. intros k. unfold vscale, vsub. rewrite R1, H1. reflexivity.
Qed.

Theorem ffc_closed c : forall st, steq (ffc c st) (closed c st).
Proof.
  induction c as [d|a qs|n body IH] using cmd_ind'; intros st.
  - split; cbn; [intros k; reflexivity| intros q; reflexivity].
  - split; cbn; [intros k; unfold vadd, vzero; lia|]. apply write_all_override.
  - rewrite ffc_Rep. cbv zeta.
    assert (Hc : steq (ffl body (fst st, cempty)) (closedl body (fst st, cempty))).
    { rewrite ffl_is_stepl. apply (stepl_closed ffc ffc_ext); exact IH. }
    destruct Hc as [R1 R2]. cbn [fst snd closedl] in R1, R2.
    unfold closed. rewrite delta_Rep, writes_Rep. split; cbn [fst snd].
    + intros k. unfold vadd, vscale, vsub. rewrite R1. unfold vadd. rewrite N2Z.inj_succ. lia.
    + apply override_ext; [intros q; reflexivity|].
      intros q. rewrite R2. rewrite (override_empty_l (writesl body (fst st)) q).
      rewrite (writesl_cov body (fst st) (vscale (Z.of_N n) (deltal body)) q). unfold mshift.
      destruct (writesl body (fst st) q); [cbn|reflexivity]. f_equal. apply lshift_ext.
      intros k. unfold vscale, vsub. rewrite R1. unfold vadd. lia.
Qed.

(* the fast-forwarding algorithm gives the unrolled program's final shift and final qubit coordinates *)
Theorem ffc_is_unrolled c st : steq (ffc c st) (exec c st).
Proof. eapply steq_trans; [apply ffc_closed| apply steq_sym, exec_closed]. Qed.
Theorem ffl_is_unrolled l st : steq (ffl l st) (execl l st).
Proof.
  revert st. induction l as [|x r IH]; intros st; cbn [ffl execl]; [apply steq_refl|].
  eapply steq_trans; [apply IH|].
  rewrite !execl_is_stepl.
  assert (E : forall s s', steq s s' -> steq (stepl exec r s) (stepl exec r s')).
  { clear. induction r as [|y r IHr]; intros s s' H; cbn [stepl]; [exact H|]. apply IHr, exec_ext, H. }
  apply E, ffc_is_unrolled.
Qed.

(* non-vacuity: REPEAT 3 { QUBIT_COORDS(1) 0 ; SHIFT_COORDS(2) } after SHIFT_COORDS(10): qubit 0 ends at 1 + 10 + 2*2 = 15 *)
Example ff_example :
  snd (ffl [Shift [10]; Rep 2%N [QC [1] [0%nat]; Shift [2]]] (vzero, cempty)) 0%nat = Some [15] /\
  fst (ffl [Shift [10]; Rep 2%N [QC [1] [0%nat]; Shift [2]]] (vzero, cempty)) 0%nat = 16.
Proof. vm_compute. split; reflexivity. Qed.
