(* The detector collection of Graph::add_edges_from_targets_with_no_separators (graphlike search, C17): targets are read left to
   right; a detector already held cancels against its earlier occurrence (the slot is overwritten by the last held detector and the
   last slot dropped), otherwise it is appended. Theorem: whatever the order and number of repetitions, the detectors held at the
   end are exactly those listed an odd number of times, each once - the symptom of the error component - so "graphlike" (at most
   two held detectors) is a property of the symptom, not of how the component is written (defect D28 tested the capacity while
   duplicates were still pending). *)
From Coq Require Import List Bool Arith Lia.
Import ListNotations.

Definition memb (d : nat) (l : list nat) : bool := existsb (Nat.eqb d) l.
(* overwrite the slot holding d with the last element, drop the last slot *)
Fixpoint swap_remove (d : nat) (l : list nat) : list nat :=
  match l with
  | [] => []
  | x :: r => if Nat.eqb x d then match r with [] => [] | _ => last r x :: removelast r end else x :: swap_remove d r
  end.
Definition step (acc : list nat) (d : nat) : list nat := if memb d acc then swap_remove d acc else acc ++ [d].
Definition collect (ts : list nat) : list nat := fold_left step ts [].

Lemma memb_In d l : memb d l = true <-> In d l.
Proof. unfold memb. rewrite existsb_exists. split; [intros [x [H E]]; apply Nat.eqb_eq in E; now subst| intros H; exists d; split; [exact H|apply Nat.eqb_refl]]. Qed.

Lemma last_removelast_perm (r : list nat) x y : r <> [] -> (In y (last r x :: removelast r) <-> In y r).
Proof.
  intros H. rewrite (app_removelast_last x H) at 3. rewrite in_app_iff. cbn [In]. tauto.
Qed.
Lemma NoDup_last_removelast (r : list nat) x : r <> [] -> NoDup r -> NoDup (last r x :: removelast r).
Proof.
  intros H Hn. rewrite (app_removelast_last x H) in Hn. apply NoDup_remove in Hn. rewrite app_nil_r in Hn. destruct Hn as [Hn Hi].
  constructor; [exact Hi| exact Hn].
Qed.

Lemma swap_remove_spec d l : NoDup l -> In d l ->
  NoDup (swap_remove d l) /\ forall y, In y (swap_remove d l) <-> (In y l /\ y <> d).
Proof.
  induction l as [|x r IH]; intros Hn Hd; [contradiction|]. inversion Hn as [|? ? Hx Hr]; subst. cbn [swap_remove].
  destruct (Nat.eqb_spec x d) as [->|Hxd].
  - destruct r as [|z r']; [split; [constructor| intros y; cbn; split; [contradiction| intros [[->|[]] H]; contradiction]]|].
    assert (Hne : z :: r' <> []) by discriminate. split; [now apply NoDup_last_removelast|].
    intros y. rewrite (last_removelast_perm (z :: r') d y Hne). cbn [In]. split.
    + intros H. split; [right; exact H|]. intros ->. apply Hx. exact H.
    + intros [[->|H] Hy]; [contradiction|exact H].
  - destruct Hd as [->|Hd]; [contradiction|]. destruct (IH Hr Hd) as [IHn IHi]. split.
    + constructor; [|exact IHn]. intros H. apply IHi in H. apply Hx, H.
    + intros y. cbn [In]. rewrite IHi. split; [intros [->|[H1 H2]]; [split; [now left|exact Hxd]| split; [now right|exact H2]]|].
      intros [[->|H] Hy]; [now left| right; split; assumption].
Qed.

Lemma NoDup_snoc (l : list nat) x : NoDup l -> ~ In x l -> NoDup (l ++ [x]).
Proof. induction l as [|y l IH]; cbn; intros Hn Hx; [constructor; [intros []|constructor]|]. inversion Hn; subst. constructor.
  - rewrite in_app_iff. cbn. intros [H|[H|[]]]; [contradiction| subst; apply Hx; now left].
  - apply IH; [assumption| intros H; apply Hx; now right]. Qed.

Definition odd_in (ts : list nat) (d : nat) : bool := Nat.odd (count_occ Nat.eq_dec ts d).

Lemma count_occ_app_single ts d x : count_occ Nat.eq_dec (ts ++ [x]) d = count_occ Nat.eq_dec ts d + (if Nat.eq_dec x d then 1 else 0).
Proof. rewrite count_occ_app. cbn. destruct (Nat.eq_dec x d); lia. Qed.

Theorem collect_gen ts : forall seen acc, NoDup acc -> (forall d, In d acc <-> odd_in seen d = true) ->
  NoDup (fold_left step ts acc) /\ forall d, In d (fold_left step ts acc) <-> odd_in (seen ++ ts) d = true.
Proof.
  induction ts as [|x ts IH]; intros seen acc Hn Hi; cbn [fold_left].
  - rewrite app_nil_r. split; assumption.
  - replace (seen ++ x :: ts) with ((seen ++ [x]) ++ ts) by now rewrite <- app_assoc.
    apply IH; unfold step; destruct (memb x acc) eqn:E.
    + apply memb_In in E. apply (swap_remove_spec x acc Hn E).
    + apply NoDup_snoc; [exact Hn|]. intros H. apply memb_In in H. congruence.
    + apply memb_In in E. intros d. rewrite (proj2 (swap_remove_spec x acc Hn E) d), Hi. unfold odd_in.
      rewrite count_occ_app_single. destruct (Nat.eq_dec x d) as [->|Hxd].
      * apply Hi in E. unfold odd_in in E. rewrite Nat.add_1_r, Nat.odd_succ, <- Nat.negb_odd, E. cbn. split; [intros [_ H]; contradiction| discriminate].
      * rewrite Nat.add_0_r. split; [tauto| intros H; split; [exact H| congruence]].
    + assert (E' : ~ In x acc) by (intros H; apply memb_In in H; congruence).
      intros d. rewrite in_app_iff, Hi. cbn [In]. unfold odd_in. rewrite count_occ_app_single. destruct (Nat.eq_dec x d) as [->|Hxd].
      * assert (Ho : Nat.odd (count_occ Nat.eq_dec seen d) = false) by (apply not_true_is_false; intros H; apply E', Hi, H).
        rewrite Nat.add_1_r, Nat.odd_succ, <- Nat.negb_odd, Ho. cbn. tauto.
      * rewrite Nat.add_0_r. split; [intros [H|[H|[]]]; [exact H|contradiction]| tauto].
Qed.

Theorem collect_is_symptom ts : NoDup (collect ts) /\ forall d, In d (collect ts) <-> odd_in ts d = true.
Proof.
  unfold collect. apply (collect_gen ts [] []); [constructor|]. intros d. cbn. split; [contradiction| discriminate].
Qed.
(* two ways of writing the same symptom are collected to the same set, hence are graphlike or not together *)
Corollary graphlike_depends_on_symptom_only ts ts' : (forall d, odd_in ts d = odd_in ts' d) ->
  forall d, In d (collect ts) <-> In d (collect ts').
Proof. intros H d. rewrite (proj2 (collect_is_symptom ts) d), (proj2 (collect_is_symptom ts') d), H. reflexivity. Qed.
Example collect_example : collect [3; 2; 1; 2; 3] = [1] /\ collect [0; 1; 0] = [1] /\ collect [4; 2; 0; 2] = [4; 0].
Proof. vm_compute. repeat split. Qed.
Print Assumptions collect_is_symptom.
