(* Obligations over the GENERATED decoding of perform_pauli_errors_via_correlated_errors (used by both simulators for
   PAULI_CHANNEL_1 and PAULI_CHANNEL_2): argument number pauli - 1 is applied as the Pauli product whose symbol for target number q
   (0 = first target) is the q-th base-4 digit of pauli from the left, in the documented order I X Y Z. The conditional
   probability expression is checked to be the one of Chain.cond (Chain.chain_is_disjoint: outcome k then fires with exactly p_k). *)
From Coq Require Import List Bool String NArith Arith.
Import ListNotations.
Require Import Gen_PauliChan.
Local Open Scope N_scope.

Definition digit (Q q pauli : N) : N := N.land (N.shiftr pauli (2 * (Q - q - 1))) 3.
(* documented symbol -> (X component, Z component) *)
Definition want (d : N) : bool * bool := if N.eqb d 1 then (true, false) else if N.eqb d 2 then (true, true) else if N.eqb d 3 then (false, true) else (false, false).
Definition got (Q q pauli : N) : bool * bool :=
  let z := pc_z Q q pauli in let y := pc_y Q q pauli in (pc_xbit z y, pc_zbit z y).
Definition pair_eqb (a b : bool * bool) : bool := Bool.eqb (fst a) (fst b) && Bool.eqb (snd a) (snd b).
Fixpoint upto (n : nat) : list N := match n with O => [] | S m => upto m ++ [N.of_nat n] end.
Definition decode_ok (Q : N) (count : nat) : bool :=
  forallb (fun pauli => forallb (fun q => pair_eqb (got Q q pauli) (want (digit Q q pauli))) (if N.eqb Q 1 then [0] else [0; 1])) (upto count).
Definition is_nil {A} (l : list A) : bool := match l with [] => true | _ => false end.
Definition has_wrapper (cls name : string) (n : N) : bool :=
  existsb (fun '(c, r, k) => String.eqb c cls && String.eqb r name && N.eqb k n) paulichan_wrappers.
Definition wrappers_ok : bool :=
  has_wrapper "FrameSimulator" "do_PAULI_CHANNEL_1" 1 && has_wrapper "FrameSimulator" "do_PAULI_CHANNEL_2" 2 &&
  has_wrapper "TableauSimulator" "do_PAULI_CHANNEL_1" 1 && has_wrapper "TableauSimulator" "do_PAULI_CHANNEL_2" 2.
Definition paulichan_all_ok : bool := is_nil paulichan_refused && decode_ok 1 3 && decode_ok 2 15 && wrappers_ok.
Theorem pauli_channel_arguments_are_decoded_as_documented : paulichan_all_ok = true.
Proof. vm_compute. reflexivity. Qed.
