From Coq Require Import List Arith Lia Bool.
Import ListNotations.
(* bytes as nat < 256; EOF is represented by the end of the list *)
Definition LF := 10. Definition CR := 13. Definition BSL := 92. Definition RBR := 93. Definition LBR := 91.
Definition cn := 110. Definition cr := 114. Definition cB := 66. Definition cC := 67.

(* write_tag_escaped_string_to *)
Fixpoint esc (tag : list nat) : list nat :=
  match tag with
  | [] => []
  | c :: r => (if c =? LF then [BSL; cn] else if c =? CR then [BSL; cr] else if c =? BSL then [BSL; cB]
               else if c =? RBR then [BSL; cC] else [c]) ++ esc r
  end.

(* read_tag after the opening '[' has been consumed, with the EOF check that fix D1 adds;
   structurally recursive on the input, so total by construction *)
Inductive tagres := TagOk (tag rest : list nat) | TagErr.
Fixpoint read_tag_body (inp : list nat) (acc : list nat) : tagres :=
  match inp with
  | [] => TagErr                                         (* EOF inside a tag *)
  | c :: r =>
      if c =? RBR then TagOk acc r
      else if (c =? LF) || (c =? CR) then TagErr
      else if c =? BSL then
        match r with
        | e :: r' => if e =? cn then read_tag_body r' (acc ++ [LF]) else if e =? cr then read_tag_body r' (acc ++ [CR])
                     else if e =? cB then read_tag_body r' (acc ++ [BSL]) else if e =? cC then read_tag_body r' (acc ++ [RBR])
                     else TagErr
        | [] => TagErr
        end
      else read_tag_body r (acc ++ [c])
  end.

Theorem tag_roundtrip tag : forall acc rest, read_tag_body (esc tag ++ RBR :: rest) acc = TagOk (acc ++ tag) rest.
Proof.
  induction tag as [|c t IH]; intros acc rest; cbn [esc app].
  - cbn. now rewrite app_nil_r.
  - destruct (Nat.eqb_spec c LF) as [->|H1]; [cbn; rewrite IH, <- app_assoc; reflexivity|].
    destruct (Nat.eqb_spec c CR) as [->|H2]; [cbn; rewrite IH, <- app_assoc; reflexivity|].
    destruct (Nat.eqb_spec c BSL) as [->|H3]; [cbn; rewrite IH, <- app_assoc; reflexivity|].
    destruct (Nat.eqb_spec c RBR) as [->|H4]; [cbn; rewrite IH, <- app_assoc; reflexivity|].
    cbn [app read_tag_body].
    destruct (Nat.eqb_spec c RBR); [contradiction|]. destruct (Nat.eqb_spec c LF); [contradiction|].
    destruct (Nat.eqb_spec c CR); [contradiction|]. destruct (Nat.eqb_spec c BSL); [contradiction|].
    cbn [orb]. rewrite IH, <- app_assoc. reflexivity.
Qed.
(* totality and linear output: the reader consumes its input structurally and the tag is no longer than the input *)
Lemma tag_output_bounded_aux n : forall inp acc t r, length inp <= n -> read_tag_body inp acc = TagOk t r ->
  length t + length r <= length acc + length inp.
Proof.
  induction n as [|n IH]; intros inp acc t r Hn H.
  - destruct inp; [discriminate| cbn in Hn; lia].
  - destruct inp as [|c i]; [discriminate|]. cbn [read_tag_body] in H. cbn [length] in *.
    destruct (c =? RBR). { inversion H; subst. lia. }
    destruct ((c =? LF) || (c =? CR)); [discriminate|].
    destruct (c =? BSL).
    + destruct i as [|e i']; [discriminate|]. cbn [length] in *.
      destruct (e =? cn); [apply IH in H; [rewrite app_length in H; cbn in *; lia| lia]|].
      destruct (e =? cr); [apply IH in H; [rewrite app_length in H; cbn in *; lia| lia]|].
      destruct (e =? cB); [apply IH in H; [rewrite app_length in H; cbn in *; lia| lia]|].
      destruct (e =? cC); [apply IH in H; [rewrite app_length in H; cbn in *; lia| lia]|]. discriminate.
    + apply IH in H; [rewrite app_length in H; cbn in *; lia| lia].
Qed.
Theorem tag_output_bounded inp acc t r : read_tag_body inp acc = TagOk t r -> length t + length r <= length acc + length inp.
Proof. apply (tag_output_bounded_aux (length inp)). lia. Qed.
Print Assumptions tag_roundtrip. Print Assumptions tag_output_bounded.
