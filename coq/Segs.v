(* The simplifier's cutting of an instruction into pieces without repeated qubits (simplified_circuit.cc,
   simplify_potentially_overlapping_1q_instruction / _2q_instruction). Targets with a qubit value are Some q, classical ones None.
   A target (pair) that reuses a qubit of the open piece closes the piece first. Theorems: the pieces concatenate to the target
   list, and no piece uses a qubit twice (so the simultaneous basis changes emitted around a piece act on distinct qubits). *)
From Coq Require Import List Bool Arith Lia.
Import ListNotations.

Definition memb (q : nat) (l : list nat) : bool := existsb (Nat.eqb q) l.
Definition used_by (t : option nat) (used : list nat) : bool := match t with Some q => memb q used | None => false end.
Definition mark (t : option nat) (used : list nat) : list nat := match t with Some q => q :: used | None => used end.
Definition qvals (seg : list (option nat)) : list nat := flat_map (fun t => match t with Some q => [q] | None => [] end) seg.

(* cur = the open piece, newest first *)
Fixpoint segs1 (ts : list (option nat)) (used : list nat) (cur : list (option nat)) : list (list (option nat)) :=
  match ts with
  | [] => [rev cur]
  | t :: r => if used_by t used then rev cur :: segs1 r (mark t []) [t] else segs1 r (mark t used) (t :: cur)
  end.
Fixpoint segs2 (ps : list (option nat * option nat)) (used : list nat) (cur : list (option nat * option nat))
  : list (list (option nat * option nat)) :=
  match ps with
  | [] => [rev cur]
  | (a, b) :: r =>
    if used_by a used || used_by b used then rev cur :: segs2 r (mark b (mark a [])) [(a, b)]
    else segs2 r (mark b (mark a used)) ((a, b) :: cur)
  end.
Definition pvals (seg : list (option nat * option nat)) : list nat := qvals (flat_map (fun p => [fst p; snd p]) seg).

Lemma memb_In q l : memb q l = true <-> In q l.
Proof. unfold memb. rewrite existsb_exists. split; [intros [x [H E]]; apply Nat.eqb_eq in E; now subst| intros H; exists q; split; [exact H|apply Nat.eqb_refl]]. Qed.
Lemma qvals_app a b : qvals (a ++ b) = qvals a ++ qvals b. Proof. apply flat_map_app. Qed.
Lemma NoDup_snoc (l : list nat) x : NoDup l -> ~ In x l -> NoDup (l ++ [x]).
Proof. induction l as [|y l IH]; cbn; intros Hn Hx; [constructor; [intros []|constructor]|]. inversion Hn; subst. constructor.
  - rewrite in_app_iff. cbn. intros [H|[H|[]]]; [contradiction| subst; apply Hx; now left].
  - apply IH; [assumption| intros H; apply Hx; now right]. Qed.

Lemma NoDup_app_intro (l r : list nat) : NoDup l -> NoDup r -> (forall x, In x l -> In x r -> False) -> NoDup (l ++ r).
Proof.
  induction l as [|x l IH]; cbn; intros Hl Hr Hd; [exact Hr|]. inversion Hl; subst. constructor.
  - intros Hx. apply in_app_or in Hx. destruct Hx as [Hx|Hx]; [contradiction| exact (Hd x (or_introl eq_refl) Hx)].
  - apply IH; [assumption|assumption|]. intros y Hy. apply Hd. now right.
Qed.

Theorem segs1_concat ts : forall used cur, concat (segs1 ts used cur) = rev cur ++ ts.
Proof.
  induction ts as [|t r IH]; intros used cur; cbn [segs1]; [cbn; now rewrite !app_nil_r|].
  destruct (used_by t used); [cbn [concat]; rewrite IH; reflexivity| rewrite IH; cbn [rev]; now rewrite <- app_assoc].
Qed.
Theorem segs1_disjoint ts : forall used cur, (forall q, In q used <-> In q (qvals (rev cur))) -> NoDup (qvals (rev cur)) ->
  Forall (fun seg => NoDup (qvals seg)) (segs1 ts used cur).
Proof.
  induction ts as [|t r IH]; intros used cur Hu Hn; cbn [segs1]; [constructor; [exact Hn|constructor]|].
  destruct (used_by t used) eqn:E.
  - constructor; [exact Hn|]. apply IH.
    + intros q. destruct t as [x|]; cbn; tauto.
    + destruct t as [x|]; cbn; [constructor; [intros []|constructor]|constructor].
  - apply IH; cbn [rev]; rewrite qvals_app.
    + intros q. rewrite in_app_iff. destruct t as [x|]; cbn; rewrite <- Hu; tauto.
    + destruct t as [x|]; cbn [qvals flat_map app]; [|now rewrite app_nil_r]. apply NoDup_snoc; [exact Hn|].
      intros H. apply Hu in H. cbn in E. apply memb_In in H. congruence.
Qed.

Lemma pvals_app a b : pvals (a ++ b) = pvals a ++ pvals b.
Proof. unfold pvals. now rewrite flat_map_app, qvals_app. Qed.
Theorem segs2_concat ps : forall used cur, concat (segs2 ps used cur) = rev cur ++ ps.
Proof.
  induction ps as [|[a b] r IH]; intros used cur; cbn [segs2]; [cbn; now rewrite !app_nil_r|].
  destruct (used_by a used || used_by b used); [cbn [concat]; rewrite IH; reflexivity| rewrite IH; cbn [rev]; now rewrite <- app_assoc].
Qed.
(* pairs are assumed valid: the two targets of a pair are not the same qubit *)
Definition pair_ok (p : option nat * option nat) : Prop := match p with (Some x, Some y) => x <> y | _ => True end.
Theorem segs2_disjoint ps : Forall pair_ok ps -> forall used cur,
  (forall q, In q used <-> In q (pvals (rev cur))) -> NoDup (pvals (rev cur)) ->
  Forall (fun seg => NoDup (pvals seg)) (segs2 ps used cur).
Proof.
  induction 1 as [|[a b] r Hab Hr IH]; intros used cur Hu Hn; cbn [segs2]; [constructor; [exact Hn|constructor]|].
  assert (Hpair : NoDup (pvals [(a, b)])).
  { unfold pvals. cbn. destruct a as [x|], b as [y|]; cbn; repeat constructor; cbn in Hab; try tauto. intros [E|[]]. now apply Hab. }
  destruct (used_by a used || used_by b used) eqn:E.
  - constructor; [exact Hn|]. apply IH; [|exact Hpair].
    intros q. unfold pvals. cbn. destruct a as [x|], b as [y|]; cbn; tauto.
  - apply orb_false_iff in E. destruct E as [Ea Eb].
    apply IH; cbn [rev]; rewrite pvals_app.
    + intros q. rewrite in_app_iff, <- Hu. unfold pvals. cbn. destruct a as [x|], b as [y|]; cbn; tauto.
    + assert (Hd : forall x, In x (pvals (rev cur)) -> In x (pvals [(a, b)]) -> False).
      { intros x Hx Hx'. apply Hu in Hx. apply memb_In in Hx. unfold pvals in Hx'. cbn in Hx'.
        destruct a as [xa|], b as [yb|]; cbn in *; repeat (destruct Hx' as [<-|Hx']; [congruence|]); try contradiction. }
      apply NoDup_app_intro; assumption.
Qed.
Corollary simplifier_pieces_1q ts : concat (segs1 ts [] []) = ts /\ Forall (fun seg => NoDup (qvals seg)) (segs1 ts [] []).
Proof. split; [apply segs1_concat| apply segs1_disjoint; [intros q; cbn; tauto| constructor]]. Qed.
Corollary simplifier_pieces_2q ps : Forall pair_ok ps ->
  concat (segs2 ps [] []) = ps /\ Forall (fun seg => NoDup (pvals seg)) (segs2 ps [] []).
Proof. intros H. split; [apply segs2_concat| apply segs2_disjoint; [exact H| intros q; cbn; tauto| constructor]]. Qed.
Print Assumptions simplifier_pieces_1q. Print Assumptions simplifier_pieces_2q.
