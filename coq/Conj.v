From Coq Require Import List Bool Arith Lia Ring.
Import ListNotations.
Require Import Pauli.

(* single-qubit local action in Hermitian form: sign flip and new Pauli *)
Definition act1 := (bool * bool) -> bool * (bool * bool).

(* automorphism condition (finite: 16 pairs): U (p.q) U^ = (U p U^)(U q U^) with phases *)
Definition act1_hom (f : act1) : Prop :=
  forall p q, let '(sp, p') := f p in let '(sq, q') := f q in let '(spq, pq') := f (xorb (fst p) (fst q), xorb (snd p) (snd q)) in
    pq' = (xorb (fst p') (fst q'), xorb (snd p') (snd q')) /\
    z4_add (z4_two spq) (ph1 p q) = z4_add (z4_two (xorb sp sq)) (ph1 p' q').
Definition act1_id (f : act1) : Prop := f (false, false) = (false, (false, false)).

(* positional get/set *)
Fixpoint get (q : nat) (l : bits) : bool * bool := match l, q with [], _ => (false,false) | p :: _, 0 => p | _ :: r, S k => get k r end.
Fixpoint set (q : nat) (v : bool * bool) (l : bits) : bits := match l, q with [], _ => [] | _ :: r, 0 => v :: r | p :: r, S k => p :: set k v r end.
Definition conj1 (f : act1) (q : nat) (h : bool * bits) : bool * bits :=
  let '(s', p') := f (get q (snd h)) in (xorb (fst h) s', set q p' (snd h)).

Lemma set_length q v l : length (set q v l) = length l.
Proof. revert q; induction l as [|p l IH]; intros [|q]; cbn; auto. Qed.
Lemma bxor_set q x y a b : length a = length b -> q < length a ->
  bxor (set q x a) (set q y b) = set q (xorb (fst x) (fst y), xorb (snd x) (snd y)) (bxor a b).
Proof. revert q b; induction a as [|p a IH]; intros [|q] [|r b] H Hq; cbn in *; try lia; try reflexivity. f_equal. apply IH; lia. Qed.
Lemma get_bxor q a b : length a = length b -> get q (bxor a b) = (xorb (fst (get q a)) (fst (get q b)), xorb (snd (get q a)) (snd (get q b))).
Proof. revert q b; induction a as [|p a IH]; intros [|q] [|r b] H; cbn in *; try lia; try reflexivity. apply IH; lia. Qed.
Lemma ph_set q x y a b : length a = length b -> q < length a ->
  z4_add (ph (set q x a) (set q y b)) (ph1 (get q a) (get q b)) = z4_add (ph a b) (ph1 x y).
Proof.
  revert q b; induction a as [|p a IH]; intros [|q] [|r b] H Hq; cbn [length set get ph] in *; try lia.
  - ring.
  - specialize (IH q b ltac:(lia) ltac:(lia)).
    transitivity (z4_add (ph1 p r) (z4_add (ph (set q x a) (set q y b)) (ph1 (get q a) (get q b)))); [ring|]. rewrite IH. ring.
Qed.

(* hermitian product in the implementation's terms *)
Definition hmul (a b : bool * bits) : z4 * bits := (z4_add (z4_two (xorb (fst a) (fst b))) (ph (snd a) (snd b)), bxor (snd a) (snd b)).

(* conjugation by a local automorphism is a homomorphism of the whole string algebra *)
Theorem conj1_hom f q a b : act1_hom f -> length (snd a) = length (snd b) -> q < length (snd a) ->
  hmul (conj1 f q a) (conj1 f q b) =
  let '(k, c) := hmul a b in let '(s', c') := conj1 f q (false, c) in (z4_add k (z4_two s'), c').
Proof.
  intros Hf Hlen Hq. destruct a as [sa a], b as [sb b]; cbn [fst snd] in *.
  unfold hmul, conj1; cbn [fst snd].
  specialize (Hf (get q a) (get q b)).
  destruct (f (get q a)) as [sp p'] eqn:Ea, (f (get q b)) as [sq q'] eqn:Eb. cbn [fst snd].
  rewrite get_bxor by exact Hlen.
  destruct (f (xorb (fst (get q a)) (fst (get q b)), xorb (snd (get q a)) (snd (get q b)))) as [spq pq'] eqn:Eab.
  destruct Hf as [Hbits Hph]. cbn [fst snd]. rewrite bxor_set by assumption. rewrite <- Hbits. f_equal.
  pose proof (ph_set q p' q' a b Hlen Hq) as Hset.
  (* sa+sp + sb+sq + ph(set..)  =  sa+sb + ph a b + spq *)
  assert (E : z4_add (ph (set q p' a) (set q q' b)) (z4_two (xorb sp sq)) = z4_add (ph a b) (z4_two spq)).
  { transitivity (z4_sub (z4_add (z4_add (ph (set q p' a) (set q q' b)) (ph1 (get q a) (get q b))) (z4_add (z4_two (xorb sp sq)) (ph1 p' q'))) (z4_add (ph1 (get q a) (get q b)) (ph1 p' q'))).
    - unfold z4_sub; ring.
    - rewrite Hset, <- Hph. unfold z4_sub; ring. }
  rewrite xorb_false_l.
  replace (z4_two (xorb (xorb sa sp) (xorb sb sq))) with (z4_add (z4_two (xorb sa sb)) (z4_two (xorb sp sq))) by (destruct sa, sb, sp, sq; reflexivity).
  transitivity (z4_add (z4_two (xorb sa sb)) (z4_add (ph (set q p' a) (set q q' b)) (z4_two (xorb sp sq)))); [ring|]. rewrite E. ring.
Qed.

(* example instance: H_XZ from its flows X->Z, Z->X ; Y -> -Y *)
Definition act_H : act1 := fun p => match p with (true,true) => (true,(true,true)) | (x,z) => (false,(z,x)) end.
Lemma act_H_hom : act1_hom act_H.
Proof. intros [[] []] [[] []]; cbn; split; reflexivity. Qed.
Print Assumptions conj1_hom.
