(* C12 — Pauli string arithmetic and propagation through circuits are exact.
   Only statements, `exact` and `Print Assumptions` live here. Gen_* files are regenerated from /repo's
   working tree on every run, so these are re-checked against the current C++ source. *)
From Coq Require Import List Bool String ZArith.
Import ListNotations.
Require Pauli Conj Conj2 Ring8.
Require Import Stab Act Gen_GateTable Gen_PauliRef GenProofs_PauliRef TableAut.
Require Gen_Avoid GenProofs_Avoid.

(* (1) The documented semantics: every unitary_data matrix in the table is unitary and conjugates the generator
       Paulis exactly as flow_data says (exact arithmetic in Z[sqrt2,i]/2, little-endian Kronecker order). *)
Theorem C12_table_flows_are_conjugation_by_documented_unitary :
  forallb Ring8.check_gate gate_table = true.
Proof. exact Ring8.table_flows_are_conjugation. Qed.
Print Assumptions C12_table_flows_are_conjugation_by_documented_unitary.

(* (2) ... and that action extends to a phase-exact homomorphism of the n-qubit Pauli algebra at any position(s). *)
Theorem C12_table_action_is_automorphism_1q :
  forall e, In e gate_table -> unitary1 e = true -> Conj.act1_hom (act1_of (flows_of e)).
Proof. exact table_action1_hom. Qed.
Theorem C12_table_action_is_automorphism_2q :
  forall e, In e gate_table -> unitary2 e = true -> Conj2.act2_hom (act2_of (flows_of e)).
Proof. exact table_action2_hom. Qed.
Theorem C12_local_automorphism_lifts_to_strings_1q :
  forall f q a b, Conj.act1_hom f -> List.length (snd a) = List.length (snd b) -> q < List.length (snd a) ->
  Conj.hmul (Conj.conj1 f q a) (Conj.conj1 f q b) =
  let '(k, c) := Conj.hmul a b in let '(s', c') := Conj.conj1 f q (false, c) in (Pauli.z4_add k (Pauli.z4_two s'), c').
Proof. exact Conj.conj1_hom. Qed.
Theorem C12_local_automorphism_lifts_to_strings_2q :
  forall f a b x y, Conj2.act2_hom f -> a <> b -> List.length (snd x) = List.length (snd y) ->
  a < List.length (snd x) -> b < List.length (snd x) ->
  Conj.hmul (Conj2.conj2 f a b x) (Conj2.conj2 f a b y) =
  let '(k, c) := Conj.hmul x y in let '(s', c') := Conj2.conj2 f a b (false, c) in (Pauli.z4_add k (Pauli.z4_two s'), c').
Proof. exact Conj2.conj2_hom. Qed.
Print Assumptions C12_table_action_is_automorphism_2q.
Print Assumptions C12_local_automorphism_lifts_to_strings_2q.

(* (3) The C++ routines (translated from pauli_string_ref.inl) equal the table action, sign included, for every
       gate the forward dispatch handles, on strings of any length and any target list, applied in order. *)
Theorem C12_pauli_ref_routines_correct_1q :
  forall g f, In (g, f) pauliref_do1 -> forall ts P, run1 f ts P = run1 (tab1 g) ts P.
Proof. exact pauliref_do1_correct. Qed.
Theorem C12_pauli_ref_routines_correct_2q :
  forall g f r, In (g, f, r) pauliref_do2 -> forall ts P, run2 f ts P = run2 (tab2 g) ts P.
Proof. exact pauliref_do2_correct. Qed.
(* (4) The backward dispatch names a routine with the action of the table's inverse gate. *)
Theorem C12_pauli_ref_undo_routines_are_inverse_1q :
  forall g f, In (g, f) pauliref_undo1 -> forall ts P, run1 f ts P = run1 (itab1 g) ts P.
Proof. exact pauliref_undo1_correct. Qed.
Theorem C12_pauli_ref_undo_routines_are_inverse_2q :
  forall g f r, In (g, f, r) pauliref_undo2 -> forall ts P, run2 f ts P = run2 (itab2 g) ts P.
Proof. exact pauliref_undo2_correct. Qed.
(* (5) Nothing was refused by the translator, no gate is missing from either dispatch, forward dispatch never
       reverses pair order, and the table's inverse ids really invert. *)
Theorem C12_dispatch_complete : pauliref_all_ok = true.
Proof. exact pauliref_generated_routines_match_table. Qed.
Theorem C12_table_inverse_is_inverse : table_inv_ok = true.
Proof. exact table_inverse_is_inverse. Qed.
Print Assumptions C12_pauli_ref_routines_correct_2q.
Print Assumptions C12_pauli_ref_undo_routines_are_inverse_2q.
Print Assumptions C12_dispatch_complete.

(* (6) Products: the per-position phase table the implementation accumulates is the true power of i of the
       Hermitian product (any length), and products are associative. *)
Theorem C12_mul_phase_correct :
  forall a b, List.length (snd a) = List.length (snd b) ->
  Pauli.hmul_log_i a b = Pauli.z4_add (Pauli.z4_two (xorb (fst a) (fst b))) (Pauli.ph (snd a) (snd b)).
Proof. exact Pauli.hmul_log_i_is_ph. Qed.
Theorem C12_mul_assoc :
  forall p q r, List.length (snd p) = List.length (snd q) -> List.length (snd q) = List.length (snd r) ->
  Pauli.pmul p (Pauli.pmul q r) = Pauli.pmul (Pauli.pmul p q) r.
Proof. exact Pauli.pmul_assoc. Qed.
Theorem C12_commutation_sign :
  forall p q, Pauli.pmul p q =
    (Pauli.z4_add (fst (Pauli.pmul q p)) (Pauli.z4_two (Pauli.symp (snd p) (snd q))), snd (Pauli.pmul q p)).
Proof. exact Pauli.pmul_comm_sign. Qed.
Print Assumptions C12_mul_phase_correct.

(* non-vacuity: the dispatch tables are populated and a concrete routine really is in them *)
Example C12_nonvacuous :
  (exists g f, In (g, f) pauliref_do1) /\ (exists g f r, In (g, f, r) pauliref_do2) /\
  (exists g f, In (g, f) pauliref_undo1) /\ (exists g f r, In (g, f, r) pauliref_undo2).
Proof. repeat split; [ destruct pauliref_do1 as [|[g f] l] eqn:E | destruct pauliref_do2 as [|[[g f] r] l] eqn:E
                     | destruct pauliref_undo1 as [|[g f] l] eqn:E | destruct pauliref_undo2 as [|[[g f] r] l] eqn:E ];
  try (vm_compute in E; discriminate); repeat eexists; left; reflexivity. Qed.

(* (7) Backward propagation through an instruction with several target pairs: every routine that the backward dispatch runs
       in FORWARD pair order commutes with itself on overlapping pairs (so the order is immaterial); all others are dispatched
       with the reverse-order flag. *)
Theorem C12_undo_pair_order_ok : names2 bad_undo_order = [].
Proof. exact pauliref_undo_pair_order_ok. Qed.

(* The refusal conditions of after() / before() at collapsing instructions, regenerated from source: a basis-B measurement refuses
   exactly the strings whose Pauli at a target (indexed by the qubit value) anticommutes with B; a reset refuses any non-identity
   Pauli at a target; MPP sums the anticommutation of the terms of each product. *)
Theorem C12_refusal_conditions_are_anticommutation : GenProofs_Avoid.avoid_ok = true.
Proof. exact GenProofs_Avoid.refusal_conditions_are_anticommutation. Qed.
Print Assumptions C12_refusal_conditions_are_anticommutation.
