(* The reverse sensitivity tracker on ADAPTIVE programs (FrameProg.v): feedback, resets, sweep bits and Pauli noise.
   This is the statement behind detector error models (C03), detection-event conversion (C04) and error explanation (C18):

     in every shot of the frame sampler - for every randomisation - the parity of a detector's flips equals
         [F0, S0]  xor  (pending toggles . earlier flips)  xor  XOR over externally controlled Paulis P_j whose control bit differs
                                                                between reference and shot of [P_j, S_j],
   where S is the detector's sensitivity walked backwards through the program: multiplied by M at a flagged measurement (the flag
   being toggled by later feedback that anticommutes with the sensitivity: Stim's undo of classically controlled Paulis), pulled
   back through Cliffords, unchanged at controlled Paulis.  A fault (external bit j set in the shot only) therefore flips the
   detector iff its Pauli anticommutes with the sensitivity at its position, and the contributions of several faults add up
   modulo 2 - to all orders, not only the first. *)
From Coq Require Import List Bool Arith Lia.
Import ListNotations.
Require Import Pauli Collapse Sem Refine ApProps Run FrameRun FrameComplete FrameProg RevTrack.

Section RevProg.
  Variable n : nat.
  Notation wf := (Refine.wf n).
  Notation good := (Run.good n).
  Notation Idn := (Run.Idn n).
  Variables extr exta : nat -> bool.
  Definition dx (j : nat) : bool := xorb (extr j) (exta j).

  Definition toggle (k : nat) (pend : nat -> bool) : nat -> bool := fun i => if Nat.eqb i k then negb (pend i) else pend i.
  Definition ptl (pend : nat -> bool) : nat -> bool := fun i => pend (S i).
  Fixpoint dotp (pend : nat -> bool) (fl : list bool) : bool :=
    match fl with [] => false | f :: fl' => xorb (andb (pend 0) f) (dotp (ptl pend) fl') end.
  Lemma dotp_toggle k : forall pend fl, dotp (toggle k pend) fl = xorb (dotp pend fl) (nth k fl false).
  Proof.
    induction k as [|k IH]; intros pend [|f fl]; cbn [dotp nth]; try (now rewrite xorb_false_r).
    - unfold toggle at 1. cbn [Nat.eqb]. replace (dotp (ptl (toggle 0 pend)) fl) with (dotp (ptl pend) fl) by reflexivity.
      destruct (pend 0), f, (dotp (ptl pend) fl); reflexivity.
    - unfold toggle at 1. cbn [Nat.eqb].
      replace (dotp (ptl (toggle (S k) pend)) fl) with (dotp (toggle k (ptl pend)) fl) by reflexivity.
      rewrite IH. destruct (pend 0), f, (dotp (ptl pend) fl), (nth k fl false); reflexivity.
  Qed.

  Lemma dotp_false fl : dotp (fun _ => false) fl = false.
  Proof. induction fl as [|f fl IH]; cbn [dotp]; [reflexivity|]. change (ptl (fun _ : nat => false)) with (fun _ : nat => false). rewrite IH. reflexivity. Qed.

  (* backward pass: sensitivity and pending flag toggles at the start of prog *)
  Fixpoint bt (prog : list pop) (d : list bool) : pauli * (nat -> bool) :=
    match prog with
    | [] => (Idn, fun _ => false)
    | PU C Ci :: p => let (S, pend) := bt p (tl d) in (Ci S, pend)
    | PM M :: p => let (S, pend) := bt p (tl d) in
                   ((if xorb (hd false d) (pend 0) then pmul M S else S), ptl pend)
    | PF P (CRec k) :: p => let (S, pend) := bt p (tl d) in (S, if acom P S then toggle k pend else pend)
    | PF P (CExt j) :: p => bt p (tl d)
    end.
  (* contribution of the externally controlled Paulis *)
  Fixpoint ext_par (prog : list pop) (d : list bool) : bool :=
    match prog with
    | [] => false
    | PF P (CExt j) :: p => xorb (andb (dx j) (acom P (fst (bt p (tl d))))) (ext_par p (tl d))
    | _ :: p => ext_par p (tl d)
    end.
  (* the tracker's check at measurements *)
  Fixpoint gauge_okp (prog : list pop) (d : list bool) : Prop :=
    match prog with
    | [] => True
    | PM M :: p => acom M (fst (bt p (tl d))) = false /\ gauge_okp p (tl d)
    | _ :: p => gauge_okp p (tl d)
    end.
  (* forward: parity of the detector's flips in the frame sampler; fl = flips of the measurements so far, most recent first *)
  Fixpoint fparp (F : pauli) (fl : list bool) (zs : list bool) (prog : list pop) (d : list bool) : bool :=
    match prog with
    | [] => false
    | PU C _ :: p => fparp (C F) fl (tl zs) p (tl d)
    | PM M :: p => let f := acom F M in
                   xorb (andb (hd false d) f) (fparp (if hd false zs then pmul F M else F) (f :: fl) (tl zs) p (tl d))
    | PF P (CRec k) :: p => fparp (if nth k fl false then pmul F P else F) fl (tl zs) p (tl d)
    | PF P (CExt j) :: p => fparp (if dx j then pmul F P else F) fl (tl zs) p (tl d)
    end.

  Lemma bt_wf prog : forall d, Forall (okp n) prog -> wf (fst (bt prog d)).
  Proof.
    induction prog as [|o p IH]; intros d Hok; cbn [bt]; [apply wf_Idn|].
    inversion Hok as [|? ? Ho Hok']; subst. specialize (IH (tl d) Hok').
    destruct o as [C Ci|M|P [k|j]]; cbn [okp] in Ho; destruct (bt p (tl d)) as [S pend]; cbn [fst] in *.
    - apply (g_len _ _ _ (proj2 Ho)), IH.
    - destruct (xorb _ _); [apply wf_pmul; [apply Ho| exact IH]| exact IH].
    - exact IH.
    - exact IH.
  Qed.

  Theorem fparp_closed_form prog : forall F fl zs d, Forall (okp n) prog -> wf F -> gauge_okp prog d ->
    fparp F fl zs prog d = xorb (xorb (acom F (fst (bt prog d))) (dotp (snd (bt prog d)) fl)) (ext_par prog d).
  Proof.
    induction prog as [|o p IH]; intros F fl zs d Hok HF Hg; cbn [fparp bt ext_par].
    - cbn [fst snd]. unfold Run.Idn. rewrite acom_zeros_r, dotp_false. reflexivity.
    - inversion Hok as [|? ? Ho Hok']; subst. pose proof (bt_wf p (tl d) Hok') as WS.
      destruct o as [C Ci|M|P [k|j]]; cbn [okp gauge_okp] in *.
      + rewrite (IH (C F) fl (tl zs) (tl d) Hok' (g_len _ _ _ (proj1 Ho) F HF) Hg).
        destruct (bt p (tl d)) as [S pend]. cbn [fst snd] in *.
        rewrite <- (good_acom n Ci C (C F) S (proj2 Ho) (g_len _ _ _ (proj1 Ho) F HF) WS).
        now rewrite (g_GF _ _ _ (proj1 Ho)) by exact HF.
      + destruct Hg as [Hc Hg]. destruct Ho as [WM HH].
        assert (W1 : wf (if hd false zs then pmul F M else F)) by (destruct (hd false zs); [apply wf_pmul; assumption| exact HF]).
        rewrite (IH _ (acom F M :: fl) (tl zs) (tl d) Hok' W1 Hg).
        destruct (bt p (tl d)) as [S pend]. cbn [fst snd dotp] in *.
        assert (E1 : acom (if hd false zs then pmul F M else F) S = acom F S).
        { destruct (hd false zs); [|reflexivity]. rewrite (acom_pmul_l n F M S HF WM WS), Hc. apply xorb_false_r. }
        rewrite E1.
        assert (E2 : acom F (if xorb (hd false d) (pend 0) then pmul M S else S) = xorb (andb (xorb (hd false d) (pend 0)) (acom F M)) (acom F S)).
        { destruct (xorb (hd false d) (pend 0)); cbn [andb]; [|now rewrite xorb_false_l].
          apply acom_pmul_r; unfold Refine.wf, pauli, bits in *; lia. }
        rewrite E2.
        destruct (hd false d), (pend 0), (acom F M), (acom F S), (dotp (ptl pend) fl), (ext_par p (tl d)); reflexivity.
      + assert (W1 : wf (if nth k fl false then pmul F P else F)) by (destruct (nth k fl false); [apply wf_pmul; assumption| exact HF]).
        rewrite (IH _ fl (tl zs) (tl d) Hok' W1 Hg).
        destruct (bt p (tl d)) as [S pend]. cbn [fst snd] in *.
        assert (E1 : acom (if nth k fl false then pmul F P else F) S = xorb (acom F S) (andb (nth k fl false) (acom P S))).
        { destruct (nth k fl false); cbn [andb]; [apply (acom_pmul_l n F P S HF Ho WS)| now rewrite xorb_false_r]. }
        rewrite E1. destruct (acom P S).
        * rewrite dotp_toggle. destruct (acom F S), (nth k fl false), (dotp pend fl), (ext_par p (tl d)); reflexivity.
        * rewrite andb_false_r, xorb_false_r. reflexivity.
      + assert (W1 : wf (if dx j then pmul F P else F)) by (destruct (dx j); [apply wf_pmul; assumption| exact HF]).
        rewrite (IH _ fl (tl zs) (tl d) Hok' W1 Hg).
        destruct (bt p (tl d)) as [S pend] eqn:Eb. cbn [fst snd] in *.
        assert (E1 : acom (if dx j then pmul F P else F) S = xorb (acom F S) (andb (dx j) (acom P S))).
        { destruct (dx j); cbn [andb]; [apply (acom_pmul_l n F P S HF Ho WS)| now rewrite xorb_false_r]. }
        rewrite E1. destruct (acom F S), (dx j), (acom P S), (dotp pend fl), (ext_par p (tl d)); reflexivity.
  Qed.

  (* ---------- the sampler's records: reference xor flips ---------- *)
  Lemma fprun_par prog : forall l F rr ra fl zs d, realize extr rr prog l ->
    (forall k, xorb (nth k rr false) (nth k ra false) = nth k fl false) ->
    par_rec (fprun extr exta F rr ra zs prog l) d = xorb (par_rec l d) (fparp F fl zs prog d).
  Proof.
    induction prog as [|o p IH]; intros l F rr ra fl zs d Hre Hfl.
    - inversion Hre; subst. reflexivity.
    - inversion Hre as [| ? C Ci ? l' Hre' | ? M b ? l' Hre' | ? P c ? l' Hre']; subst; cbn [fprun fparp par_rec].
      + apply IH; assumption.
      + rewrite (IH l' _ (b :: rr) (xorb b (acom F M) :: ra) (acom F M :: fl) (tl zs) (tl d) Hre').
        * generalize (fparp (if hd false zs then pmul F M else F) (acom F M :: fl) (tl zs) p (tl d)). intros X.
          destruct (hd false d), b, (acom F M), (par_rec l' (tl d)), X; reflexivity.
        * intros [|k]; cbn [nth]; [destruct b, (acom F M); reflexivity| apply Hfl].
      + destruct c as [k|j]; cbn [cval].
        * rewrite (Hfl k). apply IH; assumption.
        * apply IH; assumption.
  Qed.

  (* ---------- every shot: the detector is the reference value xor the faults that anticommute with its sensitivity ---------- *)
  Notation Inv := (Run.Inv n).
  Theorem detector_in_every_shot prog l la s s' Sg S' d : Forall (okp n) prog -> good (fst s) (snd s) -> Inv (fst s) Sg ->
    realize extr [] prog l -> sim_run n s l s' -> realize exta [] prog la -> sem_run Sg la S' ->
    gauge_okp prog d -> (forall g, wf g -> Sg g -> acom g (fst (bt prog d)) = false) ->
    par_rec la d = xorb (par_rec l d) (ext_par prog d).
  Proof.
    intros Hok G I Hre Hrun Hra Halt Hg Hinit.
    destruct (fp_complete n extr exta prog l la s s' Sg S' [] [] Hok G I Hre Hrun Hra Halt) as (g & zs & Wg & Sg_g & E).
    rewrite <- E. rewrite (fprun_par prog l g [] [] [] zs d Hre) by (intros [|k]; reflexivity).
    rewrite (fparp_closed_form prog g [] zs d Hok Wg Hg), (Hinit g Wg Sg_g). cbn [dotp]. rewrite xorb_false_l. reflexivity.
  Qed.
End RevProg.
Print Assumptions fparp_closed_form.
Print Assumptions detector_in_every_shot.
