From Coq Require Import List Bool Arith Lia.
Import ListNotations.
Require Import Pauli Conj Collapse.

(* transposed_loop_is_A: the loop of collapse_qubit_z —
     for k in pivot+1 .. n-1: if x-bit of the measured row at k: append_ZCX(pivot, k)
   acting on one row (pivot at the head, k indexing the tail), is the one-shot fan-out (cn_bits, cn_sum) of
   Collapse.v.  XZ-form: a CNOT changes no phase, so only bits are tracked here. *)
Definition cnot_at (k : nat) (st : bb * bits) : bb * bits :=
  let hd := fst st in let tl := snd st in let t := get k tl in
  ((fst hd, xorb (snd hd) (snd t)), set k (xorb (fst t) (fst hd), snd t) tl).

Fixpoint loop (ks : list nat) (ms : list bool) (st : bb * bits) : bb * bits :=
  match ks with
  | [] => st
  | k :: ks' => loop ks' ms (if nth k ms false then cnot_at k st else st)
  end.

Lemma loop_shift ks m ms hd t tl :
  loop (map S ks) (m :: ms) (hd, t :: tl) = (fst (loop ks ms (hd, tl)), t :: snd (loop ks ms (hd, tl))).
Proof.
  revert hd tl; induction ks as [|k ks IH]; intros hd tl; cbn [map loop]; [reflexivity|].
  cbn [nth]. destruct (nth k ms false).
  - unfold cnot_at at 1 3. cbn [fst snd get set]. apply IH.
  - apply IH.
Qed.

Theorem transposed_loop_is_A : forall tl ms hd, length ms = length tl ->
  loop (seq 0 (length tl)) ms (hd, tl) = ((fst hd, xorb (snd hd) (cn_sum ms tl)), cn_bits (fst hd) ms tl).
Proof.
  induction tl as [|t tl IH]; intros [|m ms] hd L; cbn [length] in L; try discriminate.
  - cbn. destruct hd as [x z]. rewrite xorb_false_r. reflexivity.
  - injection L as L. cbn [length seq loop nth]. rewrite <- seq_shift.
    set (st1 := if m then cnot_at 0 (hd, t :: tl) else (hd, t :: tl)).
    assert (E1 : st1 = ((fst hd, xorb (snd hd) (andb m (snd t))), (xorb (fst t) (andb m (fst hd)), snd t) :: tl)).
    { unfold st1. destruct m; unfold cnot_at; cbn [fst snd get set andb].
      - reflexivity.
      - destruct hd as [x z], t as [a b]. cbn [fst snd]. rewrite !xorb_false_r. reflexivity. }
    rewrite E1, loop_shift, IH by exact L. cbn [fst snd cn_sum cn_bits].
    rewrite xorb_assoc. reflexivity.
Qed.
Print Assumptions transposed_loop_is_A.
