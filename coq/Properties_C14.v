(* C14 — Stabilizer flow queries are correct and complete.
   The flow solver itself is tied by the oracle of checks/c14.py (Choi state of the extracted specification); the theorems
   below are what that oracle and the implementation's reverse tracking rest on. *)
From Coq Require Import List Bool String ZArith NArith.
Import ListNotations.
Require Pauli Span Tab Flow Adj AdjGen TableAdj GenProofs_RevMeas.
Require Import Stab Spec SpecProofs GF2 Act Gen_GateTable Gen_RevTrack GenProofs_RevTrack.
Require GenProofs_TabMeas.
Require Sem Refine FrameProg RevProg RevFlow.

(* flows of a Clifford map are closed under products, signs included: products of generators are flows (any n) *)
Theorem C14_flows_closed_under_product :
  forall (n : nat) (xs zs : list Pauli.pauli),
  List.length xs = n -> List.length zs = n -> Tab.herm n xs -> Tab.herm n zs ->
  Tab.pairwise_comm xs -> Tab.pairwise_comm zs -> Tab.dual zs xs ->
  forall P1 Q1 P2 Q2, Span.wfn n P1 -> Span.wfn n P2 -> Flow.flow n xs zs P1 Q1 -> Flow.flow n xs zs P2 Q2 ->
  Flow.flow n xs zs (Pauli.pmul P1 P2) (Pauli.pmul Q1 Q2).
Proof. exact Flow.flow_mul. Qed.
(* an input has exactly one output: a near-miss of a true flow (other output or sign) is not a flow *)
Theorem C14_flow_output_unique :
  forall (n : nat) (xs zs : list Pauli.pauli) P Q Q', Flow.flow n xs zs P Q -> Flow.flow n xs zs P Q' -> Q = Q'.
Proof. exact Flow.flow_functional. Qed.
(* the 2n row flows generate every flow *)
Theorem C14_flows_generated_by_rows :
  forall (n : nat) (xs zs : list Pauli.pauli) P,
  Flow.flow n xs zs P (Tab.ph (fst P) (Pauli.pmul (Span.prod n (map fst (snd P)) xs) (Span.prod n (map snd (snd P)) zs))).
Proof. exact Flow.flow_generated. Qed.
(* the backward (unsigned) tracker has_flow uses: generated from the source, every undo routine is the inverse gate's action *)
Theorem C14_reverse_tracker_routines_match_inverse_table : rev_all_ok = true.
Proof. exact revtrack_generated_routines_match_inverse_table. Qed.
(* backward tracking is adjoint to forward propagation *)
Theorem C14_adjoint_partial :
  forall n (c : list Adj.op), Forall (Adj.in_range n) c -> forall (D : Adj.det) (F : Adj.frame),
  Adj.parity_at D 0 (Adj.frun c F) = Adj.pair_upto n (Adj.back c D) F.
Proof. exact Adj.adjoint. Qed.
(* measurement update of a stabilizer group (what the Choi-state oracle performs at every measurement) *)
Theorem C14_oracle_measurement_update :
  forall (n : nat) (M g0 : Pauli.pauli) (rest : list Pauli.pauli) (c : bool),
  Span.wfn n M -> Span.wfn n g0 -> Pauli.pmul g0 g0 = Span.Id n -> Sem.acom g0 M = true ->
  Forall (Span.wfn n) rest -> Forall (fun g => Sem.acom g0 g = false) rest ->
  forall P, Span.span n (Span.newgens M g0 rest c) P <-> Sem.post_rnd (Span.span n (g0 :: rest)) M c P.
Proof. exact Span.spec_measure_group_char. Qed.
(* sign forms are affine, so "the flow's form is identically the constant" is decided by mask = 0 *)
Theorem C14_forms_are_affine : forall m k a b, eval_form m k (fxor a b) = xorb (eval_form m k a) (eval_form m k b).
Proof. exact eval_form_fxor. Qed.
(* ... and for the WHOLE gate set: every unitary of the generated gate table (backward action = table action of the inverse gate,
   which is what the translated undo routines are proved to be), single-qubit Pauli measurements and resets, any circuit, any n *)
Theorem C14_adjoint_all_gates :
  forall n (c : list TableAdj.tgop), Forall (TableAdj.tok n) c -> forall (D : AdjGen.det) (F : AdjGen.st),
  AdjGen.parity_at D 0 (AdjGen.frun (map TableAdj.compile c) F) = AdjGen.pair_upto n (AdjGen.back (map TableAdj.compile c) D) F.
Proof. exact TableAdj.adjoint_table_circuits. Qed.
(* the reverse tracker's measurement / reset undo routines (undo_MX .. undo_MRZ, undo_RX .. undo_RZ, regenerated from source) are
   the backward steps of that theorem for the gate's documented basis, and test the anticommuting component for gauges *)
Theorem C14_revtrack_measure_reset_routines_match : GenProofs_RevMeas.revmeas_all_ok = true.
Proof. exact GenProofs_RevMeas.revmeas_routines_match_adjgen. Qed.
Print Assumptions C14_adjoint_all_gates. Print Assumptions C14_flows_closed_under_product. Print Assumptions C14_oracle_measurement_update.
Print Assumptions C14_reverse_tracker_routines_match_inverse_table.

(* The reverse tracker's MXX / MYY / MZZ segments, regenerated from source. *)
Theorem C14_pair_measurement_segments_measure_the_product : GenProofs_TabMeas.seg_class_ok "tracker" = true.
Proof. exact GenProofs_TabMeas.tracker_pair_segments_ok. Qed.
Print Assumptions C14_pair_measurement_segments_measure_the_product.


(* Unsigned flows on whole adaptive programs: walking an end observable Send backwards (multiplied by M at flagged measurements,
   flags toggled by later anticommuting feedback, pulled back through Cliffords) gives S0 with, for every frame F put in front of
   the program, every earlier flips and every randomisation:
     [F_end, Send] xor (parity of the flagged flips) = [F, S0] xor (pending toggles . earlier flips) xor (anticommuting external Paulis).
   A Pauli error before the program changes "Send times the flagged results" exactly when it anticommutes with S0: the circuit has
   the unsigned flow S0 -> Send xor rec[flags], which is what the reverse tracker behind time reversal and the flow-generator
   solver computes. *)
Theorem C14_unsigned_flow_closed_form :
  forall (n : nat) (extr exta : nat -> bool) (Send : Pauli.pauli), Refine.wf n Send ->
  forall (prog : list FrameProg.pop) (F : Pauli.pauli) (fl zs d : list bool),
  Forall (FrameProg.okp n) prog -> Refine.wf n F -> RevFlow.gauge_okf Send prog d ->
  RevFlow.fparf extr exta Send F fl zs prog d =
  xorb (xorb (Sem.acom F (fst (RevFlow.btf Send prog d))) (RevProg.dotp (snd (RevFlow.btf Send prog d)) fl))
       (RevFlow.ext_parf extr exta Send prog d).
Proof. exact RevFlow.flow_closed_form. Qed.
Print Assumptions C14_unsigned_flow_closed_form.
