(* C05 — Noise channels fire with their documented probabilities and correlations. *)
From Coq Require Import List Bool Arith NArith QArith.
Import ListNotations.
Require Import Coin CoinWord Rare Chain XorConv.
Require GenProofs_FrameNoise GenProofs_PauliChan GenProofs_Herald GenProofs_ElseChain.

(* the coin stage of biased_randomize_bits: exactly p_top_bits of the 256 equally likely 8-coin strings yield a 1, for every
   p_top_bits < 128 (every probability the stage is used for) *)
Theorem C05_coin_stage_probability : forall p, (p < 128)%nat -> count_true p = p.
Proof. exact coin_stage_prob'. Qed.
(* ... and that statement is about every bit of every word of the executable model that the correspondence check runs against
   the implementation on the generator's own words *)
Theorem C05_word_model_lanes_are_coin_stages :
  forall p ws i, N.testbit (coin_word p ws) i = coin_stage p (map (fun w => N.testbit w i) ws).
Proof. exact coin_word_lane. Qed.
(* OR-ing an independent Bernoulli(p_leftover / (1 - p_truncated)) restores the exact probability *)
Theorem C05_truncation_correction : forall pt pl : Q, ~ pt == 1 -> pt + (1 - pt) * (pl / (1 - pt)) == pt + pl.
Proof. exact correction_restores_p. Qed.
(* geometric gap sampling (RareErrorIterator) produces every hit pattern with the probability of independent Bernoulli(p) bits,
   given that the gaps are geometric (a hypothesis about std::geometric_distribution, tested statistically) *)
Theorem C05_gap_sampling_is_bernoulli : forall (p : Q) (l : list bool), prob p l 0 == bern p l.
Proof. exact rare_is_bernoulli. Qed.
(* disjoint channels as conditional-probability chains: outcome k fires with exactly p_k *)
Theorem C05_chain_is_disjoint :
  forall ps used alive k, Forall (fun p => 0 <= p) ps -> used + sumq ps <= 1 -> alive == 1 - used ->
  (k < length ps)%nat -> fire ps used alive k == nth k ps 0.
Proof. exact chain_is_disjoint. Qed.
(* DEPOLARIZE1 as three independent mechanisms (what the DEM sampler is given) is the documented channel *)
Theorem C05_depolarize1_as_independent_mechanisms :
  forall (p q : Q) (sx sz : N) d t, q * (1 - q) == p / 3 ->
  conv (q, sx) (conv (q, sz) (conv (q, N.lxor sx sz) d)) t ==
  (1 - p) * d t + (p / 3) * d (N.lxor t sx) + (p / 3) * d (N.lxor t sz) + (p / 3) * d (N.lxor t (N.lxor sx sz)).
Proof. exact depolarize1_independent. Qed.
(* the bulk sampler's Pauli noise routines, regenerated from source: X/Y/Z_ERROR flip the documented Pauli; for DEPOLARIZE1/2 the drawn
   p = 1 + rng() % K maps bijectively onto the non-identity Paulis (pairs): the documented uniform mixture *)
Theorem C05_frame_noise_routines_are_documented_mixtures : GenProofs_FrameNoise.frame_noise_all_ok = true.
Proof. exact GenProofs_FrameNoise.frame_noise_routines_are_documented_mixtures. Qed.
(* PAULI_CHANNEL_1/2 in both simulators: argument k is applied as exactly the documented Pauli (pair), first target = leading symbol
   (decoding regenerated from source); with C05_chain_is_disjoint each outcome fires with exactly its documented probability *)
Theorem C05_pauli_channel_arguments_decoded_as_documented : GenProofs_PauliChan.paulichan_all_ok = true.
Proof. exact GenProofs_PauliChan.pauli_channel_arguments_are_decoded_as_documented. Qed.
(* HERALDED_ERASE in both simulators (bit usage executed symbolically from source for 70 consecutive events): every erasure uses two
   generator bits no other erasure uses and always sets its herald; HERALDED_PAULI_CHANNEL_1 of the bulk sampler cuts the uniform draw
   into intervals of lengths hx, hz, hy *)
Theorem C05_heralded_erase_uses_fresh_bits : GenProofs_Herald.herald_all_ok = true.
Proof. exact GenProofs_Herald.heralded_erase_uses_fresh_bits. Qed.
(* E / ELSE_CORRELATED_ERROR in both simulators (regenerated from source): an element is applied iff its coin fired and no earlier
   element of the chain did *)
Theorem C05_else_chain_steps_are_the_modelled_rule : GenProofs_ElseChain.elsechain_all_ok = true.
Proof. exact GenProofs_ElseChain.else_chain_steps_are_the_modelled_rule. Qed.
Print Assumptions C05_coin_stage_probability. Print Assumptions C05_word_model_lanes_are_coin_stages.
Print Assumptions C05_gap_sampling_is_bernoulli. Print Assumptions C05_chain_is_disjoint.
