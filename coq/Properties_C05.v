(* C05 — Noise channels fire with their documented probabilities and correlations. *)
From Coq Require Import List Bool Arith NArith QArith.
From Coq Require String.
Import ListNotations.
Require Import Coin CoinWord Rare Chain XorConv.
Require GenProofs_FrameNoise GenProofs_PauliChan GenProofs_Herald GenProofs_ElseChain GenProofs_TabMeas MeasRec Gen_Brb GenProofs_Brb.

(* the coin stage of biased_randomize_bits: exactly p_top_bits of the 256 equally likely 8-coin strings yield a 1, for every
   p_top_bits < 128 (every probability the stage is used for) *)
Theorem C05_coin_stage_probability : forall p, (p < 128)%nat -> count_true p = p.
Proof. exact coin_stage_prob'. Qed.
(* ... and that statement is about every bit of every word of the executable model that the correspondence check runs against
   the implementation on the generator's own words *)
Theorem C05_word_model_lanes_are_coin_stages :
  forall p ws i, N.testbit (coin_word p ws) i = coin_stage p (map (fun w => N.testbit w i) ws).
Proof. exact coin_word_lane. Qed.
(* OR-ing an independent Bernoulli(p_leftover / (1 - p_truncated)) restores the exact probability *)
Theorem C05_truncation_correction : forall pt pl : Q, ~ pt == 1 -> pt + (1 - pt) * (pl / (1 - pt)) == pt + pl.
Proof. exact correction_restores_p. Qed.
(* geometric gap sampling (RareErrorIterator) produces every hit pattern with the probability of independent Bernoulli(p) bits,
   given that the gaps are geometric (a hypothesis about std::geometric_distribution, tested statistically) *)
Theorem C05_gap_sampling_is_bernoulli : forall (p : Q) (l : list bool), prob p l 0 == bern p l.
Proof. exact rare_is_bernoulli. Qed.
(* disjoint channels as conditional-probability chains: outcome k fires with exactly p_k *)
Theorem C05_chain_is_disjoint :
  forall ps used alive k, Forall (fun p => 0 <= p) ps -> used + sumq ps <= 1 -> alive == 1 - used ->
  (k < length ps)%nat -> fire ps used alive k == nth k ps 0.
Proof. exact chain_is_disjoint. Qed.
(* DEPOLARIZE1 as three independent mechanisms (what the DEM sampler is given) is the documented channel *)
Theorem C05_depolarize1_as_independent_mechanisms :
  forall (p q : Q) (sx sz : N) d t, q * (1 - q) == p / 3 ->
  conv (q, sx) (conv (q, sz) (conv (q, N.lxor sx sz) d)) t ==
  (1 - p) * d t + (p / 3) * d (N.lxor t sx) + (p / 3) * d (N.lxor t sz) + (p / 3) * d (N.lxor t (N.lxor sx sz)).
Proof. exact depolarize1_independent. Qed.
(* the bulk sampler's Pauli noise routines, regenerated from source: X/Y/Z_ERROR flip the documented Pauli; for DEPOLARIZE1/2 the drawn
   p = 1 + rng() % K maps bijectively onto the non-identity Paulis (pairs): the documented uniform mixture *)
Theorem C05_frame_noise_routines_are_documented_mixtures : GenProofs_FrameNoise.frame_noise_all_ok = true.
Proof. exact GenProofs_FrameNoise.frame_noise_routines_are_documented_mixtures. Qed.
(* PAULI_CHANNEL_1/2 in both simulators: argument k is applied as exactly the documented Pauli (pair), first target = leading symbol
   (decoding regenerated from source); with C05_chain_is_disjoint each outcome fires with exactly its documented probability *)
Theorem C05_pauli_channel_arguments_decoded_as_documented : GenProofs_PauliChan.paulichan_all_ok = true.
Proof. exact GenProofs_PauliChan.pauli_channel_arguments_are_decoded_as_documented. Qed.
(* HERALDED_ERASE in both simulators (bit usage executed symbolically from source for 70 consecutive events): every erasure uses two
   generator bits no other erasure uses and always sets its herald; HERALDED_PAULI_CHANNEL_1 of the bulk sampler cuts the uniform draw
   into intervals of lengths hx, hz, hy *)
Theorem C05_heralded_erase_uses_fresh_bits : GenProofs_Herald.herald_all_ok = true.
Proof. exact GenProofs_Herald.heralded_erase_uses_fresh_bits. Qed.
(* E / ELSE_CORRELATED_ERROR in both simulators (regenerated from source): an element is applied iff its coin fired and no earlier
   element of the chain did *)
Theorem C05_else_chain_steps_are_the_modelled_rule : GenProofs_ElseChain.elsechain_all_ok = true.
Proof. exact GenProofs_ElseChain.else_chain_steps_are_the_modelled_rule. Qed.
(* measurement noise (regenerated from source). Bulk record: reserve_noisy_space_for_results draws one noise row per target of the
   instruction with probability args[0] (0 when absent) into rows stored .. stored+count-1, and each xor_record_reserved_result XORs
   its result into row `stored`, masks it and advances by one; hence (MeasRec.noisy_results) result k of the instruction is flipped
   by exactly its own noise row and earlier rows are untouched. Single shot: noisify_new_measurements flips entry last-k for each
   rare-error hit k < num_targets, i.e. only the results just recorded, each hit once. *)
Theorem C05_measurement_record_routines_are_the_model : GenProofs_TabMeas.measrec_ok = true.
Proof. exact GenProofs_TabMeas.measurement_record_routines_ok. Qed.
Theorem C05_generated_record_routines_refine_model :
  forall (row : Type) (rxor : row -> row -> row) (mask : row -> row), GenProofs_TabMeas.measrec_ok = true ->
  exists rs xs, Gen_TabMeas.measrec_reserve = Some rs /\ Gen_TabMeas.measrec_xor = Some xs /\
  (forall s stored noise, GenProofs_TabMeas.gen_reserve row rs s stored noise = MeasRec.reserve_noisy row s stored noise) /\
  (forall st r, GenProofs_TabMeas.gen_record row rxor mask xs st r = MeasRec.xor_record row rxor mask st r).
Proof. exact GenProofs_TabMeas.generated_record_is_model. Qed.
Theorem C05_each_result_flipped_by_its_own_noise_row :
  forall (row : Type) (rxor : row -> row -> row) (mask : row -> row) (s : list row) (stored : nat) (noise results : list row),
  (stored + length noise <= length s)%nat -> length results = length noise ->
  fold_left (MeasRec.xor_record row rxor mask) results (MeasRec.reserve_noisy row s stored noise, stored) =
  (firstn stored s ++ MeasRec.zipx row rxor mask noise results ++ skipn (stored + length noise)%nat s, (stored + length noise)%nat).
Proof. exact MeasRec.noisy_results. Qed.
Theorem C05_single_shot_noise_flips_only_new_results :
  forall (s : list bool) (hits : list nat) (num_targets j : nat),
  Forall (fun k => (k < num_targets)%nat) hits -> (num_targets <= length s)%nat -> (j < length s - num_targets)%nat ->
  nth j (MeasRec.noisify 1 s hits) false = nth j s false.
Proof. exact MeasRec.noisify_only_new_results. Qed.
Theorem C05_single_shot_noise_flips_once_per_hit :
  forall (s : list bool) (hits : list nat) (j : nat), nth j (MeasRec.noisify 1 s hits) false = xorb (nth j s false) (MeasRec.parity_hits (length s) j hits).
Proof. exact MeasRec.noisify_flips. Qed.
(* the results handed to noisify_new_measurements are exactly the ones the routine recorded: one per target (single-qubit
   measurements), targets/2 (pair segments) *)
Theorem C05_tableau_measurements_noisify_what_they_record :
  GenProofs_TabMeas.tab_single_all_ok = true /\ GenProofs_TabMeas.seg_class_ok GenProofs_TabMeas.cls_tableau = true.
Proof. exact (conj GenProofs_TabMeas.tableau_measure_reset_routines_ok GenProofs_TabMeas.tableau_pair_segments_ok). Qed.
Print Assumptions C05_measurement_record_routines_are_the_model. Print Assumptions C05_generated_record_routines_refine_model.
Print Assumptions C05_each_result_flipped_by_its_own_noise_row. Print Assumptions C05_single_shot_noise_flips_only_new_results.
Print Assumptions C05_single_shot_noise_flips_once_per_hit. Print Assumptions C05_tableau_measurements_noisify_what_they_record.
(* the arithmetic of biased_randomize_bits, regenerated from source as functions over Q: branch thresholds and loop shapes are
   the modelled ones, and the 8-bit truncated probability OR-ed with the correcting rare-error pass has exactly the requested
   probability (by field, for every p and every floor value) *)
Theorem C05_brb_shape_is_the_model : forallb (fun x => snd x) Gen_Brb.brb_facts = true /\ Gen_Brb.brb_refused = []%list.
Proof. exact (conj GenProofs_Brb.brb_facts_ok GenProofs_Brb.brb_no_refusal). Qed.
Theorem C05_truncation_plus_correction_is_exact :
  forall p f : Q, ~ (f / GenProofs_Brb.B == 1)%Q ->
  (Gen_Brb.brb_p_truncated f GenProofs_Brb.B + (1 - Gen_Brb.brb_p_truncated f GenProofs_Brb.B) *
   Gen_Brb.brb_correction (Gen_Brb.brb_p_leftover (Gen_Brb.brb_raised_leftover (Gen_Brb.brb_raised p GenProofs_Brb.B) f) GenProofs_Brb.B)
                          (Gen_Brb.brb_p_truncated f GenProofs_Brb.B) == p)%Q.
Proof. exact GenProofs_Brb.truncation_plus_correction_is_exact. Qed.
Print Assumptions C05_brb_shape_is_the_model. Print Assumptions C05_truncation_plus_correction_is_exact.
Print Assumptions C05_coin_stage_probability. Print Assumptions C05_word_model_lanes_are_coin_stages.
Print Assumptions C05_gap_sampling_is_bernoulli. Print Assumptions C05_chain_is_disjoint.
