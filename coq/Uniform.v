From Coq Require Import List Bool Arith Lia Permutation.
Import ListNotations.

(* records_uniform_on_affine_image: for an XOR-linear map f on k-bit strings (the map from the randomisation
   bits of a shot to its record flips), every point of the image has the same number of preimages; hence
   uniform coins give a record that is uniform on ref + image(f). *)
Fixpoint vxor (a b : list bool) : list bool :=
  match a, b with x :: a', y :: b' => xorb x y :: vxor a' b' | _, _ => [] end.
Fixpoint all (k : nat) : list (list bool) :=
  match k with 0 => [[]] | S k' => map (cons false) (all k') ++ map (cons true) (all k') end.

Lemma vxor_length a b : length a = length b -> length (vxor a b) = length a.
Proof. revert b; induction a as [|x a IH]; intros [|y b] H; cbn in *; try lia. f_equal. apply IH. lia. Qed.
Lemma vxor_invol a d : length a = length d -> vxor (vxor a d) d = a.
Proof. revert d; induction a as [|x a IH]; intros [|y d] H; cbn in *; try lia; [reflexivity|].
  rewrite IH by lia. destruct x, y; reflexivity. Qed.
Lemma vxor_comm a b : vxor a b = vxor b a.
Proof. revert b; induction a as [|x a IH]; intros [|y b]; cbn; try reflexivity. rewrite IH, xorb_comm. reflexivity. Qed.
Lemma vxor_nilp y : vxor y y = repeat false (length y).
Proof. induction y as [|b y IH]; cbn; [reflexivity|]. rewrite IH, xorb_nilpotent. reflexivity. Qed.
Lemma vxor_false_l y : vxor (repeat false (length y)) y = y.
Proof. induction y as [|b y IH]; cbn; [reflexivity|]. rewrite IH. destruct b; reflexivity. Qed.
Lemma vxor_assoc a b c : length a = length b -> length b = length c -> vxor (vxor a b) c = vxor a (vxor b c).
Proof. revert b c; induction a as [|x a IH]; intros [|y b] [|z c] H1 H2; cbn in *; try lia; [reflexivity|].
  rewrite IH by lia. rewrite xorb_assoc. reflexivity. Qed.

Lemma NoDup_app' {T} (a b : list T) : NoDup a -> NoDup b -> (forall x, In x a -> In x b -> False) -> NoDup (a ++ b).
Proof. induction a as [|x a IH]; cbn; intros Ha Hb Hd; [exact Hb|]. apply NoDup_cons_iff in Ha as [Hx Ha].
  constructor; [rewrite in_app_iff; intros [H|H]; [auto| apply (Hd x); auto]| apply IH; auto; intros y Hy; apply Hd; auto]. Qed.
Lemma NoDup_map_inj_in {T U} (g : T -> U) l : (forall a b, In a l -> In b l -> g a = g b -> a = b) -> NoDup l -> NoDup (map g l).
Proof. induction l as [|x l IH]; cbn; intros Hi Hn; [constructor|]. apply NoDup_cons_iff in Hn as [Hx Hn].
  constructor; [|apply IH; auto]. rewrite in_map_iff. intros (y & E & Hy). apply Hx.
  rewrite (Hi x y (or_introl eq_refl) (or_intror Hy) (eq_sym E)). exact Hy. Qed.

Lemma in_all k x : In x (all k) <-> length x = k.
Proof.
  revert x; induction k as [|k IH]; intros x; cbn.
  - split; [intros [<-|[]]; reflexivity| destruct x; [auto| discriminate]].
  - rewrite in_app_iff, !in_map_iff. split.
    + intros [(y & <- & Hy)|(y & <- & Hy)]; cbn; f_equal; apply IH, Hy.
    + destruct x as [|[] x]; [discriminate| |]; cbn; intros H; [right|left]; exists x; (split; [reflexivity| apply IH; lia]).
Qed.
Lemma NoDup_all k : NoDup (all k).
Proof.
  induction k as [|k IH]; cbn; [constructor; [intros []| constructor]|].
  apply NoDup_app'.
  - apply NoDup_map_inj_in; [intros a b _ _ E; injection E; auto| exact IH].
  - apply NoDup_map_inj_in; [intros a b _ _ E; injection E; auto| exact IH].
  - intros x H1 H2. apply in_map_iff in H1 as (a & <- & _). apply in_map_iff in H2 as (b & E & _). discriminate.
Qed.

Lemma perm_shift k d : length d = k -> Permutation (map (fun x => vxor x d) (all k)) (all k).
Proof.
  intros Hd. apply NoDup_Permutation.
  - apply NoDup_map_inj_in; [|apply NoDup_all].
    intros a b Ha Hb E. apply in_all in Ha, Hb.
    rewrite <- (vxor_invol a d), <- (vxor_invol b d) by lia. rewrite E. reflexivity.
  - apply NoDup_all.
  - intros x. rewrite in_map_iff, in_all. split.
    + intros (y & <- & Hy). apply in_all in Hy. rewrite vxor_length; lia.
    + intros Hx. exists (vxor x d). split; [apply vxor_invol; lia| apply in_all; rewrite vxor_length; lia].
Qed.

Section Lin.
  Variables (k m : nat) (f : list bool -> list bool).
  Hypothesis f_len : forall x, length x = k -> length (f x) = m.
  Hypothesis f_lin : forall x y, length x = k -> length y = k -> f (vxor x y) = vxor (f x) (f y).
  Variable veqb : list bool -> list bool -> bool.
  Hypothesis veqb_spec : forall a b, veqb a b = true <-> a = b.

  Definition fiber (y : list bool) : nat := length (filter (fun x => veqb (f x) y) (all k)).

  Lemma filter_length_perm {T} (P : T -> bool) l l' : Permutation l l' -> length (filter P l) = length (filter P l').
  Proof. induction 1; cbn; try congruence; try (destruct (P x); cbn; congruence).
    destruct (P x), (P y); cbn; reflexivity. Qed.
  Lemma filter_map_length {T U} (P : U -> bool) (g : T -> U) l : length (filter P (map g l)) = length (filter (fun x => P (g x)) l).
  Proof. induction l as [|a l IH]; cbn; [reflexivity|]. destruct (P (g a)); cbn; congruence. Qed.
  Lemma filter_ext_in_length {T} (P Q : T -> bool) l : (forall x, In x l -> P x = Q x) -> length (filter P l) = length (filter Q l).
  Proof. induction l as [|a l IH]; cbn; intros H; [reflexivity|]. rewrite (H a (or_introl eq_refl)).
    destruct (Q a); cbn; rewrite IH; auto. Qed.

  Theorem fibers_equal x0 x1 : length x0 = k -> length x1 = k -> fiber (f x0) = fiber (f x1).
  Proof.
    intros L0 L1. unfold fiber. set (d := vxor x0 x1).
    assert (Ld : length d = k) by (unfold d; rewrite vxor_length; lia).
    rewrite <- (filter_length_perm (fun x => veqb (f x) (f x1)) _ _ (perm_shift k d Ld)). rewrite filter_map_length.
    apply filter_ext_in_length. intros x Hx. apply in_all in Hx.
    rewrite f_lin by assumption. unfold d. rewrite f_lin by assumption.
    (* f x = f x0  <->  f x + f x0 + f x1 = f x1 *)
    pose proof (f_len x Hx) as Lx. pose proof (f_len x0 L0) as Lf0. pose proof (f_len x1 L1) as Lf1.
    destruct (veqb (f x) (f x0)) eqn:E.
    - apply veqb_spec in E. rewrite E. symmetry. apply veqb_spec.
      rewrite <- vxor_assoc by lia. rewrite vxor_nilp, Lf0, <- Lf1. apply vxor_false_l.
    - symmetry. destruct (veqb (vxor (f x) (vxor (f x0) (f x1))) (f x1)) eqn:E'; [|reflexivity].
      apply veqb_spec in E'. exfalso.
      assert (Hx' : f x = f x0).
      { rewrite <- (vxor_invol (f x) (vxor (f x0) (f x1))) by (rewrite vxor_length; lia). rewrite E'.
        rewrite <- (vxor_invol (f x0) (f x1)) at 2 by lia.
        set (u := vxor (f x0) (f x1)). assert (Lu : length u = m) by (unfold u; rewrite vxor_length; lia).
        apply vxor_comm. }
      rewrite Hx' in E. assert (veqb (f x0) (f x0) = true) by (apply veqb_spec; reflexivity). congruence.
  Qed.
End Lin.
Print Assumptions fibers_equal.
