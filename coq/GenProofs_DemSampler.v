(* Obligation over the GENERATED facts about DemSampler<W>::resample: the loop is the one DemSample.v models - buffers cleared,
   flattened error k uses error row k (index from 0, advanced exactly once per error, no early exit), the row is randomised with
   the error's own probability unless errors are replayed, and is XORed into exactly the detector / observable rows its targets
   name (separators ignored) - so DemSample.dem_shot_is_xor_of_fired describes the buffers. *)
From Coq Require Import List Bool String.
Import ListNotations.
Require Import Gen_DemSampler.
Local Open Scope string_scope.

Definition expected_facts : list string :=
  ["clear_det"; "clear_obs"; "clear_err_unless_replay"; "index_from_zero"; "row_is_index"; "randomize_unless_replay"; "prob_arg0";
   "det_xor"; "obs_xor"; "only_two_kinds"; "one_increment_at_end"; "no_early_exit"].
Definition fact (n : string) : bool :=
  match find (fun '(k, _) => String.eqb k n) demsampler_facts with Some (_, b) => b | None => false end.
Definition demsampler_ok : bool :=
  match demsampler_refused with [] => true | _ => false end && forallb fact expected_facts.
Theorem resample_loop_is_the_model : demsampler_ok = true.
Proof. vm_compute. reflexivity. Qed.
