(* The reverse sensitivity tracker along whole circuits (C03 / C04 / C18 / C19: what SparseUnsignedRevFrameTracker computes).

   A detector (or observable) is a set of measurement positions of a run, given as a flag per step.  Walking the run backwards,
   the tracker multiplies the sensitivity by M at a flagged measurement of M and pulls it back through every Clifford (revtrack).
     fparz_is_acom         : if at every measurement the measured operator commutes with the sensitivity collected so far (the
                             tracker's anticommutation check, gauge_ok), then in the frame sampler the detector's flip parity is
                             [F, revtrack l d] - whatever the randomisation bits: a Pauli error E inserted at some time flips the
                             detector iff E anticommutes with the sensitivity at that time.
     detector_deterministic: if moreover the sensitivity at the start commutes with the group of the initial state, the detector
                             has the same value in EVERY run the semantics allows (soundness of the determinism check). *)
From Coq Require Import List Bool Arith Lia.
Import ListNotations.
Require Import Pauli Collapse Sem Refine ApProps Run FrameRun FrameComplete.

Section RevTrack.
  Variable n : nat.
  Notation wf := (Refine.wf n).
  Notation good := (Run.good n).
  Notation Inv := (Run.Inv n).
  Notation herm := (Run.herm n).
  Notation Idn := (Run.Idn n).
  Notation ok := (fun x : op * option bool => ok_op n (fst x)).

  (* sensitivity at the start of l of the detector with flags d *)
  Fixpoint revtrack (l : list (op * option bool)) (d : list bool) : pauli :=
    match l with
    | [] => Idn
    | (OpU C Ci, _) :: l' => Ci (revtrack l' (tl d))
    | (OpM M, _) :: l' => if hd false d then pmul M (revtrack l' (tl d)) else revtrack l' (tl d)
    end.
  (* the tracker's check: a measured operator never anticommutes with the sensitivity behind it *)
  Fixpoint gauge_ok (l : list (op * option bool)) (d : list bool) : Prop :=
    match l with
    | [] => True
    | (OpU _ _, _) :: l' => gauge_ok l' (tl d)
    | (OpM M, _) :: l' => acom M (revtrack l' (tl d)) = false /\ gauge_ok l' (tl d)
    end.
  (* parity of the detector's results in a run *)
  Fixpoint par_rec (l : list (op * option bool)) (d : list bool) : bool :=
    match l with
    | [] => false
    | (OpM _, Some r) :: l' => xorb (andb (hd false d) r) (par_rec l' (tl d))
    | _ :: l' => par_rec l' (tl d)
    end.
  (* parity of the detector's flips in the frame sampler *)
  Fixpoint fparz (F : pauli) (zs : list bool) (l : list (op * option bool)) (d : list bool) : bool :=
    match l with
    | [] => false
    | (OpU C _, _) :: l' => fparz (C F) (tl zs) l' (tl d)
    | (OpM M, _) :: l' => xorb (andb (hd false d) (acom F M)) (fparz (if hd false zs then pmul F M else F) (tl zs) l' (tl d))
    end.

  Lemma revtrack_wf l : forall d, Forall ok l -> wf (revtrack l d).
  Proof.
    induction l as [|[o r] l IH]; intros d Hok; cbn [revtrack]; [apply wf_Idn|].
    inversion Hok as [|? ? Ho Hok']; subst. cbn [fst] in Ho. destruct o as [C Ci|M]; cbn [ok_op] in Ho.
    - apply (g_len _ _ _ (proj2 Ho)), IH, Hok'.
    - destruct (hd false d); [apply wf_pmul; [apply Ho| apply IH, Hok']| apply IH, Hok'].
  Qed.

  Theorem fparz_is_acom l : forall F zs d, Forall ok l -> wf F -> gauge_ok l d -> fparz F zs l d = acom F (revtrack l d).
  Proof.
    induction l as [|[o r] l IH]; intros F zs d Hok HF Hg; cbn [fparz revtrack].
    - symmetry. apply acom_zeros_r.
    - inversion Hok as [|? ? Ho Hok']; subst. cbn [fst] in Ho. pose proof (revtrack_wf l (tl d) Hok') as WS.
      destruct o as [C Ci|M]; cbn [ok_op gauge_ok] in *.
      + rewrite (IH (C F) (tl zs) (tl d) Hok' (g_len _ _ _ (proj1 Ho) F HF) Hg).
        rewrite <- (good_acom n Ci C (C F) (revtrack l (tl d)) (proj2 Ho) (g_len _ _ _ (proj1 Ho) F HF) WS).
        now rewrite (g_GF _ _ _ (proj1 Ho)) by exact HF.
      + destruct Hg as [Hc Hg]. destruct Ho as [WM HH].
        assert (W1 : wf (if hd false zs then pmul F M else F)) by (destruct (hd false zs); [apply wf_pmul; assumption| exact HF]).
        rewrite (IH _ (tl zs) (tl d) Hok' W1 Hg).
        assert (E1 : acom (if hd false zs then pmul F M else F) (revtrack l (tl d)) = acom F (revtrack l (tl d))).
        { destruct (hd false zs); [|reflexivity]. rewrite (acom_pmul_l n F M _ HF WM WS), Hc. apply xorb_false_r. }
        rewrite E1. destruct (hd false d); cbn [andb].
        * rewrite acom_pmul_r by (unfold Refine.wf, pauli, bits in *; lia). reflexivity.
        * apply xorb_false_l.
  Qed.

  (* runs have Clifford steps without and measurements with a result *)
  Definition shaped (x : op * option bool) : Prop :=
    match x with (OpU _ _, None) => True | (OpM _, Some _) => True | _ => False end.
  Lemma sim_run_shaped l : forall s s', sim_run n s l s' -> Forall shaped l.
  Proof.
    induction l as [|[o r] l IH]; intros s s' H; inversion H; subst; constructor; [|eapply IH; eassumption].
    match goal with Hs : sim_step n _ _ _ _ |- _ => destruct Hs; exact Logic.I end.
  Qed.

  (* the sampler's record of the detector = the reference's xor the flips *)
  Lemma frunz_par l : forall F zs d, Forall shaped l -> par_rec (snd (frunz F zs l)) d = xorb (par_rec l d) (fparz F zs l d).
  Proof.
    induction l as [|[o r] l IH]; intros F zs d Hs; cbn [frunz par_rec fparz]; [reflexivity|].
    inversion Hs as [|? ? H1 Hs']; subst.
    destruct o as [C Ci|M]; destruct r as [b|]; cbn [shaped] in H1; try contradiction; cbn [fstepz option_map]; rewrite snd_let; cbn [par_rec].
    - apply IH, Hs'.
    - rewrite (IH _ (tl zs) (tl d) Hs').
      destruct (hd false d), b, (acom F M), (par_rec l (tl d)), (fparz (if hd false zs then pmul F M else F) (tl zs) l (tl d)); reflexivity.
  Qed.

  (* soundness of the determinism check *)
  Theorem detector_deterministic l la s s' Sg S' d : Forall ok l -> good (fst s) (snd s) -> Inv (fst s) Sg ->
    sim_run n s l s' -> sem_run Sg la S' -> map fst la = map fst l ->
    gauge_ok l d -> (forall g, wf g -> Sg g -> acom g (revtrack l d) = false) ->
    par_rec la d = par_rec l d.
  Proof.
    intros Hok G I Hrun Halt Hops Hg Hinit.
    destruct (frame_complete n l la s s' Sg S' Hok G I Hrun Halt Hops) as (g & zs & Wg & Sg_g & E).
    rewrite <- E, (frunz_par l g zs d (sim_run_shaped l s s' Hrun)), (fparz_is_acom l g zs d Hok Wg Hg), (Hinit g Wg Sg_g).
    apply xorb_false_r.
  Qed.

  (* a Pauli error E put in front of the suffix l of a run flips the detector iff it anticommutes with the sensitivity there;
     before the error the frame is the identity and flips nothing *)
  Corollary error_flips_iff_anticommutes l E zs d : Forall ok l -> wf E -> gauge_ok l d ->
    fparz E zs l d = acom E (revtrack l d).
  Proof. intros Hok HE Hg. exact (fparz_is_acom l E zs d Hok HE Hg). Qed.
End RevTrack.
Print Assumptions fparz_is_acom. Print Assumptions detector_deterministic.

(* from the all-zero state: a sensitivity without X part at the start (the tracker's rule at the beginning of the circuit) *)
Corollary detector_deterministic_zero_state n l la s' S' d : Forall (fun x => ok_op n (fst x)) l ->
  sim_run n (fun P => P, fun P => P) l s' -> sem_run (fun P => Zplus P) la S' -> map fst la = map fst l ->
  gauge_ok n l d -> xfreeb (snd (revtrack n l d)) = true -> par_rec la d = par_rec l d.
Proof.
  intros Hok Hrun Halt Hops Hg Hx.
  apply (detector_deterministic n l la (fun P => P, fun P => P) s' (fun P => Zplus P) S' d Hok (init_good n) (init_inv n) Hrun Halt Hops Hg).
  intros g Wg [_ Hz]. apply acom_xfree; assumption.
Qed.
Print Assumptions detector_deterministic_zero_state.
