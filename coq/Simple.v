From Coq Require Import List Bool Arith Lia NArith Permutation.
Import ListNotations.
Require Import Cycle.

(* C17, continued: a closed walk with non-zero mask can be shortened to a *simple* one (no repeated vertex),
   still closed at the boundary or avoiding it.  Walks are re-expressed as chains with an explicit vertex
   sequence so that they can be cut at repeated vertices. *)
Section Simple.
  Variable B : nat.
  Notation touchesB := (touches B).

  Fixpoint chain (s : nat) (es : list edge) : Prop :=
    match es with [] => True | e :: es' => (eu e = s \/ ev e = s) /\ chain (other s e) es' end.
  Fixpoint vseq (s : nat) (es : list edge) : list nat :=
    match es with [] => [] | e :: es' => other s e :: vseq (other s e) es' end.
  Definition endv (s : nat) (es : list edge) : nat := last (vseq s es) s.
  Definition good (s : nat) (C : list edge) : Prop := s = B \/ Forall (fun e => ~ touchesB e) C.

  Lemma last_cons_def {T} (x d : T) l : last (x :: l) d = last l x.
  Proof. revert x d; induction l as [|y l IH]; intros x d; [reflexivity|].
    change (last (x :: y :: l) d) with (last (y :: l) d). rewrite (IH y d), (IH y x). reflexivity. Qed.
  Lemma endv_cons s e es : endv s (e :: es) = endv (other s e) es.
  Proof. unfold endv. cbn [vseq]. apply last_cons_def. Qed.
  Lemma endv_nil s : endv s [] = s. Proof. reflexivity. Qed.

  Lemma other_fwd s e : eu e = s -> other s e = ev e.
  Proof. intros <-. unfold other. rewrite Nat.eqb_refl. reflexivity. Qed.
  Lemma other_bwd s e : ev e = s -> other s e = eu e.
  Proof. intros <-. unfold other. destruct (Nat.eqb_spec (ev e) (eu e)) as [E|E]; congruence. Qed.

  Lemma walk_chain s t es : walk s t es -> chain s es /\ endv s es = t.
  Proof.
    induction 1 as [s | s t e es Hu _ [IH1 IH2] | s t e es Hv _ [IH1 IH2]].
    - split; [exact I| reflexivity].
    - cbn [chain]. rewrite endv_cons, (other_fwd s e Hu). auto.
    - cbn [chain]. rewrite endv_cons, (other_bwd s e Hv). auto.
  Qed.
  Lemma chain_walk s es : chain s es -> walk s (endv s es) es.
  Proof.
    revert s; induction es as [|e es IH]; intros s H; [apply walk_nil|].
    destruct H as [[Hu|Hv] Hc]; rewrite endv_cons.
    - apply walk_fwd; [exact Hu|]. rewrite <- (other_fwd s e Hu). apply IH, Hc.
    - apply walk_bwd; [exact Hv|]. rewrite <- (other_bwd s e Hv). apply IH, Hc.
  Qed.

  Lemma vseq_app s A C : vseq s (A ++ C) = vseq s A ++ vseq (endv s A) C.
  Proof. revert s; induction A as [|e A IH]; intros s; [reflexivity|]. cbn [app vseq]. rewrite IH, endv_cons. reflexivity. Qed.
  Lemma endv_app s A C : endv s (A ++ C) = endv (endv s A) C.
  Proof. revert s; induction A as [|e A IH]; intros s; [reflexivity|]. cbn [app]. rewrite !endv_cons. apply IH. Qed.
  Lemma chain_app s A C : chain s (A ++ C) <-> chain s A /\ chain (endv s A) C.
  Proof. revert s; induction A as [|e A IH]; intros s; cbn [app chain]; [tauto|]. rewrite IH, endv_cons. tauto. Qed.
  Lemma vseq_length s C : length (vseq s C) = length C.
  Proof. revert s; induction C as [|e C IH]; intros s; cbn; [reflexivity|]. f_equal. apply IH. Qed.

  (* cut a chain after the vertex at a given position of its vertex sequence *)
  Lemma vseq_split : forall l1 x l2 s C, vseq s C = l1 ++ x :: l2 ->
    exists C1 C2, C = C1 ++ C2 /\ C1 <> [] /\ vseq s C1 = l1 ++ [x] /\ endv s C1 = x /\ vseq x C2 = l2.
  Proof.
    induction l1 as [|y l1 IH]; intros x l2 s C H; destruct C as [|e C]; cbn [vseq app] in H; try discriminate; injection H as H1 H2.
    - subst x. exists [e], C. split; [reflexivity|]. split; [discriminate|]. cbn [vseq app]. rewrite endv_cons, endv_nil. auto.
    - subst y. destruct (IH x l2 (other s e) C H2) as (C1 & C2 & -> & _ & Hv & He & Hr).
      exists (e :: C1), C2. split; [reflexivity|]. split; [discriminate|]. cbn [vseq app]. rewrite endv_cons, Hv. auto.
  Qed.

  (* an edge of a chain that touches B has B among the chain's vertices *)
  Lemma chain_touch s es e : chain s es -> In e es -> touchesB e -> s = B \/ In B (vseq s es).
  Proof.
    revert s; induction es as [|e' es IH]; intros s Hc Hin Ht; [destruct Hin|]. destruct Hin as [<-|Hin].
    - destruct Hc as [Hs _]. cbn [vseq]. destruct Hs as [Hu|Hv].
      + rewrite (other_fwd s e' Hu). destruct Ht as [Ht|Ht]; [left; congruence| right; left; exact Ht].
      + rewrite (other_bwd s e' Hv). destruct Ht as [Ht|Ht]; [right; left; exact Ht| left; congruence].
    - destruct Hc as [_ Hc]. destruct (IH (other s e') Hc Hin Ht) as [H|H]; right; cbn [vseq]; [left; exact H| right; exact H].
  Qed.

  Lemma not_NoDup_split (l : list nat) : ~ NoDup l -> exists l1 x l2 l3, l = l1 ++ x :: l2 ++ x :: l3.
  Proof.
    induction l as [|a l IH]; intros H; [exfalso; apply H; constructor|].
    destruct (in_dec Nat.eq_dec a l) as [Hin|Hnin].
    - apply in_split in Hin as (l2 & l3 & ->). exists [], a, l2, l3. reflexivity.
    - destruct IH as (l1 & x & l2 & l3 & ->); [intros Hn; apply H; constructor; assumption|].
      exists (a :: l1), x, l2, l3. reflexivity.
  Qed.

  Lemma mask_of_app3 (A C D : list edge) : mask_of (A ++ C ++ D) = N.lxor (mask_of C) (mask_of (A ++ D)).
  Proof. rewrite !mask_of_app. rewrite <- !N.lxor_assoc. rewrite (N.lxor_comm (mask_of A) (mask_of C)). reflexivity. Qed.

  Theorem simple_exists : forall k s C, length C = k -> chain s C -> endv s C = s -> mask_of C <> 0%N -> good s C ->
    exists s' C', chain s' C' /\ endv s' C' = s' /\ mask_of C' <> 0%N /\ good s' C' /\
                  NoDup (vseq s' C') /\ length C' <= k /\ incl C' C.
  Proof.
    induction k as [k IH] using lt_wf_ind. intros s C Lk Hch Hend Hm Hg.
    destruct (ListDec.NoDup_dec Nat.eq_dec (vseq s C)) as [Hnd|Hnd].
    { exists s, C. repeat split; auto; [lia| apply incl_refl]. }
    assert (HC : C <> []) by (intros ->; apply Hm; reflexivity).
    (* case (i): closed at B and B also occurs in the interior *)
    destruct (Nat.eq_dec s B) as [HsB|HsB];
      [destruct (in_dec Nat.eq_dec B (removelast (vseq s C))) as [Hin|Hnin]|].
    - subst s. assert (Hv : vseq B C <> []) by (intros E; apply (f_equal (@length _)) in E; rewrite vseq_length in E; destruct C; [congruence| discriminate]).
      apply in_split in Hin as (l1 & l2' & El).
      pose proof (app_removelast_last B Hv) as Ev. rewrite El in Ev. rewrite <- app_assoc in Ev. cbn [app] in Ev.
      destruct (vseq_split l1 B (l2' ++ [last (vseq B C) B]) B C Ev) as (C1 & C2 & -> & HC1 & Hv1 & He1 & Hv2).
      assert (HC2 : C2 <> []) by (intros ->; cbn in Hv2; destruct l2'; discriminate).
      apply chain_app in Hch as [Hc1 Hc2]. rewrite He1 in Hc2. rewrite endv_app, He1 in Hend.
      rewrite mask_of_app in Hm. rewrite app_length in Lk.
      assert (L1 : 0 < length C1) by (destruct C1; [congruence| cbn; lia]).
      assert (L2 : 0 < length C2) by (destruct C2; [congruence| cbn; lia]).
      destruct (N.eq_dec (mask_of C1) 0%N) as [Hz|Hnz].
      + rewrite Hz, N.lxor_0_l in Hm.
        destruct (IH (length C2) ltac:(lia) B C2 eq_refl Hc2 Hend Hm (or_introl eq_refl)) as (s' & C' & H1 & H2 & H3 & H4 & H5 & H6 & H7).
        exists s', C'. repeat split; auto; [lia| apply incl_tran with C2; [exact H7| apply incl_appr, incl_refl]].
      + destruct (IH (length C1) ltac:(lia) B C1 eq_refl Hc1 He1 Hnz (or_introl eq_refl)) as (s' & C' & H1 & H2 & H3 & H4 & H5 & H6 & H7).
        exists s', C'. repeat split; auto; [lia| apply incl_tran with C1; [exact H7| apply incl_appl, incl_refl]].
    - (* case (ii) with s = B and no interior B *)
      destruct (not_NoDup_split _ Hnd) as (l1 & x & l2 & l3 & Ev).
      destruct (vseq_split l1 x (l2 ++ x :: l3) s C Ev) as (C1 & C23 & -> & HC1 & Hv1 & He1 & Hv23).
      destruct (vseq_split l2 x l3 x C23 Hv23) as (C2 & C3 & -> & HC2 & Hv2 & He2 & Hv3).
      apply chain_app in Hch as [Hc1 Hc23]. rewrite He1 in Hc23. apply chain_app in Hc23 as [Hc2 Hc3]. rewrite He2 in Hc3.
      rewrite !endv_app, He1, He2 in Hend. rewrite mask_of_app3 in Hm. rewrite !app_length in Lk.
      assert (L1 : 0 < length C1) by (destruct C1; [congruence| cbn; lia]).
      assert (L2 : 0 < length C2) by (destruct C2; [congruence| cbn; lia]).
      destruct (N.eq_dec (mask_of C2) 0%N) as [Hz|Hnz].
      + rewrite Hz, N.lxor_0_l in Hm.
        assert (Hc13 : chain s (C1 ++ C3)) by (apply chain_app; rewrite He1; auto).
        assert (He13 : endv s (C1 ++ C3) = s) by (rewrite endv_app, He1; exact Hend).
        destruct (IH (length (C1 ++ C3)) ltac:(rewrite app_length; lia) s (C1 ++ C3) eq_refl Hc13 He13 Hm (or_introl HsB))
          as (s' & C' & H1 & H2 & H3 & H4 & H5 & H6 & H7).
        exists s', C'. repeat split; auto; [rewrite app_length in H6; lia|].
        apply incl_tran with (C1 ++ C3); [exact H7|]. intros e He. apply in_app_or in He as [He|He]; apply in_or_app; [left; exact He| right; apply in_or_app; right; exact He].
      + (* the inner loop C2 at x: either x = B or it avoids B, because B is not an interior vertex *)
        assert (Hg2 : good x C2).
        { destruct (Nat.eq_dec x B) as [HxB|HxB]; [left; exact HxB| right].
          apply Forall_forall. intros e He Ht.
          destruct (chain_touch x C2 e Hc2 He Ht) as [H|H]; [congruence|].
          apply Hnin. rewrite Ev. rewrite Hv2 in H.
          replace (l1 ++ x :: l2 ++ x :: l3) with ((l1 ++ x :: l2) ++ x :: l3) by (rewrite <- app_assoc; reflexivity).
          rewrite removelast_app by discriminate. apply in_or_app. left.
          apply in_app_or in H as [H|[H|[]]]; apply in_or_app; right; [right; exact H| left; exact H]. }
        destruct (IH (length C2) ltac:(lia) x C2 eq_refl Hc2 He2 Hnz Hg2) as (s' & C' & H1 & H2 & H3 & H4 & H5 & H6 & H7).
        exists s', C'. repeat split; auto; [lia|].
        apply incl_tran with C2; [exact H7|]. intros e He. apply in_or_app; right; apply in_or_app; left; exact He.
    - (* case (ii) with s <> B: the whole walk avoids B *)
      assert (Hav : Forall (fun e => ~ touchesB e) C) by (destruct Hg as [Hg|Hg]; [congruence| exact Hg]).
      destruct (not_NoDup_split _ Hnd) as (l1 & x & l2 & l3 & Ev).
      destruct (vseq_split l1 x (l2 ++ x :: l3) s C Ev) as (C1 & C23 & -> & HC1 & Hv1 & He1 & Hv23).
      destruct (vseq_split l2 x l3 x C23 Hv23) as (C2 & C3 & -> & HC2 & Hv2 & He2 & Hv3).
      apply chain_app in Hch as [Hc1 Hc23]. rewrite He1 in Hc23. apply chain_app in Hc23 as [Hc2 Hc3]. rewrite He2 in Hc3.
      rewrite !endv_app, He1, He2 in Hend. rewrite mask_of_app3 in Hm. rewrite !app_length in Lk.
      assert (L1 : 0 < length C1) by (destruct C1; [congruence| cbn; lia]).
      assert (L2 : 0 < length C2) by (destruct C2; [congruence| cbn; lia]).
      apply Forall_app in Hav as [Hav1 Hav23]. apply Forall_app in Hav23 as [Hav2 Hav3].
      destruct (N.eq_dec (mask_of C2) 0%N) as [Hz|Hnz].
      + rewrite Hz, N.lxor_0_l in Hm.
        assert (Hc13 : chain s (C1 ++ C3)) by (apply chain_app; rewrite He1; auto).
        assert (He13 : endv s (C1 ++ C3) = s) by (rewrite endv_app, He1; exact Hend).
        assert (Hg13 : good s (C1 ++ C3)) by (right; apply Forall_app; auto).
        destruct (IH (length (C1 ++ C3)) ltac:(rewrite app_length; lia) s (C1 ++ C3) eq_refl Hc13 He13 Hm Hg13)
          as (s' & C' & H1 & H2 & H3 & H4 & H5 & H6 & H7).
        exists s', C'. repeat split; auto; [rewrite app_length in H6; lia|].
        apply incl_tran with (C1 ++ C3); [exact H7|]. intros e He. apply in_app_or in He as [He|He]; apply in_or_app; [left; exact He| right; apply in_or_app; right; exact He].
      + destruct (IH (length C2) ltac:(lia) x C2 eq_refl Hc2 He2 Hnz (or_intror Hav2)) as (s' & C' & H1 & H2 & H3 & H4 & H5 & H6 & H7).
        exists s', C'. repeat split; auto; [lia|].
        apply incl_tran with C2; [exact H7|]. intros e He. apply in_or_app; right; apply in_or_app; left; exact He.
  Qed.

  (* together with the cycle lemma: the smallest undetectable logical error is at least as long as some simple
     closed walk with non-zero mask that is closed at B or avoids B *)
  Corollary simple_cycle_le_min_error E : undetectable B E -> mask_of E <> 0%N ->
    exists s C, chain s C /\ endv s C = s /\ mask_of C <> 0%N /\ good s C /\ NoDup (vseq s C) /\
                length C <= length E /\ incl C E.
  Proof.
    intros Hu Hm. destruct (cycle_lemma B (length E) E eq_refl Hu Hm) as (s & C & R & Hw & Hp & HmC & Hg).
    destruct (walk_chain s s C Hw) as [Hc He].
    destruct (simple_exists (length C) s C eq_refl Hc He HmC Hg) as (s' & C' & H1 & H2 & H3 & H4 & H5 & H6 & H7).
    exists s', C'. repeat split; auto.
    - apply Permutation_length in Hp. rewrite app_length in Hp. lia.
    - intros e He'. apply (Permutation_in e Hp). apply in_or_app. left. apply H7, He'.
  Qed.
End Simple.
Print Assumptions simple_cycle_le_min_error.
