(* Hand model (tie H) of src/stim/circuit/gate_decomposition.cc: decompose_mpp_operation, decompose_spp_or_spp_dag_operation,
   decompose_pair_instruction_into_disjoint_segments and for_each_disjoint_target_segment_in_instruction_reversed. The executable
   definitions are extracted and run against the real functions on the same instructions (checks/c13.py, `mppdecomp` ... of the
   harness); MppProofs.v proves what the emitted gates do. *)
From Coq Require Import List Bool Arith.
Import ListNotations.

(* a target of MPP / SPP: a Pauli on a qubit (x, z bits, inverted flag), a combiner, or a classical bit (kept opaque) *)
Inductive mtgt := MP (x z inv : bool) (q : nat) | MComb | MBit (id : nat).

(* the product being accumulated: content as a function, sign, and whether an odd number of anticommuting pairs was met *)
Record acc := { ax : nat -> bool; az : nat -> bool; asign : bool; aimag : bool }.
Definition acc0 : acc := {| ax := fun _ => false; az := fun _ => false; asign := false; aimag := false |}.
Definition updf (f : nat -> bool) (q : nat) (v : bool) : nat -> bool := fun k => if Nat.eqb k q then v else f k.

(* PauliString::mul_pauli_term(t, imag, right_mul = false) *)
Definition mul_term (a : acc) (x2 z2 inv : bool) (q : nat) : acc :=
  let ox := ax a q in let oz := az a q in
  let nx := xorb ox x2 in let nz := xorb oz z2 in
  let x1z2 := nx && z2 in
  let anti := xorb (x2 && nz) x1z2 in
  {| ax := updf (ax a) q nx; az := updf (az a) q nz;
     asign := xorb (xorb (asign a) (xorb (xorb (xorb (aimag a) ox) oz) x1z2 && anti)) inv;
     aimag := xorb (aimag a) anti |}.

(* one product: the first target and every target that follows a combiner *)
Fixpoint split_group (ts : list mtgt) : list mtgt * list mtgt :=
  match ts with
  | [] => ([], [])
  | t :: r =>
    match r with
    | MComb :: r' => let (g, rest) := split_group r' in (t :: g, rest)
    | _ => ([t], r)
    end
  end.

(* accumulate_next_obs_terms_to_pauli_string_helper on one group; None = an unsupported target *)
Fixpoint accumulate (g : list mtgt) (a : acc) (bits : list nat) (allow_bits : bool) : option (acc * list nat) :=
  match g with
  | [] => Some (a, bits)
  | MP x z inv q :: r => if x || z then accumulate r (mul_term a x z inv q) bits allow_bits else None
  | MBit b :: r => if allow_bits then accumulate r a (bits ++ [b]) allow_bits else None
  | MComb :: _ => None
  end.

(* for_each_active_pauli: qubits below n with a non-identity Pauli, ascending *)
Definition active (n : nat) (a : acc) : list nat := filter (fun q => ax a q || az a q) (seq 0 n).

Inductive ogate := GH | GHYZ | GCX | GM | GMPAD | GS | GSDAG.
(* an emitted instruction: gate and targets; a target is a qubit with an inverted flag, or a classical bit *)
Inductive otgt := OQ (q : nat) (inv : bool) | OB (id : nat).
Definition oinstr := (ogate * list otgt)%type.

Definition qs (l : list nat) : list otgt := map (fun q => OQ q false) l.
Definition conj_emit (g : ogate) (ts : list otgt) (inner : list oinstr) : list oinstr :=
  match ts with [] => inner | _ => (g, ts) :: inner ++ [(g, ts)] end.

(* the buffers of decompose_mpp_operation *)
Record mbuf := { h_xz : list nat; h_yz : list nat; cnot : list nat; meas : list (nat * bool); merged : list nat }.
Definition mbuf0 : mbuf := {| h_xz := []; h_yz := []; cnot := []; meas := []; merged := [] |}.

Definition flush (b : mbuf) : list oinstr :=
  match meas b with
  | [] => []
  | _ => conj_emit GH (qs (h_xz b)) (conj_emit GHYZ (qs (h_yz b)) (conj_emit GCX (qs (cnot b))
           [(GM, map (fun '(q, s) => OQ q s) (meas b))]))
  end.

(* buffer the operations of one product (support in ascending order, first qubit measured) *)
Fixpoint buffer_terms (a : acc) (support : list nat) (first : option nat) (b : mbuf) : mbuf :=
  match support with
  | [] => b
  | q :: r =>
    let x := ax a q in let z := az a q in
    let b1 := if x then (if z then {| h_xz := h_xz b; h_yz := h_yz b ++ [q]; cnot := cnot b; meas := meas b; merged := merged b |}
                         else {| h_xz := h_xz b ++ [q]; h_yz := h_yz b; cnot := cnot b; meas := meas b; merged := merged b |})
              else b in
    match first with
    | None => buffer_terms a r (Some q)
                {| h_xz := h_xz b1; h_yz := h_yz b1; cnot := cnot b1; meas := meas b1 ++ [(q, asign a)]; merged := merged b1 |}
    | Some f => buffer_terms a r first
                {| h_xz := h_xz b1; h_yz := h_yz b1; cnot := cnot b1 ++ [q; f]; meas := meas b1; merged := merged b1 |}
    end
  end.

Definition memq (q : nat) (l : list nat) : bool := existsb (Nat.eqb q) l.
Definition overlaps (support merged : list nat) : bool := existsb (fun q => memq q merged) support.

(* decompose_mpp_operation; fuel = number of targets (each product consumes at least one). None = invalid instruction *)
Fixpoint mpp_go (fuel n : nat) (ts : list mtgt) (b : mbuf) (out : list oinstr) : option (list oinstr) :=
  match ts with
  | [] => Some (out ++ flush b)
  | _ =>
    match fuel with
    | 0 => None
    | S fuel' =>
      let (g, rest) := split_group ts in
      match accumulate g acc0 [] false with
      | None => None
      | Some (a, _) =>
        if aimag a then None
        else
          let sup := active n a in
          match sup with
          | [] => mpp_go fuel' n rest mbuf0 (out ++ flush b ++ [(GMPAD, [OQ (if asign a then 1 else 0) false])])
          | _ =>
            let fl := overlaps sup (merged b) in
            let b0 := if fl then mbuf0 else b in
            let out0 := if fl then out ++ flush b else out in
            let b1 := {| h_xz := h_xz b0; h_yz := h_yz b0; cnot := cnot b0; meas := meas b0; merged := merged b0 ++ sup |} in
            mpp_go fuel' n rest (buffer_terms a sup None b1) out0
          end
      end
    end
  end.
Definition decompose_mpp (n : nat) (ts : list mtgt) : option (list oinstr) := mpp_go (S (length ts)) n ts mbuf0 [].

(* decompose_spp_or_spp_dag_operation_helper on one accumulated product *)
Fixpoint spp_terms (a : acc) (support : list nat) (focus : option nat) (hx hy cn : list nat) : option nat * list nat * list nat * list nat :=
  match support with
  | [] => (focus, hx, hy, cn)
  | q :: r =>
    let x := ax a q in let z := az a q in
    let hx1 := if x && negb z then hx ++ [q] else hx in
    let hy1 := if x && z then hy ++ [q] else hy in
    match focus with
    | None => spp_terms a r (Some q) hx1 hy1 cn
    | Some f => spp_terms a r focus hx1 hy1 (cn ++ [q; f])
    end
  end.
Definition spp_one (n : nat) (a : acc) (bits : list nat) (invert : bool) : list oinstr :=
  match spp_terms a (active n a) None [] [] [] with
  | (None, _, _, _) => []
  | (Some f, hx, hy, cn) =>
    let cn_t := qs cn ++ flat_map (fun b => [OB b; OQ f false]) bits in
    let g := if xorb invert (asign a) then GSDAG else GS in
    conj_emit GH (qs hx) (conj_emit GHYZ (qs hy) (conj_emit GCX cn_t [(g, [OQ f false])]))
  end.
Fixpoint spp_go (fuel n : nat) (ts : list mtgt) (invert : bool) (out : list oinstr) : option (list oinstr) :=
  match ts with
  | [] => Some out
  | _ =>
    match fuel with
    | 0 => None
    | S fuel' =>
      let (g, rest) := split_group ts in
      match accumulate g acc0 [] true with
      | None => None
      | Some (a, bits) => if aimag a then None else spp_go fuel' n rest invert (out ++ spp_one n a bits invert)
      end
    end
  end.
Definition decompose_spp (n : nat) (dag : bool) (ts : list mtgt) : option (list oinstr) := spp_go (S (length ts)) n ts dag [].

(* decompose_pair_instruction_into_disjoint_segments: cur is the open segment, newest pair first *)
Fixpoint pair_segs (ps : list (nat * nat)) (used : list nat) (cur : list (nat * nat)) : list (list (nat * nat)) :=
  match ps with
  | [] => match cur with [] => [] | _ => [rev cur] end
  | (a, b) :: r =>
    if memq a used || memq b used then rev cur :: pair_segs r [a; b] [(a, b)]
    else pair_segs r (a :: b :: used) ((a, b) :: cur)
  end.
Definition pair_segments (ps : list (nat * nat)) : list (list (nat * nat)) := pair_segs ps [] [].

(* for_each_disjoint_target_segment_in_instruction_reversed: targets with a qubit value are Some q; walks from the end, the
   callback sees the last segment first *)
Fixpoint rev_segs (rts : list (option nat)) (used : list nat) (cur : list (option nat)) : list (list (option nat)) :=
  match rts with
  | [] => match cur with [] => [] | _ => [cur] end
  | t :: r =>
    match t with
    | Some q => if memq q used then cur :: rev_segs r [q] [t] else rev_segs r (q :: used) (t :: cur)
    | None => rev_segs r used (t :: cur)
    end
  end.
Definition rev_segments (ts : list (option nat)) : list (list (option nat)) := rev_segs (rev ts) [] [].
