(* C10 — Suggested error decompositions are sound. *)
From Coq Require Import List NArith QArith Permutation.
Import ListNotations.
Require Import XorConv Decomp.
Local Open Scope Q_scope.

(* a decomposition whose components XOR to the symptoms of the undecomposed error, read without separators, defines the same
   distribution as the undecomposed model: any number of errors, any number of components, any symptom masks *)
Theorem C10_sound_decomposition_same_distribution :
  forall (dec : list (Q * list N)) (orig : list (Q * N)),
  Forall2 (fun d o => fst d = fst o /\ xor_all (snd d) = snd o) dec orig -> deq (decomposed_dist dec) (dem_dist orig).
Proof. exact sound_decomposition_same_distribution. Qed.
(* the canonical form the oracle compares is distribution preserving: order is irrelevant, equal symptom sets merge with
   p(1-q) + q(1-p), zero-probability and empty mechanisms can be dropped *)
Theorem C10_order_irrelevant : forall ms ms', Permutation ms ms' -> deq (dem_dist ms) (dem_dist ms').
Proof. exact dem_dist_perm. Qed.
Theorem C10_merge_equal_symptoms :
  forall p q s ms, deq (dem_dist ((p, s) :: (q, s) :: ms)) (dem_dist ((p * (1 - q) + q * (1 - p), s) :: ms)).
Proof. exact dem_dist_merge. Qed.
Theorem C10_drop_zero : forall s ms, deq (dem_dist ((0, s) :: ms)) (dem_dist ms).
Proof. exact dem_dist_drop_zero. Qed.
Theorem C10_drop_empty : forall p ms, deq (dem_dist ((p, 0%N) :: ms)) (dem_dist ms).
Proof. exact dem_dist_drop_empty. Qed.
(* the demand is not vacuous: components that do not XOR to the symptoms give a different distribution *)
Theorem C10_unsound_decomposition_differs : ~ deq (decomposed_dist [(1 # 4, [1%N; 2%N])]) (dem_dist [(1 # 4, 1%N)]).
Proof. exact unsound_decomposition_differs. Qed.
Print Assumptions C10_sound_decomposition_same_distribution. Print Assumptions C10_order_irrelevant.
Print Assumptions C10_merge_equal_symptoms.
