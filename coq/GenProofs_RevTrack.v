(* Obligations over the GENERATED model of SparseUnsignedRevFrameTracker's unitary undo_* routines: per detector, the
   update of (d in xs[q], d in zs[q]) is the unsigned action of the table's INVERSE gate (Heisenberg picture backwards). *)
From Coq Require Import List Bool String ZArith.
Import ListNotations.
Require Import Stab Act Gen_GateTable Gen_RevTrack.
Local Open Scope string_scope.

Definition nosign1 (f : bool -> bool -> bool -> t1) : bool -> bool -> bool -> t1 :=
  fun x z s => let '(x', z', _) := f x z s in (x', z', s).
Definition nosign2 (f : bool -> bool -> bool -> bool -> bool -> t2) : bool -> bool -> bool -> bool -> bool -> t2 :=
  fun x1 z1 x2 z2 s => let '(a, b, c, d, _) := f x1 z1 x2 z2 s in (a, b, c, d, s).
Definition ftab1 (g : string) := nosign1 (local1 (flows_of (inverse_of (gate_named g)))).
Definition ftab2 (g : string) := nosign2 (local2 (flows_of (inverse_of (gate_named g)))).
Definition fid1 (x z s : bool) : t1 := (x, z, s).
Definition fid2 (x1 z1 x2 z2 s : bool) : t2 := (x1, z1, x2, z2, s).
Definition is_nil {A} (l : list A) : bool := match l with [] => true | _ => false end.

Definition bad_rev1 := filter (fun '(g, f) => negb (unitary1 (gate_named g) && agree1 f (ftab1 g))) rev_do1.
Definition bad_rev2 := filter (fun '(g, f) => negb (unitary2 (gate_named g) && agree2 f (ftab2 g))) rev_do2.
(* unitary gates dispatched to an empty routine must act trivially on unsigned frames (Paulis, identities) *)
Definition noop_gate (n : string) := existsb (fun '(g, r, _) => String.eqb g n && String.eqb r "noop") rev_other.
Definition uncovered_rev :=
  filter (fun e => (unitary1 e && negb (existsb (fun '(g, _) => String.eqb g (e_name e)) rev_do1
                                       || (noop_gate (e_name e) && agree1 fid1 (ftab1 (e_name e)))))
                || (unitary2 e && negb (existsb (fun '(g, _) => String.eqb g (e_name e)) rev_do2
                                       || (noop_gate (e_name e) && agree2 fid2 (ftab2 (e_name e))))))
         gate_table.
Definition rev_all_ok : bool :=
  is_nil rev_refused && is_nil (map fst bad_rev1) && is_nil (map fst bad_rev2) && is_nil (map e_name uncovered_rev).
Theorem revtrack_generated_routines_match_inverse_table : rev_all_ok = true.
Proof. vm_compute. reflexivity. Qed.
Lemma bad_rev1_nil : bad_rev1 = []. Proof. vm_compute. reflexivity. Qed.
Lemma bad_rev2_nil : bad_rev2 = []. Proof. vm_compute. reflexivity. Qed.
Lemma filter_nil_forall {A} (p : A -> bool) l : filter p l = [] -> forall a, In a l -> p a = false.
Proof. induction l as [|b l IH]; cbn; [tauto|]. destruct (p b) eqn:E; [discriminate|].
  intros H a [->|Hin]; auto. Qed.
Theorem rev_do1_correct g f : In (g, f) rev_do1 -> forall ts P, run1 f ts P = run1 (ftab1 g) ts P.
Proof. intros Hin. pose proof (filter_nil_forall _ _ bad_rev1_nil _ Hin) as Hb. cbv beta iota in Hb.
  apply negb_false_iff, andb_true_iff in Hb. destruct Hb as [_ Hb]. apply run1_ext, agree1_eq, Hb. Qed.
Theorem rev_do2_correct g f : In (g, f) rev_do2 -> forall ts P, run2 f ts P = run2 (ftab2 g) ts P.
Proof. intros Hin. pose proof (filter_nil_forall _ _ bad_rev2_nil _ Hin) as Hb. cbv beta iota in Hb.
  apply negb_false_iff, andb_true_iff in Hb. destruct Hb as [_ Hb]. apply run2_ext, agree2_eq, Hb. Qed.
