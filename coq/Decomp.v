(* Reading a detector error model with suggested decompositions: an error `p  c1 ^ c2 ^ ...` is one mechanism whose symptoms are
   the XOR of its components. The canonical form the C10 oracle compares (order forgotten, equal symptom sets merged with
   p (+) q = p(1-q) + q(1-p), empty and zero-probability mechanisms dropped) preserves the distribution. *)
From Coq Require Import List NArith QArith Lia Setoid Permutation.
Import ListNotations.
Require Import XorConv.
Local Open Scope Q_scope.

Definition xor_all (cs : list N) : N := fold_right N.lxor 0%N cs.
Definition undecompose (ms : list (Q * list N)) : list (Q * N) := map (fun m => (fst m, xor_all (snd m))) ms.
Definition decomposed_dist (ms : list (Q * list N)) : dist := dem_dist (undecompose ms).

Lemma deq_refl d : deq d d. Proof. intros t. reflexivity. Qed.
Lemma deq_trans d e f : deq d e -> deq e f -> deq d f. Proof. intros H1 H2 t. rewrite (H1 t). apply H2. Qed.
Lemma deq_sym d e : deq d e -> deq e d. Proof. intros H t. symmetry. apply H. Qed.

(* order of errors is irrelevant *)
Theorem dem_dist_perm ms ms' : Permutation ms ms' -> deq (dem_dist ms) (dem_dist ms').
Proof.
  induction 1 as [|m l l' _ IH|a b l|l l' l'' _ IH1 _ IH2]; cbn [dem_dist fold_right].
  - apply deq_refl.
  - apply conv_proper. exact IH.
  - apply conv_comm.
  - eapply deq_trans; eassumption.
Qed.
(* two errors with the same symptoms are one error with the combined probability, wherever they sit in the list *)
Theorem dem_dist_merge p q s ms : deq (dem_dist ((p, s) :: (q, s) :: ms)) (dem_dist ((p * (1 - q) + q * (1 - p), s) :: ms)).
Proof. cbn [dem_dist fold_right]. apply xor_convolution_merge. Qed.
Theorem dem_dist_drop_zero s ms : deq (dem_dist ((0, s) :: ms)) (dem_dist ms).
Proof. cbn [dem_dist fold_right]. apply conv_zero. Qed.
Theorem dem_dist_drop_empty p ms : deq (dem_dist ((p, 0%N) :: ms)) (dem_dist ms).
Proof. cbn [dem_dist fold_right]. apply conv_empty. Qed.

(* a decomposition whose components XOR to the original symptoms defines the same distribution *)
Theorem sound_decomposition_same_distribution (dec : list (Q * list N)) (orig : list (Q * N)) :
  Forall2 (fun d o => fst d = fst o /\ xor_all (snd d) = snd o) dec orig -> deq (decomposed_dist dec) (dem_dist orig).
Proof.
  unfold decomposed_dist. induction 1 as [|d o dec orig [Hp Hs] _ IH]; cbn [undecompose map dem_dist fold_right].
  - apply deq_refl.
  - rewrite Hp, Hs. destruct o as [p s]; cbn [fst snd]. apply conv_proper. exact IH.
Qed.
(* and a decomposition whose components do NOT XOR to the symptoms is distinguishable: a single mis-decomposed error *)
Example unsound_decomposition_differs :
  ~ deq (decomposed_dist [(1 # 4, [1%N; 2%N])]) (dem_dist [(1 # 4, 1%N)]).
Proof. intros H. specialize (H 1%N). vm_compute in H. discriminate. Qed.
