(* Completeness of the specification: every run of the program that the semantics allows is the evaluation of the specification's
   outcome forms under SOME assignment of the coin variables - so the oracle's "no assignment fits this record" is a proof that the
   record is impossible, and a free measurement really takes both values.

   The assignment is read off the run: coin i (allocated at the i-th free measurement) gets that measurement's result. *)
From Coq Require Import List Bool Arith NArith Lia.
Import ListNotations.
Require Import Pauli Collapse Sem Span Refine Run FrameRun FrameComplete RunComplete FrameProg SpecSem Elim SpecSemFull.
Require Stab Act Gen_GateTable TableGood.

(* ---------- evaluation of forms under an assignment kf of the first B variables ---------- *)
Section Eval.
  Variable B : nat.
  Variable kf : nat -> bool.
  Fixpoint mpar (b : nat) (mask : N) : bool :=
    match b with 0 => false | S b' => xorb (andb (N.testbit mask (N.of_nat b')) (kf b')) (mpar b' mask) end.
  Definition evk (f : Stab.form) : bool := xorb (fst f) (mpar B (snd f)).
  Lemma mpar_lxor b x y : mpar b (N.lxor x y) = xorb (mpar b x) (mpar b y).
  Proof.
    induction b as [|b IH]; cbn [mpar]; [reflexivity|]. rewrite IH, N.lxor_spec.
    destruct (N.testbit x (N.of_nat b)), (N.testbit y (N.of_nat b)), (kf b), (mpar b x), (mpar b y); reflexivity.
  Qed.
  Lemma mpar_0 b : mpar b 0 = false.
  Proof. induction b as [|b IH]; cbn [mpar]; [reflexivity|]. now rewrite IH, N.bits_0. Qed.
  Lemma evk_fxor a b : evk (Stab.fxor a b) = xorb (evk a) (evk b).
  Proof. unfold evk, Stab.fxor; cbn [fst snd]. rewrite mpar_lxor. destruct (fst a), (fst b), (mpar B (snd a)), (mpar B (snd b)); reflexivity. Qed.
  Lemma evk_fflip f b : evk (Stab.fflip f b) = xorb (evk f) b.
  Proof. unfold evk, Stab.fflip; cbn [fst snd]. destruct (fst f), b, (mpar B (snd f)); reflexivity. Qed.
  Lemma evk_fzero : evk Stab.fzero = false.
  Proof. unfold evk, Stab.fzero; cbn [fst snd]. now rewrite mpar_0. Qed.
  Lemma mpar_var b i : mpar b (N.shiftl 1 (N.of_nat i)) = andb (i <? b) (kf i).
  Proof.
    induction b as [|b IH]; cbn [mpar]; [reflexivity|]. rewrite IH, N.shiftl_1_l, N.pow2_bits_eqb.
    destruct (N.eqb (N.of_nat i) (N.of_nat b)) eqn:E.
    - apply N.eqb_eq, Nat2N.inj in E. subst i. replace (b <? S b) with true by (symmetry; apply Nat.ltb_lt; lia).
      replace (b <? b) with false by (symmetry; apply Nat.ltb_ge; lia). cbn. now rewrite xorb_false_r.
    - apply N.eqb_neq in E. assert (i <> b) by (intros ->; now apply E).
      replace (i <? S b) with (i <? b); [cbn [andb]; now rewrite xorb_false_l|].
      destruct (i <? b) eqn:L; symmetry; [apply Nat.ltb_lt; apply Nat.ltb_lt in L; lia| apply Nat.ltb_ge; apply Nat.ltb_ge in L; lia].
  Qed.
  Lemma evk_var i : i < B -> evk (false, N.shiftl 1 (N.of_nat i)) = kf i.
  Proof. intros H. unfold evk; cbn [fst snd]. rewrite mpar_var. apply Nat.ltb_lt in H. rewrite H. cbn [andb]. apply xorb_false_l. Qed.
End Eval.

(* two steps of the semantics on equivalent states with the same operation and the same result end in equivalent states *)
Lemma sem_step_same n S1 S2 o r S1' S2' : FrameRun.ok_op n o -> FrameRun.eqs n S1 S2 -> Run.sem_step S1 o r S1' -> Run.sem_step S2 o r S2' ->
  FrameRun.eqs n S1' S2'.
Proof.
  intros Ho He H1 H2. inversion H1; subst; inversion H2; subst; cbn [FrameRun.ok_op] in Ho.
  - intros P HP. apply He. apply (Run.g_len _ _ _ (proj2 Ho)), HP.
  - exact He.
  - exfalso. match goal with Hd : meas_det S1' ?M ?o, Hr : meas_rnd_ok S2 ?M |- _ =>
      unfold meas_det in Hd; apply (He (neg o M) (proj1 Ho)) in Hd; destruct Hr as [A0 A1];
      destruct o; [exact (A1 Hd)| rewrite neg_false in Hd; exact (A0 Hd)] end.
  - exfalso. match goal with Hd : meas_det S2' ?M ?o, Hr : meas_rnd_ok S1 ?M |- _ =>
      unfold meas_det in Hd; apply (He (neg o M) (proj1 Ho)) in Hd; destruct Hr as [A0 A1];
      destruct o; [exact (A1 Hd)| rewrite neg_false in Hd; exact (A0 Hd)] end.
  - intros P HP. apply (FrameRun.post_rnd_ext_wf n S1 S2 _ _ P (proj1 Ho) He).
Qed.

Notation push := SpecSem.push.

Section Complete.
  Variable n : nat.
  Variable B : nat.
  Variable kf : nat -> bool.
  Notation ev := (evk B kf).
  Notation G := (SpecSem.G n ev).
  Notation wfgens := (SpecSem.wfgens n).
  Notation eqs := (FrameRun.eqs n).

  (* the run takes, at every free measurement, the value the assignment gives to that measurement's coin *)
  Fixpoint agrees (ops : list SpecSem.sop) (s : Stab.state * list Stab.form) (la : list (Run.op * option bool)) : Prop :=
    match ops, la with
    | [], [] => True
    | o :: ops', x :: la' =>
        (match o with
         | SpecSem.SMs _ P => if existsb (Stab.is_anti P) (Stab.gens (fst s))
                              then Stab.ncoins (fst s) < B /\ snd x = Some (kf (Stab.ncoins (fst s))) else True
         | _ => True end) /\ agrees ops' (SpecSem.sexec o s) la'
    | _, _ => False
    end.

  Theorem records_are_evaluations ops : forall st recs S T Ti la S', Forall (SpecSem.sop_ok n) ops -> wfgens (Stab.gens st) ->
    eqs S (G (Stab.gens st)) -> Run.good n T Ti -> Run.Inv n T S ->
    FrameProg.realize (fun v => ev (SpecSem.varf v)) (map ev recs) (map SpecSem.tr ops) la -> Run.sem_run S la S' -> agrees ops (st, recs) la ->
    fold_left push la (map ev recs) = map ev (snd (fold_left (fun s o => SpecSem.sexec o s) ops (st, recs))).
  Proof.
    induction ops as [|o ops IH]; intros st recs S T Ti la S' Hok Hgs He GT I Hre Hrun Hag; cbn [map fold_left] in *.
    - inversion Hre; subst. reflexivity.
    - inversion Hok as [|? ? Ho Hok']; subst.
      destruct la as [|[o1 r1] la]; [inversion Hre|]. destruct Hag as [Hag1 Hag].
      inversion Hrun as [|? ? ? Sa1 ? ? Hastep Harest]; subst.
      (* tracking the run by the simulator *)
      assert (Htrack : FrameRun.ok_op n o1 -> exists T1 Ti1, Run.good n T1 Ti1 /\ Run.Inv n T1 Sa1).
      { intros Hop. destruct (RunComplete.step_complete n T Ti S o1 r1 Sa1 Hop GT I Hastep) as ([T1 Ti1] & _ & G1 & I1). now exists T1, Ti1. }
      destruct o as [e q|e a b|sgn P|F k|F v|F]; cbn [SpecSem.sop_ok SpecSem.sexec SpecSem.tr] in *.
      + destruct Ho as (Hq & Hin & Hu). inversion Hre as [| ? C Ci ? l' Hre' | |]; subst.
        destruct (SpecSem.gate1_sound n ev (evk_fflip B kf) e q (Stab.gens st) Hq Hin Hu Hgs) as (Hgs1 & S1 & Hs1 & He1).
        assert (Hop : FrameRun.ok_op n (TableGood.table_op1 q e)) by (split; [apply TableGood.table_gate_good1| apply TableGood.table_gate_good1_inv]; assumption).
        destruct (Htrack Hop) as (T1 & Ti1 & G1 & I1).
        pose proof (sem_step_same n _ _ _ _ _ _ Hop He Hastep Hs1) as Hsame.
        cbn [push snd]. exact (IH {| Stab.gens := map (Stab.conj1 (Act.flows_of e) q) (Stab.gens st); Stab.ncoins := Stab.ncoins st |} recs Sa1 T1 Ti1 la S' Hok' Hgs1
                 (SpecSem.eqs_trans n _ _ _ Hsame He1) G1 I1 Hre' Harest Hag).
      + destruct Ho as (Ha & Hb & Hab & Hin & Hu). inversion Hre as [| ? C Ci ? l' Hre' | |]; subst.
        destruct (SpecSem.gate2_sound n ev (evk_fflip B kf) e a b (Stab.gens st) Ha Hb Hab Hin Hu Hgs) as (Hgs1 & S1 & Hs1 & He1).
        assert (Hop : FrameRun.ok_op n (TableGood.table_op2 a b e)) by (split; [apply TableGood.table_gate_good2| apply TableGood.table_gate_good2_inv]; assumption).
        destruct (Htrack Hop) as (T1 & Ti1 & G1 & I1).
        pose proof (sem_step_same n _ _ _ _ _ _ Hop He Hastep Hs1) as Hsame.
        cbn [push snd]. exact (IH {| Stab.gens := map (Stab.conj2 (Act.flows_of e) a b) (Stab.gens st); Stab.ncoins := Stab.ncoins st |} recs Sa1 T1 Ti1 la S' Hok' Hgs1
                 (SpecSem.eqs_trans n _ _ _ Hsame He1) G1 I1 Hre' Harest Hag).
      + revert Ho. inversion Hre as [| | ? M b0 ? l' Hre' |]; subst. intros Ho0. assert (Ho : length P = n /\ True) by (split; [exact Ho0| exact Logic.I]). clear Ho0. cbn [fst snd] in *.
        pose proof (elim_ok_of_tracked n ev T Ti S (Stab.gens st) P GT I Hgs He (proj1 Ho)) as Hel.
        assert (Hop : FrameRun.ok_op n (Run.OpM (denote (sgn, P)))) by (apply (SpecSem.denote_herm n), Ho).
        destruct (Htrack Hop) as (T1 & Ti1 & G1 & I1).
        destruct (SpecSem.measure_sound n ev (evk_fxor B kf) (evk_fflip B kf) (evk_fzero B kf) sgn P st Hgs (proj1 Ho) Hel) as (Hgs1 & S1 & Hs1 & He1).
        (* the run's result is the evaluation of the specification's outcome form *)
        assert (Eb : b0 = ev (fst (Stab.measure sgn P st))).
        { unfold Stab.measure in *. destruct (existsb (Stab.is_anti P) (Stab.gens st)) eqn:Ean.
          - cbn [fst]. destruct Hag1 as [Hlt Er]. cbn [snd] in Er. injection Er as ->. symmetry. apply evk_var, Hlt.
          - cbn [fst]. pose proof (SpecSem.measure_fixed_ok n ev (evk_fxor B kf) (evk_fflip B kf) (evk_fzero B kf) sgn P (Stab.gens st) (proj1 Ho) Hgs Ean (Hel Ean)) as Hd.
            unfold meas_det in Hd. apply (He (neg _ (denote (sgn, P))) (proj1 Hop)) in Hd.
            inversion Hastep as [| ? ? o' Hd' | ? ? c' Hr']; subst.
            + exact (FrameComplete.st_one_sign n T Ti _ GT I _ _ _ (proj1 Hop) Hd' Hd).
            + exfalso. destruct Hr' as [A0 A1]. destruct (ev (Stab.fflip (fst (Stab.reduce (Stab.build_piv (Stab.gens st) []) (Stab.fzero, P))) sgn));
                [exact (A1 Hd)| rewrite neg_false in Hd; exact (A0 Hd)]. }
        subst b0.
        assert (He1w : eqs S1 (G (Stab.gens (snd (Stab.measure sgn P st))))) by (intros Q _; apply He1).
        pose proof (sem_step_same n _ _ _ _ _ _ Hop He Hastep Hs1) as Hsame.
        destruct (Stab.measure sgn P st) as [f st1]. cbn [fst snd push] in *.
        exact (IH st1 (f :: recs) Sa1 T1 Ti1 la S' Hok' Hgs1 (SpecSem.eqs_trans n _ _ _ Hsame He1w) G1 I1 Hre' Harest Hag).
      + revert Ho. inversion Hre as [| | | ? P0 c0 ? l' Hre']; subst. intros Ho.
        assert (Eb : nth k (map ev recs) false = ev (nth k recs Stab.fzero)).
        { rewrite <- (evk_fzero B kf). apply map_nth. }
        rewrite Eb in *.
        destruct (SpecSem.pauli_if_sound n ev (evk_fxor B kf) F (nth k recs Stab.fzero) st Hgs Ho) as (Hgs1 & S1 & Hs1 & He1).
        assert (Hop : FrameRun.ok_op n (Run.OpU (FrameProg.cpw (denote (false, F)) (ev (nth k recs Stab.fzero)))
                                               (FrameProg.cpw (denote (false, F)) (ev (nth k recs Stab.fzero))))) by (split; apply FrameProg.cpw_good; exact Ho).
        destruct (Htrack Hop) as (T1 & Ti1 & G1 & I1).
        pose proof (sem_step_same n _ _ _ _ _ _ Hop He Hastep Hs1) as Hsame.
        cbn [push snd]. exact (IH (Stab.pauli_if F (nth k recs Stab.fzero) st) recs Sa1 T1 Ti1 la S' Hok' Hgs1
                 (SpecSem.eqs_trans n _ _ _ Hsame He1) G1 I1 Hre' Harest Hag).
      + revert Ho. inversion Hre as [| | | ? P0 c0 ? l' Hre']; subst. intros Ho. cbn [FrameProg.cval] in *.
        destruct (SpecSem.pauli_if_sound n ev (evk_fxor B kf) F (SpecSem.varf v) st Hgs Ho) as (Hgs1 & S1 & Hs1 & He1).
        assert (Hop : FrameRun.ok_op n (Run.OpU (FrameProg.cpw (denote (false, F)) (ev (SpecSem.varf v)))
                                               (FrameProg.cpw (denote (false, F)) (ev (SpecSem.varf v))))) by (split; apply FrameProg.cpw_good; exact Ho).
        destruct (Htrack Hop) as (T1 & Ti1 & G1 & I1).
        pose proof (sem_step_same n _ _ _ _ _ _ Hop He Hastep Hs1) as Hsame.
        cbn [push snd]. exact (IH (Stab.pauli_if F (SpecSem.varf v) st) recs Sa1 T1 Ti1 la S' Hok' Hgs1
                 (SpecSem.eqs_trans n _ _ _ Hsame He1) G1 I1 Hre' Harest Hag).
      + revert Ho. inversion Hre as [| ? C0 Ci0 ? l' Hre' | |]; subst. intros Ho.
        destruct (SpecSem.pauli_if_sound n ev (evk_fxor B kf) F (Stab.fconst true) st Hgs Ho) as (Hgs1 & S1 & Hs1 & He1).
        assert (Ec : ev (Stab.fconst true) = true) by (change (Stab.fconst true) with (Stab.fflip Stab.fzero true); now rewrite evk_fflip, evk_fzero).
        rewrite Ec in Hs1.
        assert (Hop : FrameRun.ok_op n (Run.OpU (FrameProg.cpw (denote (false, F)) true) (FrameProg.cpw (denote (false, F)) true))) by (split; apply FrameProg.cpw_good; exact Ho).
        destruct (Htrack Hop) as (T1 & Ti1 & G1 & I1).
        pose proof (sem_step_same n _ _ _ _ _ _ Hop He Hastep Hs1) as Hsame.
        cbn [push snd]. exact (IH (Stab.pauli_if F (Stab.fconst true) st) recs Sa1 T1 Ti1 la S' Hok' Hgs1
                 (SpecSem.eqs_trans n _ _ _ Hsame He1) G1 I1 Hre' Harest Hag).
  Qed.
End Complete.
Print Assumptions records_are_evaluations.

(* ---------- the assignment read off a run ---------- *)
Fixpoint coinsof (ops : list SpecSem.sop) (s : Stab.state * list Stab.form) (la : list (Run.op * option bool)) : list (nat * bool) :=
  match ops, la with
  | o :: ops', x :: la' =>
      (match o with
       | SpecSem.SMs _ P => if existsb (Stab.is_anti P) (Stab.gens (fst s))
                            then [(Stab.ncoins (fst s), match snd x with Some b => b | None => false end)] else []
       | _ => [] end) ++ coinsof ops' (SpecSem.sexec o s) la'
  | _, _ => []
  end.
Definition lookup (L : list (nat * bool)) (i : nat) : bool :=
  match find (fun p => Nat.eqb (fst p) i) L with Some p => snd p | None => false end.

Lemma ncoins_step o s : Stab.ncoins (fst s) <= Stab.ncoins (fst (SpecSem.sexec o s)).
Proof.
  destruct s as [st recs]. destruct o as [e q|e a b|sgn P|F k|F v|F]; cbn [SpecSem.sexec fst Stab.ncoins]; try lia.
  - unfold Stab.measure. destruct (existsb (Stab.is_anti P) (Stab.gens st)); cbn [fst Stab.ncoins]; lia.
  - unfold Stab.pauli_if. cbn. lia.
  - unfold Stab.pauli_if. cbn. lia.
  - unfold Stab.pauli_if. cbn. lia.
Qed.
Lemma ncoins_run ops : forall s, Stab.ncoins (fst s) <= Stab.ncoins (fst (fold_left (fun s o => SpecSem.sexec o s) ops s)).
Proof. induction ops as [|o ops IH]; intros s; cbn [fold_left]; [lia|]. pose proof (ncoins_step o s). specialize (IH (SpecSem.sexec o s)). lia. Qed.
Lemma lookup_skip pre L i : (forall p, In p pre -> fst p <> i) -> lookup (pre ++ L) i = lookup L i.
Proof.
  intros H. unfold lookup. induction pre as [|p pre IH]; [reflexivity|]. cbn [app find].
  destruct (Nat.eqb (fst p) i) eqn:E; [apply Nat.eqb_eq in E; exfalso; apply (H p); [now left| exact E]|]. apply IH. intros q Hq. apply H. now right.
Qed.

Definition kmix (base : nat) (ext0 : nat -> bool) (L : list (nat * bool)) : nat -> bool :=
  fun i => if i <? base then ext0 i else lookup L i.

Lemma agrees_lookup B base ext0 ext ops : forall s la rec pre, FrameProg.realize ext rec (map SpecSem.tr ops) la ->
  base <= Stab.ncoins (fst s) ->
  (forall p, In p pre -> fst p < Stab.ncoins (fst s)) ->
  Stab.ncoins (fst (fold_left (fun s o => SpecSem.sexec o s) ops s)) < B ->
  agrees B (kmix base ext0 (pre ++ coinsof ops s la)) ops s la.
Proof.
  induction ops as [|o ops IH]; intros s la rec pre Hre Hbase Hpre Hb; cbn [map] in Hre.
  - inversion Hre; subst. exact Logic.I.
  - destruct la as [|x la]; [inversion Hre|]. cbn [agrees coinsof fold_left] in *.
    pose proof (ncoins_step o s) as Hmono. pose proof (ncoins_run ops (SpecSem.sexec o s)) as Hmono2.
    assert (Hpre' : forall p, In p pre -> fst p < Stab.ncoins (fst (SpecSem.sexec o s))) by (intros p Hp; specialize (Hpre p Hp); lia).
    assert (Hbase' : base <= Stab.ncoins (fst (SpecSem.sexec o s))) by lia.
    destruct o as [e q|e a b|sgn P|F k|F v|F]; cbn [SpecSem.tr] in Hre.
    + split; [exact Logic.I|]. inversion Hre; subst. cbn [app]. eapply IH; eassumption.
    + split; [exact Logic.I|]. inversion Hre; subst. cbn [app]. eapply IH; eassumption.
    + inversion Hre as [| | ? M b0 ? l' Hre' |]; subst. destruct s as [st recs]. cbn [fst snd] in *.
      destruct (existsb (Stab.is_anti P) (Stab.gens st)) eqn:Ean.
      * assert (Enc : Stab.ncoins (fst (SpecSem.sexec (SpecSem.SMs sgn P) (st, recs))) = S (Stab.ncoins st)).
        { cbn [SpecSem.sexec]. unfold Stab.measure. rewrite Ean. reflexivity. }
        split.
        -- split; [lia|]. f_equal. unfold kmix. replace (Stab.ncoins st <? base) with false by (symmetry; apply Nat.ltb_ge; lia).
           rewrite lookup_skip by (intros p Hp; specialize (Hpre p Hp); lia).
           unfold lookup. cbn [app find fst]. now rewrite Nat.eqb_refl.
        -- replace (pre ++ [(Stab.ncoins st, b0)] ++ coinsof ops (SpecSem.sexec (SpecSem.SMs sgn P) (st, recs)) la)
             with ((pre ++ [(Stab.ncoins st, b0)]) ++ coinsof ops (SpecSem.sexec (SpecSem.SMs sgn P) (st, recs)) la) by (now rewrite <- app_assoc).
           eapply IH; [exact Hre'| exact Hbase'| | exact Hb].
           intros p Hp. apply in_app_or in Hp. destruct Hp as [Hp|[<-|[]]]; [specialize (Hpre p Hp); lia| cbn [fst]; lia].
      * split; [exact Logic.I|]. cbn [app]. eapply IH; eassumption.
    + split; [exact Logic.I|]. inversion Hre; subst. cbn [app]. eapply IH; eassumption.
    + split; [exact Logic.I|]. inversion Hre; subst. cbn [app]. eapply IH; eassumption.
    + split; [exact Logic.I|]. inversion Hre; subst. cbn [app]. eapply IH; eassumption.
Qed.

(* realisations depend on the external bits only at the variables the program uses *)
Fixpoint vars_below (base : nat) (ops : list SpecSem.sop) : Prop :=
  match ops with [] => True | SpecSem.SPifv _ v :: r => v < base /\ vars_below base r | _ :: r => vars_below base r end.
Lemma realize_ext base ext1 ext2 ops : (forall v, v < base -> ext1 v = ext2 v) -> vars_below base ops ->
  forall rec la, FrameProg.realize ext1 rec (map SpecSem.tr ops) la -> FrameProg.realize ext2 rec (map SpecSem.tr ops) la.
Proof.
  intros He. induction ops as [|o ops IH]; intros Hv rec la Hre; cbn [map] in *.
  - inversion Hre; subst. constructor.
  - destruct o as [e q|e a b|sgn P|F k|F v|F]; cbn [SpecSem.tr vars_below] in *; inversion Hre; subst; try (constructor; now apply IH).
    + match goal with H : FrameProg.realize ext1 rec (map _ ops) ?l0 |- _ =>
        exact (FrameProg.RF ext2 rec (denote (false, F)) (FrameProg.CRec k) _ _ (IH Hv rec l0 H)) end.
    + destruct Hv as [Hlt Hv]. cbn [FrameProg.cval]. rewrite (He v Hlt).
      match goal with H : FrameProg.realize ext1 rec (map _ ops) ?l0 |- _ =>
        exact (FrameProg.RF ext2 rec (denote (false, F)) (FrameProg.CExt v) _ _ (IH Hv rec l0 H)) end.
Qed.

(* ---------- completeness ---------- *)
Theorem spec_complete n base ext0 ops la S' : Forall (SpecSem.sop_ok n) ops -> vars_below base ops ->
  FrameProg.realize ext0 [] (map SpecSem.tr ops) la -> Run.sem_run (fun P => Zplus P) la S' ->
  exists B kf, base <= B /\ (forall v, v < base -> kf v = ext0 v) /\
    fold_left push la [] = map (evk B kf) (snd (fold_left (fun s o => SpecSem.sexec o s) ops (SpecSem.st0 n base, []))).
Proof.
  intros Hok Hv Hre Hrun.
  set (B := S (Stab.ncoins (fst (fold_left (fun s o => SpecSem.sexec o s) ops (SpecSem.st0 n base, []))))).
  set (kf := kmix base ext0 (coinsof ops (SpecSem.st0 n base, []) la)).
  pose proof (ncoins_run ops (SpecSem.st0 n base, [])) as Hmono. cbn [fst SpecSem.st0 Stab.ncoins] in Hmono.
  exists B, kf. split; [unfold B; lia|]. split; [intros v Hlt; unfold kf, kmix; apply Nat.ltb_lt in Hlt; now rewrite Hlt|].
  assert (Hre' : FrameProg.realize (fun v => evk B kf (SpecSem.varf v)) [] (map SpecSem.tr ops) la).
  { apply (realize_ext base ext0); [|exact Hv| exact Hre]. intros v Hlt. unfold SpecSem.varf. rewrite evk_var by (unfold B; lia).
    unfold kf, kmix. apply Nat.ltb_lt in Hlt. now rewrite Hlt. }
  apply (records_are_evaluations n B kf ops (SpecSem.st0 n base) [] (fun P => Zplus P) (fun P => P) (fun P => P) la S' Hok (SpecSem.init_wfgens n)
           (SpecSem.init_is_zero_state n _ (evk_fzero B kf)) (Run.init_good n) (Run.init_inv n) Hre' Hrun).
  apply (agrees_lookup B base ext0 ext0 ops (SpecSem.st0 n base, []) la [] [] Hre); [cbn; lia| intros p []| unfold B; lia].
Qed.
Print Assumptions spec_complete.

(* evk is the oracle's evaluation SpecProofs.eval_form under the assignment vector (kf 0, ..., kf (B-1)) *)
Lemma dot_app a1 a2 k1 k2 : length a1 = length k1 -> GF2.dot (a1 ++ a2) (k1 ++ k2) = xorb (GF2.dot a1 k1) (GF2.dot a2 k2).
Proof.
  revert k1; induction a1 as [|x a1 IH]; intros [|y k1] H; cbn in *; try lia; [now destruct (GF2.dot a2 k2)|].
  rewrite IH by lia. destruct (x && y), (GF2.dot a1 k1), (GF2.dot a2 k2); reflexivity.
Qed.
Lemma evk_is_eval_form B kf f : evk B kf f = SpecProofs.eval_form B (map kf (seq 0 B)) f.
Proof.
  unfold evk, SpecProofs.eval_form, Spec.vec_of. f_equal. generalize (snd f) as mask. intros mask.
  induction B as [|b IH]; [reflexivity|]. cbn [mpar]. rewrite seq_S, !map_app, dot_app by (now rewrite !map_length).
  rewrite <- IH. cbn [map GF2.dot Nat.add]. rewrite xorb_false_r. apply xorb_comm.
Qed.

(* completeness in the oracle's own terms: every legal record is satisfiable, with the sweep / fault variables pinned *)
Corollary spec_complete_oracle n base ext0 ops la S' : Forall (SpecSem.sop_ok n) ops -> vars_below base ops ->
  FrameProg.realize ext0 [] (map SpecSem.tr ops) la -> Run.sem_run (fun P => Zplus P) la S' ->
  exists m k, length k = m /\ (forall v, v < base -> v < m /\ nth v k false = ext0 v) /\
    fold_left push la [] = map (SpecProofs.eval_form m k) (snd (fold_left (fun s o => SpecSem.sexec o s) ops (SpecSem.st0 n base, []))).
Proof.
  intros Hok Hv Hre Hrun. destruct (spec_complete n base ext0 ops la S' Hok Hv Hre Hrun) as (B & kf & HbB & Hk & E).
  exists B, (map kf (seq 0 B)). split; [now rewrite map_length, seq_length|]. split.
  - intros v Hlt. assert (HB : v < B) by lia.
    split; [exact HB|]. rewrite (nth_indep _ false (kf 0)) by (now rewrite map_length, seq_length). rewrite map_nth, seq_nth by exact HB. now apply Hk.
  - rewrite E. apply map_ext. intros f. apply evk_is_eval_form.
Qed.
Print Assumptions spec_complete_oracle.
