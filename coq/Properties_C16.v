(* C16 — Sampling a detector error model is the XOR of independently fired errors. *)
From Coq Require Import List NArith Bool Arith.
Import ListNotations.
Require Uniform.
Require Import DemFlat DemSample.
Require Gen_DemSampler GenProofs_DemSampler.
Require Pauli Sem Refine Run FrameRun FrameProg RevTrack RevProg DemBridge.

(* a sampled shot (each fired error toggles each of its targets, separators ignored) has symptom x set exactly when x occurs
   an odd number of times among the targets of the errors that fired: XOR of the fired errors, duplicates cancel *)
Theorem C16_dem_shot_is_xor_of_fired :
  forall errs x, x <> TSep -> shot_of errs x = Nat.odd (count x (fired_targets errs)).
Proof. exact dem_shot_is_xor_of_fired. Qed.
(* replaying the recorded fired bits reproduces the shot *)
Theorem C16_replay_reproduces : forall errs1 errs2, errs1 = errs2 -> forall x, shot_of errs1 x = shot_of errs2 x.
Proof. exact replay_reproduces. Qed.
(* the absolute errors the sampler iterates over are those of the model executed one instruction at a time *)
Theorem C16_flatten_is_naive_execution : forall m off, flat m off = exec (unroll m) off.
Proof. exact flatten_is_naive_execution. Qed.
(* the shot is an XOR-linear image of the fired bits, so its distribution is the push-forward of independent error bits:
   equal fibres over every image point *)
Theorem C16_linear_image_has_equal_fibres :
  forall (k m : nat) (f : list bool -> list bool),
  (forall x, length x = k -> length (f x) = m) ->
  (forall x y, length x = k -> length y = k -> f (Uniform.vxor x y) = Uniform.vxor (f x) (f y)) ->
  forall veqb : list bool -> list bool -> bool, (forall a b, veqb a b = true <-> a = b) ->
  forall x0 x1, length x0 = k -> length x1 = k -> Uniform.fiber k f veqb (f x0) = Uniform.fiber k f veqb (f x1).
Proof. exact Uniform.fibers_equal. Qed.
Print Assumptions C16_dem_shot_is_xor_of_fired. Print Assumptions C16_flatten_is_naive_execution.

Example C16_nonvacuous :
  let errs := [([TD 0; TD 1; TL 0], true); ([TD 1; TSep; TD 2; TD 2], true); ([TD 5], false)] in
  shot_of errs (TD 0) = true /\ shot_of errs (TD 1) = false /\ shot_of errs (TD 2) = false /\ shot_of errs (TL 0) = true /\
  shot_of errs (TD 5) = false.
Proof. vm_compute. repeat split. Qed.

(* DemSampler<W>::resample regenerated from source: flattened error k uses error row k (advanced exactly once per error on every
   path), randomised with its own probability unless replaying, XORed into exactly the rows its targets name. *)
Theorem C16_resample_loop_is_the_model : GenProofs_DemSampler.demsampler_ok = true.
Proof. exact GenProofs_DemSampler.resample_loop_is_the_model. Qed.
Print Assumptions C16_resample_loop_is_the_model.

(* Where the model's errors come from: for the detector error model read off a program by the reverse tracker (DemBridge.dem_of),
   shot_of with `fired j = fault bit j differs from the reference` is, detector by detector, the circuit's detection event in
   every run the semantics allows under those fault bits. *)
Theorem C16_model_shots_are_circuit_shots :
  forall (n : nat) (extr exta : nat -> bool) (prog : list FrameProg.pop) (ds : list (list bool)) (js : list nat)
         (l la : list (Run.op * option bool)) (s s' : (Pauli.pauli -> Pauli.pauli) * (Pauli.pauli -> Pauli.pauli)) (Sg S' : Sem.state) (i : nat),
  Forall (FrameProg.okp n) prog -> Run.good n (fst s) (snd s) -> Run.Inv n (fst s) Sg ->
  FrameProg.realize extr [] prog l -> Run.sim_run n s l s' -> FrameProg.realize exta [] prog la -> Run.sem_run Sg la S' ->
  NoDup js -> DemBridge.faults_in prog js -> i < List.length ds ->
  RevProg.gauge_okp n prog (nth i ds []) ->
  (forall g, Refine.wf n g -> Sg g -> Sem.acom g (fst (RevProg.bt n prog (nth i ds []))) = false) ->
  xorb (RevTrack.par_rec la (nth i ds [])) (RevTrack.par_rec l (nth i ds [])) =
  DemSample.shot_of (DemBridge.dem_of n extr exta prog ds js) (DemBridge.tgt i).
Proof. exact DemBridge.circuit_shot_is_dem_shot. Qed.
Print Assumptions C16_model_shots_are_circuit_shots.
