(* Obligations over the GENERATED decomposition tables of the simplifier (simplified_circuit.cc):
   every unitary entry composes to exactly the gate's documented action (signs included); every measurement entry
   conjugates the measured observable onto +Z of the measured qubit and undoes the conjugation afterwards; every reset entry
   prepares the documented +1 eigenstate; measurements keep the instruction's arguments and the result inversion. *)
From Coq Require Import List Bool String ZArith.
Import ListNotations.
Require Import Stab Act Gen_GateTable Gen_Simplify.
Local Open Scope string_scope.

Definition aH := local1 (flows_of (gate_named "H")).
Definition aS := local1 (flows_of (gate_named "S")).
Definition aCX := local2 (flows_of (gate_named "CX")).
Definition op := (string * string * bool)%type.
Definition op_gate (o : op) : string := fst (fst o).
Definition op_buf (o : op) : string := snd (fst o).
Definition op_args (o : op) : bool := snd o.

(* ---- one-qubit sequences of H and S ---- *)
Definition step1 (o : op) (st : option t1) : option t1 :=
  match st with None => None | Some (x, z, s) =>
    if negb (String.eqb (op_buf o) "ts" || String.eqb (op_buf o) "qs") || op_args o then None
    else if String.eqb (op_gate o) "H" then Some (aH x z s)
    else if String.eqb (op_gate o) "S" then Some (aS x z s) else None end.
Definition seq1 (l : list op) (st : t1) : option t1 := fold_left (fun acc o => step1 o acc) l (Some st).
Definition opt_t1_eqb (a : option t1) (b : t1) : bool := match a with Some a' => t1_eqb a' b | None => false end.
Definition unitary_ok1 (g : string) (l : list op) : bool :=
  forallb (fun '(x, z, s) => opt_t1_eqb (seq1 l (x, z, s)) (local1 (flows_of (gate_named g)) x z s)) all3.

(* ---- two-qubit sequences ---- *)
Definition on_first (f : bool -> bool -> bool -> t1) (st : t2) : t2 :=
  let '(x1, z1, x2, z2, s) := st in let '(a, b, s') := f x1 z1 s in (a, b, x2, z2, s').
Definition on_second (f : bool -> bool -> bool -> t1) (st : t2) : t2 :=
  let '(x1, z1, x2, z2, s) := st in let '(a, b, s') := f x2 z2 s in (x1, z1, a, b, s').
Definition ap2 (f : bool -> bool -> bool -> bool -> bool -> t2) (st : t2) : t2 :=
  let '(x1, z1, x2, z2, s) := st in f x1 z1 x2 z2 s.
Definition step2 (o : op) (st : option t2) : option t2 :=
  match st with None => None | Some st =>
    if op_args o then None else
    let g := op_gate o in let b := op_buf o in
    let one := if String.eqb g "H" then Some aH else if String.eqb g "S" then Some aS else None in
    match one with
    | Some f => if String.eqb b "qs1" then Some (on_first f st) else if String.eqb b "qs2" then Some (on_second f st)
                else if String.eqb b "qs" then Some (on_second f (on_first f st)) else None
    | None =>
      if negb (String.eqb b "ts" || String.eqb b "ps") then None
      else if String.eqb g "CX" then Some (ap2 aCX st)
      else if String.eqb g "XCZ" then Some (ap2 (swap2 aCX) st) else None
    end end.
Definition seq2 (l : list op) (st : t2) : option t2 := fold_left (fun acc o => step2 o acc) l (Some st).
Definition opt_t2_eqb (a : option t2) (b : t2) : bool := match a with Some a' => t2_eqb a' b | None => false end.
Definition unitary_ok2 (g : string) (l : list op) : bool :=
  forallb (fun '(x1, z1, x2, z2, s) => opt_t2_eqb (seq2 l (x1, z1, x2, z2, s)) (local2 (flows_of (gate_named g)) x1 z1 x2 z2 s)) all5.

(* ---- measurements and resets ---- *)
Definition basis_of (g : string) : bool * bool :=   (* (x, z) of the measured / prepared single-qubit Pauli *)
  if existsb (String.eqb g) ["MX"; "MRX"; "RX"; "MXX"] then (true, false)
  else if existsb (String.eqb g) ["MY"; "MRY"; "RY"; "MYY"] then (true, true) else (false, true).
Fixpoint split_at (name : string) (l : list op) : option (list op * op * list op) :=
  match l with
  | [] => None
  | o :: r => if String.eqb (op_gate o) name then Some ([], o, r)
              else match split_at name r with Some (a, m, b) => Some (o :: a, m, b) | None => None end
  end.
Definition is_id1 (l : list op) : bool := forallb (fun '(x, z, s) => opt_t1_eqb (seq1 l (x, z, s)) (x, z, s)) all3.
Definition is_id2 (l : list op) : bool := forallb (fun st => opt_t2_eqb (seq2 l st) st) all5.
Definition no_inversion_buf (l : list op) : bool := forallb (fun o => String.eqb (op_buf o) "qs") l.
(* M-type: pre ; M(args, inverting buffer) ; post with pre(B) = +Z and post . pre = id *)
Definition meas_ok1 (g : string) (l : list op) : bool :=
  match split_at "M" l with
  | Some (pre, m, post) =>
    let '(bx, bz) := basis_of g in
    op_args m && String.eqb (op_buf m) "ts" && no_inversion_buf pre &&
    opt_t1_eqb (seq1 pre (bx, bz, false)) (false, true, false) &&
    match split_at "R" post with
    | None => no_inversion_buf post && is_id1 (pre ++ post)
    | Some ([], r, post') => String.eqb (op_buf r) "qs" && negb (op_args r) && no_inversion_buf post' &&
                             opt_t1_eqb (seq1 post' (false, true, false)) (bx, bz, false)
    | Some _ => false
    end
  | None => false
  end.
Definition reset_ok1 (g : string) (l : list op) : bool :=
  match l with
  | r :: post => let '(bx, bz) := basis_of g in
                 String.eqb (op_gate r) "R" && negb (op_args r) && opt_t1_eqb (seq1 post (false, true, false)) (bx, bz, false)
  | [] => false
  end.
(* pair measurements: pre maps B(x)B onto +Z of the measured qubit (and nothing else), post . pre = id *)
Definition meas_ok2 (g : string) (l : list op) : bool :=
  match split_at "M" l with
  | Some (pre, m, post) =>
    let '(bx, bz) := basis_of g in
    op_args m && is_id2 (pre ++ post) &&
    (if String.eqb (op_buf m) "ms1" then opt_t2_eqb (seq2 pre (bx, bz, bx, bz, false)) (false, true, false, false, false)
     else if String.eqb (op_buf m) "ms2" then opt_t2_eqb (seq2 pre (bx, bz, bx, bz, false)) (false, false, false, true, false)
     else false) &&
    forallb (fun o => negb (String.eqb (op_buf o) "ts")) (pre ++ post)
  | None => false
  end.

Definition in_list (g : string) (l : list string) : bool := existsb (String.eqb g) l.
Definition entry_ok1 (e : string * list op) : bool :=
  let '(g, l) := e in
  if in_list g ["M"; "MX"; "MY"; "MR"; "MRX"; "MRY"] then meas_ok1 g l
  else if in_list g ["R"; "RX"; "RY"] then reset_ok1 g l
  else unitary1 (gate_named g) && unitary_ok1 g l.
Definition entry_ok2 (e : string * list op) : bool :=
  let '(g, l) := e in
  if in_list g ["MXX"; "MYY"; "MZZ"] then meas_ok2 g l else unitary2 (gate_named g) && unitary_ok2 g l.
Definition bad_simp1 := map fst (filter (fun e => negb (entry_ok1 e)) simp1).
Definition bad_simp2 := map fst (filter (fun e => negb (entry_ok2 e)) simp2).
(* every fixed-action gate of the gate table is covered (I and II are dropped by simplify_instruction) *)
Definition uncovered_simp :=
  map e_name (filter (fun e =>
       (unitary1 e && negb (String.eqb (e_name e) "I") && negb (existsb (fun r => String.eqb (fst r) (e_name e)) simp1))
    || (unitary2 e && negb (String.eqb (e_name e) "II") && negb (existsb (fun r => String.eqb (fst r) (e_name e)) simp2))) gate_table).
Definition is_nil {A} (l : list A) : bool := match l with [] => true | _ => false end.
Definition simp_all_ok : bool := is_nil simp_refused && is_nil bad_simp1 && is_nil bad_simp2 && is_nil uncovered_simp.

Theorem simplifier_tables_match_gate_table : simp_all_ok = true.
Proof. vm_compute. reflexivity. Qed.

Lemma bad_simp1_nil : bad_simp1 = []. Proof. vm_compute. reflexivity. Qed.
Lemma bad_simp2_nil : bad_simp2 = []. Proof. vm_compute. reflexivity. Qed.
Lemma filter_nil_forall {A} (p : A -> bool) l : filter p l = [] -> forall a, In a l -> p a = false.
Proof. induction l as [|b l IH]; cbn; [tauto|]. destruct (p b) eqn:E; [discriminate|]. intros H a [<-|Ha]; auto. Qed.
Lemma map_nil {A B} (f : A -> B) l : map f l = [] -> l = []. Proof. destruct l; [reflexivity|discriminate]. Qed.

(* lifted: a unitary one-qubit entry acts as the gate on every Pauli string, every target list *)
Definition f_of_seq1 (l : list op) : bool -> bool -> bool -> t1 :=
  fun x z s => match seq1 l (x, z, s) with Some r => r | None => (x, z, s) end.
Theorem simplifier_unitary1_correct g l :
  In (g, l) simp1 -> in_list g ["M"; "MX"; "MY"; "MR"; "MRX"; "MRY"] = false -> in_list g ["R"; "RX"; "RY"] = false ->
  forall ts P, run1 (f_of_seq1 l) ts P = run1 (local1 (flows_of (gate_named g))) ts P.
Proof.
  intros Hin Hm Hr. pose proof (filter_nil_forall _ _ (map_nil _ _ bad_simp1_nil) _ Hin) as Hok.
  apply negb_false_iff in Hok. unfold entry_ok1 in Hok.
  rewrite Hm, Hr in Hok. apply andb_true_iff in Hok as [_ Hok].
  apply run1_ext. intros x z s. unfold unitary_ok1 in Hok. rewrite forallb_forall in Hok.
  specialize (Hok (x, z, s)). unfold f_of_seq1.
  assert (Hi : In (x, z, s) all3) by (destruct x, z, s; cbn; tauto).
  specialize (Hok Hi). cbv beta iota in Hok. destruct (seq1 l (x, z, s)) as [r|]; [|discriminate].
  apply t1_eqb_eq. exact Hok.
Qed.
Definition f_of_seq2 (l : list op) : bool -> bool -> bool -> bool -> bool -> t2 :=
  fun x1 z1 x2 z2 s => match seq2 l (x1, z1, x2, z2, s) with Some r => r | None => (x1, z1, x2, z2, s) end.
Theorem simplifier_unitary2_correct g l :
  In (g, l) simp2 -> in_list g ["MXX"; "MYY"; "MZZ"] = false ->
  forall ts P, run2 (f_of_seq2 l) ts P = run2 (local2 (flows_of (gate_named g))) ts P.
Proof.
  intros Hin Hnm. pose proof (filter_nil_forall _ _ (map_nil _ _ bad_simp2_nil) _ Hin) as Hok.
  apply negb_false_iff in Hok. unfold entry_ok2 in Hok. rewrite Hnm in Hok. apply andb_true_iff in Hok as [_ Hok].
  apply run2_ext. intros x1 z1 x2 z2 s. unfold unitary_ok2 in Hok. rewrite forallb_forall in Hok.
  specialize (Hok (x1, z1, x2, z2, s)). unfold f_of_seq2.
  assert (Hi : In (x1, z1, x2, z2, s) all5) by (destruct x1, z1, x2, z2, s; cbn; intuition).
  specialize (Hok Hi). cbv beta iota in Hok. destruct (seq2 l (x1, z1, x2, z2, s)) as [r|]; [|discriminate].
  apply t2_eqb_eq. exact Hok.
Qed.
