(* C17 — Logical-error searches return genuine, and where promised shortest, errors. *)
From Coq Require Import List NArith Arith.
Import ListNotations.
Require Import Cycle Simple StatePath Bfs.
Require GraphEdges Gen_GraphEdges GenProofs_GraphEdges.

(* (1) Every undetectable edge multiset (even degree at every detector node; the boundary B absorbs; self-loops count 0) with
       non-zero total observable mask contains a closed walk with non-zero mask using each edge at most once, closed at B or
       avoiding B. *)
Theorem C17_cycle_lemma :
  forall (B k : nat) (E : list edge), length E = k -> undetectable B E -> mask_of E <> 0%N ->
  exists (s : nat) (C R : list edge),
    walk s s C /\ Permutation.Permutation (C ++ R) E /\ mask_of C <> 0%N /\ (s = B \/ Forall (fun e => ~ touches B e) C).
Proof. exact cycle_lemma. Qed.
(* (2) Such a closed walk contains a simple one (no repeated vertex) with the same properties and no more edges. *)
Theorem C17_simple_exists :
  forall (B k s : nat) (C : list edge), length C = k -> chain s C -> endv s C = s -> mask_of C <> 0%N -> good B s C ->
  exists (s' : nat) (C' : list edge),
    chain s' C' /\ endv s' C' = s' /\ mask_of C' <> 0%N /\ good B s' C' /\ NoDup (vseq s' C') /\ length C' <= k /\ incl C' C.
Proof. exact simple_exists. Qed.
(* (3) Lower bound: every undetectable logical error E made of graph edges yields a path of the search's state graph
       (states (active, held, mask); only `active` moves; reaching `held` or handing over at the boundary ends) of length at most
       |E| - 1 from one of its non-zero-mask edges, in either orientation, to an undetected state with non-zero mask. *)
Theorem C17_graphlike_lower_bound :
  forall (B : nat) (G : list edge), (forall e, In e G -> eu e <> ev e) ->
  forall E : list edge, undetectable B E -> mask_of E <> 0%N -> incl E G ->
  exists (L : nat) (e : edge) (u v : nat) (m : N),
    L <= length E /\ In e G /\ em e <> 0%N /\ (eu e = u \/ ev e = u) /\ v = other u e /\ m <> 0%N /\
    (v <> B -> exists z, spath B G (L - 1) (v, u, em e) (z, z, m)) /\
    (u <> B -> exists z, spath B G (L - 1) (u, v, em e) (z, z, m)).
Proof. exact graphlike_lower_bound. Qed.
(* (4) The queue-based breadth-first search exactly as the searches are written (seen-set test and goal test at push time, FIFO
       queue, goals never expanded) returns a goal at the minimum number of steps from the start states. *)
Theorem C17_bfs_nearest :
  forall (A : Type) (memb : A -> list A -> bool), (forall x l, memb x l = true <-> In x l) ->
  forall (succ : A -> list A) (goal : A -> bool) (starts : list A) (fuel : nat) (q : list (A * nat)) (seen : list A) (y : A) (d : nat),
  outer A succ goal starts q seen -> bfs A memb succ goal fuel q seen = Some (y, d) ->
  goal y = true /\ reachN A succ goal starts d y /\ (forall k g, reachN A succ goal starts k g -> goal g = true -> d <= k).
Proof. exact bfs_nearest. Qed.
Print Assumptions C17_cycle_lemma. Print Assumptions C17_simple_exists. Print Assumptions C17_graphlike_lower_bound.
Print Assumptions C17_bfs_nearest.

(* Graph construction of the graphlike search, regenerated from source: the detectors of one error component are collected by
   cancelling a repeated detector against its earlier occurrence and testing the two-detector capacity only afterwards; the
   detectors held at the end are exactly those listed an odd number of times, each once (any order, any number of repetitions). *)
Theorem C17_graphlike_collection_is_the_model : GenProofs_GraphEdges.graph_collect_ok = true.
Proof. exact GenProofs_GraphEdges.graphlike_collection_is_the_model. Qed.
Theorem C17_collected_detectors_are_the_symptom :
  forall ts, NoDup (GraphEdges.collect ts) /\ forall d, In d (GraphEdges.collect ts) <-> GraphEdges.odd_in ts d = true.
Proof. exact GraphEdges.collect_is_symptom. Qed.
Print Assumptions C17_graphlike_collection_is_the_model. Print Assumptions C17_collected_detectors_are_the_symptom.
