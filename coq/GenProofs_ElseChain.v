(* Obligations over the GENERATED E / ELSE_CORRELATED_ERROR step of both simulators: an element is applied iff its coin fired and
   no earlier element of the chain did; afterwards the chain flag says whether any element has fired; the X / Z flags of a target
   go to the x / z frame tables. This is the rule whose probabilities Chain.chain_is_disjoint computes. *)
From Coq Require Import List Bool String.
Import ListNotations.
Require Import Gen_ElseChain.
Local Open Scope string_scope.

Definition rule (sampled prev : bool) : bool * bool := (sampled && negb prev, prev || sampled).
Definition same (a b : bool * bool) : bool := Bool.eqb (fst a) (fst b) && Bool.eqb (snd a) (snd b).
Definition bools := [false; true].
Definition else_ok : bool :=
  forallb (fun s => forallb (fun p => same (else_frame s p) (rule s p) && same (else_tableau s p) (rule s p)) bools) bools.
Definition flags_ok : bool :=
  match else_flags with [(f1, t1); (f2, t2)] => String.eqb f1 "X" && String.eqb t1 "x" && String.eqb f2 "Z" && String.eqb t2 "z" | _ => false end.
Definition is_nil {A} (l : list A) : bool := match l with [] => true | _ => false end.
Definition elsechain_all_ok : bool := is_nil elsechain_refused && else_ok && flags_ok.
Theorem else_chain_steps_are_the_modelled_rule : elsechain_all_ok = true.
Proof. vm_compute. reflexivity. Qed.
(* the rule keeps "at most one element of a chain is applied": once the flag is set nothing further is applied *)
Lemma rule_exclusive sampled : fst (rule sampled true) = false.
Proof. destruct sampled; reflexivity. Qed.
