From Coq Require Import List Arith Lia Bool.
Import ListNotations.
Section Loop.
Variables (St Out : Type) (step : St -> St * Out) (eqv : St -> St -> Prop).
Hypothesis eqv_bisim : forall a b, eqv a b -> snd (step a) = snd (step b) /\ eqv (fst (step a)) (fst (step b)).

Fixpoint iter (n : nat) (s : St) : St := match n with 0 => s | S n' => iter n' (fst (step s)) end.
Fixpoint outs (n : nat) (s : St) : list Out := match n with 0 => [] | S n' => snd (step s) :: outs n' (fst (step s)) end.

Lemma iter_add a b s : iter (a + b) s = iter b (iter a s).
Proof. revert s; induction a as [|a IH]; intros s; cbn [iter Nat.add]; [reflexivity| apply IH]. Qed.
Lemma outs_add a b s : outs (a + b) s = outs a s ++ outs b (iter a s).
Proof. revert s; induction a as [|a IH]; intros s; cbn [iter outs Nat.add app]; [reflexivity| now rewrite IH]. Qed.
Lemma eqv_iter n a b : eqv a b -> eqv (iter n a) (iter n b).
Proof. revert a b; induction n as [|n IH]; intros a b H; cbn [iter]; [exact H| apply IH, eqv_bisim, H]. Qed.
Lemma eqv_outs n a b : eqv a b -> outs n a = outs n b.
Proof. revert a b; induction n as [|n IH]; intros a b H; cbn [outs]; [reflexivity|].
  destruct (eqv_bisim a b H) as [Ho Hs]. rewrite Ho. f_equal. apply IH, Hs. Qed.

(* k further periods from a state s with eqv (iter p s) s all output the same block *)
Fixpoint rep {A} (k : nat) (l : list A) : list A := match k with 0 => [] | S k' => l ++ rep k' l end.
Lemma periodic_outs p s k : eqv (iter p s) s -> outs (k * p) s = rep k (outs p s).
Proof. intros H; induction k as [|k IH]; cbn [Nat.mul rep outs]; [reflexivity|].
  rewrite outs_add. f_equal. rewrite (eqv_outs (k * p) _ _ H). exact IH. Qed.

(* The folding theorem: tortoise at t, hare at h = t + p found equal; run hare on to h' >= h;
   the last p outputs repeated k more times finish the loop. *)
Theorem fold_correct s0 t p h' k :
  eqv (iter (t + p) s0) (iter t s0) -> t + p <= h' ->
  outs (h' + k * p) s0 = outs (h' - p) s0 ++ rep (S k) (outs p (iter (h' - p) s0)).
Proof.
  intros Heq Hle.
  set (j := h' - p - t).
  assert (Hj : eqv (iter p (iter (h' - p) s0)) (iter (h' - p) s0)).
  { replace (h' - p) with (t + j) by lia. rewrite !iter_add.
    rewrite <- (iter_add j p), (Nat.add_comm j p), iter_add.
    apply eqv_iter. rewrite <- iter_add. exact Heq. }
  replace (h' + k * p) with ((h' - p) + (S k) * p) by (cbn [Nat.mul]; lia).
  rewrite outs_add. f_equal. apply periodic_outs, Hj.
Qed.
End Loop.
Print Assumptions fold_correct.
