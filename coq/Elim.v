(* Completeness of the specification's elimination (Stab.build_piv / Stab.reduce): a vector in the GF(2) span of the generators'
   bit vectors reduces to zero.  With the maximality of tableau-tracked groups (FrameComplete.st_witness) this discharges
   SpecSem.elim_ok: when no generator anticommutes with the measured operator, the elimination ends in the identity. *)
From Coq Require Import List Bool Arith Lia.
Import ListNotations.
Require Import Pauli Collapse.
Require Stab Conj SpecSem.

Local Notation bits := Stab.bits.
Local Notation bxor := Stab.bxor.
Local Notation bit_at := Stab.bit_at.

(* ---------- bits ---------- *)
Lemma bit_at_cons p (r : bits) j : bit_at (p :: r) (S (S j)) = bit_at r j.
Proof.
  unfold Stab.bit_at. replace (S (S j) / 2) with (S (j / 2)).
  - cbn [Stab.get Nat.even]. reflexivity.
  - replace (S (S j)) with (j + 1 * 2) by lia. rewrite Nat.div_add by lia. lia.
Qed.
Lemma bit_at_bxor : forall (a b : bits) j, length a = length b -> bit_at (bxor a b) j = xorb (bit_at a j) (bit_at b j).
Proof.
  intros a b j H. unfold Stab.bit_at. change (Stab.get (j / 2) (bxor a b)) with (Conj.get (j / 2) (Pauli.bxor a b)).
  rewrite Conj.get_bxor by exact H. cbn [fst snd]. destruct (Nat.even j); reflexivity.
Qed.
Lemma bit_at_zeros m j : bit_at (zeros m) j = false.
Proof.
  unfold Stab.bit_at. change (Stab.get (j / 2) (zeros m)) with (Conj.get (j / 2) (zeros m)).
  assert (E : forall q m, Conj.get q (zeros m) = (false, false)).
  { induction q as [|q IH]; intros [|m']; cbn; try reflexivity. apply IH. }
  rewrite E. destruct (Nat.even j); reflexivity.
Qed.

(* first_one: position of the first set bit *)
Lemma first_one_some : forall (l : bits) k i, Stab.first_one l k = Some i ->
  exists j, i = 2 * k + j /\ bit_at l j = true /\ forall j', j' < j -> bit_at l j' = false.
Proof.
  induction l as [|[x z] r IH]; intros k i H; cbn [Stab.first_one] in H; [discriminate|].
  destruct x.
  - injection H as <-. exists 0. split; [lia|]. split; [reflexivity| intros j' Hj; lia].
  - destruct z.
    + injection H as <-. exists 1. split; [lia|]. split; [reflexivity|]. intros j' Hj. assert (j' = 0) by lia. subst. reflexivity.
    + destruct (IH (S k) i H) as (j & -> & Hb & Hlt). exists (S (S j)). split; [lia|]. split; [now rewrite bit_at_cons|].
      intros j' Hj. destruct j' as [|[|j']]; try reflexivity. rewrite bit_at_cons. apply Hlt. lia.
Qed.
Lemma first_one_none : forall (l : bits) k, Stab.first_one l k = None -> Stab.is_identity l = true.
Proof.
  induction l as [|[x z] r IH]; intros k H; cbn [Stab.first_one] in H; [reflexivity|].
  destruct x; [discriminate|]. destruct z; [discriminate|]. cbn. exact (IH (S k) H).
Qed.
Lemma all_zero_identity : forall l : bits, (forall j, bit_at l j = false) -> Stab.is_identity l = true.
Proof.
  intros l H. destruct (Stab.first_one l 0) as [i|] eqn:E; [|exact (first_one_none l 0 E)].
  destruct (first_one_some l 0 i E) as (j & _ & Hb & _). rewrite H in Hb. discriminate.
Qed.

Section Elim.
  Variable n : nat.
  Definition wfb (v : bits) : Prop := length v = n.
  Lemma weq (a b : bits) : wfb a -> wfb b -> length a = length b.
  Proof. intros Ha Hb. exact (eq_trans Ha (eq_sym Hb)). Qed.
  Lemma wfb_bxor a b : wfb a -> wfb b -> wfb (bxor a b).
  Proof. intros Ha Hb. unfold wfb. transitivity (length a); [apply SpecSem.sbxor_length, weq; assumption| exact Ha]. Qed.
  Lemma bxor_cancel a b : wfb a -> wfb b -> bxor a (bxor a b) = b.
  Proof. intros Ha Hb. apply (Collapse.bxor_invol a b). now apply weq. Qed.
  Lemma bxor_assoc' a b c : wfb a -> wfb b -> wfb c -> bxor a (bxor b c) = bxor (bxor a b) c.
  Proof. intros. apply (Pauli.bxor_assoc a b c); now apply weq. Qed.
  Lemma bxor_comm' a b : bxor a b = bxor b a. Proof. apply (Pauli.bxor_comm a b). Qed.
  Lemma bxor_zeros_r' a : wfb a -> bxor a (zeros n) = a.
  Proof. unfold wfb. intros H. rewrite <- H. apply (Collapse.bxor_zeros_r a). Qed.
  Lemma wfb_zeros : wfb (zeros n). Proof. apply zeros_length. Qed.

  (* GF(2) span of a list of vectors *)
  Inductive bspan (vs : list bits) : bits -> Prop :=
  | bs_zero : bspan vs (zeros n)
  | bs_add v w : In v vs -> bspan vs w -> bspan vs (bxor v w).
  Lemma bspan_wf vs v : Forall wfb vs -> bspan vs v -> wfb v.
  Proof. intros Hw H. induction H as [|v w Hin _ IH]; [apply wfb_zeros|]. rewrite Forall_forall in Hw. apply wfb_bxor; [now apply Hw| exact IH]. Qed.
  Lemma bspan_mono vs1 vs2 v : (forall x, In x vs1 -> In x vs2) -> bspan vs1 v -> bspan vs2 v.
  Proof. intros Hs H. induction H as [|x w Hin _ IH]; [constructor| constructor; [now apply Hs| exact IH]]. Qed.
  Lemma bspan_xor vs a b : Forall wfb vs -> bspan vs a -> bspan vs b -> bspan vs (bxor a b).
  Proof.
    intros Hw Ha Hb. induction Ha as [|x w Hin Hw' IH].
    - rewrite bxor_comm', bxor_zeros_r'; [exact Hb| now apply (bspan_wf vs)].
    - rewrite Forall_forall in Hw. rewrite <- bxor_assoc'; [constructor; assumption| now apply Hw| | now apply (bspan_wf vs); [apply Forall_forall|]].
      apply (bspan_wf vs); [now apply Forall_forall| exact Hw'].
  Qed.
  Lemma bspan_in vs v : Forall wfb vs -> In v vs -> bspan vs v.
  Proof. intros Hw Hin. rewrite Forall_forall in Hw. rewrite <- (bxor_zeros_r' v) by now apply Hw. constructor; [exact Hin| constructor]. Qed.
  Lemma bspan_bit vs v i : Forall wfb vs -> (forall x, In x vs -> bit_at x i = false) -> bspan vs v -> bit_at v i = false.
  Proof.
    intros Hw Hz H. induction H as [|x w Hin Hs IH]; [apply bit_at_zeros|]. rewrite Forall_forall in Hw.
    rewrite bit_at_bxor, (Hz x Hin), IH; [reflexivity|]. apply weq; [now apply Hw| apply (bspan_wf vs w); [now apply Forall_forall| exact Hs]].
  Qed.
  Lemma bspan_split a vs v : wfb a -> Forall wfb vs -> bspan (a :: vs) v -> exists (e : bool) w, bspan vs w /\ v = if e then bxor a w else w.
  Proof.
    intros Ha Hw H. induction H as [|x w Hin Hs IH].
    - exists false, (zeros n). split; [constructor| reflexivity].
    - destruct IH as (e & w' & Hw' & ->). pose proof (bspan_wf vs w' Hw Hw') as Ww'. destruct Hin as [<-|Hin].
      + destruct e; [exists false, w'; split; [exact Hw'| now apply bxor_cancel]| exists true, w'; split; [exact Hw'| reflexivity]].
      + assert (Wx : wfb x) by (rewrite Forall_forall in Hw; now apply Hw). destruct e.
        * exists true, (bxor x w'). split; [constructor; assumption|].
          rewrite (bxor_assoc' x a w'), (bxor_comm' x a), <- (bxor_assoc' a x w') by assumption. reflexivity.
        * exists false, (bxor x w'). split; [constructor; assumption| reflexivity].
  Qed.

  (* ---------- echelon pivots ---------- *)
  Definition pbits (piv : list (nat * Stab.gen)) : list bits := map (fun ip => snd (snd ip)) piv.
  Inductive ech : list (nat * Stab.gen) -> Prop :=
  | ech_nil : ech []
  | ech_cons i g piv : wfb (snd g) -> Stab.first_one (snd g) 0 = Some i -> Forall (fun jp => i < fst jp) piv -> ech piv -> ech ((i, g) :: piv).
  Lemma ech_wf piv : ech piv -> Forall wfb (pbits piv).
  Proof. induction 1; cbn; constructor; assumption. Qed.
  Lemma first_bit (g : Stab.gen) i : Stab.first_one (snd g) 0 = Some i -> bit_at (snd g) i = true /\ forall j, j < i -> bit_at (snd g) j = false.
  Proof. intros H. destruct (first_one_some _ _ _ H) as (j & -> & Hb & Hlt). cbn [Nat.mul Nat.add]. split; [exact Hb| exact Hlt]. Qed.
  Lemma ech_later_zero i piv : ech piv -> Forall (fun jp => i < fst jp) piv -> forall x, In x (pbits piv) -> bit_at x i = false.
  Proof.
    intros He Hlt x Hx. unfold pbits in Hx. apply in_map_iff in Hx as ([j g] & <- & Hin). cbn [snd].
    rewrite Forall_forall in Hlt. specialize (Hlt _ Hin). cbn [fst] in Hlt.
    assert (Hf : Stab.first_one (snd g) 0 = Some j).
    { clear Hlt. induction He as [|i' g' piv' _ Hf' _ _ IH]; [contradiction|]. destruct Hin as [E|Hin]; [injection E as -> ->; exact Hf'| now apply IH]. }
    apply (first_bit g j Hf). exact Hlt.
  Qed.

  (* a vector in the span of echelon pivots that vanishes at every pivot index is zero *)
  Lemma ech_zero piv : ech piv -> forall v, bspan (pbits piv) v -> (forall ip, In ip piv -> bit_at v (fst ip) = false) -> v = zeros n.
  Proof.
    induction 1 as [|i g piv Wg Hf Hlt He IH]; intros v Hs Hz.
    - cbn in Hs. inversion Hs; [reflexivity| contradiction].
    - cbn [pbits map snd] in Hs. destruct (bspan_split (snd g) (pbits piv) v Wg (ech_wf piv He) Hs) as (e & w & Hw & ->).
      assert (Wi : bit_at w i = false) by (apply (bspan_bit (pbits piv)); [apply ech_wf, He| now apply ech_later_zero| exact Hw]).
      pose proof (bspan_wf _ w (ech_wf piv He) Hw) as Ww.
      destruct e.
      + exfalso. specialize (Hz (i, g) (or_introl eq_refl)). cbn [fst] in Hz.
        rewrite bit_at_bxor in Hz by (now apply weq). rewrite (proj1 (first_bit g i Hf)), Wi in Hz. discriminate.
      + apply IH; [exact Hw|]. intros ip Hin. apply Hz. now right.
  Qed.

  (* ---------- reduce ---------- *)
  Lemma reduce_bits piv : Forall wfb (pbits piv) -> forall g, wfb (snd g) ->
    wfb (snd (Stab.reduce piv g)) /\ exists w, bspan (pbits piv) w /\ snd (Stab.reduce piv g) = bxor (snd g) w.
  Proof.
    induction piv as [|[i pg] piv IH]; intros Hw g Wg; cbn [Stab.reduce].
    - split; [exact Wg|]. exists (zeros n). split; [constructor| symmetry; now apply bxor_zeros_r'].
    - cbn [pbits map snd] in Hw. apply Forall_cons_iff in Hw as [Wp Hw].
      set (g' := if bit_at (snd g) i then Stab.gmul g pg else g).
      assert (Wg' : wfb (snd g')) by (unfold g'; destruct (bit_at (snd g) i); [cbn [Stab.gmul snd]; now apply wfb_bxor| exact Wg]).
      destruct (IH Hw g' Wg') as (Wr & w & Hs & Er). split; [exact Wr|].
      assert (Hs' : bspan (pbits ((i, pg) :: piv)) w) by (apply (bspan_mono (pbits piv)); [intros x Hx; now right| exact Hs]).
      pose proof (bspan_wf _ w Hw Hs) as Ww.
      subst g'. destruct (bit_at (snd g) i).
      + exists (bxor (snd pg) w). split; [constructor; [now left| exact Hs']|].
        rewrite Er. cbn [Stab.gmul snd]. symmetry. now apply bxor_assoc'.
      + exists w. split; [exact Hs'| exact Er].
  Qed.
  (* reduction does not touch a bit at which all pivots vanish *)
  Lemma reduce_keeps piv j : Forall wfb (pbits piv) -> (forall x, In x (pbits piv) -> bit_at x j = false) ->
    forall g, wfb (snd g) -> bit_at (snd (Stab.reduce piv g)) j = bit_at (snd g) j.
  Proof.
    intros Hw Hz g Wg. destruct (reduce_bits piv Hw g Wg) as (_ & w & Hs & ->).
    pose proof (bspan_wf _ w Hw Hs) as Ww. rewrite bit_at_bxor by (now apply weq).
    rewrite (bspan_bit (pbits piv) w j Hw Hz Hs). apply xorb_false_r.
  Qed.
  Lemma reduce_clears piv : ech piv -> forall g, wfb (snd g) -> forall ip, In ip piv -> bit_at (snd (Stab.reduce piv g)) (fst ip) = false.
  Proof.
    induction 1 as [|i pg piv Wp Hf Hlt He IH]; intros g Wg ip Hin; [contradiction|]. cbn [Stab.reduce].
    set (g' := if bit_at (snd g) i then Stab.gmul g pg else g).
    assert (Wg' : wfb (snd g')) by (unfold g'; destruct (bit_at (snd g) i); [cbn [Stab.gmul snd]; now apply wfb_bxor| exact Wg]).
    destruct Hin as [<-|Hin]; [|now apply IH]. cbn [fst].
    rewrite (reduce_keeps piv i (ech_wf piv He) (ech_later_zero i piv He Hlt) g' Wg').
    unfold g'. destruct (bit_at (snd g) i) eqn:E; [|exact E]. cbn [Stab.gmul snd].
    rewrite bit_at_bxor by (now apply weq). rewrite E, (proj1 (first_bit pg i Hf)). reflexivity.
  Qed.

  (* ---------- build_piv ---------- *)
  Lemma insert_in i g piv x : In x (Stab.insert_piv i g piv) <-> x = (i, g) \/ In x piv.
  Proof.
    induction piv as [|[j h] piv IH]; cbn [Stab.insert_piv]; [cbn; intuition (subst; auto)|].
    destruct (i <? j); cbn [In]; [intuition (subst; auto)|]. rewrite IH. intuition (subst; auto).
  Qed.
  Lemma insert_ech i g piv : ech piv -> wfb (snd g) -> Stab.first_one (snd g) 0 = Some i -> (forall ip, In ip piv -> fst ip <> i) ->
    ech (Stab.insert_piv i g piv).
  Proof.
    induction 1 as [|j h piv Wh Hf Hlt He IH]; intros Wg Hg Hne; cbn [Stab.insert_piv].
    - constructor; [exact Wg| exact Hg| constructor| constructor].
    - destruct (i <? j) eqn:E.
      + apply Nat.ltb_lt in E. constructor; [exact Wg| exact Hg| | constructor; assumption].
        constructor; [exact E|]. apply Forall_forall. intros x Hx. rewrite Forall_forall in Hlt. specialize (Hlt x Hx). lia.
      + apply Nat.ltb_ge in E. assert (j <> i) by (apply (Hne (j, h)); now left).
        constructor; [exact Wh| exact Hf| | apply IH; [exact Wg| exact Hg| intros ip Hin; apply Hne; now right]].
        apply Forall_forall. intros x Hx. apply insert_in in Hx. destruct Hx as [->|Hx]; [cbn; lia|]. rewrite Forall_forall in Hlt. now apply Hlt.
  Qed.

  Lemma build_inv (gs : list Stab.gen) : Forall (fun g => wfb (snd g)) gs -> forall piv, ech piv ->
    ech (Stab.build_piv gs piv) /\ (forall x, In x (pbits piv) -> bspan (pbits (Stab.build_piv gs piv)) x) /\
    (forall g, In g gs -> bspan (pbits (Stab.build_piv gs piv)) (snd g)).
  Proof.
    induction gs as [|g gs IH]; intros Hw piv He; cbn [Stab.build_piv].
    - split; [exact He|]. split; [intros x Hx; apply bspan_in; [now apply ech_wf| exact Hx]| intros g []].
    - apply Forall_cons_iff in Hw as [Wg Hw].
      destruct (reduce_bits piv (ech_wf piv He) g Wg) as (Wr & w & Hs & Er).
      pose proof (bspan_wf _ w (ech_wf piv He) Hs) as Ww.
      assert (Eg : snd g = bxor (snd (Stab.reduce piv g)) w).
      { rewrite Er. rewrite (bxor_comm' (snd g) w), (bxor_comm' (bxor w (snd g)) w). symmetry. now apply bxor_cancel. }
      destruct (Stab.first_one (snd (Stab.reduce piv g)) 0) as [i|] eqn:Ef.
      + assert (He' : ech (Stab.insert_piv i (Stab.reduce piv g) piv)).
        { apply insert_ech; [exact He| exact Wr| exact Ef|]. intros ip Hin Heq.
          pose proof (reduce_clears piv He g Wg ip Hin) as Hc. rewrite Heq, (proj1 (first_bit _ i Ef)) in Hc. discriminate. }
        destruct (IH Hw _ He') as (H1 & H2 & H3). split; [exact H1|].
        assert (Hsub : forall x, In x (pbits piv) -> In x (pbits (Stab.insert_piv i (Stab.reduce piv g) piv))).
        { intros x Hx. unfold pbits in *. apply in_map_iff in Hx as (ip & <- & Hin). apply in_map_iff. exists ip. split; [reflexivity|]. apply insert_in. now right. }
        split; [intros x Hx; apply H2, Hsub, Hx|].
        intros h [<-|Hh]; [|now apply H3]. rewrite Eg.
        apply bspan_xor; [apply ech_wf, H1| |].
        * apply H2. unfold pbits. apply in_map_iff. exists (i, Stab.reduce piv g). split; [reflexivity|]. apply insert_in. now left.
        * clear - Hs H2 Hsub H1. induction Hs as [|x w' Hin _ IHs]; [constructor|].
          apply bspan_xor; [apply ech_wf, H1| apply H2, Hsub, Hin| exact IHs].
      + destruct (IH Hw piv He) as (H1 & H2 & H3). split; [exact H1|]. split; [exact H2|].
        intros h [<-|Hh]; [|now apply H3]. rewrite Eg.
        pose proof (first_one_none _ _ Ef) as Hid. rewrite (SpecSem.is_identity_zeros _ Hid). unfold wfb in Wr.
        replace (length (snd (Stab.reduce piv g))) with n by (symmetry; exact Wr).
        rewrite bxor_comm', bxor_zeros_r' by exact Ww.
        clear - Hs H2 H1. induction Hs as [|x w' Hin _ IHs]; [constructor|].
        apply bspan_xor; [apply ech_wf, H1| apply H2, Hin| exact IHs].
  Qed.

  (* ---------- completeness ---------- *)
  Theorem elimination_complete (gs : list Stab.gen) f (P : bits) : Forall (fun g => wfb (snd g)) gs ->
    bspan (map snd gs) P -> Stab.is_identity (snd (Stab.reduce (Stab.build_piv gs []) (f, P))) = true.
  Proof.
    intros Hw HP. destruct (build_inv gs Hw [] ech_nil) as (He & _ & Hg). set (piv := Stab.build_piv gs []) in *.
    assert (Hwv : Forall wfb (map snd gs)) by (apply Forall_forall; intros x Hx; apply in_map_iff in Hx as (g & <- & Hin); rewrite Forall_forall in Hw; now apply Hw).
    assert (WP : wfb P) by now apply (bspan_wf (map snd gs)).
    assert (HP' : bspan (pbits piv) P).
    { clear - HP Hg He Hwv. induction HP as [|x w Hin _ IH]; [constructor|].
      apply bspan_xor; [apply ech_wf, He| | exact IH]. apply in_map_iff in Hin as (g & <- & Hin). now apply Hg. }
    destruct (reduce_bits piv (ech_wf piv He) (f, P) WP) as (Wr & w & Hs & Er).
    assert (Hr : bspan (pbits piv) (snd (Stab.reduce piv (f, P)))) by (rewrite Er; cbn [snd]; apply bspan_xor; [apply ech_wf, He| exact HP'| exact Hs]).
    rewrite (ech_zero piv He _ Hr (reduce_clears piv He (f, P) WP)).
    apply all_zero_identity. intros j. apply bit_at_zeros.
  Qed.
End Elim.
Print Assumptions elimination_complete.
