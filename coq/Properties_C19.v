(* C19 — Generated benchmark circuits are well-formed and have the stated distance.
   The generated circuits are checked as data (regenerated from the working tree on every run) by the executable
   specification; the theorems below are what makes that check meaningful. *)
From Coq Require Import List Bool NArith.
Import ListNotations.
Require Import Stab Act Spec SpecProofs GF2.
From Coq Require Import String.
Require Pauli Collapse Sem Refine Run FrameRun RevTrack.
Local Open Scope string_scope.

(* a detector whose sign form has no coin dependence takes the same value for EVERY assignment of the collapse coins:
   it is deterministic under noiseless execution *)
Theorem C19_no_coin_dependence_means_deterministic :
  forall m k1 k2 (f : form), snd f = 0%N -> eval_form m k1 f = eval_form m k2 f.
Proof. intros m k1 k2 [c mask] H; cbn in H; subst mask. unfold eval_form; cbn [fst snd].
  unfold vec_of. rewrite !dot_zero_vec. reflexivity. Qed.
(* detector forms are the XOR of the named record forms (shared with C04) *)
Theorem C19_detector_form_is_xor_of_values :
  forall m k rs ks, eval_form m k (parity_form rs ks) = fold_left (fun acc j => xorb acc (eval_form m k (rec_at rs j))) ks false.
Proof. exact parity_form_is_xor_of_values. Qed.
Print Assumptions C19_no_coin_dependence_means_deterministic.

(* non-vacuity: two rounds of a distance-2 repetition code measured by CX + MR on an ancilla have deterministic detectors *)
Example C19_nonvacuous :
  let cx := e_id (gate_named "CX") in
  let r := srun 3 0 [SReset BZ 0; SReset BZ 1; SReset BZ 2; SU2 cx 0 1; SU2 cx 2 1; SMeasReset BZ 1 false; SDetector [1];
                     SU2 cx 0 1; SU2 cx 2 1; SMeasReset BZ 1 false; SDetector [1; 2]] in
  map snd (dets r) = [0%N; 0%N].
Proof. vm_compute. reflexivity. Qed.

(* Soundness of the determinism criterion applied to the generated circuits' detectors: from the all-zero state, a detector whose
   back-propagated sensitivity never anticommutes with a measured operator and has no X part at the start takes the same value in
   every run the semantics allows (Clifford steps and Hermitian measurements, any number). *)
Theorem C19_determinism_criterion_is_sound :
  forall (n : nat) (l la : list (Run.op * option bool)) (s' : (Pauli.pauli -> Pauli.pauli) * (Pauli.pauli -> Pauli.pauli))
         (S' : Sem.state) (d : list bool),
  Forall (fun x => FrameRun.ok_op n (fst x)) l ->
  Run.sim_run n (fun P => P, fun P => P) l s' -> Run.sem_run (fun P => Collapse.Zplus P) la S' -> map fst la = map fst l ->
  RevTrack.gauge_ok n l d -> Collapse.xfreeb (snd (RevTrack.revtrack n l d)) = true ->
  RevTrack.par_rec la d = RevTrack.par_rec l d.
Proof. exact RevTrack.detector_deterministic_zero_state. Qed.
Print Assumptions C19_determinism_criterion_is_sound.
