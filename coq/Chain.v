From Coq Require Import List Bool QArith Lia Lqa.
Import ListNotations.
Local Open Scope Q_scope.

(* C05: disjoint Pauli channels implemented as a chain of ELSE_CORRELATED_ERRORs
   (perform_pauli_errors_via_correlated_errors): outcome k is tried only if no earlier outcome fired, with
   conditional probability  q_k = remaining <= 0 ? 0 : remaining <= p_k ? 1 : p_k / remaining,
   remaining = 1 - (p_1 + ... + p_{k-1}).  If all p_k >= 0 and their sum is <= 1, outcome k fires with
   probability exactly p_k. *)
Definition cond (used p : Q) : Q :=
  let remaining := 1 - used in
  if Qle_bool remaining 0 then 0 else if Qle_bool remaining p then 1 else p / remaining.

(* probability that outcome number k (0-based) of the chain fires: none of the earlier ones fired, then it did *)
Fixpoint fire (ps : list Q) (used alive : Q) (k : nat) : Q :=
  match ps with
  | [] => 0
  | p :: ps' => match k with
                | O => alive * cond used p
                | S k' => fire ps' (used + p) (alive * (1 - cond used p)) k'
                end
  end.
Fixpoint sumq (ps : list Q) : Q := match ps with [] => 0 | p :: ps' => p + sumq ps' end.

Lemma cond_spec used p : 0 <= p -> used + p <= 1 -> (1 - used) * cond used p == p.
Proof.
  intros Hp Hs. unfold cond. destruct (Qle_bool (1 - used) 0) eqn:E0.
  - apply Qle_bool_iff in E0. assert (p == 0) by (apply Qle_antisym; lra). rewrite H. ring.
  - destruct (Qle_bool (1 - used) p) eqn:E1.
    + apply Qle_bool_iff in E1. assert (1 - used == p) by (apply Qle_antisym; lra). rewrite H. ring.
    + assert (Hne : ~ 1 - used == 0).
      { intros H. assert (Qle_bool (1 - used) 0 = true) by (apply Qle_bool_iff; lra). congruence. }
      field. exact Hne.
Qed.

Theorem chain_is_disjoint : forall ps used alive k,
  Forall (fun p => 0 <= p) ps -> used + sumq ps <= 1 -> alive == 1 - used ->
  (k < length ps)%nat -> fire ps used alive k == nth k ps 0.
Proof.
  induction ps as [|p ps IH]; intros used alive k Hpos Hsum Hal Hk; cbn [length] in Hk; [lia|].
  apply Forall_cons_iff in Hpos as [Hp Hpos]. cbn [sumq] in Hsum.
  assert (Hs : 0 <= sumq ps) by (clear - Hpos; induction ps as [|q ps IH]; cbn; [lra|]; apply Forall_cons_iff in Hpos as [Hq Hpos]; specialize (IH Hpos); lra).
  destruct k as [|k]; cbn [fire nth].
  - rewrite Hal. apply cond_spec; lra.
  - apply IH; [exact Hpos| lra| | lia].
    rewrite Hal. pose proof (cond_spec used p Hp ltac:(lra)) as Hc.
    transitivity ((1 - used) - (1 - used) * cond used p); [ring|]. rewrite Hc. ring.
Qed.
Print Assumptions chain_is_disjoint.
