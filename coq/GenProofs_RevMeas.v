(* Obligations over the GENERATED rows of the reverse tracker's measurement / reset undo routines: for each gate of the dispatch
   (M, MX, MY, MR, MRX, MRY, R, RX, RY) the routine's effect on one target, per detector, is the backward step of AdjGen for the
   gate's documented basis: a measurement adds its basis Pauli to the detectors that include the result, a reset clears the
   observable, a measure-reset is the measurement followed by the reset; the gauge test looks at the component that anticommutes
   with the basis. *)
From Coq Require Import List Bool String Arith.
Import ListNotations.
Require Import Gen_RevTrack Gen_RevMeas AdjGen.
Local Open Scope string_scope.

Definition row := (string * string * bool * bool * bool * bool)%type.
Definition r_name (r : row) : string := let '(n, _, _, _, _, _) := r in n.
Definition r_gauge (r : row) : string := let '(_, g, _, _, _, _) := r in g.
Definition r_clears (r : row) : bool := let '(_, _, c, _, _, _) := r in c.
Definition r_addx (r : row) : bool := let '(_, _, _, x, _, _) := r in x.
Definition r_addz (r : row) : bool := let '(_, _, _, _, z, _) := r in z.
Definition r_meas (r : row) : bool := let '(_, _, _, _, _, m) := r in m.

(* what one target's (in xs, in zs) membership of a detector becomes; d0 = the detector includes this measurement result *)
Definition row_apply (r : row) (d0 : bool) (s : pz) : pz :=
  let s1 := if r_clears r then pid else s in
  (xorb (fst s1) (d0 && r_addx r), xorb (snd s1) (d0 && r_addz r)).

(* the dispatch of undo_gate (generated in Gen_RevTrack.rev_other): gate -> routine *)
Definition routine_of (gate : string) : string :=
  match find (fun '(g, _, _) => String.eqb g gate) rev_other with Some (_, r, _) => r | None => "" end.
Definition row_of (gate : string) : option row := find (fun r => String.eqb (r_name r) (routine_of gate)) revmeas.

Definition basis (gate : string) : pz :=
  if existsb (String.eqb gate) ["MX"; "MRX"; "RX"] then (true, false)
  else if existsb (String.eqb gate) ["MY"; "MRY"; "RY"] then (true, true) else (false, true).
(* the sensitivity component that anticommutes with the basis: detectors with that component make the measurement/reset a gauge *)
Definition gauge_axis (gate : string) : string :=
  if existsb (String.eqb gate) ["MX"; "MRX"; "RX"] then "z" else if existsb (String.eqb gate) ["MY"; "MRY"; "RY"] then "y" else "x".
Definition is_meas (gate : string) : bool := existsb (String.eqb gate) ["M"; "MX"; "MY"; "MR"; "MRX"; "MRY"].
Definition is_reset (gate : string) : bool := existsb (String.eqb gate) ["R"; "RX"; "RY"; "MR"; "MRX"; "MRY"].

(* the AdjGen backward step of the gate on one qubit's observable: reset first (it is later in time), then the measurement *)
Definition spec_apply (gate : string) (d0 : bool) (s : pz) : pz :=
  let s1 := if is_reset gate then pid else s in
  if is_meas gate then (if d0 then pxor s1 (basis gate) else s1) else s1.

Definition all_pz : list pz := [(false,false); (false,true); (true,false); (true,true)].
Definition gate_ok (gate : string) : bool :=
  match row_of gate with
  | None => false
  | Some r =>
    String.eqb (r_gauge r) (gauge_axis gate) && Bool.eqb (r_meas r) (is_meas gate) &&
    forallb (fun d0 => forallb (fun s => let a := row_apply r d0 s in let b := spec_apply gate d0 s in
                                          Bool.eqb (fst a) (fst b) && Bool.eqb (snd a) (snd b)) all_pz) [false; true]
  end.
Definition meas_gates : list string := ["M"; "MX"; "MY"; "MR"; "MRX"; "MRY"; "R"; "RX"; "RY"].
Definition is_nil {A} (l : list A) : bool := match l with [] => true | _ => false end.
Definition revmeas_all_ok : bool := is_nil revmeas_refused && forallb gate_ok meas_gates.

Theorem revmeas_routines_match_adjgen : revmeas_all_ok = true.
Proof. vm_compute. reflexivity. Qed.

(* the same obligations for the error analyzer's own routines and dispatch *)
Definition ea_routine_of (gate : string) : string :=
  match find (fun '(g, _) => String.eqb g gate) ea_dispatch with Some (_, r) => r | None => "" end.
Definition ea_row_of (gate : string) : option row := find (fun r => String.eqb (r_name r) (ea_routine_of gate)) ea_revmeas.
Definition ea_gate_ok (gate : string) : bool :=
  match ea_row_of gate with
  | None => false
  | Some r =>
    String.eqb (r_gauge r) (gauge_axis gate) && Bool.eqb (r_meas r) (is_meas gate) &&
    forallb (fun d0 => forallb (fun s => let a := row_apply r d0 s in let b := spec_apply gate d0 s in
                                          Bool.eqb (fst a) (fst b) && Bool.eqb (snd a) (snd b)) all_pz) [false; true]
  end.
Definition ea_revmeas_all_ok : bool := is_nil ea_revmeas_refused && forallb ea_gate_ok meas_gates.
Theorem analyzer_measure_reset_routines_match_adjgen : ea_revmeas_all_ok = true.
Proof. vm_compute. reflexivity. Qed.

(* and spec_apply is literally the backward step of AdjGen.back for the op list [GM b q; GR q] / [GM b q] / [GR q] *)
Definition ops_of (gate : string) (q : nat) : list gop :=
  (if is_meas gate then [GM (basis gate) q] else []) ++ (if is_reset gate then [GR q] else []).
Lemma spec_apply_is_back gate q (c : list gop) (D : det) :
  In gate meas_gates ->
  back (ops_of gate q ++ c) D q =
  spec_apply gate (D 0) (back c (if is_meas gate then shiftD D else D) q).
Proof.
  intros Hin. unfold meas_gates in Hin. cbn [In] in Hin.
  repeat (destruct Hin as [<-|Hin]); try contradiction;
    unfold ops_of, spec_apply; cbn [is_meas is_reset existsb String.eqb Ascii.eqb Bool.eqb orb app back basis];
    unfold upd; rewrite ?Nat.eqb_refl; destruct (D 0); reflexivity.
Qed.
