From Coq Require Import List Bool Arith Lia Ring Btauto.
Import ListNotations.
Require Import Pauli Collapse.

(* Predicate-level stabilizer semantics: a state is the membership predicate of its stabilizer group
   (signed Paulis in XZ-form).  This layer has no generators, no elimination, no coins-as-variables:
   it is the short specification; the executable symbolic-sign spec refines it. *)
Definition neg (s : bool) (P : pauli) : pauli := (z4_add (z4_two s) (fst P), snd P).
Definition acom (P Q : pauli) : bool := symp (snd P) (snd Q).          (* true = anticommute *)
Definition state := pauli -> Prop.

(* outcome o of measuring Hermitian M in state S, and the state afterwards *)
Definition meas_det (S : state) (M : pauli) (o : bool) : Prop := S (neg o M).
Definition meas_rnd_ok (S : state) (M : pauli) : Prop := ~ S M /\ ~ S (neg true M).
Definition post_rnd (S : state) (M : pauli) (c : bool) : state :=
  fun P => exists eps g, S g /\ acom g M = false /\ length (snd g) = length (snd M) /\ P = pmul (Mpow (neg c M) eps) g.

(* a Pauli frame F applied to a state: g in S  <->  (-1)^[F,g] g in F.S *)
Definition shift (F : pauli) (S : state) : state := fun P => S (neg (acom F P) P).

Lemma neg_neg s t P : neg s (neg t P) = neg (xorb s t) P.
Proof. destruct P as [[[] []] l], s, t; reflexivity. Qed.
Lemma neg_false P : neg false P = P.
Proof. destruct P as [[[] []] l]; reflexivity. Qed.
Lemma snd_neg s P : snd (neg s P) = snd P. Proof. reflexivity. Qed.
Lemma acom_neg_r F s P : acom F (neg s P) = acom F P. Proof. reflexivity. Qed.
Lemma acom_neg_l F s P : acom (neg s F) P = acom F P. Proof. reflexivity. Qed.
Lemma pmul_neg_l s P Q : pmul (neg s P) Q = neg s (pmul P Q).
Proof. destruct P as [[[] []] a], Q as [[[] []] b], s, (zx_par a b) eqn:E; unfold pmul, neg; cbn [fst snd]; rewrite E; reflexivity. Qed.
Lemma pmul_neg_r s P Q : pmul P (neg s Q) = neg s (pmul P Q).
Proof. destruct P as [[[] []] a], Q as [[[] []] b], s, (zx_par a b) eqn:E; unfold pmul, neg; cbn [fst snd]; rewrite E; reflexivity. Qed.

Lemma acom_pmul_r F P Q : length (snd F) = length (snd P) -> length (snd P) = length (snd Q) ->
  acom F (pmul P Q) = xorb (acom F P) (acom F Q).
Proof. intros L1 L2. unfold acom, symp, pmul; cbn [snd]. rewrite zx_par_xor_r, zx_par_xor_l by (unfold pauli, bits in *; lia).
  btauto. Qed.
Lemma acom_zeros_r F n : acom F (z4_0, zeros n) = false.
Proof. unfold acom, symp; cbn [snd]. rewrite zx_par_zeros_r, zx_par_zeros_l. reflexivity. Qed.
Lemma Mpow_neg_len M c eps : length (snd (Mpow (neg c M) eps)) = length (snd M).
Proof. destruct eps; unfold Mpow; cbn [snd neg]; [reflexivity| apply zeros_length]. Qed.
Lemma acom_Mpow F M c eps : acom F (Mpow (neg c M) eps) = andb eps (acom F M).
Proof. destruct eps; unfold Mpow; [reflexivity| apply acom_zeros_r]. Qed.
Lemma Mpow_neg_shift M c d eps : Mpow (neg (xorb c d) M) eps = neg (andb eps d) (Mpow (neg c M) eps).
Proof. destruct eps; unfold Mpow; cbn [andb]; [rewrite neg_neg, xorb_comm; reflexivity| rewrite neg_false; reflexivity]. Qed.

(* deterministic measurement: the frame flips the outcome by [F,M] and nothing else *)
Theorem frame_meas_det F S M o : meas_det S M o -> meas_det (shift F S) M (xorb o (acom F M)).
Proof. unfold meas_det, shift. intros H. rewrite acom_neg_r, neg_neg.
  replace (xorb (acom F M) (xorb o (acom F M))) with o by (destruct o, (acom F M); reflexivity). exact H. Qed.

(* random measurement stays random under a frame *)
Theorem frame_meas_rnd_ok F S M : meas_rnd_ok S M -> meas_rnd_ok (shift F S) M.
Proof. unfold meas_rnd_ok, shift. intros [H0 H1]. rewrite acom_neg_r, neg_neg.
  destruct (acom F M); cbn [xorb]; rewrite ?neg_false; split; assumption. Qed.

(* ... and the post-measurement states correspond with the coin shifted by [F,M] *)
Theorem frame_post_rnd F S M c P : length (snd F) = length (snd M) -> length (snd P) = length (snd M) ->
  (shift F (post_rnd S M c) P <-> post_rnd (shift F S) M (xorb c (acom F M)) P).
Proof.
  intros LF LP. unfold shift, post_rnd. split.
  - intros (eps & g & Hg & Hc & Lg & E). exists eps, (neg (acom F g) g). repeat split.
    + rewrite acom_neg_r, neg_neg, xorb_nilpotent, neg_false. exact Hg.
    + exact Hc.
    + exact Lg.
    + assert (EP : P = neg (acom F P) (pmul (Mpow (neg c M) eps) g)) by (rewrite <- E, neg_neg, xorb_nilpotent, neg_false; reflexivity).
      assert (Ea : acom F P = xorb (andb eps (acom F M)) (acom F g)).
      { change (acom F P) with (acom F (neg (acom F P) P)). rewrite E.
        rewrite acom_pmul_r by (rewrite ?Mpow_neg_len; unfold pauli, bits in *; lia). rewrite acom_Mpow. reflexivity. }
      rewrite EP at 1. rewrite Ea, Mpow_neg_shift, pmul_neg_l, pmul_neg_r, neg_neg. reflexivity.
  - intros (eps & g & Hg & Hc & Lg & E). exists eps, (neg (acom F g) g). repeat split.
    + exact Hg.
    + exact Hc.
    + exact Lg.
    + assert (Ea : acom F P = xorb (andb eps (acom F M)) (acom F g)).
      { rewrite E. rewrite acom_pmul_r by (rewrite ?Mpow_neg_len; unfold pauli, bits in *; lia). rewrite acom_Mpow. reflexivity. }
      rewrite Ea, E, Mpow_neg_shift, pmul_neg_l, pmul_neg_r, !neg_neg.
      replace (xorb (xorb (eps && acom F M) (acom F g)) (eps && acom F M)) with (acom F g)
        by (destruct (eps && acom F M), (acom F g); reflexivity). reflexivity.
Qed.

(* the extra Z randomisation the frame simulator applies after a collapse is invisible: if every element of
   S commutes with Z (as after measuring Z), multiplying the frame by Z does not change shift F S *)
Theorem frame_extra_commuting (F Zq : pauli) (S : state) (P : pauli) : length (snd F) = length (snd Zq) -> length (snd Zq) = length (snd P) ->
  (forall g, S g -> acom Zq g = false) ->
  (shift (pmul F Zq) S P <-> shift F S P).
Proof.
  intros L1 L2 Hab. unfold shift.
  assert (Ea : acom (pmul F Zq) P = xorb (acom F P) (acom Zq P)).
  { unfold acom, symp, pmul; cbn [snd]. rewrite zx_par_xor_l, zx_par_xor_r by (unfold pauli, bits in *; lia).
    btauto. }
  rewrite Ea. destruct (acom Zq P) eqn:EZ; [|rewrite xorb_false_r; reflexivity].
  split; intros H; apply Hab in H; rewrite acom_neg_r, EZ in H; discriminate.
Qed.

(* every element of a post-measurement state commutes with the measured observable *)
Lemma post_rnd_commutes (S : state) (M : pauli) c (g : pauli) : pmul M M = (z4_0, zeros (length (snd M))) -> post_rnd S M c g -> acom M g = false.
Proof.
  intros _ (eps & g0 & Hg & Hc & Lg & E). subst g.
  rewrite acom_pmul_r by (rewrite ?Mpow_neg_len; unfold pauli, bits in *; lia). rewrite acom_Mpow.
  assert (Hs : acom M M = false) by (unfold acom, symp; apply xorb_nilpotent).
  rewrite Hs, andb_false_r. cbn [xorb].
  unfold acom, symp in *. rewrite xorb_comm. rewrite Hc. reflexivity.
Qed.
Print Assumptions frame_post_rnd. Print Assumptions frame_extra_commuting.
(* a frame that stabilizes the state (commutes with every element) does nothing *)
Theorem shift_stab (g0 : pauli) (S : state) (P : pauli) :
  (forall g, S g -> acom g0 g = false) -> (shift g0 S P <-> S P).
Proof.
  intros Hc. unfold shift. destruct (acom g0 P) eqn:E; [|rewrite neg_false; reflexivity].
  split; intros H; apply Hc in H; rewrite ?acom_neg_r in H; congruence.
Qed.

Lemma post_rnd_ext (S1 S2 : state) M c P : (forall g, S1 g <-> S2 g) -> (post_rnd S1 M c P <-> post_rnd S2 M c P).
Proof. intros H. unfold post_rnd. split; intros (eps & g & Hg & R); exists eps, g; (split; [apply H, Hg| exact R]). Qed.

(* the other outcome of a random measurement is the same branch seen through the frame g0, for any element g0
   of the (abelian) pre-measurement group that anticommutes with M: this is why Pauli-frame randomisation by
   stabilizers reaches every outcome *)
Theorem post_rnd_other_outcome (S : state) (M g0 : pauli) c (P : pauli) :
  length (snd g0) = length (snd M) -> length (snd P) = length (snd M) ->
  (forall g, S g -> acom g0 g = false) -> acom g0 M = true ->
  (post_rnd S M (negb c) P <-> shift g0 (post_rnd S M c) P).
Proof.
  intros L1 L2 Hc Ha. rewrite frame_post_rnd by assumption. rewrite Ha, xorb_true_r.
  apply post_rnd_ext. intros g. symmetry. apply shift_stab, Hc.
Qed.
Print Assumptions frame_post_rnd. Print Assumptions post_rnd_other_outcome.
