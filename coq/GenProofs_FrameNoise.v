(* Obligations over the GENERATED description of FrameSimulator's Pauli noise routines: X/Y/Z_ERROR flip exactly the documented
   Pauli's frame components; for DEPOLARIZE1 (K = 3) and DEPOLARIZE2 (K = 15) the map p -> flipped Pauli (pair), p = 1..K, is a
   bijection onto the non-identity Paulis (pairs), so a uniformly drawn p gives the documented uniform mixture; one-qubit
   routines address the target group's only qubit, DEPOLARIZE2 its first and second. (Uniformity of rng() % K: 2^64 is not a
   multiple of 3 or 15; the bias is below 2^-60 and is part of the stated trusted base.) *)
From Coq Require Import List Bool String NArith Arith.
Import ListNotations.
Require Import Gen_FrameNoise.
Local Open Scope string_scope.

Definition row := (string * bool * N * list (string * N * N))%type.
Definition r_gate (r : row) : string := let '(g, _, _, _) := r in g.
Definition r_pairs (r : row) : bool := let '(_, p, _, _) := r in p.
Definition r_K (r : row) : N := let '(_, _, k, _) := r in k.
Definition r_flips (r : row) : list (string * N * N) := let '(_, _, _, f) := r in f.
Definition row_in (tbl : list row) (g : string) : option row := find (fun r => String.eqb (r_gate r) g) tbl.

(* code of the Pauli flipped on qubit `who` when p is drawn: bit 0 = x component, bit 1 = z component *)
Definition fires (mask p : N) : bool := if N.eqb mask 0 then true else negb (N.eqb (N.land p mask) 0).
Definition comp (tbl : string) (who p : N) (fl : list (string * N * N)) : bool :=
  fold_left (fun acc '(t, w, m) => if String.eqb t tbl && N.eqb w who && fires m p then negb acc else acc) fl false.
Definition pauli_code (who p : N) (fl : list (string * N * N)) : N :=
  ((if comp "x" who p fl then 1 else 0) + (if comp "z" who p fl then 2 else 0))%N.
Definition roles_ok (r : row) : bool :=
  forallb (fun '(t, w, _) => (String.eqb t "x" || String.eqb t "z") && (N.eqb w 1 || (r_pairs r && N.eqb w 2))) (r_flips r).

Definition fixed_ok (tbl : list row) (g : string) (code : N) : bool :=
  match row_in tbl g with
  | Some r => negb (r_pairs r) && N.eqb (r_K r) 0 && roles_ok r && N.eqb (pauli_code 1 0 (r_flips r)) code
  | None => false end.
Fixpoint upto (n : nat) : list N := match n with O => [] | S m => upto m ++ [N.of_nat n] end.
Definition sortedN (l : list N) : list N :=
  fold_right (fun x acc => (fix ins (a : N) (l : list N) := match l with [] => [a] | y :: r => if N.leb a y then a :: l else y :: ins a r end) x acc) [] l.
Definition list_eqb (a b : list N) : bool := (Nat.eqb (List.length a) (List.length b)) && forallb (fun '(x, y) => N.eqb x y) (combine a b).
Definition dep1_ok (tbl : list row) : bool :=
  match row_in tbl "DEPOLARIZE1" with
  | Some r => negb (r_pairs r) && N.eqb (r_K r) 3 && roles_ok r &&
              list_eqb (sortedN (map (fun p => pauli_code 1 p (r_flips r)) (upto 3))) (upto 3)
  | None => false end.
Definition dep2_ok (tbl : list row) : bool :=
  match row_in tbl "DEPOLARIZE2" with
  | Some r => r_pairs r && N.eqb (r_K r) 15 && roles_ok r &&
              list_eqb (sortedN (map (fun p => (pauli_code 1 p (r_flips r) + 4 * pauli_code 2 p (r_flips r))%N) (upto 15))) (upto 15)
  | None => false end.
Definition is_nil {A} (l : list A) : bool := match l with [] => true | _ => false end.
Definition table_ok (tbl : list row) : bool :=
  fixed_ok tbl "X_ERROR" 1 && fixed_ok tbl "Y_ERROR" 3 && fixed_ok tbl "Z_ERROR" 2 && dep1_ok tbl && dep2_ok tbl.
(* both the bulk sampler and the single-shot simulator *)
Definition frame_noise_all_ok : bool := is_nil frame_noise_refused && table_ok frame_noise && table_ok tableau_noise.
Theorem frame_noise_routines_are_documented_mixtures : frame_noise_all_ok = true.
Proof. vm_compute. reflexivity. Qed.
