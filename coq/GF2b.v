From Coq Require Import List Bool Arith Lia.
Import ListNotations.
Require Import GF2.

(* ---------- echelon invariant ---------- *)
Definition lead_ok (p : pivot) : Prop :=
  let '(i, pv, _) := p in nth i pv false = true /\ forall j, j < i -> nth j pv false = false.
Fixpoint sorted (piv : list pivot) : Prop :=
  match piv with [] => True | p :: rest => (forall q, In q rest -> fst (fst p) < fst (fst q)) /\ sorted rest end.
Definition echelon (piv : list pivot) : Prop := Forall lead_ok piv /\ sorted piv.

(* ---------- back substitution ---------- *)
Fixpoint setv (i : nat) (b : bool) (k : vec) : vec :=
  match k, i with [], _ => [] | _ :: r, 0 => b :: r | x :: r, S j => x :: setv j b r end.
Lemma setv_length i b k : length (setv i b k) = length k.
Proof. revert i; induction k as [|x k IH]; intros [|i]; cbn; auto. Qed.
Lemma dot_setv v : forall i b k, length v = length k -> i < length k ->
  dot v (setv i b k) = xorb (dot v (setv i false k)) (andb (nth i v false) b).
Proof.
  induction v as [|x v IH]; intros i b [|y k] Hl Hi; cbn in *; try lia.
  destruct i as [|i]; cbn.
  - destruct x, b, (dot v k); reflexivity.
  - rewrite (IH i b k) by lia. destruct x, y, (dot v (setv i false k)), (nth i v false), b; reflexivity.
Qed.
Lemma dot_setv_irrelevant v i b k : length v = length k -> nth i v false = false -> dot v (setv i b k) = dot v k.
Proof.
  revert i k; induction v as [|x v IH]; intros i [|y k] Hl Hn; cbn [length] in *; try lia.
  - destruct i; reflexivity.
  - destruct i as [|i]; cbn [setv dot nth] in *.
    + subst x. reflexivity.
    + rewrite IH by (try lia; exact Hn). reflexivity.
Qed.
Fixpoint backsub (piv : list pivot) (k0 : vec) : vec :=
  match piv with [] => k0
  | (i, pv, pr) :: rest => let k := backsub rest k0 in setv i (xorb pr (dot pv (setv i false k))) k end.
Lemma backsub_length piv k0 : length (backsub piv k0) = length k0.
Proof. induction piv as [|[[i pv] pr] piv IH]; cbn; [reflexivity|]. now rewrite setv_length. Qed.

Theorem backsub_sat m piv : Forall (wfp m) piv -> echelon piv -> Forall (fun p => fst (fst p) < m) piv ->
  Forall (psat (backsub piv (repeat false m))) piv.
Proof.
  induction piv as [|[[i pv] pr] piv IH]; intros Hw [Hl Hs] Hlt; [constructor|].
  apply Forall_cons_iff in Hw; destruct Hw as [Hw1 Hw2]. apply Forall_cons_iff in Hl; destruct Hl as [Hl1 Hl2].
  apply Forall_cons_iff in Hlt; destruct Hlt as [Hi Hlt2]. destruct Hs as [Hs1 Hs2]. cbn [fst] in Hi.
  unfold wfp in Hw1; cbn in Hw1. destruct Hl1 as [Hone Hzero].
  specialize (IH Hw2 (conj Hl2 Hs2) Hlt2).
  set (k := backsub piv (repeat false m)) in *.
  assert (Hk : length k = m) by (unfold k; rewrite backsub_length, repeat_length; reflexivity).
  cbn [backsub]. fold k. constructor.
  - unfold psat; cbn [fst snd]. rewrite dot_setv by lia. rewrite Hone.
    destruct pr, (dot pv (setv i false k)); reflexivity.
  - (* later pivots have larger leading index, hence a zero at position i *)
    rewrite Forall_forall in IH |- *. intros [[j qv] qr] Hin. specialize (IH _ Hin). unfold psat in *; cbn [fst snd] in *.
    rewrite dot_setv_irrelevant; [exact IH| |].
    + rewrite Forall_forall in Hw2. specialize (Hw2 _ Hin). unfold wfp in Hw2; cbn in Hw2. lia.
    + rewrite Forall_forall in Hl2. specialize (Hl2 _ Hin). destruct Hl2 as [_ Hz]. apply Hz. apply (Hs1 _ Hin).
Qed.

(* ---------- solve preserves the echelon invariant ---------- *)
Definition cleared (piv : list pivot) (v : vec) : Prop := forall p, In p piv -> nth (fst (fst p)) v false = false.

Lemma reduce_clears m : forall piv v r, Forall (wfp m) piv -> echelon piv -> length v = m ->
  forall done, (forall p, In p done -> nth (fst (fst p)) v false = false) ->
               (forall p q, In p done -> In q piv -> fst (fst p) < fst (fst q)) ->
  forall p, In p (done ++ piv) -> nth (fst (fst p)) (fst (reduce piv v r)) false = false.
Proof.
  induction piv as [|[[i pv] pr] piv IH]; intros v r Hw [Hl Hs] Hv done Hd Hord p Hin; cbn [reduce].
  - rewrite app_nil_r in Hin. cbn. exact (Hd _ Hin).
  - apply Forall_cons_iff in Hw; destruct Hw as [Hw1 Hw2]. apply Forall_cons_iff in Hl; destruct Hl as [[Hone Hzero] Hl2].
    destruct Hs as [Hs1 Hs2]. unfold wfp in Hw1; cbn in Hw1.
    assert (Hin' : In p ((done ++ [(i, pv, pr)]) ++ piv)) by (rewrite <- app_assoc; exact Hin).
    destruct (nth i v false) eqn:Ni.
    + apply (IH (vxor v pv) (xorb r pr) Hw2 (conj Hl2 Hs2) ltac:(rewrite vxor_length; lia) (done ++ [(i, pv, pr)])); auto.
      * intros q Hq. apply in_app_or in Hq. destruct Hq as [Hq|[<-|[]]]; cbn [fst].
        -- rewrite nth_vxor by lia. rewrite (Hd _ Hq). rewrite Hzero; [reflexivity|]. apply (Hord q (i, pv, pr) Hq). left; reflexivity.
        -- rewrite nth_vxor by lia. rewrite Ni, Hone. reflexivity.
      * intros a b Ha Hb. apply in_app_or in Ha. destruct Ha as [Ha|[<-|[]]]; [apply Hord; [exact Ha| right; exact Hb]| apply Hs1; exact Hb].
    + apply (IH v r Hw2 (conj Hl2 Hs2) Hv (done ++ [(i, pv, pr)])); auto.
      * intros q Hq. apply in_app_or in Hq. destruct Hq as [Hq|[<-|[]]]; [exact (Hd _ Hq)| exact Ni].
      * intros a b Ha Hb. apply in_app_or in Ha. destruct Ha as [Ha|[<-|[]]]; [apply Hord; [exact Ha| right; exact Hb]| apply Hs1; exact Hb].
Qed.

Lemma insert_In p q piv : In q (insert p piv) <-> q = p \/ In q piv.
Proof. induction piv as [|x piv IH]; cbn [insert]; [cbn; intuition|].
  destruct (fst (fst p) <? fst (fst x)); cbn [In]; [intuition| rewrite IH; intuition]. Qed.
Lemma insert_sorted p piv : sorted piv -> (forall q, In q piv -> fst (fst q) <> fst (fst p)) -> sorted (insert p piv).
Proof.
  induction piv as [|x piv IH]; intros Hs Hne; cbn [insert]; [cbn; intuition|].
  destruct Hs as [Hs1 Hs2]. destruct (Nat.ltb_spec (fst (fst p)) (fst (fst x))) as [Hlt|Hge].
  - cbn [sorted]. split; [| split; auto]. intros q [<-|Hq]; [exact Hlt| specialize (Hs1 _ Hq); lia].
  - cbn [sorted]. split.
    + intros q Hq. apply insert_In in Hq. destruct Hq as [->|Hq]; [| apply Hs1; exact Hq].
      specialize (Hne x (or_introl eq_refl)). lia.
    + apply IH; [exact Hs2|]. intros q Hq. apply Hne. right; exact Hq.
Qed.

Theorem solve_echelon m : forall eqs piv piv', Forall (fun e => length (fst e) = m) eqs -> Forall (wfp m) piv -> echelon piv ->
  Forall (fun p => fst (fst p) < m) piv -> solve eqs piv = Some piv' ->
  echelon piv' /\ Forall (fun p => fst (fst p) < m) piv'.
Proof.
  induction eqs as [|[v r] eqs IH]; intros piv piv' Hl Hw He Hlt H; cbn [solve] in H.
  - injection H as <-. auto.
  - apply Forall_cons_iff in Hl; destruct Hl as [Hl1 Hl2]. cbn [fst] in Hl1.
    pose proof (reduce_length m piv Hw v r Hl1) as Lr.
    pose proof (reduce_clears m piv v r Hw He Hl1 [] (fun p (F : In p []) => match F with end) (fun p q (F : In p []) _ => match F with end)) as Cl.
    cbn [app] in Cl. destruct (reduce piv v r) as [v' r'] eqn:R. cbn [fst] in *.
    destruct (first_true v') as [i|] eqn:F.
    + destruct (first_true_spec v' i F) as [Hone Hzero].
      apply (IH (insert (i, v', r') piv) piv' Hl2); auto.
      * apply insert_Forall; [exact Lr| exact Hw].
      * destruct He as [Hlead Hsort]. split.
        -- apply insert_Forall; [split; assumption| exact Hlead].
        -- apply insert_sorted; [exact Hsort|]. intros q Hq E. cbn [fst] in E. specialize (Cl q Hq). rewrite E in Cl. congruence.
      * apply insert_Forall; [| exact Hlt]. cbn [fst].
        destruct (Nat.lt_ge_cases i m) as [|Hge]; [assumption|]. rewrite nth_overflow in Hone by lia. discriminate.
    + destruct r'; [discriminate|]. apply (IH piv piv' Hl2); auto.
Qed.

(* ---------- SOUNDNESS ---------- *)
Theorem solvable_sound m eqs : Forall (fun e => length (fst e) = m) eqs -> solvable eqs = true ->
  exists k, length k = m /\ Forall (sat k) eqs.
Proof.
  intros Hl Hs. unfold solvable in Hs. destruct (solve eqs []) as [piv'|] eqn:E; [|discriminate].
  destruct (solve_pivots_imply m eqs [] piv' Hl (Forall_nil _) E) as [W K].
  destruct (solve_echelon m eqs [] piv' Hl (Forall_nil _) (conj (Forall_nil _) I) (Forall_nil _) E) as [Ech Lt].
  exists (backsub piv' (repeat false m)). split; [rewrite backsub_length, repeat_length; reflexivity|].
  apply K. apply backsub_sat; assumption.
Qed.
Print Assumptions solvable_sound.
