(* Obligation over the GENERATED facts about inverse_assuming_lower_triangular: it is the loop modelled in TriInv.v (result starts
   as the identity; for every target row, copy the row, walk the pivots below the target, and where the copy has a bit XOR the
   pivot's row into the copy and the pivot's result row into the target's), so TriInv.lower_triangular_inverse applies. *)
From Coq Require Import List Bool String.
Import ListNotations.
Require Import Gen_TriInv.
Definition triinv_ok : bool :=
  match triinv_refused with [] => true | _ => false end && forallb (fun x => snd x) triinv_facts && Nat.eqb (List.length triinv_facts) 6.
Theorem triangular_inverse_loop_is_the_model : triinv_ok = true.
Proof. vm_compute. reflexivity. Qed.
