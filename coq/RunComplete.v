(* Converse of Run.run_refines: the inverse-tableau simulator can produce EVERY run the predicate semantics allows (with the
   measurement results of the semantic run as its coins), for any sequence of Clifford steps and Hermitian measurements.  With
   run_refines: the set of records the simulator can report from a tracked state = the set of legal records (C01: "every record is
   an outcome the circuit can produce" and "free measurements take both values"). *)
From Coq Require Import List Bool Arith Lia.
Import ListNotations.
Require Import Pauli Collapse Sem Refine ApProps Run FrameRun FrameComplete.

Section RunComplete.
  Variable n : nat.
  Notation wf := (Refine.wf n).
  Notation good := (Run.good n).
  Notation Inv := (Run.Inv n).
  Notation herm := (Run.herm n).
  Notation ok := (fun x : op * option bool => ok_op n (fst x)).

  Lemma split_first_x : forall l : bits, xfreeb l = false -> exists pre zm0 mt, xfreeb pre = true /\ l = pre ++ (true, zm0) :: mt.
  Proof.
    induction l as [|[x z] l IHl]; cbn; intros Hl; [discriminate|]. destruct x; cbn in Hl.
    - exists [], z, l. split; reflexivity.
    - destruct (IHl Hl) as (pre & zm0 & mt & Hp & E). exists ((false, z) :: pre), zm0, mt. split; [cbn; exact Hp| now rewrite E].
  Qed.

  Theorem step_complete T Ti Sg o r Sg1 : ok_op n o -> good T Ti -> Inv T Sg -> sem_step Sg o r Sg1 ->
    exists s1, sim_step n (T, Ti) o r s1 /\ good (fst s1) (snd s1) /\ Inv (fst s1) Sg1.
  Proof.
    intros Ho G I Hs. destruct Hs as [Sg C Ci | Sg M o Hd | Sg M c Hr]; cbn [ok_op] in Ho.
    - eexists. split; [exact (SU n T Ti C Ci (proj2 Ho))|]. cbn [fst snd]. split; [exact (good_compose n T Ti C Ci G (proj2 Ho))| exact (inv_compose n T Sg C Ci (proj2 Ho) I)].
    - destruct (xfreeb (snd (T M))) eqn:Hx.
      + pose proof (measure_fixed n T Ti Sg M G I Ho Hx) as Hd'.
        pose proof (st_one_sign n T Ti Sg G I M _ _ (proj1 Ho) Hd' Hd) as E. rewrite <- E.
        eexists. split; [apply SFixed; assumption|]. split; assumption.
      + exfalso. destruct (split_first_x _ Hx) as (pre & zm0 & mt & Hp & E).
        assert (HT : T M = (fst (T M), pre ++ (true, zm0) :: mt)) by (rewrite <- E; apply surjective_pairing).
        exact (free_not_in_group n T Ti Sg M pre (fst (T M)) zm0 mt G I Ho HT o Hd).
    - destruct (xfreeb (snd (T M))) eqn:Hx.
      + exfalso. pose proof (measure_fixed n T Ti Sg M G I Ho Hx) as Hd'. unfold meas_det in Hd'. destruct Hr as [H0 H1].
        destruct (snd (fst (T M))); [exact (H1 Hd')| rewrite neg_false in Hd'; exact (H0 Hd')].
      + destruct (split_first_x _ Hx) as (pre & zm0 & mt & Hp & E).
        assert (HT : T M = (fst (T M), pre ++ (true, zm0) :: mt)) by (rewrite <- E; apply surjective_pairing).
        assert (Hn : n = length pre + (1 + length mt)).
        { pose proof (g_len _ _ _ G M (proj1 Ho)) as L. unfold Refine.wf in L. rewrite E, app_length in L. cbn [length] in L. lia. }
        destruct (sign_fix_exists n T Ti M pre (fst (T M)) zm0 mt c G Ho Hp HT) as [e He].
        eexists. split; [exact (SFree n T Ti M pre (fst (T M)) zm0 mt c e Ho Hp Hn HT He)|]. cbn [fst snd]. split.
        * exact (good_after n T Ti pre zm0 mt G Hn e).
        * exact (inv_after n T Ti Sg M pre (fst (T M)) zm0 mt c G I Ho Hp Hn HT e He).
  Qed.

  Theorem run_complete l : forall s Sg Sg', Forall ok l -> good (fst s) (snd s) -> Inv (fst s) Sg -> sem_run Sg l Sg' ->
    exists s', sim_run n s l s' /\ good (fst s') (snd s') /\ Inv (fst s') Sg'.
  Proof.
    induction l as [|[o r] l IH]; intros s Sg Sg' Hok G I H; inversion H; subst.
    - exists s. split; [constructor|]. split; assumption.
    - inversion Hok as [|? ? Ho Hok']; subst. cbn [fst] in Ho. destruct s as [T Ti]. cbn [fst snd] in *.
      match goal with Hs : sem_step Sg o r ?Sg1, Hr : sem_run ?Sg1 l Sg' |- _ =>
        destruct (step_complete T Ti Sg o r Sg1 Ho G I Hs) as (s1 & Hsim & G1 & I1);
        destruct (IH s1 Sg1 Sg' Hok' G1 I1 Hr) as (s' & Hsim' & G' & I') end.
      exists s'. split; [econstructor; eassumption|]. split; assumption.
  Qed.

  (* the records the simulator can report are exactly the legal ones *)
  Corollary sim_exact l s Sg : Forall ok l -> good (fst s) (snd s) -> Inv (fst s) Sg ->
    ((exists s', sim_run n s l s') <-> (exists Sg', sem_run Sg l Sg')).
  Proof.
    intros Hok G I. split.
    - intros [s' H]. destruct (run_refines n l s s' Sg G I H) as (Sg' & Hs & _). exists Sg'. exact Hs.
    - intros [Sg' H]. destruct (run_complete l s Sg Sg' Hok G I H) as (s' & Hs & _). exists s'. exact Hs.
  Qed.

  (* hence the frame sampler and the tableau simulator report the same set of records *)
  Corollary frame_sampler_equals_simulator l la s s' Sg : Forall ok l -> good (fst s) (snd s) -> Inv (fst s) Sg -> sim_run n s l s' ->
    ((exists g zs, wf g /\ Sg g /\ snd (frunz g zs l) = la) <-> (map fst la = map fst l /\ exists s'', sim_run n s la s'')).
  Proof.
    intros Hok G I Hrun. rewrite (frame_exact n l la s s' Sg Hok G I Hrun). split; intros [Hops H]; (split; [exact Hops|]).
    - apply (sim_exact la s Sg); [|exact G|exact I|exact H].
      clear - Hok Hops. revert l Hok Hops. induction la as [|[o r] la IH]; intros [|[o' r'] l] Hok Hops; try discriminate; constructor.
      + cbn in Hops. injection Hops as E _. inversion Hok; subst. cbn [fst] in *. assumption.
      + cbn in Hops. injection Hops as _ E. inversion Hok; subst. eapply IH; eassumption.
    - apply (sim_exact la s Sg); [|exact G|exact I|exact H].
      clear - Hok Hops. revert l Hok Hops. induction la as [|[o r] la IH]; intros [|[o' r'] l] Hok Hops; try discriminate; constructor.
      + cbn in Hops. injection Hops as E _. inversion Hok; subst. cbn [fst] in *. assumption.
      + cbn in Hops. injection Hops as _ E. inversion Hok; subst. eapply IH; eassumption.
  Qed.
End RunComplete.
Print Assumptions run_complete. Print Assumptions frame_sampler_equals_simulator.
