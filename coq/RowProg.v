(* Row programs: the operations Tableau<W>::prepend_* perform on the rows xs[q1], zs[q1], xs[q2], zs[q2] of a tableau
   (row product with the sign taken from bit 1 of the power of i — which for anticommuting rows is what
   IgnoreAntiCommute computes —, row swap, sign flip), interpreted on the 2-qubit identity tableau. *)
From Coq Require Import List Bool Arith String.
Import ListNotations.
Require Import Stab Act.

Inductive row := RX1 | RZ1 | RX2 | RZ2.
Inductive rop := OMul (a b : row) (ignore_anticommute : bool) | OSwap (a b : row) | OFlip (a : row).
Record ltab := { x1 : limg; z1 : limg; x2 : limg; z2 : limg; ok : bool }.

Definition getr (t : ltab) (r : row) : limg := match r with RX1 => x1 t | RZ1 => z1 t | RX2 => x2 t | RZ2 => z2 t end.
Definition setr (t : ltab) (r : row) (v : limg) : ltab :=
  match r with
  | RX1 => {| x1 := v; z1 := z1 t; x2 := x2 t; z2 := z2 t; ok := ok t |}
  | RZ1 => {| x1 := x1 t; z1 := v; x2 := x2 t; z2 := z2 t; ok := ok t |}
  | RX2 => {| x1 := x1 t; z1 := z1 t; x2 := v; z2 := z2 t; ok := ok t |}
  | RZ2 => {| x1 := x1 t; z1 := z1 t; x2 := x2 t; z2 := v; ok := ok t |}
  end.
(* a.b as the implementation computes it: sign ^= bit 1 of log_i *)
Definition rmul (a b : limg) : limg :=
  let k := (ph (snd a) (snd b) + (if xorb (fst a) (fst b) then 2 else 0)) mod 4 in
  (Nat.leb 2 k, bxor (snd a) (snd b)).
Definition rstep (t : ltab) (o : rop) : ltab :=
  match o with
  | OMul a b ign =>
      let t' := setr t a (rmul (getr t a) (getr t b)) in
      (* a plain `*=` asserts that the rows commute *)
      if ign then t' else {| x1 := x1 t'; z1 := z1 t'; x2 := x2 t'; z2 := z2 t';
                            ok := ok t && negb (anti (snd (getr t a)) (snd (getr t b))) |}
  | OSwap a b => let va := getr t a in let vb := getr t b in setr (setr t a vb) b va
  | OFlip a => let v := getr t a in setr t a (negb (fst v), snd v)
  end.
Definition I2 : pz := (false, false).
Definition id_tab : ltab :=
  {| x1 := (false, [(true,false); I2]); z1 := (false, [(false,true); I2]);
     x2 := (false, [I2; (true,false)]); z2 := (false, [I2; (false,true)]); ok := true |}.
Definition run_prog (p : list rop) : ltab := fold_left rstep p id_tab.

Definition limg_eqb (a b : limg) : bool :=
  Bool.eqb (fst a) (fst b) &&
  forallb (fun pq => Bool.eqb (fst (fst pq)) (fst (snd pq)) && Bool.eqb (snd (fst pq)) (snd (snd pq))) (combine (snd a) (snd b)) &&
  Nat.eqb (List.length (snd a)) (List.length (snd b)).
(* expected rows for a gate: its flows, one-qubit flows padded with identity on the second qubit *)
Definition pad1 (f : limg) : limg := (fst f, snd f ++ [I2]).
Definition expected_rows (e : entry) : option (limg * limg * limg * limg) :=
  match flows_of e with
  | [fx; fz] => if unitary1 e then Some (pad1 fx, pad1 fz, x2 id_tab, z2 id_tab) else None
  | [fx1; fz1; fx2; fz2] => if unitary2 e then Some (fx1, fz1, fx2, fz2) else None
  | _ => None
  end.
Definition prog_matches (e : entry) (p : list rop) : bool :=
  let t := run_prog p in
  match expected_rows e with
  | Some (a, b, c, d) => ok t && limg_eqb (x1 t) a && limg_eqb (z1 t) b && limg_eqb (x2 t) c && limg_eqb (z2 t) d
  | None => false
  end.
