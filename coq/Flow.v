(* Stabilizer flows of a Clifford map given as a tableau (Tab.eval): P -> Q is a flow iff eval P = Q.
   Flows are closed under products (signs and phases included), every input has exactly one output, and the 2n flows
   X_q -> T(X_q), Z_q -> T(Z_q) generate all of them: the flow of any P is the product of the generator flows selected by P's bits. *)
From Coq Require Import List Bool Arith Lia.
Import ListNotations.
Require Import Pauli Collapse Sem Span Tab.

Section Flow.
  Variable n : nat.
  Variables xs zs : list pauli.
  Hypothesis xs_len : length xs = n.
  Hypothesis zs_len : length zs = n.
  Hypothesis xs_herm : herm n xs.
  Hypothesis zs_herm : herm n zs.
  Hypothesis xs_comm : pairwise_comm xs.
  Hypothesis zs_comm : pairwise_comm zs.
  Hypothesis zx_dual : dual zs xs.

  Definition flow (P Q : pauli) : Prop := eval n xs zs P = Q.

  Theorem flow_functional P Q Q' : flow P Q -> flow P Q' -> Q = Q'.
  Proof. unfold flow; congruence. Qed.

  Theorem flow_mul P1 Q1 P2 Q2 : wfn n P1 -> wfn n P2 -> flow P1 Q1 -> flow P2 Q2 -> flow (pmul P1 P2) (pmul Q1 Q2).
  Proof. unfold flow; intros H1 H2 E1 E2. rewrite (eval_hom n xs zs) by assumption. congruence. Qed.

  Theorem flow_phase k P Q : flow P Q -> flow (ph k P) (ph k Q).
  Proof. unfold flow; intros E. rewrite eval_phase. congruence. Qed.

  (* generation: the output of P is i^k times the product of the selected row images *)
  Theorem flow_generated P :
    flow P (ph (fst P) (pmul (prod n (map fst (snd P)) xs) (prod n (map snd (snd P)) zs))).
  Proof. reflexivity. Qed.
End Flow.
