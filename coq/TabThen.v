(* Tableau composition and inverse as maps on Paulis: the tableau whose rows are B applied to A's rows (Tableau::then) acts as
   "A, then B"; consequently a tableau whose rows are mapped back to the generators by B is inverted by B. Exact phases, any n. *)
From Coq Require Import List Bool Arith Lia.
Import ListNotations.
Require Import Pauli Collapse Sem Span Tab.

Section Then.
  Variable n : nat.
  Variables xsB zsB : list pauli.
  Hypothesis xs_len : length xsB = n.
  Hypothesis zs_len : length zsB = n.
  Hypothesis xs_herm : herm n xsB.
  Hypothesis zs_herm : herm n zsB.
  Hypothesis xs_comm : pairwise_comm xsB.
  Hypothesis zs_comm : pairwise_comm zsB.
  Hypothesis zx_dual : dual zsB xsB.
  Notation evalB := (eval n xsB zsB).
  Notation wf := (wfn n).

  Lemma prod_nil_sel gs : prod n [] gs = Id n. Proof. destruct gs; reflexivity. Qed.
  Lemma map_fst_zeros_false m : map fst (zeros m) = repeat false m.
  Proof. unfold zeros. induction m as [|m IH]; cbn [repeat map fst]; [reflexivity|]. rewrite IH. reflexivity. Qed.
  Lemma map_snd_zeros_false m : map snd (zeros m) = repeat false m.
  Proof. unfold zeros. induction m as [|m IH]; cbn [repeat map snd]; [reflexivity|]. rewrite IH. reflexivity. Qed.
  Lemma prod_all_false gs : Forall wf gs -> forall m, prod n (repeat false m) gs = Id n.
  Proof.
    induction 1 as [|g gs Hg _ IH]; intros m; destruct m as [|m]; cbn [repeat prod]; try reflexivity.
    rewrite IH. cbn [pw]. apply (pmul_Id_l n), wfn_Id.
  Qed.
  Lemma evalB_Id : evalB (Id n) = Id n.
  Proof.
    unfold eval, Id. cbn [fst snd]. rewrite map_fst_zeros_false, map_snd_zeros_false.
    rewrite !prod_all_false by (apply herm_wf; assumption).
    rewrite (pmul_Id_l n) by apply wfn_Id. unfold ph, Span.Id. cbn. reflexivity.
  Qed.
  Lemma evalB_pw g b : evalB (pw n g b) = pw n (evalB g) b.
  Proof. destruct b; cbn [pw]; [reflexivity| apply evalB_Id]. Qed.
  Lemma evalB_prod gs : Forall wf gs -> forall sel, evalB (prod n sel gs) = prod n sel (map evalB gs).
  Proof.
    induction 1 as [|g gs Hg Hgs IH]; intros sel; destruct sel as [|b sel]; cbn [prod map]; try apply evalB_Id.
    rewrite (eval_hom n xsB zsB) by (try assumption; try (apply wfn_pw; assumption); try (apply wfn_prod; assumption)).
    rewrite evalB_pw, IH. reflexivity.
  Qed.

  (* Tableau::then : rows of the composite are B applied to A's rows; it acts as A followed by B *)
  Theorem then_is_composition (xsA zsA : list pauli) P : Forall wf xsA -> Forall wf zsA ->
    eval n (map evalB xsA) (map evalB zsA) P = evalB (eval n xsA zsA P).
  Proof.
    intros Hx Hz.
    change (eval n xsA zsA P) with (ph (fst P) (pmul (prod n (map fst (snd P)) xsA) (prod n (map snd (snd P)) zsA))).
    change (eval n (map evalB xsA) (map evalB zsA) P)
      with (ph (fst P) (pmul (prod n (map fst (snd P)) (map evalB xsA)) (prod n (map snd (snd P)) (map evalB zsA)))).
    rewrite (eval_phase n xsB zsB).
    rewrite (eval_hom n xsB zsB) by (try assumption; try (apply wfn_prod; assumption)).
    rewrite !evalB_prod by assumption. reflexivity.
  Qed.
End Then.
