From Coq Require Import List NArith QArith Lia Setoid.
Import ListNotations.
Local Open Scope Q_scope.

(* symptom sets as bit masks; a distribution over symptoms as a function to Q; equality is pointwise Qeq *)
Definition dist := N -> Q.
Definition deq (d e : dist) : Prop := forall t, d t == e t.
Definition delta0 : dist := fun t => if N.eqb t 0 then 1 else 0.
(* one independent mechanism (p, s): with probability p the symptoms s are XORed in *)
Definition conv (m : Q * N) (d : dist) : dist := fun t => (1 - fst m) * d t + fst m * d (N.lxor t (snd m)).
Definition dem_dist (ms : list (Q * N)) : dist := fold_right conv delta0 ms.

Lemma conv_proper m d e : deq d e -> deq (conv m d) (conv m e).
Proof. intros H t. unfold conv. now rewrite (H t), (H (N.lxor t (snd m))). Qed.
Lemma lxor_cancel t s : N.lxor (N.lxor t s) s = t.
Proof. now rewrite N.lxor_assoc, N.lxor_nilpotent, N.lxor_0_r. Qed.

(* ErrorAnalyzer::add_error's rule p <- p(1-q) + q(1-p) is exactly merging two mechanisms with equal symptoms *)
Theorem xor_convolution_merge p q s d :
  deq (conv (p, s) (conv (q, s) d)) (conv (p * (1 - q) + q * (1 - p), s) d).
Proof. intros t. unfold conv; cbn [fst snd]. rewrite lxor_cancel. ring. Qed.
(* mechanisms commute, so the merge applies to non-adjacent ones too *)
Theorem conv_comm a b d : deq (conv a (conv b d)) (conv b (conv a d)).
Proof. intros t. unfold conv. destruct a as [p s], b as [q u]; cbn [fst snd].
  replace (N.lxor (N.lxor t u) s) with (N.lxor (N.lxor t s) u) by (rewrite !N.lxor_assoc; f_equal; apply N.lxor_comm). ring. Qed.
(* a zero-probability mechanism, or one with empty symptoms, changes nothing *)
Lemma conv_zero s d : deq (conv (0, s) d) d. Proof. intros t. unfold conv; cbn. ring. Qed.
Lemma conv_empty p d : deq (conv (p, 0%N) d) d. Proof. intros t. unfold conv; cbn. rewrite N.lxor_0_r. ring. Qed.

(* DEPOLARIZE1(p) as three independent mechanisms X, Z, Y=X^Z of probability q with q(1-q) = p/3:
   each single Pauli outcome gets p/3 and the identity 1-p.  sx, sz are the symptom masks of X and Z. *)
Theorem depolarize1_independent (p q : Q) (sx sz : N) d t : q * (1 - q) == p / 3 ->
  conv (q, sx) (conv (q, sz) (conv (q, N.lxor sx sz) d)) t ==
  (1 - p) * d t + (p / 3) * d (N.lxor t sx) + (p / 3) * d (N.lxor t sz) + (p / 3) * d (N.lxor t (N.lxor sx sz)).
Proof.
  intros Hq. unfold conv; cbn [fst snd].
  replace (N.lxor (N.lxor t sx) sz) with (N.lxor t (N.lxor sx sz)) by (now rewrite N.lxor_assoc).
  replace (N.lxor (N.lxor t sz) (N.lxor sx sz)) with (N.lxor t sx)
    by (rewrite (N.lxor_comm sx sz), <- N.lxor_assoc, (N.lxor_assoc t sz sz), N.lxor_nilpotent, N.lxor_0_r; reflexivity).
  replace (N.lxor (N.lxor t sx) (N.lxor sx sz)) with (N.lxor t sz)
    by (rewrite <- N.lxor_assoc, (N.lxor_assoc t sx sx), N.lxor_nilpotent, N.lxor_0_r; reflexivity).
  replace (N.lxor (N.lxor t (N.lxor sx sz)) (N.lxor sx sz)) with t by (now rewrite lxor_cancel).
  (* polynomial identity in q given q(1-q) = p/3:  coefficients: id: (1-q)^3+q^3 = 1-3q(1-q); each Pauli: q(1-q)^2+q^2(1-q) = q(1-q) *)
  set (A := d t). set (B := d (N.lxor t sx)). set (C := d (N.lxor t sz)). set (E := d (N.lxor t (N.lxor sx sz))).
  assert (H1 : (1 - q) * (1 - q) * (1 - q) + q * q * q == 1 - 3 * (q * (1 - q))) by ring.
  assert (H2 : q * (1 - q) * (1 - q) + q * q * (1 - q) == q * (1 - q)) by ring.
  transitivity (((1 - q) * (1 - q) * (1 - q) + q * q * q) * A + (q * (1 - q) * (1 - q) + q * q * (1 - q)) * (B + C + E)); [ring|].
  rewrite H1, H2, Hq. field.
Qed.
Print Assumptions xor_convolution_merge. Print Assumptions depolarize1_independent.
