From Coq Require Import List Bool Arith Lia NArith ZArith.
Ltac Zify.zify_post_hook ::= Z.to_euclidean_division_equations.
Import ListNotations.

(* C09: the b8 record format.  Writer = MeasureRecordWriterFormatB8 (bits accumulate LSB-first into a byte that
   is emitted when full, and once more at write_end if partly filled); reader = ceil(n/8) bytes, bit k of the
   record is bit k mod 8 of byte k / 8.  Round trip for every record and any trailing data. *)
Definition byte_of (acc : list bool) : N := fold_right (fun (b : bool) a => ((if b then 1 else 0) + 2 * a)%N) 0%N acc.
Definition byte_bits (y : N) : list bool := map (fun i => N.testbit y (N.of_nat i)) (seq 0 8).

Fixpoint b8_write (l acc : list bool) : list N :=
  match l with
  | [] => match acc with [] => [] | _ => [byte_of acc] end
  | b :: l' => let acc' := acc ++ [b] in
               if Nat.eqb (length acc') 8 then byte_of acc' :: b8_write l' [] else b8_write l' acc'
  end.

Definition b8_read (n : nat) (bytes : list N) : list bool * list N :=
  let k := (n + 7) / 8 in (firstn n (flat_map byte_bits (firstn k bytes)), skipn k bytes).

(* finite fact: decoding an encoded partial byte gives the bits back, padded with zeros *)
Lemma byte_bits_of acc : length acc <= 8 -> byte_bits (byte_of acc) = acc ++ repeat false (8 - length acc).
Proof.
  intros H.
  destruct acc as [|b0 [|b1 [|b2 [|b3 [|b4 [|b5 [|b6 [|b7 [|b8 acc]]]]]]]]]; cbn [length] in H; try lia;
    repeat match goal with b : bool |- _ => destruct b end; reflexivity.
Qed.

Lemma b8_write_spec : forall l acc, length acc < 8 ->
  exists pad, flat_map byte_bits (b8_write l acc) = acc ++ l ++ repeat false pad /\
              8 * length (b8_write l acc) = length acc + length l + pad /\ pad < 8.
Proof.
  induction l as [|b l IH]; intros acc Hacc; cbn [b8_write].
  - destruct acc as [|a acc'] eqn:E.
    + exists 0. cbn. split; [reflexivity|]. split; lia.
    + rewrite <- E in *. exists (8 - length acc). cbn [flat_map]. rewrite app_nil_r, byte_bits_of by lia. cbn [app length]. split; [reflexivity|]. split; [lia|]. subst acc; cbn [length]; lia.
  - assert (Hl : length (acc ++ [b]) = S (length acc)) by (rewrite app_length; cbn; lia).
    destruct (Nat.eqb_spec (length (acc ++ [b])) 8) as [E8|E8].
    + destruct (IH [] ltac:(cbn; lia)) as (pad & Hf & Hlen & Hpad). exists pad. cbn [flat_map length]. rewrite Hf, byte_bits_of by lia.
      rewrite E8. cbn [repeat Nat.sub]. rewrite app_nil_r, <- !app_assoc. cbn [app length] in *. split; [reflexivity|]. split; lia.
    + destruct (IH (acc ++ [b]) ltac:(lia)) as (pad & Hf & Hlen & Hpad). exists pad. rewrite Hf, <- !app_assoc. cbn [app length]. split; [reflexivity|]. split; lia.
Qed.

Theorem b8_roundtrip l rest : b8_read (length l) (b8_write l [] ++ rest) = (l, rest).
Proof.
  destruct (b8_write_spec l [] ltac:(cbn; lia)) as (pad & Hf & Hlen & Hpad). cbn [length app] in Hf, Hlen.
  set (out := b8_write l []) in *.
  assert (Hk : (length l + 7) / 8 = length out) by (symmetry; apply (Nat.div_unique _ 8 _ (7 - pad)); lia).
  unfold b8_read. rewrite Hk.
  rewrite firstn_app, Nat.sub_diag, firstn_all. cbn [firstn]. rewrite app_nil_r.
  rewrite skipn_app, Nat.sub_diag, skipn_all. cbn [skipn app].
  rewrite Hf. rewrite firstn_app, Nat.sub_diag, firstn_all. cbn [firstn]. rewrite app_nil_r. reflexivity.
Qed.
Print Assumptions b8_roundtrip.
