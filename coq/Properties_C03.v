(* C03 — The detector error model is exactly the circuit's noise pushed onto detectors. *)
From Coq Require Import List Bool String ZArith NArith QArith.
Import ListNotations.
Require Adj XorConv AdjGen TableAdj GenProofs_RevMeas GenProofs_EaNoise.
Require Import Stab Act Spec SpecProofs Gen_GateTable Gen_RevTrack GenProofs_RevTrack.
Require GenProofs_TabMeas.
Require Gen_AddError GenProofs_AddError.
Require Mpp MppRev.
Require Pauli Sem Refine Run FrameRun RevTrack FrameProg RevProg DemSample DemBridge DemFlat RevExample.

(* (1) Tie G: every unitary undo_* routine of the reverse tracker (translated from sparse_rev_frame_tracker.cc), applied per
       detector to (d in xs[q], d in zs[q]), is the unsigned action of the table's INVERSE gate; nothing refused, nothing
       undispatched. *)
Theorem C03_revtrack_routines_match_inverse_table : rev_all_ok = true.
Proof. exact revtrack_generated_routines_match_inverse_table. Qed.
Theorem C03_revtrack_routines_correct_1q :
  forall g f, In (g, f) rev_do1 -> forall ts P, run1 f ts P = run1 (GenProofs_RevTrack.ftab1 g) ts P.
Proof. exact rev_do1_correct. Qed.
Theorem C03_revtrack_routines_correct_2q :
  forall g f, In (g, f) rev_do2 -> forall ts P, run2 f ts P = run2 (GenProofs_RevTrack.ftab2 g) ts P.
Proof. exact rev_do2_correct. Qed.
(* ... and for the WHOLE gate set: every unitary of the generated gate table (backward action = table action of the inverse gate,
   which is what the translated undo routines are proved to be), single-qubit Pauli measurements and resets, any circuit, any n *)
Theorem C03_adjoint_all_gates :
  forall n (c : list TableAdj.tgop), Forall (TableAdj.tok n) c -> forall (D : AdjGen.det) (F : AdjGen.st),
  AdjGen.parity_at D 0 (AdjGen.frun (map TableAdj.compile c) F) = AdjGen.pair_upto n (AdjGen.back (map TableAdj.compile c) D) F.
Proof. exact TableAdj.adjoint_table_circuits. Qed.
(* the reverse tracker's measurement / reset undo routines (undo_MX .. undo_MRZ, undo_RX .. undo_RZ, regenerated from source) are
   the backward steps of that theorem for the gate's documented basis, and test the anticommuting component for gauges *)
Theorem C03_revtrack_measure_reset_routines_match : GenProofs_RevMeas.revmeas_all_ok = true.
Proof. exact GenProofs_RevMeas.revmeas_routines_match_adjgen. Qed.
Theorem C03_analyzer_measure_reset_routines_match : GenProofs_RevMeas.ea_revmeas_all_ok = true.
Proof. exact GenProofs_RevMeas.analyzer_measure_reset_routines_match_adjgen. Qed.
(* the analyzer's noise routines (undo_X/Y/Z_ERROR, E products, DEPOLARIZE1/2, PAULI_CHANNEL_1/2 with its index arithmetic), regenerated
   from source: every term flips exactly the detectors whose observable anticommutes with the documented Pauli of its argument *)
Theorem C03_analyzer_noise_routines_match : GenProofs_EaNoise.ea_noise_all_ok = true.
Proof. exact GenProofs_EaNoise.analyzer_noise_routines_match_adjgen. Qed.
Print Assumptions C03_adjoint_all_gates. Print Assumptions C03_revtrack_routines_match_inverse_table.
Print Assumptions C03_revtrack_routines_correct_2q.

(* (2) Adjointness of backward sensitivity tracking and forward fault propagation (mini language H, CX, M, R; any number of
       qubits, any circuit, any detector, any injected frame): the parity a detector sees of the record flips caused by a frame
       F equals the symplectic pairing of F with the back-propagated sensitivity. The per-gate step for the full gate set is (1). *)
Theorem C03_adjoint_partial :
  forall n (c : list Adj.op), Forall (Adj.in_range n) c -> forall (D : Adj.det) (F : Adj.frame),
  Adj.parity_at D 0 (Adj.frun c F) = Adj.pair_upto n (Adj.back c D) F.
Proof. exact Adj.adjoint. Qed.
Print Assumptions C03_adjoint_partial.

(* (3) Probability algebra of independent mechanisms over Q: folding equal-symptom mechanisms by p(1-q)+q(1-p) preserves the
       symptom distribution; mechanisms commute; DEPOLARIZE1(p) equals three independent mechanisms with q(1-q) = p/3. *)
Theorem C03_xor_convolution_merge :
  forall p q s d, XorConv.deq (XorConv.conv (p, s) (XorConv.conv (q, s) d))
                              (XorConv.conv ((p * (1 - q) + q * (1 - p))%Q, s) d).
Proof. exact XorConv.xor_convolution_merge. Qed.
Theorem C03_mechanisms_commute :
  forall a b d, XorConv.deq (XorConv.conv a (XorConv.conv b d)) (XorConv.conv b (XorConv.conv a d)).
Proof. exact XorConv.conv_comm. Qed.
Theorem C03_depolarize1_independent :
  forall (p q : Q) (sx sz : N) d t, (q * (1 - q) == p / 3)%Q ->
  (XorConv.conv (q, sx) (XorConv.conv (q, sz) (XorConv.conv (q, N.lxor sx sz) d)) t ==
   (1 - p) * d t + (p / 3) * d (N.lxor t sx) + (p / 3) * d (N.lxor t sz) + (p / 3) * d (N.lxor t (N.lxor sx sz)))%Q.
Proof. exact XorConv.depolarize1_independent. Qed.
Print Assumptions C03_xor_convolution_merge. Print Assumptions C03_depolarize1_independent.

(* (4) the specification side: a fault variable's effect on a detector is linear (parity lemma shared with C04) *)
Theorem C03_detector_form_is_xor_of_values :
  forall m k rs ks,
  eval_form m k (parity_form rs ks) = fold_left (fun acc j => xorb acc (eval_form m k (rec_at rs j))) ks false.
Proof. exact parity_form_is_xor_of_values. Qed.

Example C03_nonvacuous : (exists g f, In (g, f) rev_do1) /\ (exists g f, In (g, f) rev_do2).
Proof. split; [ destruct rev_do1 as [|[g f] l] eqn:E | destruct rev_do2 as [|[g f] l] eqn:E ];
  try (vm_compute in E; discriminate); repeat eexists; left; reflexivity. Qed.

(* ErrorAnalyzer's MXX / MYY / MZZ segments, regenerated from source: its own single-qubit undo routine for basis B on every
   first target, conjugated by the tracker's routine for a self-inverse table gate taking B (x) B to B (x) I. *)
Theorem C03_pair_measurement_segments_measure_the_product : GenProofs_TabMeas.seg_class_ok "analyzer" = true.
Proof. exact GenProofs_TabMeas.analyzer_pair_segments_ok. Qed.
Print Assumptions C03_pair_measurement_segments_measure_the_product.

(* MPP / SPP entry points of the four simulators, regenerated from source: forward classes execute the decomposition's gates in
   order through their own dispatch; backward classes decompose the reversed target list, undo each emitted gate and reverse the
   targets of each emitted M. *)
Theorem C03_product_entry_points_use_the_decomposition : GenProofs_TabMeas.product_entries_ok = true.
Proof. exact GenProofs_TabMeas.product_entry_points_ok. Qed.
Print Assumptions C03_product_entry_points_use_the_decomposition.

(* The probability folding of ErrorAnalyzer::add_error and add_error_in_sorted_jagged_tail, regenerated from source as functions
   over Q, is p(1-q) + q(1-p) for all p, q (by ring), i.e. the merge of two independent equal-symptom mechanisms. *)
Theorem C03_add_error_rule_is_merge : forall p q : Q, (Gen_AddError.rule_add_error p q == p * (1 - q) + q * (1 - p))%Q.
Proof. exact GenProofs_AddError.add_error_rule_is_merge. Qed.
Theorem C03_add_error_tail_rule_is_merge : forall p q : Q, (Gen_AddError.rule_add_error_in_sorted_jagged_tail p q == p * (1 - q) + q * (1 - p))%Q.
Proof. exact GenProofs_AddError.add_error_tail_rule_is_merge. Qed.
Theorem C03_folded_mechanisms_keep_the_distribution :
  forall p q s d, XorConv.deq (XorConv.conv (p, s) (XorConv.conv (q, s) d)) (XorConv.conv (Gen_AddError.rule_add_error q p, s) d).
Proof. exact GenProofs_AddError.folded_mechanisms_keep_the_distribution. Qed.
Print Assumptions C03_add_error_rule_is_merge. Print Assumptions C03_add_error_tail_rule_is_merge.
Print Assumptions C03_folded_mechanisms_keep_the_distribution.

(* The backward classes decompose MPP / SPP with the target list reversed: the reversed list is the same products in reverse order
   with their terms reversed (render_rev), the decomposer's product splitter takes exactly the first written product (split_inter),
   and a product with reversed terms has the same Pauli content; with C01's decomposition theorems (any target list) this gives
   the backward treatment of Pauli-product measurements, last product first. *)
Theorem C03_reversed_targets_are_reversed_products :
  forall gs, rev (MppRev.render gs) = MppRev.render (rev (map (@rev Mpp.mtgt) gs)).
Proof. exact MppRev.render_rev. Qed.
Theorem C03_splitter_takes_the_first_written_product :
  forall g rest, MppRev.good_group g -> (match rest with Mpp.MComb :: _ => False | _ => True end) ->
  Mpp.split_group (MppRev.inter g ++ rest) = (g, rest).
Proof. exact MppRev.split_inter. Qed.
Theorem C03_reversed_product_same_content :
  forall g a bits ar bitsr, Mpp.accumulate g Mpp.acc0 [] false = Some (a, bits) ->
  Mpp.accumulate (rev g) Mpp.acc0 [] false = Some (ar, bitsr) -> forall q, Mpp.ax ar q = Mpp.ax a q /\ Mpp.az ar q = Mpp.az a q.
Proof. exact MppRev.reversed_product_same_content. Qed.
Print Assumptions C03_reversed_targets_are_reversed_products. Print Assumptions C03_splitter_takes_the_first_written_product.
Print Assumptions C03_reversed_product_same_content.

(* Whole circuits: the reverse tracker's sensitivity decides which errors flip a detector.  For any run of Clifford steps and
   Hermitian measurements, a detector given by flags d, its sensitivity revtrack l d (flagged measured operators multiplied in,
   pulled back through every Clifford) and the tracker's anticommutation check gauge_ok: the flip parity of the detector in the
   frame sampler started with the Pauli E - for every choice of the randomisation bits - is [E, revtrack l d]. *)
Theorem C03_error_flips_detector_iff_it_anticommutes_with_the_sensitivity :
  forall (n : nat) (l : list (Run.op * option bool)) (E : Pauli.pauli) (zs d : list bool),
  Forall (fun x => FrameRun.ok_op n (fst x)) l -> Refine.wf n E -> RevTrack.gauge_ok n l d ->
  RevTrack.fparz E zs l d = Sem.acom E (RevTrack.revtrack n l d).
Proof. exact RevTrack.error_flips_iff_anticommutes. Qed.
(* ... and a detector that passes the check and whose sensitivity at the start commutes with the initial group takes the same
   value in every run the semantics allows (soundness of the "non-deterministic detector" test). *)
Theorem C03_checked_detectors_are_deterministic :
  forall (n : nat) (l la : list (Run.op * option bool)) (s s' : (Pauli.pauli -> Pauli.pauli) * (Pauli.pauli -> Pauli.pauli))
         (Sg S' : Sem.state) (d : list bool),
  Forall (fun x => FrameRun.ok_op n (fst x)) l -> Run.good n (fst s) (snd s) -> Run.Inv n (fst s) Sg ->
  Run.sim_run n s l s' -> Run.sem_run Sg la S' -> map fst la = map fst l ->
  RevTrack.gauge_ok n l d -> (forall g, Refine.wf n g -> Sg g -> Sem.acom g (RevTrack.revtrack n l d) = false) ->
  RevTrack.par_rec la d = RevTrack.par_rec l d.
Proof. exact RevTrack.detector_deterministic. Qed.
Print Assumptions C03_error_flips_detector_iff_it_anticommutes_with_the_sensitivity.
Print Assumptions C03_checked_detectors_are_deterministic.

(* Adaptive programs (feedback, resets, sweep bits, Pauli noise as externally controlled Paulis): in EVERY run the semantics allows
   under the shot's external bits exta, a checked detector whose sensitivity at the start commutes with the initial group takes
   the reference run's value xor the parity of the externally controlled Paulis whose bit differs from the reference and whose
   Pauli anticommutes with the detector's back-propagated sensitivity at their position (bt: multiplied by M at flagged
   measurements, flags toggled by later feedback that anticommutes, pulled back through Cliffords).  A fault flips exactly the
   detectors it anticommutes with, and faults combine by XOR - the content of a detector error model, to all orders. *)
Theorem C03_detector_value_in_every_shot :
  forall (n : nat) (extr exta : nat -> bool) (prog : list FrameProg.pop) (l la : list (Run.op * option bool))
         (s s' : (Pauli.pauli -> Pauli.pauli) * (Pauli.pauli -> Pauli.pauli)) (Sg S' : Sem.state) (d : list bool),
  Forall (FrameProg.okp n) prog -> Run.good n (fst s) (snd s) -> Run.Inv n (fst s) Sg ->
  FrameProg.realize extr [] prog l -> Run.sim_run n s l s' -> FrameProg.realize exta [] prog la -> Run.sem_run Sg la S' ->
  RevProg.gauge_okp n prog d -> (forall g, Refine.wf n g -> Sg g -> Sem.acom g (fst (RevProg.bt n prog d)) = false) ->
  RevTrack.par_rec la d = xorb (RevTrack.par_rec l d) (RevProg.ext_par n extr exta prog d).
Proof. exact RevProg.detector_in_every_shot. Qed.
(* the flip parity in the frame sampler, in closed form, for every frame, earlier flips and randomisation *)
Theorem C03_flip_parity_closed_form :
  forall (n : nat) (extr exta : nat -> bool) (prog : list FrameProg.pop) (F : Pauli.pauli) (fl zs d : list bool),
  Forall (FrameProg.okp n) prog -> Refine.wf n F -> RevProg.gauge_okp n prog d ->
  RevProg.fparp extr exta F fl zs prog d =
  xorb (xorb (Sem.acom F (fst (RevProg.bt n prog d))) (RevProg.dotp (snd (RevProg.bt n prog d)) fl)) (RevProg.ext_par n extr exta prog d).
Proof. exact RevProg.fparp_closed_form. Qed.
Print Assumptions C03_detector_value_in_every_shot. Print Assumptions C03_flip_parity_closed_form.

(* The detector error model of a program: error j has as symptoms the detectors whose back-propagated sensitivity anticommutes
   with the Pauli of fault j.  For every run the semantics allows under fault bits exta, detection event i (shot value xor
   reference value) is DemSample.shot_of that model with `fired j = bit j differs from the reference`: sampling the model and
   sampling the circuit agree shot by shot (C03 meets C16). *)
Theorem C03_circuit_shots_are_the_shots_of_its_error_model :
  forall (n : nat) (extr exta : nat -> bool) (prog : list FrameProg.pop) (ds : list (list bool)) (js : list nat)
         (l la : list (Run.op * option bool)) (s s' : (Pauli.pauli -> Pauli.pauli) * (Pauli.pauli -> Pauli.pauli)) (Sg S' : Sem.state) (i : nat),
  Forall (FrameProg.okp n) prog -> Run.good n (fst s) (snd s) -> Run.Inv n (fst s) Sg ->
  FrameProg.realize extr [] prog l -> Run.sim_run n s l s' -> FrameProg.realize exta [] prog la -> Run.sem_run Sg la S' ->
  NoDup js -> DemBridge.faults_in prog js -> (i < List.length ds)%nat ->
  RevProg.gauge_okp n prog (nth i ds []) ->
  (forall g, Refine.wf n g -> Sg g -> Sem.acom g (fst (RevProg.bt n prog (nth i ds []))) = false) ->
  xorb (RevTrack.par_rec la (nth i ds [])) (RevTrack.par_rec l (nth i ds [])) =
  DemSample.shot_of (DemBridge.dem_of n extr exta prog ds js) (DemBridge.tgt i).
Proof. exact DemBridge.circuit_shot_is_dem_shot. Qed.
Print Assumptions C03_circuit_shots_are_the_shots_of_its_error_model.

(* non-vacuity of the program-level theorems on a concrete round: ZZ measured twice, a detector comparing the two results, an X
   fault (external bit 0) and a Z fault (external bit 1) on qubit 1 in between.  The checks pass, the sensitivity at the start is the
   identity, fault 0 is a symptom of the detector and fault 1 is not, and the model's shot with fault 0 fired is exactly {D0}. *)
Example C03_nonvacuous_repetition_round :
  Forall (FrameProg.okp 2) RevExample.rep_round /\ RevProg.gauge_okp 2 RevExample.rep_round RevExample.det /\
  fst (RevProg.bt 2 RevExample.rep_round RevExample.det) = (Pauli.z4_0, [(false, false); (false, false)]) /\
  DemBridge.symptom 2 RevExample.rep_round RevExample.det 0 = true /\ DemBridge.symptom 2 RevExample.rep_round RevExample.det 1 = false /\
  (forall x, DemSample.shot_of (DemBridge.dem_of 2 (fun _ => false) (fun j => Nat.eqb j 0) RevExample.rep_round [RevExample.det] [0%nat; 1%nat]) x =
             (match x with DemFlat.TD 0%N => true | _ => false end)).
Proof. exact RevExample.rep_round_example. Qed.
