(* Word-level model of the coin stage of biased_randomize_bits (probability_util.cc), executable on the generator's raw 64-bit
   words, and the lemma that every bit lane of it is Coin.coin_stage: so Coin.coin_stage_prob (exactly p_top_bits of the 256
   coin strings give 1) is a statement about each of the 64 output bits of the model that the correspondence check runs. *)
From Coq Require Import List Bool Arith NArith Lia.
Import ListNotations.
Require Import Coin.
Local Open Scope N_scope.

Fixpoint wrounds (p : nat) (k : nat) (shoots : list N) (alive result : N) : N :=
  match k, shoots with
  | S k', sh :: r => wrounds p k' r (N.ldiff alive sh) (N.lxor result (if bit p k' then N.land sh alive else 0))
  | _, _ => result
  end.
(* ws = [alive; shoot_6; ...; shoot_0] in the order the generator produced them *)
Definition coin_word (p : nat) (ws : list N) : N :=
  match ws with alive :: r => wrounds p 7 r alive 0 | [] => 0 end.

Lemma wrounds_lane p i : forall k shoots alive result,
  N.testbit (wrounds p k shoots alive result) i =
  rounds p k (map (fun w => N.testbit w i) shoots) (N.testbit alive i) (N.testbit result i).
Proof.
  induction k as [|k IH]; intros shoots alive result; [destruct shoots; reflexivity|].
  destruct shoots as [|sh r]; [reflexivity|]. cbn [wrounds map rounds]. rewrite IH.
  rewrite N.ldiff_spec, N.lxor_spec. f_equal. f_equal.
  destruct (bit p k); [rewrite N.land_spec; rewrite andb_true_r; reflexivity|].
  rewrite N.bits_0, andb_false_r. reflexivity.
Qed.

Theorem coin_word_lane p ws i : N.testbit (coin_word p ws) i = coin_stage p (map (fun w => N.testbit w i) ws).
Proof.
  destruct ws as [|alive r]; [apply N.bits_0|]. cbn [coin_word coin_stage map]. rewrite wrounds_lane. rewrite N.bits_0. reflexivity.
Qed.

(* consuming the raw stream: each output word takes 8 generator words *)
Fixpoint take8 (ws : list N) : option (list N * list N) :=
  match ws with a :: b :: c :: d :: e :: f :: g :: h :: r => Some ([a; b; c; d; e; f; g; h], r) | _ => None end.
Fixpoint coin_words (p : nat) (n : nat) (ws : list N) : list N :=
  match n with
  | O => []
  | S n' => match take8 ws with Some (w8, r) => coin_word p w8 :: coin_words p n' r | None => [] end
  end.
Definition mask64 : N := 18446744073709551615.
(* biased_randomize_bits for probabilities top/256 with 6 <= top <= 128 and their complements: no truncation leftover *)
Definition brb_exact (top : nat) (inverted : bool) (n : nat) (ws : list N) : list N :=
  let base := if Nat.eqb top 128 then firstn n ws else coin_words top n ws in
  if inverted then map (fun w => N.lxor w mask64) base else base.
