(* Obligation over the GENERATED facts about Graph::add_edges_from_targets_with_no_separators: they are the collection rule of
   GraphEdges.v (cancel by overwrite-with-last + pop, append otherwise, capacity 2 tested only after every target has been read),
   so GraphEdges.collect_is_symptom applies: the held detectors are the component's symptom however it is written. *)
From Coq Require Import List Bool String Arith.
Import ListNotations.
Require Import GraphEdges Gen_GraphEdges.

Definition graph_collect_ok : bool :=
  match graph_collect_refused with [] => true | _ => false end &&
  let '(cancel, append, cap_after, cap, obs_xor, e1, e2) := graph_collect in
  cancel && append && cap_after && Nat.eqb cap 2 && obs_xor && e1 && e2.
Theorem graphlike_collection_is_the_model : graph_collect_ok = true.
Proof. vm_compute. reflexivity. Qed.
