(* Frame sampling of ADAPTIVE circuits: Clifford steps, Hermitian measurements, and Pauli operations controlled by a bit that is
   either an earlier measurement result (feedback; resets = measurement + controlled Pauli; MR) or an external bit that differs
   between the reference run and the shot (sweep bits, and Pauli noise once the fault bits are fixed).

   A program is a list of such steps; a run of the program under external bits `ext` is a list of Run.op steps in which every
   controlled Pauli has been resolved with the record so far (realize).  The reference is a run of the inverse-tableau simulator
   under `extr`; the frame sampler walks the program and that reference run, keeping a Pauli frame, the reference record and its
   own record: a measurement reports r xor [F, M] (and multiplies F by M under a randomisation bit), a controlled Pauli P
   multiplies F by P when its control bit differs between the two records / external bit vectors.

     fp_sound    : for every initial frame in the group of the initial state and every randomisation, the sampler's output is a
                   run of the SAME program under `exta` that the semantics allows;
     fp_complete : every run of the program under `exta` that the semantics allows is the sampler's output for some initial
                   group element and some randomisation.
   Any number of qubits, any program length. *)
From Coq Require Import List Bool Arith Lia Ring.
Import ListNotations.
Require Import Pauli Collapse Sem Refine ApProps Run FrameRun FrameComplete.

Section FrameProg.
  Variable n : nat.
  Notation wf := (Refine.wf n).
  Notation good := (Run.good n).
  Notation Inv := (Run.Inv n).
  Notation herm := (Run.herm n).
  Notation eqs := (FrameRun.eqs n).
  Notation Idn := (Run.Idn n).

  (* ---------- one step backwards: from a group element for the next state to one for the current state ---------- *)
  Lemma step_back s o r s1 Sg S F r' S1 : ok_op n o -> good (fst s) (snd s) -> Inv (fst s) Sg -> wf F -> eqs S (shift F Sg) ->
    sim_step n s o r s1 -> sem_step S o r' S1 ->
    exists Sg1 F1, good (fst s1) (snd s1) /\ Inv (fst s1) Sg1 /\ wf F1 /\ eqs S1 (shift F1 Sg1) /\
      forall g', wf g' -> Sg1 g' -> exists g z, wf g /\ Sg g /\
        snd (fstepz (pmul F g) z o r) = r' /\ snd (fst (fstepz (pmul F g) z o r)) = snd (pmul F1 g').
  Proof.
    intros Ho G I HF Heq Hstep Hastep.
    destruct Hstep as [T Ti C Ci HC | T Ti M HM Hx | T Ti M pre km zm0 mt c1 e HM Hp Hn HT He]; cbn [fst snd] in *.
    - (* Clifford *)
      inversion Hastep; subst.
      destruct (frame_step n F (OpU C Ci) None Sg (fun P => Sg (Ci P)) S Ho HF Heq (MU Sg C Ci)) as (S1' & Hs1 & Heq1 & HF1).
      inversion Hs1; subst. cbn [fstep fst snd] in *.
      exists (fun P => Sg (Ci P)), (C F). split; [exact (good_compose n T Ti C Ci G HC)|]. split; [exact (inv_compose n T Sg C Ci HC I)|].
      split; [exact HF1|]. split; [exact Heq1|]. intros g' Wg Sg'.
      exists (Ci g'), false. assert (Wc : wf (Ci g')) by (apply (g_len _ _ _ HC), Wg).
      split; [exact Wc|]. split; [exact Sg'|]. cbn [fstepz fst snd]. split; [reflexivity|].
      rewrite (g_mul _ _ _ (proj1 Ho)) by assumption. rewrite (g_FG _ _ _ (proj1 Ho)) by exact Wg. reflexivity.
    - (* fixed *)
      pose proof (measure_fixed n T Ti Sg M G I HM Hx) as Hdet. unfold meas_det in Hdet. set (o1 := snd (fst (T M))) in *.
      inversion Hastep as [| ? ? o2 Hd2 | ? ? c2 Hr2]; subst.
      + unfold meas_det in Hd2. apply (Heq (neg o2 M) (proj1 HM)) in Hd2. unfold shift in Hd2. rewrite acom_neg_r, neg_neg in Hd2.
        pose proof (st_one_sign n T Ti Sg G I M _ _ (proj1 HM) Hdet Hd2) as Eo.
        exists Sg, F. split; [exact G|]. split; [exact I|]. split; [exact HF|]. split; [exact Heq|]. intros g Wg Sg_g.
        exists g, false. split; [exact Wg|]. split; [exact Sg_g|]. cbn [fstepz fst snd option_map]. split; [|reflexivity].
        rewrite (acom_pmul_l n F g M HF Wg (proj1 HM)).
        pose proof (st_abelian n T Ti Sg G I g (neg o1 M) Wg (proj1 HM) Sg_g Hdet) as Ea. rewrite acom_neg_r in Ea. rewrite Ea, xorb_false_r.
        f_equal. rewrite Eo. destruct (acom F M), o2; reflexivity.
      + exfalso. pose proof (frame_meas_det F Sg M o1 Hdet) as Hd. unfold meas_det in Hd.
        apply (Heq (neg (xorb o1 (acom F M)) M) (proj1 HM)) in Hd.
        destruct Hr2 as [H0 H1]. destruct (xorb o1 (acom F M)); [exact (H1 Hd)| rewrite neg_false in Hd; exact (H0 Hd)].
    - (* free *)
      revert Hn. inversion Hastep as [| ? ? o2 Hd2 | ? ? c2 Hr2]; subst; intros Hn.
      + exfalso. unfold meas_det in Hd2. apply (Heq (neg o2 M) (proj1 HM)) in Hd2. unfold shift in Hd2. rewrite acom_neg_r, neg_neg in Hd2.
        exact (free_not_in_group n T Ti Sg M pre km zm0 mt G I HM HT _ Hd2).
      + set (d := xorb (xorb c1 c2) (acom F M)).
        assert (Hg0 : exists g0, wf g0 /\ Sg g0 /\ acom g0 M = d).
        { destruct d.
          - exact (st_witness n T Ti Sg G I M pre km zm0 mt (proj1 HM) Hn HT).
          - exists Idn. split; [apply wf_Idn|]. split; [exact (st_id n T Ti Sg G I)| apply acom_Idn]. }
        destruct Hg0 as (g0 & W0 & S0 & A0').
        set (F1 := pmul F g0). assert (WF1 : wf F1) by (apply wf_pmul; assumption).
        assert (Heq' : eqs S (shift F1 Sg)).
        { intros P HP. rewrite (Heq P HP). symmetry. apply (shift_mul_pm n T Ti Sg F g0 false G I HF W0); [now rewrite neg_false| exact HP]. }
        assert (EA : xorb c1 (acom F1 M) = c2).
        { unfold F1. rewrite (acom_pmul_l n F g0 M HF W0 (proj1 HM)), A0'. unfold d. destruct c1, c2, (acom F M); reflexivity. }
        assert (Heq1 : eqs (post_rnd S M c2) (shift F1 (post_rnd Sg M c1))).
        { intros P HP. rewrite (frame_post_rnd F1 Sg M c1 P) by (pose proof (proj1 HM) as WM; unfold Refine.wf, pauli, bits in *; lia).
          rewrite EA. apply (post_rnd_ext_wf n S (shift F1 Sg) M c2 P (proj1 HM) Heq'). }
        exists (post_rnd Sg M c1), F1. split; [exact (good_after n T Ti pre zm0 mt G Hn e)|].
        split; [exact (inv_after n T Ti Sg M pre km zm0 mt c1 G I HM Hp Hn HT e He)|]. split; [exact WF1|]. split; [exact Heq1|].
        intros g' Wg' Sg'. destruct Sg' as (eps & h & Sh & Ch & Lh & Eg').
        assert (Wh : wf h) by (unfold Refine.wf; rewrite Lh; apply HM).
        assert (Wgh : wf (pmul g0 h)) by now apply wf_pmul.
        exists (pmul g0 h), eps. split; [exact Wgh|]. split; [exact (st_mul n T Ti Sg G I g0 h W0 Wh S0 Sh)|].
        cbn [fstepz fst snd option_map].
        rewrite (acom_pmul_l n F (pmul g0 h) M HF Wgh (proj1 HM)), (acom_pmul_l n g0 h M W0 Wh (proj1 HM)), A0', Ch, xorb_false_r.
        split; [f_equal; unfold d; destruct c1, c2, (acom F M); reflexivity|].
        rewrite Eg'. unfold F1. destruct HM as [WM _]. unfold Refine.wf in *. destruct eps; unfold Mpow, pmul; cbn [fst snd neg].
        * apply (bxor_shuffle n); assumption.
        * rewrite (bxor_comm (zeros _) (snd h)). rewrite <- Lh. rewrite bxor_zeros_r. apply bxor_assoc; congruence.
  Qed.

  (* ---------- conjugation by a Pauli is a Clifford step ---------- *)
  Definition cp (P Q : pauli) : pauli := neg (acom P Q) Q.
  Definition cpw (P : pauli) (b : bool) (Q : pauli) : pauli := if b then cp P Q else Q.
  Lemma cp_good P : wf P -> good (cp P) (cp P).
  Proof.
    intros HP. constructor; unfold cp.
    - intros Q HQ. exact HQ.
    - intros Q HQ. exact HQ.
    - intros A B HA HB. rewrite acom_pmul_r by (unfold Refine.wf, pauli, bits in *; lia).
      rewrite pmul_neg_l, pmul_neg_r, neg_neg. reflexivity.
    - intros k Q HQ. unfold acom, neg; cbn [fst snd]. f_equal. ring.
    - unfold Run.Idn. rewrite acom_zeros_r. apply neg_false.
    - intros Q HQ. rewrite acom_neg_r, neg_neg, xorb_nilpotent. apply neg_false.
    - intros Q HQ. rewrite acom_neg_r, neg_neg, xorb_nilpotent. apply neg_false.
  Qed.
  Lemma cpw_good P b : wf P -> good (cpw P b) (cpw P b).
  Proof. intros HP. destruct b; [exact (cp_good P HP)| exact (init_good n)]. Qed.
  Lemma cpw_wf P b Q : wf Q -> wf (cpw P b Q).
  Proof. destruct b; intros H; exact H. Qed.

  Lemma pf_shift (S Sg : state) F P b b' : wf F -> wf P -> eqs S (shift F Sg) ->
    eqs (fun Q => S (cpw P b' Q)) (shift (if xorb b b' then pmul F P else F) (fun Q => Sg (cpw P b Q))).
  Proof.
    intros HF HP Heq Q HQ. rewrite (Heq (cpw P b' Q) (cpw_wf P b' Q HQ)). unfold shift.
    match goal with |- Sg ?a <-> Sg ?b => replace b with a; [reflexivity|] end.
    destruct b, b'; cbn [xorb cpw]; unfold cp; rewrite ?acom_neg_r, ?neg_neg, ?(acom_pmul_l n F P Q HF HP HQ);
      destruct (acom F Q), (acom P Q); reflexivity.
  Qed.

  (* ---------- programs ---------- *)
  Inductive ctl := CRec (k : nat) | CExt (k : nat).      (* k-th most recent result | k-th external bit *)
  Definition cval (ext : nat -> bool) (rec : list bool) (c : ctl) : bool :=
    match c with CRec k => nth k rec false | CExt k => ext k end.
  Inductive pop :=
  | PU (C Ci : pauli -> pauli)
  | PM (M : pauli)
  | PF (P : pauli) (c : ctl).                            (* apply the Pauli P iff the control bit is 1 *)
  Definition okp (p : pop) : Prop :=
    match p with PU C Ci => good C Ci /\ good Ci C | PM M => herm M | PF P _ => wf P end.

  (* the runs of a program under external bits ext, the record so far (most recent first) being rec *)
  Inductive realize (ext : nat -> bool) : list bool -> list pop -> list (op * option bool) -> Prop :=
  | RZ rec : realize ext rec [] []
  | RU rec C Ci p l : realize ext rec p l -> realize ext rec (PU C Ci :: p) ((OpU C Ci, None) :: l)
  | RM rec M b p l : realize ext (b :: rec) p l -> realize ext rec (PM M :: p) ((OpM M, Some b) :: l)
  | RF rec P c p l : realize ext rec p l ->
      realize ext rec (PF P c :: p) ((OpU (cpw P (cval ext rec c)) (cpw P (cval ext rec c)), None) :: l).

  Variables extr exta : nat -> bool.                      (* external bits of the reference run and of the shot *)

  Fixpoint fprun (F : pauli) (rr ra : list bool) (zs : list bool) (prog : list pop) (l : list (op * option bool)) {struct prog}
    : list (op * option bool) :=
    match prog, l with
    | PU C Ci :: p, _ :: l' => (OpU C Ci, None) :: fprun (C F) rr ra (tl zs) p l'
    | PM M :: p, (_, Some b) :: l' =>
        let b' := xorb b (acom F M) in
        (OpM M, Some b') :: fprun (if hd false zs then pmul F M else F) (b :: rr) (b' :: ra) (tl zs) p l'
    | PF P c :: p, _ :: l' =>
        let ba := cval exta ra c in
        (OpU (cpw P ba) (cpw P ba), None) :: fprun (if xorb (cval extr rr c) ba then pmul F P else F) rr ra (tl zs) p l'
    | _, _ => []
    end.

  (* ---------- soundness ---------- *)
  Theorem fp_sound_gen prog : forall l s s' Sg S F rr ra zs, Forall okp prog -> good (fst s) (snd s) -> Inv (fst s) Sg -> wf F ->
    eqs S (shift F Sg) -> realize extr rr prog l -> sim_run n s l s' ->
    exists S', sem_run S (fprun F rr ra zs prog l) S' /\ realize exta ra prog (fprun F rr ra zs prog l).
  Proof.
    induction prog as [|p prog IH]; intros l s s' Sg S F rr ra zs Hok G I HF Heq Hre Hrun.
    - inversion Hre; subst. exists S. split; constructor.
    - inversion Hok as [|? ? Ho Hok']; subst.
      inversion Hre as [| ? C Ci ? l' Hre' | ? M b ? l' Hre' | ? P c ? l' Hre']; subst;
        inversion Hrun as [|? ? ? s1 ? ? Hstep Hrest]; subst; cbn [okp] in Ho; cbn [fprun].
      + destruct (frame_step_z n s (OpU C Ci) None s1 Sg F false S Ho G I HF Heq Hstep) as (Sg1 & S1 & _ & G1 & I1 & Hs1 & Heq1 & HF1).
        cbn [fstepz fst snd] in *.
        destruct (IH l' s1 s' Sg1 S1 (C F) rr ra (tl zs) Hok' G1 I1 HF1 Heq1 Hre' Hrest) as (S' & Hsem & Hre2).
        exists S'. split; [econstructor; eassumption| constructor; exact Hre2].
      + destruct (frame_step_z n s (OpM M) (Some b) s1 Sg F (hd false zs) S Ho G I HF Heq Hstep) as (Sg1 & S1 & _ & G1 & I1 & Hs1 & Heq1 & HF1).
        cbn [fstepz fst snd option_map] in *.
        destruct (IH l' s1 s' Sg1 S1 _ (b :: rr) (xorb b (acom F M) :: ra) (tl zs) Hok' G1 I1 HF1 Heq1 Hre' Hrest) as (S' & Hsem & Hre2).
        exists S'. split; [econstructor; eassumption| constructor; exact Hre2].
      + set (br := cval extr rr c) in *. set (ba := cval exta ra c).
        destruct (step_refines n s _ None s1 Sg G I Hstep) as (Sg1 & Hsem1 & G1 & I1).
        inversion Hsem1; subst.
        assert (HF1 : wf (if xorb br ba then pmul F P else F)) by (destruct (xorb br ba); [apply wf_pmul; assumption| exact HF]).
        destruct (IH l' s1 s' _ _ _ rr ra (tl zs) Hok' G1 I1 HF1 (pf_shift S Sg F P br ba HF Ho Heq) Hre' Hrest) as (S' & Hsem & Hre2).
        exists S'. split; [econstructor; [apply MU| exact Hsem]| constructor; exact Hre2].
  Qed.

  (* ---------- the output depends on the frame only through its bits ---------- *)
  Lemma good_bits C Ci F F' : good C Ci -> wf F -> snd F' = snd F -> snd (C F') = snd (C F).
  Proof.
    intros GC HF E. replace F' with (z4_add (z4_sub (fst F') (fst F)) (fst F), snd F).
    - rewrite (g_phase _ _ _ GC) by exact HF. reflexivity.
    - destruct F as [k b], F' as [k' b']. cbn [fst snd] in *. subst b'. f_equal. unfold z4_sub. ring.
  Qed.
  Lemma wf_bits F F' : wf F -> snd F' = snd F -> wf F'.
  Proof. unfold Refine.wf. intros H E. now rewrite E. Qed.
  Lemma fprun_bits prog : forall l F F' rr ra zs, Forall okp prog -> wf F -> snd F' = snd F ->
    fprun F' rr ra zs prog l = fprun F rr ra zs prog l.
  Proof.
    induction prog as [|p prog IH]; intros l F F' rr ra zs Hok HF E; [reflexivity|].
    inversion Hok as [|? ? Ho Hok']; subst.
    destruct p as [C Ci|M|P c]; destruct l as [|[o r] l']; cbn [fprun okp] in *; try reflexivity.
    - f_equal. apply IH; [exact Hok'| apply (g_len _ _ _ (proj1 Ho)), HF| exact (good_bits C Ci F F' (proj1 Ho) HF E)].
    - destruct r as [b|]; [|reflexivity].
      assert (Ea : acom F' M = acom F M) by (unfold acom; now rewrite E). rewrite Ea. f_equal.
      apply IH; [exact Hok'| |].
      + destruct (hd false zs); [apply wf_pmul; [exact HF| apply Ho]| exact HF].
      + destruct (hd false zs); [unfold pmul; cbn [snd]; now rewrite E| exact E].
    - f_equal. apply IH; [exact Hok'| |].
      + destruct (xorb _ _); [apply wf_pmul; assumption| exact HF].
      + destruct (xorb _ _); [unfold pmul; cbn [snd]; now rewrite E| exact E].
  Qed.

  Lemma bxor_swap (a b c : bits) : length a = n -> length b = n -> length c = n -> bxor (bxor a b) c = bxor (bxor a c) b.
  Proof. intros La Lb Lc. rewrite <- (bxor_assoc a b c) by congruence. rewrite (bxor_comm b c). apply bxor_assoc; congruence. Qed.
  Lemma snd_cpw P b Q : snd (cpw P b Q) = snd Q. Proof. destruct b; reflexivity. Qed.

  (* ---------- completeness ---------- *)
  Theorem fp_complete_gen prog : forall l la s s' Sg S S' F rr ra, Forall okp prog -> good (fst s) (snd s) -> Inv (fst s) Sg -> wf F ->
    eqs S (shift F Sg) -> realize extr rr prog l -> sim_run n s l s' -> realize exta ra prog la -> sem_run S la S' ->
    exists g zs, wf g /\ Sg g /\ fprun (pmul F g) rr ra zs prog l = la.
  Proof.
    induction prog as [|p prog IH]; intros l la s s' Sg S S' F rr ra Hok G I HF Heq Hre Hrun Hra Halt.
    - inversion Hre; subst. inversion Hra; subst. exists Idn, [].
      split; [apply wf_Idn|]. split; [exact (st_id n (fst s) (snd s) Sg G I)| reflexivity].
    - inversion Hok as [|? ? Ho Hok']; subst.
      inversion Hre as [| ? C Ci ? l' Hre' | ? M b ? l' Hre' | ? P c ? l' Hre']; subst;
        inversion Hra as [| ? C2 Ci2 ? la' Hra' | ? M2 b' ? la' Hra' | ? P2 c2 ? la' Hra']; subst;
        inversion Hrun as [|? ? ? s1 ? ? Hstep Hrest]; subst;
        inversion Halt as [|? ? ? Sa1 ? ? Hastep Harest]; subst; cbn [okp] in Ho.
      + destruct (step_back s (OpU C Ci) None s1 Sg S F None Sa1 Ho G I HF Heq Hstep Hastep) as (Sg1 & F1 & G1 & I1 & WF1 & Heq1 & Hback).
        destruct (IH l' la' s1 s' Sg1 Sa1 S' F1 rr ra Hok' G1 I1 WF1 Heq1 Hre' Hrest Hra' Harest) as (g' & zs & Wg' & Sg' & E).
        destruct (Hback g' Wg' Sg') as (g & z & Wg & Sg_g & _ & Eb). cbn [fstepz fst snd] in Eb.
        exists g, (z :: zs). split; [exact Wg|]. split; [exact Sg_g|]. cbn [fprun tl]. f_equal.
        rewrite <- E. apply fprun_bits; [exact Hok'| now apply wf_pmul| exact Eb].
      + destruct (step_back s (OpM M) (Some b) s1 Sg S F (Some b') Sa1 Ho G I HF Heq Hstep Hastep) as (Sg1 & F1 & G1 & I1 & WF1 & Heq1 & Hback).
        destruct (IH l' la' s1 s' Sg1 Sa1 S' F1 (b :: rr) (b' :: ra) Hok' G1 I1 WF1 Heq1 Hre' Hrest Hra' Harest) as (g' & zs & Wg' & Sg' & E).
        destruct (Hback g' Wg' Sg') as (g & z & Wg & Sg_g & Er & Eb). cbn [fstepz fst snd option_map] in Er, Eb. injection Er as Er.
        exists g, (z :: zs). split; [exact Wg|]. split; [exact Sg_g|]. cbn [fprun hd tl]. rewrite Er. f_equal.
        rewrite <- E. apply fprun_bits; [exact Hok'| now apply wf_pmul| exact Eb].
      + set (br := cval extr rr c) in *. set (ba := cval exta ra c) in *.
        destruct (step_refines n s _ None s1 Sg G I Hstep) as (Sg1 & Hsem1 & G1 & I1).
        inversion Hsem1; subst. inversion Hastep; subst.
        assert (HF1 : wf (if xorb br ba then pmul F P else F)) by (destruct (xorb br ba); [apply wf_pmul; assumption| exact HF]).
        destruct (IH l' la' s1 s' _ _ S' _ rr ra Hok' G1 I1 HF1 (pf_shift S Sg F P br ba HF Ho Heq) Hre' Hrest Hra' Harest)
          as (g' & zs & Wg' & Sg' & E).
        exists (cpw P br g'), (false :: zs). split; [exact (cpw_wf P br g' Wg')|]. split; [exact Sg'|].
        cbn [fprun tl]. fold br ba. f_equal. rewrite <- E.
        apply fprun_bits; [exact Hok'| now apply wf_pmul|].
        unfold Refine.wf in *. destruct (xorb br ba); unfold pmul; cbn [snd]; rewrite snd_cpw; [|reflexivity].
        apply bxor_swap; assumption.
  Qed.

  (* ---------- from the group of the initial state ---------- *)
  Theorem fp_sound prog l s s' Sg g rr ra zs : Forall okp prog -> good (fst s) (snd s) -> Inv (fst s) Sg -> wf g -> Sg g ->
    realize extr rr prog l -> sim_run n s l s' ->
    exists S', sem_run Sg (fprun g rr ra zs prog l) S' /\ realize exta ra prog (fprun g rr ra zs prog l).
  Proof.
    intros Hok G I Wg Hg Hre Hrun.
    exact (fp_sound_gen prog l s s' Sg Sg g rr ra zs Hok G I Wg (shift_group n (fst s) (snd s) Sg g G I Wg Hg) Hre Hrun).
  Qed.
  Theorem fp_complete prog l la s s' Sg S' rr ra : Forall okp prog -> good (fst s) (snd s) -> Inv (fst s) Sg ->
    realize extr rr prog l -> sim_run n s l s' -> realize exta ra prog la -> sem_run Sg la S' ->
    exists g zs, wf g /\ Sg g /\ fprun g rr ra zs prog l = la.
  Proof.
    intros Hok G I Hre Hrun Hra Halt.
    assert (Heq : eqs Sg (shift Idn Sg)).
    { intros P HP. unfold shift. rewrite acom_Idn, neg_false. reflexivity. }
    destruct (fp_complete_gen prog l la s s' Sg Sg S' Idn rr ra Hok G I (wf_Idn n) Heq Hre Hrun Hra Halt) as (g & zs & Wg & Hg & E).
    exists g, zs. split; [exact Wg|]. split; [exact Hg|]. rewrite <- E. symmetry. apply fprun_bits; [exact Hok| exact Wg|].
    unfold pmul, Run.Idn; cbn [snd]. unfold Refine.wf in Wg. rewrite <- Wg, bxor_comm. apply bxor_zeros_r.
  Qed.
  (* the frame sampler's outputs are exactly the runs of the program (under the shot's external bits) that the semantics allows *)
  Corollary fp_exact prog l la s s' Sg rr ra : Forall okp prog -> good (fst s) (snd s) -> Inv (fst s) Sg ->
    realize extr rr prog l -> sim_run n s l s' ->
    ((exists g zs, wf g /\ Sg g /\ fprun g rr ra zs prog l = la) <-> (realize exta ra prog la /\ exists S', sem_run Sg la S')).
  Proof.
    intros Hok G I Hre Hrun. split.
    - intros (g & zs & Wg & Hg & E). subst la.
      destruct (fp_sound prog l s s' Sg g rr ra zs Hok G I Wg Hg Hre Hrun) as (S' & Hs & Hr). split; [exact Hr| exists S'; exact Hs].
    - intros (Hra & S' & Halt). exact (fp_complete prog l la s s' Sg S' rr ra Hok G I Hre Hrun Hra Halt).
  Qed.
End FrameProg.
Print Assumptions fp_exact.

(* ---------- Stim's instructions as programs (n qubits) ---------- *)
(* single-qubit Paulis as XZ-form strings *)
Definition unit_bits (n q : nat) (x z : bool) : bits := zeros q ++ (x, z) :: zeros (n - q - 1).
Definition Zq (n q : nat) : pauli := (z4_0, unit_bits n q false true).
Definition Xq (n q : nat) : pauli := (z4_0, unit_bits n q true false).
(* M q = measure Z_q;  R q = measure Z_q (kept in the record of the model), then X_q if the result was 1;  MR q = the same with
   the result visible;  CX rec[-k] q = X_q controlled by the k-th most recent result;  CX sweep[k] q = X_q controlled by external
   bit k;  X_ERROR(p) q with fault bit k = X_q controlled by external bit k (reference: all external bits 0). *)
Definition prog_M (n q : nat) : list pop := [PM (Zq n q)].
Definition prog_R (n q : nat) : list pop := [PM (Zq n q); PF (Xq n q) (CRec 0)].
Definition prog_CX_rec (n k q : nat) : list pop := [PF (Xq n q) (CRec k)].
Definition prog_CX_ext (n k q : nat) : list pop := [PF (Xq n q) (CExt k)].
Lemma unit_bits_length n q x z : q < n -> length (unit_bits n q x z) = n.
Proof. intros H. unfold unit_bits. rewrite app_length. cbn [length]. rewrite !zeros_length. lia. Qed.
Lemma bxor_unit_self n q x z : bxor (unit_bits n q x z) (unit_bits n q x z) = zeros (length (unit_bits n q x z)).
Proof. apply Run.bxor_self. Qed.
Lemma Zq_herm n q : q < n -> Run.herm n (Zq n q).
Proof.
  intros H. split; [apply unit_bits_length, H|]. unfold pmul, Zq, Run.Idn; cbn [fst snd]. rewrite bxor_unit_self, unit_bits_length by exact H.
  f_equal. unfold unit_bits. rewrite zx_par_app by reflexivity. rewrite zx_par_zeros_l. cbn. now rewrite zx_par_zeros_l.
Qed.
Lemma stim_programs_ok n k q : q < n ->
  Forall (okp n) (prog_M n q) /\ Forall (okp n) (prog_R n q) /\ Forall (okp n) (prog_CX_rec n k q) /\ Forall (okp n) (prog_CX_ext n k q).
Proof.
  intros H. pose proof (Zq_herm n q H) as HZ. assert (HX : Refine.wf n (Xq n q)) by (apply unit_bits_length, H).
  unfold prog_M, prog_R, prog_CX_rec, prog_CX_ext. repeat split; repeat (constructor; [cbn [okp]; assumption|]); constructor.
Qed.
Print Assumptions stim_programs_ok.

(* the sampler's rule for R q is Stim's: afterwards the frame has no X component on q (it commutes with Z_q), whatever it was and
   whatever the randomisation bit; only position q changes *)
Lemma acom_Xq_Zq n q : q < n -> acom (Xq n q) (Zq n q) = true.
Proof.
  intros H. unfold acom, symp, Xq, Zq, unit_bits; cbn [snd]. rewrite !zx_par_app by reflexivity. rewrite !zx_par_zeros_l. cbn.
  now rewrite !zx_par_zeros_l.
Qed.
Lemma acom_Zq_Zq n q : acom (Zq n q) (Zq n q) = false.
Proof. unfold acom, symp. apply xorb_nilpotent. Qed.
Theorem reset_clears_x n q F (z : bool) : q < n -> Refine.wf n F ->
  let F1 := if z then pmul F (Zq n q) else F in
  let F2 := if acom F (Zq n q) then pmul F1 (Xq n q) else F1 in
  acom F2 (Zq n q) = false.
Proof.
  intros H HF F1 F2. pose proof (Zq_herm n q H) as [WZ _]. assert (WX : Refine.wf n (Xq n q)) by (apply unit_bits_length, H).
  assert (E1 : acom F1 (Zq n q) = acom F (Zq n q)).
  { unfold F1. destruct z; [|reflexivity]. rewrite (acom_pmul_l n F (Zq n q) (Zq n q) HF WZ WZ), acom_Zq_Zq. apply xorb_false_r. }
  assert (W1 : Refine.wf n F1) by (unfold F1; destruct z; [apply wf_pmul; assumption| exact HF]).
  unfold F2. destruct (acom F (Zq n q)) eqn:E; [|now rewrite E1].
  rewrite (acom_pmul_l n F1 (Xq n q) (Zq n q) W1 WX WZ), E1, acom_Xq_Zq by exact H. reflexivity.
Qed.
Print Assumptions reset_clears_x.
