(* Non-vacuity of the program-level theorems: every well-formed adaptive program has a reference run of the simulator, under any
   external bits, from any tracked state and with any coin policy. *)
From Coq Require Import List Bool Arith Lia.
Import ListNotations.
Require Import Pauli Collapse Sem Refine ApProps Run FrameRun FrameComplete FrameProg.

Section ProgRuns.
  Variable n : nat.
  Theorem prog_run_exists (c : bool) ext prog : forall rec s, Forall (okp n) prog -> Run.good n (fst s) (snd s) ->
    exists l s', realize ext rec prog l /\ sim_run n s l s' /\ Run.good n (fst s') (snd s').
  Proof.
    induction prog as [|o p IH]; intros rec s Hok G.
    - exists [], s. split; [constructor|]. split; [constructor| exact G].
    - inversion Hok as [|? ? Ho Hok']; subst. destruct s as [T Ti]. cbn [fst snd] in *.
      assert (Hnext : forall o1 r1 s1, sim_step n (T, Ti) o1 r1 s1 -> Run.good n (fst s1) (snd s1)).
      { intros o1 r1 s1 Hs. destruct (step_refines n (T, Ti) o1 r1 s1 (fun P => Zplus (T P)) G (fun P _ => iff_refl _) Hs) as (_ & _ & G1 & _). exact G1. }
      destruct o as [C Ci|M|P ct]; cbn [okp] in Ho.
      + assert (Hs : sim_step n (T, Ti) (OpU C Ci) None (fun Q => T (Ci Q), fun Q => C (Ti Q))) by (apply SU, Ho).
        destruct (IH rec _ Hok' (Hnext _ _ _ Hs)) as (l & s' & Hre & Hrun & G').
        exists ((OpU C Ci, None) :: l), s'. split; [constructor; exact Hre|]. split; [econstructor; eassumption| exact G'].
      + destruct (measurement_always_steps n T Ti M c G Ho) as (r & s1 & Hs).
        assert (Er : exists b, r = Some b) by (inversion Hs; subst; eexists; reflexivity). destruct Er as [b ->].
        destruct (IH (b :: rec) s1 Hok' (Hnext _ _ _ Hs)) as (l & s' & Hre & Hrun & G').
        exists ((OpM M, Some b) :: l), s'. split; [constructor; exact Hre|]. split; [econstructor; eassumption| exact G'].
      + set (b := cval ext rec ct).
        assert (Hs : sim_step n (T, Ti) (OpU (cpw P b) (cpw P b)) None (fun Q => T (cpw P b Q), fun Q => cpw P b (Ti Q))) by (apply SU, cpw_good, Ho).
        destruct (IH rec _ Hok' (Hnext _ _ _ Hs)) as (l & s' & Hre & Hrun & G').
        exists ((OpU (cpw P b) (cpw P b), None) :: l), s'. split; [apply RF; exact Hre|]. split; [econstructor; eassumption| exact G'].
  Qed.
End ProgRuns.
Print Assumptions prog_run_exists.
