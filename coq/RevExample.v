(* A concrete instance of RevProg / DemBridge: two ZZ measurements compared by a detector, an X fault and a Z fault between them. *)
From Coq Require Import List Bool NArith.
Import ListNotations.
Require Import Pauli Collapse Sem Refine Run FrameRun FrameProg RevTrack RevProg DemBridge DemFlat DemSample.
Definition ZZ : pauli := (z4_0, [(false, true); (false, true)]).
Definition X1 : pauli := (z4_0, [(false, false); (true, false)]).
Definition Z1 : pauli := (z4_0, [(false, false); (false, true)]).
Definition rep_round : list pop := [PM ZZ; PF X1 (CExt 0); PF Z1 (CExt 1); PM ZZ].
Definition det : list bool := [true; false; false; true].
Example rep_round_example :
  Forall (okp 2) rep_round /\ gauge_okp 2 rep_round det /\
  fst (bt 2 rep_round det) = (z4_0, [(false, false); (false, false)]) /\
  symptom 2 rep_round det 0 = true /\ symptom 2 rep_round det 1 = false /\
  (forall x, shot_of (dem_of 2 (fun _ => false) (fun j => Nat.eqb j 0) rep_round [det] [0; 1]) x = (match x with TD 0%N => true | _ => false end)).
Proof.
  split. { repeat constructor. }
  split. { vm_compute. repeat split. }
  split. { vm_compute. reflexivity. }
  split. { vm_compute. reflexivity. }
  split. { vm_compute. reflexivity. }
  intros x. destruct x as [i|i|]; [destruct i as [|p]; [vm_compute; reflexivity| destruct p; vm_compute; reflexivity]| vm_compute; reflexivity| vm_compute; reflexivity].
Qed.
Print Assumptions rep_round_example.
