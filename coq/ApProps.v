(* The Clifford applied by collapse_qubit_z at pivot position p (Collapse.Ap) is itself a bijective, phase-linear, length-preserving
   homomorphism of XZ-form Paulis: what is needed to iterate Refine.collapse_refines_measure along a whole run. *)
From Coq Require Import List Bool Arith Lia Ring.
Import ListNotations.
Require Import Pauli Collapse.

Lemma z4_aux (a b : z4) (x y : bool) : z4_add (z4_add a b) (z4_two (xorb x y)) = z4_add (z4_two x) (z4_add (z4_add a b) (z4_two y)).
Proof. destruct a as [[] []], b as [[] []], x, y; reflexivity. Qed.

Lemma A0_phase ms h e k P : A0 ms h e (z4_add k (fst P), snd P) = (z4_add k (fst (A0 ms h e P)), snd (A0 ms h e P)).
Proof. destruct P as [kP [|p tl]]; unfold A0; cbn [fst snd]; [reflexivity|]. f_equal. ring. Qed.
Lemma A0_length ms h e P : length (snd P) = S (length ms) -> length (snd (A0 ms h e P)) = S (length ms).
Proof. destruct P as [kP [|p tl]]; cbn [snd length]; intros H; [lia|]. unfold A0; cbn [fst snd length]. rewrite cn_bits_length by lia. lia. Qed.
Lemma A0inv_phase ms h e k P : A0inv ms h e (z4_add k (fst P), snd P) = (z4_add k (fst (A0inv ms h e P)), snd (A0inv ms h e P)).
Proof. destruct P as [kP [|p tl]]; unfold A0inv; cbn [fst snd]; [reflexivity|]. f_equal. ring. Qed.
Lemma A0inv_length ms h e P : length (snd P) = S (length ms) -> length (snd (A0inv ms h e P)) = S (length ms).
Proof. destruct P as [kP [|p tl]]; cbn [snd length]; intros H; [lia|]. unfold A0inv; cbn [fst snd length]. rewrite cn_bits_length by lia. lia. Qed.

Definition Apinv (p : nat) (ms : list bool) (h e : bool) (P : pauli) : pauli :=
  let r := A0inv ms h e (fst P, skipn p (snd P)) in (fst r, firstn p (snd P) ++ snd r).

Section Ap.
  Variables (p : nat) (ms : list bool) (h e : bool).
  Let n := p + S (length ms).
  Definition wfp (P : pauli) : Prop := length (snd P) = n.

  Lemma split_wf P : wfp P -> length (firstn p (snd P)) = p /\ length (skipn p (snd P)) = S (length ms).
  Proof. unfold wfp, n. intros H. rewrite firstn_length, skipn_length. lia. Qed.

  Lemma Ap_length P : wfp P -> wfp (Ap p ms h e P).
  Proof. intros H. destruct (split_wf P H) as [H1 H2]. unfold wfp, Ap; cbn [snd]. rewrite app_length, H1, A0_length by exact H2. reflexivity. Qed.
  Lemma Apinv_length P : wfp P -> wfp (Apinv p ms h e P).
  Proof. intros H. destruct (split_wf P H) as [H1 H2]. unfold wfp, Apinv; cbn [snd]. rewrite app_length, H1, A0inv_length by exact H2. reflexivity. Qed.

  Lemma Ap_phase k P : Ap p ms h e (z4_add k (fst P), snd P) = (z4_add k (fst (Ap p ms h e P)), snd (Ap p ms h e P)).
  Proof. unfold Ap; cbn [fst snd]. pose proof (A0_phase ms h e k (fst P, skipn p (snd P))) as E. cbn [fst snd] in E.
    apply (f_equal (fun r : pauli => (fst r, firstn p (snd P) ++ snd r))) in E. cbn [fst snd] in E. exact E. Qed.

  Lemma Ap_id : Ap p ms h e (z4_0, zeros n) = (z4_0, zeros n).
  Proof.
    unfold Ap, n; cbn [fst snd]. unfold zeros. rewrite repeat_app, skipn_app, firstn_app, !repeat_length, Nat.sub_diag.
    cbn [skipn firstn]. rewrite skipn_all2, firstn_all2 by (rewrite repeat_length; lia). cbn [app]. rewrite app_nil_r.
    fold (zeros (S (length ms))). rewrite A0_id. reflexivity.
  Qed.

  Lemma Ap_hom P Q : wfp P -> wfp Q -> pmul (Ap p ms h e P) (Ap p ms h e Q) = Ap p ms h e (pmul P Q).
  Proof.
    intros HP HQ. destruct (split_wf P HP) as [P1 P2]. destruct (split_wf Q HQ) as [Q1 Q2].
    destruct P as [kP lP], Q as [kQ lQ]. cbn [snd] in *.
    set (pp := firstn p lP) in *. set (sp := skipn p lP) in *. set (qp := firstn p lQ) in *. set (sq := skipn p lQ) in *.
    assert (EP : lP = pp ++ sp) by (symmetry; apply firstn_skipn). assert (EQ : lQ = qp ++ sq) by (symmetry; apply firstn_skipn).
    pose proof (A0_hom ms h e (kP, sp) (kQ, sq) P2 Q2) as Hh.
    pose proof (A0_length ms h e (kP, sp) P2) as LA. pose proof (A0_length ms h e (kQ, sq) Q2) as LB.
    set (A := A0 ms h e (kP, sp)) in *. set (B := A0 ms h e (kQ, sq)) in *.
    assert (EAp : Ap p ms h e (kP, lP) = (fst A, pp ++ snd A)) by reflexivity.
    assert (EBp : Ap p ms h e (kQ, lQ) = (fst B, qp ++ snd B)) by reflexivity.
    rewrite EAp, EBp. unfold pmul at 1. cbn [fst snd].
    rewrite zx_par_app, bxor_app by lia.
    (* right-hand side *)
    unfold pmul at 1. cbn [fst snd]. rewrite EP, EQ at 1. rewrite EP, EQ. rewrite zx_par_app, bxor_app by lia.
    unfold Ap. cbn [fst snd].
    assert (Lb : length (bxor pp qp) = p) by (rewrite bxor_length; lia).
    assert (Es : skipn p (bxor pp qp ++ bxor sp sq) = bxor sp sq) by (rewrite <- Lb; apply skipn_app_len).
    assert (Ef : firstn p (bxor pp qp ++ bxor sp sq) = bxor pp qp) by (rewrite <- Lb; apply firstn_app_len).
    rewrite Es, Ef.
    (* phase bookkeeping *)
    replace (z4_add (z4_add kP kQ) (z4_two (xorb (zx_par pp qp) (zx_par sp sq))))
      with (z4_add (z4_two (zx_par pp qp)) (z4_add (z4_add kP kQ) (z4_two (zx_par sp sq))))
      by (destruct (zx_par pp qp), (zx_par sp sq), kP as [[] []], kQ as [[] []]; reflexivity).
    set (k' := z4_add (z4_add kP kQ) (z4_two (zx_par sp sq))) in *.
    assert (Hh' : pmul A B = A0 ms h e (k', bxor sp sq)) by exact Hh.
    pose proof (A0_phase ms h e (z4_two (zx_par pp qp)) (k', bxor sp sq)) as Eph. cbn [fst snd] in Eph.
    unfold pauli, bits in *. rewrite Eph, <- Hh'. unfold pmul. cbn [fst snd]. f_equal.
    apply z4_aux.
  Qed.

  Lemma split_app (a b : bits) : length a = p -> skipn p (a ++ b) = b /\ firstn p (a ++ b) = a.
  Proof. intros H. rewrite <- H. split; [apply skipn_app_len| apply firstn_app_len]. Qed.

  Lemma Apinv_Ap P : wfp P -> Apinv p ms h e (Ap p ms h e P) = P.
  Proof.
    intros HP. destruct (split_wf P HP) as [P1 P2]. destruct P as [kP lP]. cbn [snd] in *.
    unfold Apinv, Ap. cbn [fst snd].
    destruct (split_app (firstn p lP) (snd (A0 ms h e (kP, skipn p lP))) P1) as [Es Ef]. rewrite Es, Ef.
    rewrite <- surjective_pairing. rewrite A0inv_A0 by exact P2. cbn [fst snd]. now rewrite firstn_skipn.
  Qed.
  Lemma Ap_Apinv P : wfp P -> Ap p ms h e (Apinv p ms h e P) = P.
  Proof.
    intros HP. destruct (split_wf P HP) as [P1 P2]. destruct P as [kP lP]. cbn [snd] in *.
    unfold Apinv, Ap. cbn [fst snd].
    destruct (split_app (firstn p lP) (snd (A0inv ms h e (kP, skipn p lP))) P1) as [Es Ef]. rewrite Es, Ef.
    rewrite <- surjective_pairing. rewrite A0_A0inv by exact P2. cbn [fst snd]. now rewrite firstn_skipn.
  Qed.
End Ap.
