From Coq Require Import List Bool Arith NArith String Ascii Lia.
Import ListNotations.
Local Open Scope nat_scope.

(* ---------- Hermitian Pauli strings with symbolic signs ---------- *)
Definition pz := (bool * bool)%type.                 (* (x,z) *)
Definition bits := list pz.
(* affine form over coin variables: constant, coin mask (bit k = coin k) *)
Definition form := (bool * N)%type.
Definition fxor (a b : form) : form := (xorb (fst a) (fst b), N.lxor (snd a) (snd b)).
Definition fzero : form := (false, 0%N).
Definition fconst (b : bool) : form := (b, 0%N).
Definition fflip (f : form) (b : bool) : form := (xorb (fst f) b, snd f).
Definition gen := (form * bits)%type.

(* exponent of i of p*q relative to the hermitian p xor q, as nat mod 4 *)
Definition ph1 (p q : pz) : nat :=
  match p, q with
  | (true,false),(true,true) | (true,true),(false,true) | (false,true),(true,false) => 1
  | (true,true),(true,false) | (false,true),(true,true) | (true,false),(false,true) => 3
  | _, _ => 0 end.
Fixpoint ph (a b : bits) : nat := match a, b with p :: a', q :: b' => ph1 p q + ph a' b' | _, _ => 0 end.
Fixpoint bxor (a b : bits) : bits :=
  match a, b with p :: a', q :: b' => (xorb (fst p) (fst q), xorb (snd p) (snd q)) :: bxor a' b' | _, _ => [] end.
(* product of two commuting hermitian strings: sign picks up (ph mod 4 = 2) *)
Definition gmul (a b : gen) : gen :=
  (fflip (fxor (fst a) (fst b)) (Nat.eqb (ph (snd a) (snd b) mod 4) 2), bxor (snd a) (snd b)).
Fixpoint anti (a b : bits) : bool :=
  match a, b with p :: a', q :: b' => xorb (xorb (andb (fst p) (snd q)) (andb (snd p) (fst q))) (anti a' b') | _, _ => false end.

Fixpoint get (q : nat) (l : bits) : pz := match l, q with [], _ => (false,false) | p :: _, 0 => p | _ :: r, S k => get k r end.
Fixpoint set (q : nat) (v : pz) (l : bits) : bits := match l, q with [], _ => [] | _ :: r, 0 => v :: r | p :: r, S k => p :: set k v r end.
Definition single (n q : nat) (p : pz) : bits := set q p (repeat (false,false) n).

(* ---------- gate actions from flow data: images of X and Z (1q) or X_,Z_,_X,_Z (2q) as (sign, local bits) ---------- *)
Definition limg := (bool * list pz)%type.
Definition lmul (extra : nat) (a b : limg) : limg :=
  let k := (ph (snd a) (snd b) + extra + (if xorb (fst a) (fst b) then 2 else 0)) mod 4 in
  (Nat.eqb k 2, bxor (snd a) (snd b)).
Definition limg_id (k : nat) : limg := (false, repeat (false,false) k).
Definition img_of (k : nat) (fx fz : limg) (p : pz) : limg :=
  match p with (false,false) => limg_id k | (true,false) => fx | (false,true) => fz | (true,true) => lmul 1 fx fz end.
Definition act1 (flows : list limg) (p : pz) : limg :=
  match flows with [fx; fz] => img_of 1 fx fz p | _ => limg_id 1 end.
Definition act2 (flows : list limg) (p q : pz) : limg :=
  match flows with [fx1; fz1; fx2; fz2] => lmul 0 (img_of 2 fx1 fz1 p) (img_of 2 fx2 fz2 q) | _ => limg_id 2 end.

Definition conj1 (flows : list limg) (q : nat) (g : gen) : gen :=
  match act1 flows (get q (snd g)) with
  | (s, [p']) => (fflip (fst g) s, set q p' (snd g))
  | _ => g end.
Definition conj2 (flows : list limg) (a b : nat) (g : gen) : gen :=
  match act2 flows (get a (snd g)) (get b (snd g)) with
  | (s, [pa; pb]) => (fflip (fst g) s, set b pb (set a pa (snd g)))
  | _ => g end.

(* ---------- state and measurement ---------- *)
Record state := { gens : list gen; ncoins : nat }.
Definition init (n : nat) : state := {| gens := map (fun q => (fzero, single n q (false,true))) (seq 0 n); ncoins := 0 |}.

(* GF(2) elimination to express P (bits) as a product of generators; returns the accumulated product *)
(* we eliminate on generator bit-vectors directly: keep a list of (reduced vector, product so far) pivots *)
Fixpoint first_one (l : bits) (k : nat) : option nat :=     (* index in the flattened x then z order is not needed: use position of first nonidentity pauli and which bit *)
  match l with [] => None | (x,z) :: r => if x then Some (2*k) else if z then Some (2*k+1) else first_one r (S k) end.
Definition bit_at (l : bits) (idx : nat) : bool := let p := get (idx / 2) l in if Nat.even idx then fst p else snd p.
(* pivots: list of (pivot index, reduced gen) with the invariant that each has its first one at pivot index *)
Fixpoint reduce (piv : list (nat * gen)) (g : gen) : gen :=
  match piv with [] => g | (i, pg) :: r => let g' := if bit_at (snd g) i then gmul g pg else g in reduce r g' end.
(* pivots must be applied in increasing pivot index for a correct reduction: insert sorted *)
Fixpoint insert_piv (i : nat) (g : gen) (piv : list (nat * gen)) : list (nat * gen) :=
  match piv with [] => [(i, g)] | (j, h) :: r => if i <? j then (i, g) :: piv else (j, h) :: insert_piv i g r end.
Fixpoint build_piv (gs : list gen) (piv : list (nat * gen)) : list (nat * gen) :=
  match gs with [] => piv | g :: r => let g' := reduce piv g in
    match first_one (snd g') 0 with Some i => build_piv r (insert_piv i g' piv) | None => build_piv r piv end end.

Definition is_anti (P : bits) (g : gen) : bool := anti P (snd g).
Fixpoint replace_first_anti (P : bits) (newg : gen) (gs : list gen) (found : option gen) : list gen :=
  match gs with
  | [] => []
  | g :: r => if is_anti P g then
                match found with
                | None => newg :: replace_first_anti P newg r (Some g)
                | Some piv => gmul g piv :: replace_first_anti P newg r found
                end
              else g :: replace_first_anti P newg r found
  end.
(* measure hermitian P (sign bit + bits); returns outcome form and new state *)
Definition measure (sgn : bool) (P : bits) (st : state) : form * state :=
  if existsb (is_anti P) (gens st) then
    let v : form := (false, N.shiftl 1 (N.of_nat (ncoins st))) in
    (v, {| gens := replace_first_anti P (fflip v sgn, P) (gens st) None; ncoins := S (ncoins st) |})
  else
    let piv := build_piv (gens st) [] in
    (* reducing the generator (0,P) by the pivots leaves (f, identity) where f = sign of the product expressing P *)
    let r := reduce piv (fzero, P) in
    (fflip (fst r) sgn, st).
Definition pauli_if (F : bits) (f : form) (st : state) : state :=
  {| gens := map (fun g => if anti F (snd g) then (fxor (fst g) f, snd g) else g) (gens st); ncoins := ncoins st |}.

(* ---------- instructions ---------- *)
Inductive basis := BX | BY | BZ.
Definition bpz (b : basis) : pz := match b with BX => (true,false) | BY => (true,true) | BZ => (false,true) end.
Definition flip_of (b : basis) : pz := match b with BX => (false,true) | _ => (true,false) end.
Inductive instr :=
| U1 (flows : list limg) (q : nat)
| U2 (flows : list limg) (a b : nat)
| Meas (sgn : bool) (P : list (nat * pz)) (invert : bool)        (* product measurement; identity product allowed *)
| Reset (b : basis) (q : nat)
| MeasReset (b : basis) (q : nat) (invert : bool)
| Feedback (p : pz) (q : nat) (lookback : nat)
| Mpad (b : bool).
Fixpoint prod_bits (n : nat) (P : list (nat * pz)) : nat * bits :=     (* phase exponent, bits *)
  match P with [] => (0, repeat (false,false) n)
  | (q, p) :: r => let '(k, acc) := prod_bits n r in
                   let s := single n q p in ((k + ph s acc) mod 4, bxor s acc) end.
Definition is_identity (l : bits) : bool := forallb (fun p => negb (orb (fst p) (snd p))) l.
Definition step (n : nat) (i : instr) (acc : state * list form) : state * list form :=
  let '(st, rec) := acc in
  match i with
  | U1 fl q => ({| gens := map (conj1 fl q) (gens st); ncoins := ncoins st |}, rec)
  | U2 fl a b => ({| gens := map (conj2 fl a b) (gens st); ncoins := ncoins st |}, rec)
  | Meas sgn P inv =>
      let '(k, B) := prod_bits n (rev P) in
      let s := xorb sgn (Nat.eqb k 2) in
      if is_identity B then (st, rec ++ [fconst (xorb s inv)])
      else let '(f, st') := measure s B st in (st', rec ++ [fflip f inv])
  | Reset b q => let '(f, st') := measure false (single n q (bpz b)) st in (pauli_if (single n q (flip_of b)) f st', rec)
  | MeasReset b q inv => let '(f, st') := measure false (single n q (bpz b)) st in
                         (pauli_if (single n q (flip_of b)) f st', rec ++ [fflip f inv])
  | Feedback p q k => (pauli_if (single n q p) (nth (List.length rec - k) rec fzero) st, rec)
  | Mpad b => (st, rec ++ [fconst b])
  end.
Definition forms_of (n : nat) (c : list instr) : list form := snd (fold_left (fun acc i => step n i acc) c (init n, [])).

(* ---------- record validity: GF(2) solvability of { form_k(coins) = r_k } ---------- *)
Fixpoint reduce_v (piv : list (N * N * bool)) (v : N) (r : bool) : N * bool :=
  match piv with [] => (v, r)
  | (top, m, rhs) :: rest => if N.testbit v top then reduce_v rest (N.lxor v m) (xorb r rhs) else reduce_v rest v r end.
Fixpoint insert_v (top m : N) (rhs : bool) (piv : list (N * N * bool)) : list (N * N * bool) :=
  match piv with [] => [(top, m, rhs)]
  | (t, m', r') :: rest => if N.ltb t top then (top, m, rhs) :: piv else (t, m', r') :: insert_v top m rhs rest end.
Fixpoint solvable_go (eqs : list (form * bool)) (piv : list (N * N * bool)) : bool :=
  match eqs with [] => true
  | (f, b) :: rest =>
      let '(v, r) := reduce_v piv (snd f) (xorb (fst f) b) in
      if N.eqb v 0 then (if r then false else solvable_go rest piv)
      else solvable_go rest (insert_v (N.log2 v) v r piv) end.
Definition check_record (n : nat) (c : list instr) (r : list bool) : bool :=
  let fs := forms_of n c in Nat.eqb (List.length fs) (List.length r) && solvable_go (combine fs r) [].
