(* Pauli frames along whole runs (the bulk sampler's principle, C02): if a reference run of the semantics reports results r_k, then
   for ANY Pauli frame F put in front of it, the run whose k-th result is r_k xor [F_k, M_k] (F_k = the frame carried through the
   Cliffords so far, [.,.] = anticommutation) is also a run the semantics allows, from the frame-shifted initial state to the
   frame-shifted final state. Every shot the frame sampler produces from a legal reference sample is therefore itself a legal
   record, for circuits of any length. Built on the one-step theorems of Sem.v. *)
From Coq Require Import List Bool Arith Lia.
Import ListNotations.
Require Import Pauli Collapse Sem Refine Run.

Section FrameRun.
  Variable n : nat.
  Notation wf := (Refine.wf n).
  Notation good := (Run.good n).

  Definition eqs (S1 S2 : state) : Prop := forall P, wf P -> (S1 P <-> S2 P).
  Lemma eqs_refl S : eqs S S. Proof. intros P _. reflexivity. Qed.

  (* a good map preserves commutation *)
  Lemma good_acom F G A B : good F G -> wf A -> wf B -> acom (F A) (F B) = acom A B.
  Proof.
    intros Hg HA HB. unfold acom.
    pose proof (pmul_comm_sign A B) as E. apply (f_equal F) in E.
    assert (Wq : wf (pmul B A)).
    { unfold Refine.wf, pmul; cbn [snd]. rewrite bxor_length; [exact HB| rewrite HA, HB; reflexivity]. }
    rewrite z4_add_comm in E. rewrite (g_phase _ _ _ Hg _ (pmul B A) Wq) in E.
    rewrite !(g_mul _ _ _ Hg) in E by assumption.
    rewrite (pmul_comm_sign (F A) (F B)) in E. apply (f_equal fst) in E. cbn [fst] in E.
    revert E. generalize (fst (pmul (F B) (F A))) as k. generalize (symp (snd (F A)) (snd (F B))) as a. generalize (symp (snd A) (snd B)) as b.
    intros [] [] [[] []] E; compute in E; congruence.
  Qed.

  Lemma post_rnd_ext_wf (S1 S2 : state) M c P : wf M -> eqs S1 S2 -> (post_rnd S1 M c P <-> post_rnd S2 M c P).
  Proof.
    intros HM H. unfold post_rnd. split; intros (eps & g & Hg & Hc & Hl & E); exists eps, g; repeat split; try assumption;
      apply H; try assumption; unfold Refine.wf; rewrite Hl; exact HM.
  Qed.

  Definition ok_op (o : op) : Prop :=
    match o with OpU C Ci => good C Ci /\ good Ci C | OpM M => herm n M end.

  (* the frame and the reported result after one step *)
  Definition fstep (F : pauli) (o : op) (r : option bool) : pauli * option bool :=
    match o with
    | OpU C _ => (C F, r)
    | OpM M => (F, option_map (fun b => xorb b (acom F M)) r)
    end.
  Fixpoint frun (F : pauli) (l : list (op * option bool)) : pauli * list (op * option bool) :=
    match l with
    | [] => (F, [])
    | (o, r) :: l' => let (F1, r1) := fstep F o r in let (F2, l2) := frun F1 l' in (F2, (o, r1) :: l2)
    end.

  Lemma neg_as_phase s P : neg s P = (z4_add (z4_two s) (fst P), snd P). Proof. reflexivity. Qed.

  Theorem frame_step F o r Sg Sg' S : ok_op o -> wf F -> eqs S (shift F Sg) -> sem_step Sg o r Sg' ->
    exists S', sem_step S o (snd (fstep F o r)) S' /\ eqs S' (shift (fst (fstep F o r)) Sg') /\ wf (fst (fstep F o r)).
  Proof.
    intros Hok HF Heq Hs. destruct Hs as [Sg C Ci | Sg M o0 Hd | Sg M c Hr]; cbn [ok_op fstep fst snd option_map] in *.
    - destruct Hok as [GC GCi]. exists (fun P => S (Ci P)). split; [constructor|]. split; [|apply (g_len _ _ _ GC), HF].
      intros P HP. assert (HCi : wf (Ci P)) by (apply (g_len _ _ _ GCi), HP).
      rewrite (Heq (Ci P) HCi). unfold shift.
      assert (Ea : acom (C F) P = acom F (Ci P)).
      { rewrite <- (g_FG _ _ _ GC P HP) at 1. apply (good_acom C Ci); assumption. }
      rewrite Ea, !neg_as_phase. rewrite (g_phase _ _ _ GCi) by exact HP. reflexivity.
    - exists S. split; [|split; [exact Heq|exact HF]]. constructor. unfold meas_det.
      apply Heq; [exact (proj1 Hok)|]. exact (frame_meas_det F Sg M o0 Hd).
    - exists (post_rnd S M (xorb c (acom F M))). split; [|split; [|exact HF]].
      + constructor. pose proof (frame_meas_rnd_ok F Sg M Hr) as [H0 H1]. split; intros H.
        * apply H0. apply Heq; [exact (proj1 Hok)|exact H].
        * apply H1. apply Heq; [exact (proj1 Hok)|exact H].
      + intros P HP. rewrite (post_rnd_ext_wf S (shift F Sg) M _ P (proj1 Hok) Heq). symmetry.
        apply frame_post_rnd; [rewrite HF; symmetry; exact (proj1 Hok)| rewrite HP; symmetry; exact (proj1 Hok)].
  Qed.

  Theorem frame_run l : forall F Sg Sg' S, Forall (fun x => ok_op (fst x)) l -> wf F -> eqs S (shift F Sg) -> sem_run Sg l Sg' ->
    exists S', sem_run S (snd (frun F l)) S' /\ eqs S' (shift (fst (frun F l)) Sg').
  Proof.
    induction l as [|[o r] l IH]; intros F Sg Sg' S Hok HF Heq Hrun; inversion Hrun; subst; cbn [frun].
    - exists S. split; [constructor| exact Heq].
    - inversion Hok as [|? ? Ho Hok']; subst. cbn [fst] in Ho.
      match goal with Hs : sem_step Sg o r ?Sg1, Hr : sem_run ?Sg1 l Sg' |- _ =>
        destruct (frame_step F o r Sg Sg1 S Ho HF Heq Hs) as (S1 & Hs1 & Heq1 & HF1);
        destruct (fstep F o r) as [F1 r1] eqn:Ef; cbn [fst snd] in *;
        destruct (IH F1 Sg1 Sg' S1 Hok' HF1 Heq1 Hr) as (S2 & Hs2 & Heq2) end.
      destruct (frun F1 l) as [F2 l2]. cbn [fst snd] in *. exists S2. split; [econstructor; eassumption| exact Heq2].
  Qed.

  (* every frame-shifted copy of a legal reference run is a legal run *)
  Corollary framed_run_is_legal l F Sg Sg' : Forall (fun x => ok_op (fst x)) l -> wf F -> sem_run Sg l Sg' ->
    exists S', sem_run (shift F Sg) (snd (frun F l)) S' /\ eqs S' (shift (fst (frun F l)) Sg').
  Proof. intros Hok HF Hr. exact (frame_run l F Sg Sg' (shift F Sg) Hok HF (eqs_refl _) Hr). Qed.
End FrameRun.
Print Assumptions framed_run_is_legal.
