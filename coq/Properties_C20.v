(* C20 — Bit-matrix kernels match their definitions; results are SIMD-width independent. *)
From Coq Require Import List NArith.
Import ListNotations.
Require Import Tr Transp Gen_Transpose GenProofs_Transpose.
Require TriInv Gen_TriInv GenProofs_TriInv.
Local Open Scope N_scope.

(* inplace_transpose_64x64 exactly as written (uint64 semantics of &, |, <<, >>, ~), with the (mask, shift) passes read from
   simd_util.cc on this run: for every 64-word block and every k, j < 64, bit j of output word k is bit k of input word j *)
Theorem C20_transpose64_correct :
  forall m k j, Forall (fun w => w < W64) m -> k < 64 -> j < 64 ->
  N.testbit (getw (fold_left (fun acc p => pass (fst p) (snd p) acc) gen_transpose_passes m) k) j = N.testbit (getw m j) k.
Proof. exact generated_transpose64_correct. Qed.
Theorem C20_generated_passes_are_the_modelled_ones : gen_transpose_passes = passes /\ gen_transpose_refused = [].
Proof. exact generated_passes_are_the_modelled_ones. Qed.
(* transposition of rectangular tables (lists of rows) is an involution: the block structure of larger transposes *)
Theorem C20_transpose_involutive :
  forall (A : Type) (r c : nat) (t : list (list A)), rect A r c t -> transpose A r (transpose A c t) = t.
Proof. exact transpose_involutive. Qed.
Print Assumptions C20_transpose64_correct. Print Assumptions C20_transpose_involutive.

(* inverse_assuming_lower_triangular, regenerated from source, is the loop of TriInv.v, and for every unit lower-triangular matrix
   of any size that loop computes X with L * X = I over GF(2). *)
Theorem C20_triangular_inverse_loop_is_the_model : GenProofs_TriInv.triinv_ok = true.
Proof. exact GenProofs_TriInv.triangular_inverse_loop_is_the_model. Qed.
Theorem C20_lower_triangular_inverse :
  forall L : nat -> TriInv.row, (forall i : nat, L i i = true) -> (forall i j : nat, (i < j)%nat -> L i j = false) ->
  forall n t k : nat, (t < n)%nat -> TriInv.xsum (fun j => andb (L t j) (TriInv.X L n j k)) n = Nat.eqb k t.
Proof. exact TriInv.lower_triangular_inverse. Qed.
Print Assumptions C20_triangular_inverse_loop_is_the_model. Print Assumptions C20_lower_triangular_inverse.
