(* Local Pauli action of a gate as documented by the (generated) gate table's flow_data, in the tuple
   shape the translated C++ routines use, plus the generic lemmas that lift a local equality to strings
   of any length and target lists of any length. *)
From Coq Require Import List Bool Arith NArith ZArith String Ascii Lia.
Import ListNotations.
Require Import Stab Gen_GateTable.
Local Open Scope nat_scope.

Fixpoint str_list (s : string) : list ascii := match s with EmptyString => [] | String c r => c :: str_list r end.
Definition pz_of_ascii (c : ascii) : pz :=
  if Ascii.eqb c "X" then (true,false) else if Ascii.eqb c "Y" then (true,true)
  else if Ascii.eqb c "Z" then (false,true) else (false,false).
Definition parse_limg (s : string) : limg :=
  match str_list s with
  | c :: r => if Ascii.eqb c "-" then (true, map pz_of_ascii r)
              else if Ascii.eqb c "+" then (false, map pz_of_ascii r) else (false, map pz_of_ascii (c :: r))
  | [] => (false, [])
  end.

Definition entry := (string * Z * Z * Z * Z * list (list (Z*Z*Z*Z)) * list string)%type.
Definition e_name (e : entry) : string := let '(n,_,_,_,_,_,_) := e in n.
Definition e_id (e : entry) : Z := let '(_,i,_,_,_,_,_) := e in i.
Definition e_inv (e : entry) : Z := let '(_,_,i,_,_,_,_) := e in i.
Definition e_flags (e : entry) : Z := let '(_,_,_,f,_,_,_) := e in f.
Definition e_nargs (e : entry) : Z := let '(_,_,_,_,a,_,_) := e in a.
Definition e_unitary (e : entry) := let '(_,_,_,_,_,u,_) := e in u.
Definition e_flows (e : entry) : list string := let '(_,_,_,_,_,_,f) := e in f.
Definition nogate : entry := (""%string, 0%Z, 0%Z, 0%Z, 0%Z, [], []).
Definition gate_named (n : string) : entry :=
  match find (fun e => String.eqb (e_name e) n) gate_table with Some e => e | None => nogate end.
Definition gate_id (i : Z) : entry :=
  match find (fun e => Z.eqb (e_id e) i) gate_table with Some e => e | None => nogate end.
(* any accepted spelling (canonical name or alias, upper-cased by the caller) -> entry, through the hash table *)
Definition gate_aliased (n : string) : entry :=
  match find (fun h => String.eqb (snd h) n) hash_table with Some h => gate_id (snd (fst h)) | None => nogate end.
Definition inverse_of (e : entry) : entry := gate_id (e_inv e).
Definition flows_of (e : entry) : list limg := map parse_limg (e_flows e).
Definition is_unitary (e : entry) : bool := Z.testbit (e_flags e) 0.
Definition is_pairs (e : entry) : bool := Z.testbit (e_flags e) 6.
Definition is_single (e : entry) : bool := Z.testbit (e_flags e) 15.
(* unitary gates with a fixed 1- or 2-qubit action (SPP/SPP_DAG have none) *)
Definition unitary1 (e : entry) : bool := is_unitary e && Nat.eqb (List.length (e_flows e)) 2.
Definition unitary2 (e : entry) : bool := is_unitary e && Nat.eqb (List.length (e_flows e)) 4.

(* the table action on (x, z, sign) resp. (x1, z1, x2, z2, sign) *)
Definition t1 := (bool * bool * bool)%type.
Definition t2 := (bool * bool * bool * bool * bool)%type.
Definition local1 (fl : list limg) (x z s : bool) : t1 :=
  match act1 fl (x,z) with (sg, [p]) => (fst p, snd p, xorb s sg) | _ => (x, z, s) end.
Definition local2 (fl : list limg) (x1 z1 x2 z2 s : bool) : t2 :=
  match act2 fl (x1,z1) (x2,z2) with
  | (sg, [p; q]) => (fst p, snd p, fst q, snd q, xorb s sg) | _ => (x1, z1, x2, z2, s) end.
Definition t1_eqb (a b : t1) : bool :=
  let '(x,z,s) := a in let '(x',z',s') := b in Bool.eqb x x' && Bool.eqb z z' && Bool.eqb s s'.
Definition t2_eqb (a b : t2) : bool :=
  let '(x1,z1,x2,z2,s) := a in let '(x1',z1',x2',z2',s') := b in
  Bool.eqb x1 x1' && Bool.eqb z1 z1' && Bool.eqb x2 x2' && Bool.eqb z2 z2' && Bool.eqb s s'.
Definition bools : list bool := [false; true].
Definition all3 : list t1 := flat_map (fun x => flat_map (fun z => map (fun s => (x,z,s)) bools) bools) bools.
Definition all5 : list t2 :=
  flat_map (fun x1 => flat_map (fun z1 => flat_map (fun x2 => flat_map (fun z2 =>
    map (fun s => (x1,z1,x2,z2,s)) bools) bools) bools) bools) bools.
Definition agree1 (f g : bool -> bool -> bool -> t1) : bool :=
  forallb (fun '(x,z,s) => t1_eqb (f x z s) (g x z s)) all3.
Definition agree2 (f g : bool -> bool -> bool -> bool -> bool -> t2) : bool :=
  forallb (fun '(x1,z1,x2,z2,s) => t2_eqb (f x1 z1 x2 z2 s) (g x1 z1 x2 z2 s)) all5.

Lemma t1_eqb_eq a b : t1_eqb a b = true -> a = b.
Proof. destruct a as [[x z] s], b as [[x' z'] s']; cbn. rewrite !andb_true_iff, !eqb_true_iff. intuition congruence. Qed.
Lemma t2_eqb_eq a b : t2_eqb a b = true -> a = b.
Proof. destruct a as [[[[x1 z1] x2] z2] s], b as [[[[x1' z1'] x2'] z2'] s']; cbn.
  rewrite !andb_true_iff, !eqb_true_iff. intuition congruence. Qed.
Lemma agree1_eq f g : agree1 f g = true -> forall x z s, f x z s = g x z s.
Proof. unfold agree1; intros H x z s. rewrite forallb_forall in H. apply t1_eqb_eq. apply (H (x,z,s)).
  destruct x, z, s; cbn; tauto. Qed.
Lemma agree2_eq f g : agree2 f g = true -> forall x1 z1 x2 z2 s, f x1 z1 x2 z2 s = g x1 z1 x2 z2 s.
Proof. unfold agree2; intros H x1 z1 x2 z2 s. rewrite forallb_forall in H. apply t2_eqb_eq.
  apply (H (x1,z1,x2,z2,s)). destruct x1, z1, x2, z2, s; cbn; intuition. Qed.

(* ---------- lifting to whole Hermitian strings (sign, bits) and target lists ---------- *)
Definition hstr := (bool * bits)%type.
Definition app1 (f : bool -> bool -> bool -> t1) (q : nat) (P : hstr) : hstr :=
  let p := get q (snd P) in let '(x,z,s) := f (fst p) (snd p) (fst P) in (s, set q (x,z) (snd P)).
Definition app2 (f : bool -> bool -> bool -> bool -> bool -> t2) (a b : nat) (P : hstr) : hstr :=
  let p := get a (snd P) in let q := get b (snd P) in
  let '(x1,z1,x2,z2,s) := f (fst p) (snd p) (fst q) (snd q) (fst P) in (s, set b (x2,z2) (set a (x1,z1) (snd P))).
(* the C++ loops: one-qubit gates broadcast over targets in order; two-qubit gates over consecutive pairs *)
Definition run1 f (ts : list nat) (P : hstr) : hstr := fold_left (fun P q => app1 f q P) ts P.
Fixpoint run2 f (ts : list nat) (P : hstr) : hstr :=
  match ts with a :: b :: r => run2 f r (app2 f a b P) | _ => P end.
Fixpoint pairs_rev (ts : list nat) : list nat := match ts with a :: b :: r => pairs_rev r ++ [a; b] | _ => [] end.

Lemma run1_ext f g : (forall x z s, f x z s = g x z s) -> forall ts P, run1 f ts P = run1 g ts P.
Proof. intros H ts; induction ts as [|q ts IH]; intros P; unfold run1; cbn [fold_left]; [reflexivity|].
  replace (app1 f q P) with (app1 g q P) by (unfold app1; rewrite H; reflexivity). apply IH. Qed.
Lemma run2_ext f g : (forall x1 z1 x2 z2 s, f x1 z1 x2 z2 s = g x1 z1 x2 z2 s) -> forall ts P, run2 f ts P = run2 g ts P.
Proof. intros H. fix IH 1. intros [|a [|b r]] P; cbn [run2]; try reflexivity.
  replace (app2 f a b P) with (app2 g a b P) by (unfold app2; rewrite H; reflexivity). apply IH. Qed.

(* swapping the two roles of a two-qubit routine (used by wrappers such as XCZ := CX with swapped arguments) *)
Definition swap2 (f : bool -> bool -> bool -> bool -> bool -> t2) : bool -> bool -> bool -> bool -> bool -> t2 :=
  fun x1 z1 x2 z2 s => let '(a,b,c,d,e) := f x2 z2 x1 z1 s in (c,d,a,b,e).
