(* Resets as derived operations of Run.v: "measure the Hermitian Pauli M, then apply a Clifford that negates M when the result was 1"
   leaves a state in which M is fixed to 0 - whichever of the two measurement cases applied.  (Stim's R / RX / RY and MR / MRX / MRY;
   the simulator realises the correction by clearing signs of the inverse tableau, see GenProofs_TabMeas.) *)
From Coq Require Import List Bool Arith Lia.
Import ListNotations.
Require Import Pauli Collapse Sem Refine Run.

Section Reset.
  Variable n : nat.
  Notation wf := (Refine.wf n).
  Variables (T Ti : pauli -> pauli) (Sg : state) (M : pauli).
  Hypothesis G : Run.good n T Ti.
  Hypothesis I : Run.Inv n T Sg.
  Hypothesis HM : Run.herm n M.

  Lemma id_in_group : Sg (z4_0, zeros n).
  Proof. apply I; [apply zeros_length|]. change (z4_0, zeros n) with (Run.Idn n). rewrite (g_id _ _ _ G). split; [reflexivity| apply xfreeb_zeros]. Qed.

  (* after a measurement with result o (either case) the state contains (-1)^o M *)
  Lemma after_fixed o : meas_det Sg M o -> Sg (neg o M).
  Proof. exact (fun H => H). Qed.
  Lemma after_free c : post_rnd Sg M c (neg c M).
  Proof.
    exists true, (z4_0, zeros n). split; [exact id_in_group|]. split; [|split].
    - unfold acom, symp. cbn [snd]. now rewrite zx_par_zeros_l, zx_par_zeros_r.
    - cbn [snd]. rewrite zeros_length. symmetry. apply HM.
    - unfold Mpow. destruct HM as [HW _]. unfold Refine.wf in HW.
      pose proof (pmul_id_r (neg c M)) as E. cbn [snd neg] in E. rewrite HW in E. symmetry. exact E.
  Qed.

  (* the correction: a Clifford (C, Ci) whose inverse action negates M, applied iff the result was 1 *)
  Variables (C Ci : pauli -> pauli).
  Hypothesis Hneg : Ci M = neg true M.
  Theorem reset_fixes_M (S1 : state) (o : bool) : S1 (neg o M) ->
    meas_det (if o then (fun P : pauli => S1 (Ci P)) else S1) M false.
  Proof.
    intros H. unfold meas_det. rewrite neg_false. destruct o; [|now rewrite neg_false in H].
    cbn beta. rewrite Hneg. exact H.
  Qed.
  Corollary reset_after_fixed (o : bool) : meas_det Sg M o -> meas_det (if o then (fun P : pauli => Sg (Ci P)) else Sg) M false.
  Proof. intros H. apply reset_fixes_M, after_fixed, H. Qed.
  Corollary reset_after_free (c : bool) : meas_det (if c then (fun P : pauli => post_rnd Sg M c (Ci P)) else post_rnd Sg M c) M false.
  Proof. apply (reset_fixes_M (post_rnd Sg M c) c), after_free. Qed.
End Reset.
Print Assumptions reset_after_fixed. Print Assumptions reset_after_free.
