(* the passes of inplace_transpose_64x64 read from simd_util.cc are exactly the ones Tr.transpose64_correct is proved for *)
From Coq Require Import List NArith.
Import ListNotations.
Require Import Tr Gen_Transpose.
Theorem generated_passes_are_the_modelled_ones : gen_transpose_passes = passes /\ gen_transpose_refused = [].
Proof. vm_compute. split; reflexivity. Qed.
Theorem generated_transpose64_correct :
  forall m k j, Forall (fun w => (w < W64)%N) m -> (k < 64)%N -> (j < 64)%N ->
  N.testbit (getw (fold_left (fun acc p => pass (fst p) (snd p) acc) gen_transpose_passes m) k) j = N.testbit (getw m j) k.
Proof. destruct generated_passes_are_the_modelled_ones as [-> _]. exact transpose64_correct. Qed.
