(* svm: hand-written (unverified) glue around the code extracted from the Coq development (sv.ml).
   Reads one command per line on stdin, prints one result line per command. *)
open Sv

let rec nat_of_int n = if n <= 0 then O else S (nat_of_int (n - 1))
let rec int_of_nat = function O -> 0 | S n -> 1 + int_of_nat n
let rec pos_of_int n = if n <= 1 then XH else if n land 1 = 0 then XO (pos_of_int (n lsr 1)) else XI (pos_of_int (n lsr 1))
let rec int_of_pos = function XH -> 1 | XO p -> 2 * int_of_pos p | XI p -> 2 * int_of_pos p + 1
let n_of_int n = if n = 0 then N0 else Npos (pos_of_int n)
let int_of_n = function N0 -> 0 | Npos p -> int_of_pos p
let z_of_int n = if n = 0 then Z0 else if n > 0 then Zpos (pos_of_int n) else Zneg (pos_of_int (-n))
let int_of_z = function Z0 -> 0 | Zpos p -> int_of_pos p | Zneg p -> - (int_of_pos p)
(* arbitrary-size N from a decimal or hex string is not needed: masks are produced inside the model *)

let ascii_of_char c =
  let n = Char.code c in
  let b k = (n lsr k) land 1 = 1 in
  Ascii (b 0, b 1, b 2, b 3, b 4, b 5, b 6, b 7)
let char_of_ascii (Ascii (b0, b1, b2, b3, b4, b5, b6, b7)) =
  let v b k = if b then 1 lsl k else 0 in
  Char.chr (v b0 0 + v b1 1 + v b2 2 + v b3 3 + v b4 4 + v b5 5 + v b6 6 + v b7 7)
let coq_string s =
  let r = ref EmptyString in
  for k = String.length s - 1 downto 0 do r := String (ascii_of_char s.[k], !r) done;
  !r
let rec ocaml_string = function EmptyString -> "" | String (c, r) -> String.make 1 (char_of_ascii c) ^ ocaml_string r

let split s = List.filter (fun x -> x <> "") (String.split_on_char ' ' s)

(* Pauli strings in stim's text form: sign then one of _ I X Y Z per qubit *)
let pz_of_char = function 'X' -> (true, false) | 'Y' -> (true, true) | 'Z' -> (false, true) | _ -> (false, false)
let char_of_pz = function (true, false) -> 'X' | (true, true) -> 'Y' | (false, true) -> 'Z' | _ -> '_'
let parse_pauli s =
  let neg = String.length s > 0 && s.[0] = '-' in
  let body = if String.length s > 0 && (s.[0] = '-' || s.[0] = '+') then String.sub s 1 (String.length s - 1) else s in
  (neg, List.init (String.length body) (fun k -> pz_of_char body.[k]))
let show_pauli (neg, bits) =
  (if neg then "-" else "+") ^ String.concat "" (List.map (fun p -> String.make 1 (char_of_pz p)) bits)

let gate_by_name name = gate_aliased (coq_string (Stdlib.String.uppercase_ascii name))

let handlers : (Stdlib.String.t, Stdlib.String.t list -> Stdlib.String.t) Hashtbl.t = Hashtbl.create 64
let reg name f = Hashtbl.replace handlers name f

(* conjc PAULI | G t t ; G t t ; ... : table action of each instruction in order (targets broadcast in order) *)
let split_on tok l =
  let rec go cur acc = function
    | [] -> List.rev (List.rev cur :: acc)
    | x :: r when x = tok -> go [] (List.rev cur :: acc) r
    | x :: r -> go (x :: cur) acc r in
  go [] [] l
let apply_instr inverse p = function
  | [] -> p
  | g :: ts ->
    let e0 = gate_by_name g in
    let e = if inverse then inverse_of e0 else e0 in
    let ts = List.map (fun t -> nat_of_int (int_of_string t)) ts in
    if unitary1 e then run1 (local1 (flows_of e)) (if inverse then List.rev ts else ts) p
    else if unitary2 e then
      let rec pairs = function a :: b :: r -> (a, b) :: pairs r | _ -> [] in
      let ts' = if inverse then List.concat_map (fun (a, b) -> [a; b]) (List.rev (pairs ts)) else ts in
      run2 (local2 (flows_of e)) ts' p
    else failwith ("not a fixed unitary: " ^ g)
let () = reg "conjc" (fun args ->
  match split_on "|" args with
  | [[ps]; rest] ->
    let instrs = split_on ";" rest in
    show_pauli (List.fold_left (apply_instr false) (parse_pauli ps) instrs)
  | _ -> "BAD")
(* iconjc: the specification of `before`: inverse gates, instructions and target groups in reverse order *)
let () = reg "iconjc" (fun args ->
  match split_on "|" args with
  | [[ps]; rest] ->
    let instrs = List.rev (split_on ";" rest) in
    show_pauli (List.fold_left (apply_instr true) (parse_pauli ps) instrs)
  | _ -> "BAD")

(* mul A B : log_i exponent (0..3) of the Hermitian product and the resulting string, per Stab.ph / Stab.bxor *)
let () = reg "mul" (fun args ->
  match args with
  | [a; b] ->
    let (sa, ba) = parse_pauli a and (sb, bb) = parse_pauli b in
    let k = (int_of_nat (ph ba bb) + (if sa <> sb then 2 else 0)) mod 4 in
    Printf.sprintf "%d %s" k (show_pauli (false, bxor ba bb))
  | _ -> "BAD")

let () = reg "commutes" (fun args ->
  match args with
  | [a; b] -> let (_, ba) = parse_pauli a and (_, bb) = parse_pauli b in if anti ba bb then "0" else "1"
  | _ -> "BAD")

(* ---------------- specification runs (Spec.v) ---------------- *)
let hex_of_n (n : n) : Stdlib.String.t =
  match n with
  | N0 -> "0"
  | Npos p ->
    let rec bits p acc = match p with XH -> true :: acc | XO q -> bits q (false :: acc) | XI q -> bits q (true :: acc) in
    (* bits returns most-significant first *)
    let bl = bits p [] in
    let len = List.length bl in
    let pad = (4 - len mod 4) mod 4 in
    let bl = List.init pad (fun _ -> false) @ bl in
    let buf = Buffer.create 16 in
    let rec go = function
      | a :: b :: c :: d :: r ->
        let v = (if a then 8 else 0) + (if b then 4 else 0) + (if c then 2 else 0) + (if d then 1 else 0) in
        Buffer.add_char buf "0123456789abcdef".[v]; go r
      | _ -> () in
    go bl; Buffer.contents buf
let n_of_hex (h : Stdlib.String.t) : n =
  (* build positive from most significant bit *)
  let acc = ref N0 in
  Stdlib.String.iter (fun c ->
    let v = if c <= '9' then Char.code c - 48 else Char.code (Char.lowercase_ascii c) - 87 in
    for k = 3 downto 0 do
      let b = (v lsr k) land 1 = 1 in
      acc := (match !acc with
              | N0 -> if b then Npos XH else N0
              | Npos p -> Npos (if b then XI p else XO p))
    done) h;
  !acc
let show_form ((c, m) : bool * n) = (if c then "1:" else "0:") ^ hex_of_n m
let parse_form (s : Stdlib.String.t) : bool * n =
  match Stdlib.String.split_on_char ':' s with
  | [c; m] -> (c = "1", n_of_hex m)
  | _ -> failwith ("bad form " ^ s)
let parse_pprod toks =
  List.map (fun t -> match Stdlib.String.split_on_char ':' t with
    | [q; p] -> (nat_of_int (int_of_string q), pz_of_char p.[0])
    | _ -> failwith ("bad pauli term " ^ t)) toks
let basis_of = function "X" -> BX | "Y" -> BY | _ -> BZ
let parse_ctrl t =
  if t.[0] = 'r' then CRec (nat_of_int (int_of_string (Stdlib.String.sub t 1 (Stdlib.String.length t - 1))))
  else CVar (n_of_int (int_of_string (Stdlib.String.sub t 1 (Stdlib.String.length t - 1))))
let nat_i t = nat_of_int (int_of_string t)
let parse_sinstr toks =
  match toks with
  | ["U1"; g; q] -> SU1 (z_of_int (int_of_string g), nat_i q)
  | ["U2"; g; a; b] -> SU2 (z_of_int (int_of_string g), nat_i a, nat_i b)
  | "M" :: inv :: ps -> SMeas (parse_pprod ps, inv = "1")
  | ["R"; b; q] -> SReset (basis_of b, nat_i q)
  | ["MR"; b; q; inv] -> SMeasReset (basis_of b, nat_i q, inv = "1")
  | "IF" :: c :: ps -> SPauliIf (parse_pprod ps, parse_ctrl c)
  | ["FLIP"; v] -> SFlipLast (n_of_int (int_of_string v))
  | ["RECV"; v] -> SRecVar (n_of_int (int_of_string v))
  | ["MPAD"; b] -> SMpad (b = "1")
  | "DET" :: ks -> SDetector (List.map nat_i ks)
  | "OBS" :: idx :: rest ->
    let ks = List.filter (fun t -> not (Stdlib.String.contains t ':')) rest in
    let ps = List.filter (fun t -> Stdlib.String.contains t ':') rest in
    SObservable (nat_i idx, List.map nat_i ks, parse_pprod ps)
  | "PROBE" :: ps -> SProbe (parse_pprod ps)
  | "SPP" :: dag :: ps -> SSpp (parse_pprod ps, dag = "1")
  | _ -> failwith ("bad spec instruction: " ^ Stdlib.String.concat " " toks)
let parse_spec args =
  match split_on ";" args with
  | [n; base] :: instrs ->
    (nat_i n, nat_i base, List.map parse_sinstr (List.filter (fun l -> l <> []) instrs))
  | _ -> failwith "spec header"
let show_bits_gen ((f, b) : (bool * n) * (bool * bool) list) =
  show_form f ^ "/" ^ Stdlib.String.concat "" (List.map (fun p -> Stdlib.String.make 1 (char_of_pz p)) b)
(* spec n base ; instr ; instr ... -> forms of record, detectors, observables, probes *)
let () = reg "spec" (fun args ->
  let (n, base, c) = parse_spec args in
  let r = srun n base c in
  Printf.sprintf "rec=%s det=%s obs=%s probe=%s ncoins=%d"
    (Stdlib.String.concat "," (List.map show_form r.recs))
    (Stdlib.String.concat "," (List.map show_form r.dets))
    (Stdlib.String.concat "," (List.map (fun (i, f) -> Printf.sprintf "%d=%s" (int_of_nat i) (show_form f)) r.obs))
    (Stdlib.String.concat "," (List.map (function None -> "?" | Some f -> show_form f) r.probes))
    (int_of_nat r.st.ncoins))
let () = reg "specgens" (fun args ->
  let (n, base, c) = parse_spec args in
  let r = srun n base c in
  Stdlib.String.concat " " (List.map show_bits_gen r.st.gens))
(* consistent m ; form=bit ; form=bit ... -> 1/0 by the verified GF(2) solver *)
let () = reg "consistent" (fun args ->
  match split_on ";" args with
  | [m] :: eqs ->
    let eqs = List.concat_map (fun l -> List.map (fun t ->
      match Stdlib.String.split_on_char '=' t with
      | [f; b] -> (parse_form f, b = "1")
      | _ -> failwith "bad equation") l) eqs in
    if consistent (nat_i m) eqs then "1" else "0"
  | _ -> "BAD")

(* ---------------- result formats (R8.v, B8.v, Formats.v) ---------------- *)
let bits_of_string s = List.init (Stdlib.String.length s) (fun k -> s.[k] = '1')
let string_of_bits l = Stdlib.String.concat "" (List.map (fun b -> if b then "1" else "0") l)
let hex_of_ints l = Stdlib.String.concat "" (List.map (fun v -> Printf.sprintf "%02x" v) l)
let ints_of_hex h = List.init (Stdlib.String.length h / 2) (fun k -> int_of_string ("0x" ^ Stdlib.String.sub h (2 * k) 2))
let rec chunks8 l = match l with
  | a :: b :: c :: d :: e :: f :: g :: h :: r -> let (cs, t) = chunks8 r in ([a; b; c; d; e; f; g; h] :: cs, t)
  | _ -> ([], l)
(* fmtenc FORMAT BITS -> hex of the model's bytes for one record *)
let () = reg "fmtenc" (fun args ->
  match args with
  | fmt :: rest ->
    let bits = bits_of_string (match rest with b :: _ -> b | [] -> "") in
    (match fmt with
     | "r8" -> hex_of_ints (List.map int_of_nat (impl_enc bits))
     | "r8spec" -> hex_of_ints (List.map int_of_nat (spec_enc bits))
     | "r8bytes" -> let (cs, t) = chunks8 bits in hex_of_ints (List.map int_of_nat (impl_enc_bytes cs t))
     | "b8" -> hex_of_ints (List.map int_of_n (b8_write bits []))
     | "01" -> hex_of_ints (List.map int_of_n (enc01 bits))
     | "hits" -> hex_of_ints (List.map int_of_n (enc_hits (List.map (fun k -> n_of_int (int_of_nat k)) (true_positions bits O))))
     | _ -> "BAD-FORMAT")
  | _ -> "BAD")
(* fmtdec FORMAT N HEX -> "S bits REST hex" | "BAD" | "EOF" : the model reader on one record *)
let () = reg "fmtdec" (fun args ->
  match args with
  | fmt :: n :: rest ->
    let n = int_of_string n in
    let bytes = ints_of_hex (match rest with h :: _ -> h | [] -> "") in
    let from_hits hits = Stdlib.String.init n (fun k -> if List.mem k hits then '1' else '0') in
    (match fmt with
     | "r8" ->
       (match dec (nat_of_int n) (List.map nat_of_int bytes) O [] with
        | Done (hits, r) -> "S " ^ from_hits (List.map int_of_nat hits) ^ " REST " ^ hex_of_ints (List.map int_of_nat r)
        | Bad -> if bytes = [] then "EOF" else "BAD")
     | "b8" ->
       if bytes = [] && n > 0 then "EOF" else if List.length bytes < (n + 7) / 8 then "BAD" else
       let (l, r) = b8_read (nat_of_int n) (List.map n_of_int bytes) in
       "S " ^ string_of_bits l ^ " REST " ^ hex_of_ints (List.map int_of_n r)
     | "01" ->
       if bytes = [] then "EOF" else
       (match dec01 (nat_of_int n) (List.map n_of_int bytes) with
        | Some (l, r) -> "S " ^ string_of_bits l ^ " REST " ^ hex_of_ints (List.map int_of_n r)
        | None -> "BAD")
     | "hits" ->
       (match dec_hits (nat_of_int (List.length bytes + 1)) true (List.map n_of_int bytes) [] with
        | HDone (hits, r) ->
          let hs = List.map int_of_n hits in
          if List.exists (fun h -> h >= n) hs then "BAD" else
          (* the dense reader XORs duplicate indices *)
          let s = Bytes.make n '0' in
          List.iter (fun h -> Bytes.set s h (if Bytes.get s h = '1' then '0' else '1')) hs;
          "S " ^ Bytes.to_string s ^ " REST " ^ hex_of_ints (List.map int_of_n r)
        | HEof -> "EOF"
        | HBad -> "BAD")
     | _ -> "BAD-FORMAT")
  | _ -> "BAD")

(* ---------------- saturating counts (Counts.v) ---------------- *)
let n_of_decimal (s : Stdlib.String.t) : n =
  match read_dec (List.init (Stdlib.String.length s) (fun k -> n_of_int (Char.code s.[k]))) with
  | Some (v, _) -> v
  | None -> failwith ("bad number " ^ s)
let decimal_of_n (v : n) : Stdlib.String.t =
  Stdlib.String.concat "" (List.map (fun d -> Stdlib.String.make 1 (Char.chr (int_of_n d))) (print_dec v))
(* counts TOKENS : a nested program  "5 ( 1000 3 ( 2 7 ) ) 4"  -> "<saturating count as the code computes it> <exact count>" *)
let () = reg "counts" (fun args ->
  let rec parse toks =
    match toks with
    | [] -> ([], [])
    | ")" :: rest -> ([], rest)
    | "(" :: r :: rest ->
      let (body, rest') = parse rest in
      let (more, rest'') = parse rest' in
      (Repeat (n_of_decimal r, body) :: more, rest'')
    | t :: rest -> let (more, rest') = parse rest in (Op (n_of_decimal t) :: more, rest') in
  let (prog, _) = parse args in
  decimal_of_n (sat_block prog) ^ " " ^ decimal_of_n (exact_block prog))

(* ---------------- DEM flattening (DemFlat.v) ---------------- *)
(* demflat TOKENS : "E 3 D0 L1 ^ D2 | D D5 | O L1 | S 4 | ( 3 ... )" items separated by '|' inside a block
   -> the flattened stream by the recursive model and by naive execution of the unrolled model *)
let parse_dtarget t =
  if t = "^" then TSep
  else if t.[0] = 'D' then TD (n_of_decimal (Stdlib.String.sub t 1 (Stdlib.String.length t - 1)))
  else TL (n_of_decimal (Stdlib.String.sub t 1 (Stdlib.String.length t - 1)))
let show_dtarget = function TD i -> "D" ^ decimal_of_n i | TL i -> "L" ^ decimal_of_n i | TSep -> "^"
let show_out l =
  Stdlib.String.concat ";" (List.map (function
    | OErr (p, ts) -> "E " ^ decimal_of_n p ^ " " ^ Stdlib.String.concat " " (List.map show_dtarget ts)
    | ODet ts -> "D " ^ Stdlib.String.concat " " (List.map show_dtarget ts)
    | OObs ts -> "O " ^ Stdlib.String.concat " " (List.map show_dtarget ts)) l)
let () = reg "demflat" (fun args ->
  let rec parse toks =
    (* returns (instructions, remaining tokens) ; stops at ")" *)
    match toks with
    | [] -> ([], [])
    | ")" :: rest -> ([], rest)
    | "|" :: rest -> parse rest
    | "(" :: r :: rest ->
      let (body, rest') = parse rest in
      let (more, rest'') = parse rest' in
      (IRep (nat_of_int (int_of_string r), body) :: more, rest'')
    | "E" :: p :: rest ->
      let rec take acc = function (("|" | ")" | "(") :: _) as r -> (List.rev acc, r) | [] -> (List.rev acc, []) | t :: r -> take (t :: acc) r in
      let (ts, rest') = take [] rest in
      let (more, rest'') = parse rest' in
      (IErr (n_of_decimal p, List.map parse_dtarget ts) :: more, rest'')
    | (("D" | "O") as k) :: rest ->
      let rec take acc = function (("|" | ")" | "(") :: _) as r -> (List.rev acc, r) | [] -> (List.rev acc, []) | t :: r -> take (t :: acc) r in
      let (ts, rest') = take [] rest in
      let (more, rest'') = parse rest' in
      ((if k = "D" then IDet (List.map parse_dtarget ts) else IObs (List.map parse_dtarget ts)) :: more, rest'')
    | "S" :: n :: rest -> let (more, rest') = parse rest in (IShift (n_of_decimal n) :: more, rest')
    | t :: _ -> failwith ("demflat token " ^ t) in
  let (m, _) = parse args in
  let (o1, off1) = flat m N0 in
  let (o2, off2) = exec (unroll m) N0 in
  show_out o1 ^ " # " ^ decimal_of_n off1 ^ " # " ^ (if o1 = o2 && off1 = off2 then "same" else "DIFFERENT"))

(* ---------------- 64x64 transpose (Tr.v) ---------------- *)
(* transpose64 w0 w1 ... w63 (hex words) -> transposed words by the model of inplace_transpose_64x64 *)
let () = reg "transpose64" (fun args ->
  let m = List.map n_of_hex args in
  let r = transpose64 m in
  Stdlib.String.concat " " (List.map (fun w -> let h = hex_of_n w in Stdlib.String.make (16 - Stdlib.String.length h) '0' ^ h) r))

(* ---------------- biased_randomize_bits without truncation leftover (CoinWord.v) ---------------- *)
(* brbexact top inverted n w0 w1 ... (raw generator words, hex) -> the n words written *)
let () = reg "brbexact" (fun args ->
  match args with
  | top :: inv :: n :: ws ->
    let r = brb_exact (nat_i top) (inv = "1") (nat_i n) (List.map n_of_hex ws) in
    Stdlib.String.concat " " (List.map (fun w -> let h = hex_of_n w in Stdlib.String.make (16 - Stdlib.String.length h) '0' ^ h) r)
  | _ -> "BAD")

(* ---------------- final qubit coordinates with loops (QCoords.v) ---------------- *)
(* qcoords MAXQ NCOMP ; S d,d ; Q a,a q,q ; R n ; ... ; E   (R n opens a block repeated n+1 times, E closes it)
   -> "ff: q=c,c ... | s,s  ex: ..." : fast-forward model and, when small, the unrolled execution *)
let decimal_of_z (v : z) : Stdlib.String.t = match v with Z0 -> "0" | Zpos p -> decimal_of_n (Npos p) | Zneg p -> "-" ^ decimal_of_n (Npos p)
let zlist t = if t = "-" then [] else List.map (fun x -> z_of_int (int_of_string x)) (Stdlib.String.split_on_char ',' t)
let () = reg "qcoords" (fun args ->
  match split_on ";" args with
  | [maxq; ncomp; unroll] :: rest ->
    let rec parse (toks : Stdlib.String.t list list) : cmd list * Stdlib.String.t list list =
      match toks with
      | [] -> ([], [])
      | ["E"] :: r -> ([], r)
      | ["S"; d] :: r -> let (l, r') = parse r in (Shift (zlist d) :: l, r')
      | ["Q"; a; qs] :: r ->
        let (l, r') = parse r in
        (QC (zlist a, List.map (fun x -> nat_of_int (int_of_string x)) (Stdlib.String.split_on_char ',' qs)) :: l, r')
      | ["R"; n] :: r ->
        let (body, r1) = parse r in
        let (l, r2) = parse r1 in
        (Rep (n_of_decimal n, body) :: l, r2)
      | t :: _ -> failwith ("qcoords token " ^ Stdlib.String.concat " " t) in
    let (prog, _) = parse rest in
    let show (st : (nat -> z) * (nat -> z list option)) =
      let (sh, m) = st in
      let qs = List.init (int_of_string maxq) (fun q -> q) in
      let cs = List.filter_map (fun q -> match m (nat_of_int q) with
        | Some v -> Some (Printf.sprintf "%d=%s" q (Stdlib.String.concat "," (List.map decimal_of_z v)))
        | None -> None) qs in
      Stdlib.String.concat " " cs ^ " | " ^
      Stdlib.String.concat "," (List.init (int_of_string ncomp) (fun k -> decimal_of_z (sh (nat_of_int k)))) in
    "ff: " ^ show (ffl prog (vzero, cempty)) ^ (if unroll = "1" then " ex: " ^ show (execl prog (vzero, cempty)) else "")
  | _ -> "BAD")

(* ---------------- target lists (TargetList.v) ---------------- *)
(* tgtread HEX -> "OK d,d,... | HEXREST | HEX of write_targets" (d = GateTarget::data as the implementation stores it) or "ERR" *)
let target_data (t : target) : int =
  let v n = int_of_string (decimal_of_n n) in
  match t with
  | TQubit (inv, q) -> v q lor (if inv then 1 lsl 31 else 0)
  | TPauli (inv, p, q) -> v q lor (if inv then 1 lsl 31 else 0) lor (match p with PX -> 1 lsl 30 | PZ -> 1 lsl 29 | PY -> (1 lsl 30) lor (1 lsl 29))
  | TRec k -> v k lor (1 lsl 28)
  | TSweep k -> v k lor (1 lsl 26)
  | TCombiner -> 1 lsl 27
let () = reg "tgtread" (fun args ->
  match args with
  | [h] ->
    let bytes = List.map n_of_int (ints_of_hex h) in
    (match read_targets (nat_of_int (List.length bytes + 2)) true bytes with
     | RErr -> "ERR"
     | ROk (ts, rest) ->
       "OK " ^ Stdlib.String.concat "," (List.map (fun t -> string_of_int (target_data t)) ts) ^ " | " ^
       hex_of_ints (List.map (fun n -> int_of_string (decimal_of_n n)) rest) ^ " | " ^
       hex_of_ints (List.map (fun n -> int_of_string (decimal_of_n n)) (write_targets ts)))
  | _ -> "BAD")

(* dtgtread HEX -> "OK kind:value,... | HEXREST | HEX of write_dtargets" (kind D / L / S) or "ERR" *)
let () = reg "dtgtread" (fun args ->
  match args with
  | [h] ->
    let bytes = List.map n_of_int (ints_of_hex h) in
    (match read_dtargets (nat_of_int (List.length bytes + 2)) bytes with
     | DErr -> "ERR"
     | DOk (ts, rest) ->
       "OK " ^ Stdlib.String.concat "," (List.map (function DDet n -> "D" ^ decimal_of_n n | DObs n -> "L" ^ decimal_of_n n | DSep -> "^") ts) ^ " | " ^
       hex_of_ints (List.map (fun n -> int_of_string (decimal_of_n n)) rest) ^ " | " ^
       hex_of_ints (List.map (fun n -> int_of_string (decimal_of_n n)) (write_dtargets ts)))
  | _ -> "BAD")

(* gate decompositions (Mpp.v). Targets: X5 !Y3 Z0 (Pauli targets), * (combiner), b7 (classical bit). *)
let mtgt_of_tok (t : Stdlib.String.t) : mtgt =
  if t = "*" then MComb
  else if t.[0] = 'b' then MBit (nat_of_int (int_of_string (Stdlib.String.sub t 1 (Stdlib.String.length t - 1))))
  else
    let inv = t.[0] = '!' in
    let t' = if inv then Stdlib.String.sub t 1 (Stdlib.String.length t - 1) else t in
    let (x, z) = pz_of_char t'.[0] in
    MP (x, z, inv, nat_of_int (int_of_string (Stdlib.String.sub t' 1 (Stdlib.String.length t' - 1))))
let show_oinstrs (l : (ogate * otgt list) list) : Stdlib.String.t =
  let gname = function GH -> "H" | GHYZ -> "H_YZ" | GCX -> "CX" | GM -> "M" | GMPAD -> "MPAD" | GS -> "S" | GSDAG -> "S_DAG" in
  let tname = function OQ (q, inv) -> (if inv then "!" else "") ^ string_of_int (int_of_nat q) | OB b -> "b" ^ string_of_int (int_of_nat b) in
  Stdlib.String.concat " ; " (List.map (fun (g, ts) -> Stdlib.String.concat " " (gname g :: List.map tname ts)) l)
let () = reg "mpp" (fun args ->
  match args with
  | n :: toks -> (match decompose_mpp (nat_of_int (int_of_string n)) (List.map mtgt_of_tok toks) with
                  | Some l -> "OK " ^ show_oinstrs l | None -> "ERR")
  | _ -> "BAD")
let () = reg "spp" (fun args ->
  match args with
  | n :: dag :: toks -> (match decompose_spp (nat_of_int (int_of_string n)) (dag = "1") (List.map mtgt_of_tok toks) with
                         | Some l -> "OK " ^ show_oinstrs l | None -> "ERR")
  | _ -> "BAD")
let () = reg "pairsegs" (fun args ->
  let ps = List.map (fun t -> match Stdlib.String.split_on_char ',' t with
    | [a; b] -> (nat_of_int (int_of_string a), nat_of_int (int_of_string b)) | _ -> failwith "pair") args in
  "OK " ^ Stdlib.String.concat " ; " (List.map (fun seg ->
    Stdlib.String.concat " " (List.map (fun (a, b) -> string_of_int (int_of_nat a) ^ " " ^ string_of_int (int_of_nat b)) seg)) (pair_segments ps)))
let () = reg "revsegs" (fun args ->
  let ts = List.map (fun t -> if t = "-" then None else Some (nat_of_int (int_of_string t))) args in
  "OK " ^ Stdlib.String.concat " ; " (List.map (fun seg ->
    Stdlib.String.concat " " (List.map (function Some q -> string_of_int (int_of_nat q) | None -> "-") seg)) (rev_segments ts)))

let () =
  (try
     while true do
       let line = input_line stdin in
       match split line with
       | [] -> print_newline ()
       | cmd :: args ->
         (match Hashtbl.find_opt handlers cmd with
          | Some f -> (try print_endline (f args) with e -> print_endline ("EXN " ^ Printexc.to_string e))
          | None -> print_endline ("UNKNOWN " ^ cmd))
     done
   with End_of_file -> ())
